(* Accept_lemmas.v — the three places where the node judges a transaction:
     1. verifyBlock, on every new block of a neighbor's chain (model/Chain.v: verify_block, verify),
     2. addTransaction, admission to the pool (model/Pool.v: pool_add),
     3. Validate, block production (model/Pool.v: validate / produce_loop).
   At each of them: the exact-arithmetic value bound of C01 and the authorization of C03,
   against the registry state the code consults there. *)
From Coq Require Import Lia ZArith NArith.
From RV Require Import model.Base model.Ledger model.Registry model.Chain model.Sync model.Pool.
From RV Require Import proofs.Pool_lemmas proofs.Sync_lemmas proofs.Chain_verify proofs.Ledger_fee.
Local Open Scope N_scope.

(* proofs/Pool_lemmas.v has its own copy of the exact sum; it is the same function *)
Lemma sumN_pool_eq (l : list N) : Pool_lemmas.sumN l = Ledger_fee.sumN l.
Proof. reflexivity. Qed.

(* ------------------------------------------------------------ list helpers *)

Lemma Forall2_In_l {A B} (R : A -> B -> Prop) : forall (l : list A) (m : list B) (x : A),
  Forall2 R l m -> In x l -> exists y, In y m /\ R x y.
Proof.
  intros l m x HF. induction HF as [|a b l m Hab _ IH]; intros Hin.
  - destruct Hin.
  - destruct Hin as [Hx|Hx].
    + subst x. exists b. split; [left; reflexivity|exact Hab].
    + destruct (IH Hx) as [y [Hy HR]]. exists y. split; [right; exact Hy|exact HR].
Qed.

Lemma Forall2_impl {A B} (R Q : A -> B -> Prop) : forall (l : list A) (m : list B),
  (forall a b, R a b -> Q a b) -> Forall2 R l m -> Forall2 Q l m.
Proof.
  intros l m Himp HF. induction HF as [|a b l m Hab _ IH]; constructor; [apply Himp, Hab|exact IH].
Qed.

Lemma has_input_not_reward (t : tx) (i : input) : In i (ins t) -> is_reward t = false.
Proof. unfold is_reward. destruct (ins t) as [|x r]; [intros []|reflexivity]. Qed.

Section Accept.
  Variable value_fn : N -> bool -> Z -> N.
  Variable addr_of : string -> string.
  Variable sig_ok : input -> bool.
  Variable H : block -> hash.
  Variable gen_id : slice input -> slice output -> Z -> string.
  Variable S : settings.
  Variable validator : string.

  Local Notation CF := (calc_fee value_fn addr_of).
  Local Notation VBLOCK := (verify_block value_fn addr_of sig_ok S).
  Local Notation VERIFY := (verify value_fn addr_of sig_ok H S).
  Local Notation VLOOP := (verify_loop value_fn addr_of sig_ok H S).
  Local Notation VSTEP := (verify_step value_fn addr_of sig_ok H S).
  Local Notation POOL_ADD := (pool_add value_fn addr_of sig_ok S).
  Local Notation VALIDATE := (validate value_fn addr_of sig_ok H gen_id S validator).
  Local Notation KEEPS := (keeps value_fn addr_of sig_ok S).
  Local Notation GREEDY := (greedy value_fn addr_of sig_ok S).
  Local Notation GFEES := (greedy_fees value_fn addr_of sig_ok S).
  Local Notation UPDATE := (update value_fn addr_of sig_ok H S).

  (* ---------------------------------------------------------------- vocabulary *)

  (* the outputs the transaction [t] consumes in the registry state [reg], each of them
     owned by the address of the public key its input names *)
  Definition spends (reg : ureg) (t : tx) (us : list utxo) : Prop :=
    Forall2 (fun i u => find_utxo reg i = Ok u /\ o_addr (u_out u) = addr_of (i_key i)) (ins t) us.

  (* C01 for one transaction: what it pays out plus the minimal fee is, in exact arithmetic,
     at most what the outputs it consumes are worth at [ts] *)
  Definition tx_bound (reg : ureg) (t : tx) (ts : Z) : Prop :=
    exists us, spends reg t us /\
      sumN (map o_val (outs t)) + s_fee S <= sumN (map (fun u => utxo_value value_fn u ts) us).

  (* C03 for one transaction: every input signed, every key owns what it spends *)
  Definition tx_authorized (reg : ureg) (t : tx) : Prop :=
    verify_sigs sig_ok t = true /\ exists us, spends reg t us.

  (* [f] is at most what the transaction leaves over *)
  Definition leftover (reg : ureg) (t : tx) (ts : Z) (f : N) : Prop :=
    exists us, spends reg t us /\
      sumN (map o_val (outs t)) + f <= sumN (map (fun u => utxo_value value_fn u ts) us).

  Lemma tx_bound_leftover (reg : ureg) (t : tx) (ts : Z) :
    tx_bound reg t ts <-> leftover reg t ts (s_fee S).
  Proof. unfold tx_bound, leftover. tauto. Qed.

  Lemma leftover_le (reg : ureg) (t : tx) (ts : Z) (f g : N) :
    g <= f -> leftover reg t ts f -> leftover reg t ts g.
  Proof. intros Hle [us [Hs Hb]]. exists us. split; [exact Hs|lia]. Qed.

  Lemma spends_unique (reg : ureg) (t : tx) (us us' : list utxo) :
    spends reg t us -> spends reg t us' -> us = us'.
  Proof. unfold spends. apply spent_unique. Qed.

  (* what [tx_authorized] says input by input *)
  Lemma tx_authorized_inputs (reg : ureg) (t : tx) :
    tx_authorized reg t ->
    Forall (fun i => sig_ok i = true /\
                     exists u, find_utxo reg i = Ok u /\ o_addr (u_out u) = addr_of (i_key i)) (ins t).
  Proof.
    intros [Hs [us Hsp]]. apply verify_sigs_spec in Hs. unfold spends in Hsp.
    apply Forall_forall. intros i Hi. split.
    - rewrite Forall_forall in Hs. apply Hs, Hi.
    - destruct (Forall2_In_l _ _ _ i Hsp Hi) as [u [_ Hu]]. exists u. exact Hu.
  Qed.

  Lemma inputs_tx_authorized (reg : ureg) (t : tx) :
    Forall (fun i => sig_ok i = true /\
                     exists u, find_utxo reg i = Ok u /\ o_addr (u_out u) = addr_of (i_key i)) (ins t) ->
    tx_authorized reg t.
  Proof.
    intros HF. split.
    - apply verify_sigs_spec. eapply Forall_impl; [|exact HF]. intros i [Hi _]. exact Hi.
    - unfold spends. induction (ins t) as [|i r IH].
      + exists []. constructor.
      + inversion HF as [|i0 r0 [_ [u Hu]] HFr]; subst i0 r0.
        destruct (IH HFr) as [us Hus]. exists (u :: us). constructor; assumption.
  Qed.

  (* ------------------------------------------------ CalculateFee, restated *)

  Lemma calc_fee_leftover (fee : N) (reg : ureg) (t : tx) (ts : Z) (f : N) :
    CF fee reg t ts = Ok f -> leftover reg t ts f /\ fee <= f.
  Proof.
    intros Hc. apply calc_fee_exact in Hc. destruct Hc as [us [Hsp [Hle [Hfee _]]]].
    split; [exists us; split; [exact Hsp|exact Hle]|exact Hfee].
  Qed.

  Lemma calc_fee_bound (reg : ureg) (t : tx) (ts : Z) (f : N) :
    CF (s_fee S) reg t ts = Ok f -> tx_bound reg t ts.
  Proof.
    intros Hc. apply calc_fee_leftover in Hc. destruct Hc as [Hl Hfee].
    apply tx_bound_leftover. exact (leftover_le _ _ _ _ _ Hfee Hl).
  Qed.

  Lemma calc_fee_spends (fee : N) (reg : ureg) (t : tx) (ts : Z) (f : N) :
    CF fee reg t ts = Ok f -> exists us, spends reg t us.
  Proof.
    intros Hc. apply calc_fee_exact in Hc. destruct Hc as [us [Hsp _]]. exists us. exact Hsp.
  Qed.

  Lemma calc_fee_authorized (fee : N) (reg : ureg) (t : tx) (ts : Z) (f : N) :
    verify_sigs sig_ok t = true -> CF fee reg t ts = Ok f -> tx_authorized reg t.
  Proof. intros Hs Hc. split; [exact Hs|exact (calc_fee_spends _ _ _ _ _ Hc)]. Qed.

  (* an input whose key does not own an existing output makes CalculateFee fail *)
  Lemma calc_fee_unowned_err (fee : N) (reg : ureg) (t : tx) (ts : Z) (i : input) :
    In i (ins t) ->
    ~ (exists u, find_utxo reg i = Ok u /\ o_addr (u_out u) = addr_of (i_key i)) ->
    exists e, CF fee reg t ts = Err e /\ (e = EUnknownId \/ e = ENoIndex \/ e = EOwner).
  Proof.
    intros Hin Hno. unfold calc_fee.
    destruct (inputs_value value_fn addr_of reg (ins t) ts 0) as [iv|e] eqn:Ei.
    - exfalso. apply inputs_value_sound in Ei. destruct Ei as [us [HF _]].
      destruct (Forall2_In_l _ _ _ i HF Hin) as [u [_ Hu]]. apply Hno. exists u. exact Hu.
    - exists e. split; [reflexivity|]. exact (inputs_value_err _ _ _ _ _ _ _ Ei).
  Qed.

  Lemma calc_fee_wrong_owner_err (fee : N) (reg : ureg) (t : tx) (ts : Z) (i : input) (u : utxo) :
    In i (ins t) -> find_utxo reg i = Ok u -> o_addr (u_out u) <> addr_of (i_key i) ->
    exists e, CF fee reg t ts = Err e /\ (e = EUnknownId \/ e = ENoIndex \/ e = EOwner).
  Proof.
    intros Hin Hf Hne. apply (calc_fee_unowned_err fee reg t ts i Hin).
    intros [u' [Hf' Ho]]. rewrite Hf in Hf'. inversion Hf'; subst u'. contradiction.
  Qed.

  Lemma unsigned_verify_sigs (t : tx) (i : input) :
    In i (ins t) -> sig_ok i = false -> verify_sigs sig_ok t = false.
  Proof.
    intros Hin Hs. destruct (verify_sigs sig_ok t) eqn:E; [|reflexivity].
    apply verify_sigs_spec in E. rewrite Forall_forall in E. rewrite (E i Hin) in Hs. discriminate Hs.
  Qed.

  (* =========================================================== 1. adopted blocks *)

  Definition ordinary (b : block) : list tx := filter (fun t => negb (is_reward t)) (txs b).

  Lemma verify_block_bounds (c : cstate) (b : block) (prev_ts now : Z) :
    VBLOCK c b prev_ts now = Ok tt ->
    Forall (fun t => is_reward t = false ->
                     tx_bound (ur c) t (b_ts b) /\ tx_authorized (ur c) t) (txs b) /\
    exists (fees : list N) (rt : tx),
      Forall2 (fun t f => leftover (ur c) t (b_ts b) f) (ordinary b) fees /\
      In rt (txs b) /\ is_reward rt = true /\
      length (filter is_reward (txs b)) = 1%nat /\
      reward_value rt <= sumN fees.
  Proof.
    intros Hv. apply verify_block_sound in Hv.
    destruct Hv as [_ [_ [Hlen [HFa [fees [rt [HF2 [Hin [Hisr Hle]]]]]]]]].
    split.
    - apply Forall_forall. intros t Ht Hord.
      rewrite Forall_forall in HFa. destruct (HFa t Ht Hord) as [_ [Hs _]].
      assert (Hf : In t (filter (fun t => negb (is_reward t)) (txs b))).
      { apply filter_In. split; [exact Ht|]. rewrite Hord. reflexivity. }
      destruct (Forall2_In_l _ _ _ t HF2 Hf) as [f [_ Hc]].
      split; [exact (calc_fee_bound _ _ _ _ Hc)|exact (calc_fee_authorized _ _ _ _ _ Hs Hc)].
    - exists fees, rt. split.
      + unfold ordinary. eapply Forall2_impl; [|exact HF2].
        intros t f Hc. apply calc_fee_leftover in Hc. apply Hc.
      + repeat split; assumption.
  Qed.

  (* the loop of verify: every iteration appends its block *)
  Lemma verify_step_chain (lh : list block) (now : Z) (i : nat) (sh : cstate) (prev : option block)
        (b : block) (sh' : cstate) :
    VSTEP lh now i sh prev b = Ok sh' -> chain sh' = chain sh ++ [b].
  Proof.
    unfold verify_step. cbv zeta. intros Hs.
    destruct (negb (hash_eqb (b_prev b) match prev with None => zero_hash | Some p => H p end));
      [discriminate Hs|].
    match type of Hs with
    | match ?x with _ => _ end = _ => destruct x as [[]|e]; [|discriminate Hs]
    end.
    destruct i as [|i'].
    - inversion Hs; reflexivity.
    - unfold add_block_raw in Hs. destruct (last_block (chain sh)) as [lb|].
      + destruct (apply_block (ur sh) (ar sh) lb) as [[u' a']|e]; [|discriminate Hs].
        inversion Hs; reflexivity.
      + inversion Hs; reflexivity.
  Qed.

  Lemma verify_loop_chain (lh : list block) (now : Z) : forall (l : list block) (i : nat) (sh : cstate)
        (prev : option block) (sh' : cstate),
    VLOOP lh now i sh prev l = Ok sh' -> chain sh' = chain sh ++ l.
  Proof.
    induction l as [|b r IH]; intros i sh prev sh' Hv; cbn [verify_loop] in Hv.
    - inversion Hv; subst sh'. rewrite app_nil_r. reflexivity.
    - destruct (VSTEP lh now i sh prev b) as [sh1|e] eqn:Es; [|discriminate Hv].
      apply IH in Hv. rewrite Hv, (verify_step_chain _ _ _ _ _ _ _ Es), <- app_assoc. reflexivity.
  Qed.

  (* "new" for the block at position [i] of the neighbor's answer: beyond the host's blocks
     of the comparison window, or differing from the host's block at that position *)
  Definition is_new_at (lh : list block) (i : nat) (b : block) : Prop :=
    (length lh <= i)%nat \/ exists hb, nth_error lh i = Some hb /\ H b <> H hb.

  Lemma is_new_at_flag (lh : list block) (i : nat) (b : block) :
    is_new_at lh i b ->
    match nth_error lh i with None => true | Some hb => negb (hash_eqb (H b) (H hb)) end = true.
  Proof.
    intros [Hlen|[hb [Hn Hne]]].
    - apply nth_error_None in Hlen. rewrite Hlen. reflexivity.
    - rewrite Hn. destruct (hash_eqb (H b) (H hb)) eqn:E; [|reflexivity].
      apply hash_eqb_eq in E. contradiction.
  Qed.

  (* the block preceding position [j] of [l], when the loop was entered with [prev] *)
  Definition prev_at_pos (prev : option block) (l : list block) (j : nat) : option block :=
    match j with O => prev | Datatypes.S j' => nth_error l j' end.

  (* the induction over the loop, generalised over the position, the shadow state and the
     previous block: every new block has passed verifyBlock against the shadow state the
     loop had reached after the blocks before it *)
  Lemma verify_loop_checks (lh : list block) (now : Z) : forall (l : list block) (i : nat) (sh : cstate)
        (prev : option block) (sh' : cstate),
    VLOOP lh now i sh prev l = Ok sh' ->
    forall (j : nat) (b : block),
      nth_error l j = Some b ->
      is_new_at lh (i + j) b ->
      ~ (prev = None /\ j = 0%nat) ->
      exists (shj : cstate) (p : block),
        VLOOP lh now i sh prev (firstn j l) = Ok shj /\
        prev_at_pos prev l j = Some p /\
        VBLOCK shj b (b_ts p) now = Ok tt.
  Proof.
    induction l as [|b0 r IH]; intros i sh prev sh' Hv j b Hn Hnew Hgen.
    - destruct j; discriminate Hn.
    - cbn [verify_loop] in Hv.
      destruct (VSTEP lh now i sh prev b0) as [sh1|e] eqn:Es; [|discriminate Hv].
      destruct j as [|j'].
      + cbn [nth_error] in Hn. inversion Hn; subst b0. clear Hn.
        rewrite Nat.add_0_r in Hnew. apply is_new_at_flag in Hnew.
        destruct prev as [p|]; [|exfalso; apply Hgen; split; reflexivity].
        exists sh, p. cbn [firstn verify_loop prev_at_pos].
        split; [reflexivity|]. split; [reflexivity|].
        unfold verify_step in Es. cbv zeta in Es.
        destruct (negb (hash_eqb (b_prev b) (H p))); [discriminate Es|].
        rewrite Hnew in Es. cbn [andb negb] in Es.
        destruct (VBLOCK sh b (b_ts p) now) as [[]|e]; [reflexivity|discriminate Es].
      + cbn [nth_error] in Hn.
        rewrite Nat.add_succ_r in Hnew. change (Datatypes.S (i + j')) with (Datatypes.S i + j')%nat in Hnew.
        assert (Hgen' : ~ (Some b0 = None /\ j' = 0%nat)) by (intros [Hc _]; discriminate Hc).
        destruct (IH (Datatypes.S i) sh1 (Some b0) sh' Hv j' b Hn Hnew Hgen') as [shj [p [Hl [Hp Hvb]]]].
        exists shj, p. cbn [firstn verify_loop]. rewrite Es.
        split; [exact Hl|]. split; [|exact Hvb].
        destruct j' as [|j'']; cbn [prev_at_pos nth_error] in *; exact Hp.
  Qed.

  (* the registers of the shadow state after the first [j] blocks: those blocks but the last
     one replayed on the initial registers (the registers lag one block behind the chain) *)
  Lemma verify_loop0_prefix_replay (lh : list block) (now : Z) (sh0 : cstate) (prev : option block)
        (l : list block) (shj : cstate) :
    VLOOP lh now 0 sh0 prev l = Ok shj ->
    replay_from (ur sh0) (ar sh0) (removelast l) = Ok (ur shj, ar shj).
  Proof.
    destruct l as [|b r]; intros Hv.
    - cbn [verify_loop] in Hv. inversion Hv; subst shj. reflexivity.
    - exact (verify_loop0_replay value_fn addr_of sig_ok H S lh now sh0 prev b r shj Hv).
  Qed.

  (* the initial registers of verify: the host's for an incremental request, empty for a full one *)
  Definition init_ur (host : cstate) (old : list block) : ureg :=
    match old with [] => ureg_empty | _ :: _ => ur host end.
  Definition init_ar (host : cstate) (old : list block) : areg :=
    match old with [] => areg_empty | _ :: _ => ar host end.

  Lemma verify_checks_new_blocks (host : cstate) (lh neigh old : list block) (now : Z) (v : list block) :
    VERIFY host lh neigh old now = Ok v ->
    forall (i : nat) (b : block),
      nth_error neigh i = Some b ->
      is_new_at lh i b ->
      ~ (old = [] /\ i = 0%nat) ->
      exists (sh : cstate) (p : block),
        prev_at_pos (last_block old) neigh i = Some p /\
        chain sh = old ++ firstn i neigh /\
        replay_from (init_ur host old) (init_ar host old) (removelast (firstn i neigh))
          = Ok (ur sh, ar sh) /\
        VBLOCK sh b (b_ts p) now = Ok tt.
  Proof.
    intros Hv i b Hn Hnew Hgen.
    set (sh0 := match old with
                | [] => mkC [] ureg_empty areg_empty
                | _ :: _ => mkC old (ur host) (ar host)
                end).
    assert (Hloop : exists sh', VLOOP lh now 0 sh0 (last_block old) neigh = Ok sh').
    { unfold verify in Hv. fold sh0 in Hv.
      destruct (VLOOP lh now 0 sh0 (last_block old) neigh) as [sh'|e] eqn:El;
        [exists sh'; reflexivity|].
      exfalso.
      destruct old as [|o old']; destruct neigh as [|n0 [|n1 nr]]; try discriminate Hv;
        try (destruct lh as [|l0 lr]; [discriminate Hv|]);
        try (destruct (negb (hash_eqb (b_prev l0) (b_prev n0))); discriminate Hv). }
    destruct Hloop as [sh' Hl].
    assert (Hgen' : ~ (last_block old = None /\ i = 0%nat)).
    { intros [Hlb Hi]. apply Hgen. split; [|exact Hi].
      destruct old as [|o old']; [reflexivity|].
      exfalso. unfold last_block in Hlb. cbn [rev] in Hlb.
      destruct (rev old' ++ [o]) as [|x xs] eqn:E; [|discriminate Hlb].
      apply app_eq_nil in E. destruct E as [_ E]. discriminate E. }
    destruct (verify_loop_checks lh now neigh 0 sh0 (last_block old) sh' Hl i b Hn Hnew Hgen')
      as [shj [p [Hlj [Hp Hvb]]]].
    exists shj, p. split; [exact Hp|].
    split.
    { rewrite (verify_loop_chain _ _ _ _ _ _ _ Hlj). unfold sh0. destruct old; reflexivity. }
    split; [|exact Hvb].
    apply verify_loop0_prefix_replay in Hlj.
    unfold init_ur, init_ar. unfold sh0 in Hlj. destruct old; exact Hlj.
  Qed.

  (* what every new block of a verified candidate satisfies *)
  Definition block_bounds (reg : ureg) (b : block) : Prop :=
    Forall (fun t => is_reward t = false -> tx_bound reg t (b_ts b) /\ tx_authorized reg t) (txs b) /\
    exists (fees : list N) (rt : tx),
      Forall2 (fun t f => leftover reg t (b_ts b) f) (ordinary b) fees /\
      In rt (txs b) /\ is_reward rt = true /\
      length (filter is_reward (txs b)) = 1%nat /\
      reward_value rt <= sumN fees.

  Lemma verify_new_blocks_bounds (host : cstate) (lh neigh old : list block) (now : Z) (v : list block) :
    VERIFY host lh neigh old now = Ok v ->
    v = neigh /\
    forall (i : nat) (b : block),
      nth_error neigh i = Some b ->
      is_new_at lh i b ->
      ~ (old = [] /\ i = 0%nat) ->
      exists (reg : ureg) (a : areg),
        replay_from (init_ur host old) (init_ar host old) (removelast (firstn i neigh)) = Ok (reg, a) /\
        block_bounds reg b.
  Proof.
    intros Hv. split; [exact (verify_returns_input _ _ _ _ _ _ _ _ _ _ _ Hv)|].
    intros i b Hn Hnew Hgen.
    destruct (verify_checks_new_blocks _ _ _ _ _ _ Hv i b Hn Hnew Hgen) as [sh [p [_ [_ [Hr Hvb]]]]].
    exists (ur sh), (ar sh). split; [exact Hr|]. exact (verify_block_bounds _ _ _ _ Hvb).
  Qed.

  (* a chain adopted by Update is the host's old blocks followed by a neighbor's answer that
     passed verify — so all of the above applies to its new blocks *)
  Lemma update_adopted_verified (st : cstate) (now : Z) (nbs : list neighbor) (pref : string)
        (st' : cstate) :
    UPDATE st now nbs pref = (st', true) ->
    exists (lh neigh old : list block),
      VERIFY st lh neigh old now = Ok neigh /\
      chain st' = old ++ neigh /\
      ((old = removelast (chain st) /\ lh = tip_of st) \/ (old = [] /\ lh = removelast (chain st))).
  Proof.
    intros Hu. apply update_verified in Hu.
    destruct Hu as [t [_ [nb [_ [_ [Hinc|Hfull]]]]]].
    - destruct Hinc as [l [v [_ [_ [Hv Hc]]]]].
      pose proof (verify_returns_input _ _ _ _ _ _ _ _ _ _ _ Hv) as E.
      rewrite E in Hv, Hc.
      exists (tip_of st), l, (removelast (chain st)).
      split; [exact Hv|]. split; [exact Hc|]. left. split; reflexivity.
    - destruct Hfull as [l [v [_ [Hv Hc]]]].
      pose proof (verify_returns_input _ _ _ _ _ _ _ _ _ _ _ Hv) as E.
      rewrite E in Hv, Hc.
      exists (removelast (chain st)), l, []. split; [exact Hv|]. split; [exact Hc|].
      right. split; reflexivity.
  Qed.

  (* ================================================================ 2. admission *)

  Lemma pool_add_bounds (n : node) (t : tx) (n' : node) :
    POOL_ADD n t = Ok n' ->
    let last := last_block_ts (chain (n_c n)) in
    let next := (last + s_interval S)%Z in
    exists (u1 u2 : ureg),
      update_utxos (ur (n_c n)) (last_block_txs (chain (n_c n))) last = Ok u1 /\
      update_utxos u1 (elems (n_pool n)) next = Ok u2 /\
      tx_bound u2 t next /\ tx_authorized u2 t.
  Proof.
    intros Hadd last next. apply pool_add_sound in Hadd. cbv zeta in Hadd.
    destruct Hadd as [_ [_ [_ [Hs [u1 [u2 [f [u3 [E1 [E2 [Hc _]]]]]]]]]]].
    exists u1, u2. split; [exact E1|]. split; [exact E2|].
    split; [exact (calc_fee_bound _ _ _ _ Hc)|exact (calc_fee_authorized _ _ _ _ _ Hs Hc)].
  Qed.

  (* =============================================================== 3. production *)

  (* the kept transactions [l] with their fees [fs], each judged at [ts] against the running
     registry: [u] for the first, then [u] updated (at [next]) by those kept before *)
  Inductive kept_ok (ts next : Z) : ureg -> list tx -> list N -> Prop :=
  | kept_ok_nil : forall u, kept_ok ts next u [] []
  | kept_ok_cons : forall u t f u' l fs,
      tx_bound u t ts -> tx_authorized u t ->
      leftover u t ts f -> s_fee S <= f ->
      update_utxos u [t] next = Ok u' ->
      kept_ok ts next u' l fs ->
      kept_ok ts next u (t :: l) (f :: fs).

  Lemma keeps_bounds (last next ts : Z) (u : ureg) (t : tx) (f : N) (u' : ureg) :
    KEEPS last next ts u t = Some (f, u') ->
    tx_bound u t ts /\ tx_authorized u t /\ leftover u t ts f /\ s_fee S <= f /\
    update_utxos u [t] next = Ok u'.
  Proof.
    intros Hk. apply keeps_iff in Hk. destruct Hk as [_ [_ [Hs [Hc Hu]]]].
    split; [exact (calc_fee_bound _ _ _ _ Hc)|].
    split; [exact (calc_fee_authorized _ _ _ _ _ Hs Hc)|].
    destruct (calc_fee_leftover _ _ _ _ _ Hc) as [Hl Hfee].
    split; [exact Hl|]. split; [exact Hfee|exact Hu].
  Qed.

  Lemma greedy_kept_ok (last next ts : Z) : forall (l : list tx) (u : ureg),
    kept_ok ts next u (GREEDY last next ts l u) (GFEES last next ts l u).
  Proof.
    induction l as [|t r IH]; intros u.
    - cbn [greedy greedy_fees]. constructor.
    - cbn [greedy greedy_fees].
      destruct (KEEPS last next ts u t) as [[f u']|] eqn:Hk.
      + destruct (keeps_bounds _ _ _ _ _ _ _ Hk) as [H1 [H2 [H3 [H4 H5]]]].
        econstructor; eauto.
      + apply IH.
  Qed.

  (* read off the inductive predicate: transaction by transaction *)
  Lemma kept_ok_forall (ts next : Z) (u : ureg) (l : list tx) (fs : list N) :
    kept_ok ts next u l fs ->
    Forall2 (fun t f => exists u1, tx_bound u1 t ts /\ tx_authorized u1 t /\
                                   leftover u1 t ts f /\ s_fee S <= f) l fs.
  Proof.
    intros Hk. induction Hk as [u|u t f u' l fs H1 H2 H3 H4 _ _ IH]; constructor; [|exact IH].
    exists u. split; [exact H1|]. split; [exact H2|]. split; [exact H3|exact H4].
  Qed.

  Lemma produce_bounds (n : node) (ts : Z) (perm : list nat) (n' : node) (d : list (string * drop)) :
    VALIDATE n ts perm = (n', Produced d) ->
    let last := last_block_ts (chain (n_c n)) in
    let next := (last + s_interval S)%Z in
    exists (kept : list tx) (fees : list N) (u0 : ureg) (rt : tx) (b : block),
      update_utxos (ur (n_c n)) (last_block_txs (chain (n_c n))) last = Ok u0 /\
      chain (n_c n') = chain (n_c n) ++ [b] /\
      b_ts b = ts /\
      txs b = kept ++ [rt] /\
      is_reward rt = true /\
      kept_ok ts next u0 kept fees /\
      reward_value rt <= (if (last =? 0)%Z then s_genesis S else 0) + sumN fees.
  Proof.
    intros Hv last next. apply validate_produced in Hv. cbv zeta in Hv.
    fold last in Hv. fold next in Hv.
    destruct Hv as [kept [reward [u0 [E0 [Hk [Hr [_ [Hc [_ [_ [Ht [Hisr [_ [Hrv _]]]]]]]]]]]]]].
    set (tried := permute perm (elems (n_pool n))) in *.
    exists kept, (GFEES last next ts tried u0), u0.
    eexists. eexists.
    split; [exact E0|]. split; [exact Hc|]. split; [reflexivity|].
    split; [exact Ht|]. split; [exact Hisr|].
    split; [rewrite Hk; apply greedy_kept_ok|].
    rewrite Hrv, Hr. rewrite <- sumN_pool_eq. apply Pool_lemmas.fold_add64_le.
  Qed.

  (* =============================================== 5. rejections (negative side) *)

  (* ---- an input without a valid signature ---- *)

  Lemma pool_add_unsigned (n : node) (t : tx) (i : input) :
    In i (ins t) -> sig_ok i = false -> exists e, POOL_ADD n t = Err e.
  Proof.
    intros Hin Hs. destruct (POOL_ADD n t) as [n'|e] eqn:E; [|exists e; reflexivity].
    apply pool_add_sound in E. cbv zeta in E. destruct E as [_ [_ [_ [Hv _]]]].
    rewrite (unsigned_verify_sigs t i Hin Hs) in Hv. discriminate Hv.
  Qed.

  Lemma keeps_unsigned (last next ts : Z) (u : ureg) (t : tx) (i : input) :
    In i (ins t) -> sig_ok i = false -> KEEPS last next ts u t = None.
  Proof.
    intros Hin Hs. destruct (KEEPS last next ts u t) as [[f u']|] eqn:E; [|reflexivity].
    apply keeps_iff in E. destruct E as [_ [_ [Hv _]]].
    rewrite (unsigned_verify_sigs t i Hin Hs) in Hv. discriminate Hv.
  Qed.

  Lemma verify_block_unsigned (c : cstate) (b : block) (prev_ts now : Z) (t : tx) (i : input) :
    In t (txs b) -> In i (ins t) -> sig_ok i = false -> exists e, VBLOCK c b prev_ts now = Err e.
  Proof.
    intros Ht Hin Hs. destruct (VBLOCK c b prev_ts now) as [[]|e] eqn:E; [|exists e; reflexivity].
    apply verify_block_sound in E. destruct E as [_ [_ [_ [HFa _]]]].
    rewrite Forall_forall in HFa.
    destruct (HFa t Ht (has_input_not_reward t i Hin)) as [_ [Hv _]].
    rewrite (unsigned_verify_sigs t i Hin Hs) in Hv. discriminate Hv.
  Qed.

  (* ---- an input whose key is not the owner of the output it names ---- *)

  Lemma pool_add_wrong_owner (n : node) (t : tx) (i : input) (u : utxo) (u1 u2 : ureg) :
    let last := last_block_ts (chain (n_c n)) in
    let next := (last + s_interval S)%Z in
    update_utxos (ur (n_c n)) (last_block_txs (chain (n_c n))) last = Ok u1 ->
    update_utxos u1 (elems (n_pool n)) next = Ok u2 ->
    In i (ins t) -> find_utxo u2 i = Ok u -> o_addr (u_out u) <> addr_of (i_key i) ->
    exists e, POOL_ADD n t = Err e.
  Proof.
    intros last next E1 E2 Hin Hf Hne.
    destruct (POOL_ADD n t) as [n'|e] eqn:E; [|exists e; reflexivity].
    apply pool_add_sound in E. cbv zeta in E. fold last in E. fold next in E.
    destruct E as [_ [_ [_ [_ [u1' [u2' [f [u3 [E1' [E2' [Hc _]]]]]]]]]]].
    rewrite E1 in E1'. inversion E1'; subst u1'.
    rewrite E2 in E2'. inversion E2'; subst u2'.
    destruct (calc_fee_wrong_owner_err (s_fee S) u2 t next i u Hin Hf Hne) as [e [He _]].
    rewrite He in Hc. discriminate Hc.
  Qed.

  Lemma keeps_wrong_owner (last next ts : Z) (reg : ureg) (t : tx) (i : input) (u : utxo) :
    In i (ins t) -> find_utxo reg i = Ok u -> o_addr (u_out u) <> addr_of (i_key i) ->
    KEEPS last next ts reg t = None.
  Proof.
    intros Hin Hf Hne. destruct (KEEPS last next ts reg t) as [[f u']|] eqn:E; [|reflexivity].
    apply keeps_iff in E. destruct E as [_ [_ [_ [Hc _]]]].
    destruct (calc_fee_wrong_owner_err (s_fee S) reg t ts i u Hin Hf Hne) as [e [He _]].
    rewrite He in Hc. discriminate Hc.
  Qed.

  Lemma verify_block_wrong_owner (c : cstate) (b : block) (prev_ts now : Z) (t : tx) (i : input)
        (u : utxo) :
    In t (txs b) -> In i (ins t) ->
    find_utxo (ur c) i = Ok u -> o_addr (u_out u) <> addr_of (i_key i) ->
    exists e, VBLOCK c b prev_ts now = Err e.
  Proof.
    intros Ht Hin Hf Hne. destruct (VBLOCK c b prev_ts now) as [[]|e] eqn:E; [|exists e; reflexivity].
    apply verify_block_bounds in E. destruct E as [HFa _].
    rewrite Forall_forall in HFa.
    destruct (HFa t Ht (has_input_not_reward t i Hin)) as [_ Hauth].
    apply tx_authorized_inputs in Hauth. rewrite Forall_forall in Hauth.
    destruct (Hauth i Hin) as [_ [u' [Hf' Ho]]].
    rewrite Hf in Hf'. inversion Hf'; subst u'. contradiction.
  Qed.

  (* a transaction that is never kept is not in the produced block's greedy selection *)
  Lemma greedy_not_kept (last next ts : Z) (t : tx) : forall (l : list tx) (u : ureg),
    (forall u1, KEEPS last next ts u1 t = None) -> ~ In t (GREEDY last next ts l u).
  Proof.
    intros l u Hnone Hin. apply greedy_kept_valid in Hin.
    destruct Hin as [A [B [C [u1 [f [u2 [Hc Hu]]]]]]].
    assert (Hk : KEEPS last next ts u1 t = Some (f, u2)).
    { apply keeps_iff. repeat split; assumption. }
    rewrite Hnone in Hk. discriminate Hk.
  Qed.
  (* ====================================== corollaries in the shape of C01 / C03 *)

  Lemma tx_authorized_iff (reg : ureg) (t : tx) :
    tx_authorized reg t <->
    Forall (fun i => sig_ok i = true /\
                     exists u, find_utxo reg i = Ok u /\ o_addr (u_out u) = addr_of (i_key i)) (ins t).
  Proof. split; [apply tx_authorized_inputs|apply inputs_tx_authorized]. Qed.

  Lemma verify_block_authorized (c : cstate) (b : block) (prev_ts now : Z) :
    VBLOCK c b prev_ts now = Ok tt ->
    Forall (fun t => is_reward t = false -> tx_authorized (ur c) t) (txs b).
  Proof.
    intros Hv. apply verify_block_bounds in Hv. destruct Hv as [HFa _].
    eapply Forall_impl; [|exact HFa]. intros t Ht Hord. exact (proj2 (Ht Hord)).
  Qed.

  Lemma verify_new_blocks_authorized (host : cstate) (lh neigh old : list block) (now : Z)
        (v : list block) :
    VERIFY host lh neigh old now = Ok v ->
    forall (i : nat) (b : block),
      nth_error neigh i = Some b ->
      is_new_at lh i b ->
      ~ (old = [] /\ i = 0%nat) ->
      exists (reg : ureg) (a : areg),
        replay_from (init_ur host old) (init_ar host old) (removelast (firstn i neigh)) = Ok (reg, a) /\
        Forall (fun t => is_reward t = false -> tx_authorized reg t) (txs b).
  Proof.
    intros Hv i b Hn Hnew Hgen.
    destruct (verify_checks_new_blocks _ _ _ _ _ _ Hv i b Hn Hnew Hgen) as [sh [p [_ [_ [Hr Hvb]]]]].
    exists (ur sh), (ar sh). split; [exact Hr|]. exact (verify_block_authorized _ _ _ _ Hvb).
  Qed.

  Lemma pool_add_authorized (n : node) (t : tx) (n' : node) :
    POOL_ADD n t = Ok n' ->
    let last := last_block_ts (chain (n_c n)) in
    let next := (last + s_interval S)%Z in
    exists (u1 u2 : ureg),
      update_utxos (ur (n_c n)) (last_block_txs (chain (n_c n))) last = Ok u1 /\
      update_utxos u1 (elems (n_pool n)) next = Ok u2 /\
      tx_authorized u2 t.
  Proof.
    intros Hadd last next. apply pool_add_bounds in Hadd. cbv zeta in Hadd.
    destruct Hadd as [u1 [u2 [E1 [E2 [_ Ha]]]]]. exists u1, u2.
    split; [exact E1|]. split; [exact E2|exact Ha].
  Qed.

  (* the running registry of the production loop: the kept transactions applied one at a time *)
  Fixpoint run_kept (next : Z) (u : ureg) (l : list tx) : res err ureg :=
    match l with
    | [] => Ok u
    | t :: r => match update_utxos u [t] next with Err e => Err e | Ok u' => run_kept next u' r end
    end.

  Lemma kept_ok_prefix (ts next : Z) (u : ureg) (l : list tx) (fs : list N) :
    kept_ok ts next u l fs ->
    forall (pre : list tx) (t : tx) (post : list tx),
      l = pre ++ t :: post ->
      exists (u1 : ureg) (f : N),
        run_kept next u pre = Ok u1 /\ nth_error fs (length pre) = Some f /\
        tx_bound u1 t ts /\ tx_authorized u1 t /\ leftover u1 t ts f /\ s_fee S <= f.
  Proof.
    intros Hk. induction Hk as [u|u t0 f0 u' l fs H1 H2 H3 H4 Hu _ IH]; intros pre t post E.
    - destruct pre; discriminate E.
    - destruct pre as [|x pre'].
      + cbn [app] in E. inversion E; subst t0 l. exists u, f0.
        cbn [run_kept length nth_error].
        split; [reflexivity|]. split; [reflexivity|].
        split; [exact H1|]. split; [exact H2|]. split; [exact H3|exact H4].
      + rewrite <- app_comm_cons in E. inversion E; subst x l.
        destruct (IH pre' t post eq_refl) as [u1 [f [Hr Hrest]]].
        exists u1, f. cbn [run_kept length nth_error]. rewrite Hu.
        split; [exact Hr|exact Hrest].
  Qed.

  Lemma kept_ok_length (ts next : Z) (u : ureg) (l : list tx) (fs : list N) :
    kept_ok ts next u l fs -> length fs = length l.
  Proof.
    intros Hk. induction Hk as [u|u t0 f0 u' l fs _ _ _ _ _ _ IH]; [reflexivity|].
    cbn [length]. rewrite IH. reflexivity.
  Qed.

  (* production, transaction by transaction: each kept transaction against the registry of the
     last block and of the transactions kept before it *)
  Lemma produce_each (n : node) (ts : Z) (perm : list nat) (n' : node) (d : list (string * drop)) :
    VALIDATE n ts perm = (n', Produced d) ->
    let last := last_block_ts (chain (n_c n)) in
    let next := (last + s_interval S)%Z in
    exists (kept : list tx) (fees : list N) (u0 : ureg) (rt : tx) (b : block),
      update_utxos (ur (n_c n)) (last_block_txs (chain (n_c n))) last = Ok u0 /\
      chain (n_c n') = chain (n_c n) ++ [b] /\
      b_ts b = ts /\
      txs b = kept ++ [rt] /\
      is_reward rt = true /\
      length fees = length kept /\
      (forall (pre : list tx) (t : tx) (post : list tx),
         kept = pre ++ t :: post ->
         exists (u1 : ureg) (f : N),
           run_kept next u0 pre = Ok u1 /\ nth_error fees (length pre) = Some f /\
           tx_bound u1 t ts /\ tx_authorized u1 t /\ leftover u1 t ts f /\ s_fee S <= f) /\
      reward_value rt <= (if (last =? 0)%Z then s_genesis S else 0) + sumN fees.
  Proof.
    intros Hv last next. apply produce_bounds in Hv. cbv zeta in Hv. fold last in Hv. fold next in Hv.
    destruct Hv as [kept [fees [u0 [rt [b [E0 [Hc [Hts [Ht [Hisr [Hk Hle]]]]]]]]]]].
    exists kept, fees, u0, rt, b.
    split; [exact E0|]. split; [exact Hc|]. split; [exact Hts|]. split; [exact Ht|].
    split; [exact Hisr|]. split; [exact (kept_ok_length _ _ _ _ _ Hk)|].
    split; [exact (kept_ok_prefix _ _ _ _ _ Hk)|exact Hle].
  Qed.

  Lemma produce_authorized (n : node) (ts : Z) (perm : list nat) (n' : node) (d : list (string * drop)) :
    VALIDATE n ts perm = (n', Produced d) ->
    let last := last_block_ts (chain (n_c n)) in
    let next := (last + s_interval S)%Z in
    exists (kept : list tx) (u0 : ureg) (rt : tx) (b : block),
      update_utxos (ur (n_c n)) (last_block_txs (chain (n_c n))) last = Ok u0 /\
      chain (n_c n') = chain (n_c n) ++ [b] /\
      txs b = kept ++ [rt] /\
      is_reward rt = true /\
      forall (pre : list tx) (t : tx) (post : list tx),
        kept = pre ++ t :: post ->
        exists u1 : ureg, run_kept next u0 pre = Ok u1 /\ tx_authorized u1 t.
  Proof.
    intros Hv last next. apply produce_each in Hv. cbv zeta in Hv. fold last in Hv. fold next in Hv.
    destruct Hv as [kept [fees [u0 [rt [b [E0 [Hc [_ [Ht [Hisr [_ [Hall _]]]]]]]]]]]].
    exists kept, u0, rt, b.
    split; [exact E0|]. split; [exact Hc|]. split; [exact Ht|]. split; [exact Hisr|].
    intros pre t post E. destruct (Hall pre t post E) as [u1 [f [Hr [_ [_ [Ha _]]]]]].
    exists u1. split; [exact Hr|exact Ha].
  Qed.
  (* the definitions, unfolded *)
  Lemma tx_bound_unfold (reg : ureg) (t : tx) (ts : Z) :
    tx_bound reg t ts <->
    exists us : list utxo,
      Forall2 (fun i u => find_utxo reg i = Ok u /\ o_addr (u_out u) = addr_of (i_key i)) (ins t) us /\
      sumN (map o_val (outs t)) + s_fee S <= sumN (map (fun u => utxo_value value_fn u ts) us).
  Proof. apply iff_refl. Qed.

  Lemma block_bounds_unfold (reg : ureg) (b : block) :
    block_bounds reg b <->
    (Forall (fun t => is_reward t = false -> tx_bound reg t (b_ts b) /\ tx_authorized reg t) (txs b) /\
     exists (fees : list N) (rt : tx),
       Forall2 (fun t f => leftover reg t (b_ts b) f) (ordinary b) fees /\
       In rt (txs b) /\ is_reward rt = true /\
       length (filter is_reward (txs b)) = 1%nat /\
       reward_value rt <= sumN fees).
  Proof. apply iff_refl. Qed.
End Accept.

(* =================================== 4. the pinned tree's wrapping output sum *)

Lemma wrap_refuted :
  exists (reg : ureg) (t : tx) (f : N) (us : list utxo),
    calc_fee_wrapping wr_value_fn wr_addr_of 1 reg t 0%Z = Ok f /\
    spends wr_addr_of reg t us /\
    sumN (map (fun u => utxo_value wr_value_fn u 0%Z) us) = 1099511627776 /\
    sumN (map o_val (outs t)) = 18446744073709551621 /\
    sumN (map (fun u => utxo_value wr_value_fn u 0%Z) us) < sumN (map o_val (outs t)) /\
    ~ leftover wr_value_fn wr_addr_of reg t 0%Z f.
Proof. exact calc_fee_wrapping_refuted. Qed.

(* ------------------------------------------------------------------ *)
(* a toy instance for the examples of props/C01.v and props/C03.v      *)
(* ------------------------------------------------------------------ *)
Module AcceptExample.
  Local Open Scope string_scope.
  Definition vf : N -> bool -> Z -> N := fun v _ _ => v.
  Definition ao : string -> string := fun k => k.
  Definition so : input -> bool := fun _ => true.
  (* a signature is valid when it reads "sig" followed by the key *)
  Definition so_strict : input -> bool := fun i => String.eqb (i_sig i) (String.append "sig" (i_key i)).
  Definition Hx : block -> hash := fun b => [Z.to_N (b_ts b)].
  Definition gid : slice input -> slice output -> Z -> string := fun _ _ _ => "r30".
  Definition Sx : settings := mkSettings 10 1 100 8.

  (* genesis pays A 100 and B 50; the next block is empty (a reward of 0) *)
  Definition g0tx : tx :=
    mkTx "g0" None (Some [mkOutput "A" false 100; mkOutput "B" false 50]) 10.
  Definition g : block := mkBlock zero_hash None None 10 (Some [g0tx]).
  Definition e1 : block :=
    mkBlock (Hx g) None None 20 (Some [mkTx "r20" None (Some [mkOutput "V" false 0]) 20]).
  Definition uA : utxo := mkUtxo "g0" 0 (mkOutput "A" false 100) 10.
  Definition uB : utxo := mkUtxo "g0" 1 (mkOutput "B" false 50) 10.
  (* the registry once the genesis block is applied (it lags one block behind the chain) *)
  Definition reg : ureg := mkUreg [("A", [uA]); ("B", [uB])] [("g0", [Some uA; Some uB])].
  Definition c0 : cstate := mkC [g; e1] reg areg_empty.
  Definition n0 : node := mkNode c0 None.

  (* two inputs worth 150, two outputs worth 140: a fee of 10 where 1 is required *)
  Definition t0 : tx :=
    mkTx "t0" (Some [mkInput 0 "g0" "A" "sigA"; mkInput 1 "g0" "B" "sigB"])
         (Some [mkOutput "C" false 120; mkOutput "A" false 20]) 25.
  (* the same with a signature that does not verify *)
  Definition t_forged : tx :=
    mkTx "t1" (Some [mkInput 0 "g0" "A" "xx"; mkInput 1 "g0" "B" "sigB"])
         (Some [mkOutput "C" false 120; mkOutput "A" false 20]) 25.
  (* B signs, correctly, for an output that belongs to A *)
  Definition t_thief : tx :=
    mkTx "t2" (Some [mkInput 0 "g0" "B" "sigB"]) (Some [mkOutput "B" false 90]) 25.

  Definition n1 : node := mkNode c0 (Some [t0]).
  (* the node after producing the block of timestamp 30 from the pool [t0] *)
  Definition n2 : node := fst (validate vf ao so_strict Hx gid Sx "V" n1 30 [0%nat]).
  Definition b2 : block := match last_block (chain (n_c n2)) with Some b => b | None => g end.
  Lemma ex_bound : tx_bound vf ao Sx reg t0 30%Z.
  Proof.
    exists [uA; uB]. split.
    - repeat constructor.
    - vm_compute. discriminate.
  Qed.

  (* one unit more paid out than 150 - 1 and the bound fails *)
  Definition t_over : tx :=
    mkTx "t9" (t_ins t0) (Some [mkOutput "C" false 130; mkOutput "A" false 20]) 25.
  Lemma ex_bound_tight : ~ tx_bound vf ao Sx reg t_over 30%Z.
  Proof.
    intros [us [Hs Hb]].
    assert (Hs' : spends ao reg t_over [uA; uB]) by (repeat constructor).
    rewrite (spends_unique ao reg t_over us [uA; uB] Hs Hs') in Hb.
    vm_compute in Hb. apply Hb. reflexivity.
  Qed.

  Lemma ex_authorized : tx_authorized ao so_strict reg t0.
  Proof.
    split; [vm_compute; reflexivity|]. exists [uA; uB]. repeat constructor.
  Qed.

  Lemma ex_new : is_new_at Hx [e1] 1 b2.
  Proof. left. apply le_n. Qed.
End AcceptExample.
