(* Converge_lemmas.v — the convergence half of C08: a node that holds a prefix of a chain C and
   whose neighbors all serve C page by page (Blockchain.Blocks) adopts, at every sync round
   (Blockchain.Update, blockchain.go:99-266), the next [page size - 1] blocks of C; after
   ceil ((|C| - |P|) / (page size - 1)) rounds it holds exactly C, with the registers C denotes.
   Everything is proved about the executable model (model/Sync.v [update], model/Chain.v [verify]). *)
From RV Require Import model.Base model.Ledger model.Registry model.Chain model.Sync model.Pool model.Reach.
From RV Require Import proofs.Paging_lemmas proofs.Sync_lemmas proofs.Reach_lemmas.
From Coq Require Import Lia ZArith NArith.

(* ------------------------------------------------------------------ *)
(* generic list facts                                                  *)
(* ------------------------------------------------------------------ *)

Lemma filter_all_true {A} (f : A -> bool) (l : list A) :
  (forall x, In x l -> f x = true) -> filter f l = l.
Proof.
  induction l as [|x r IH]; intros Hall; simpl; [reflexivity|].
  rewrite (Hall x (or_introl eq_refl)). f_equal. apply IH. intros y Hy. apply Hall. right. exact Hy.
Qed.

Lemma fold_left_ext_in {A B} (f g : B -> A -> B) (l : list A) :
  (forall b a, In a l -> f b a = g b a) -> forall b, fold_left f l b = fold_left g l b.
Proof.
  induction l as [|x r IH]; intros Hfg b; simpl; [reflexivity|].
  rewrite (Hfg b x (or_introl eq_refl)). apply IH. intros b' a Ha. apply Hfg. right. exact Ha.
Qed.

Lemma nth_error_app_l {A} (l1 l2 : list A) (k : nat) :
  k < length l1 -> nth_error (l1 ++ l2) k = nth_error l1 k.
Proof. intros Hk. apply nth_error_app1. exact Hk. Qed.

Lemma firstn_app_le {A} (n : nat) (l1 l2 : list A) :
  n <= length l1 -> firstn n (l1 ++ l2) = firstn n l1.
Proof.
  intros Hn. rewrite firstn_app. replace (n - length l1) with 0 by lia.
  simpl. apply app_nil_r.
Qed.

Lemma removelast_snoc {A} (l : list A) (x : A) : removelast (l ++ [x]) = l.
Proof. apply removelast_last. Qed.

Lemma removelast_app_cons {A} (l : list A) (x : A) (r : list A) :
  removelast (l ++ x :: r) = l ++ removelast (x :: r).
Proof. apply removelast_app. discriminate. Qed.

(* the replay of a chain that replays has replayed each of its prefixes *)
Lemma replay_app_inv (X Y : list block) (u : ureg) (a : areg) :
  replay (X ++ Y) = Ok (u, a) ->
  exists u1 a1, replay X = Ok (u1, a1) /\ replay_from u1 a1 Y = Ok (u, a).
Proof.
  unfold replay. rewrite replay_from_app.
  destruct (replay_from ureg_empty areg_empty X) as [[u1 a1]|e]; simpl; [|discriminate].
  intros Hr. exists u1, a1. split; [reflexivity | exact Hr].
Qed.

Lemma replay_prefix_ok (X Y : list block) :
  (exists u a, replay (X ++ Y) = Ok (u, a)) -> exists u a, replay X = Ok (u, a).
Proof.
  intros (u & a & Hr). destruct (replay_app_inv _ _ _ _ Hr) as (u1 & a1 & Hx & _).
  exists u1, a1. exact Hx.
Qed.

Lemma replay_from_snoc_inv (u : ureg) (a : areg) (X : list block) (p : block) (u2 : ureg) (a2 : areg) :
  replay_from u a (X ++ [p]) = Ok (u2, a2) ->
  exists u1 a1, replay_from u a X = Ok (u1, a1) /\ apply_block u1 a1 p = Ok (u2, a2).
Proof.
  rewrite replay_from_app.
  destruct (replay_from u a X) as [[u1 a1]|e]; simpl; [|discriminate].
  destruct (apply_block u1 a1 p) as [[u3 a3]|e] eqn:Ea; [|discriminate].
  intros E. inversion E; subst u3 a3. exists u1, a1. split; [reflexivity | exact Ea].
Qed.

Section Converge.
  Variable value_fn : N -> bool -> Z -> N.
  Variable addr_of : string -> string.
  Variable sig_ok : input -> bool.
  Variable H : block -> hash.
  Variable Se : settings.

  Local Notation VBLOCK := (verify_block value_fn addr_of sig_ok Se).
  Local Notation VERIFY := (verify value_fn addr_of sig_ok H Se).
  Local Notation VLOOP := (verify_loop value_fn addr_of sig_ok H Se).
  Local Notation VSTEP := (verify_step value_fn addr_of sig_ok H Se).
  Local Notation UPDATE := (update value_fn addr_of sig_ok H Se).
  Local Notation STAGE1 := (stage1 value_fn addr_of sig_ok H Se).
  Local Notation STAGE2 := (stage2 value_fn addr_of sig_ok H Se).
  Local Notation CANDS := (candidates value_fn addr_of sig_ok H Se).

  (* ---------------------------------------------------------------- *)
  (* 1. what the catching-up node needs of the served chain            *)
  (* ---------------------------------------------------------------- *)

  (* Inside one answered page the verifier's registers lag one block behind its shadow chain
     (verify_step: verify_block first, then add_block_raw applies the PREVIOUS block): the block
     [b] that follows [p] is checked against the replay of the blocks before [p]. This is exactly
     that check, for every adjacent pair of the chain: the shadow state is the chain up to [p]
     with the registers of the blocks before [p]. For the pair (genesis, block 1) the registers
     are the empty ones. *)
  Definition page_verifiable (now : Z) (C : list block) : Prop :=
    forall (X : list block) (p b : block) (T : list block) (u : ureg) (a : areg),
      C = X ++ p :: b :: T -> replay X = Ok (u, a) ->
      VBLOCK (mkC (X ++ [p]) u a) b (b_ts p) now = Ok tt.

  (* every block carries a reward transaction (blocks produced by Validate all do) *)
  Definition rewarded (C : list block) : Prop :=
    Forall (fun b => exists t, In t (txs b) /\ is_reward t = true) C.

  Definition genesis_rooted (C : list block) : Prop :=
    match C with g :: _ => b_prev g = zero_hash | [] => True end.

  Definition servable (now : Z) (C : list block) : Prop :=
    chain_linked H C /\ genesis_rooted C /\
    (exists u a, replay C = Ok (u, a)) /\
    page_verifiable now C /\ rewarded C /\ (last_block_ts C <= now)%Z.

  (* the same hypothesis, position by position *)
  Lemma page_verifiable_nth (now : Z) (C : list block) :
    page_verifiable now C <->
    forall (j : nat) (p b : block) (u : ureg) (a : areg),
      nth_error C j = Some p -> nth_error C (Datatypes.S j) = Some b ->
      replay (firstn j C) = Ok (u, a) ->
      VBLOCK (mkC (firstn (Datatypes.S j) C) u a) b (b_ts p) now = Ok tt.
  Proof.
    split.
    - intros Hpv j p b u a Hp Hb Hr.
      destruct (nth_error_split C j Hp) as (X & T0 & E & Hlen).
      assert (ET : exists T, T0 = b :: T).
      { rewrite E in Hb. rewrite nth_error_app2 in Hb by lia.
        replace (Datatypes.S j - length X) with 1 in Hb by lia.
        destruct T0 as [|b' T]; [discriminate|]. simpl in Hb. inversion Hb. exists T. reflexivity. }
      destruct ET as [T ET]. subst T0.
      assert (EX : firstn j C = X).
      { rewrite E, <- Hlen. rewrite firstn_app_le by lia. apply firstn_all. }
      assert (EX1 : firstn (Datatypes.S j) C = X ++ [p]).
      { rewrite E, <- Hlen.
        change (X ++ p :: b :: T) with (X ++ [p] ++ b :: T). rewrite app_assoc.
        rewrite firstn_app_le by (rewrite app_length; simpl; lia).
        apply firstn_all2. rewrite app_length. simpl. lia. }
      rewrite EX in Hr. rewrite EX1. apply (Hpv X p b T u a E Hr).
    - intros Hn X p b T u a E Hr.
      assert (Hp : nth_error C (length X) = Some p).
      { rewrite E, nth_error_app2 by lia. rewrite Nat.sub_diag. reflexivity. }
      assert (Hb : nth_error C (Datatypes.S (length X)) = Some b).
      { rewrite E, nth_error_app2 by lia.
        replace (Datatypes.S (length X) - length X) with 1 by lia. reflexivity. }
      assert (EX : firstn (length X) C = X).
      { rewrite E. rewrite firstn_app_le by lia. apply firstn_all. }
      assert (EX1 : firstn (Datatypes.S (length X)) C = X ++ [p]).
      { rewrite E. change (X ++ p :: b :: T) with (X ++ [p] ++ b :: T). rewrite app_assoc.
        rewrite firstn_app_le by (rewrite app_length; simpl; lia).
        apply firstn_all2. rewrite app_length. simpl. lia. }
      rewrite <- EX1. apply (Hn (length X) p b u a Hp Hb). rewrite EX. exact Hr.
  Qed.

  (* the link between two adjacent blocks of a linked chain *)
  Lemma chain_linked_pair (X : list block) (p b : block) (T : list block) :
    chain_linked H (X ++ p :: b :: T) -> b_prev b = H p.
  Proof.
    destruct X as [|g X']; cbn [app chain_linked].
    - intros [E _]. exact E.
    - intros Hl. apply (linked_app H) in Hl. destruct Hl as [_ Hl].
      cbn [linked] in Hl. apply Hl.
  Qed.

  (* verify_block reads the outputs and the registered set of the shadow state, nothing else *)
  Lemma vb_txs_ext (c c' : cstate) :
    ur c = ur c' -> registered (ar c) = registered (ar c') ->
    forall (l : list tx) (added : list string) (cur prev : Z) (rewd : bool) (rw tot : N),
      vb_txs value_fn addr_of sig_ok Se c added cur prev l rewd rw tot =
      vb_txs value_fn addr_of sig_ok Se c' added cur prev l rewd rw tot.
  Proof.
    intros Eu Ea.
    assert (Hy : forall added t, yield_ok (ar c) added t = yield_ok (ar c') added t).
    { intros added t. unfold yield_ok, is_registered. rewrite Ea. reflexivity. }
    induction l as [|t r IH]; intros added cur prev rewd rw tot; cbn [vb_txs]; [reflexivity|].
    rewrite Eu, Hy.
    destruct (is_reward t).
    - destruct rewd; [reflexivity | apply IH].
    - destruct (cur <? t_ts t)%Z; [reflexivity|].
      destruct (t_ts t <? prev)%Z; [reflexivity|].
      destruct (negb (verify_sigs sig_ok t)); [reflexivity|].
      destruct (negb (yield_ok (ar c') added t)); [reflexivity|].
      destruct (calc_fee value_fn addr_of (s_fee Se) (ur c') t cur) as [f|e]; [apply IH | reflexivity].
  Qed.

  Lemma verify_block_ext (c c' : cstate) (b : block) (prev_ts now : Z) :
    ur c = ur c' -> registered (ar c) = registered (ar c') ->
    VBLOCK c b prev_ts now = VBLOCK c' b prev_ts now.
  Proof.
    intros Eu Ea. unfold verify_block. rewrite (vb_txs_ext c c' Eu Ea). reflexivity.
  Qed.

  Lemma verify_block_later (c : cstate) (b : block) (prev_ts now now' : Z) :
    (now <= now')%Z -> VBLOCK c b prev_ts now = Ok tt -> VBLOCK c b prev_ts now' = Ok tt.
  Proof.
    intros Hle. unfold verify_block.
    destruct (negb (b_ts b =? prev_ts + s_interval Se)%Z); [intros E; exact E|].
    destruct (Z.ltb_spec now (b_ts b)) as [Hf|Hf]; [discriminate|].
    destruct (Z.ltb_spec now' (b_ts b)) as [Hf'|Hf']; [lia|]. intros E; exact E.
  Qed.

  Lemma page_verifiable_later (now now' : Z) (C : list block) :
    (now <= now')%Z -> page_verifiable now C -> page_verifiable now' C.
  Proof.
    intros Hle Hpv X p b T u a E Hr. apply (verify_block_later _ _ _ _ _ Hle).
    apply (Hpv X p b T u a E Hr).
  Qed.

  Lemma servable_later (now now' : Z) (C : list block) :
    (now <= now')%Z -> servable now C -> servable now' C.
  Proof.
    intros Hle (Hl & Hg & Hr & Hpv & Hrw & Hts).
    split; [exact Hl|]. split; [exact Hg|]. split; [exact Hr|].
    split; [apply (page_verifiable_later _ _ _ Hle Hpv)|]. split; [exact Hrw | lia].
  Qed.

  (* ---------------------------------------------------------------- *)
  (* 2. completeness of the verification loop on the blocks of C       *)
  (* ---------------------------------------------------------------- *)

  (* the loop past the host's comparison window, entered after the block [p] of C with the
     registers of the blocks before [p]: every further block of C passes, and the registers keep
     lagging one block behind *)
  Lemma vloop_tail_ok (now : Z) (C : list block) (lh : list block) :
    chain_linked H C -> (exists u a, replay C = Ok (u, a)) -> page_verifiable now C ->
    forall (l X : list block) (p : block) (T : list block) (sh : cstate) (i : nat) (a : areg),
      C = X ++ p :: l ++ T ->
      chain sh = X ++ [p] ->
      replay X = Ok (ur sh, a) -> registered a = registered (ar sh) ->
      length lh <= Datatypes.S i ->
      exists (sh' : cstate) (a' : areg),
        VLOOP lh now (Datatypes.S i) sh (Some p) l = Ok sh' /\
        chain sh' = X ++ p :: l /\
        replay (removelast (X ++ p :: l)) = Ok (ur sh', a') /\
        registered a' = registered (ar sh').
  Proof.
    intros Hl Hrep Hpv.
    induction l as [|b r IH]; intros X p T sh i a E Hch Hr Ea Hlh.
    - exists sh, a. cbn [verify_loop]. split; [reflexivity|]. split; [exact Hch|].
      rewrite removelast_last. split; [exact Hr | exact Ea].
    - cbn [app] in E.
      assert (Hlink : b_prev b = H p).
      { apply (chain_linked_pair X p b (r ++ T)). rewrite <- E. exact Hl. }
      assert (Hvb : VBLOCK sh b (b_ts p) now = Ok tt).
      { rewrite (verify_block_ext sh (mkC (X ++ [p]) (ur sh) a)); [|reflexivity|symmetry; exact Ea].
        apply (Hpv X p b (r ++ T) (ur sh) a E Hr). }
      assert (Hap : exists u1 a1 a2, replay (X ++ [p]) = Ok (u1, a1) /\
                                     apply_block (ur sh) (ar sh) p = Ok (u1, a2) /\
                                     registered a1 = registered a2).
      { assert (Hpre : exists u a, replay (X ++ [p]) = Ok (u, a)).
        { apply (replay_prefix_ok (X ++ [p]) (b :: r ++ T)). rewrite <- app_assoc. cbn [app].
          rewrite <- E. exact Hrep. }
        destruct Hpre as (u1 & a1 & Hp1). pose proof Hp1 as Hp1'. unfold replay in Hp1'.
        apply replay_from_snoc_inv in Hp1'. destruct Hp1' as (u0 & a0 & Hx0 & Hap0).
        fold (replay X) in Hx0. rewrite Hr in Hx0. inversion Hx0; subst u0 a0.
        destruct (apply_block_reg_irrel _ _ _ _ _ _ Ea Hap0) as (a2 & Hap2 & E2).
        exists u1, a1, a2. split; [exact Hp1|]. split; [exact Hap2 | exact E2]. }
      destruct Hap as (u1 & a1 & a2 & Hp1 & Hap2 & E2).
      assert (Es : VSTEP lh now (Datatypes.S i) sh (Some p) b = Ok (mkC (chain sh ++ [b]) u1 a2)).
      { unfold verify_step. cbv zeta. rewrite Hlink, hash_eqb_refl. cbn [negb].
        assert (Hn : nth_error lh (Datatypes.S i) = None) by (apply nth_error_None; exact Hlh).
        rewrite Hn. cbn [andb negb]. rewrite Hvb.
        unfold add_block_raw. rewrite Hch, last_block_snoc', Hap2. reflexivity. }
      cbn [verify_loop]. rewrite Es.
      destruct (IH (X ++ [p]) b T (mkC (chain sh ++ [b]) u1 a2) (Datatypes.S i) a1)
        as (sh' & a' & Hloop & Hch' & Hr' & Ea').
      + rewrite <- app_assoc. exact E.
      + cbn [chain]. rewrite Hch. reflexivity.
      + exact Hp1.
      + exact E2.
      + lia.
      + exists sh', a'. split; [exact Hloop|].
        rewrite <- app_assoc in Hch', Hr'. cbn [app] in Hch', Hr'.
        split; [exact Hch'|]. split; [exact Hr' | exact Ea'].
  Qed.

End Converge.
