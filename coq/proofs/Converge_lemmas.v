(* Converge_lemmas.v — the convergence half of C08: a node that holds a prefix of a chain C and
   whose neighbors all serve C page by page (Blockchain.Blocks) adopts, at every sync round
   (Blockchain.Update, blockchain.go:99-266), the next [page size - 1] blocks of C; after
   ceil ((|C| - |P|) / (page size - 1)) rounds it holds exactly C, with the registers C denotes.
   Everything is proved about the executable model (model/Sync.v [update], model/Chain.v [verify]). *)
From RV Require Import model.Base model.Ledger model.Registry model.Chain model.Sync model.Pool model.Reach.
From RV Require Import proofs.Paging_lemmas proofs.Sync_lemmas proofs.Reach_lemmas.
From Coq Require Import Lia ZArith NArith.

(* ------------------------------------------------------------------ *)
(* generic list facts                                                  *)
(* ------------------------------------------------------------------ *)

Lemma filter_all_true {A} (f : A -> bool) (l : list A) :
  (forall x, In x l -> f x = true) -> filter f l = l.
Proof.
  induction l as [|x r IH]; intros Hall; simpl; [reflexivity|].
  rewrite (Hall x (or_introl eq_refl)). f_equal. apply IH. intros y Hy. apply Hall. right. exact Hy.
Qed.

Lemma fold_left_ext_in {A B} (f g : B -> A -> B) (l : list A) :
  (forall b a, In a l -> f b a = g b a) -> forall b, fold_left f l b = fold_left g l b.
Proof.
  induction l as [|x r IH]; intros Hfg b; simpl; [reflexivity|].
  rewrite (Hfg b x (or_introl eq_refl)). apply IH. intros b' a Ha. apply Hfg. right. exact Ha.
Qed.

Lemma nth_error_app_l {A} (l1 l2 : list A) (k : nat) :
  k < length l1 -> nth_error (l1 ++ l2) k = nth_error l1 k.
Proof. intros Hk. apply nth_error_app1. exact Hk. Qed.

Lemma firstn_app_le {A} (n : nat) (l1 l2 : list A) :
  n <= length l1 -> firstn n (l1 ++ l2) = firstn n l1.
Proof.
  intros Hn. rewrite firstn_app. replace (n - length l1) with 0 by lia.
  simpl. apply app_nil_r.
Qed.

Lemma removelast_snoc {A} (l : list A) (x : A) : removelast (l ++ [x]) = l.
Proof. apply removelast_last. Qed.

Lemma removelast_app_cons {A} (l : list A) (x : A) (r : list A) :
  removelast (l ++ x :: r) = l ++ removelast (x :: r).
Proof. apply removelast_app. discriminate. Qed.

(* the replay of a chain that replays has replayed each of its prefixes *)
Lemma replay_app_inv (X Y : list block) (u : ureg) (a : areg) :
  replay (X ++ Y) = Ok (u, a) ->
  exists u1 a1, replay X = Ok (u1, a1) /\ replay_from u1 a1 Y = Ok (u, a).
Proof.
  unfold replay. rewrite replay_from_app.
  destruct (replay_from ureg_empty areg_empty X) as [[u1 a1]|e]; simpl; [|discriminate].
  intros Hr. exists u1, a1. split; [reflexivity | exact Hr].
Qed.

Lemma replay_prefix_ok (X Y : list block) :
  (exists u a, replay (X ++ Y) = Ok (u, a)) -> exists u a, replay X = Ok (u, a).
Proof.
  intros (u & a & Hr). destruct (replay_app_inv _ _ _ _ Hr) as (u1 & a1 & Hx & _).
  exists u1, a1. exact Hx.
Qed.

Lemma replay_from_snoc_inv (u : ureg) (a : areg) (X : list block) (p : block) (u2 : ureg) (a2 : areg) :
  replay_from u a (X ++ [p]) = Ok (u2, a2) ->
  exists u1 a1, replay_from u a X = Ok (u1, a1) /\ apply_block u1 a1 p = Ok (u2, a2).
Proof.
  rewrite replay_from_app.
  destruct (replay_from u a X) as [[u1 a1]|e]; simpl; [|discriminate].
  destruct (apply_block u1 a1 p) as [[u3 a3]|e] eqn:Ea; [|discriminate].
  intros E. inversion E; subst u3 a3. exists u1, a1. split; [reflexivity | exact Ea].
Qed.

(* ceil (d / k) *)
Definition ceil_div (d k : nat) : nat := (d + k - 1) / k.

Lemma ceil_div_ok (d k : nat) : 0 < k -> d <= ceil_div d k * k.
Proof.
  intros Hk. unfold ceil_div.
  pose proof (Nat.div_mod (d + k - 1) k ltac:(lia)) as Hdm.
  pose proof (Nat.mod_upper_bound (d + k - 1) k ltac:(lia)) as Hm.
  rewrite (Nat.mul_comm ((d + k - 1) / k) k).
  set (q := k * ((d + k - 1) / k)) in *. set (r := (d + k - 1) mod k) in *. lia.
Qed.

Lemma ceil_div_mono (d d' k : nat) : 0 < k -> d <= d' -> ceil_div d k <= ceil_div d' k.
Proof. intros Hk Hle. unfold ceil_div. apply Nat.div_le_mono; lia. Qed.

(* the least number of rounds: one fewer does not cover d *)
Lemma ceil_div_least (d k : nat) : 0 < k -> 0 < d -> (ceil_div d k - 1) * k < d.
Proof.
  intros Hk Hd. unfold ceil_div.
  pose proof (Nat.div_mod (d + k - 1) k ltac:(lia)) as Hdm.
  pose proof (Nat.mod_upper_bound (d + k - 1) k ltac:(lia)) as Hm.
  assert (Hq : 1 <= (d + k - 1) / k) by (apply Nat.div_le_lower_bound; lia).
  rewrite Nat.mul_sub_distr_r, (Nat.mul_comm ((d + k - 1) / k) k).
  set (q := k * ((d + k - 1) / k)) in *. set (r := (d + k - 1) mod k) in *. lia.
Qed.

Section Converge.
  Variable value_fn : N -> bool -> Z -> N.
  Variable addr_of : string -> string.
  Variable sig_ok : input -> bool.
  Variable H : block -> hash.
  Variable Se : settings.

  Local Notation VBLOCK := (verify_block value_fn addr_of sig_ok Se).
  Local Notation VERIFY := (verify value_fn addr_of sig_ok H Se).
  Local Notation VLOOP := (verify_loop value_fn addr_of sig_ok H Se).
  Local Notation VSTEP := (verify_step value_fn addr_of sig_ok H Se).
  Local Notation UPDATE := (update value_fn addr_of sig_ok H Se).
  Local Notation STAGE1 := (stage1 value_fn addr_of sig_ok H Se).
  Local Notation STAGE2 := (stage2 value_fn addr_of sig_ok H Se).
  Local Notation CANDS := (candidates value_fn addr_of sig_ok H Se).

  (* ---------------------------------------------------------------- *)
  (* 1. what the catching-up node needs of the served chain            *)
  (* ---------------------------------------------------------------- *)

  (* Inside one answered page the verifier's registers lag one block behind its shadow chain
     (verify_step: verify_block first, then add_block_raw applies the PREVIOUS block): the block
     [b] that follows [p] is checked against the replay of the blocks before [p]. This is exactly
     that check, for every adjacent pair of the chain: the shadow state is the chain up to [p]
     with the registers of the blocks before [p]. For the pair (genesis, block 1) the registers
     are the empty ones. *)
  Definition page_verifiable (now : Z) (C : list block) : Prop :=
    forall (X : list block) (p b : block) (T : list block) (u : ureg) (a : areg),
      C = X ++ p :: b :: T -> replay X = Ok (u, a) ->
      VBLOCK (mkC (X ++ [p]) u a) b (b_ts p) now = Ok tt.

  (* every block carries a reward transaction (blocks produced by Validate all do) *)
  Definition rewarded (C : list block) : Prop :=
    Forall (fun b => exists t, In t (txs b) /\ is_reward t = true) C.

  Definition genesis_rooted (C : list block) : Prop :=
    match C with g :: _ => b_prev g = zero_hash | [] => True end.

  Definition servable (now : Z) (C : list block) : Prop :=
    chain_linked H C /\ genesis_rooted C /\
    (exists u a, replay C = Ok (u, a)) /\
    page_verifiable now C /\ rewarded C /\ (last_block_ts C <= now)%Z.

  (* the same hypothesis, position by position *)
  Lemma page_verifiable_nth (now : Z) (C : list block) :
    page_verifiable now C <->
    forall (j : nat) (p b : block) (u : ureg) (a : areg),
      nth_error C j = Some p -> nth_error C (Datatypes.S j) = Some b ->
      replay (firstn j C) = Ok (u, a) ->
      VBLOCK (mkC (firstn (Datatypes.S j) C) u a) b (b_ts p) now = Ok tt.
  Proof.
    clear H. split.
    - intros Hpv j p b u a Hp Hb Hr.
      destruct (nth_error_split C j Hp) as (X & T0 & E & Hlen).
      assert (ET : exists T, T0 = b :: T).
      { rewrite E in Hb. rewrite nth_error_app2 in Hb by lia.
        replace (Datatypes.S j - length X) with 1 in Hb by lia.
        destruct T0 as [|b' T]; [discriminate|]. simpl in Hb. inversion Hb. exists T. reflexivity. }
      destruct ET as [T ET]. subst T0.
      assert (EX : firstn j C = X).
      { rewrite E, <- Hlen. rewrite firstn_app_le by lia. apply firstn_all. }
      assert (EX1 : firstn (Datatypes.S j) C = X ++ [p]).
      { rewrite E, <- Hlen.
        change (X ++ p :: b :: T) with (X ++ [p] ++ b :: T). rewrite app_assoc.
        rewrite firstn_app_le by (rewrite app_length; simpl; lia).
        apply firstn_all2. rewrite app_length. simpl. lia. }
      rewrite EX in Hr. rewrite EX1. apply (Hpv X p b T u a E Hr).
    - intros Hn X p b T u a E Hr.
      assert (Hp : nth_error C (length X) = Some p).
      { rewrite E, nth_error_app2 by lia. rewrite Nat.sub_diag. reflexivity. }
      assert (Hb : nth_error C (Datatypes.S (length X)) = Some b).
      { rewrite E, nth_error_app2 by lia.
        replace (Datatypes.S (length X) - length X) with 1 by lia. reflexivity. }
      assert (EX : firstn (length X) C = X).
      { rewrite E. rewrite firstn_app_le by lia. apply firstn_all. }
      assert (EX1 : firstn (Datatypes.S (length X)) C = X ++ [p]).
      { rewrite E. change (X ++ p :: b :: T) with (X ++ [p] ++ b :: T). rewrite app_assoc.
        rewrite firstn_app_le by (rewrite app_length; simpl; lia).
        apply firstn_all2. rewrite app_length. simpl. lia. }
      rewrite <- EX1. apply (Hn (length X) p b u a Hp Hb). rewrite EX. exact Hr.
  Qed.

  (* the link between two adjacent blocks of a linked chain *)
  Lemma chain_linked_pair (X : list block) (p b : block) (T : list block) :
    chain_linked H (X ++ p :: b :: T) -> b_prev b = H p.
  Proof.
    destruct X as [|g X']; cbn [app chain_linked].
    - intros [E _]. exact E.
    - intros Hl. apply (linked_app H) in Hl. destruct Hl as [_ Hl].
      cbn [linked] in Hl. apply Hl.
  Qed.

  (* verify_block reads the outputs and the registered set of the shadow state, nothing else *)
  Lemma vb_txs_ext (c c' : cstate) :
    ur c = ur c' -> registered (ar c) = registered (ar c') ->
    forall (l : list tx) (added : list string) (cur prev : Z) (rewd : bool) (rw tot : N),
      vb_txs value_fn addr_of sig_ok Se c added cur prev l rewd rw tot =
      vb_txs value_fn addr_of sig_ok Se c' added cur prev l rewd rw tot.
  Proof.
    intros Eu Ea.
    assert (Hy : forall added t, yield_ok (ar c) added t = yield_ok (ar c') added t).
    { intros added t. unfold yield_ok, is_registered. rewrite Ea. reflexivity. }
    induction l as [|t r IH]; intros added cur prev rewd rw tot; cbn [vb_txs]; [reflexivity|].
    rewrite Eu, Hy.
    destruct (is_reward t).
    - destruct rewd; [reflexivity | apply IH].
    - destruct (cur <? t_ts t)%Z; [reflexivity|].
      destruct (t_ts t <? prev)%Z; [reflexivity|].
      destruct (negb (verify_sigs sig_ok t)); [reflexivity|].
      destruct (negb (yield_ok (ar c') added t)); [reflexivity|].
      destruct (calc_fee value_fn addr_of (s_fee Se) (ur c') t cur) as [f|e]; [apply IH | reflexivity].
  Qed.

  Lemma verify_block_ext (c c' : cstate) (b : block) (prev_ts now : Z) :
    ur c = ur c' -> registered (ar c) = registered (ar c') ->
    VBLOCK c b prev_ts now = VBLOCK c' b prev_ts now.
  Proof.
    intros Eu Ea. unfold verify_block. rewrite (vb_txs_ext c c' Eu Ea). reflexivity.
  Qed.

  Lemma verify_block_later (c : cstate) (b : block) (prev_ts now now' : Z) :
    (now <= now')%Z -> VBLOCK c b prev_ts now = Ok tt -> VBLOCK c b prev_ts now' = Ok tt.
  Proof.
    intros Hle. unfold verify_block.
    destruct (negb (b_ts b =? prev_ts + s_interval Se)%Z); [intros E; exact E|].
    destruct (Z.ltb_spec now (b_ts b)) as [Hf|Hf]; [discriminate|].
    destruct (Z.ltb_spec now' (b_ts b)) as [Hf'|Hf']; [lia|]. intros E; exact E.
  Qed.

  Lemma page_verifiable_later (now now' : Z) (C : list block) :
    (now <= now')%Z -> page_verifiable now C -> page_verifiable now' C.
  Proof.
    intros Hle Hpv X p b T u a E Hr. apply (verify_block_later _ _ _ _ _ Hle).
    apply (Hpv X p b T u a E Hr).
  Qed.

  Lemma servable_later (now now' : Z) (C : list block) :
    (now <= now')%Z -> servable now C -> servable now' C.
  Proof.
    intros Hle (Hl & Hg & Hr & Hpv & Hrw & Hts).
    split; [exact Hl|]. split; [exact Hg|]. split; [exact Hr|].
    split; [apply (page_verifiable_later _ _ _ Hle Hpv)|]. split; [exact Hrw | lia].
  Qed.

  (* ---------------------------------------------------------------- *)
  (* 2. completeness of the verification loop on the blocks of C       *)
  (* ---------------------------------------------------------------- *)

  (* the loop past the host's comparison window, entered after the block [p] of C with the
     registers of the blocks before [p]: every further block of C passes, and the registers keep
     lagging one block behind *)
  Lemma vloop_tail_ok (now : Z) (C : list block) (lh : list block) :
    chain_linked H C -> (exists u a, replay C = Ok (u, a)) -> page_verifiable now C ->
    forall (l X : list block) (p : block) (T : list block) (sh : cstate) (i : nat) (a : areg),
      C = X ++ p :: l ++ T ->
      chain sh = X ++ [p] ->
      replay X = Ok (ur sh, a) -> registered a = registered (ar sh) ->
      length lh <= Datatypes.S i ->
      exists (sh' : cstate) (a' : areg),
        VLOOP lh now (Datatypes.S i) sh (Some p) l = Ok sh' /\
        chain sh' = X ++ p :: l /\
        replay (removelast (X ++ p :: l)) = Ok (ur sh', a') /\
        registered a' = registered (ar sh').
  Proof.
    intros Hl Hrep Hpv.
    induction l as [|b r IH]; intros X p T sh i a E Hch Hr Ea Hlh.
    - exists sh, a. cbn [verify_loop]. split; [reflexivity|]. split; [exact Hch|].
      rewrite removelast_last. split; [exact Hr | exact Ea].
    - cbn [app] in E.
      assert (Hlink : b_prev b = H p).
      { apply (chain_linked_pair X p b (r ++ T)). rewrite <- E. exact Hl. }
      assert (Hvb : VBLOCK sh b (b_ts p) now = Ok tt).
      { rewrite (verify_block_ext sh (mkC (X ++ [p]) (ur sh) a)); [|reflexivity|symmetry; exact Ea].
        apply (Hpv X p b (r ++ T) (ur sh) a E Hr). }
      assert (Hap : exists u1 a1 a2, replay (X ++ [p]) = Ok (u1, a1) /\
                                     apply_block (ur sh) (ar sh) p = Ok (u1, a2) /\
                                     registered a1 = registered a2).
      { assert (Hpre : exists u a, replay (X ++ [p]) = Ok (u, a)).
        { apply (replay_prefix_ok (X ++ [p]) (b :: r ++ T)). rewrite <- app_assoc. cbn [app].
          rewrite <- E. exact Hrep. }
        destruct Hpre as (u1 & a1 & Hp1). pose proof Hp1 as Hp1'. unfold replay in Hp1'.
        apply replay_from_snoc_inv in Hp1'. destruct Hp1' as (u0 & a0 & Hx0 & Hap0).
        fold (replay X) in Hx0. rewrite Hr in Hx0. inversion Hx0; subst u0 a0.
        destruct (apply_block_reg_irrel _ _ _ _ _ _ Ea Hap0) as (a2 & Hap2 & E2).
        exists u1, a1, a2. split; [exact Hp1|]. split; [exact Hap2 | exact E2]. }
      destruct Hap as (u1 & a1 & a2 & Hp1 & Hap2 & E2).
      assert (Es : VSTEP lh now (Datatypes.S i) sh (Some p) b = Ok (mkC (chain sh ++ [b]) u1 a2)).
      { unfold verify_step. cbv zeta. rewrite Hlink, hash_eqb_refl. cbn [negb].
        assert (Hn : nth_error lh (Datatypes.S i) = None) by (apply nth_error_None; exact Hlh).
        rewrite Hn. cbn [andb negb]. rewrite Hvb.
        unfold add_block_raw. rewrite Hch, last_block_snoc', Hap2. reflexivity. }
      cbn [verify_loop]. rewrite Es.
      destruct (IH (X ++ [p]) b T (mkC (chain sh ++ [b]) u1 a2) (Datatypes.S i) a1)
        as (sh' & a' & Hloop & Hch' & Hr' & Ea').
      + rewrite <- app_assoc. exact E.
      + cbn [chain]. rewrite Hch. reflexivity.
      + exact Hp1.
      + exact E2.
      + lia.
      + exists sh', a'. split; [exact Hloop|].
        rewrite <- app_assoc in Hch', Hr'. cbn [app] in Hch', Hr'.
        split; [exact Hch'|]. split; [exact Hr' | exact Ea'].
  Qed.

  (* the host's registers allow applying the next block of a chain that replays *)
  Lemma apply_next_ok (Y : list block) (p : block) (u : ureg) (a a' : areg) :
    replay Y = Ok (u, a) -> registered a = registered a' ->
    (exists u2 a2, replay (Y ++ [p]) = Ok (u2, a2)) ->
    exists u1 a1 a2, replay (Y ++ [p]) = Ok (u1, a1) /\
                     apply_block u a' p = Ok (u1, a2) /\ registered a1 = registered a2.
  Proof.
    intros Hr Ea (u1 & a1 & Hp1). pose proof Hp1 as Hp1'. unfold replay in Hp1'.
    apply replay_from_snoc_inv in Hp1'. destruct Hp1' as (u0 & a0 & Hx0 & Hap0).
    fold (replay Y) in Hx0. rewrite Hr in Hx0. inversion Hx0; subst u0 a0.
    destruct (apply_block_reg_irrel _ _ _ _ _ _ Ea Hap0) as (a2 & Hap2 & E2).
    exists u1, a1, a2. split; [exact Hp1|]. split; [exact Hap2 | exact E2].
  Qed.

  (* blockchain.go:358-363: the closing AddBlock(next, nil, nil) applies the last answered block *)
  Lemma verify_finish_ok (sh : cstate) (Y : list block) (lb : block) (a : areg) (n : list block) :
    (0 < s_interval Se)%Z ->
    chain sh = Y ++ [lb] -> replay Y = Ok (ur sh, a) -> registered a = registered (ar sh) ->
    (exists u2 a2, replay (Y ++ [lb]) = Ok (u2, a2)) ->
    match last_block (chain sh) with
    | None => Ok n
    | Some l => match add_block H sh (b_ts l + s_interval Se)%Z None [] with
                | Err e => Err e
                | Ok _ => @Ok err _ n
                end
    end = Ok n.
  Proof.
    intros Hint Hch Hr Ea Hnext. rewrite Hch, last_block_snoc'.
    destruct (apply_next_ok Y lb (ur sh) a (ar sh) Hr Ea Hnext) as (u1 & a1 & a2 & _ & Hap & _).
    unfold add_block, add_block_raw. rewrite Hch, last_block_snoc', Hap.
    destruct (Z.leb_spec (b_ts lb + s_interval Se) (b_ts lb)) as [Hle|_]; [lia|]. reflexivity.
  Qed.

  Lemma verify_inc_unfold (st : cstate) (lh0 : block) (lhr : list block) (nb0 : block)
        (nbr old : list block) (now : Z) :
    old <> [] ->
    VERIFY st (lh0 :: lhr) (nb0 :: nbr) old now =
    if negb (hash_eqb (b_prev lh0) (b_prev nb0)) then Err EFork
    else match VLOOP (lh0 :: lhr) now 0 (mkC old (ur st) (ar st)) (last_block old) (nb0 :: nbr) with
         | Err e => Err e
         | Ok sh =>
           match last_block (chain sh) with
           | None => Ok (nb0 :: nbr)
           | Some l => match add_block H sh (b_ts l + s_interval Se)%Z None [] with
                       | Err e => Err e
                       | Ok _ => Ok (nb0 :: nbr)
                       end
           end
         end.
  Proof. intros Hne. destruct old as [|o old']; [contradiction|]. reflexivity. Qed.

  Lemma verify_full_unfold (st : cstate) (lh : list block) (g b1 : block) (r : list block) (now : Z) :
    VERIFY st lh (g :: b1 :: r) [] now =
    match VLOOP lh now 0 (mkC [] ureg_empty areg_empty) None (g :: b1 :: r) with
    | Err e => Err e
    | Ok sh =>
      match last_block (chain sh) with
      | None => Ok (g :: b1 :: r)
      | Some l => match add_block H sh (b_ts l + s_interval Se)%Z None [] with
                  | Err e => Err e
                  | Ok _ => Ok (g :: b1 :: r)
                  end
      end
    end.
  Proof. reflexivity. Qed.

  (* the incremental request: the answer starts with the host's own tip, followed by blocks of C *)
  Theorem verify_prefix_page (st : cstate) (now : Z) (C old : list block) (tip : block)
          (Q T : list block) (a : areg) :
    (0 < s_interval Se)%Z ->
    chain_linked H C -> (exists u a, replay C = Ok (u, a)) -> page_verifiable now C ->
    C = old ++ tip :: Q ++ T -> old <> [] ->
    replay old = Ok (ur st, a) -> registered a = registered (ar st) ->
    VERIFY st [tip] (tip :: Q) old now = Ok (tip :: Q).
  Proof.
    intros Hint Hl Hrep Hpv E Hne Hr Ea.
    rewrite (verify_inc_unfold st tip [] tip Q old now Hne).
    rewrite hash_eqb_refl. cbn [negb].
    destruct (exists_last Hne) as (old' & p0 & E0).
    assert (Hlink : b_prev tip = H p0).
    { apply (chain_linked_pair old' p0 tip (Q ++ T)). rewrite E, E0, <- app_assoc in Hl. exact Hl. }
    assert (Es : VSTEP [tip] now 0 (mkC old (ur st) (ar st)) (last_block old) tip
                 = Ok (mkC (old ++ [tip]) (ur st) (ar st))).
    { rewrite E0 at 2. rewrite last_block_snoc'. unfold verify_step. cbv zeta.
      rewrite Hlink, hash_eqb_refl. cbn [negb nth_error]. rewrite hash_eqb_refl. reflexivity. }
    cbn [verify_loop]. rewrite Es.
    destruct (vloop_tail_ok now C [tip] Hl Hrep Hpv Q old tip T
                            (mkC (old ++ [tip]) (ur st) (ar st)) 0 a E eq_refl Hr Ea (le_n 1))
      as (sh' & a' & Hloop & Hch' & Hr' & Ea').
    rewrite Hloop.
    destruct (@exists_last _ (tip :: Q)) as (Q' & lb & EQ); [discriminate|].
    rewrite EQ, app_assoc in Hch'. rewrite EQ, app_assoc, removelast_last in Hr'.
    apply (verify_finish_ok sh' (old ++ Q') lb a' (tip :: Q) Hint Hch' Hr' Ea').
    apply (replay_prefix_ok ((old ++ Q') ++ [lb]) T).
    rewrite <- (app_assoc old Q' [lb]), <- EQ, <- app_assoc. cbn [app]. rewrite <- E. exact Hrep.
  Qed.

  (* the full request: the answer starts with the genesis block of C; it is verified from the
     empty registers, the host's comparison window [lh] being at most one block long *)
  Theorem verify_full_page (st : cstate) (now : Z) (C lh : list block) (g b1 : block)
          (Q T : list block) :
    (0 < s_interval Se)%Z ->
    chain_linked H C -> genesis_rooted C -> (exists u a, replay C = Ok (u, a)) ->
    page_verifiable now C ->
    C = g :: b1 :: Q ++ T -> length lh <= 1 ->
    VERIFY st lh (g :: b1 :: Q) [] now = Ok (g :: b1 :: Q).
  Proof.
    intros Hint Hl Hg Hrep Hpv E Hlh.
    rewrite verify_full_unfold.
    assert (Es : VSTEP lh now 0 (mkC [] ureg_empty areg_empty) None g
                 = Ok (mkC [g] ureg_empty areg_empty)).
    { unfold verify_step. cbv zeta. rewrite E in Hg. cbn [genesis_rooted] in Hg.
      rewrite Hg, hash_eqb_refl. cbn [negb]. rewrite andb_false_r. reflexivity. }
    cbn [verify_loop]. rewrite Es.
    destruct (vloop_tail_ok now C lh Hl Hrep Hpv (b1 :: Q) [] g T
                            (mkC [g] ureg_empty areg_empty) 0 areg_empty E eq_refl eq_refl eq_refl Hlh)
      as (sh' & a' & Hloop & Hch' & Hr' & Ea').
    change (VLOOP lh now 1 (mkC [g] ureg_empty areg_empty) (Some g) (b1 :: Q) = Ok sh') in Hloop.
    cbn [verify_loop] in Hloop. cbn [verify_loop]. rewrite Hloop.
    cbn [app] in Hch', Hr'.
    destruct (@exists_last _ (g :: b1 :: Q)) as (Q' & lb & EQ); [discriminate|].
    rewrite EQ in Hch'. rewrite EQ, removelast_last in Hr'.
    apply (verify_finish_ok sh' Q' lb a' (g :: b1 :: Q) Hint Hch' Hr' Ea').
    apply (replay_prefix_ok (Q' ++ [lb]) T).
    rewrite <- EQ. cbn [app]. rewrite <- E. exact Hrep.
  Qed.

  (* ---------------------------------------------------------------- *)
  (* 3. one incremental round                                          *)
  (* ---------------------------------------------------------------- *)

  (* page size as a list length *)
  Definition lim : nat := N.to_nat (s_limit Se).

  (* what an honest neighbor holding C answers to the incremental request of the node [st]
     (blockchain.go:118: startingBlockHeight = len(hostBlocks) - 1) ... *)
  Definition serves_inc (C : list block) (st : cstate) (nb : neighbor) : Prop :=
    nb_target nb <> host_target /\
    exists page, blocks_page Se C (N.of_nat (length (chain st) - 1)) = Ok page /\
                 nb_inc nb = RBlocks page.
  (* ... and to the full request (blockchain.go:138: startingBlockHeight = 0) *)
  Definition serves_full (C : list block) (nb : neighbor) : Prop :=
    nb_target nb <> host_target /\
    exists page, blocks_page Se C 0 = Ok page /\ nb_full nb = RBlocks page.
  Definition serves (C : list block) (st : cstate) (nb : neighbor) : Prop :=
    serves_inc C st nb /\ serves_full C nb.

  Lemma honest_page (C old : list block) (tip : block) (R : list block) :
    (N.of_nat (length C) + s_limit Se <= two64)%N -> 1 <= lim ->
    C = old ++ tip :: R ->
    blocks_page Se C (N.of_nat (length old)) = Ok (tip :: firstn (lim - 1) R).
  Proof.
    intros Hfit Hlim E. rewrite (blocks_page_spec Se C _ Hfit). rewrite Nat2N.id. f_equal.
    rewrite E, skipn_length_app. fold lim. destruct lim as [|k]; [lia|].
    cbn [firstn]. rewrite Nat.sub_succ, Nat.sub_0_r. reflexivity.
  Qed.

  Lemma aset_nonempty {V} (k : string) (v : V) (m : list (string * V)) : aset k v m <> [].
  Proof. destruct m as [|[k' v'] r]; simpl; [discriminate|]. destruct (String.eqb k k'); discriminate. Qed.

  Lemma aset_fold_host (v hostv : list block) : forall (nbs : list neighbor) (rest : cands),
    (forall nb, In nb nbs -> nb_target nb <> host_target) ->
    Forall (fun p => snd p = v) rest ->
    exists rest',
      fold_left (fun (m : cands) nb => aset (nb_target nb) v m) nbs ((host_target, hostv) :: rest)
      = (host_target, hostv) :: rest' /\
      Forall (fun p => snd p = v) rest' /\
      (nbs <> [] \/ rest <> [] -> rest' <> []).
  Proof.
    induction nbs as [|nb r IH]; intros rest Hnames Hall; cbn [fold_left].
    - exists rest. split; [reflexivity|]. split; [exact Hall|].
      intros [Hc|Hc]; [contradiction | exact Hc].
    - assert (Hk : String.eqb (nb_target nb) host_target = false).
      { apply String.eqb_neq. apply Hnames. left. reflexivity. }
      cbn [aset]. rewrite Hk.
      destruct (IH (aset (nb_target nb) v rest)) as (rest' & Hf & Hall' & Hne').
      + intros nb' Hin. apply Hnames. right. exact Hin.
      + apply Forall_forall. intros p Hp. apply In_aset in Hp. destruct Hp as [Hp|Hp].
        * subst p. reflexivity.
        * rewrite Forall_forall in Hall. apply Hall. exact Hp.
      + exists rest'. split; [exact Hf|]. split; [exact Hall'|].
        intros _. apply Hne'. right. apply aset_nonempty.
  Qed.

  (* stage 1 when every neighbor answers the same verifying page [tip :: Q] *)
  Lemma stage1_same_page (st : cstate) (now : Z) (nbs : list neighbor) (old : list block)
        (tip : block) (Q : list block) :
    chain st = old ++ [tip] -> 2 < length (chain st) ->
    (forall nb, In nb nbs -> nb_target nb <> host_target /\ nb_inc nb = RBlocks (tip :: Q)) ->
    VERIFY st [tip] (tip :: Q) old now = Ok (tip :: Q) ->
    nbs <> [] ->
    exists rest,
      STAGE1 st now nbs = (host_target, old ++ [tip]) :: rest /\ rest <> [] /\
      Forall (fun p => snd p = old ++ tip :: Q) rest.
  Proof.
    intros Hch Hlen Hnbs Hv Hne. unfold stage1.
    destruct (Nat.ltb_spec 2 (length (chain st))) as [_|Hc]; [|lia].
    rewrite Hch, removelast_last, last_block_snoc'.
    rewrite (fold_left_ext_in _ (fun (m : cands) nb => aset (nb_target nb) (old ++ tip :: Q) m)).
    - destruct (aset_fold_host (old ++ tip :: Q) (old ++ [tip]) nbs []) as (rest & Hf & Hall & Hn).
      + intros nb Hin. apply (Hnbs nb Hin).
      + constructor.
      + exists rest. split; [exact Hf|]. split; [apply Hn; left; exact Hne | exact Hall].
    - intros m nb Hin. destruct (Hnbs nb Hin) as [_ Hinc]. rewrite Hinc, Hv. reflexivity.
  Qed.

  Lemma candidates_no_fork (st : cstate) (now : Z) (nbs : list neighbor) :
    2 <= length (STAGE1 st now nbs) -> CANDS st now nbs = STAGE1 st now nbs.
  Proof.
    intros Hl. unfold candidates, stage2, is_fork.
    destruct (Nat.ltb_spec (length (STAGE1 st now nbs)) 2) as [Hc|_]; [lia|].
    rewrite andb_false_r. reflexivity.
  Qed.

  (* ---- the filters on candidates that all extend the host's chain ---- *)

  Lemma prev_at_app (P X : list block) (k : nat) : k < length P -> prev_at (P ++ X) k = prev_at P k.
  Proof. intros Hk. unfold prev_at. rewrite nth_error_app1 by exact Hk. reflexivity. Qed.

  Lemma survivors_extending (st : cstate) (m : cands) (P Q : list block) :
    chain st = P -> P <> [] -> Q <> [] ->
    (forall p, In p m -> snd p = P \/ snd p = P ++ Q) ->
    (exists t, In (t, P ++ Q) m) ->
    (forall p, In p (survivors st m) -> snd p = P ++ Q) /\
    (forall t, In (t, P ++ Q) m -> In (t, P ++ Q) (survivors st m)).
  Proof.
    intros Hch HP HQ Hall [t0 Ht0].
    assert (HlenP : 0 < length P) by (destruct P; [contradiction | simpl; lia]).
    assert (HlenQ : 0 < length Q) by (destruct Q; [contradiction | simpl; lia]).
    assert (Hmax : max_len (length P) m = length (P ++ Q)).
    { destruct (max_len_ge (length P) m) as [Hge Hle].
      pose proof (Hle _ Ht0) as Hle0. cbn [snd] in Hle0. rewrite app_length in *.
      destruct (max_len_attained (length P) m) as [Hm|(p & Hp & Hm)]; [lia|].
      destruct (Hall p Hp) as [Ep|Ep]; rewrite Ep in Hm; [lia|]. rewrite app_length in Hm. lia. }
    assert (Hbc : forall c, c = P \/ c = P ++ Q -> branch_count (length P) m c = length m).
    { intros c Hc. unfold branch_count. f_equal. apply filter_all_true. intros q Hq.
      apply hash_eqb_eq.
      assert (Hk : min_len (length P) m - 1 < length P).
      { destruct (min_len_le (length P) m) as [Hmin _]. lia. }
      assert (Hpre : forall c', c' = P \/ c' = P ++ Q ->
                                prev_at c' (min_len (length P) m - 1) = prev_at P (min_len (length P) m - 1)).
      { intros c' [Ec|Ec]; subst c'; [reflexivity | apply prev_at_app; exact Hk]. }
      rewrite (Hpre c Hc), (Hpre (snd q) (Hall q Hq)). reflexivity. }
    assert (Hhalf : length m / 2 <= length m) by (apply Nat.div_le_upper_bound; lia).
    split.
    - intros p Hp. apply survivors_spec in Hp. rewrite Hch in Hp. destruct Hp as (Hin & _ & Hlen).
      destruct (Hall p Hin) as [Ep|Ep]; [|exact Ep].
      rewrite Ep, Hmax, app_length in Hlen. lia.
    - intros t Ht. apply survivors_spec. rewrite Hch. cbn [snd].
      split; [exact Ht|]. split; [|symmetry; exact Hmax].
      rewrite Hbc by (right; reflexivity). exact Hhalf.
  Qed.

  (* ---- the arg-max ---- *)

  Lemma age_loop_ge (target : string) : forall (l : list block) (age : N),
    (age <= age_loop target l age)%N.
  Proof.
    induction l as [|b r IH]; intros age; cbn [age_loop]; [lia|].
    destruct (find is_reward (txs b)) as [t|]; [|apply IH].
    destruct (String.eqb (reward_addr t) target); [lia|].
    pose proof (IH (age + 1)%N). lia.
  Qed.

  Lemma age_of_pos (c : list block) : 2 <= length c -> rewarded c -> (0 < age_of c)%N.
  Proof.
    intros Hlen Hrw.
    destruct (@exists_last _ c) as (c' & lb & E); [destruct c; [simpl in Hlen; lia | discriminate]|].
    destruct (@exists_last _ c') as (X & p & E').
    { subst c. destruct c'; [simpl in Hlen; lia | discriminate]. }
    subst c c'. unfold rewarded in Hrw. rewrite Forall_forall in Hrw.
    destruct (Hrw p) as (t & Ht & Hisr).
    { apply in_or_app. left. apply in_or_app. right. left. reflexivity. }
    unfold age_of. rewrite !rev_app_distr. cbn [rev app age_loop].
    destruct (find is_reward (txs p)) as [t'|] eqn:Ef.
    - destruct (String.eqb (reward_addr t') (last_recipient lb)); [lia|].
      pose proof (age_loop_ge (last_recipient lb) (rev X) (0 + 1)%N). lia.
    - exfalso. pose proof (find_none _ _ Ef t Ht) as Hn. rewrite Hisr in Hn. discriminate.
  Qed.

  Lemma select_unique (pref : string) (m : cands) (v : list block) :
    m <> [] -> (forall p, In p m -> snd p = v) -> (0 < age_of v)%N -> select pref m = Some v.
  Proof.
    intros Hne Hall Hage. destruct (select pref m) as [sel|] eqn:Es.
    - apply select_spec in Es. destruct Es as [[t Ht] _]. f_equal. apply (Hall _ Ht).
    - exfalso. destruct m as [|p0 r]; [contradiction|].
      pose proof (proj1 (select_none pref (p0 :: r)) Es p0 (or_introl eq_refl)) as Hz.
      rewrite (Hall p0 (or_introl eq_refl)) in Hz. lia.
  Qed.

  Lemma rewarded_app_l (X Y : list block) : rewarded (X ++ Y) -> rewarded X.
  Proof. unfold rewarded. intros Hr. apply Forall_app in Hr. apply Hr. Qed.

  Lemma replay_from_prefix_ok (u : ureg) (a : areg) (X Y : list block) (u2 : ureg) (a2 : areg) :
    replay_from u a (X ++ Y) = Ok (u2, a2) -> exists u1 a1, replay_from u a X = Ok (u1, a1).
  Proof.
    rewrite replay_from_app. destruct (replay_from u a X) as [[u1 a1]|e]; simpl; [|discriminate].
    intros _. exists u1, a1. reflexivity.
  Qed.

  (* the candidates of a round in which every neighbor serves C to a node holding the prefix
     [old ++ [tip]] of C = old ++ tip :: R: the host's entry first, then at least one entry, all
     of them the host's chain extended by the next [lim - 1] blocks of C; no full re-sync *)
  Lemma served_round_cands (st : cstate) (now : Z) (nbs : list neighbor)
        (C old : list block) (tip : block) (R : list block) :
    (0 < s_interval Se)%Z ->
    servable now C -> C = old ++ tip :: R -> chain st = old ++ [tip] -> 2 < length (chain st) ->
    denotes (chain st) (ur st) (ar st) ->
    1 <= lim -> (N.of_nat (length C) + s_limit Se <= two64)%N ->
    nbs <> [] -> (forall nb, In nb nbs -> serves_inc C st nb) ->
    exists rest,
      CANDS st now nbs = (host_target, old ++ [tip]) :: rest /\
      is_fork st (STAGE1 st now nbs) nbs = false /\
      rest <> [] /\
      Forall (fun p => snd p = (old ++ [tip]) ++ firstn (lim - 1) R) rest.
  Proof.
    intros Hint (Hl & Hg & Hrep & Hpv & Hrw & Hts) E Hch Hlen (a & Hr & Ea) Hlim Hfit Hne Hnbs.
    set (Q := firstn (lim - 1) R). set (T := skipn (lim - 1) R).
    assert (ER : R = Q ++ T) by (symmetry; apply firstn_skipn).
    assert (Hold : old <> []).
    { intros E0. subst old. rewrite Hch in Hlen. simpl in Hlen. lia. }
    rewrite Hch, removelast_last in Hr.
    assert (E' : C = old ++ tip :: Q ++ T) by (rewrite <- ER; exact E).
    pose proof (verify_prefix_page st now C old tip Q T a Hint Hl Hrep Hpv E' Hold Hr Ea) as Hv.
    assert (Hpage : forall nb, In nb nbs ->
                               nb_target nb <> host_target /\ nb_inc nb = RBlocks (tip :: Q)).
    { intros nb Hin. destruct (Hnbs nb Hin) as (Hname & page & Hp & Hinc). split; [exact Hname|].
      rewrite Hch, app_length in Hp. cbn [length] in Hp.
      replace (length old + 1 - 1) with (length old) in Hp by lia.
      rewrite (honest_page C old tip R Hfit Hlim E) in Hp. inversion Hp; subst page. exact Hinc. }
    destruct (stage1_same_page st now nbs old tip Q Hch Hlen Hpage Hv Hne) as (rest & Hs1 & Hrne & Hall).
    assert (Hl2 : 2 <= length (STAGE1 st now nbs)).
    { rewrite Hs1. destruct rest; [contradiction | simpl; lia]. }
    exists rest. split; [rewrite (candidates_no_fork st now nbs Hl2); exact Hs1|].
    split.
    { unfold is_fork. destruct (Nat.ltb_spec (length (STAGE1 st now nbs)) 2) as [Hc|_]; [lia|].
      rewrite andb_false_r. reflexivity. }
    split; [exact Hrne|].
    eapply Forall_impl; [|exact Hall]. intros p Hp. rewrite Hp, <- app_assoc. reflexivity.
  Qed.

  (* the round of a node that holds a proper prefix of C, longer than two blocks *)
  Theorem round_extends_prefix (st : cstate) (now : Z) (nbs : list neighbor) (pref : string)
          (C P R : list block) :
    (0 < s_interval Se)%Z ->
    servable now C -> C = P ++ R -> R <> [] -> chain st = P -> 2 < length P ->
    denotes P (ur st) (ar st) ->
    (3 <= s_limit Se)%N -> (N.of_nat (length C) + s_limit Se <= two64)%N ->
    nbs <> [] -> (forall nb, In nb nbs -> serves_inc C st nb) ->
    exists st',
      UPDATE st now nbs pref = (st', true) /\
      chain st' = P ++ firstn (lim - 1) R /\
      denotes (chain st') (ur st') (ar st').
  Proof.
    intros Hint Hserv E HR Hch Hlen Hden Hlim3 Hfit Hne Hnbs.
    assert (Hlim : 3 <= lim) by (unfold lim; lia).
    assert (HP : P <> []) by (intros E0; rewrite E0 in Hlen; simpl in Hlen; lia).
    destruct (exists_last HP) as (old & tip & EP).
    assert (E' : C = old ++ tip :: R) by (rewrite E, EP, <- app_assoc; reflexivity).
    assert (Hch' : chain st = old ++ [tip]) by (rewrite Hch; exact EP).
    assert (Hlen' : 2 < length (chain st)) by (rewrite Hch; exact Hlen).
    assert (Hden' : denotes (chain st) (ur st) (ar st)) by (rewrite Hch; exact Hden).
    destruct (served_round_cands st now nbs C old tip R Hint Hserv E' Hch' Hlen' Hden'
                                 ltac:(lia) Hfit Hne Hnbs)
      as (rest & Hc & Hfk & Hrne & Hall).
    rewrite <- EP in Hc, Hall.
    set (Q := firstn (lim - 1) R) in *.
    assert (HQ : Q <> []).
    { unfold Q. destruct R as [|r0 R']; [contradiction|].
      destruct (lim - 1) as [|k] eqn:Ek; [lia|]. discriminate. }
    destruct Hserv as (Hl & Hg & Hrep & Hpv & Hrw & Hts).
    assert (ER : R = Q ++ skipn (lim - 1) R) by (symmetry; apply firstn_skipn).
    (* the filters and the arg-max *)
    set (m := (host_target, P) :: rest) in *.
    assert (Hm : forall p, In p m -> snd p = P \/ snd p = P ++ Q).
    { intros p [Hp|Hp]; [subst p; left; reflexivity|right].
      rewrite Forall_forall in Hall. apply Hall. exact Hp. }
    assert (Hex : exists t, In (t, P ++ Q) m).
    { destruct rest as [|[t0 v0] rest']; [contradiction|]. exists t0.
      right. left. rewrite Forall_forall in Hall.
      rewrite <- (Hall (t0, v0) (or_introl eq_refl)). reflexivity. }
    destruct (survivors_extending st m P Q Hch HP HQ Hm Hex) as [Hsv1 Hsv2].
    assert (Hsel : select pref (survivors st m) = Some (P ++ Q)).
    { apply select_unique.
      - destruct Hex as [t Ht]. intros E0. pose proof (Hsv2 t Ht) as Hin. rewrite E0 in Hin. destruct Hin.
      - exact Hsv1.
      - apply age_of_pos.
        + rewrite app_length. lia.
        + apply (rewarded_app_l (P ++ Q) (skipn (lim - 1) R)).
          rewrite <- app_assoc, <- ER, <- E. exact Hrw. }
    assert (HlenQ : 0 < length Q) by (destruct Q; [contradiction | simpl; lia]).
    (* the commit *)
    destruct Hden as (a & Hr & Ea). rewrite EP, removelast_last in Hr.
    assert (Hnews : slice_blocks (P ++ Q) (length P - 1) (length (P ++ Q) - 1)
                    = removelast (tip :: Q)).
    { unfold slice_blocks. rewrite EP, <- app_assoc. cbn [app].
      rewrite !app_length. cbn [length].
      replace (length old + 1 - 1) with (length old) by lia.
      rewrite skipn_length_app, removelast_firstn_len. cbn [length]. f_equal. lia. }
    assert (Hcommit : exists u' a', replay_from (ur st) (ar st) (removelast (tip :: Q)) = Ok (u', a')).
    { assert (Hpre : exists u a, replay (old ++ tip :: Q) = Ok (u, a)).
      { apply (replay_prefix_ok (old ++ tip :: Q) (skipn (lim - 1) R)).
        rewrite <- app_assoc. cbn [app]. rewrite <- ER, <- E'. exact Hrep. }
      destruct Hpre as (u2 & a2 & Hp2).
      destruct (replay_app_inv _ _ _ _ Hp2) as (u1 & a1 & Hx & Hy).
      rewrite Hr in Hx. inversion Hx; subst u1 a1.
      rewrite (app_removelast_last tip (l := tip :: Q)) in Hy by discriminate.
      destruct (replay_from_prefix_ok _ _ _ _ _ _ Hy) as (u' & a' & Hy').
      destruct (replay_from_reg_irrel _ _ _ _ _ _ Ea Hy') as (a'' & Hy'' & _).
      exists u', a''. exact Hy''. }
    destruct Hcommit as (u' & a' & Hcl). apply commit_loop_spec in Hcl.
    assert (Hu : UPDATE st now nbs pref = (mkC (P ++ Q) u' a', true)).
    { rewrite update_unfold, Hc. fold m. rewrite Hsel, Hfk.
      unfold is_different, commit_input. rewrite Hch.
      destruct (Nat.ltb_spec (length P) (length (P ++ Q))) as [_|Hc']; [|rewrite app_length in Hc'; lia].
      destruct (Nat.eqb_spec (length (P ++ Q)) 0) as [Hz|_]; [rewrite app_length in Hz; lia|].
      cbn [andb negb]. rewrite Hnews, Hcl. reflexivity. }
    exists (mkC (P ++ Q) u' a'). split; [exact Hu|]. split; [reflexivity|].
    apply (update_denotes value_fn addr_of sig_ok H Se st now nbs pref _ true); [|exact Hden'|exact Hu].
    intros nb Hin. apply (Hnbs nb Hin).
  Qed.

  (* a node that already holds C keeps it *)
  Theorem round_stable (st : cstate) (now : Z) (nbs : list neighbor) (pref : string)
          (C : list block) :
    servable now C -> chain st = C -> 2 < length C ->
    denotes C (ur st) (ar st) ->
    (1 <= s_limit Se)%N -> (N.of_nat (length C) + s_limit Se <= two64)%N ->
    (forall nb, In nb nbs -> serves_inc C st nb) ->
    UPDATE st now nbs pref = (st, false).
  Proof.
    intros Hserv Hch Hlen Hden Hlim1 Hfit Hnbs.
    (* with an interval that is not positive no answer is accepted: nothing changes *)
    destruct (Z.lt_ge_cases 0 (s_interval Se)) as [Hint|Hint];
      [|apply update_nonpos_interval_kept; lia].
    destruct nbs as [|nb0 nbs0]; [apply update_no_neighbors|].
    assert (Hlim : 1 <= lim) by (unfold lim; lia).
    assert (HP : C <> []) by (intros E0; rewrite E0 in Hlen; simpl in Hlen; lia).
    destruct (exists_last HP) as (old & tip & EP).
    assert (E' : C = old ++ tip :: []) by exact EP.
    assert (Hch' : chain st = old ++ [tip]) by (rewrite Hch; exact EP).
    assert (Hlen' : 2 < length (chain st)) by (rewrite Hch; exact Hlen).
    assert (Hden' : denotes (chain st) (ur st) (ar st)) by (rewrite Hch; exact Hden).
    destruct (served_round_cands st now (nb0 :: nbs0) C old tip [] Hint Hserv E' Hch' Hlen' Hden'
                                 Hlim Hfit ltac:(discriminate) Hnbs)
      as (rest & Hc & _ & _ & Hall).
    rewrite firstn_nil, app_nil_r, <- Hch' in Hall. rewrite <- Hch' in Hc.
    assert (Hm : forall p, In p (CANDS st now (nb0 :: nbs0)) -> snd p = chain st).
    { rewrite Hc. intros p [Hp|Hp]; [subst p; reflexivity|].
      rewrite Forall_forall in Hall. apply Hall. exact Hp. }
    destruct (select pref (survivors st (CANDS st now (nb0 :: nbs0)))) as [sel|] eqn:Es.
    - pose proof Es as Es'. apply select_spec in Es'. destruct Es' as [[t Ht] _].
      apply survivors_incl in Ht. apply Hm in Ht. cbn [snd] in Ht. subst sel.
      apply (update_identical_kept _ _ _ _ _ _ _ _ _ _ Es); [lia|].
      intros x y Hx Hy. rewrite Hx in Hy. inversion Hy. reflexivity.
    - apply update_none_selected_kept. exact Es.
  Qed.

  (* ---------------------------------------------------------------- *)
  (* 5. the short starts: one full round                               *)
  (* ---------------------------------------------------------------- *)

  Lemma aset_fold_all (v : list block) : forall (nbs : list neighbor) (m0 : cands),
    Forall (fun p => snd p = v) m0 ->
    Forall (fun p => snd p = v) (fold_left (fun (m : cands) nb => aset (nb_target nb) v m) nbs m0) /\
    (nbs <> [] \/ m0 <> [] ->
     fold_left (fun (m : cands) nb => aset (nb_target nb) v m) nbs m0 <> []).
  Proof.
    induction nbs as [|nb r IH]; intros m0 Hall; cbn [fold_left].
    - split; [exact Hall|]. intros [Hc|Hc]; [contradiction | exact Hc].
    - destruct (IH (aset (nb_target nb) v m0)) as [Hall' Hne'].
      + apply Forall_forall. intros p Hp. apply In_aset in Hp. destruct Hp as [Hp|Hp].
        * subst p. reflexivity.
        * rewrite Forall_forall in Hall. apply Hall. exact Hp.
      + split; [exact Hall'|]. intros _. apply Hne'. right. apply aset_nonempty.
  Qed.

  Lemma survivors_all_same (st : cstate) (m : cands) (v : list block) :
    m <> [] -> (forall p, In p m -> snd p = v) -> length (chain st) <= length v ->
    forall p, In p (survivors st m) <-> In p m.
  Proof.
    intros Hne Hall Hlen p. rewrite survivors_spec. split; [intros (Hin & _); exact Hin|].
    intros Hin. split; [exact Hin|].
    assert (Hmax : max_len (length (chain st)) m = length v).
    { destruct (max_len_ge (length (chain st)) m) as [Hge Hle].
      pose proof (Hle p Hin) as Hle0. rewrite (Hall p Hin) in Hle0.
      destruct (max_len_attained (length (chain st)) m) as [Hm|(q & Hq & Hm)]; [lia|].
      rewrite (Hall q Hq) in Hm. symmetry. exact Hm. }
    split; [|rewrite (Hall p Hin); symmetry; exact Hmax].
    assert (Hbc : branch_count (length (chain st)) m (snd p) = length m).
    { unfold branch_count. f_equal. apply filter_all_true. intros q Hq.
      rewrite (Hall p Hin), (Hall q Hq). apply hash_eqb_refl. }
    rewrite Hbc. apply Nat.div_le_upper_bound; lia.
  Qed.

  (* a node holding one or two blocks (any blocks: it need not be on C): stage 1 is skipped, every
     neighbor's full answer is the first page of C, and that page is selected *)
  Lemma full_round_select (st : cstate) (now : Z) (nbs : list neighbor) (pref : string)
        (C : list block) :
    (0 < s_interval Se)%Z ->
    servable now C ->
    1 <= length (chain st) <= 2 -> 2 <= length C ->
    (3 <= s_limit Se)%N -> (N.of_nat (length C) + s_limit Se <= two64)%N ->
    nbs <> [] -> (forall nb, In nb nbs -> serves_full C nb) ->
    CANDS st now nbs <> [] /\
    select pref (survivors st (CANDS st now nbs)) = Some (firstn lim C) /\
    is_fork st (STAGE1 st now nbs) nbs = true.
  Proof.
    intros Hint (Hl & Hg & Hrep & Hpv & Hrw & Hts) Hlen Hlen2 Hlim3 Hfit Hne Hnbs.
    assert (Hlim : 3 <= lim) by (unfold lim; lia).
    destruct C as [|g [|b1 C2]]; [simpl in Hlen2; lia | simpl in Hlen2; lia |].
    set (C := g :: b1 :: C2) in *.
    set (Q := firstn (lim - 2) C2). set (T := skipn (lim - 2) C2).
    assert (EC : C = g :: b1 :: Q ++ T) by (unfold C, Q, T; rewrite firstn_skipn; reflexivity).
    assert (EF : firstn lim C = g :: b1 :: Q).
    { unfold C, Q. destruct lim as [|[|k]]; [lia | lia |]. cbn [firstn].
      replace (Datatypes.S (Datatypes.S k) - 2) with k by lia. reflexivity. }
    rewrite EF. set (F := g :: b1 :: Q) in *.
    assert (Hpage : blocks_page Se C 0 = Ok F).
    { rewrite (blocks_page_spec Se C 0 Hfit). fold lim. change (N.to_nat 0) with 0.
      cbn [skipn]. rewrite EF. reflexivity. }
    assert (Hlh : length (removelast (chain st)) <= 1) by (rewrite removelast_len; lia).
    pose proof (verify_full_page st now C (removelast (chain st)) g b1 Q T Hint Hl Hg Hrep Hpv EC Hlh) as Hv.
    fold F in Hv.
    assert (Hs1 : STAGE1 st now nbs = []).
    { unfold stage1. destruct (Nat.ltb_spec 2 (length (chain st))) as [Hc|_]; [lia | reflexivity]. }
    assert (Hfk : is_fork st (STAGE1 st now nbs) nbs = true).
    { rewrite Hs1. unfold is_fork.
      destruct (Nat.ltb_spec 0 (length (chain st))) as [_|Hc]; [|lia].
      destruct (Nat.ltb_spec 0 (length nbs)) as [_|Hc]; [reflexivity|].
      destruct nbs; [contradiction | simpl in Hc; lia]. }
    set (m := fold_left (fun (m : cands) nb => aset (nb_target nb) F m) nbs []).
    assert (Hc : CANDS st now nbs = m).
    { unfold candidates, stage2. rewrite Hfk, Hs1. apply fold_left_ext_in.
      intros m0 nb Hin. destruct (Hnbs nb Hin) as (_ & page & Hp & Hfull).
      rewrite Hpage in Hp. inversion Hp; subst page. rewrite Hfull, Hv. reflexivity. }
    destruct (aset_fold_all F nbs [] (Forall_nil _)) as [Hall Hmne]. fold m in Hall, Hmne.
    assert (Hmne' : m <> []) by (apply Hmne; left; exact Hne).
    rewrite Forall_forall in Hall.
    assert (HlenF : length (chain st) <= length F) by (unfold F; simpl; lia).
    assert (Hsurv : forall p, In p (survivors st m) <-> In p m).
    { apply (survivors_all_same st m F Hmne' Hall HlenF). }
    rewrite Hc. split; [exact Hmne'|]. split; [|exact Hfk].
    apply select_unique.
    - destruct m as [|p0 r]; [contradiction|]. intros E0.
      pose proof (proj2 (Hsurv p0) (or_introl eq_refl)) as Hin. rewrite E0 in Hin. destruct Hin.
    - intros p Hp. apply Hall, Hsurv, Hp.
    - apply age_of_pos; [unfold F; simpl; lia|].
      apply (rewarded_app_l F T). unfold F. cbn [app]. rewrite <- EC. exact Hrw.
  Qed.

  (* ... and adopted when the node holds fewer blocks than C *)
  Theorem round_full_adopts (st : cstate) (now : Z) (nbs : list neighbor) (pref : string)
          (C : list block) :
    (0 < s_interval Se)%Z ->
    servable now C ->
    1 <= length (chain st) <= 2 -> length (chain st) < length C ->
    (3 <= s_limit Se)%N -> (N.of_nat (length C) + s_limit Se <= two64)%N ->
    nbs <> [] -> (forall nb, In nb nbs -> serves_full C nb) ->
    exists st',
      UPDATE st now nbs pref = (st', true) /\
      chain st' = firstn lim C /\
      replay (removelast (chain st')) = Ok (ur st', ar st').
  Proof.
    intros Hint Hserv Hlen Hshort Hlim3 Hfit Hne Hnbs.
    destruct (full_round_select st now nbs pref C Hint Hserv Hlen ltac:(lia) Hlim3 Hfit Hne Hnbs)
      as (Hcne & Hsel & Hfk).
    destruct Hserv as (Hl & Hg & Hrep & Hpv & Hrw & Hts).
    assert (Hlim : 3 <= lim) by (unfold lim; lia).
    set (F := firstn lim C) in *.
    assert (HlenF : length (chain st) < length F) by (unfold F; rewrite firstn_length; lia).
    assert (HF : F <> []) by (intros E0; rewrite E0 in HlenF; simpl in HlenF; lia).
    assert (Hcommit : exists u' a', replay (removelast F) = Ok (u', a')).
    { apply (replay_prefix_ok (removelast F) ([last F (mkBlock [] None None 0 None)] ++ skipn lim C)).
      rewrite app_assoc, <- (app_removelast_last _ HF). unfold F. rewrite firstn_skipn. exact Hrep. }
    destruct Hcommit as (u' & a' & Hcl). pose proof Hcl as Hcl'.
    unfold replay in Hcl'. apply commit_loop_spec in Hcl'.
    exists (mkC F u' a'). split; [|split; [reflexivity | exact Hcl]].
    rewrite update_unfold, Hsel, Hfk. unfold is_different, commit_input.
    destruct (Nat.ltb_spec (length (chain st)) (length F)) as [_|Hc']; [|lia].
    destruct (Nat.eqb_spec (length F) 0) as [Hz|_]; [lia|].
    cbn [andb negb]. rewrite Hcl'.
    destruct (CANDS st now nbs) as [|p0 r]; [contradiction | reflexivity].
  Qed.

  (* ... and changes nothing when the node already holds the two-block chain C *)
  Theorem round_full_stable (st : cstate) (now : Z) (nbs : list neighbor) (pref : string)
          (C : list block) :
    servable now C -> chain st = C -> length C = 2 ->
    (3 <= s_limit Se)%N -> (N.of_nat (length C) + s_limit Se <= two64)%N ->
    (forall nb, In nb nbs -> serves_full C nb) ->
    UPDATE st now nbs pref = (st, false).
  Proof.
    intros Hserv Hch Hlen2 Hlim3 Hfit Hnbs.
    destruct (Z.lt_ge_cases 0 (s_interval Se)) as [Hint|Hint];
      [|apply update_nonpos_interval_kept; lia].
    destruct nbs as [|nb0 nbs0]; [apply update_no_neighbors|].
    assert (Hlim : 3 <= lim) by (unfold lim; lia).
    destruct (full_round_select st now (nb0 :: nbs0) pref C Hint Hserv ltac:(rewrite Hch; lia) ltac:(lia)
                                Hlim3 Hfit ltac:(discriminate) Hnbs)
      as (_ & Hsel & _).
    rewrite firstn_all2 in Hsel by lia.
    apply (update_identical_kept _ _ _ _ _ _ _ _ _ _ Hsel); [rewrite Hch; lia|].
    intros x y Hx Hy. rewrite Hch, Hx in Hy. inversion Hy. reflexivity.
  Qed.

  (* ---------------------------------------------------------------- *)
  (* 4. several rounds                                                 *)
  (* ---------------------------------------------------------------- *)

  (* [n] sync rounds of a node all of whose neighbors, at every round, are honest nodes holding C.
     The environment chooses the time of each round (not before [now0]), the neighbor set (not
     empty), and the map-iteration order of the arg-max ([pref]). *)
  Inductive sync_rounds (C : list block) (now0 : Z) : cstate -> nat -> cstate -> Prop :=
  | sr_done (st : cstate) : sync_rounds C now0 st 0 st
  | sr_round (st : cstate) (now : Z) (nbs : list neighbor) (pref : string) (n : nat) (st' : cstate) :
      (now0 <= now)%Z -> nbs <> [] -> (forall nb, In nb nbs -> serves C st nb) ->
      sync_rounds C now0 (fst (UPDATE st now nbs pref)) n st' ->
      sync_rounds C now0 st (Datatypes.S n) st'.

  (* from a prefix longer than two blocks: [lim - 1] more blocks of C at every round *)
  Theorem rounds_converge (C : list block) (now0 : Z) :
    (0 < s_interval Se)%Z ->
    servable now0 C -> (3 <= s_limit Se)%N -> (N.of_nat (length C) + s_limit Se <= two64)%N ->
    forall (n : nat) (st st' : cstate),
      sync_rounds C now0 st n st' ->
      prefix (chain st) C -> 2 < length (chain st) ->
      denotes (chain st) (ur st) (ar st) ->
      length C - length (chain st) <= n * (lim - 1) ->
      chain st' = C /\ denotes C (ur st') (ar st').
  Proof.
    intros Hint Hserv Hlim3 Hfit n st st' Hrun.
    induction Hrun as [st | st now nbs pref n st' Hnow Hne Hnbs Hrun IH]; intros [R E] Hlen Hden Hn.
    - assert (HR : R = []).
      { apply length_zero_iff_nil. rewrite E, app_length in Hn. lia. }
      rewrite HR, app_nil_r in E. rewrite <- E in Hden. split; [symmetry; exact E | exact Hden].
    - pose proof (servable_later now0 now C Hnow Hserv) as Hserv'.
      assert (Hinc : forall nb, In nb nbs -> serves_inc C st nb) by (intros nb Hin; apply (Hnbs nb Hin)).
      destruct R as [|r0 R'].
      + rewrite app_nil_r in E.
        assert (Hu : UPDATE st now nbs pref = (st, false)).
        { apply (round_stable st now nbs pref C Hserv'); [symmetry; exact E | rewrite E; exact Hlen | | lia | exact Hfit | exact Hinc].
          rewrite E. exact Hden. }
        rewrite Hu in IH. cbn [fst] in IH. apply IH; [exists []; rewrite app_nil_r; exact E | exact Hlen | exact Hden|].
        rewrite E, Nat.sub_diag. apply Nat.le_0_l.
      + destruct (round_extends_prefix st now nbs pref C (chain st) (r0 :: R') Hint Hserv' E ltac:(discriminate)
                                       eq_refl Hlen Hden Hlim3 Hfit Hne Hinc)
          as (st1 & Hu & Hch1 & Hden1).
        rewrite Hu in IH. cbn [fst] in IH. apply IH.
        * exists (skipn (lim - 1) (r0 :: R')). rewrite Hch1, <- app_assoc, firstn_skipn. exact E.
        * rewrite Hch1, app_length. lia.
        * exact Hden1.
        * rewrite Hch1, E, !app_length, firstn_length. rewrite E, app_length in Hn.
          rewrite Nat.mul_succ_l in Hn. set (nk := n * (lim - 1)) in *. lia.
  Qed.

  Lemma rounds_stable_two (C : list block) (now0 : Z) :
    servable now0 C -> (3 <= s_limit Se)%N -> (N.of_nat (length C) + s_limit Se <= two64)%N ->
    length C = 2 ->
    forall (n : nat) (st st' : cstate),
      sync_rounds C now0 st n st' -> chain st = C -> st' = st.
  Proof.
    intros Hserv Hlim3 Hfit Hlen2 n st st' Hrun.
    induction Hrun as [st | st now nbs pref n st' Hnow Hne Hnbs Hrun IH]; intros Hch; [reflexivity|].
    pose proof (servable_later now0 now C Hnow Hserv) as Hserv'.
    assert (Hu : UPDATE st now nbs pref = (st, false)).
    { apply (round_full_stable st now nbs pref C Hserv' Hch Hlen2 Hlim3 Hfit).
      intros nb Hin. apply (Hnbs nb Hin). }
    rewrite Hu in IH. cbn [fst] in IH. apply IH. exact Hch.
  Qed.

  (* from any start the property allows: one full round if the node holds one or two blocks, then
     the incremental rounds *)
  Theorem sync_converges (C : list block) (now0 : Z) :
    (0 < s_interval Se)%Z ->
    servable now0 C -> (3 <= s_limit Se)%N -> (N.of_nat (length C) + s_limit Se <= two64)%N ->
    2 <= length C ->
    forall (n : nat) (st st' : cstate),
      sync_rounds C now0 st n st' ->
      1 <= length (chain st) ->
      (prefix (chain st) C \/ (length (chain st) <= 2 /\ length (chain st) < length C)) ->
      denotes (chain st) (ur st) (ar st) ->
      1 + ceil_div (length C) (lim - 1) <= n ->
      chain st' = C /\ denotes C (ur st') (ar st').
  Proof.
    intros Hint Hserv Hlim3 Hfit HlenC n st st' Hrun Hlen1 Hstart Hden Hn.
    assert (Hlim : 3 <= lim) by (unfold lim; lia).
    assert (Hk : 0 < lim - 1) by lia.
    pose proof (ceil_div_ok (length C) (lim - 1) Hk) as Hceil.
    destruct (Nat.ltb_spec 2 (length (chain st))) as [Hlong|Hshort].
    - (* already longer than two blocks *)
      destruct Hstart as [Hpre|[Hc _]]; [|lia].
      apply (rounds_converge C now0 Hint Hserv Hlim3 Hfit n st st' Hrun Hpre Hlong Hden).
      assert (Hmul : ceil_div (length C) (lim - 1) * (lim - 1) <= n * (lim - 1))
        by (apply Nat.mul_le_mono_r; lia).
      lia.
    - destruct (Nat.ltb_spec (length (chain st)) (length C)) as [Hlt|Hge].
      + (* one full round first *)
        destruct n as [|n']; [lia|].
        inversion Hrun as [|st0 now nbs pref n0 st0' Hnow Hne Hnbs Hrun' E1 E2 E3]; subst st0 n0 st0'.
        pose proof (servable_later now0 now C Hnow Hserv) as Hserv'.
        assert (Hfull : forall nb, In nb nbs -> serves_full C nb) by (intros nb Hin; apply (Hnbs nb Hin)).
        destruct (round_full_adopts st now nbs pref C Hint Hserv' (conj Hlen1 Hshort) Hlt Hlim3 Hfit Hne Hfull)
          as (st1 & Hu & Hch1 & Hr1).
        rewrite Hu in Hrun'. cbn [fst] in Hrun'.
        assert (Hden1 : denotes (chain st1) (ur st1) (ar st1)).
        { exists (ar st1). split; [exact Hr1 | reflexivity]. }
        assert (Hpre1 : prefix (chain st1) C).
        { exists (skipn lim C). rewrite Hch1, firstn_skipn. reflexivity. }
        assert (Hlen1' : length (chain st1) = Nat.min lim (length C)) by (rewrite Hch1; apply firstn_length).
        destruct (Nat.ltb_spec 2 (length (chain st1))) as [Hlong1|Hshort1].
        * apply (rounds_converge C now0 Hint Hserv Hlim3 Hfit n' st1 st' Hrun' Hpre1 Hlong1 Hden1).
          assert (Hmul : ceil_div (length C) (lim - 1) * (lim - 1) <= n' * (lim - 1))
            by (apply Nat.mul_le_mono_r; lia).
          lia.
        * assert (HC2 : length C = 2) by lia.
          assert (Hch1' : chain st1 = C) by (rewrite Hch1; apply firstn_all2; lia).
          rewrite (rounds_stable_two C now0 Hserv Hlim3 Hfit HC2 n' st1 st' Hrun' Hch1').
          split; [exact Hch1'|]. rewrite <- Hch1'. exact Hden1.
      + (* the node already holds the two-block chain C *)
        destruct Hstart as [[R E]|[_ Hc]]; [|lia].
        assert (HR : R = []).
        { apply length_zero_iff_nil. rewrite E, app_length in Hge. lia. }
        rewrite HR, app_nil_r in E.
        assert (HC2 : length C = 2) by (rewrite E in *; lia).
        rewrite (rounds_stable_two C now0 Hserv Hlim3 Hfit HC2 n st st' Hrun (eq_sym E)).
        split; [symmetry; exact E|]. rewrite E. exact Hden.
  Qed.

  (* the number of rounds of the incremental phase, as the ceiling the property states *)
  Corollary rounds_converge_ceil (C : list block) (now0 : Z) (st st' : cstate) :
    (0 < s_interval Se)%Z ->
    servable now0 C -> (3 <= s_limit Se)%N -> (N.of_nat (length C) + s_limit Se <= two64)%N ->
    prefix (chain st) C -> 2 < length (chain st) ->
    denotes (chain st) (ur st) (ar st) ->
    sync_rounds C now0 st (ceil_div (length C - length (chain st)) (lim - 1)) st' ->
    chain st' = C /\ denotes C (ur st') (ar st') /\
    ceil_div (length C - length (chain st)) (lim - 1) <= 1 + ceil_div (length C) (lim - 1).
  Proof.
    intros Hint Hserv Hlim3 Hfit Hpre Hlen Hden Hrun.
    assert (Hk : 0 < lim - 1) by (unfold lim; lia).
    destruct (rounds_converge C now0 Hint Hserv Hlim3 Hfit _ st st' Hrun Hpre Hlen Hden
                              (ceil_div_ok _ _ Hk)) as [Hc Hd].
    split; [exact Hc|]. split; [exact Hd|].
    pose proof (ceil_div_mono (length C - length (chain st)) (length C) (lim - 1) Hk ltac:(lia)). lia.
  Qed.

End Converge.

(* ------------------------------------------------------------------ *)
(* the same, between reachable nodes (C07 gives the registers)         *)
(* ------------------------------------------------------------------ *)

Lemma denotes_same (C : list block) (u1 u2 : ureg) (a1 a2 : areg) :
  denotes C u1 a1 -> denotes C u2 a2 -> u1 = u2 /\ registered a1 = registered a2.
Proof.
  intros (x1 & Hr1 & E1) (x2 & Hr2 & E2). rewrite Hr1 in Hr2. inversion Hr2; subst u2 x2.
  split; [reflexivity|]. rewrite <- E1, <- E2. reflexivity.
Qed.

Section ConvergeReach.
  Variable value_fn : N -> bool -> Z -> N.
  Variable addr_of : string -> string.
  Variable sig_ok : input -> bool.
  Variable H : block -> hash.
  Variable gen_id : slice input -> slice output -> Z -> string.
  Variable Se : settings.
  Variable validator : string.

  (* [n0] is the node catching up, [srv] any reachable node that holds C (its validator address
     and its history are its own): after the rounds, [n0] holds C with the outputs and the
     registered addresses of [srv] *)
  Theorem sync_converges_reach (validator' : string) (C : list block) (now0 : Z) (srv n0 : node) :
    reach value_fn addr_of sig_ok H gen_id Se validator' srv -> chain (n_c srv) = C ->
    reach value_fn addr_of sig_ok H gen_id Se validator n0 ->
    (0 < s_interval Se)%Z ->
    servable value_fn addr_of sig_ok H Se now0 C ->
    (3 <= s_limit Se)%N -> (N.of_nat (length C) + s_limit Se <= two64)%N ->
    2 <= length C ->
    1 <= length (chain (n_c n0)) ->
    (prefix (chain (n_c n0)) C \/
     (length (chain (n_c n0)) <= 2 /\ length (chain (n_c n0)) < length C)) ->
    forall (n : nat) (st' : cstate),
      sync_rounds value_fn addr_of sig_ok H Se C now0 (n_c n0) n st' ->
      1 + ceil_div (length C) (lim Se - 1) <= n ->
      chain st' = C /\
      (forall addr, utxos_of (ur st') addr = utxos_of (ur (n_c srv)) addr) /\
      (forall addr, is_registered (ar st') addr = is_registered (ar (n_c srv)) addr).
  Proof.
    intros Hsrv HC Hn0 Hint Hserv Hlim3 Hfit HlenC Hlen1 Hstart n st' Hrun Hn.
    pose proof (reach_denotes _ _ _ _ _ _ _ _ Hn0) as Hd0.
    pose proof (reach_denotes _ _ _ _ _ _ _ _ Hsrv) as Hds. rewrite HC in Hds.
    destruct (sync_converges value_fn addr_of sig_ok H Se C now0 Hint Hserv Hlim3 Hfit HlenC
                             n (n_c n0) st' Hrun Hlen1 Hstart Hd0 Hn) as [Hc Hd].
    destruct (denotes_same C _ _ _ _ Hd Hds) as [Eu Ea].
    split; [exact Hc|]. split.
    - intros addr. rewrite Eu. reflexivity.
    - intros addr. unfold is_registered. rewrite Ea. reflexivity.
  Qed.
End ConvergeReach.

(* ------------------------------------------------------------------ *)
(* a toy instance: a five-block chain served with a page size of 3     *)
(* ------------------------------------------------------------------ *)
Module ConvergeExample.
  Import SyncExample.
  Local Open Scope string_scope.
  Definition S3 : settings := mkSettings 10 1 100 3.
  (* the genesis block pays A 100; blocks 1, 2 and 4 hold a reward of 0 only; block 3 holds a
     wallet-style transaction (it spends the genesis output, confirmed three blocks back:
     100 in, 90 out, fee 10) and a reward of 10 *)
  Definition g0 : block :=
    mkBlock zero_hash None None 0 (Some [mkTx "g0" None (Some [mkOutput "A" false 100]) 0]).
  Definition c1 : block := mkBlock (Ht g0) None None 10 (Some [rw "r1" "V" 10]).
  Definition c2 : block := mkBlock (Ht c1) None None 20 (Some [rw "r2" "V" 20]).
  Definition t3 : tx :=
    mkTx "t3" (Some [mkInput 0 "g0" "A" "sigA"]) (Some [mkOutput "B" false 90]) 25.
  Definition c3 : block :=
    mkBlock (Ht c2) None None 30 (Some [t3; mkTx "r3" None (Some [mkOutput "V" false 10]) 30]).
  Definition c4 : block := mkBlock (Ht c3) None None 40 (Some [rw "r4" "V" 40]).
  Definition CC : list block := [g0; c1; c2; c3; c4].

  (* an honest neighbor holding CC, as seen by a node holding [len] blocks *)
  Definition page (h : N) : list block :=
    match blocks_page S3 CC h with Ok p => p | Err _ => [] end.
  Definition nbC (len : nat) : neighbor :=
    mkNb "n1:1" (RBlocks (page (N.of_nat (len - 1)))) (RBlocks (page 0)).

  (* a node that holds the genesis block only *)
  Definition st1 : cstate := mkC [g0] ureg_empty areg_empty.
  Definition st3 : cstate := fst (update vf ao so Ht S3 st1 40 [nbC 1] "").
  Definition st5 : cstate := fst (update vf ao so Ht S3 st3 40 [nbC 3] "").

  Lemma ex_servable : servable vf ao so Ht S3 40 CC.
  Proof.
    split; [cbn; repeat split; reflexivity|]. split; [reflexivity|].
    split; [eexists; eexists; vm_compute; reflexivity|].
    split.
    { intros X p b T u a E Hr.
      destruct X as [|x0 [|x1 [|x2 [|x3 [|x4 X]]]]]; inversion E; subst;
        try (vm_compute in Hr; inversion Hr; subst u a; vm_compute; reflexivity).
      destruct X; discriminate. }
    split.
    { unfold rewarded, CC.
      apply Forall_cons; [eexists; split; [left; reflexivity | reflexivity]|].
      apply Forall_cons; [eexists; split; [left; reflexivity | reflexivity]|].
      apply Forall_cons; [eexists; split; [left; reflexivity | reflexivity]|].
      apply Forall_cons; [eexists; split; [right; left; reflexivity | reflexivity]|].
      apply Forall_cons; [eexists; split; [left; reflexivity | reflexivity]|].
      apply Forall_nil. }
    vm_compute. discriminate.
  Qed.

  Lemma ex_settings : (3 <= s_limit S3)%N /\ (N.of_nat (length CC) + s_limit S3 <= two64)%N.
  Proof. split; vm_compute; discriminate. Qed.

  Lemma ex_serves_1 : serves S3 CC st1 (nbC 1).
  Proof.
    split; (split; [discriminate|]); eexists; (split; [vm_compute; reflexivity|]); vm_compute; reflexivity.
  Qed.

  Lemma ex_chains :
    chain st3 = [g0; c1; c2] /\ chain st5 = CC /\
    replay (removelast CC) = Ok (ur st5, ar st5).
  Proof. vm_compute. repeat split; reflexivity. Qed.

  Lemma ex_serves_3 : serves S3 CC st3 (nbC 3).
  Proof.
    split; (split; [discriminate|]); eexists; (split; [vm_compute; reflexivity|]); vm_compute; reflexivity.
  Qed.

  Lemma ex_rounds : sync_rounds vf ao so Ht S3 CC 40 st1 2 st5.
  Proof.
    apply (sr_round vf ao so Ht S3 CC 40 st1 40 [nbC 1] ""); [apply Z.le_refl | discriminate | |].
    { intros nb [E|[]]. subst nb. exact ex_serves_1. }
    fold st3.
    apply (sr_round vf ao so Ht S3 CC 40 st3 40 [nbC 3] ""); [apply Z.le_refl | discriminate | |].
    { intros nb [E|[]]. subst nb. exact ex_serves_3. }
    fold st5. apply sr_done.
  Qed.
End ConvergeExample.
