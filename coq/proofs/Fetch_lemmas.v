(* Fetch_lemmas.v — C13: a sync round returns within its timeout budget, leaves no goroutine
   behind, and a misbehaving neighbor changes nothing (or the change is a verified chain). *)
From RV Require Import model.Base model.Ledger model.Registry model.Chain model.Sync model.Fetch
     proofs.Sync_lemmas.
From Coq Require Import Lia.

(* ------------------------------------------------------------------ *)
(* runs                                                                *)
(* ------------------------------------------------------------------ *)
Definition reachable (b : behaviour) (s : fstate) : Prop :=
  exists evs, run (fstep b) finit evs = Some s.
Definition reachable_old (b : behaviour) (s : fstate) : Prop :=
  exists evs, run (fstep_old b) finit evs = Some s.
(* no event is enabled: the run that led here is maximal *)
Definition quiescent (b : behaviour) (s : fstate) : Prop := forall e, fstep b s e = None.
Definition quiescent_old (b : behaviour) (s : fstate) : Prop := forall e, fstep_old b s e = None.

Lemma run_app (step : fstate -> fevent -> option fstate) (l1 l2 : list fevent) : forall s,
  run step s (l1 ++ l2) =
  match run step s l1 with Some s' => run step s' l2 | None => None end.
Proof.
  induction l1 as [|e l1 IH]; intros s; simpl; [reflexivity|].
  destruct (step s e) as [s'|]; [apply IH | reflexivity].
Qed.

Lemma run_inv (step : fstate -> fevent -> option fstate) (P : fstate -> Prop) :
  (forall s e s', P s -> step s e = Some s' -> P s') ->
  forall evs s s', P s -> run step s evs = Some s' -> P s'.
Proof.
  intros Hstep. induction evs as [|e evs IH]; intros s s' Hs Hr; simpl in Hr.
  - inversion Hr; subst. exact Hs.
  - destruct (step s e) as [s1|] eqn:E; [|discriminate].
    apply (IH s1 s'); [apply (Hstep s e s1 Hs E) | exact Hr].
Qed.

Lemma reachable_init (b : behaviour) : reachable b finit.
Proof. exists []. reflexivity. Qed.

Lemma reachable_step (b : behaviour) (s s' : fstate) (e : fevent) :
  reachable b s -> fstep b s e = Some s' -> reachable b s'.
Proof.
  intros [evs Hr] Hs. exists (evs ++ [e]). rewrite run_app, Hr. simpl. rewrite Hs. reflexivity.
Qed.

(* ------------------------------------------------------------------ *)
(* the invariant of the current code                                   *)
(* ------------------------------------------------------------------ *)
Definition caller_early (s : fstate) : Prop :=
  c_pc s = CWaiting \/ c_pc s = CReturned OTimeout.
(* the one value has been sent: it is in the buffer, or the caller has it *)
Definition delivered (v : result) (s : fstate) : Prop :=
  (f_buf s = Some v /\ caller_early s) \/ (f_buf s = None /\ c_pc s = CReturned (OGot v)).

Definition finv (b : behaviour) (s : fstate) : Prop :=
  match f_pc s with
  | FCalling => f_buf s = None /\ f_closed s = false /\ caller_early s
  | FSending v => result_of b = Some v /\ f_buf s = None /\ f_closed s = false /\ caller_early s
  | FClosing => exists v, result_of b = Some v /\ f_closed s = false /\ delivered v s
  | FDone => exists v, result_of b = Some v /\ f_closed s = true /\ delivered v s
  end.

Lemma finv_init (b : behaviour) : finv b finit.
Proof. cbn. split; [reflexivity|]. split; [reflexivity|]. left. reflexivity. Qed.

Ltac finv_close :=
  repeat match goal with
         | H : _ /\ _ |- _ => destruct H
         | H : exists _, _ |- _ => destruct H
         | H : _ \/ _ |- _ => destruct H
         | H : Some _ = Some _ |- _ => inversion H; clear H; subst
         | H : CReturned _ = CReturned _ |- _ => inversion H; clear H; subst
         | H : OGot _ = OGot _ |- _ => inversion H; clear H; subst
         end;
  subst; cbn; try discriminate; eauto 12.

Lemma finv_step (b : behaviour) (s s' : fstate) (e : fevent) :
  finv b s -> fstep b s e = Some s' -> finv b s'.
Proof.
  destruct s as [pc buf cl cp tm].
  unfold finv, delivered, caller_early.
  destruct e; cbn; unfold ev_answer, ev_timer, ev_fetcher, ev_recv, ev_timeout; cbn;
    intros Hi Hs.
  - (* EvAnswer *)
    destruct pc; try discriminate. destruct (result_of b) as [v|] eqn:Eb; [|discriminate].
    inversion Hs; subst s'; clear Hs. cbn. finv_close.
  - (* EvTimer *)
    destruct tm; [discriminate|]. inversion Hs; subst s'; clear Hs. cbn. exact Hi.
  - (* EvFetcher *)
    destruct pc; try discriminate.
    + destruct buf; [discriminate|]. inversion Hs; subst s'; clear Hs. cbn. finv_close.
    + inversion Hs; subst s'; clear Hs. cbn.
      destruct Hi as (v & Hb & Hc & Hd). exists v. split; [exact Hb|]. split; [reflexivity | exact Hd].
  - (* EvCallerRecv *)
    destruct cp; [|discriminate].
    destruct buf as [w|].
    + inversion Hs; subst s'; clear Hs. cbn.
      destruct pc; finv_close.
    + destruct cl; [|discriminate]. inversion Hs; subst s'; clear Hs.
      destruct pc; finv_close.
  - (* EvCallerTimeout *)
    destruct cp; [|discriminate]. destruct tm; [|discriminate].
    inversion Hs; subst s'; clear Hs. cbn.
    destruct pc; finv_close.
Qed.

Lemma reachable_finv (b : behaviour) (s : fstate) : reachable b s -> finv b s.
Proof.
  intros [evs Hr]. apply (run_inv (fstep b) (finv b) (fun s e s' => finv_step b s s' e) evs finit s);
    [apply finv_init | exact Hr].
Qed.

(* ------------------------------------------------------------------ *)
(* no goroutine is left behind                                         *)
(* ------------------------------------------------------------------ *)

(* (1) the goroutine never blocks on the channel: there is exactly one send and the buffer is
   empty when it comes, whether or not the caller is still listening *)
Lemma fetch_send_never_blocks (b : behaviour) (s : fstate) (v : result) :
  reachable b s -> f_pc s = FSending v ->
  exists s', fstep b s EvFetcher = Some s' /\ f_pc s' = FClosing /\ f_buf s' = Some v.
Proof.
  intros Hr Hpc. apply reachable_finv in Hr. unfold finv in Hr. rewrite Hpc in Hr.
  destruct Hr as (_ & Hbuf & _). cbn. unfold ev_fetcher. rewrite Hpc, Hbuf.
  eexists. split; [reflexivity|]. split; reflexivity.
Qed.

(* once the neighbor has answered, the goroutine can always take its next step on its own
   until it has returned *)
Lemma fetch_fetcher_progress (b : behaviour) (s : fstate) :
  reachable b s -> f_pc s <> FCalling -> f_pc s <> FDone ->
  exists s', fstep b s EvFetcher = Some s'.
Proof.
  intros Hr Hc Hd. destruct (f_pc s) as [|v| |] eqn:Hpc; try congruence.
  - destruct (fetch_send_never_blocks b s v Hr Hpc) as (s' & Hs & _). exists s'. exact Hs.
  - cbn. unfold ev_fetcher. rewrite Hpc. eexists. reflexivity.
Qed.

(* while it is in GetBlocks the neighbor's answer is what is awaited *)
Lemma fetch_answer_enabled (b : behaviour) (s : fstate) :
  b <> Never -> f_pc s = FCalling -> exists s', fstep b s EvAnswer = Some s'.
Proof.
  intros Hb Hpc. cbn. unfold ev_answer. rewrite Hpc.
  destruct b; cbn; try (eexists; reflexivity). congruence.
Qed.

(* the timer can fire until it has fired; once it has, a waiting caller can leave *)
Lemma fetch_timeout_enabled (b : behaviour) (s : fstate) :
  c_pc s = CWaiting ->
  (f_timer s = false /\ exists s', fstep b s EvTimer = Some s' /\ f_timer s' = true /\ c_pc s' = CWaiting) \/
  (f_timer s = true /\ exists s', fstep b s EvCallerTimeout = Some s' /\ c_pc s' = CReturned OTimeout).
Proof.
  intros Hc. cbn. unfold ev_timer, ev_timeout. rewrite Hc.
  destruct (f_timer s); [right | left]; (split; [reflexivity|]); eexists;
    (split; [reflexivity|]); cbn; auto.
Qed.

(* (2) every maximal run ends with the caller returned and the goroutine gone *)
Lemma fetch_quiescent (b : behaviour) (s : fstate) :
  b <> Never -> reachable b s -> quiescent b s ->
  f_pc s = FDone /\ f_closed s = true /\
  exists r, c_pc s = CReturned r /\ r <> ONilPanic.
Proof.
  intros Hb Hr Hq.
  assert (Hpc : f_pc s = FDone).
  { destruct (f_pc s) as [|v| |] eqn:Hpc; [| | |reflexivity]; exfalso.
    - destruct (fetch_answer_enabled b s Hb Hpc) as [s' Hs]. rewrite (Hq EvAnswer) in Hs. discriminate.
    - assert (Hp : exists s', fstep b s EvFetcher = Some s')
        by (apply fetch_fetcher_progress; [exact Hr | rewrite Hpc; discriminate | rewrite Hpc; discriminate]).
      destruct Hp as [s' Hs]. rewrite (Hq EvFetcher) in Hs. discriminate.
    - assert (Hp : exists s', fstep b s EvFetcher = Some s')
        by (apply fetch_fetcher_progress; [exact Hr | rewrite Hpc; discriminate | rewrite Hpc; discriminate]).
      destruct Hp as [s' Hs]. rewrite (Hq EvFetcher) in Hs. discriminate. }
  split; [exact Hpc|].
  pose proof (reachable_finv b s Hr) as Hi. unfold finv in Hi. rewrite Hpc in Hi.
  destruct Hi as (v & _ & Hcl & Hd). split; [exact Hcl|].
  destruct (c_pc s) as [|r] eqn:Hc.
  - exfalso. destruct (fetch_timeout_enabled b s Hc) as [(_ & s' & Hs & _)|(_ & s' & Hs & _)].
    + rewrite (Hq EvTimer) in Hs. discriminate.
    + rewrite (Hq EvCallerTimeout) in Hs. discriminate.
  - exists r. split; [reflexivity|]. intros E; subst r.
    unfold delivered, caller_early in Hd. rewrite Hc in Hd.
    destruct Hd as [(_ & [E|E])|(_ & E)]; discriminate.
Qed.

(* the statement of the property, in one piece *)
Theorem fetch_no_leak (b : behaviour) (evs : list fevent) (s : fstate) :
  b <> Never ->
  run (fstep b) finit evs = Some s ->
  (* (1) the send never blocks *)
  (forall v, f_pc s = FSending v -> exists s', fstep b s EvFetcher = Some s') /\
  (* (2) no state where the neighbor has answered, the goroutine has not returned and cannot
         move by itself — in particular none with the caller gone *)
  (f_pc s <> FCalling -> fstep b s EvFetcher = None -> f_pc s = FDone) /\
  (* until the answer the neighbor's move is enabled *)
  (f_pc s = FCalling -> exists s', fstep b s EvAnswer = Some s') /\
  (* hence every maximal run ends with the caller returned and the goroutine returned *)
  ((forall e, fstep b s e = None) -> f_pc s = FDone /\ returned s = true /\ live s = false).
Proof.
  intros Hb Hr. assert (Hre : reachable b s) by (exists evs; exact Hr).
  split; [|split; [|split]].
  - intros v Hpc. destruct (fetch_send_never_blocks b s v Hre Hpc) as (s' & Hs & _).
    exists s'. exact Hs.
  - intros Hc Hn. destruct (f_pc s) as [|v| |] eqn:Hpc; [congruence | | | reflexivity]; exfalso.
    + assert (Hp : exists s', fstep b s EvFetcher = Some s')
        by (apply fetch_fetcher_progress; [exact Hre | rewrite Hpc; discriminate | rewrite Hpc; discriminate]).
      destruct Hp as [s' Hs]. rewrite Hn in Hs. discriminate.
    + assert (Hp : exists s', fstep b s EvFetcher = Some s')
        by (apply fetch_fetcher_progress; [exact Hre | rewrite Hpc; discriminate | rewrite Hpc; discriminate]).
      destruct Hp as [s' Hs]. rewrite Hn in Hs. discriminate.
  - apply fetch_answer_enabled. exact Hb.
  - intros Hq. destruct (fetch_quiescent b s Hb Hre Hq) as (Hpc & _ & r & Hc & _).
    split; [exact Hpc|]. unfold returned, live. rewrite Hc, Hpc. split; reflexivity.
Qed.

(* runs are finite: each event uses up one unit *)
Definition fmeasure (s : fstate) : nat :=
  match f_pc s with FCalling => 3 | FSending _ => 2 | FClosing => 1 | FDone => 0 end +
  (if f_timer s then 0 else 1) +
  match c_pc s with CWaiting => 1 | CReturned _ => 0 end.

Lemma fstep_measure (b : behaviour) (s s' : fstate) (e : fevent) :
  fstep b s e = Some s' -> fmeasure s = Datatypes.S (fmeasure s').
Proof.
  destruct s as [pc buf cl cp tm]. unfold fmeasure.
  destruct e; cbn; unfold ev_answer, ev_timer, ev_fetcher, ev_recv, ev_timeout; cbn; intros Hs.
  - destruct pc; try discriminate. destruct (result_of b); [|discriminate].
    inversion Hs; subst s'. cbn. lia.
  - destruct tm; [discriminate|]. inversion Hs; subst s'. cbn. lia.
  - destruct pc; try discriminate.
    + destruct buf; [discriminate|]. inversion Hs; subst s'. cbn. lia.
    + inversion Hs; subst s'. cbn. lia.
  - destruct cp; [|discriminate]. destruct buf.
    + inversion Hs; subst s'. cbn. lia.
    + destruct cl; [|discriminate]. inversion Hs; subst s'. cbn. lia.
  - destruct cp; [|discriminate]. destruct tm; [|discriminate]. inversion Hs; subst s'. cbn. lia.
Qed.

Lemma run_measure (b : behaviour) (evs : list fevent) : forall s s',
  run (fstep b) s evs = Some s' -> fmeasure s = length evs + fmeasure s'.
Proof.
  induction evs as [|e evs IH]; intros s s' Hr; simpl in Hr.
  - inversion Hr; subst. reflexivity.
  - destruct (fstep b s e) as [s1|] eqn:E; [|discriminate].
    rewrite (fstep_measure b s s1 e E), (IH s1 s' Hr). simpl. lia.
Qed.

(* a call is over after at most five events: answer, send, close, timer, caller *)
Theorem fetch_run_length (b : behaviour) (evs : list fevent) (s : fstate) :
  run (fstep b) finit evs = Some s -> length evs + fmeasure s = 5.
Proof. intros Hr. apply run_measure in Hr. cbn in Hr. lia. Qed.

(* remark: a peer call that never returns keeps its goroutine in GetBlocks for ever; the caller
   is released by the timer all the same. (The real client has its own connection timeout, which
   turns this behaviour into AnswerErr.) *)
Lemma fetch_never_stays_calling (s : fstate) :
  reachable Never s -> f_pc s = FCalling /\ f_buf s = None /\ f_closed s = false.
Proof.
  intros Hr. apply reachable_finv in Hr. unfold finv in Hr.
  destruct (f_pc s) as [|v| |].
  - destruct Hr as (Hb & Hc & _). split; [reflexivity|]. split; assumption.
  - destruct Hr as (Hb & _). discriminate.
  - destruct Hr as (v & Hb & _). discriminate.
  - destruct Hr as (v & Hb & _). discriminate.
Qed.

Lemma fetch_never_quiescent (s : fstate) :
  reachable Never s -> quiescent Never s ->
  f_pc s = FCalling /\ c_pc s = CReturned OTimeout /\ live s = true.
Proof.
  intros Hr Hq. destruct (fetch_never_stays_calling s Hr) as (Hpc & Hbuf & Hcl).
  split; [exact Hpc|]. split; [|unfold live; rewrite Hpc; reflexivity].
  pose proof (reachable_finv Never s Hr) as Hi. unfold finv in Hi. rewrite Hpc in Hi.
  destruct Hi as (_ & _ & [Hc|Hc]); [|exact Hc]. exfalso.
  destruct (fetch_timeout_enabled Never s Hc) as [(_ & s' & Hs & _)|(_ & s' & Hs & _)].
  - rewrite (Hq EvTimer) in Hs. discriminate.
  - rewrite (Hq EvCallerTimeout) in Hs. discriminate.
Qed.

(* ------------------------------------------------------------------ *)
(* the caller returns at the latest at the timeout                     *)
(* ------------------------------------------------------------------ *)
Theorem fetch_caller_returns (b : behaviour) (evs : list fevent) (s : fstate) :
  run (fstep b) finit evs = Some s ->
  c_pc s = CWaiting ->
  (* a buffered value can be taken *)
  (forall v, f_buf s = Some v ->
             exists s', fstep b s EvCallerRecv = Some s' /\ c_pc s' = CReturned (OGot v)) /\
  (* the timer is still to fire, or it has fired and the timeout case can be taken *)
  ((f_timer s = false /\
    exists s', fstep b s EvTimer = Some s' /\ f_timer s' = true /\ c_pc s' = CWaiting) \/
   (f_timer s = true /\
    exists s', fstep b s EvCallerTimeout = Some s' /\ c_pc s' = CReturned OTimeout)) /\
  (* so a waiting caller is never the end of a run, whatever the neighbor does *)
  ~ (forall e, fstep b s e = None).
Proof.
  intros _ Hc. split; [|split].
  - intros v Hbuf. cbn. unfold ev_recv. rewrite Hc, Hbuf. eexists. split; reflexivity.
  - apply fetch_timeout_enabled. exact Hc.
  - intros Hq. destruct (fetch_timeout_enabled b s Hc) as [(_ & s' & Hs & _)|(_ & s' & Hs & _)].
    + rewrite (Hq EvTimer) in Hs. discriminate.
    + rewrite (Hq EvCallerTimeout) in Hs. discriminate.
Qed.

(* what the caller leaves with is the timeout or exactly the neighbor's one answer; the nil
   receive from the closed channel does not happen *)
Theorem fetch_outcome_faithful (b : behaviour) (evs : list fevent) (s : fstate) (r : outcome) :
  run (fstep b) finit evs = Some s -> c_pc s = CReturned r ->
  r = OTimeout \/ exists v, r = OGot v /\ result_of b = Some v.
Proof.
  intros Hr Hc. assert (Hre : reachable b s) by (exists evs; exact Hr).
  apply reachable_finv in Hre. unfold finv, delivered, caller_early in Hre. rewrite Hc in Hre.
  destruct (f_pc s).
  - destruct Hre as (_ & _ & [E|E]); [discriminate|]. inversion E. left. reflexivity.
  - destruct Hre as (_ & _ & _ & [E|E]); [discriminate|]. inversion E. left. reflexivity.
  - destruct Hre as (v & Hb & _ & [(_ & [E|E])|(_ & E)]); [discriminate| |].
    + inversion E. left. reflexivity.
    + inversion E. right. exists v. split; [reflexivity | exact Hb].
  - destruct Hre as (v & Hb & _ & [(_ & [E|E])|(_ & E)]); [discriminate| |].
    + inversion E. left. reflexivity.
    + inversion E. right. exists v. split; [reflexivity | exact Hb].
Qed.

(* in the vocabulary of model/Sync.v: the response Update works with is a failure, or the
   decoded answer *)
Definition behaviour_response (b : behaviour) : response :=
  match b with
  | AnswerErr => RFail EFetch
  | AnswerGarbage => RFail EDecode
  | AnswerBlocks l => RBlocks l
  | Never => RFail ETimeout
  end.

Corollary fetch_outcome_response (b : behaviour) (evs : list fevent) (s : fstate) (r : outcome) :
  run (fstep b) finit evs = Some s -> c_pc s = CReturned r ->
  outcome_response r = RFail ETimeout \/ outcome_response r = behaviour_response b.
Proof.
  intros Hr Hc. destruct (fetch_outcome_faithful b evs s r Hr Hc) as [E|(v & E & Hb)]; subst r.
  - left. reflexivity.
  - right. destruct b; cbn in Hb; inversion Hb; subst v; reflexivity.
Qed.

(* ------------------------------------------------------------------ *)
(* the pinned tree leaks                                               *)
(* ------------------------------------------------------------------ *)
Definition leaked_state (v : result) (r : outcome) (tm : bool) : fstate :=
  mkF (FSending v) None false (CReturned r) tm.

(* a goroutine at a send with the caller gone stays there whatever happens next *)
Lemma old_stuck_step (b : behaviour) (s s' : fstate) (e : fevent) (v : result) :
  f_pc s = FSending v -> returned s = true -> fstep_old b s e = Some s' ->
  f_pc s' = FSending v /\ returned s' = true.
Proof.
  destruct s as [pc buf cl cp tm]. cbn. intros Hpc Hret. subst pc.
  destruct cp as [|r]; [discriminate|].
  destruct e; cbn; unfold ev_answer, ev_timer, ev_fetcher_old, ev_recv, ev_timeout; cbn;
    intros Hs; try discriminate.
  destruct tm; [discriminate|]. inversion Hs; subst s'. cbn. split; reflexivity.
Qed.

Lemma old_stuck_forever (b : behaviour) (v : result) (evs : list fevent) (s s' : fstate) :
  f_pc s = FSending v -> returned s = true -> run (fstep_old b) s evs = Some s' ->
  f_pc s' = FSending v /\ returned s' = true /\ live s' = true.
Proof.
  intros Hpc Hret Hr.
  assert (Hgoal : f_pc s' = FSending v /\ returned s' = true).
  { apply (run_inv (fstep_old b) (fun x => f_pc x = FSending v /\ returned x = true)) with (evs := evs) (s := s).
    - intros x e x' [Hx1 Hx2] Hs. apply (old_stuck_step b x x' e v Hx1 Hx2 Hs).
    - split; assumption.
    - exact Hr. }
  destruct Hgoal as [H1 H2]. split; [exact H1|]. split; [exact H2|].
  unfold live. rewrite H1. reflexivity.
Qed.

Theorem fetch_old_leaks_refuted :
  (* a failing GetBlocks: the error is handed over, the caller returns, the second send has
     nobody to receive it *)
  (run (fstep_old AnswerErr) finit [EvAnswer; EvFetcher; EvTimer]
   = Some (leaked_state ResDecodeErr (OGot ResFetchErr) true) /\
   forall e, fstep_old AnswerErr (leaked_state ResDecodeErr (OGot ResFetchErr) true) e = None) /\
  (* any answer that comes after the timeout *)
  (forall b v, result_of b = Some v ->
     run (fstep_old b) finit [EvTimer; EvCallerTimeout; EvAnswer]
     = Some (leaked_state v OTimeout true) /\
     forall e, fstep_old b (leaked_state v OTimeout true) e = None) /\
  (* and the same two event lists end well with the current code *)
  (exists s, run (fstep AnswerErr) finit [EvAnswer; EvFetcher; EvCallerRecv; EvFetcher; EvTimer] = Some s /\
             f_pc s = FDone /\ c_pc s = CReturned (OGot ResFetchErr) /\
             forall e, fstep AnswerErr s e = None) /\
  (forall b v, result_of b = Some v ->
     exists s, run (fstep b) finit [EvTimer; EvCallerTimeout; EvAnswer; EvFetcher; EvFetcher] = Some s /\
               f_pc s = FDone /\ c_pc s = CReturned OTimeout /\
               forall e, fstep b s e = None).
Proof.
  split; [|split; [|split]].
  - split; [reflexivity|]. intros e; destruct e; reflexivity.
  - intros b v Hb. split.
    + cbn. unfold ev_answer. cbn. rewrite Hb. reflexivity.
    + intros e; destruct e; cbn; unfold ev_answer; cbn; try reflexivity.
  - eexists. split; [reflexivity|]. split; [reflexivity|]. split; [reflexivity|].
    intros e; destruct e; reflexivity.
  - intros b v Hb. eexists. split.
    + cbn. unfold ev_answer. cbn. rewrite Hb. cbn. reflexivity.
    + split; [reflexivity|]. split; [reflexivity|].
      intros e; destruct e; cbn; unfold ev_answer; cbn; try reflexivity.
Qed.

(* ------------------------------------------------------------------ *)
(* a round                                                             *)
(* ------------------------------------------------------------------ *)
Definition rreachable (bs : list behaviour) (r : rstate) : Prop :=
  exists evs, rrun (rinit bs) evs = Some r.
Definition rquiescent (r : rstate) : Prop := forall ev, rstep r ev = None.

Lemma rrun_inv (P : rstate -> Prop) :
  (forall r e r', P r -> rstep r e = Some r' -> P r') ->
  forall evs r r', P r -> rrun r evs = Some r' -> P r'.
Proof.
  intros Hstep. induction evs as [|e evs IH]; intros r r' Hp Hr; simpl in Hr.
  - inversion Hr; subst. exact Hp.
  - destruct (rstep r e) as [r1|] eqn:E; [|discriminate].
    apply (IH r1 r'); [apply (Hstep r e r1 Hp E) | exact Hr].
Qed.

Lemma Forall_upd {A} (P : A -> Prop) (x : A) : forall (i : nat) (l : list A),
  Forall P l -> P x -> Forall P (upd i x l).
Proof.
  induction i as [|i IH]; intros l Hl Hx; destruct l as [|y l]; simpl; try constructor;
    inversion Hl; subst; auto.
Qed.

Lemma map_fst_upd {A B} (i : nat) : forall (l : list (A * B)) (a : A) (y y' : B),
  nth_error l i = Some (a, y) -> map fst (upd i (a, y') l) = map fst l.
Proof.
  induction i as [|i IH]; intros l a y y' Hn; destruct l as [|p l]; simpl in *; try discriminate.
  - inversion Hn; subst. reflexivity.
  - f_equal. apply (IH l a y y' Hn).
Qed.

Lemma returned_step (b : behaviour) (s s' : fstate) (e : fevent) :
  returned s = true -> fstep b s e = Some s' -> returned s' = true.
Proof.
  destruct s as [pc buf cl cp tm]. unfold returned. cbn. destruct cp as [|r]; [discriminate|].
  intros _. destruct e; cbn; unfold ev_answer, ev_timer, ev_fetcher, ev_recv, ev_timeout; cbn;
    intros Hs; try discriminate.
  - destruct pc; try discriminate. destruct (result_of b); [|discriminate]. inversion Hs. reflexivity.
  - destruct tm; [discriminate|]. inversion Hs. reflexivity.
  - destruct pc; try discriminate.
    + destruct buf; [discriminate|]. inversion Hs. reflexivity.
    + inversion Hs. reflexivity.
Qed.

(* each started call is a run of its own system; the calls were started in the order of the
   list; all but the most recent caller have returned *)
Definition rinv (bs : list behaviour) (r : rstate) : Prop :=
  Forall (fun p => reachable (fst p) (snd p)) (r_calls r) /\
  rev (map fst (r_calls r)) ++ r_pending r = bs /\
  Forall (fun p => returned (snd p) = true) (tl (r_calls r)).

Lemma rinv_init (bs : list behaviour) : rinv bs (rinit bs).
Proof. unfold rinv, rinit. cbn. split; [constructor|]. split; [reflexivity | constructor]. Qed.

Lemma rinv_step (bs : list behaviour) (r r' : rstate) (ev : revent) :
  rinv bs r -> rstep r ev = Some r' -> rinv bs r'.
Proof.
  destruct r as [calls pend]. unfold rinv. cbn [r_calls r_pending].
  intros (Hreach & Hord & Htl) Hs. destruct ev as [|i e]; cbn in Hs.
  - destruct pend as [|b rest]; [discriminate|].
    destruct calls as [|[b0 s0] calls'].
    + inversion Hs; subst r'. cbn. split; [constructor; [apply reachable_init | constructor]|].
      split; [exact Hord | constructor].
    + destruct (returned s0) eqn:Hret; [|discriminate]. inversion Hs; subst r'.
      cbn [r_calls r_pending tl]. split; [constructor; [apply reachable_init | exact Hreach]|].
      split.
      * rewrite <- Hord. cbn [map fst rev]. rewrite <- !app_assoc. reflexivity.
      * constructor; [exact Hret | exact Htl].
  - destruct (nth_error calls i) as [[b s]|] eqn:Hn; [|discriminate].
    destruct (fstep b s e) as [s'|] eqn:Hf; [|discriminate].
    inversion Hs; subst r'. cbn [r_calls r_pending].
    assert (Hin : In (b, s) calls) by (eapply nth_error_In; exact Hn).
    assert (Hrs : reachable b s) by (rewrite Forall_forall in Hreach; apply (Hreach (b, s) Hin)).
    split; [apply Forall_upd; [exact Hreach | apply (reachable_step b s s' e Hrs Hf)]|].
    split; [rewrite (map_fst_upd i calls b s s' Hn); exact Hord|].
    destruct calls as [|p calls']; [destruct i; discriminate|].
    destruct i as [|i]; cbn [upd tl]; [exact Htl|].
    cbn [tl] in Htl. apply Forall_upd; [exact Htl|]. cbn [snd].
    apply (returned_step b s s' e); [|exact Hf].
    rewrite Forall_forall in Htl. apply (Htl (b, s)). eapply nth_error_In. exact Hn.
Qed.

Lemma rreachable_inv (bs : list behaviour) (r : rstate) : rreachable bs r -> rinv bs r.
Proof.
  intros [evs Hr]. apply (rrun_inv (rinv bs) (fun r e r' => rinv_step bs r r' e) evs (rinit bs) r);
    [apply rinv_init | exact Hr].
Qed.

(* the calls are sequential: at any moment at most the most recent caller is in its select *)
Theorem round_sequential (bs : list behaviour) (r : rstate) :
  rreachable bs r ->
  forall i b s, nth_error (r_calls r) (Datatypes.S i) = Some (b, s) -> returned s = true.
Proof.
  intros Hr i b s Hn. destruct (rreachable_inv bs r Hr) as (_ & _ & Htl).
  destruct (r_calls r) as [|p calls]; [discriminate|]. cbn in Hn, Htl.
  rewrite Forall_forall in Htl. apply (Htl (b, s)). eapply nth_error_In. exact Hn.
Qed.

Lemma rquiescent_components (r : rstate) (b : behaviour) (s : fstate) :
  rquiescent r -> In (b, s) (r_calls r) -> quiescent b s.
Proof.
  intros Hq Hin e. destruct (In_nth_error _ _ Hin) as [i Hi].
  specialize (Hq (RCall i e)). cbn in Hq. rewrite Hi in Hq.
  destruct (fstep b s e); [discriminate | reflexivity].
Qed.

(* at the end of every maximal run of a round with n neighbor calls (stage 1 followed by
   stage 2), none of which hangs for ever: every call has been made, every caller has returned,
   and no goroutine is left *)
Theorem round_fetchers (bs : list behaviour) (r : rstate) :
  Forall (fun b => b <> Never) bs ->
  rreachable bs r -> rquiescent r ->
  r_pending r = [] /\
  rev (map fst (r_calls r)) = bs /\
  length (r_calls r) = length bs /\
  Forall (fun p => f_pc (snd p) = FDone /\ returned (snd p) = true) (r_calls r) /\
  live_count r = 0.
Proof.
  intros Hnn Hr Hq. destruct (rreachable_inv bs r Hr) as (Hreach & Hord & _).
  assert (Hall : Forall (fun p => f_pc (snd p) = FDone /\ returned (snd p) = true) (r_calls r)).
  { rewrite Forall_forall. intros [b s] Hin. cbn [snd].
    assert (Hb : b <> Never).
    { rewrite Forall_forall in Hnn. apply Hnn. rewrite <- Hord. apply in_or_app. left.
      rewrite <- in_rev. apply (in_map fst _ (b, s) Hin). }
    assert (Hrs : reachable b s) by (rewrite Forall_forall in Hreach; apply (Hreach (b, s) Hin)).
    destruct (fetch_quiescent b s Hb Hrs (rquiescent_components r b s Hq Hin))
      as (Hpc & _ & o & Hc & _).
    split; [exact Hpc|]. unfold returned. rewrite Hc. reflexivity. }
  assert (Hpend : r_pending r = []).
  { destruct (r_pending r) as [|b rest] eqn:Hp; [reflexivity|]. exfalso.
    specialize (Hq RStart). cbn in Hq. rewrite Hp in Hq.
    destruct (r_calls r) as [|[b0 s0] calls]; [discriminate|].
    inversion Hall as [|p l [_ Hret] _]; subst. cbn [snd] in Hret. rewrite Hret in Hq. discriminate. }
  split; [exact Hpend|].
  rewrite Hpend, app_nil_r in Hord.
  split; [exact Hord|].
  split; [rewrite <- Hord, rev_length, map_length; reflexivity|].
  split; [exact Hall|].
  unfold live_count. clear - Hall. induction Hall as [|p l [Hpc _] _ IH]; [reflexivity|].
  cbn [filter]. unfold live at 1. rewrite Hpc. exact IH.
Qed.

(* any number of rounds: goroutines of an earlier round may still be running during a later
   one, but they are components of their own; when everything has come to rest none is left *)
Theorem rounds_fetchers (rounds : list (list behaviour * rstate)) :
  Forall (fun p => Forall (fun b => b <> Never) (fst p) /\
                   rreachable (fst p) (snd p) /\ rquiescent (snd p)) rounds ->
  sum_nat (map (fun p => live_count (snd p)) rounds) = 0.
Proof.
  induction 1 as [|p l (Hnn & Hr & Hq) _ IH]; [reflexivity|].
  cbn [map sum_nat fold_right]. fold (sum_nat (map (fun p => live_count (snd p)) l)).
  destruct (round_fetchers (fst p) (snd p) Hnn Hr Hq) as (_ & _ & _ & _ & Hl).
  rewrite Hl, IH. reflexivity.
Qed.

(* with hanging peers too: what is left at the end are exactly their goroutines, still inside
   the peer call *)
Theorem round_fetchers_general (bs : list behaviour) (r : rstate) :
  rreachable bs r -> rquiescent r ->
  r_pending r = [] /\
  Forall (fun p => returned (snd p) = true /\
                   (live (snd p) = true -> fst p = Never /\ f_pc (snd p) = FCalling)) (r_calls r).
Proof.
  intros Hr Hq. destruct (rreachable_inv bs r Hr) as (Hreach & Hord & _).
  assert (Hall : Forall (fun p => returned (snd p) = true /\
                   (live (snd p) = true -> fst p = Never /\ f_pc (snd p) = FCalling)) (r_calls r)).
  { rewrite Forall_forall. intros [b s] Hin. cbn [fst snd].
    assert (Hrs : reachable b s) by (rewrite Forall_forall in Hreach; apply (Hreach (b, s) Hin)).
    pose proof (rquiescent_components r b s Hq Hin) as Hqs.
    assert (Hdec : b = Never \/ b <> Never) by (destruct b; auto; right; discriminate).
    destruct Hdec as [Hb|Hb].
    - subst b. destruct (fetch_never_quiescent s Hrs Hqs) as (Hpc & Hc & _).
      split; [unfold returned; rewrite Hc; reflexivity|]. intros _. split; [reflexivity | exact Hpc].
    - destruct (fetch_quiescent b s Hb Hrs Hqs) as (Hpc & _ & o & Hc & _).
      split; [unfold returned; rewrite Hc; reflexivity|].
      unfold live. rewrite Hpc. discriminate. }
  split; [|exact Hall].
  destruct (r_pending r) as [|b rest] eqn:Hp; [reflexivity|]. exfalso.
  specialize (Hq RStart). cbn in Hq. rewrite Hp in Hq.
  destruct (r_calls r) as [|[b0 s0] calls]; [discriminate|].
  inversion Hall as [|p l [Hret _] _]; subst. cbn [snd] in Hret. rewrite Hret in Hq. discriminate.
Qed.

(* rounds are finite: six units per neighbor call *)
Definition rmeasure (r : rstate) : nat :=
  sum_nat (map (fun p => fmeasure (snd p)) (r_calls r)) + 6 * length (r_pending r).

Lemma sum_upd (i : nat) : forall (l : list (behaviour * fstate)) b s s',
  nth_error l i = Some (b, s) ->
  sum_nat (map (fun p => fmeasure (snd p)) l) + fmeasure s' =
  sum_nat (map (fun p => fmeasure (snd p)) (upd i (b, s') l)) + fmeasure s.
Proof.
  induction i as [|i IH]; intros l b s s' Hn; destruct l as [|p l]; simpl in *; try discriminate.
  - inversion Hn; subst. cbn. lia.
  - specialize (IH l b s s' Hn). lia.
Qed.

Lemma rstep_measure (r r' : rstate) (ev : revent) :
  rstep r ev = Some r' -> rmeasure r = Datatypes.S (rmeasure r').
Proof.
  destruct r as [calls pend]. unfold rmeasure. cbn [r_calls r_pending].
  destruct ev as [|i e]; cbn; intros Hs.
  - destruct pend as [|b rest]; [discriminate|].
    destruct (match calls with [] => true | (_, s) :: _ => returned s end); [|discriminate].
    inversion Hs; subst r'. cbn [r_calls r_pending map sum_nat fold_right snd length].
    change (fmeasure finit) with 5. fold (sum_nat (map (fun p => fmeasure (snd p)) calls)). lia.
  - destruct (nth_error calls i) as [[b s]|] eqn:Hn; [|discriminate].
    destruct (fstep b s e) as [s'|] eqn:Hf; [|discriminate].
    inversion Hs; subst r'. cbn [r_calls r_pending].
    pose proof (sum_upd i calls b s s' Hn) as Hsum.
    pose proof (fstep_measure b s s' e Hf) as Hm. lia.
Qed.

Theorem round_run_length (bs : list behaviour) (evs : list revent) (r : rstate) :
  rrun (rinit bs) evs = Some r -> length evs + rmeasure r = 6 * length bs.
Proof.
  assert (Hgen : forall evs r0 r1, rrun r0 evs = Some r1 -> rmeasure r0 = length evs + rmeasure r1).
  { clear. induction evs as [|e evs IH]; intros r0 r1 Hr; simpl in Hr.
    - inversion Hr; subst. reflexivity.
    - destruct (rstep r0 e) as [r2|] eqn:E; [|discriminate].
      rewrite (rstep_measure r0 r2 e E), (IH r2 r1 Hr). simpl. lia. }
  intros Hr. apply Hgen in Hr. unfold rmeasure at 1 in Hr. cbn in Hr. lia.
Qed.

(* ---- time ---- *)
Lemma call_wait_le (timeout : nat) (c : call_cost) : call_wait timeout c <= timeout.
Proof. unfold call_wait. destruct (cc_delay c); lia. Qed.

Lemma call_time_le (timeout : nat) (c : call_cost) :
  call_time timeout c <= timeout + cc_verify c.
Proof.
  unfold call_time. pose proof (call_wait_le timeout c).
  destruct (cc_delay c) as [d|]; [destruct (Nat.ltb timeout d)|]; lia.
Qed.

Lemma stage_time_le (timeout : nat) (l : list call_cost) :
  sum_nat (map (call_time timeout) l) <= length l * timeout + sum_nat (map cc_verify l).
Proof.
  induction l as [|c l IH]; simpl; [lia|]. pose proof (call_time_le timeout c). lia.
Qed.

(* a round over n neighbors, two stages: at most 2 n timeouts of waiting, plus the verification
   of the answers that came in time *)
Theorem round_time_le (timeout n : nat) (stage1 stage2 : list call_cost) :
  length stage1 <= n -> length stage2 <= n ->
  round_time timeout stage1 stage2 <=
  2 * n * timeout + sum_nat (map cc_verify stage1) + sum_nat (map cc_verify stage2).
Proof.
  intros H1 H2. unfold round_time.
  pose proof (stage_time_le timeout stage1). pose proof (stage_time_le timeout stage2).
  assert (length stage1 * timeout <= n * timeout) by (apply Nat.mul_le_mono_r; exact H1).
  assert (length stage2 * timeout <= n * timeout) by (apply Nat.mul_le_mono_r; exact H2).
  lia.
Qed.

(* a neighbor that is silent or late costs the timeout and no verification *)
Lemma call_time_silent (timeout : nat) (c : call_cost) :
  (cc_delay c = None \/ exists d, cc_delay c = Some d /\ timeout < d) ->
  call_time timeout c = timeout.
Proof.
  unfold call_time, call_wait. intros [E|(d & E & Hd)]; rewrite E; [lia|].
  destruct (Nat.ltb_spec timeout d); lia.
Qed.

(* ------------------------------------------------------------------ *)
(* the state after a round with arbitrary answers                      *)
(* ------------------------------------------------------------------ *)
Section FetchState.
  Variable value_fn : N -> bool -> Z -> N.
  Variable addr_of : string -> string.
  Variable sig_ok : input -> bool.
  Variable H : block -> hash.
  Variable Se : settings.

  Notation update := (update value_fn addr_of sig_ok H Se).
  Notation candidates := (candidates value_fn addr_of sig_ok H Se).
  Notation verify := (verify value_fn addr_of sig_ok H Se).

  (* [RBlocks l] is any decodable answer — truncated, stale, unlinked, future-dated, breaking
     a rule at any position; the two requests may be answered differently *)
  Theorem C13_state_kept_or_verified (st : cstate) (now : Z) (nbs : list neighbor) (pref : string)
          (st' : cstate) (rep : bool) :
    (forall nb, In nb nbs -> nb_target nb <> host_target) ->
    update st now nbs pref = (st', rep) ->
    (rep = false /\ st' = st) \/
    (rep = true /\
     exists t nb, In (t, chain st') (candidates st now nbs) /\
       In nb nbs /\ nb_target nb = t /\
       ((exists l v, nb_inc nb = RBlocks l /\ (2 < length (chain st))%nat /\
                     verify st (match last_block (chain st) with Some b => [b] | None => [] end)
                            l (removelast (chain st)) now = Ok v /\
                     chain st' = removelast (chain st) ++ v) \/
        (exists l v, nb_full nb = RBlocks l /\
                     verify st (removelast (chain st)) l [] now = Ok v /\
                     chain st' = v))).
  Proof.
    intros Hnames Hu. destruct rep.
    - right. split; [reflexivity|].
      destruct (update_verified _ _ _ _ _ _ _ _ _ _ Hu) as (t & Hin & nb & Hnb & Ht & Hv).
      exists t, nb. split; [exact Hin|]. split; [exact Hnb|]. split; [exact Ht | exact Hv].
    - left. split; [reflexivity|].
      apply (update_kept_state _ _ _ _ _ _ _ _ _ _ Hnames Hu).
  Qed.

  Definition all_fail (nbs : list neighbor) : Prop :=
    forall nb, In nb nbs -> (exists e, nb_inc nb = RFail e) /\ (exists e, nb_full nb = RFail e).

  Lemma fold_fail_inc (st : cstate) (now : Z) (tip old : list block) (nbs : list neighbor) :
    (forall nb, In nb nbs -> exists e, nb_inc nb = RFail e) ->
    forall m : cands,
      fold_left (fun (m : cands) nb =>
                   match nb_inc nb with
                   | RFail _ => m
                   | RBlocks l =>
                     match verify st tip l old now with
                     | Err _ => m
                     | Ok v => aset (nb_target nb) (old ++ v) m
                     end
                   end) nbs m = m.
  Proof.
    induction nbs as [|nb nbs IH]; intros Hf m; simpl; [reflexivity|].
    destruct (Hf nb (or_introl eq_refl)) as [e He]. rewrite He.
    apply IH. intros nb' Hin. apply Hf. right. exact Hin.
  Qed.

  Lemma fold_fail_full (st : cstate) (now : Z) (lasth : list block) (nbs : list neighbor) :
    (forall nb, In nb nbs -> exists e, nb_full nb = RFail e) ->
    forall m : cands,
      fold_left (fun (m : cands) nb =>
                   match nb_full nb with
                   | RFail _ => m
                   | RBlocks l =>
                     match verify st lasth l [] now with
                     | Err _ => m
                     | Ok v => aset (nb_target nb) v m
                     end
                   end) nbs m = m.
  Proof.
    induction nbs as [|nb nbs IH]; intros Hf m; simpl; [reflexivity|].
    destruct (Hf nb (or_introl eq_refl)) as [e He]. rewrite He.
    apply IH. intros nb' Hin. apply Hf. right. exact Hin.
  Qed.

  (* the candidates are then the host's own entry at most *)
  Lemma candidates_all_fail (st : cstate) (now : Z) (nbs : list neighbor) :
    all_fail nbs ->
    candidates st now nbs =
    if Nat.ltb 2 (length (chain st)) then [(host_target, chain st)] else [].
  Proof.
    intros Hf. unfold Sync.candidates, Sync.stage2, Sync.stage1.
    assert (H1 : forall nb, In nb nbs -> exists e, nb_inc nb = RFail e)
      by (intros nb Hin; apply (Hf nb Hin)).
    assert (H2 : forall nb, In nb nbs -> exists e, nb_full nb = RFail e)
      by (intros nb Hin; apply (Hf nb Hin)).
    destruct (Nat.ltb 2 (length (chain st))).
    - rewrite (fold_fail_inc st now _ _ nbs H1).
      destruct (is_fork st [(host_target, chain st)] nbs); [|reflexivity].
      apply (fold_fail_full st now _ nbs H2).
    - destruct (is_fork st [] nbs); [|reflexivity].
      apply (fold_fail_full st now _ nbs H2).
  Qed.

  (* errors, silence and garbage from every neighbor: nothing changes *)
  Theorem C13_failing_neighbors_ignored (st : cstate) (now : Z) (nbs : list neighbor) (pref : string) :
    all_fail nbs -> update st now nbs pref = (st, false).
  Proof.
    intros Hf.
    destruct (select pref (survivors st (candidates st now nbs))) as [sel|] eqn:Es;
      [|apply update_none_selected_kept; exact Es].
    apply (update_not_different_kept _ _ _ _ _ _ _ _ _ _ Es).
    apply select_spec in Es. destruct Es as [[t Ht] _].
    apply survivors_incl in Ht. rewrite (candidates_all_fail st now nbs Hf) in Ht.
    destruct (Nat.ltb 2 (length (chain st))); [|destruct Ht].
    destruct Ht as [Ht|[]]. inversion Ht; subst. apply is_different_refl.
  Qed.
End FetchState.
