(* Ledger_update.v — the UTXO registry of utxos_registry.go: well-formedness invariant,
   what a successful UpdateUtxos guarantees (backbone of C02 and C10). *)
From RV Require Import model.Base model.Ledger.
From Coq Require Import Lia ZArith NArith.
From Coq Require Import ZifyN ZifyNat ZifyBool.
Local Open Scope N_scope.

(* ------------------------------------------------------------------------- *)
(* 1. association lists                                                       *)
(* ------------------------------------------------------------------------- *)
Section Alist.
  Context {V : Type}.
  Implicit Types (m : list (string * V)) (k : string) (v : V).

  Lemma alookup_aset_eq k v m : alookup k (aset k v m) = Some v.
  Proof.
    induction m as [|[k' v'] r IH]; cbn.
    - now rewrite String.eqb_refl.
    - destruct (String.eqb k k') eqn:E; cbn.
      + now rewrite String.eqb_refl.
      + now rewrite E.
  Qed.

  Lemma alookup_aset_neq k k2 v m : k <> k2 -> alookup k2 (aset k v m) = alookup k2 m.
  Proof.
    intros Hn. induction m as [|[k' v'] r IH]; cbn.
    - destruct (String.eqb k2 k) eqn:E; [apply String.eqb_eq in E; congruence|reflexivity].
    - destruct (String.eqb k k') eqn:E; cbn.
      + apply String.eqb_eq in E; subst k'.
        destruct (String.eqb k2 k) eqn:E2; [apply String.eqb_eq in E2; congruence|reflexivity].
      + now rewrite IH.
  Qed.

  Lemma alookup_aremove_eq k m : alookup k (aremove k m) = None.
  Proof.
    induction m as [|[k' v'] r IH]; cbn; [reflexivity|].
    destruct (String.eqb k k') eqn:E; cbn; [exact IH|now rewrite E].
  Qed.

  Lemma alookup_aremove_neq k k2 m : k <> k2 -> alookup k2 (aremove k m) = alookup k2 m.
  Proof.
    intros Hn. induction m as [|[k' v'] r IH]; cbn; [reflexivity|].
    destruct (String.eqb k k') eqn:E; cbn.
    - apply String.eqb_eq in E; subst k'.
      destruct (String.eqb k2 k) eqn:E2; [apply String.eqb_eq in E2; congruence|exact IH].
    - now rewrite IH.
  Qed.

  Lemma alookup_None_iff k m : alookup k m = None <-> ~ In k (map fst m).
  Proof.
    induction m as [|[k' v'] r IH]; cbn; [tauto|].
    destruct (String.eqb k k') eqn:E.
    - apply String.eqb_eq in E; subst. split; [discriminate|intros H; exfalso; apply H; now left].
    - apply String.eqb_neq in E. rewrite IH. split; [intros H [H1|H1]; [congruence|tauto]|tauto].
  Qed.

  Lemma alookup_Some_key k v m : alookup k m = Some v -> In k (map fst m).
  Proof.
    intros H. destruct (in_dec string_dec k (map fst m)) as [Hi|Hi]; [exact Hi|].
    apply alookup_None_iff in Hi. congruence.
  Qed.

  Lemma alookup_In k v m : alookup k m = Some v -> In (k, v) m.
  Proof.
    induction m as [|[k' v'] r IH]; cbn; [discriminate|].
    destruct (String.eqb k k') eqn:E.
    - apply String.eqb_eq in E; subst. intros [= ->]. now left.
    - intros H; right; auto.
  Qed.

  Lemma In_alookup k v m : NoDup (map fst m) -> In (k, v) m -> alookup k m = Some v.
  Proof.
    induction m as [|[k' v'] r IH]; cbn; [tauto|].
    intros Hnd [H|H].
    - inversion H; subst. now rewrite String.eqb_refl.
    - inversion Hnd as [|? ? Hni Hnd']; subst.
      destruct (String.eqb k k') eqn:E.
      + apply String.eqb_eq in E; subst. exfalso; apply Hni.
        change k' with (fst (k', v)). now apply in_map.
      + auto.
  Qed.

  Lemma keys_aset k k2 v m : In k2 (map fst (aset k v m)) <-> k2 = k \/ In k2 (map fst m).
  Proof.
    induction m as [|[k' v'] r IH]; cbn.
    - intuition.
    - destruct (String.eqb k k') eqn:E; cbn.
      + apply String.eqb_eq in E; subst. intuition.
      + rewrite IH. intuition.
  Qed.

  Lemma keys_aremove k k2 m : In k2 (map fst (aremove k m)) <-> k2 <> k /\ In k2 (map fst m).
  Proof.
    induction m as [|[k' v'] r IH]; cbn.
    - tauto.
    - destruct (String.eqb k k') eqn:E; cbn.
      + apply String.eqb_eq in E; subst. rewrite IH. intuition congruence.
      + apply String.eqb_neq in E. rewrite IH. intuition congruence.
  Qed.

  Lemma NoDup_keys_aset k v m : NoDup (map fst m) -> NoDup (map fst (aset k v m)).
  Proof.
    induction m as [|[k' v'] r IH]; cbn; intros Hnd.
    - constructor; [tauto|constructor].
    - inversion Hnd as [|? ? Hni Hnd']; subst.
      destruct (String.eqb k k') eqn:E; cbn.
      + apply String.eqb_eq in E; subst. now constructor.
      + apply String.eqb_neq in E. constructor; [|auto].
        rewrite keys_aset. intros [H|H]; [congruence|tauto].
  Qed.

  Lemma NoDup_keys_aremove k m : NoDup (map fst m) -> NoDup (map fst (aremove k m)).
  Proof.
    induction m as [|[k' v'] r IH]; cbn; intros Hnd; [constructor|].
    inversion Hnd as [|? ? Hni Hnd']; subst.
    destruct (String.eqb k k') eqn:E; cbn; [auto|].
    constructor; [|auto]. rewrite keys_aremove. tauto.
  Qed.
End Alist.

Section LookupL.
  Context {V : Type}.
  Implicit Types (m : list (string * list V)) (k : string).

  Lemma lookup_l_aset_eq k l m : lookup_l k (aset k l m) = l.
  Proof. unfold lookup_l. now rewrite alookup_aset_eq. Qed.

  Lemma lookup_l_aset_neq k k2 l m : k <> k2 -> lookup_l k2 (aset k l m) = lookup_l k2 m.
  Proof. intros H. unfold lookup_l. now rewrite alookup_aset_neq. Qed.

  Lemma lookup_l_aremove_eq k m : lookup_l k (aremove k m) = [].
  Proof. unfold lookup_l. now rewrite alookup_aremove_eq. Qed.

  Lemma lookup_l_aremove_neq k k2 m : k <> k2 -> lookup_l k2 (aremove k m) = lookup_l k2 m.
  Proof. intros H. unfold lookup_l. now rewrite alookup_aremove_neq. Qed.

  Lemma lookup_l_In k x m : In x (lookup_l k m) -> exists l, alookup k m = Some l /\ In x l.
  Proof.
    unfold lookup_l. destruct (alookup k m) as [l|]; [|intros []]. intros H; eauto.
  Qed.

  Lemma lookup_l_Some k l m : alookup k m = Some l -> lookup_l k m = l.
  Proof. unfold lookup_l. now intros ->. Qed.
End LookupL.

(* ------------------------------------------------------------------------- *)
(* 1b. list helpers: set_nth, remove_first, existsb, mk_utxos                 *)
(* ------------------------------------------------------------------------- *)
Lemma set_nth_length {A} n (x : A) l : length (set_nth n x l) = length l.
Proof.
  revert n; induction l as [|y r IH]; intros n; destruct n; cbn; try reflexivity.
  now rewrite IH.
Qed.

Lemma nth_error_set_nth_eq {A} n (x : A) l :
  (n < length l)%nat -> nth_error (set_nth n x l) n = Some x.
Proof.
  revert n; induction l as [|y r IH]; intros n Hn; cbn in Hn; [lia|].
  destruct n; cbn; [reflexivity|apply IH; lia].
Qed.

Lemma nth_error_set_nth_neq {A} n m (x : A) l :
  n <> m -> nth_error (set_nth n x l) m = nth_error l m.
Proof.
  revert n m; induction l as [|y r IH]; intros n m Hn; destruct n, m; cbn;
    try reflexivity; try congruence. apply IH; congruence.
Qed.

Lemma remove_first_In {A} p (x : A) l : In x (remove_first p l) -> In x l.
Proof.
  induction l as [|y r IH]; cbn; [tauto|].
  destruct (p y); cbn; [tauto|intros [H|H]; auto].
Qed.

Lemma remove_first_keep {A} p (x : A) l : In x l -> p x = false -> In x (remove_first p l).
Proof.
  induction l as [|y r IH]; cbn; [tauto|]. intros [H|H] Hp.
  - subst y. rewrite Hp. now left.
  - destruct (p y); [exact H|right; auto].
Qed.

Lemma remove_first_filter_NoDup {A} p f (l : list A) :
  NoDup (filter f l) -> NoDup (filter f (remove_first p l)).
Proof.
  induction l as [|y r IH]; cbn; [auto|]. intros Hnd.
  assert (Hr : NoDup (filter f r)).
  { destruct (f y); [now inversion Hnd|exact Hnd]. }
  destruct (p y); [exact Hr|]. cbn.
  destruct (f y) eqn:Ef; [|auto].
  inversion Hnd as [|? ? Hni _]; subst. constructor; [|auto].
  intros Hin. apply Hni. apply filter_In in Hin as [Hin Hf].
  apply filter_In. split; [eapply remove_first_In; eauto|exact Hf].
Qed.

Lemma remove_first_gone {A} p f (u : A) l :
  (forall w, In w l -> p w = true -> w = u) ->
  NoDup (filter f l) -> f u = true -> p u = true -> ~ In u (remove_first p l).
Proof.
  intros Hall Hnd Hf Hp. induction l as [|y r IH]; cbn; [tauto|].
  assert (Hr : NoDup (filter f r)).
  { cbn in Hnd. destruct (f y); [now inversion Hnd|exact Hnd]. }
  destruct (p y) eqn:Ep.
  - assert (y = u) by (apply Hall; [now left|exact Ep]). subst y.
    cbn in Hnd. rewrite Hf in Hnd. inversion Hnd as [|? ? Hni _]; subst.
    intros Hin. apply Hni. apply filter_In. tauto.
  - intros [H|H]; [congruence|].
    revert H. apply IH; [|exact Hr]. intros w Hw. apply Hall. now right.
Qed.

Lemma existsb_false_nth {A} f (l : list A) n x :
  existsb f l = false -> nth_error l n = Some x -> f x = false.
Proof.
  intros He Hn. apply nth_error_In in Hn.
  destruct (f x) eqn:E; [|reflexivity].
  assert (existsb f l = true) by (apply existsb_exists; eauto). congruence.
Qed.

Lemma mk_utxos_length id ts j l : length (mk_utxos id ts j l) = length l.
Proof. revert j; induction l as [|o r IH]; intros j; cbn; [reflexivity|now rewrite IH]. Qed.

Lemma mk_utxos_nth id ts j l n :
  nth_error (mk_utxos id ts j l) n =
  option_map (fun o => mkUtxo id (N.of_nat (j + n) mod 65536) o ts) (nth_error l n).
Proof.
  revert j n; induction l as [|o r IH]; intros j n; cbn [mk_utxos].
  - now destruct n.
  - destruct n; cbn [nth_error option_map].
    + now rewrite Nat.add_0_r.
    + rewrite IH. now replace (S j + n)%nat with (j + S n)%nat by lia.
Qed.

Lemma mk_utxos_In id ts j l u :
  In u (mk_utxos id ts j l) <->
  exists n o, nth_error l n = Some o /\ u = mkUtxo id (N.of_nat (j + n) mod 65536) o ts.
Proof.
  split.
  - intros H. apply In_nth_error in H as [n Hn]. rewrite mk_utxos_nth in Hn.
    destruct (nth_error l n) as [o|] eqn:E; [|discriminate]. cbn in Hn. inversion Hn. eauto.
  - intros (n & o & Hn & ->). apply nth_error_In with n. rewrite mk_utxos_nth, Hn. reflexivity.
Qed.

(* ------------------------------------------------------------------------- *)
(* 3. consuming: facts that only involve utxosById (find_utxo)                *)
(* ------------------------------------------------------------------------- *)
(* the reference an input names *)
Definition iref (i : input) : string * N := (i_ref i, i_idx i).

Lemma iref_dec i i2 : {iref i2 = iref i} + {iref i2 <> iref i}.
Proof.
  unfold iref. destruct (string_dec (i_ref i2) (i_ref i)) as [H|H];
    [destruct (N.eq_dec (i_idx i2) (i_idx i)) as [H2|H2]|].
  - left; congruence.
  - right; congruence.
  - right; congruence.
Qed.

Lemma find_utxo_ext reg i i2 : iref i2 = iref i -> find_utxo reg i2 = find_utxo reg i.
Proof. unfold iref, find_utxo. intros [= -> ->]. reflexivity. Qed.

Lemma find_utxo_Ok_key reg i u : find_utxo reg i = Ok u -> In (i_ref i) (map fst (by_id reg)).
Proof.
  unfold find_utxo. destruct (alookup (i_ref i) (by_id reg)) eqn:E; [|discriminate].
  intros _. eapply alookup_Some_key; eauto.
Qed.

Definition consume_pred (i : input) (v : utxo) : bool :=
  String.eqb (u_ref v) (i_ref i) && N.eqb (u_idx v) (i_idx i).

Lemma consume_inv reg i reg' :
  consume reg i = Ok reg' ->
  exists us u,
    alookup (i_ref i) (by_id reg) = Some us /\
    nth_error us (N.to_nat (i_idx i)) = Some (Some u) /\
    by_addr reg' =
      (match remove_first (consume_pred i) (lookup_l (o_addr (u_out u)) (by_addr reg)) with
       | [] => aremove (o_addr (u_out u)) (by_addr reg)
       | la => aset (o_addr (u_out u)) la (by_addr reg)
       end) /\
    by_id reg' =
      (if existsb slot_live (set_nth (N.to_nat (i_idx i)) None us)
       then aset (i_ref i) (set_nth (N.to_nat (i_idx i)) None us) (by_id reg)
       else aremove (i_ref i) (by_id reg)).
Proof.
  unfold consume. destruct (alookup (i_ref i) (by_id reg)) as [us|] eqn:Eus; [|discriminate].
  destruct (nth_error us (N.to_nat (i_idx i))) as [[u|]|] eqn:En; try discriminate.
  intros [= <-]. exists us, u. cbn [by_addr by_id].
  split; [reflexivity|]. split; [exact En|]. split; [|reflexivity].
  fold (consume_pred i).
  destruct (remove_first (consume_pred i) (lookup_l (o_addr (u_out u)) (by_addr reg))); reflexivity.
Qed.

Theorem consume_needs_existing reg i reg' :
  consume reg i = Ok reg' -> exists u, find_utxo reg i = Ok u.
Proof.
  intros H. apply consume_inv in H as (us & u & Hus & Hn & _).
  exists u. unfold find_utxo. now rewrite Hus, Hn.
Qed.

(* C02, one step. No well-formedness is needed: find_utxo only reads utxosById.
   The second disjunct is utxos_registry.go:127-136: when no remaining slot of the
   transaction is live (value > 0 or yielding) the whole id entry is deleted, and the
   zero-valued non-yielding outputs still in it stop being spendable. *)
Theorem consume_removes reg i reg' :
  consume reg i = Ok reg' ->
  (find_utxo reg' i = Err ENoIndex \/ find_utxo reg' i = Err EUnknownId) /\
  forall i2, iref i2 <> iref i ->
    find_utxo reg' i2 = find_utxo reg i2 \/
    (i_ref i2 = i_ref i /\ alookup (i_ref i) (by_id reg') = None /\
     find_utxo reg' i2 = Err EUnknownId /\
     (find_utxo reg i2 = Err ENoIndex \/
      exists u, find_utxo reg i2 = Ok u /\ o_val (u_out u) = 0 /\ o_yield (u_out u) = false)).
Proof.
  intros H. apply consume_inv in H as (us & u & Hus & Hn & _ & Hid).
  set (n := N.to_nat (i_idx i)) in *.
  assert (Hlen : (n < length us)%nat) by (apply nth_error_Some; congruence).
  split.
  - unfold find_utxo. rewrite Hid.
    destruct (existsb slot_live (set_nth n None us)).
    + left. rewrite alookup_aset_eq. fold n. now rewrite nth_error_set_nth_eq.
    + right. now rewrite alookup_aremove_eq.
  - intros i2 Hne.
    destruct (string_dec (i_ref i2) (i_ref i)) as [Er|Er].
    + assert (Hm : n <> N.to_nat (i_idx i2)).
      { unfold n. intros Hc. apply N2Nat.inj in Hc. apply Hne. unfold iref. congruence. }
      destruct (existsb slot_live (set_nth n None us)) eqn:Ex.
      * left. unfold find_utxo. rewrite Hid, Er, alookup_aset_eq, Hus.
        now rewrite nth_error_set_nth_neq.
      * right. split; [exact Er|]. split; [rewrite Hid; apply alookup_aremove_eq|].
        split; [unfold find_utxo; rewrite Hid, Er; now rewrite alookup_aremove_eq|].
        unfold find_utxo. rewrite Er, Hus.
        destruct (nth_error us (N.to_nat (i_idx i2))) as [[u2|]|] eqn:E2; auto.
        right. exists u2. split; [reflexivity|].
        assert (Hs : slot_live (Some u2) = false).
        { eapply existsb_false_nth; [exact Ex|]. rewrite nth_error_set_nth_neq; eauto. }
        cbn in Hs. apply orb_false_iff in Hs as [Hv Hy]. split; [lia|exact Hy].
    + left. unfold find_utxo. rewrite Hid.
      destruct (existsb slot_live (set_nth n None us)).
      * rewrite alookup_aset_neq; [reflexivity|congruence].
      * rewrite alookup_aremove_neq; [reflexivity|congruence].
Qed.

Lemma consume_err_stays reg i reg' i2 e :
  consume reg i = Ok reg' -> find_utxo reg i2 = Err e -> exists e', find_utxo reg' i2 = Err e'.
Proof.
  intros Hc He. destruct (iref_dec i i2) as [Hq|Hq].
  - apply consume_needs_existing in Hc as [u Hu].
    rewrite (find_utxo_ext _ _ _ Hq) in He. congruence.
  - apply consume_removes in Hc as [_ Hc]. destruct (Hc i2 Hq) as [H|(_ & _ & H & _)].
    + exists e. congruence.
    + eauto.
Qed.

Lemma consume_ok_was_ok reg i reg' i2 u :
  consume reg i = Ok reg' -> find_utxo reg' i2 = Ok u -> find_utxo reg i2 = Ok u.
Proof.
  intros Hc Ho. apply consume_removes in Hc as [Hi Hc]. destruct (iref_dec i i2) as [Hq|Hq].
  - rewrite (find_utxo_ext _ _ _ Hq) in Ho. destruct Hi; congruence.
  - destruct (Hc i2 Hq) as [H|(_ & _ & H & _)]; congruence.
Qed.

Lemma consume_keys reg i reg' k :
  consume reg i = Ok reg' -> In k (map fst (by_id reg')) -> In k (map fst (by_id reg)).
Proof.
  intros H. apply consume_inv in H as (us & u & Hus & _ & _ & Hid). rewrite Hid.
  destruct (existsb _ _).
  - rewrite keys_aset. intros [->|H]; [eapply alookup_Some_key; eauto|exact H].
  - rewrite keys_aremove. tauto.
Qed.

Lemma consume_all_spec reg l reg' :
  consume_all reg l = Ok reg' ->
  NoDup (map iref l) /\
  (forall i, In i l -> exists u, find_utxo reg i = Ok u) /\
  (forall i, In i l -> exists e, find_utxo reg' i = Err e) /\
  (forall i2 e, find_utxo reg i2 = Err e -> exists e', find_utxo reg' i2 = Err e') /\
  (forall i2 u, find_utxo reg' i2 = Ok u -> find_utxo reg i2 = Ok u) /\
  (forall k, In k (map fst (by_id reg')) -> In k (map fst (by_id reg))).
Proof.
  revert reg; induction l as [|i r IH]; intros reg; cbn [consume_all].
  - intros [= <-]. cbn. repeat split; eauto; try tauto. constructor.
  - destruct (consume reg i) as [reg1|e1] eqn:Ec; [|discriminate]. intros Hr.
    destruct (IH _ Hr) as (Hnd & Hsp & Hgone & Hstay & Hwas & Hk).
    assert (Herr1 : exists e, find_utxo reg1 i = Err e).
    { apply consume_removes in Ec as [[H|H] _]; eauto. }
    repeat split.
    + cbn. constructor; [|exact Hnd]. intros Hin. apply in_map_iff in Hin as (i' & Hq & Hin).
      destruct (Hsp _ Hin) as [u Hu]. destruct Herr1 as [e He].
      rewrite (find_utxo_ext _ _ _ Hq) in Hu. congruence.
    + intros i' [<-|Hin]; [eapply consume_needs_existing; eauto|].
      destruct (Hsp _ Hin) as [u Hu]. exists u. eapply consume_ok_was_ok; eauto.
    + intros i' [<-|Hin]; [|auto]. destruct Herr1 as [e He]. eauto.
    + intros i2 e He. destruct (consume_err_stays _ _ _ _ _ Ec He) as [e' He']. eauto.
    + intros i2 u Hu. eapply consume_ok_was_ok; eauto.
    + intros k Hin. eapply consume_keys; eauto.
Qed.

(* ---- add_outputs seen through find_utxo ---- *)
Lemma add_outputs_by_id reg t ts :
  outs t <> [] ->
  by_id (add_outputs reg t ts) =
  aset (t_id t) (map Some (mk_utxos (t_id t) ts 0 (outs t))) (by_id reg).
Proof.
  intros H. unfold add_outputs; cbn [by_id]. destruct (outs t) as [|o r]; [congruence|reflexivity].
Qed.

Lemma find_add_outputs reg t ts i :
  outs t <> [] ->
  find_utxo (add_outputs reg t ts) i =
  if String.eqb (i_ref i) (t_id t) then
    match nth_error (outs t) (N.to_nat (i_idx i)) with
    | Some o => Ok (mkUtxo (t_id t) (i_idx i mod 65536) o ts)
    | None => Err ENoIndex
    end
  else find_utxo reg i.
Proof.
  intros H. unfold find_utxo. rewrite add_outputs_by_id by exact H.
  destruct (String.eqb (i_ref i) (t_id t)) eqn:E.
  - apply String.eqb_eq in E. rewrite E, alookup_aset_eq.
    rewrite nth_error_map, mk_utxos_nth. cbn [Nat.add]. rewrite N2Nat.id.
    destruct (nth_error (outs t) (N.to_nat (i_idx i))); reflexivity.
  - apply String.eqb_neq in E. rewrite alookup_aset_neq by congruence. reflexivity.
Qed.

(* the registry on which the inputs of [t] are consumed *)
Definition mid_reg (reg : ureg) (t : tx) (ts : Z) (rec : bool) : ureg :=
  if rec then add_outputs reg t ts else reg.

Lemma apply_tx_inv reg t ts reg' :
  apply_tx reg t ts = Ok reg' ->
  alookup (t_id t) (by_id reg) = None /\ outs t <> [] /\
  exists rec, records_outputs t = Ok rec /\ consume_all (mid_reg reg t ts rec) (ins t) = Ok reg'.
Proof.
  unfold apply_tx. destruct (alookup (t_id t) (by_id reg)) eqn:E; [discriminate|].
  destruct (records_outputs t) as [rec|e] eqn:Er; [|discriminate].
  intros H. split; [reflexivity|]. split.
  - unfold records_outputs in Er. destruct (outs t); [discriminate|congruence].
  - exists rec. split; [reflexivity|exact H].
Qed.

Lemma find_mid_ok reg t ts rec i u :
  outs t <> [] -> find_utxo (mid_reg reg t ts rec) i = Ok u ->
  find_utxo reg i = Ok u \/ (i_ref i = t_id t /\ (N.to_nat (i_idx i) < length (outs t))%nat).
Proof.
  intros Ho. destruct rec; cbn [mid_reg]; [|auto].
  rewrite find_add_outputs by exact Ho.
  destruct (String.eqb (i_ref i) (t_id t)) eqn:E; [|auto].
  apply String.eqb_eq in E.
  destruct (nth_error (outs t) (N.to_nat (i_idx i))) eqn:En; [|discriminate].
  intros _. right. split; [exact E|]. apply nth_error_Some. congruence.
Qed.

Lemma find_mid_err reg t ts rec i e :
  outs t <> [] -> i_ref i <> t_id t -> find_utxo reg i = Err e ->
  find_utxo (mid_reg reg t ts rec) i = Err e.
Proof.
  intros Ho Hn He. destruct rec; cbn [mid_reg]; [|exact He].
  rewrite find_add_outputs by exact Ho.
  apply String.eqb_neq in Hn. now rewrite Hn.
Qed.

Lemma mid_keys reg t ts rec k :
  outs t <> [] -> In k (map fst (by_id (mid_reg reg t ts rec))) ->
  k = t_id t \/ In k (map fst (by_id reg)).
Proof.
  intros Ho. destruct rec; cbn [mid_reg]; [|auto].
  rewrite add_outputs_by_id by exact Ho. now rewrite keys_aset.
Qed.

Lemma apply_tx_spec reg t ts reg' :
  apply_tx reg t ts = Ok reg' ->
  NoDup (map iref (ins t)) /\
  (forall i, In i (ins t) ->
     (exists u, find_utxo reg i = Ok u) \/
     (i_ref i = t_id t /\ (N.to_nat (i_idx i) < length (outs t))%nat)) /\
  (forall i, In i (ins t) -> exists e, find_utxo reg' i = Err e) /\
  (forall i2 e, i_ref i2 <> t_id t -> find_utxo reg i2 = Err e ->
     exists e', find_utxo reg' i2 = Err e') /\
  (forall i2 u, find_utxo reg' i2 = Ok u ->
     find_utxo reg i2 = Ok u \/
     (i_ref i2 = t_id t /\ (N.to_nat (i_idx i2) < length (outs t))%nat)) /\
  (forall k, In k (map fst (by_id reg')) -> k = t_id t \/ In k (map fst (by_id reg))).
Proof.
  intros H. apply apply_tx_inv in H as (_ & Ho & rec & _ & Hc).
  apply consume_all_spec in Hc as (Hnd & Hsp & Hgone & Hstay & Hwas & Hk).
  repeat split.
  - exact Hnd.
  - intros i Hi. destruct (Hsp _ Hi) as [u Hu].
    destruct (find_mid_ok _ _ _ _ _ _ Ho Hu); eauto.
  - exact Hgone.
  - intros i2 e Hn He. eapply Hstay. eapply find_mid_err; eauto.
  - intros i2 u Hu. eapply find_mid_ok; eauto.
  - intros k Hin. eapply mid_keys; eauto.
Qed.

(* a transaction naming the same output twice fails *)
Theorem apply_tx_inputs_distinct reg t ts reg' :
  apply_tx reg t ts = Ok reg' -> NoDup (map iref (ins t)).
Proof. intros H. apply apply_tx_spec in H. tauto. Qed.

Theorem apply_tx_inputs_spent reg t ts reg' :
  apply_tx reg t ts = Ok reg' -> forall i, In i (ins t) -> exists e, find_utxo reg' i = Err e.
Proof. intros H. apply apply_tx_spec in H. tauto. Qed.

(* every input names an output that was spendable before, or one of the transaction's own *)
Theorem apply_tx_inputs_origin reg t ts reg' :
  apply_tx reg t ts = Ok reg' -> forall i, In i (ins t) ->
  (exists u, find_utxo reg i = Ok u) \/
  (i_ref i = t_id t /\ (N.to_nat (i_idx i) < length (outs t))%nat).
Proof. intros H. apply apply_tx_spec in H. tauto. Qed.

Theorem apply_tx_dup_id reg t ts :
  In (t_id t) (map fst (by_id reg)) -> apply_tx reg t ts = Err EDupId.
Proof.
  intros H. unfold apply_tx. destruct (alookup (t_id t) (by_id reg)) eqn:E; [reflexivity|].
  apply alookup_None_iff in E. contradiction.
Qed.

(* ---- lists of transactions ---- *)
Definition consumed (l : list tx) : list (string * N) :=
  flat_map (fun t => map iref (ins t)) l.

Lemma apply_txs_err_stays reg l ts reg' i2 e :
  apply_txs reg l ts = Ok reg' -> (forall t, In t l -> t_id t <> i_ref i2) ->
  find_utxo reg i2 = Err e -> exists e', find_utxo reg' i2 = Err e'.
Proof.
  revert reg e; induction l as [|t r IH]; intros reg e; cbn [apply_txs].
  - intros [= <-] _ H. eauto.
  - destruct (apply_tx reg t ts) as [reg1|e1] eqn:Et; [|discriminate]. intros Hr Hid He.
    apply apply_tx_spec in Et as (_ & _ & _ & Hstay & _).
    destruct (Hstay i2 e) as [e' He']; [intros Hc; apply (Hid t); [now left|congruence]|exact He|].
    eapply IH; eauto. intros t' Ht'. apply Hid. now right.
Qed.

Lemma apply_txs_keys reg l ts reg' k :
  apply_txs reg l ts = Ok reg' -> In k (map fst (by_id reg')) ->
  In k (map t_id l) \/ In k (map fst (by_id reg)).
Proof.
  revert reg; induction l as [|t r IH]; intros reg; cbn [apply_txs].
  - intros [= <-]. auto.
  - destruct (apply_tx reg t ts) as [reg1|e1] eqn:Et; [|discriminate]. intros Hr Hin.
    apply apply_tx_spec in Et as (_ & _ & _ & _ & _ & Hk).
    destruct (IH _ Hr Hin) as [H|H]; [left; now right|].
    destruct (Hk _ H) as [->|H']; [left; now left|now right].
Qed.

(* every consumed reference was spendable at the start, or was created by an earlier
   transaction of the list, or by the consuming transaction itself *)
Theorem apply_txs_consumed_origin reg l ts reg' :
  apply_txs reg l ts = Ok reg' ->
  forall l1 t l2, l = l1 ++ t :: l2 -> forall i, In i (ins t) ->
  (exists u, find_utxo reg i = Ok u) \/
  exists t', In t' (l1 ++ [t]) /\ i_ref i = t_id t' /\
             (N.to_nat (i_idx i) < length (outs t'))%nat.
Proof.
  revert reg; induction l as [|t0 r IH]; intros reg; cbn [apply_txs].
  - intros _ l1 t l2 H. destruct l1; discriminate.
  - destruct (apply_tx reg t0 ts) as [reg1|e1] eqn:Et; [|discriminate]. intros Hr l1 t l2 Hl i Hi.
    apply apply_tx_spec in Et as (_ & Horig & _ & _ & Hwas & _).
    destruct l1 as [|t1 l1']; cbn in Hl; inversion Hl; subst.
    + destruct (Horig _ Hi) as [H|[H1 H2]]; [now left|].
      right. exists t. cbn. auto.
    + destruct (IH _ Hr l1' t l2 eq_refl i Hi) as [[u Hu]|(t' & Hin & H1 & H2)].
      * destruct (Hwas _ _ Hu) as [H|[H1 H2]]; [left; eauto|].
        right. exists t1. cbn. auto.
      * right. exists t'. cbn. auto.
Qed.

Corollary apply_txs_consumed_origin_in reg l ts reg' :
  apply_txs reg l ts = Ok reg' ->
  forall t i, In t l -> In i (ins t) ->
  (exists u, find_utxo reg i = Ok u) \/ exists t', In t' l /\ i_ref i = t_id t'.
Proof.
  intros H t i Ht Hi. apply in_split in Ht as (l1 & l2 & ->).
  destruct (apply_txs_consumed_origin _ _ _ _ H l1 t l2 eq_refl i Hi) as [Hu|(t' & Hin & H1 & _)];
    [now left|right].
  exists t'. split; [|exact H1]. apply in_app_iff in Hin as [Hin|[<-|[]]]; apply in_app_iff; cbn; auto.
Qed.

Lemma NoDup_app_intro {A} (l1 l2 : list A) :
  NoDup l1 -> NoDup l2 -> (forall x, In x l1 -> ~ In x l2) -> NoDup (l1 ++ l2).
Proof.
  induction l1 as [|x r IH]; cbn; intros H1 H2 Hd; [exact H2|].
  inversion H1 as [|? ? Hni Hr]; subst. constructor.
  - rewrite in_app_iff. intros [H|H]; [tauto|]. eapply Hd; eauto.
  - apply IH; auto.
Qed.

(* Hypotheses of the list-level theorem: the ids of the list are pairwise distinct and none
   of them is a key of utxosById at the start. Without them the statement is false:
   see [apply_txs_no_double_spend_refuted]. *)
Definition ids_fresh (reg : ureg) (l : list tx) : Prop :=
  NoDup (map t_id l) /\ forall t, In t l -> alookup (t_id t) (by_id reg) = None.

Lemma ids_fresh_step reg t r ts reg1 :
  ids_fresh reg (t :: r) -> apply_tx reg t ts = Ok reg1 -> ids_fresh reg1 r.
Proof.
  intros [Hnd Hf] Et. cbn in Hnd. inversion Hnd as [|? ? Hni Hnd']; subst.
  split; [exact Hnd'|]. intros t' Ht'. apply alookup_None_iff. intros Hk.
  apply apply_tx_spec in Et as (_ & _ & _ & _ & _ & Hkeys).
  destruct (Hkeys _ Hk) as [He|Hin].
  - apply Hni. rewrite <- He. now apply in_map.
  - assert (Hn : alookup (t_id t') (by_id reg) = None) by (apply Hf; now right).
    apply alookup_None_iff in Hn. contradiction.
Qed.

Lemma fresh_input_ref reg t r ts reg1 i :
  ids_fresh reg (t :: r) -> apply_tx reg t ts = Ok reg1 -> In i (ins t) ->
  forall t', In t' r -> t_id t' <> i_ref i.
Proof.
  intros [Hnd Hf] Et Hi t' Ht' Hc. cbn in Hnd. inversion Hnd as [|? ? Hni _]; subst.
  destruct (apply_tx_inputs_origin _ _ _ _ Et i Hi) as [[u Hu]|[He _]].
  - apply find_utxo_Ok_key in Hu. rewrite <- Hc in Hu.
    assert (Hn : alookup (t_id t') (by_id reg) = None) by (apply Hf; now right).
    apply alookup_None_iff in Hn. contradiction.
  - apply Hni. rewrite <- He, <- Hc. now apply in_map.
Qed.

(* C02 on a list: no reference is consumed twice, and none of the consumed references is
   spendable afterwards *)
Theorem apply_txs_no_double_spend reg l ts reg' :
  ids_fresh reg l -> apply_txs reg l ts = Ok reg' ->
  NoDup (consumed l) /\
  forall t i, In t l -> In i (ins t) -> exists e, find_utxo reg' i = Err e.
Proof.
  revert reg; induction l as [|t r IH]; intros reg Hf; cbn [apply_txs].
  - intros _. split; [constructor|intros ? ? []].
  - destruct (apply_tx reg t ts) as [reg1|e1] eqn:Et; [|discriminate]. intros Hr.
    pose proof (ids_fresh_step _ _ _ _ _ Hf Et) as Hf1.
    destruct (IH _ Hf1 Hr) as [Hnd Hgone].
    pose proof (apply_tx_inputs_distinct _ _ _ _ Et) as Hnd0.
    pose proof (apply_tx_inputs_spent _ _ _ _ Et) as Hsp0.
    split.
    + cbn. apply NoDup_app_intro; [exact Hnd0|exact Hnd|].
      intros p Hp1 Hp2. apply in_map_iff in Hp1 as (i & <- & Hi).
      apply in_flat_map in Hp2 as (t2 & Ht2 & Hp2). apply in_map_iff in Hp2 as (i2 & Hq & Hi2).
      destruct (apply_txs_consumed_origin_in _ _ _ _ Hr t2 i2 Ht2 Hi2) as [[u Hu]|(t' & Ht' & He)].
      * destruct (Hsp0 _ Hi) as [e He]. rewrite (find_utxo_ext _ _ _ Hq) in Hu. congruence.
      * apply (fresh_input_ref _ _ _ _ _ i Hf Et Hi t' Ht'). unfold iref in Hq. congruence.
    + intros t2 i [<-|Ht2] Hi.
      * destruct (Hsp0 _ Hi) as [e He].
        eapply apply_txs_err_stays; [exact Hr| |exact He].
        eapply fresh_input_ref; eauto.
      * eapply Hgone; eauto.
Qed.

(* ---- UpdateUtxos ---- *)
Theorem update_utxos_all_or_nothing reg l ts reg' :
  update_utxos reg l ts = Ok reg' -> apply_txs reg l ts = Ok reg' /\ incomes_ok reg' = true.
Proof.
  unfold update_utxos. destruct (apply_txs reg l ts) as [r|e]; [|discriminate].
  destruct (incomes_ok r) eqn:E; [|discriminate]. intros [= <-]. auto.
Qed.

Lemma update_utxos_shape reg l ts :
  (exists e, update_utxos reg l ts = Err e) \/ (exists reg', update_utxos reg l ts = Ok reg').
Proof. destruct (update_utxos reg l ts); eauto. Qed.

(* C10 *)
Theorem update_utxos_one_yielding reg l ts reg' :
  update_utxos reg l ts = Ok reg' -> forall a, (count_yielding (utxos_of reg' a) <= 1)%nat.
Proof.
  intros H a. apply update_utxos_all_or_nothing in H as [_ H].
  unfold utxos_of, lookup_l. destruct (alookup a (by_addr reg')) as [us|] eqn:E; [|cbn; lia].
  apply alookup_In in E. unfold incomes_ok in H. rewrite forallb_forall in H.
  specialize (H _ E). cbn in H. now apply Nat.leb_le.
Qed.

(* ---- no panic ---- *)
Lemma consume_no_panic reg i s : consume reg i <> Err (EPanic s).
Proof.
  unfold consume. destruct (alookup (i_ref i) (by_id reg)); [|discriminate].
  destruct (nth_error l (N.to_nat (i_idx i))) as [[u|]|]; discriminate.
Qed.

Lemma consume_all_no_panic reg l s : consume_all reg l <> Err (EPanic s).
Proof.
  revert reg; induction l as [|i r IH]; intros reg; cbn [consume_all]; [discriminate|].
  destruct (consume reg i) as [reg1|e] eqn:E; [apply IH|].
  intros [= ->]. eapply consume_no_panic; eauto.
Qed.

Lemma apply_tx_no_panic reg t ts s : outs t <> [] -> apply_tx reg t ts <> Err (EPanic s).
Proof.
  intros Ho. unfold apply_tx. destruct (alookup (t_id t) (by_id reg)); [discriminate|].
  unfold records_outputs. destruct (outs t) as [|o r]; [congruence|].
  apply consume_all_no_panic.
Qed.

Theorem update_utxos_no_panic reg l ts s :
  (forall t, In t l -> outs t <> []) -> update_utxos reg l ts <> Err (EPanic s).
Proof.
  intros Ho. unfold update_utxos.
  assert (Ha : apply_txs reg l ts <> Err (EPanic s)).
  { revert reg; induction l as [|t r IH]; intros reg; cbn [apply_txs]; [discriminate|].
    destruct (apply_tx reg t ts) as [reg1|e] eqn:E.
    - apply IH. intros t' Ht'. apply Ho. now right.
    - intros [= ->]. eapply apply_tx_no_panic; [|exact E]. apply Ho. now left. }
  destruct (apply_txs reg l ts) as [r|e]; [destruct (incomes_ok r); discriminate|congruence].
Qed.

(* the only panic of UpdateUtxos is the empty output list *)
Lemma update_utxos_panic_only_no_outputs reg l ts s :
  update_utxos reg l ts = Err (EPanic s) -> s = PsNoOutputs /\ exists t, In t l /\ outs t = [].
Proof.
  unfold update_utxos. destruct (apply_txs reg l ts) as [r|e] eqn:Ea;
    [destruct (incomes_ok r); discriminate|]. intros [= ->].
  revert reg Ea; induction l as [|t r IH]; intros reg; cbn [apply_txs]; [discriminate|].
  destruct (apply_tx reg t ts) as [reg1|e] eqn:E.
  - intros H. destruct (IH _ H) as (Hs & t' & Ht' & Ho). split; [exact Hs|]. exists t'. split; [now right|exact Ho].
  - intros [= ->]. unfold apply_tx in E. destruct (alookup (t_id t) (by_id reg)); [discriminate|].
    unfold records_outputs in E. destruct (outs t) as [|o r'] eqn:Eo.
    + inversion E. split; [reflexivity|]. exists t. split; [now left|exact Eo].
    + exfalso. eapply consume_all_no_panic; eauto.
Qed.

(* ------------------------------------------------------------------------- *)
(* 2. the well-formedness invariant                                           *)
(* ------------------------------------------------------------------------- *)
Definition live_u (u : utxo) : bool := (0 <? o_val (u_out u)) || o_yield (u_out u).

Lemma slot_live_Some u : slot_live (Some u) = live_u u.
Proof. reflexivity. Qed.

(* utxosById holds [u] at the place its own reference names *)
Definition has_slot (reg : ureg) (u : utxo) : Prop :=
  exists us, alookup (u_ref u) (by_id reg) = Some us /\
             nth_error us (N.to_nat (u_idx u)) = Some (Some u).

Lemma has_slot_find reg u k s :
  has_slot reg u <-> find_utxo reg (mkInput (u_idx u) (u_ref u) k s) = Ok u.
Proof.
  unfold has_slot, find_utxo. cbn [i_ref i_idx]. split.
  - intros (us & -> & ->). reflexivity.
  - destruct (alookup (u_ref u) (by_id reg)) as [us|]; [|discriminate].
    destruct (nth_error us (N.to_nat (u_idx u))) as [[v|]|] eqn:E; try discriminate.
    intros [= ->]. eauto.
Qed.

(* What UpdateUtxos maintains for arbitrary (even adversarial) transaction lists. *)
Record ureg_wf (reg : ureg) : Prop := {
  wf_id_keys : NoDup (map fst (by_id reg));
  wf_addr_keys : NoDup (map fst (by_addr reg));
  wf_slots : forall id us j u,
    alookup id (by_id reg) = Some us -> nth_error us j = Some (Some u) ->
    u_ref u = id /\ u_idx u = N.of_nat j;
  wf_id_len : forall id us,
    alookup id (by_id reg) = Some us -> (0 < length us)%nat /\ N.of_nat (length us) < 65536;
  wf_addr_nonempty : forall a l, alookup a (by_addr reg) = Some l -> l <> [];
  wf_addr_key : forall a u, In u (lookup_l a (by_addr reg)) -> o_addr (u_out u) = a;
  wf_complete : forall id us j u,
    alookup id (by_id reg) = Some us -> nth_error us j = Some (Some u) ->
    In u (lookup_l (o_addr (u_out u)) (by_addr reg))
}.

Theorem ureg_wf_empty : ureg_wf ureg_empty.
Proof.
  constructor; cbn; try (constructor; fail); try discriminate; try tauto.
Qed.

(* ---- add_outputs ---- *)
Definition add_addr (m : list (string * list utxo)) (u : utxo) :=
  aset (o_addr (u_out u)) (lookup_l (o_addr (u_out u)) m ++ [u]) m.

Lemma add_outputs_by_addr reg t ts :
  by_addr (add_outputs reg t ts) =
  fold_left add_addr (mk_utxos (t_id t) ts 0 (outs t)) (by_addr reg).
Proof. reflexivity. Qed.

Lemma fold_add_lookup us m a :
  lookup_l a (fold_left add_addr us m) =
  lookup_l a m ++ filter (fun u => String.eqb (o_addr (u_out u)) a) us.
Proof.
  revert m; induction us as [|u r IH]; intros m; cbn [fold_left filter].
  - now rewrite app_nil_r.
  - rewrite IH. unfold add_addr.
    destruct (String.eqb (o_addr (u_out u)) a) eqn:E.
    + apply String.eqb_eq in E. rewrite E, lookup_l_aset_eq, <- app_assoc. reflexivity.
    + apply String.eqb_neq in E. rewrite lookup_l_aset_neq by exact E. reflexivity.
Qed.

Lemma fold_add_keys_NoDup us m :
  NoDup (map fst m) -> NoDup (map fst (fold_left add_addr us m)).
Proof.
  revert m; induction us as [|u r IH]; intros m H; cbn [fold_left]; [exact H|].
  apply IH. now apply NoDup_keys_aset.
Qed.

Lemma fold_add_nonempty us m :
  (forall a l, alookup a m = Some l -> l <> []) ->
  forall a l, alookup a (fold_left add_addr us m) = Some l -> l <> [].
Proof.
  revert m; induction us as [|u r IH]; intros m H; cbn [fold_left]; [exact H|].
  apply IH. intros a l. unfold add_addr.
  destruct (string_dec (o_addr (u_out u)) a) as [<-|Hn].
  - rewrite alookup_aset_eq. intros [= <-]. intros Hc. apply app_eq_nil in Hc as [_ Hc]. discriminate.
  - rewrite alookup_aset_neq by exact Hn. apply H.
Qed.

Lemma mk_utxos_nth0 id ts l k :
  N.of_nat (length l) < 65536 ->
  nth_error (mk_utxos id ts 0 l) k =
  option_map (fun o => mkUtxo id (N.of_nat k) o ts) (nth_error l k).
Proof.
  intros Hl. rewrite mk_utxos_nth. cbn [Nat.add].
  destruct (nth_error l k) eqn:E; cbn [option_map]; [|reflexivity].
  assert (k < length l)%nat by (apply nth_error_Some; congruence).
  rewrite N.mod_small by lia. reflexivity.
Qed.

Lemma mk_utxos_In0 id ts l u :
  N.of_nat (length l) < 65536 ->
  In u (mk_utxos id ts 0 l) <->
  exists k o, nth_error l k = Some o /\ u = mkUtxo id (N.of_nat k) o ts.
Proof.
  intros Hl. split.
  - intros H. apply In_nth_error in H as [k Hk]. rewrite mk_utxos_nth0 in Hk by exact Hl.
    destruct (nth_error l k) as [o|] eqn:E; [|discriminate]. cbn in Hk. inversion Hk. eauto.
  - intros (k & o & Hk & ->). apply nth_error_In with k. rewrite mk_utxos_nth0, Hk by exact Hl.
    reflexivity.
Qed.

Lemma mk_utxos_NoDup0 id ts l : N.of_nat (length l) < 65536 -> NoDup (mk_utxos id ts 0 l).
Proof.
  intros Hl. apply NoDup_nth_error. intros i j Hi. rewrite mk_utxos_length in Hi.
  rewrite !mk_utxos_nth0 by exact Hl.
  destruct (nth_error l i) as [o|] eqn:Ei; [|apply nth_error_None in Ei; lia].
  destruct (nth_error l j) as [o'|] eqn:Ej; cbn; [|discriminate].
  intros [= H _]. lia.
Qed.

Lemma new_slot id ts l j u :
  N.of_nat (length l) < 65536 ->
  nth_error (map Some (mk_utxos id ts 0 l)) j = Some (Some u) ->
  exists o, nth_error l j = Some o /\ u = mkUtxo id (N.of_nat j) o ts.
Proof.
  intros Hl. rewrite nth_error_map, mk_utxos_nth0 by exact Hl.
  destruct (nth_error l j) as [o|]; cbn; [|discriminate]. intros [= <-]. eauto.
Qed.

Lemma ureg_wf_eta reg : ureg_wf reg -> ureg_wf (mkUreg (by_addr reg) (by_id reg)).
Proof. destruct reg; exact (fun H => H). Qed.

Lemma add_outputs_wf reg t ts :
  ureg_wf reg -> alookup (t_id t) (by_id reg) = None -> N.of_nat (length (outs t)) < 65536 ->
  ureg_wf (add_outputs reg t ts).
Proof.
  intros Hwf Hfresh Hlen.
  destruct (outs t) as [|o0 r0] eqn:Eo.
  { unfold add_outputs. rewrite Eo. cbn. now apply ureg_wf_eta. }
  assert (Ho : outs t <> []) by (rewrite Eo; discriminate). rewrite <- Eo in *. clear Eo o0 r0.
  constructor.
  - rewrite add_outputs_by_id by exact Ho. apply NoDup_keys_aset, Hwf.
  - rewrite add_outputs_by_addr. apply fold_add_keys_NoDup, Hwf.
  - intros id us j u. rewrite add_outputs_by_id by exact Ho.
    destruct (string_dec (t_id t) id) as [<-|Hn].
    + rewrite alookup_aset_eq. intros [= <-] Hj.
      apply new_slot in Hj as (o & _ & ->); [|exact Hlen]. cbn. auto.
    + rewrite alookup_aset_neq by exact Hn. apply Hwf.
  - intros id us. rewrite add_outputs_by_id by exact Ho.
    destruct (string_dec (t_id t) id) as [<-|Hn].
    + rewrite alookup_aset_eq. intros [= <-]. rewrite map_length, mk_utxos_length.
      destruct (outs t); [congruence|cbn in *; lia].
    + rewrite alookup_aset_neq by exact Hn. apply Hwf.
  - rewrite add_outputs_by_addr. apply fold_add_nonempty, Hwf.
  - intros a u. rewrite add_outputs_by_addr, fold_add_lookup, in_app_iff. intros [H|H].
    + now apply Hwf.
    + apply filter_In in H as [_ H]. now apply String.eqb_eq.
  - intros id us j u. rewrite add_outputs_by_id by exact Ho.
    rewrite add_outputs_by_addr, fold_add_lookup, in_app_iff.
    destruct (string_dec (t_id t) id) as [<-|Hn].
    + rewrite alookup_aset_eq. intros [= <-] Hj. right.
      rewrite nth_error_map in Hj.
      destruct (nth_error (mk_utxos (t_id t) ts 0 (outs t)) j) as [v|] eqn:Ev; [|discriminate].
      cbn in Hj. inversion Hj; subst v. apply filter_In. split; [eapply nth_error_In; eauto|].
      apply String.eqb_refl.
    + rewrite alookup_aset_neq by exact Hn. intros H1 H2. left. eapply wf_complete; eauto.
Qed.

(* ---- consume ---- *)
Lemma consume_pred_true i v :
  consume_pred i v = true <-> u_ref v = i_ref i /\ u_idx v = i_idx i.
Proof.
  unfold consume_pred. rewrite andb_true_iff, String.eqb_eq, N.eqb_eq. tauto.
Qed.

Lemma consume_by_addr_lookup (m : list (string * list utxo)) a la a' :
  lookup_l a' (match la with [] => aremove a m | x :: r => aset a (x :: r) m end) =
  if String.eqb a' a then la else lookup_l a' m.
Proof.
  destruct (String.eqb a' a) eqn:E.
  - apply String.eqb_eq in E; subst a'.
    destruct la; [apply lookup_l_aremove_eq|apply lookup_l_aset_eq].
  - apply String.eqb_neq in E.
    destruct la; [apply lookup_l_aremove_neq|apply lookup_l_aset_neq]; congruence.
Qed.

(* utxosByAddress only shrinks when an input is consumed *)
Lemma consume_by_addr_sub reg i reg' a v :
  consume reg i = Ok reg' -> In v (lookup_l a (by_addr reg')) -> In v (lookup_l a (by_addr reg)).
Proof.
  intros H. apply consume_inv in H as (us & u & _ & _ & Haddr & _).
  rewrite Haddr, consume_by_addr_lookup.
  destruct (String.eqb a (o_addr (u_out u))) eqn:E; [|auto].
  apply String.eqb_eq in E; subst a. apply remove_first_In.
Qed.

Lemma consume_wf reg i reg' : ureg_wf reg -> consume reg i = Ok reg' -> ureg_wf reg'.
Proof.
  intros Hwf Hc. pose proof (fun a v => consume_by_addr_sub _ _ _ a v Hc) as Hsub.
  apply consume_inv in Hc as (us & u & Hus & Hn & Haddr & Hid).
  set (n := N.to_nat (i_idx i)) in *.
  set (a := o_addr (u_out u)) in *.
  remember (remove_first (consume_pred i) (lookup_l a (by_addr reg))) as la eqn:Ela.
  assert (Hnlen : (n < length us)%nat) by (apply nth_error_Some; congruence).
  assert (Hlk : forall a', lookup_l a' (by_addr reg') =
                           if String.eqb a' a then la else lookup_l a' (by_addr reg)).
  { intros a'. rewrite Haddr. apply consume_by_addr_lookup. }
  assert (Hlen' : forall id us2, alookup id (by_id reg') = Some us2 ->
            exists us0, alookup id (by_id reg) = Some us0 /\ length us2 = length us0).
  { intros id us2. rewrite Hid. destruct (existsb slot_live (set_nth n None us)).
    - destruct (string_dec (i_ref i) id) as [<-|Hne].
      + rewrite alookup_aset_eq. intros [= <-]. exists us. now rewrite set_nth_length.
      + rewrite alookup_aset_neq by exact Hne. eauto.
    - destruct (string_dec (i_ref i) id) as [<-|Hne].
      + rewrite alookup_aremove_eq. discriminate.
      + rewrite alookup_aremove_neq by exact Hne. eauto. }
  assert (Hslot : forall id us2 j u2,
            alookup id (by_id reg') = Some us2 -> nth_error us2 j = Some (Some u2) ->
            exists us0, alookup id (by_id reg) = Some us0 /\ nth_error us0 j = Some (Some u2) /\
                        (id, j) <> (i_ref i, n)).
  { intros id us2 j u2. rewrite Hid. destruct (existsb slot_live (set_nth n None us)).
    - destruct (string_dec (i_ref i) id) as [<-|Hne].
      + rewrite alookup_aset_eq. intros [= <-] Hj. exists us.
        destruct (Nat.eq_dec n j) as [<-|Hnj].
        * rewrite nth_error_set_nth_eq in Hj by exact Hnlen. discriminate.
        * rewrite nth_error_set_nth_neq in Hj by exact Hnj. repeat split; auto. congruence.
      + rewrite alookup_aset_neq by exact Hne. intros H1 H2. exists us2. repeat split; auto. congruence.
    - destruct (string_dec (i_ref i) id) as [<-|Hne].
      + rewrite alookup_aremove_eq. discriminate.
      + rewrite alookup_aremove_neq by exact Hne. intros H1 H2. exists us2. repeat split; auto. congruence. }
  constructor.
  - rewrite Hid. destruct (existsb slot_live (set_nth n None us));
      [apply NoDup_keys_aset|apply NoDup_keys_aremove]; apply Hwf.
  - rewrite Haddr. destruct la; [apply NoDup_keys_aremove|apply NoDup_keys_aset]; apply Hwf.
  - intros id us2 j u2 H1 H2. destruct (Hslot _ _ _ _ H1 H2) as (us0 & H3 & H4 & _).
    eapply wf_slots; eauto.
  - intros id us2 H1. destruct (Hlen' _ _ H1) as (us0 & H3 & ->). eapply wf_id_len; eauto.
  - intros a' l2. rewrite Haddr. destruct la as [|x la'].
    + destruct (string_dec a a') as [<-|Hne].
      * rewrite alookup_aremove_eq. discriminate.
      * rewrite alookup_aremove_neq by exact Hne. apply Hwf.
    + destruct (string_dec a a') as [<-|Hne].
      * rewrite alookup_aset_eq. intros [= <-]. discriminate.
      * rewrite alookup_aset_neq by exact Hne. apply Hwf.
  - intros a' v Hin. eapply wf_addr_key; eauto.
  - intros id us2 j u2 H1 H2. destruct (Hslot _ _ _ _ H1 H2) as (us0 & H3 & H4 & Hne).
    pose proof (wf_complete _ Hwf _ _ _ _ H3 H4) as Hin.
    destruct (wf_slots _ Hwf _ _ _ _ H3 H4) as [Hr2 Hi2].
    rewrite Hlk. destruct (String.eqb (o_addr (u_out u2)) a) eqn:E; [|exact Hin].
    apply String.eqb_eq in E. rewrite E in Hin. rewrite Ela.
    apply remove_first_keep; [exact Hin|].
    destruct (consume_pred i u2) eqn:Ep; [|reflexivity].
    apply consume_pred_true in Ep as [Ep1 Ep2]. exfalso. apply Hne.
    f_equal; [congruence|]. unfold n. rewrite <- Ep2, Hi2. now rewrite Nat2N.id.
Qed.

Lemma consume_all_wf reg l reg' : ureg_wf reg -> consume_all reg l = Ok reg' -> ureg_wf reg'.
Proof.
  revert reg; induction l as [|i r IH]; intros reg Hwf; cbn [consume_all].
  - now intros [= <-].
  - destruct (consume reg i) as [reg1|e] eqn:E; [|discriminate].
    apply IH. eapply consume_wf; eauto.
Qed.

Lemma mid_reg_wf reg t ts rec :
  ureg_wf reg -> alookup (t_id t) (by_id reg) = None -> N.of_nat (length (outs t)) < 65536 ->
  ureg_wf (mid_reg reg t ts rec).
Proof. intros. destruct rec; cbn [mid_reg]; [now apply add_outputs_wf|assumption]. Qed.

Theorem apply_tx_wf reg t ts reg' :
  ureg_wf reg -> N.of_nat (length (outs t)) < 65536 -> apply_tx reg t ts = Ok reg' -> ureg_wf reg'.
Proof.
  intros Hwf Hlen H. apply apply_tx_inv in H as (Hf & _ & rec & _ & Hc).
  eapply consume_all_wf; [|exact Hc]. now apply mid_reg_wf.
Qed.

Theorem apply_txs_wf reg l ts reg' :
  ureg_wf reg -> (forall t, In t l -> N.of_nat (length (outs t)) < 65536) ->
  apply_txs reg l ts = Ok reg' -> ureg_wf reg'.
Proof.
  revert reg; induction l as [|t r IH]; intros reg Hwf Hlen; cbn [apply_txs].
  - now intros [= <-].
  - destruct (apply_tx reg t ts) as [reg1|e] eqn:E; [|discriminate].
    apply IH; [|intros t' Ht'; apply Hlen; now right].
    eapply apply_tx_wf; eauto. apply Hlen. now left.
Qed.

Theorem update_utxos_wf reg l ts reg' :
  ureg_wf reg -> (forall t, In t l -> N.of_nat (length (outs t)) < 65536) ->
  update_utxos reg l ts = Ok reg' -> ureg_wf reg'.
Proof.
  intros Hwf Hlen H. apply update_utxos_all_or_nothing in H as [H _]. eapply apply_txs_wf; eauto.
Qed.

(* a spendable output is listed under its address *)
Theorem spendable_listed reg i u :
  ureg_wf reg -> find_utxo reg i = Ok u ->
  u_ref u = i_ref i /\ u_idx u = i_idx i /\ In u (utxos_of reg (o_addr (u_out u))).
Proof.
  intros Hwf. unfold find_utxo.
  destruct (alookup (i_ref i) (by_id reg)) as [us|] eqn:Eus; [|discriminate].
  destruct (nth_error us (N.to_nat (i_idx i))) as [[v|]|] eqn:En; try discriminate.
  intros [= ->]. destruct (wf_slots _ Hwf _ _ _ _ Eus En) as [H1 H2].
  split; [exact H1|]. split; [rewrite H2; apply N2Nat.id|].
  unfold utxos_of. eapply wf_complete; eauto.
Qed.

(* ------------------------------------------------------------------------- *)
(* 2b. agreement of Utxos(address) with the spendable set                     *)
(* ------------------------------------------------------------------------- *)
(* utxosByAddress may keep "dead" (zero-valued, non-yielding) outputs whose id entry was
   deleted (utxos_registry.go:134-136 deletes the id but not the address entries), so the
   two maps agree on live outputs only. The agreement is kept as long as a transaction id
   that comes back after its entry was deleted comes with the same outputs ([tx_compat]). *)
Record ureg_sound (reg : ureg) : Prop := {
  snd_wf : ureg_wf reg;
  snd_slot : forall a u, In u (lookup_l a (by_addr reg)) -> has_slot reg u \/ live_u u = false;
  snd_coh : forall a a' u v,
    In u (lookup_l a (by_addr reg)) -> In v (lookup_l a' (by_addr reg)) ->
    u_ref u = u_ref v -> u_idx u = u_idx v -> u_out u = u_out v;
  snd_live_nodup : forall a, NoDup (filter live_u (lookup_l a (by_addr reg)))
}.

Theorem ureg_sound_empty : ureg_sound ureg_empty.
Proof.
  constructor; [exact ureg_wf_empty| | |]; cbn; try tauto. intros _. constructor.
Qed.

Definition tx_compat (reg : ureg) (t : tx) : Prop :=
  forall a u, In u (lookup_l a (by_addr reg)) -> u_ref u = t_id t ->
              nth_error (outs t) (N.to_nat (u_idx u)) = Some (u_out u).

Lemma add_outputs_sound reg t ts :
  ureg_sound reg -> alookup (t_id t) (by_id reg) = None -> N.of_nat (length (outs t)) < 65536 ->
  tx_compat reg t -> ureg_sound (add_outputs reg t ts).
Proof.
  intros Hs Hfresh Hlen Hcompat. pose proof (snd_wf _ Hs) as Hwf.
  destruct (outs t) as [|o0 r0] eqn:Eo.
  { unfold add_outputs. rewrite Eo. cbn. destruct reg; exact Hs. }
  assert (Ho : outs t <> []) by (rewrite Eo; discriminate). rewrite <- Eo in *. clear Eo o0 r0.
  assert (Hnew : forall v, In v (mk_utxos (t_id t) ts 0 (outs t)) ->
                           has_slot (add_outputs reg t ts) v).
  { intros v Hv. apply mk_utxos_In0 in Hv as (k & o & Hk & ->); [|exact Hlen].
    exists (map Some (mk_utxos (t_id t) ts 0 (outs t))). cbn [u_ref u_idx].
    rewrite add_outputs_by_id by exact Ho. split; [apply alookup_aset_eq|].
    rewrite Nat2N.id, nth_error_map, mk_utxos_nth0, Hk by exact Hlen. reflexivity. }
  assert (Hold : forall a v, In v (lookup_l a (by_addr reg)) -> live_u v = true ->
                             u_ref v <> t_id t).
  { intros a v Hv Hl Hc. destruct (snd_slot _ Hs _ _ Hv) as [(us & H1 & _)|H]; [|congruence].
    rewrite Hc in H1. congruence. }
  constructor.
  - now apply add_outputs_wf.
  - intros a v. rewrite add_outputs_by_addr, fold_add_lookup, in_app_iff. intros [H|H].
    + destruct (snd_slot _ Hs _ _ H) as [(us & H1 & H2)|Hd]; [left|now right].
      exists us. split; [|exact H2]. rewrite add_outputs_by_id by exact Ho.
      rewrite alookup_aset_neq; [exact H1|]. intros Hc. rewrite <- Hc in H1. congruence.
    + left. apply filter_In in H as [H _]. now apply Hnew.
  - intros a a' u v. rewrite !add_outputs_by_addr, !fold_add_lookup, !in_app_iff.
    intros [Hu|Hu] [Hv|Hv] Hr Hi.
    + eapply snd_coh; eauto.
    + apply filter_In in Hv as [Hv _]. apply mk_utxos_In0 in Hv as (k & o & Hk & ->); [|exact Hlen].
      cbn [u_ref u_idx u_out] in *. specialize (Hcompat _ _ Hu Hr).
      rewrite Hi, Nat2N.id in Hcompat. congruence.
    + apply filter_In in Hu as [Hu _]. apply mk_utxos_In0 in Hu as (k & o & Hk & ->); [|exact Hlen].
      cbn [u_ref u_idx u_out] in *. specialize (Hcompat _ _ Hv (eq_sym Hr)).
      rewrite <- Hi, Nat2N.id in Hcompat. congruence.
    + apply filter_In in Hu as [Hu _]. apply mk_utxos_In0 in Hu as (k & o & Hk & ->); [|exact Hlen].
      apply filter_In in Hv as [Hv _]. apply mk_utxos_In0 in Hv as (k' & o' & Hk' & ->); [|exact Hlen].
      cbn [u_ref u_idx u_out] in *. apply Nat2N.inj in Hi. subst k'. congruence.
  - intros a. rewrite add_outputs_by_addr, fold_add_lookup, filter_app.
    apply NoDup_app_intro.
    + apply Hs.
    + apply NoDup_filter, NoDup_filter, mk_utxos_NoDup0, Hlen.
    + intros v H1 H2. apply filter_In in H1 as [H1 Hl]. apply filter_In in H2 as [H2 _].
      apply filter_In in H2 as [H2 _]. apply mk_utxos_In0 in H2 as (k & o & Hk & ->); [|exact Hlen].
      apply (Hold _ _ H1 Hl). reflexivity.
Qed.

Lemma consume_sound reg i reg' : ureg_sound reg -> consume reg i = Ok reg' -> ureg_sound reg'.
Proof.
  intros Hs Hc. pose proof (snd_wf _ Hs) as Hwf.
  pose proof (fun a v => consume_by_addr_sub _ _ _ a v Hc) as Hsub.
  pose proof (consume_wf _ _ _ Hwf Hc) as Hwf'.
  apply consume_inv in Hc as (us & u & Hus & Hn & Haddr & Hid).
  set (n := N.to_nat (i_idx i)) in *.
  set (a := o_addr (u_out u)) in *.
  remember (remove_first (consume_pred i) (lookup_l a (by_addr reg))) as la eqn:Ela.
  assert (Hlk : forall a', lookup_l a' (by_addr reg') =
                           if String.eqb a' a then la else lookup_l a' (by_addr reg)).
  { intros a'. rewrite Haddr. apply consume_by_addr_lookup. }
  destruct (wf_slots _ Hwf _ _ _ _ Hus Hn) as [Hur Hui].
  assert (Hui' : u_idx u = i_idx i) by (rewrite Hui; unfold n; apply N2Nat.id).
  pose proof (wf_complete _ Hwf _ _ _ _ Hus Hn) as Hu_in. fold a in Hu_in.
  constructor.
  - exact Hwf'.
  - intros a' v Hin. pose proof (Hsub _ _ Hin) as Hold.
    destruct (snd_slot _ Hs _ _ Hold) as [(us_v & Hv1 & Hv2)|Hd]; [|now right].
    destruct (string_dec (u_ref v) (i_ref i)) as [Er|Er].
    + assert (us_v = us) by congruence. subst us_v.
      destruct (N.eq_dec (u_idx v) (i_idx i)) as [Ei|Ei].
      * (* v is the consumed output itself, still listed: only possible when it is dead *)
        assert (v = u) by (rewrite Ei in Hv2; fold n in Hv2; congruence). subst v.
        destruct (live_u u) eqn:El; [exfalso|now right].
        assert (a' = a) by (symmetry; eapply wf_addr_key; eauto). subst a'.
        rewrite Hlk, String.eqb_refl, Ela in Hin. revert Hin.
        apply remove_first_gone with (f := live_u);
          [|apply Hs|exact El|apply consume_pred_true; auto].
        intros w Hw Hp. apply consume_pred_true in Hp as [Hp1 Hp2].
        assert (Ho : u_out w = u_out u) by (eapply snd_coh; eauto; congruence).
        destruct (snd_slot _ Hs _ _ Hw) as [(us_w & Hw1 & Hw2)|Hd].
        -- rewrite Hp1, Hus in Hw1. inversion Hw1; subst us_w.
           rewrite Hp2 in Hw2. fold n in Hw2. congruence.
        -- unfold live_u in *. rewrite Ho in Hd. congruence.
      * assert (Hm : n <> N.to_nat (u_idx v)).
        { unfold n. intros Hc. apply N2Nat.inj in Hc. congruence. }
        destruct (existsb slot_live (set_nth n None us)) eqn:Ex.
        -- left. exists (set_nth n None us). rewrite Hid, Er, alookup_aset_eq.
           split; [reflexivity|]. now rewrite nth_error_set_nth_neq.
        -- right. rewrite <- slot_live_Some. eapply existsb_false_nth; [exact Ex|].
           rewrite nth_error_set_nth_neq; eauto.
    + left. exists us_v. split; [|exact Hv2]. rewrite Hid.
      destruct (existsb slot_live (set_nth n None us)).
      * rewrite alookup_aset_neq; [exact Hv1|congruence].
      * rewrite alookup_aremove_neq; [exact Hv1|congruence].
  - intros a1 a2 v w Hv Hw. eapply snd_coh; eauto.
  - intros a'. rewrite Hlk. destruct (String.eqb a' a); [|apply Hs].
    rewrite Ela. apply remove_first_filter_NoDup, Hs.
Qed.

Lemma consume_all_sound reg l reg' :
  ureg_sound reg -> consume_all reg l = Ok reg' -> ureg_sound reg'.
Proof.
  revert reg; induction l as [|i r IH]; intros reg Hs; cbn [consume_all].
  - now intros [= <-].
  - destruct (consume reg i) as [reg1|e] eqn:E; [|discriminate].
    apply IH. eapply consume_sound; eauto.
Qed.

Theorem apply_tx_sound reg t ts reg' :
  ureg_sound reg -> N.of_nat (length (outs t)) < 65536 -> tx_compat reg t ->
  apply_tx reg t ts = Ok reg' -> ureg_sound reg'.
Proof.
  intros Hs Hlen Hcp H. apply apply_tx_inv in H as (Hf & _ & rec & _ & Hc).
  eapply consume_all_sound; [|exact Hc].
  destruct rec; cbn [mid_reg]; [now apply add_outputs_sound|exact Hs].
Qed.

(* what apply_tx can leave in utxosByAddress *)
Lemma consume_all_by_addr_sub reg l reg' a v :
  consume_all reg l = Ok reg' -> In v (lookup_l a (by_addr reg')) -> In v (lookup_l a (by_addr reg)).
Proof.
  revert reg; induction l as [|i r IH]; intros reg; cbn [consume_all].
  - now intros [= <-].
  - destruct (consume reg i) as [reg1|e] eqn:E; [|discriminate]. intros Hr Hin.
    eapply consume_by_addr_sub; eauto.
Qed.

Lemma apply_tx_by_addr_sub reg t ts reg' a v :
  apply_tx reg t ts = Ok reg' -> In v (lookup_l a (by_addr reg')) ->
  In v (lookup_l a (by_addr reg)) \/ In v (mk_utxos (t_id t) ts 0 (outs t)).
Proof.
  intros H Hin. apply apply_tx_inv in H as (_ & _ & rec & _ & Hc).
  apply (consume_all_by_addr_sub _ _ _ _ _ Hc) in Hin.
  destruct rec; cbn [mid_reg] in Hin; [|now left].
  rewrite add_outputs_by_addr, fold_add_lookup, in_app_iff in Hin.
  destruct Hin as [H|H]; [now left|right]. now apply filter_In in H.
Qed.

(* static condition on a list: compatible with what the registry lists, and equal ids carry
   equal outputs *)
Definition txs_compat (reg : ureg) (l : list tx) : Prop :=
  (forall t, In t l -> tx_compat reg t) /\
  (forall t t', In t l -> In t' l -> t_id t = t_id t' -> outs t = outs t').

Lemma txs_compat_step reg t r ts reg1 :
  txs_compat reg (t :: r) -> N.of_nat (length (outs t)) < 65536 ->
  apply_tx reg t ts = Ok reg1 -> txs_compat reg1 r.
Proof.
  intros [Hc Hsame] Hlen Et. split.
  - intros t' Ht' a v Hv Hr.
    destruct (apply_tx_by_addr_sub _ _ _ _ _ _ Et Hv) as [H|H].
    + apply (Hc t' (or_intror Ht') _ _ H Hr).
    + apply mk_utxos_In0 in H as (k & o & Hk & ->); [|exact Hlen]. cbn [u_ref u_idx u_out] in *.
      rewrite Nat2N.id. rewrite <- (Hsame t t'); [exact Hk|now left|now right|exact Hr].
  - intros t1 t2 H1 H2. apply Hsame; now right.
Qed.

Theorem apply_txs_sound reg l ts reg' :
  ureg_sound reg -> (forall t, In t l -> N.of_nat (length (outs t)) < 65536) ->
  txs_compat reg l -> apply_txs reg l ts = Ok reg' -> ureg_sound reg'.
Proof.
  revert reg; induction l as [|t r IH]; intros reg Hs Hlen Hcp; cbn [apply_txs].
  - now intros [= <-].
  - destruct (apply_tx reg t ts) as [reg1|e] eqn:E; [|discriminate].
    assert (Hl : N.of_nat (length (outs t)) < 65536) by (apply Hlen; now left).
    apply IH.
    + eapply apply_tx_sound; eauto. apply Hcp. now left.
    + intros t' Ht'. apply Hlen. now right.
    + eapply txs_compat_step; eauto.
Qed.

Theorem update_utxos_sound reg l ts reg' :
  ureg_sound reg -> (forall t, In t l -> N.of_nat (length (outs t)) < 65536) ->
  txs_compat reg l -> update_utxos reg l ts = Ok reg' -> ureg_sound reg'.
Proof.
  intros Hs Hlen Hcp H. apply update_utxos_all_or_nothing in H as [H _]. eapply apply_txs_sound; eauto.
Qed.

(* a sufficient condition for txs_compat: ids never seen by utxosByAddress, pairwise distinct *)
Lemma NoDup_map_inj_in {A B} (f : A -> B) l x y :
  NoDup (map f l) -> In x l -> In y l -> f x = f y -> x = y.
Proof.
  induction l as [|z r IH]; cbn; [tauto|]. intros Hnd Hx Hy He.
  inversion Hnd as [|? ? Hni Hr]; subst.
  destruct Hx as [->|Hx], Hy as [->|Hy]; auto.
  - exfalso. apply Hni. rewrite He. now apply in_map.
  - exfalso. apply Hni. rewrite <- He. now apply in_map.
Qed.

Definition ids_unseen (reg : ureg) (l : list tx) : Prop :=
  NoDup (map t_id l) /\
  forall t a u, In t l -> In u (lookup_l a (by_addr reg)) -> u_ref u <> t_id t.

Lemma ids_unseen_compat reg l : ids_unseen reg l -> txs_compat reg l.
Proof.
  intros [Hnd Hu]. split.
  - intros t Ht a u Hin Hr. exfalso. eapply Hu; eauto.
  - intros t t' Ht Ht' He. now rewrite (NoDup_map_inj_in _ _ _ _ Hnd Ht Ht' He).
Qed.

(* Utxos(address) lists exactly the live spendable outputs of the address, plus dead ones *)
Theorem utxos_of_live_iff reg a u k s :
  ureg_sound reg -> live_u u = true ->
  (In u (utxos_of reg a) <->
   o_addr (u_out u) = a /\ find_utxo reg (mkInput (u_idx u) (u_ref u) k s) = Ok u).
Proof.
  intros Hs Hl. pose proof (snd_wf _ Hs) as Hwf. unfold utxos_of. split.
  - intros Hin. split; [eapply wf_addr_key; eauto|].
    apply has_slot_find. destruct (snd_slot _ Hs _ _ Hin); [assumption|congruence].
  - intros [<- Hf]. apply (spendable_listed _ _ _ Hwf Hf).
Qed.

Theorem utxos_of_dead_or_spendable reg a u k s :
  ureg_sound reg -> In u (utxos_of reg a) ->
  o_addr (u_out u) = a /\
  (find_utxo reg (mkInput (u_idx u) (u_ref u) k s) = Ok u \/
   (o_val (u_out u) = 0 /\ o_yield (u_out u) = false)).
Proof.
  intros Hs Hin. pose proof (snd_wf _ Hs) as Hwf. unfold utxos_of in Hin.
  split; [eapply wf_addr_key; eauto|].
  destruct (snd_slot _ Hs _ _ Hin) as [H|H]; [left; now apply has_slot_find|right].
  unfold live_u in H. apply orb_false_iff in H as [H1 H2]. split; [lia|exact H2].
Qed.

(* a consumed live output disappears from Utxos(address) *)
Theorem consume_unlists reg i reg' u :
  ureg_sound reg -> consume reg i = Ok reg' -> find_utxo reg i = Ok u -> live_u u = true ->
  forall a, ~ In u (utxos_of reg' a).
Proof.
  intros Hs Hc Hf Hl a Hin. pose proof (consume_sound _ _ _ Hs Hc) as Hs'.
  destruct (spendable_listed _ _ _ (snd_wf _ Hs) Hf) as (Hr & Hi & _).
  apply (utxos_of_live_iff _ _ _ (i_key i) (i_sig i) Hs' Hl) in Hin as [_ Hin].
  apply consume_removes in Hc as [Hc _].
  rewrite (find_utxo_ext reg' i) in Hin by (unfold iref; cbn; congruence).
  destruct Hc; congruence.
Qed.

(* ------------------------------------------------------------------------- *)
(* 6. witnesses: statements that are false of the model (and why hypotheses are there) *)
(* ------------------------------------------------------------------------- *)
Definition w_in (k : N) (r : string) : input := mkInput k r EmptyString EmptyString.
Definition w_X : tx := mkTx "X"%string None (Some [mkOutput "A"%string false 5]) 0.
Definition w_Y : tx := mkTx "Y"%string (Some [w_in 0 "X"%string]) (Some [mkOutput "B"%string false 5]) 0.
Definition w_Z : tx := mkTx "Z"%string (Some [w_in 0 "X"%string]) (Some [mkOutput "B"%string false 5]) 0.

Lemma not_NoDup_twice {A} (x : A) : ~ NoDup [x; x].
Proof. intros H. inversion H as [|? ? Hni _]. apply Hni. now left. Qed.

(* Full statement asked for (FALSE without [ids_fresh]):
     ureg_wf reg -> apply_txs reg l ts = Ok reg' -> NoDup (consumed l).
   Once every slot of an id is consumed the id entry is deleted (utxos_registry.go:134-136),
   the duplicate-id test (line 98-101) no longer sees it, the same transaction is recorded
   again and its output is spent a second time. *)
Theorem apply_txs_no_double_spend_refuted :
  exists l ts reg',
    ureg_wf ureg_empty /\
    (forall t, In t l -> outs t <> [] /\ N.of_nat (length (outs t)) < 65536) /\
    update_utxos ureg_empty l ts = Ok reg' /\ apply_txs ureg_empty l ts = Ok reg' /\
    ~ NoDup (consumed l).
Proof.
  exists [w_X; w_Y; w_X; w_Z], 0%Z.
  eexists. split; [exact ureg_wf_empty|]. split; [|split; [vm_compute; reflexivity|split]].
  - intros t [<-|[<-|[<-|[<-|[]]]]]; (split; [discriminate|vm_compute; reflexivity]).
  - vm_compute; reflexivity.
  - vm_compute. apply not_NoDup_twice.
Qed.

(* the same across two calls of UpdateUtxos (two blocks): each list satisfies [ids_fresh] for the
   registry it is applied to, and the reference ("X",0) is consumed in both *)
Theorem spent_id_replay_witness :
  exists ts reg1 reg2,
    update_utxos ureg_empty [w_X; w_Y] ts = Ok reg1 /\ ids_fresh ureg_empty [w_X; w_Y] /\
    update_utxos reg1 [w_X; w_Z] ts = Ok reg2 /\ ids_fresh reg1 [w_X; w_Z] /\
    In (iref (w_in 0 "X"%string)) (consumed [w_X; w_Y]) /\
    In (iref (w_in 0 "X"%string)) (consumed [w_X; w_Z]).
Proof.
  exists 0%Z. eexists. eexists.
  split; [vm_compute; reflexivity|]. split.
  { split; [|intros t [<-|[<-|[]]]; reflexivity].
    cbn. constructor; [intros [H|[]]; discriminate|constructor; [intros []|constructor]]. }
  split; [vm_compute; reflexivity|]. split.
  { split; [|intros t [<-|[<-|[]]]; reflexivity].
    cbn. constructor; [intros [H|[]]; discriminate|constructor; [intros []|constructor]]. }
  split; vm_compute; auto.
Qed.

(* Clause (c) as an equivalence (In u (lookup_l a by_addr) <-> slot of by_id holds u) is FALSE of
   the code even with pairwise distinct fresh ids: a zero-valued non-yielding output stays in
   utxosByAddress after its id entry was deleted. *)
Definition w_X2 : tx :=
  mkTx "X"%string None (Some [mkOutput "A"%string false 0; mkOutput "B"%string false 5]) 0.
Definition w_Y2 : tx := mkTx "Y"%string (Some [w_in 1 "X"%string]) (Some [mkOutput "C"%string false 5]) 0.

Theorem by_addr_iff_by_id_refuted :
  exists l ts reg' a u,
    ids_fresh ureg_empty l /\ ids_unseen ureg_empty l /\
    update_utxos ureg_empty l ts = Ok reg' /\ ureg_sound reg' /\
    In u (utxos_of reg' a) /\
    find_utxo reg' (w_in (u_idx u) (u_ref u)) = Err EUnknownId.
Proof.
  exists [w_X2; w_Y2], 0%Z. eexists. exists "A"%string, (mkUtxo "X"%string 0 (mkOutput "A"%string false 0) 0).
  assert (Hnd : NoDup (map t_id [w_X2; w_Y2])).
  { cbn. constructor; [intros [H|[]]; discriminate|constructor; [intros []|constructor]]. }
  assert (Hu : ids_unseen ureg_empty [w_X2; w_Y2]) by (split; [exact Hnd|intros t a u _ []]).
  assert (Hup : update_utxos ureg_empty [w_X2; w_Y2] 0 =
                Ok (mkUreg [("A"%string, [mkUtxo "X"%string 0 (mkOutput "A"%string false 0) 0]);
                            ("C"%string, [mkUtxo "Y"%string 0 (mkOutput "C"%string false 5) 0])]
                           [("Y"%string, [Some (mkUtxo "Y"%string 0 (mkOutput "C"%string false 5) 0)])]))
    by (vm_compute; reflexivity).
  split; [split; [exact Hnd|intros t _; reflexivity]|]. split; [exact Hu|].
  split; [exact Hup|]. split.
  - eapply update_utxos_sound; [exact ureg_sound_empty| |apply ids_unseen_compat; exact Hu|exact Hup].
    intros t [<-|[<-|[]]]; vm_compute; reflexivity.
  - split; [vm_compute; auto|vm_compute; reflexivity].
Qed.

(* Without [tx_compat] even a LIVE output can stay listed by Utxos(address) after it was spent:
   the id "X" comes back with different outputs after its entry was deleted, and removeUtxo
   (utxos_registry.go:171-179) removes the stale entry with the same (id, index) instead. *)
Definition w_X3 : tx := mkTx "X"%string None (Some [mkOutput "A"%string false 5]) 0.
Definition w_Z3 : tx := mkTx "Z"%string (Some [w_in 0 "X"%string]) (Some [mkOutput "D"%string false 5]) 0.

Theorem spent_live_output_still_listed_witness :
  exists l ts reg' u,
    (forall t, In t l -> outs t <> [] /\ N.of_nat (length (outs t)) < 65536) /\
    update_utxos ureg_empty l ts = Ok reg' /\ ureg_wf reg' /\
    In (iref (w_in (u_idx u) (u_ref u))) (consumed l) /\
    live_u u = true /\ In u (utxos_of reg' "A"%string) /\
    find_utxo reg' (w_in (u_idx u) (u_ref u)) = Err EUnknownId /\ ~ ureg_sound reg'.
Proof.
  exists [w_X2; w_Y2; w_X3; w_Z3], 0%Z. eexists.
  exists (mkUtxo "X"%string 0 (mkOutput "A"%string false 5) 0).
  assert (Hlen : forall t, In t [w_X2; w_Y2; w_X3; w_Z3] ->
                           outs t <> [] /\ N.of_nat (length (outs t)) < 65536).
  { intros t [<-|[<-|[<-|[<-|[]]]]]; (split; [discriminate|vm_compute; reflexivity]). }
  assert (Hup : update_utxos ureg_empty [w_X2; w_Y2; w_X3; w_Z3] 0 =
                Ok (mkUreg [("A"%string, [mkUtxo "X"%string 0 (mkOutput "A"%string false 5) 0]);
                            ("C"%string, [mkUtxo "Y"%string 0 (mkOutput "C"%string false 5) 0]);
                            ("D"%string, [mkUtxo "Z"%string 0 (mkOutput "D"%string false 5) 0])]
                           [("Y"%string, [Some (mkUtxo "Y"%string 0 (mkOutput "C"%string false 5) 0)]);
                            ("Z"%string, [Some (mkUtxo "Z"%string 0 (mkOutput "D"%string false 5) 0)])]))
    by (vm_compute; reflexivity).
  split; [exact Hlen|]. split; [exact Hup|]. split.
  { eapply update_utxos_wf; [exact ureg_wf_empty| |exact Hup]. intros t Ht. now apply Hlen. }
  split; [vm_compute; auto|]. split; [reflexivity|]. split; [vm_compute; auto|].
  split; [vm_compute; reflexivity|].
  intros Hs.
  destruct (snd_slot _ Hs "A"%string (mkUtxo "X"%string 0 (mkOutput "A"%string false 5) 0))
    as [(us & H1 & _)|H]; [vm_compute; auto|vm_compute in H1; discriminate|vm_compute in H; discriminate].
Qed.

(* the hypotheses of the positive theorems are satisfiable on a non-trivial list *)
Example ids_fresh_example :
  ids_fresh ureg_empty [w_X2; w_Y2] /\ txs_compat ureg_empty [w_X2; w_Y2] /\
  exists reg', update_utxos ureg_empty [w_X2; w_Y2] 0 = Ok reg' /\ consumed [w_X2; w_Y2] <> [].
Proof.
  assert (Hnd : NoDup (map t_id [w_X2; w_Y2])).
  { cbn. constructor; [intros [H|[]]; discriminate|constructor; [intros []|constructor]]. }
  split; [split; [exact Hnd|intros t _; reflexivity]|]. split.
  - apply ids_unseen_compat. split; [exact Hnd|intros t a u _ []].
  - eexists. split; [vm_compute; reflexivity|discriminate].
Qed.

(* ------------------------------------------------------------------------- *)
(* 7. the unconditional form of "no double spend" on a list                   *)
(* ------------------------------------------------------------------------- *)
Lemma apply_txs_app reg l1 l2 ts reg' :
  apply_txs reg (l1 ++ l2) ts = Ok reg' ->
  exists reg1, apply_txs reg l1 ts = Ok reg1 /\ apply_txs reg1 l2 ts = Ok reg'.
Proof.
  revert reg; induction l1 as [|t r IH]; intros reg; cbn [apply_txs app].
  - eauto.
  - destruct (apply_tx reg t ts) as [reg1|e]; [apply IH|discriminate].
Qed.

(* If the list succeeds and two inputs (of different transactions of the list) name the same
   output, then a transaction whose id is that reference was recorded after the first consumer,
   at the latest as the second consumer itself: the output was created anew in between.
   No hypothesis on ids. *)
Theorem apply_txs_respend_needs_recreation reg ts reg' l1 t1 l2 t2 l3 i1 i2 :
  apply_txs reg (l1 ++ t1 :: l2 ++ t2 :: l3) ts = Ok reg' ->
  In i1 (ins t1) -> In i2 (ins t2) -> iref i2 = iref i1 ->
  exists t', In t' (l2 ++ [t2]) /\ t_id t' = i_ref i1 /\
             (N.to_nat (i_idx i1) < length (outs t'))%nat.
Proof.
  intros H Hi1 Hi2 Hq. apply apply_txs_app in H as (rega & _ & H). cbn [apply_txs] in H.
  destruct (apply_tx rega t1 ts) as [regb|e] eqn:Et; [|discriminate].
  destruct (apply_tx_inputs_spent _ _ _ _ Et _ Hi1) as [e He].
  destruct (apply_txs_consumed_origin _ _ _ _ H l2 t2 l3 eq_refl i2 Hi2)
    as [[u Hu]|(t' & Hin & H1 & H2)].
  - rewrite (find_utxo_ext _ _ _ Hq) in Hu. congruence.
  - exists t'. unfold iref in Hq. injection Hq as Hr Hx.
    split; [exact Hin|]. split; [congruence|]. rewrite <- Hx. exact H2.
Qed.
