(* Neighborhood_lemmas.v — proofs about model/Neighborhood.v (property C17). *)
From RV Require Import model.Base model.Neighborhood.
From Coq Require Import Lia ZArith NArith Permutation FinFun.
Local Open Scope Z_scope.

(* ------------------------------------------------------------------ *)
(* association lists                                                   *)
(* ------------------------------------------------------------------ *)
Lemma alookup_aset_same {V} k (v : V) m : alookup k (aset k v m) = Some v.
Proof.
  induction m as [|[k' v'] m IH]; simpl.
  - rewrite String.eqb_refl. reflexivity.
  - destruct (String.eqb k k') eqn:E; simpl.
    + rewrite String.eqb_refl. reflexivity.
    + rewrite E. exact IH.
Qed.

Lemma alookup_aset_other {V} k k' (v : V) m : k <> k' -> alookup k (aset k' v m) = alookup k m.
Proof.
  intros Hn. induction m as [|[k2 v2] m IH]; simpl.
  - destruct (String.eqb k k') eqn:E; [apply String.eqb_eq in E; contradiction|reflexivity].
  - destruct (String.eqb k' k2) eqn:E2; simpl.
    + apply String.eqb_eq in E2. subst k2.
      destruct (String.eqb k k') eqn:E; [apply String.eqb_eq in E; contradiction|reflexivity].
    + destruct (String.eqb k k2) eqn:E3; [reflexivity|exact IH].
Qed.

Lemma alookup_keys {V} k (m : list (string * V)) :
  In k (map fst m) <-> alookup k m <> None.
Proof.
  induction m as [|[k' v'] m IH]; simpl.
  - split; [intros []|intros H; apply H; reflexivity].
  - destruct (String.eqb k k') eqn:E.
    + apply String.eqb_eq in E. subst k'. split; [intros _; discriminate|intros _; left; reflexivity].
    + apply String.eqb_neq in E. rewrite <- IH. split.
      * intros [H|H]; [congruence|exact H].
      * intros H. right. exact H.
Qed.

Lemma alookup_Some_key {V} k (v : V) m : alookup k m = Some v -> In k (map fst m).
Proof. intros H. apply alookup_keys. rewrite H. discriminate. Qed.

Lemma keys_aset_in {V} k (v : V) m x :
  In x (map fst (aset k v m)) -> x = k \/ In x (map fst m).
Proof.
  induction m as [|[k' v'] m IH]; simpl.
  - intros [H|[]]. left. symmetry. exact H.
  - destruct (String.eqb k k') eqn:E; simpl.
    + apply String.eqb_eq in E. subst k'. intros [H|H]; [left; symmetry; exact H|right; right; exact H].
    + intros [H|H]; [right; left; exact H|].
      destruct (IH H) as [H1|H1]; [left; exact H1|right; right; exact H1].
Qed.

Lemma aset_nodup {V} k (v : V) m : NoDup (map fst m) -> NoDup (map fst (aset k v m)).
Proof.
  induction m as [|[k' v'] m IH]; simpl; intros Hnd.
  - constructor; [intros []|constructor].
  - inversion Hnd as [|x l Hnin Hnd']; subst.
    destruct (String.eqb k k') eqn:E; simpl.
    + apply String.eqb_eq in E. subst k'. constructor; assumption.
    + apply String.eqb_neq in E. constructor; [|apply IH; exact Hnd'].
      intros Hin. apply keys_aset_in in Hin. destruct Hin as [H|H]; [congruence|contradiction].
Qed.

Lemma mem_str_In a l : mem_str a l = true <-> In a l.
Proof.
  induction l as [|x l IH]; simpl.
  - split; [discriminate|intros []].
  - destruct (String.eqb a x) eqn:E.
    + apply String.eqb_eq in E. subst x. split; [intros _; left; reflexivity|reflexivity].
    + apply String.eqb_neq in E. rewrite IH. split; [intros H; right; exact H|].
      intros [H|H]; [congruence|exact H].
Qed.

(* ------------------------------------------------------------------ *)
(* generic list facts                                                  *)
(* ------------------------------------------------------------------ *)
Lemma zlen_app {A} (a b : list A) : zlen (a ++ b) = zlen a + zlen b.
Proof. unfold zlen. rewrite app_length. lia. Qed.

Lemma zlen_nonneg {A} (a : list A) : 0 <= zlen a.
Proof. unfold zlen. lia. Qed.

Lemma In_firstn {A} n (l : list A) x : In x (firstn n l) -> In x l.
Proof.
  intros H. rewrite <- (firstn_skipn n l). apply in_or_app. left. exact H.
Qed.

Lemma NoDup_app_l {A} (l l' : list A) : NoDup (l ++ l') -> NoDup l.
Proof.
  induction l as [|x l IH]; simpl; intros H; [constructor|].
  inversion H as [|y t Hnin Hnd]; subst. constructor.
  - intros Hin. apply Hnin. apply in_or_app. left. exact Hin.
  - apply IH. exact Hnd.
Qed.

Lemma flat_map_ext_in {A B} (f g : A -> list B) l :
  (forall a, In a l -> f a = g a) -> flat_map f l = flat_map g l.
Proof.
  induction l as [|x l IH]; simpl; intros H; [reflexivity|].
  rewrite (H x) by (left; reflexivity). rewrite IH; [reflexivity|].
  intros a Ha. apply H. right. exact Ha.
Qed.

(* NoDup transported along a function that is determined by another one on the list *)
Lemma NoDup_map_transport {A B C} (f : A -> B) (g : A -> C) l :
  NoDup (map f l) ->
  (forall x y, In x l -> In y l -> g x = g y -> f x = f y) ->
  NoDup (map g l).
Proof.
  induction l as [|a l IH]; simpl; intros Hnd Hinj; [constructor|].
  inversion Hnd as [|x t Hnin Hnd']; subst. constructor.
  - intros Hin. apply in_map_iff in Hin. destruct Hin as [b [Hb Hbl]].
    apply Hnin. apply in_map_iff. exists b. split; [|exact Hbl].
    apply Hinj; [right; exact Hbl|left; reflexivity|exact Hb].
  - apply IH; [exact Hnd'|]. intros x y Hx Hy. apply Hinj; right; assumption.
Qed.

(* ------------------------------------------------------------------ *)
(* permute                                                             *)
(* ------------------------------------------------------------------ *)
Lemma permute_nil {A} perm : @permute A perm [] = [].
Proof.
  unfold permute. induction perm as [|i p IH]; simpl; [reflexivity|].
  rewrite IH. destruct i; reflexivity.
Qed.

Lemma permute_incl {A} perm (l : list A) x : In x (permute perm l) -> In x l.
Proof.
  unfold permute. intros H. apply in_flat_map in H. destruct H as [i [_ Hi]].
  destruct (nth_error l i) as [y|] eqn:E; simpl in Hi.
  - destruct Hi as [Hi|[]]. subst y. eapply nth_error_In. exact E.
  - contradiction.
Qed.

Lemma permute_seq {A} (l : list A) : permute (seq 0 (length l)) l = l.
Proof.
  induction l as [|x l IH] using rev_ind; [reflexivity|].
  rewrite app_length. simpl length. rewrite Nat.add_1_r, seq_S. simpl plus.
  unfold permute in *. rewrite flat_map_app. simpl flat_map.
  rewrite nth_error_app2 by lia. rewrite Nat.sub_diag. simpl.
  f_equal.
  rewrite <- IH at 2. apply flat_map_ext_in.
  intros i Hi. apply in_seq in Hi. rewrite nth_error_app1 by lia. reflexivity.
Qed.

Lemma permute_perm {A} perm (l : list A) :
  Permutation perm (seq 0 (length l)) -> Permutation (permute perm l) l.
Proof.
  intros H. rewrite <- (permute_seq l) at 2. unfold permute.
  apply Permutation_flat_map. exact H.
Qed.

(* ------------------------------------------------------------------ *)
(* groups and the descending key list                                  *)
(* ------------------------------------------------------------------ *)
Fixpoint desc (l : list Z) : Prop :=
  match l with [] => True | x :: t => (forall y, In y t -> y < x) /\ desc t end.

Lemma insert_desc_in s l y : In y (insert_desc s l) <-> y = s \/ In y l.
Proof.
  induction l as [|x t IH]; simpl.
  - split; [intros [H|[]]; left; symmetry; exact H|intros [H|[]]; left; symmetry; exact H].
  - destruct (Z.ltb x s) eqn:E1; simpl.
    + split; [intros [H|H]; [left; symmetry; exact H|right; exact H]|].
      intros [H|H]; [left; symmetry; exact H|right; exact H].
    + destruct (Z.eqb s x) eqn:E2; simpl.
      * apply Z.eqb_eq in E2. subst x.
        split; [intros H; right; exact H|intros [H|H]; [left; symmetry; exact H|exact H]].
      * rewrite IH. tauto.
Qed.

Lemma insert_desc_desc s l : desc l -> desc (insert_desc s l).
Proof.
  induction l as [|x t IH]; simpl; intros Hd.
  - split; [intros y []|exact I].
  - destruct Hd as [Hlt Hd].
    destruct (Z.ltb x s) eqn:E1.
    + apply Z.ltb_lt in E1. simpl. split; [|split; assumption].
      intros y [Hy|Hy]; [lia|]. specialize (Hlt y Hy). lia.
    + apply Z.ltb_ge in E1. destruct (Z.eqb s x) eqn:E2.
      * simpl. split; assumption.
      * apply Z.eqb_neq in E2. simpl. split; [|apply IH; exact Hd].
        intros y Hy. apply insert_desc_in in Hy. destruct Hy as [Hy|Hy]; [lia|apply Hlt; exact Hy].
Qed.

Lemma scores_desc_desc r : desc (scores_desc r).
Proof. induction r as [|e r IH]; simpl; [exact I|apply insert_desc_desc; exact IH]. Qed.

Lemma scores_desc_in r e : In e r -> In (e_sc e) (scores_desc r).
Proof.
  induction r as [|x r IH]; simpl; intros H; [contradiction|].
  apply insert_desc_in. destruct H as [H|H]; [left; subst; reflexivity|right; apply IH; exact H].
Qed.

Lemma desc_nodup l : desc l -> NoDup l.
Proof.
  induction l as [|x t IH]; simpl; intros H; [constructor|].
  destruct H as [Hlt Hd]. constructor; [|apply IH; exact Hd].
  intros Hin. specialize (Hlt x Hin). lia.
Qed.

Lemma desc_app_inv k1 k k2 :
  desc (k1 ++ k :: k2) -> (forall y, In y k1 -> k < y) /\ (forall y, In y k2 -> y < k).
Proof.
  induction k1 as [|x k1 IH]; simpl; intros H.
  - destruct H as [Hlt _]. split; [intros y []|exact Hlt].
  - destruct H as [Hlt Hd]. destruct (IH Hd) as [H1 H2]. split; [|exact H2].
    intros y [Hy|Hy]; [subst y|apply H1; exact Hy].
    apply Hlt. apply in_or_app. right. left. reflexivity.
Qed.

Lemma group_in r k e : In e (group r k) <-> In e r /\ e_sc e = k.
Proof. unfold group. rewrite filter_In. rewrite Z.eqb_eq. tauto. Qed.

Lemma groups_in r ks e : In e (flat_map (group r) ks) <-> In e r /\ In (e_sc e) ks.
Proof.
  rewrite in_flat_map. split.
  - intros [k [Hk He]]. apply group_in in He. destruct He as [He Hs]. subst k. split; assumption.
  - intros [He Hs]. exists (e_sc e). split; [exact Hs|]. apply group_in. split; [exact He|reflexivity].
Qed.

Lemma groups_cons_notin e r ks :
  ~ In (e_sc e) ks -> flat_map (group (e :: r)) ks = flat_map (group r) ks.
Proof.
  intros Hn. apply flat_map_ext_in. intros k Hk. unfold group. simpl.
  destruct (Z.eqb (e_sc e) k) eqn:E; [|reflexivity].
  apply Z.eqb_eq in E. subst k. contradiction.
Qed.

Lemma groups_nil ks : flat_map (group []) ks = [].
Proof. induction ks as [|k ks IH]; simpl; [reflexivity|exact IH]. Qed.

(* the groups of a duplicate-free key list covering all scores are a partition of r *)
Lemma groups_perm r : forall ks,
  NoDup ks -> (forall e, In e r -> In (e_sc e) ks) -> Permutation (flat_map (group r) ks) r.
Proof.
  induction r as [|e r IH]; intros ks Hnd Hcov.
  - rewrite groups_nil. constructor.
  - destruct (in_split (e_sc e) ks (Hcov e (or_introl eq_refl))) as [k1 [k2 Hk]].
    subst ks. pose proof (NoDup_remove_2 _ _ _ Hnd) as Hnin.
    assert (Hn1 : ~ In (e_sc e) k1) by (intros H; apply Hnin; apply in_or_app; left; exact H).
    assert (Hn2 : ~ In (e_sc e) k2) by (intros H; apply Hnin; apply in_or_app; right; exact H).
    rewrite flat_map_app. simpl flat_map.
    rewrite (groups_cons_notin e r k1 Hn1), (groups_cons_notin e r k2 Hn2).
    rewrite Z.eqb_refl. simpl app. apply Permutation_sym. apply Permutation_cons_app.
    apply Permutation_sym.
    specialize (IH (k1 ++ e_sc e :: k2) Hnd).
    rewrite flat_map_app in IH. simpl flat_map in IH. apply IH.
    intros x Hx. apply Hcov. right. exact Hx.
Qed.

Lemma scores_groups_perm r : Permutation (flat_map (group r) (scores_desc r)) r.
Proof.
  apply groups_perm.
  - apply desc_nodup. apply scores_desc_desc.
  - intros e He. apply scores_desc_in. exact He.
Qed.

(* ------------------------------------------------------------------ *)
(* the selection loop                                                  *)
(* ------------------------------------------------------------------ *)
Lemma cut_go_spec r : forall ks need a c,
  cut_go r ks need = (a, c) ->
  (exists k1 k k2, ks = k1 ++ k :: k2 /\ a = flat_map (group r) k1 /\ c = group r k /\
                   need - zlen a <= zlen c /\ (0 <= need -> 0 <= need - zlen a))
  \/ (a = flat_map (group r) ks /\ c = [] /\ (0 <= need -> zlen a <= need)).
Proof.
  induction ks as [|k ks IH]; intros need a c H; simpl in H.
  - injection H as Ha Hc. subst a c. right. split; [reflexivity|split; [reflexivity|]].
    intros Hn. unfold zlen. simpl. exact Hn.
  - destruct (Z.leb need (zlen (group r k))) eqn:E.
    + injection H as Ha Hc. subst a c. apply Z.leb_le in E. left.
      exists [], k, ks. split; [reflexivity|split; [reflexivity|split; [reflexivity|]]].
      unfold zlen at 1 3. simpl. split; lia.
    + apply Z.leb_gt in E.
      destruct (cut_go r ks (need - zlen (group r k))) as [a' c'] eqn:E2.
      simpl in H. injection H as Ha Hc. subst a c.
      pose proof (zlen_nonneg (group r k)) as Hg0.
      destruct (IH _ _ _ E2) as [[k1 [k' [k2 [Hks [Ha [Hc [Hle Hge]]]]]]]|[Ha [Hc Hle]]].
      * left. exists (k :: k1), k', k2. subst ks a' c'.
        split; [reflexivity|split; [reflexivity|split; [reflexivity|]]].
        simpl flat_map. rewrite zlen_app. split; lia.
      * right. subst a' c'. split; [reflexivity|split; [reflexivity|]].
        simpl flat_map. rewrite zlen_app. lia.
Qed.

Lemma select_go_eq r perm : forall ks need,
  select_go r perm ks need =
  fst (cut_go r ks need) ++
  firstn (Z.to_nat (need - zlen (fst (cut_go r ks need)))) (permute perm (snd (cut_go r ks need))).
Proof.
  induction ks as [|k ks IH]; intros need; simpl.
  - rewrite permute_nil, firstn_nil. reflexivity.
  - destruct (Z.leb need (zlen (group r k))) eqn:E; simpl.
    + unfold zlen at 1. simpl. rewrite Z.sub_0_r. reflexivity.
    + rewrite IH. rewrite <- app_assoc. rewrite zlen_app.
      replace (need - (zlen (group r k) + zlen (fst (cut_go r ks (need - zlen (group r k))))))
        with (need - zlen (group r k) - zlen (fst (cut_go r ks (need - zlen (group r k))))) by lia.
      reflexivity.
Qed.

(* the outcome is: every whole group above the cut, then a prefix of the shuffled cut group *)
Lemma select_structure r count perm :
  select_outbounds r count perm =
  above_cut r count ++
  firstn (Z.to_nat (count - zlen (above_cut r count))) (permute perm (cut_group r count)).
Proof. unfold select_outbounds, above_cut, cut_group, cut_parts. apply select_go_eq. Qed.

(* how the reachable peers split around the cut *)
Lemma cut_parts_spec r count :
  (exists k rest,
      Permutation (above_cut r count ++ cut_group r count ++ rest) r /\
      (forall e, In e (above_cut r count) -> k < e_sc e) /\
      (forall e, In e (cut_group r count) -> e_sc e = k) /\
      (forall e, In e rest -> e_sc e < k) /\
      count - zlen (above_cut r count) <= zlen (cut_group r count) /\
      (0 <= count -> 0 <= count - zlen (above_cut r count)))
  \/ (Permutation (above_cut r count) r /\ cut_group r count = [] /\
      (0 <= count -> zlen (above_cut r count) <= count)).
Proof.
  unfold above_cut, cut_group, cut_parts.
  destruct (cut_go r (scores_desc r) count) as [a c] eqn:E. simpl.
  pose proof (scores_groups_perm r) as Hperm.
  pose proof (scores_desc_desc r) as Hdesc.
  destruct (cut_go_spec r _ _ _ _ E) as [[k1 [k [k2 [Hks [Ha [Hc [Hle Hge]]]]]]]|[Ha [Hc Hle]]].
  - left. exists k, (flat_map (group r) k2).
    rewrite Hks in Hperm, Hdesc. rewrite flat_map_app in Hperm. simpl flat_map in Hperm.
    destruct (desc_app_inv _ _ _ Hdesc) as [Hhi Hlo]. subst a c.
    split; [exact Hperm|]. split; [|split; [|split; [|split; assumption]]].
    + intros e He. apply groups_in in He. apply Hhi. apply He.
    + intros e He. apply group_in in He. apply He.
    + intros e He. apply groups_in in He. apply Hlo. apply He.
  - right. subst a c. split; [exact Hperm|split; [reflexivity|exact Hle]].
Qed.

Lemma select_go_incl r perm : forall ks need e, In e (select_go r perm ks need) -> In e r.
Proof.
  induction ks as [|k ks IH]; intros need e H; simpl in H; [contradiction|].
  destruct (Z.leb need (zlen (group r k))).
  - apply In_firstn in H. apply permute_incl in H. apply group_in in H. apply H.
  - apply in_app_or in H. destruct H as [H|H]; [apply group_in in H; apply H|eapply IH; exact H].
Qed.

Lemma select_incl r count perm e : In e (select_outbounds r count perm) -> In e r.
Proof. apply select_go_incl. Qed.

Lemma select_nonpos r count perm : count <= 0 -> select_outbounds r count perm = [].
Proof.
  intros Hc. unfold select_outbounds. destruct (scores_desc r) as [|k ks]; simpl; [reflexivity|].
  pose proof (zlen_nonneg (group r k)) as H0.
  destruct (Z.leb count (zlen (group r k))) eqn:E; [|apply Z.leb_gt in E; lia].
  replace (Z.to_nat count) with 0%nat by lia. reflexivity.
Qed.

Lemma select_length_le r count perm :
  0 <= count -> (length (select_outbounds r count perm) <= Z.to_nat count)%nat.
Proof.
  intros Hc. rewrite select_structure. rewrite app_length.
  pose proof (firstn_le_length (Z.to_nat (count - zlen (above_cut r count)))
                               (permute perm (cut_group r count))) as Hf.
  destruct (cut_parts_spec r count) as [[k [rest [_ [_ [_ [_ [_ Hge]]]]]]]|[_ [Hc0 Hle]]].
  - specialize (Hge Hc). unfold zlen in *. lia.
  - rewrite Hc0, permute_nil, firstn_nil. specialize (Hle Hc). unfold zlen in *. simpl. lia.
Qed.

Lemma select_length_eq r count perm :
  0 <= count -> is_shuffle r count perm ->
  length (select_outbounds r count perm) = Nat.min (Z.to_nat count) (length r).
Proof.
  intros Hc Hsh. rewrite select_structure. rewrite app_length, firstn_length.
  rewrite (Permutation_length (permute_perm _ _ Hsh)).
  destruct (cut_parts_spec r count) as [[k [rest [Hp [_ [_ [_ [Hle Hge]]]]]]]|[Hp [Hc0 Hle]]].
  - specialize (Hge Hc). apply Permutation_length in Hp. rewrite !app_length in Hp.
    unfold zlen in *. lia.
  - apply Permutation_length in Hp. specialize (Hle Hc). rewrite Hc0. simpl length.
    unfold zlen in *. lia.
Qed.

Lemma select_nodup {B} (f : entry -> B) r count perm :
  is_shuffle r count perm -> NoDup (map f r) -> NoDup (map f (select_outbounds r count perm)).
Proof.
  intros Hsh Hnd. rewrite select_structure.
  set (n := Z.to_nat (count - zlen (above_cut r count))).
  pose proof (permute_perm _ _ Hsh) as HP.
  set (P := permute perm (cut_group r count)) in *.
  assert (Hall : exists rest, Permutation (above_cut r count ++ P ++ rest) r).
  { destruct (cut_parts_spec r count) as [[k [rest [Hp _]]]|[Hp [Hc0 _]]].
    - exists rest. eapply Permutation_trans; [|exact Hp].
      apply Permutation_app_head. apply Permutation_app_tail. exact HP.
    - exists []. rewrite app_nil_r. eapply Permutation_trans; [|exact Hp].
      rewrite Hc0 in HP. apply Permutation_sym in HP. apply Permutation_nil in HP.
      rewrite HP. rewrite app_nil_r. apply Permutation_refl. }
  destruct Hall as [rest Hall].
  assert (Hnd2 : NoDup (map f (above_cut r count ++ P ++ rest))).
  { eapply Permutation_NoDup; [|exact Hnd]. apply Permutation_map. apply Permutation_sym. exact Hall. }
  rewrite <- (firstn_skipn n P) in Hnd2.
  rewrite <- app_assoc in Hnd2. rewrite app_assoc in Hnd2. rewrite map_app in Hnd2.
  apply NoDup_app_l in Hnd2. exact Hnd2.
Qed.

Lemma select_best r count perm p q :
  In p r -> ~ In p (select_outbounds r count perm) -> In q (select_outbounds r count perm) ->
  e_sc p <= e_sc q.
Proof.
  rewrite select_structure. intros Hp Hnp Hq.
  destruct (cut_parts_spec r count) as [[k [rest [Hperm [Hhi [Heq [Hlo _]]]]]]|[Hperm _]].
  - assert (Hqk : k <= e_sc q).
    { apply in_app_or in Hq. destruct Hq as [Hq|Hq].
      - specialize (Hhi q Hq). lia.
      - apply In_firstn in Hq. apply permute_incl in Hq. specialize (Heq q Hq). lia. }
    apply (Permutation_in _ (Permutation_sym Hperm)) in Hp.
    apply in_app_or in Hp. destruct Hp as [Hp|Hp].
    + exfalso. apply Hnp. apply in_or_app. left. exact Hp.
    + apply in_app_or in Hp. destruct Hp as [Hp|Hp].
      * specialize (Heq p Hp). lia.
      * specialize (Hlo p Hp). lia.
  - exfalso. apply Hnp. apply in_or_app. left.
    apply (Permutation_in _ (Permutation_sym Hperm)). exact Hp.
Qed.

(* ------------------------------------------------------------------ *)
(* reachable                                                           *)
(* ------------------------------------------------------------------ *)
Section Env.
  Variable split_hp : string -> option (string * string).
  Variable resolve : string -> string -> option string.
  Variable host : string.
  Variable host_port : string.

  Notation reach1 := (reach1 split_hp resolve host).
  Notation reachable := (reachable split_hp resolve host).
  Notation valid_target := (valid_target split_hp host_port).
  Notation add_targets := (add_targets split_hp host_port).

  Definition reach_fact (m : list (string * Z)) (e : entry) : Prop :=
    alookup (e_tv e) m = Some (e_sc e) /\ e_tv e <> host /\
    exists ip port, split_hp (e_tv e) = Some (ip, port) /\ resolve ip port = Some (e_tgt e).

  Lemma reach1_spec m tv e : In e (reach1 m tv) <-> e_tv e = tv /\ reach_fact m e.
  Proof.
    unfold reach1, reach_fact. split.
    - intros H.
      destruct (alookup tv m) as [sc|] eqn:E1; [|contradiction].
      destruct (String.eqb tv host) eqn:E2; [contradiction|].
      destruct (split_hp tv) as [[ip port]|] eqn:E3; [|contradiction].
      destruct (resolve ip port) as [tgt|] eqn:E4; [|contradiction].
      destruct H as [H|[]]. subst e. unfold e_tv, e_tgt, e_sc. simpl.
      apply String.eqb_neq in E2.
      split; [reflexivity|split; [exact E1|split; [exact E2|]]].
      exists ip, port. split; [exact E3|exact E4].
    - intros [Htv [Hl [Hh [ip [port [Hs Hr]]]]]]. subst tv.
      rewrite Hl. apply String.eqb_neq in Hh. rewrite Hh. rewrite Hs, Hr.
      left. destruct e as [[a b] c]. reflexivity.
  Qed.

  Lemma reachable_spec m order e :
    In e (reachable m order) <-> In (e_tv e) order /\ reach_fact m e.
  Proof.
    unfold Neighborhood.reachable. rewrite in_flat_map. split.
    - intros [tv [Htv He]]. apply reach1_spec in He. destruct He as [H1 H2]. subst tv. split; assumption.
    - intros [H1 H2]. exists (e_tv e). split; [exact H1|]. apply reach1_spec. split; [reflexivity|exact H2].
  Qed.

  Lemma reach1_cases m tv : reach1 m tv = [] \/ exists tgt sc, reach1 m tv = [(tv, tgt, sc)].
  Proof.
    unfold Neighborhood.reach1.
    destruct (alookup tv m) as [sc|]; [|left; reflexivity].
    destruct (String.eqb tv host); [left; reflexivity|].
    destruct (split_hp tv) as [[ip port]|]; [|left; reflexivity].
    destruct (resolve ip port) as [tgt|]; [|left; reflexivity].
    right. exists tgt, sc. reflexivity.
  Qed.

  Lemma reachable_nodup_tv m order : NoDup order -> NoDup (map e_tv (reachable m order)).
  Proof.
    induction order as [|tv order IH]; intros Hnd; [constructor|].
    inversion Hnd as [|x l Hnin Hnd']; subst.
    unfold Neighborhood.reachable. simpl flat_map. rewrite map_app.
    destruct (reach1_cases m tv) as [H|[tgt [sc H]]]; rewrite H; simpl.
    - apply IH. exact Hnd'.
    - constructor; [|apply IH; exact Hnd'].
      intros Hin. apply in_map_iff in Hin. destruct Hin as [e [He1 He2]].
      apply reachable_spec in He2. destruct He2 as [He2 _]. rewrite He1 in He2. contradiction.
  Qed.

  (* the sender targets are distinct when no two distinct target values resolve to one sender target *)
  Definition resolve_injective : Prop :=
    forall tv1 tv2 ip1 p1 ip2 p2 t,
      split_hp tv1 = Some (ip1, p1) -> split_hp tv2 = Some (ip2, p2) ->
      resolve ip1 p1 = Some t -> resolve ip2 p2 = Some t -> tv1 = tv2.

  Lemma reachable_nodup_tgt m order :
    resolve_injective -> NoDup order -> NoDup (map e_tgt (reachable m order)).
  Proof.
    intros Hinj Hnd. apply (NoDup_map_transport e_tv e_tgt); [apply reachable_nodup_tv; exact Hnd|].
    intros x y Hx Hy Hxy. apply reachable_spec in Hx. apply reachable_spec in Hy.
    destruct Hx as [_ [_ [_ [ip1 [p1 [Hs1 Hr1]]]]]]. destruct Hy as [_ [_ [_ [ip2 [p2 [Hs2 Hr2]]]]]].
    rewrite Hxy in Hr1. eapply Hinj; eauto.
  Qed.

  (* ------------------------------------------------------------------ *)
  (* AddTargets / Incentive                                              *)
  (* ------------------------------------------------------------------ *)
  Lemma add_targets_lookup targets : forall scores tv,
    alookup tv (add_targets scores targets) =
    match alookup tv scores with
    | Some v => Some v
    | None => if mem_str tv targets && valid_target tv then Some 0 else None
    end.
  Proof.
    induction targets as [|t ts IH]; intros scores tv; simpl.
    - destruct (alookup tv scores); reflexivity.
    - destruct (alookup t scores) as [vt|] eqn:Et; simpl.
      + rewrite IH. destruct (alookup tv scores) as [v|] eqn:Etv; [reflexivity|].
        destruct (String.eqb tv t) eqn:E; [|reflexivity].
        apply String.eqb_eq in E. subst t. congruence.
      + destruct (valid_target t) eqn:Ev.
        * rewrite IH. destruct (String.eqb tv t) eqn:E.
          -- apply String.eqb_eq in E. subst t.
             rewrite alookup_aset_same, Et. simpl. rewrite Ev. reflexivity.
          -- apply String.eqb_neq in E. rewrite (alookup_aset_other _ _ _ _ E). reflexivity.
        * rewrite IH. destruct (alookup tv scores) as [v|] eqn:Etv; [reflexivity|].
          destruct (String.eqb tv t) eqn:E; [|reflexivity].
          apply String.eqb_eq in E. subst t. rewrite Ev. rewrite Bool.andb_false_r.
          simpl. reflexivity.
  Qed.

  Lemma valid_target_spec tv :
    valid_target tv = true <->
    exists ip port, split_hp tv = Some (ip, port) /\ network_id port = network_id host_port.
  Proof.
    unfold Neighborhood.valid_target. destruct (split_hp tv) as [[ip port]|].
    - rewrite N.eqb_eq. split.
      + intros H. exists ip, port. split; [reflexivity|symmetry; exact H].
      + intros [ip' [port' [H1 H2]]]. injection H1 as -> ->. symmetry. exact H2.
    - split; [discriminate|intros [ip [port [H _]]]; discriminate].
  Qed.

  Lemma add_targets_keys scores targets tv :
    In tv (map fst (add_targets scores targets)) <->
    In tv (map fst scores) \/
    (In tv targets /\ exists ip port, split_hp tv = Some (ip, port) /\
                                      network_id port = network_id host_port).
  Proof.
    rewrite !alookup_keys. rewrite add_targets_lookup. rewrite <- valid_target_spec, <- mem_str_In.
    destruct (alookup tv scores) as [v|].
    - split; [intros _; left; discriminate|intros _; discriminate].
    - destruct (mem_str tv targets); destruct (valid_target tv); simpl.
      + split; [intros _; right; split; reflexivity|intros _; discriminate].
      + split; [intros H; exfalso; apply H; reflexivity|intros [H|[_ H]]; [exact H|discriminate]].
      + split; [intros H; exfalso; apply H; reflexivity|intros [H|[H _]]; [exact H|discriminate]].
      + split; [intros H; exfalso; apply H; reflexivity|intros [H|[H _]]; [exact H|discriminate]].
  Qed.

  Lemma add_targets_nodup targets : forall scores,
    NoDup (map fst scores) -> NoDup (map fst (add_targets scores targets)).
  Proof.
    induction targets as [|t ts IH]; intros scores Hnd; simpl; [exact Hnd|].
    destruct (negb match alookup t scores with Some _ => true | None => false end && valid_target t).
    - apply IH. apply aset_nodup. exact Hnd.
    - apply IH. exact Hnd.
  Qed.
End Env.

Lemma incentive_lookup scores t :
  alookup t (incentive scores t) =
  Some (match alookup t scores with Some v => v + 1 | None => 1 end).
Proof. unfold incentive. apply alookup_aset_same. Qed.

Lemma incentive_other scores t k : k <> t -> alookup k (incentive scores t) = alookup k scores.
Proof. intros H. unfold incentive. apply alookup_aset_other. exact H. Qed.

Lemma incentive_nodup scores t : NoDup (map fst scores) -> NoDup (map fst (incentive scores t)).
Proof. apply aset_nodup. Qed.

(* Incentive does not look at its argument: any string, parsable or not, on any network, becomes a
   key; and once it is a key the seeds are no longer used (known = the live map). *)
Lemma incentive_unfiltered scores t :
  In t (map fst (incentive scores t)) /\
  (forall seeds, known seeds (incentive scores t) = incentive scores t).
Proof.
  split.
  - eapply alookup_Some_key. apply incentive_lookup.
  - intros seeds. unfold known. destruct (incentive scores t) as [|x l] eqn:E; [|reflexivity].
    pose proof (incentive_lookup scores t) as H. rewrite E in H. discriminate.
Qed.

(* ... so a single malformed incentive in an otherwise empty round leaves the node without outbounds *)
Lemma incentive_malformed_isolates split_hp resolve host seeds t order :
  split_hp t = None ->
  reachable split_hp resolve host (known seeds (incentive [] t)) order = [].
Proof.
  intros Hs. unfold incentive, known. simpl.
  induction order as [|tv order IH]; [reflexivity|].
  unfold reachable in *. simpl flat_map. rewrite IH. rewrite app_nil_r.
  unfold reach1. simpl. destruct (String.eqb tv t) eqn:E; [|reflexivity].
  apply String.eqb_eq in E. subst tv. rewrite Hs. destruct (String.eqb t host); reflexivity.
Qed.

(* ------------------------------------------------------------------ *)
(* fanout                                                              *)
(* ------------------------------------------------------------------ *)
Lemma fanout_spec host r q :
  fanout host r q =
    (if String.eqb q host then [] else [host]) ++
    filter (fun tv => negb (String.eqb q tv)) (map e_tv r)
  /\ (q <> host -> exists tl, fanout host r q = host :: tl)
  /\ (forall tv, In tv (map e_tv r) -> tv <> q -> In tv (fanout host r q))
  /\ (forall tv, In tv (fanout host r q) -> tv = host \/ In tv (map e_tv r))
  /\ ~ In q (fanout host r q).
Proof.
  unfold fanout. simpl filter. split; [|split; [|split; [|split]]].
  - destruct (String.eqb q host); reflexivity.
  - intros Hq. apply String.eqb_neq in Hq. rewrite Hq. simpl. eexists. reflexivity.
  - intros tv Hin Hne.
    assert (Hf : In tv (filter (fun tv => negb (String.eqb q tv)) (map e_tv r))).
    { apply filter_In. split; [exact Hin|]. apply Bool.negb_true_iff. apply String.eqb_neq. congruence. }
    destruct (negb (String.eqb q host)); [right; exact Hf|exact Hf].
  - intros tv Hin.
    destruct (negb (String.eqb q host)).
    + destruct Hin as [H|H]; [left; symmetry; exact H|right; apply filter_In in H; apply H].
    + right. apply filter_In in Hin. apply Hin.
  - intros Hin.
    assert (Hf : In q (filter (fun tv => negb (String.eqb q tv)) (host :: map e_tv r))).
    { simpl filter. exact Hin. }
    apply filter_In in Hf. destruct Hf as [_ Hf]. rewrite String.eqb_refl in Hf. discriminate.
Qed.

(* ------------------------------------------------------------------ *)
(* multiset difference and admissibility                               *)
(* ------------------------------------------------------------------ *)
Lemma remove1_in x l : In x l -> exists l', remove1 x l = Some l' /\ Permutation l (x :: l').
Proof.
  induction l as [|y t IH]; simpl; intros H; [contradiction|].
  destruct (String.eqb x y) eqn:E.
  - apply String.eqb_eq in E. subst y. exists t. split; [reflexivity|apply Permutation_refl].
  - apply String.eqb_neq in E. destruct H as [H|H]; [congruence|].
    destruct (IH H) as [t' [H1 H2]]. rewrite H1. exists (y :: t'). split; [reflexivity|].
    eapply Permutation_trans; [apply perm_skip; exact H2|apply perm_swap].
Qed.

Lemma remove1_perm x l l' : remove1 x l = Some l' -> Permutation l (x :: l').
Proof.
  revert l'. induction l as [|y t IH]; simpl; intros l' H; [discriminate|].
  destruct (String.eqb x y) eqn:E.
  - apply String.eqb_eq in E. subst y. injection H as <-. apply Permutation_refl.
  - destruct (remove1 x t) as [t'|] eqn:E2; [|discriminate]. injection H as <-.
    eapply Permutation_trans; [apply perm_skip; apply IH; reflexivity|apply perm_swap].
Qed.

Lemma msub_app a : forall b, msub a (a ++ b) = Some b.
Proof.
  induction a as [|x a IH]; intros b; simpl; [reflexivity|].
  rewrite String.eqb_refl. apply IH.
Qed.

Lemma msub_of_perm s : forall l t, Permutation (s ++ t) l -> exists rest, msub s l = Some rest.
Proof.
  induction s as [|x s IH]; intros l t H; simpl.
  - exists l. reflexivity.
  - assert (Hin : In x l) by (eapply Permutation_in; [exact H|left; reflexivity]).
    destruct (remove1_in x l Hin) as [l' [H1 H2]]. rewrite H1.
    apply (IH l' t). eapply Permutation_cons_inv.
    eapply Permutation_trans; [exact H|exact H2].
Qed.

Lemma msub_perm a : forall l rest, msub a l = Some rest -> Permutation l (a ++ rest).
Proof.
  induction a as [|x a IH]; intros l rest H; simpl in *.
  - injection H as <-. apply Permutation_refl.
  - destruct (remove1 x l) as [l'|] eqn:E; [|discriminate].
    apply remove1_perm in E. eapply Permutation_trans; [exact E|].
    apply perm_skip. apply IH. exact H.
Qed.

Lemma admissible_sel_sound r count perm :
  is_shuffle r count perm ->
  admissible_sel r count (map e_tgt (select_outbounds r count perm)) = true.
Proof.
  intros Hsh. unfold admissible_sel. rewrite select_structure.
  set (a := above_cut r count). set (c := cut_group r count).
  set (n := Z.to_nat (count - zlen a)).
  pose proof (permute_perm _ _ Hsh) as HP. fold c in HP.
  set (P := permute perm c) in *.
  rewrite map_app, msub_app.
  assert (Hs : exists rest, msub (map e_tgt (firstn n P)) (map e_tgt c) = Some rest).
  { apply (msub_of_perm _ _ (map e_tgt (skipn n P))).
    rewrite <- map_app, firstn_skipn. apply Permutation_map. exact HP. }
  destruct Hs as [rest Hs]. rewrite Hs.
  rewrite map_length, firstn_length. rewrite (Permutation_length HP).
  apply Nat.eqb_refl.
Qed.

(* what a positive answer of the check means, as multisets *)
Lemma admissible_sel_multiset r count out :
  admissible_sel r count out = true ->
  exists rest rest2,
    Permutation out (map e_tgt (above_cut r count) ++ rest) /\
    Permutation (map e_tgt (cut_group r count)) (rest ++ rest2) /\
    length rest = Nat.min (Z.to_nat (count - zlen (above_cut r count))) (length (cut_group r count)).
Proof.
  unfold admissible_sel. intros H.
  destruct (msub (map e_tgt (above_cut r count)) out) as [rest|] eqn:E1; [|discriminate].
  destruct (msub rest (map e_tgt (cut_group r count))) as [rest2|] eqn:E2; [|discriminate].
  apply Nat.eqb_eq in H. exists rest, rest2.
  split; [apply msub_perm; exact E1|split; [apply msub_perm; exact E2|exact H]].
Qed.

(* every rearrangement of l is [permute perm l] for a permutation of the indices *)
Lemma flat_map_map {A B C} (g : B -> list C) (f : A -> B) s :
  flat_map g (map f s) = flat_map (fun i => g (f i)) s.
Proof. induction s as [|x s IH]; simpl; [reflexivity|rewrite IH; reflexivity]. Qed.

Lemma perm_as_permute {A} (l l' : list A) :
  Permutation l l' ->
  exists perm, Permutation perm (seq 0 (length l)) /\ permute perm l = l'.
Proof.
  intros H. pose proof (Permutation_length H) as Hlen.
  apply Permutation_nth_error_bis in H. destruct H as [f [Hinj [Hb Hn]]].
  exists (map f (seq 0 (length l))). split.
  - exact (nat_bijection_Permutation Hb Hinj).
  - unfold permute. rewrite flat_map_map. rewrite Hlen.
    rewrite <- (permute_seq l') at 2. unfold permute.
    apply flat_map_ext. intros i. rewrite Hn. reflexivity.
Qed.

Lemma admissible_sel_complete r count out :
  admissible_sel r count out = true ->
  exists perm, is_shuffle r count perm /\
               Permutation out (map e_tgt (select_outbounds r count perm)).
Proof.
  intros H. apply admissible_sel_multiset in H.
  destruct H as [rest [rest2 [H1 [H2 H3]]]].
  apply Permutation_sym in H2. apply Permutation_map_inv in H2.
  destruct H2 as [P [HP1 HP2]].
  destruct (perm_as_permute _ _ HP2) as [perm [Hsh Hperm]].
  exists perm. split; [exact Hsh|].
  rewrite select_structure, Hperm, map_app, <- firstn_map, <- HP1.
  set (n := Z.to_nat (count - zlen (above_cut r count))) in *.
  assert (Hf : firstn n (rest ++ rest2) = rest).
  { rewrite firstn_app. rewrite (firstn_all2 rest) by lia.
    destruct (Nat.le_gt_cases n (length (cut_group r count))) as [Hle|Hgt].
    - replace (n - length rest)%nat with 0%nat by lia. simpl. apply app_nil_r.
    - assert (Hl : length (rest ++ rest2) = length (cut_group r count)).
      { rewrite HP1, map_length. symmetry. apply Permutation_length. exact HP2. }
      rewrite app_length in Hl. assert (Hz : length rest2 = 0%nat) by lia.
      destruct rest2; [|simpl in Hz; lia]. rewrite firstn_nil. apply app_nil_r. }
  rewrite Hf. exact H1.
Qed.

(* ------------------------------------------------------------------ *)
(* the C17 statements                                                  *)
(* ------------------------------------------------------------------ *)
Lemma outbounds_count_bounds m max : 0 <= max -> 0 <= outbounds_count m max <= max.
Proof. unfold outbounds_count. lia. Qed.

Lemma nb_bound : forall (m : list (string * Z)) (r : list entry) (max : Z) (perm : list nat),
  0 <= max ->
  (length (select_outbounds r (outbounds_count m max) perm) <= Z.to_nat max)%nat /\
  (is_shuffle r (outbounds_count m max) perm ->
   length (select_outbounds r (outbounds_count m max) perm)
   = Nat.min (Z.to_nat (outbounds_count m max)) (length r)).
Proof.
  intros m r max perm Hmax. pose proof (outbounds_count_bounds m max Hmax) as Hc. split.
  - pose proof (select_length_le r (outbounds_count m max) perm (proj1 Hc)). lia.
  - intros Hsh. apply select_length_eq; [apply Hc|exact Hsh].
Qed.

Lemma known_cases seeds scores :
  (scores = [] /\ known seeds scores = seeds) \/ (scores <> [] /\ known seeds scores = scores).
Proof. destruct scores; [left; split; reflexivity|right; split; [discriminate|reflexivity]]. Qed.

Lemma nb_source : forall split_hp resolve host seeds scores order max perm e,
  let m := known seeds scores in
  In e (select_outbounds (reachable split_hp resolve host m order) (outbounds_count m max) perm) ->
  In e (reachable split_hp resolve host m order) /\
  In (e_tv e) order /\
  In (e_tv e) (map fst m) /\ alookup (e_tv e) m = Some (e_sc e) /\
  e_tv e <> host /\
  (exists ip port, split_hp (e_tv e) = Some (ip, port) /\ resolve ip port = Some (e_tgt e)) /\
  (scores = [] -> In (e_tv e) (map fst seeds)) /\
  (scores <> [] -> In (e_tv e) (map fst scores)).
Proof.
  intros sh rs host seeds scores order max perm e m H.
  apply select_incl in H. split; [exact H|].
  apply reachable_spec in H. destruct H as [Ho [Hl [Hh Hr]]].
  pose proof (alookup_Some_key _ _ _ Hl) as Hk.
  split; [exact Ho|split; [exact Hk|split; [exact Hl|split; [exact Hh|split; [exact Hr|]]]]].
  subst m. destruct (known_cases seeds scores) as [[H1 H2]|[H1 H2]]; rewrite H2 in Hk.
  - split; [intros _; exact Hk|intros Hn; contradiction].
  - split; [intros Hn; contradiction|intros _; exact Hk].
Qed.

Lemma nb_distinct : forall split_hp resolve host m order max perm,
  let r := reachable split_hp resolve host m order in
  NoDup order -> is_shuffle r (outbounds_count m max) perm ->
  NoDup (map e_tv (select_outbounds r (outbounds_count m max) perm)).
Proof.
  intros sh rs host m order max perm r Hnd Hsh.
  apply select_nodup; [exact Hsh|]. apply reachable_nodup_tv. exact Hnd.
Qed.

Lemma nb_distinct_targets : forall split_hp resolve host m order max perm,
  let r := reachable split_hp resolve host m order in
  resolve_injective split_hp resolve ->
  NoDup order -> is_shuffle r (outbounds_count m max) perm ->
  NoDup (map e_tgt (select_outbounds r (outbounds_count m max) perm)).
Proof.
  intros sh rs host m order max perm r Hinj Hnd Hsh.
  apply select_nodup; [exact Hsh|]. apply reachable_nodup_tgt; assumption.
Qed.

Lemma nb_best : forall (r : list entry) (count : Z) (perm : list nat) p q,
  In p r -> ~ In p (select_outbounds r count perm) -> In q (select_outbounds r count perm) ->
  e_sc p <= e_sc q.
Proof. exact select_best. Qed.

Lemma nb_fanout : forall split_hp resolve host seeds scores order max perm out msgs scores',
  sync_round split_hp resolve host seeds scores order max perm = (out, msgs, scores') ->
  let r := reachable split_hp resolve host (known seeds scores) order in
  out = select_outbounds r (outbounds_count (known seeds scores) max) perm /\
  scores' = [] /\
  map fst msgs = map e_tgt out /\
  forall q, In q out ->
    let sent := fanout host r (e_tgt q) in
    In (e_tgt q, sent) msgs /\
    sent = (if String.eqb (e_tgt q) host then [] else [host]) ++
           filter (fun tv => negb (String.eqb (e_tgt q) tv)) (map e_tv r) /\
    (e_tgt q <> host -> exists tl, sent = host :: tl) /\
    (forall tv, In tv (map e_tv r) -> tv <> e_tgt q -> In tv sent) /\
    (forall tv, In tv sent -> tv = host \/ In tv (map e_tv r)) /\
    ~ In (e_tgt q) sent /\
    (e_tgt q = e_tv q -> ~ In (e_tv q) sent).
Proof.
  intros sh rs host seeds scores order max perm out msgs scores' H r.
  unfold sync_round in H. injection H as Hout Hmsgs Hsc. fold r in Hout, Hmsgs.
  split; [symmetry; exact Hout|]. split; [symmetry; exact Hsc|]. split.
  - rewrite <- Hmsgs, Hout. rewrite map_map. simpl. reflexivity.
  - intros q Hq sent.
    destruct (fanout_spec host r (e_tgt q)) as [F1 [F2 [F3 [F4 F5]]]].
    split; [|split; [exact F1|split; [exact F2|split; [exact F3|split; [exact F4|split; [exact F5|]]]]]].
    + rewrite <- Hmsgs, Hout. apply in_map_iff. exists q. split; [reflexivity|exact Hq].
    + intros Heq. rewrite <- Heq. exact F5.
Qed.

Lemma nb_announce : forall split_hp host_port scores targets tv,
  (In tv (map fst (add_targets split_hp host_port scores targets)) <->
   In tv (map fst scores) \/
   (In tv targets /\ exists ip port, split_hp tv = Some (ip, port) /\
                                     network_id port = network_id host_port)) /\
  (forall v, alookup tv scores = Some v ->
             alookup tv (add_targets split_hp host_port scores targets) = Some v) /\
  (alookup tv scores = None ->
   forall v, alookup tv (add_targets split_hp host_port scores targets) = Some v -> v = 0) /\
  (NoDup (map fst scores) -> NoDup (map fst (add_targets split_hp host_port scores targets))).
Proof.
  intros sh hp scores targets tv. split; [apply add_targets_keys|]. split; [|split].
  - intros v Hv. rewrite add_targets_lookup, Hv. reflexivity.
  - intros Hn v Hv. rewrite add_targets_lookup, Hn in Hv.
    destruct (mem_str tv targets && valid_target sh hp tv); [|discriminate].
    injection Hv as <-. reflexivity.
  - apply add_targets_nodup.
Qed.

Lemma nb_admissible_sound : forall split_hp resolve host m order max perm,
  let r := reachable split_hp resolve host m order in
  is_shuffle r (outbounds_count m max) perm ->
  admissible_outbounds split_hp resolve host m order max
    (map e_tgt (select_outbounds r (outbounds_count m max) perm)) = true.
Proof. intros sh rs host m order max perm r Hsh. apply admissible_sel_sound. exact Hsh. Qed.

Lemma nb_admissible_complete : forall split_hp resolve host m order max out,
  let r := reachable split_hp resolve host m order in
  admissible_outbounds split_hp resolve host m order max out = true ->
  exists perm, is_shuffle r (outbounds_count m max) perm /\
               Permutation out (map e_tgt (select_outbounds r (outbounds_count m max) perm)).
Proof. intros sh rs host m order max out r H. apply admissible_sel_complete. exact H. Qed.

Lemma nb_incentive_unfiltered : forall scores t,
  alookup t (incentive scores t) = Some (match alookup t scores with Some v => v + 1 | None => 1 end) /\
  In t (map fst (incentive scores t)) /\
  (forall seeds, known seeds (incentive scores t) = incentive scores t) /\
  (forall k, k <> t -> alookup k (incentive scores t) = alookup k scores) /\
  (NoDup (map fst scores) -> NoDup (map fst (incentive scores t))).
Proof.
  intros scores t. destruct (incentive_unfiltered scores t) as [H1 H2].
  split; [apply incentive_lookup|split; [exact H1|split; [exact H2|split]]].
  - intros k Hk. apply incentive_other. exact Hk.
  - apply incentive_nodup.
Qed.

(* ---- aliasing: the environment of the counter-example ---- *)
Local Open Scope string_scope.
Definition alias_split (s : string) : option (string * string) :=
  if String.eqb s "node-a.example:10600" then Some ("node-a.example", "10600")
  else if String.eqb s "node-b.example:10600" then Some ("node-b.example", "10600")
  else if String.eqb s "me.example:10600" then Some ("me.example", "10600")
  else None.
(* two names of one machine, and a name of the host itself *)
Definition alias_resolve (ip port : string) : option string :=
  if String.eqb ip "me.example" then Some ("9.9.9.9:" ++ port)
  else Some ("1.2.3.4:" ++ port).
Definition alias_host := "9.9.9.9:10600".
Definition alias_map : list (string * Z) :=
  [("node-a.example:10600", 0%Z); ("node-b.example:10600", 0%Z); ("me.example:10600", 0%Z)].
Definition alias_order := ["node-a.example:10600"; "node-b.example:10600"; "me.example:10600"].
Local Close Scope string_scope.

Lemma nb_alias_refuted :
  exists split_hp resolve host m order max perm,
    let r := reachable split_hp resolve host m order in
    let out := map e_tgt (select_outbounds r (outbounds_count m max) perm) in
    NoDup order /\ NoDup (map fst m) /\ Permutation order (map fst m) /\ 0 <= max /\
    is_shuffle r (outbounds_count m max) perm /\
    ~ NoDup out /\ In host out.
Proof.
  exists alias_split, alias_resolve, alias_host, alias_map, alias_order, 3, [0; 1; 2]%nat.
  assert (Hout : map e_tgt (select_outbounds
                              (reachable alias_split alias_resolve alias_host alias_map alias_order)
                              (outbounds_count alias_map 3) [0; 1; 2]%nat)
                 = ["1.2.3.4:10600"; "1.2.3.4:10600"; "9.9.9.9:10600"]%string)
    by (vm_compute; reflexivity).
  cbv zeta. rewrite Hout.
  assert (Hnd : NoDup alias_order).
  { unfold alias_order. repeat constructor; simpl; intuition discriminate. }
  split; [exact Hnd|split; [exact Hnd|split; [apply Permutation_refl|split; [lia|split; [|split]]]]].
  - unfold is_shuffle. vm_compute. apply Permutation_refl.
  - intros H. inversion H as [|x l Hn _]; subst. apply Hn. left. reflexivity.
  - right. right. left. reflexivity.
Qed.

(* a peer known by name is sent its own target back: the comparison of neighborhood.go:100 is between
   the resolved address and the announced names *)
Lemma nb_fanout_own_target_refuted :
  exists split_hp resolve host seeds scores order max perm out msgs scores' q,
    sync_round split_hp resolve host seeds scores order max perm = (out, msgs, scores') /\
    In q out /\ In (e_tgt q, fanout host (reachable split_hp resolve host (known seeds scores) order)
                                    (e_tgt q)) msgs /\
    In (e_tv q) (fanout host (reachable split_hp resolve host (known seeds scores) order) (e_tgt q)).
Proof.
  exists alias_split, alias_resolve, alias_host, alias_map, [], alias_order, 1, [0]%nat.
  eexists. eexists. eexists. eexists.
  split; [vm_compute; reflexivity|].
  split; [left; reflexivity|].
  split; [vm_compute; left; reflexivity|].
  vm_compute. right. left. reflexivity.
Qed.

(* ---- repeated rounds: every live map is built from the empty one (neighborhood.go:29,72) by
   AddTargets and Incentive calls, so its keys are distinct ---- *)
Inductive built (split_hp : string -> option (string * string)) (host_port : string)
  : list (string * Z) -> Prop :=
| built_empty : built split_hp host_port []
| built_add s ts : built split_hp host_port s ->
                   built split_hp host_port (add_targets split_hp host_port s ts)
| built_incentive s t : built split_hp host_port s -> built split_hp host_port (incentive s t).

Lemma built_nodup sh hp s : built sh hp s -> NoDup (map fst s).
Proof.
  induction 1 as [|s ts _ IH|s t _ IH].
  - constructor.
  - apply add_targets_nodup. exact IH.
  - apply incentive_nodup. exact IH.
Qed.

Lemma nb_round : forall split_hp resolve host host_port seeds scores order max perm out msgs scores',
  NoDup (map fst seeds) -> built split_hp host_port scores ->
  Permutation order (map fst (known seeds scores)) -> 0 <= max ->
  is_shuffle (reachable split_hp resolve host (known seeds scores) order)
             (outbounds_count (known seeds scores) max) perm ->
  sync_round split_hp resolve host seeds scores order max perm = (out, msgs, scores') ->
  let m := known seeds scores in
  let r := reachable split_hp resolve host m order in
  (length out <= Z.to_nat max)%nat /\
  length out = Nat.min (Z.to_nat (outbounds_count m max)) (length r) /\
  NoDup (map e_tv out) /\
  (forall e, In e out -> In e r /\ In (e_tv e) (map fst m) /\ e_tv e <> host) /\
  (forall p q, In p r -> ~ In p out -> In q out -> e_sc p <= e_sc q) /\
  built split_hp host_port scores'.
Proof.
  intros sh rs host hp seeds scores order max perm out msgs scores' Hseeds Hb Hord Hmax Hsh H m r.
  assert (Hm : NoDup (map fst m)).
  { subst m. destruct (known_cases seeds scores) as [[_ E]|[_ E]]; rewrite E;
      [exact Hseeds|eapply built_nodup; exact Hb]. }
  assert (Hndo : NoDup order).
  { eapply Permutation_NoDup; [apply Permutation_sym; exact Hord|exact Hm]. }
  unfold sync_round in H. injection H as Hout _ Hsc. fold m in Hout. fold r in Hout. subst out.
  destruct (nb_bound m r max perm Hmax) as [B1 B2].
  split; [exact B1|split; [apply B2; exact Hsh|split; [|split; [|split]]]].
  - apply nb_distinct; assumption.
  - intros e He. pose proof (nb_source sh rs host seeds scores order max perm e He) as S.
    split; [apply S|split; apply S].
  - intros p q. apply select_best.
  - rewrite <- Hsc. unfold sync_scores_after. constructor.
Qed.

(* ---- the environment of the worked example of props/C17.v: five peer targets in three score
   groups (3 | 2 | 1 1 1) plus the host's own entry, the peer of score 2 unreachable ---- *)
Local Open Scope string_scope.
Definition ex_peers := ["10.0.0.1:10600"; "10.0.0.2:10600"; "10.0.0.3:10600"; "10.0.0.4:10600"; "10.0.0.5:10600"].
Definition ex_host := "10.0.0.9:10600".
Definition ex_split (s : string) : option (string * string) :=
  if mem_str s (ex_host :: ex_peers) then Some (substring 0 8 s, substring 9 5 s) else None.
Definition ex_resolve (ip port : string) : option string :=
  if String.eqb ip "10.0.0.2" then None else Some (ip ++ ":" ++ port).
Definition ex_map : list (string * Z) :=
  [("10.0.0.1:10600", 3%Z); ("10.0.0.2:10600", 2%Z); ("10.0.0.3:10600", 1%Z);
   ("10.0.0.4:10600", 1%Z); ("10.0.0.5:10600", 1%Z); ("10.0.0.9:10600", 7%Z)].
Definition ex_order :=
  ["10.0.0.4:10600"; "10.0.0.9:10600"; "10.0.0.2:10600"; "10.0.0.5:10600"; "10.0.0.1:10600"; "10.0.0.3:10600"].
Definition ex_perm := [2; 0; 1]%nat.
Local Close Scope string_scope.

Lemma perm_by_msub a l : msub a l = Some [] -> Permutation l a.
Proof. intros H. apply msub_perm in H. rewrite app_nil_r in H. exact H. Qed.

Lemma ex_hypotheses :
  NoDup (map fst ex_map) /\ Permutation ex_order (map fst ex_map) /\
  is_shuffle (reachable ex_split ex_resolve ex_host ex_map ex_order) (outbounds_count ex_map 3) ex_perm /\
  resolve_injective ex_split ex_resolve.
Proof.
  split; [|split; [|split]].
  - unfold ex_map. simpl. repeat constructor; simpl; intuition discriminate.
  - apply perm_by_msub. vm_compute. reflexivity.
  - unfold is_shuffle, ex_perm. vm_compute.
    eapply perm_trans; [apply perm_swap|]. apply perm_skip. apply perm_swap.
  - intros tv1 tv2 ip1 p1 ip2 p2 t H1 H2 R1 R2. unfold ex_split in H1, H2.
    destruct (mem_str tv1 (ex_host :: ex_peers)) eqn:M1; [|discriminate].
    destruct (mem_str tv2 (ex_host :: ex_peers)) eqn:M2; [|discriminate].
    apply mem_str_In in M1. apply mem_str_In in M2.
    injection H1 as <- <-. injection H2 as <- <-.
    simpl in M1, M2.
    repeat (destruct M1 as [M1|M1]; [subst tv1|]); try contradiction;
    repeat (destruct M2 as [M2|M2]; [subst tv2|]); try contradiction;
    vm_compute in R1, R2; try reflexivity; congruence.
Qed.
