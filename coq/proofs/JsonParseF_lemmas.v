(* JsonParseF_lemmas.v — the JSON parser never runs out of fuel.
   model/JsonParseF.v is JsonParse.v with "out of fuel" (PFuel) told apart from "syntax error"
   (PSyntax).  Here:
     - erasing the distinction gives back JsonParse.v's functions (parse_*F_erase, parse_jsonF_erase);
     - what a successful call consumes (parse_F_consumes);
     - no call with enough fuel answers PFuel (parse_F_never_fuel), and the top level's
       S (2 * length) is enough for EVERY text (parse_jsonF_never_fuel);
     - so parse_json s = None means exactly "syntax error" (parse_json_none_is_syntax), and any fuel
       at or above parse_fuel s gives the same answer, None included (parse_val_fuel_stable). *)
From RV Require Import model.Base model.Json model.JsonParse model.JsonParseF.
From Coq Require Import Lia.
Local Open Scope string_scope.

Notation slen := String.length (only parsing).

Definition erase {A : Type} (p : pres A) : option A :=
  match p with
  | POk a => Some a
  | PSyntax => None
  | PFuel => None
  end.

(* ------------------------------------------------------------------ *)
(* unfolding equations                                                 *)
(* ------------------------------------------------------------------ *)
Lemma parse_valF_S : forall f s, parse_valF (S f) s = val_bodyF (parse_elemsF f) (parse_membersF f) s.
Proof. reflexivity. Qed.
Lemma parse_elemsF_S : forall f s, parse_elemsF (S f) s = elems_bodyF (parse_valF f) (parse_elemsF f) s.
Proof. reflexivity. Qed.
Lemma parse_membersF_S : forall f s, parse_membersF (S f) s = members_bodyF (parse_valF f) (parse_membersF f) s.
Proof. reflexivity. Qed.
Lemma parse_val_S' : forall f s, parse_val (S f) s = val_body (parse_elems f) (parse_members f) s.
Proof. reflexivity. Qed.
Lemma parse_elems_S' : forall f s, parse_elems (S f) s = elems_body (parse_val f) (parse_elems f) s.
Proof. reflexivity. Qed.
Lemma parse_members_S' : forall f s, parse_members (S f) s = members_body (parse_val f) (parse_members f) s.
Proof. reflexivity. Qed.

(* take apart every match / if of the goal, outermost discriminee that is closed first *)
Ltac split_goal :=
  repeat match goal with
         | |- context [match ?x with _ => _ end] => destruct x eqn:?
         end.

(* ------------------------------------------------------------------ *)
(* 1. refinement: erase (instrumented) = original                      *)
(* ------------------------------------------------------------------ *)
Lemma val_dispatchF_erase : forall peF pmF pe pm,
  (forall s, erase (peF s) = pe s) -> (forall s, erase (pmF s) = pm s) ->
  forall c r, erase (val_dispatchF peF pmF c r) = val_dispatch pe pm c r.
Proof.
  intros peF pmF pe pm He Hm c r.
  unfold val_dispatchF, val_dispatch. cbv zeta.
  rewrite <- (He r), <- (Hm r).
  destruct (peF r) as [[le re]| |]; destruct (pmF r) as [[lm rm]| |]; cbn [erase];
    split_goal; reflexivity.
Qed.

Lemma val_bodyF_erase : forall peF pmF pe pm,
  (forall s, erase (peF s) = pe s) -> (forall s, erase (pmF s) = pm s) ->
  forall s, erase (val_bodyF peF pmF s) = val_body pe pm s.
Proof.
  intros peF pmF pe pm He Hm s. unfold val_bodyF, val_body.
  destruct (skip_ws s) as [|c r] eqn:E; [reflexivity|].
  apply val_dispatchF_erase; assumption.
Qed.

Lemma elems_bodyF_erase : forall pvF peF pv pe,
  (forall s, erase (pvF s) = pv s) -> (forall s, erase (peF s) = pe s) ->
  forall s, erase (elems_bodyF pvF peF s) = elems_body pv pe s.
Proof.
  intros pvF peF pv pe Hv He s. unfold elems_bodyF, elems_body.
  rewrite <- (Hv s).
  destruct (pvF s) as [[v r]| |] eqn:Ev; cbn [erase]; try reflexivity.
  destruct (skip_ws r) as [|c r'] eqn:Ew; [reflexivity|].
  rewrite <- (He r').
  destruct (peF r') as [[vs r'']| |]; cbn [erase]; split_goal; reflexivity.
Qed.

Lemma members_bodyF_erase : forall pvF pmF pv pm,
  (forall s, erase (pvF s) = pv s) -> (forall s, erase (pmF s) = pm s) ->
  forall s, erase (members_bodyF pvF pmF s) = members_body pv pm s.
Proof.
  intros pvF pmF pv pm Hv Hm s. unfold members_bodyF, members_body.
  destruct (skip_ws s) as [|c r] eqn:E0; [reflexivity|].
  destruct (N_of_ascii c =? 34)%N eqn:E1; [|reflexivity].
  destruct (unesc r) as [[k r1]|] eqn:E2; [|reflexivity].
  destruct (skip_ws r1) as [|c1 r2] eqn:E3; [reflexivity|].
  destruct (N_of_ascii c1 =? 58)%N eqn:E4; [|reflexivity].
  rewrite <- (Hv r2).
  destruct (pvF r2) as [[v r3]| |] eqn:E5; cbn [erase]; try reflexivity.
  destruct (skip_ws r3) as [|c3 r4] eqn:E6; [reflexivity|].
  rewrite <- (Hm r4).
  destruct (pmF r4) as [[ms r5]| |]; cbn [erase]; split_goal; reflexivity.
Qed.

Lemma parse_F_erase : forall f,
  (forall s, erase (parse_valF f s) = parse_val f s) /\
  (forall s, erase (parse_elemsF f s) = parse_elems f s) /\
  (forall s, erase (parse_membersF f s) = parse_members f s).
Proof.
  induction f as [|f [IHv [IHe IHm]]].
  - repeat split; intros s; reflexivity.
  - repeat split; intros s.
    + rewrite parse_valF_S, parse_val_S'. apply val_bodyF_erase; assumption.
    + rewrite parse_elemsF_S, parse_elems_S'. apply elems_bodyF_erase; assumption.
    + rewrite parse_membersF_S, parse_members_S'. apply members_bodyF_erase; assumption.
Qed.

Theorem parse_valF_erase : forall f s, erase (parse_valF f s) = parse_val f s.
Proof. intros f s. apply (parse_F_erase f). Qed.
Theorem parse_elemsF_erase : forall f s, erase (parse_elemsF f s) = parse_elems f s.
Proof. intros f s. apply (parse_F_erase f). Qed.
Theorem parse_membersF_erase : forall f s, erase (parse_membersF f s) = parse_members f s.
Proof. intros f s. apply (parse_F_erase f). Qed.

Theorem parse_jsonF_erase : forall s, erase (parse_jsonF s) = parse_json s.
Proof.
  intros s. unfold parse_jsonF, parse_json.
  rewrite <- (parse_valF_erase (parse_fuel s) s).
  destruct (parse_valF (parse_fuel s) s) as [[j r]| |]; cbn [erase]; try reflexivity.
  destruct (skip_ws r); reflexivity.
Qed.

(* the four refinements in one statement *)
Theorem parse_F_refines :
  (forall f s, erase (parse_valF f s) = parse_val f s) /\
  (forall f s, erase (parse_elemsF f s) = parse_elems f s) /\
  (forall f s, erase (parse_membersF f s) = parse_members f s) /\
  (forall s, erase (parse_jsonF s) = parse_json s).
Proof.
  repeat split.
  - exact parse_valF_erase.
  - exact parse_elemsF_erase.
  - exact parse_membersF_erase.
  - exact parse_jsonF_erase.
Qed.

(* ------------------------------------------------------------------ *)
(* 2. consumption                                                      *)
(* ------------------------------------------------------------------ *)
Lemma skip_ws_len : forall s, slen (skip_ws s) <= slen s.
Proof.
  induction s as [|c r IH]; cbn [skip_ws]; [lia|].
  destruct (is_ws c); cbn [String.length]; lia.
Qed.

Lemma skip_ws_cons_len : forall s c r, skip_ws s = String c r -> slen r < slen s.
Proof.
  intros s c r H. pose proof (skip_ws_len s) as L. rewrite H in L. cbn [String.length] in L. lia.
Qed.

Lemma span_num_len : forall s a b, span_num s = (a, b) -> slen a + slen b = slen s.
Proof.
  induction s as [|c r IH]; intros a b H; cbn [span_num] in H.
  - injection H as <- <-. reflexivity.
  - destruct (is_num_char c) eqn:Ec.
    + destruct (span_num r) as [a' b'] eqn:Er. injection H as <- <-.
      specialize (IH a' b' eq_refl). cbn [String.length]. lia.
    + injection H as <- <-. reflexivity.
Qed.

Lemma parse_num_len : forall c r j rest, is_num_char c = true ->
  parse_num (String c r) = Some (j, rest) -> slen rest <= slen r.
Proof.
  intros c r j rest Hc H. unfold parse_num in H. cbn [span_num] in H. rewrite Hc in H.
  destruct (span_num r) as [a b] eqn:Er.
  pose proof (span_num_len r a b Er) as L.
  destruct (valid_number (String c a)) eqn:Ev; [|discriminate].
  destruct (is_int_lit (String c a)) eqn:Ei; injection H as _ <-; lia.
Qed.

Lemma strip_prefix_len : forall p s r, strip_prefix p s = Some r -> slen r <= slen s.
Proof.
  induction p as [|a p IH]; intros s r H; cbn [strip_prefix] in H.
  - injection H as <-. lia.
  - destruct s as [|b s']; [discriminate|].
    destruct (Ascii.eqb a b); [|discriminate].
    apply IH in H. cbn [String.length]. lia.
Qed.

Lemma on_fst_inv : forall g o k r, on_fst g o = Some (k, r) -> exists a, o = Some (a, r).
Proof.
  intros g o k r H. destruct o as [[a r0]|]; cbn [on_fst] in H; [|discriminate].
  injection H as _ <-. exists a. reflexivity.
Qed.

(* a string literal: at least the closing quote is consumed *)
Lemma unesc_len_n : forall n s, slen s <= n -> forall k r, unesc s = Some (k, r) -> slen r < slen s.
Proof.
  induction n as [|n IH]; intros s Hn k r H.
  - destruct s; [discriminate|]. cbn [String.length] in Hn. lia.
  - destruct s as [|c s1]; [discriminate|].
    cbn [unesc] in H.
    repeat match type of H with
           | context [match ?x with _ => _ end] => destruct x eqn:?
           end;
      try discriminate;
      try (injection H as _ <-; cbn [String.length]; lia);
      (apply on_fst_inv in H; destruct H as [pre_k H]; apply IH in H;
       cbn [String.length] in *; lia).
Qed.

Lemma unesc_len : forall s k r, unesc s = Some (k, r) -> slen r < slen s.
Proof. intros s k r H. exact (unesc_len_n (slen s) s (le_n _) k r H). Qed.

Lemma val_dispatchF_len : forall pe pm,
  (forall s x rest, pe s = POk (x, rest) -> slen rest + 2 <= slen s) ->
  (forall s x rest, pm s = POk (x, rest) -> slen rest + 5 <= slen s) ->
  forall c r j rest, val_dispatchF pe pm c r = POk (j, rest) -> slen rest <= slen r.
Proof.
  intros pe pm He Hm c r j rest H.
  unfold val_dispatchF in H. cbv zeta in H.
  destruct (is_num_char c) eqn:E1.
  { destruct (parse_num (String c r)) as [[j0 r0]|] eqn:Ep; [|discriminate].
    injection H as _ <-. exact (parse_num_len c r j0 r0 E1 Ep). }
  destruct (N_of_ascii c =? 34)%N eqn:E2.
  { destruct (unesc r) as [[k r']|] eqn:Eu; [|discriminate].
    injection H as _ <-. apply unesc_len in Eu. lia. }
  destruct (N_of_ascii c =? 123)%N eqn:E3.
  { destruct (skip_ws r) as [|c2 r2] eqn:Ew; [discriminate|].
    apply skip_ws_cons_len in Ew.
    destruct (N_of_ascii c2 =? 125)%N eqn:E4.
    - injection H as _ <-. lia.
    - destruct (pm r) as [[l r']| |] eqn:Ep; try discriminate.
      injection H as _ <-. apply Hm in Ep. lia. }
  destruct (N_of_ascii c =? 91)%N eqn:E4.
  { destruct (skip_ws r) as [|c2 r2] eqn:Ew; [discriminate|].
    apply skip_ws_cons_len in Ew.
    destruct (N_of_ascii c2 =? 93)%N eqn:E5.
    - injection H as _ <-. lia.
    - destruct (pe r) as [[l r']| |] eqn:Ep; try discriminate.
      injection H as _ <-. apply He in Ep. lia. }
  destruct (N_of_ascii c =? 116)%N eqn:E5.
  { destruct (strip_prefix "rue" r) as [r'|] eqn:Es; [|discriminate].
    injection H as _ <-. exact (strip_prefix_len _ _ _ Es). }
  destruct (N_of_ascii c =? 102)%N eqn:E6.
  { destruct (strip_prefix "alse" r) as [r'|] eqn:Es; [|discriminate].
    injection H as _ <-. exact (strip_prefix_len _ _ _ Es). }
  destruct (N_of_ascii c =? 110)%N eqn:E7.
  { destruct (strip_prefix "ull" r) as [r'|] eqn:Es; [|discriminate].
    injection H as _ <-. exact (strip_prefix_len _ _ _ Es). }
  discriminate.
Qed.

(* a value: at least one character *)
Lemma val_bodyF_len : forall pe pm,
  (forall s x rest, pe s = POk (x, rest) -> slen rest + 2 <= slen s) ->
  (forall s x rest, pm s = POk (x, rest) -> slen rest + 5 <= slen s) ->
  forall s j rest, val_bodyF pe pm s = POk (j, rest) -> slen rest < slen s.
Proof.
  intros pe pm He Hm s j rest H. unfold val_bodyF in H.
  destruct (skip_ws s) as [|c r] eqn:Ew; [discriminate|].
  apply skip_ws_cons_len in Ew.
  apply (val_dispatchF_len pe pm He Hm) in H. lia.
Qed.

(* elements up to the closing bracket: at least a value and the bracket *)
Lemma elems_bodyF_len : forall pv pe,
  (forall s x rest, pv s = POk (x, rest) -> slen rest < slen s) ->
  (forall s x rest, pe s = POk (x, rest) -> slen rest + 2 <= slen s) ->
  forall s l rest, elems_bodyF pv pe s = POk (l, rest) -> slen rest + 2 <= slen s.
Proof.
  intros pv pe Hv He s l rest H. unfold elems_bodyF in H.
  destruct (pv s) as [[v r]| |] eqn:Ev; try discriminate.
  apply Hv in Ev.
  destruct (skip_ws r) as [|c r'] eqn:Ew; [discriminate|].
  apply skip_ws_cons_len in Ew.
  destruct (N_of_ascii c =? 44)%N eqn:E1.
  - destruct (pe r') as [[vs r'']| |] eqn:Ee; try discriminate.
    injection H as _ <-. apply He in Ee. lia.
  - destruct (N_of_ascii c =? 93)%N eqn:E2; [|discriminate].
    injection H as _ <-. lia.
Qed.

(* members up to the closing brace: at least  "":v}  *)
Lemma members_bodyF_len : forall pv pm,
  (forall s x rest, pv s = POk (x, rest) -> slen rest < slen s) ->
  (forall s x rest, pm s = POk (x, rest) -> slen rest + 5 <= slen s) ->
  forall s l rest, members_bodyF pv pm s = POk (l, rest) -> slen rest + 5 <= slen s.
Proof.
  intros pv pm Hv Hm s l rest H. unfold members_bodyF in H.
  destruct (skip_ws s) as [|c r] eqn:E0; [discriminate|].
  apply skip_ws_cons_len in E0.
  destruct (N_of_ascii c =? 34)%N eqn:E1; [|discriminate].
  destruct (unesc r) as [[k r1]|] eqn:E2; [|discriminate].
  apply unesc_len in E2.
  destruct (skip_ws r1) as [|c1 r2] eqn:E3; [discriminate|].
  apply skip_ws_cons_len in E3.
  destruct (N_of_ascii c1 =? 58)%N eqn:E4; [|discriminate].
  destruct (pv r2) as [[v r3]| |] eqn:E5; try discriminate.
  apply Hv in E5.
  destruct (skip_ws r3) as [|c3 r4] eqn:E6; [discriminate|].
  apply skip_ws_cons_len in E6.
  destruct (N_of_ascii c3 =? 44)%N eqn:E7.
  - destruct (pm r4) as [[ms r5]| |] eqn:E8; try discriminate.
    injection H as _ <-. apply Hm in E8. lia.
  - destruct (N_of_ascii c3 =? 125)%N eqn:E8; [|discriminate].
    injection H as _ <-. lia.
Qed.

Theorem parse_F_consumes : forall f,
  (forall s j rest, parse_valF f s = POk (j, rest) -> slen rest < slen s) /\
  (forall s l rest, parse_elemsF f s = POk (l, rest) -> slen rest + 2 <= slen s) /\
  (forall s l rest, parse_membersF f s = POk (l, rest) -> slen rest + 5 <= slen s).
Proof.
  induction f as [|f [IHv [IHe IHm]]].
  - repeat split; intros s x rest H; discriminate H.
  - repeat split; intros s x rest H.
    + rewrite parse_valF_S in H. exact (val_bodyF_len _ _ IHe IHm s x rest H).
    + rewrite parse_elemsF_S in H. exact (elems_bodyF_len _ _ IHv IHe s x rest H).
    + rewrite parse_membersF_S in H. exact (members_bodyF_len _ _ IHv IHm s x rest H).
Qed.

Theorem parse_valF_consumes : forall f s j rest,
  parse_valF f s = POk (j, rest) -> slen rest < slen s.
Proof. intros f. apply (parse_F_consumes f). Qed.
Theorem parse_elemsF_consumes : forall f s l rest,
  parse_elemsF f s = POk (l, rest) -> slen rest + 2 <= slen s.
Proof. intros f. apply (parse_F_consumes f). Qed.
Theorem parse_membersF_consumes : forall f s l rest,
  parse_membersF f s = POk (l, rest) -> slen rest + 5 <= slen s.
Proof. intros f. apply (parse_F_consumes f). Qed.

(* the same, about the original functions *)
Corollary parse_val_consumes : forall f s j rest,
  parse_val f s = Some (j, rest) -> slen rest < slen s.
Proof.
  intros f s j rest H. rewrite <- parse_valF_erase in H.
  destruct (parse_valF f s) as [[j0 r0]| |] eqn:E; cbn [erase] in H; try discriminate.
  injection H as -> ->. exact (parse_valF_consumes f s j rest E).
Qed.

(* ------------------------------------------------------------------ *)
(* 3. no call with enough fuel answers PFuel                           *)
(* ------------------------------------------------------------------ *)
Lemma val_dispatchF_nofuel : forall pe pm c r,
  pe r <> PFuel -> pm r <> PFuel -> val_dispatchF pe pm c r <> PFuel.
Proof.
  intros pe pm c r He Hm. unfold val_dispatchF. cbv zeta.
  destruct (pe r) as [[le re]| |] eqn:Ee; [| |exfalso; apply He; reflexivity];
  (destruct (pm r) as [[lm rm]| |] eqn:Em; [| |exfalso; apply Hm; reflexivity]);
  split_goal; discriminate.
Qed.

Lemma val_bodyF_nofuel : forall pe pm s,
  (forall r, slen r < slen s -> pe r <> PFuel) ->
  (forall r, slen r < slen s -> pm r <> PFuel) ->
  val_bodyF pe pm s <> PFuel.
Proof.
  intros pe pm s He Hm. unfold val_bodyF.
  destruct (skip_ws s) as [|c r] eqn:Ew; [discriminate|].
  apply skip_ws_cons_len in Ew.
  apply val_dispatchF_nofuel; [apply He | apply Hm]; exact Ew.
Qed.

Lemma elems_bodyF_nofuel : forall pv pe s,
  pv s <> PFuel ->
  (forall v r, pv s = POk (v, r) -> slen r < slen s) ->
  (forall r, slen r + 2 <= slen s -> pe r <> PFuel) ->
  elems_bodyF pv pe s <> PFuel.
Proof.
  intros pv pe s Hv Hl He. unfold elems_bodyF.
  destruct (pv s) as [[v r]| |] eqn:Ev; [|discriminate|exfalso; apply Hv; reflexivity].
  specialize (Hl v r eq_refl).
  destruct (skip_ws r) as [|c r'] eqn:Ew; [discriminate|].
  apply skip_ws_cons_len in Ew.
  destruct (N_of_ascii c =? 44)%N eqn:E1.
  - assert (Hr : pe r' <> PFuel) by (apply He; lia).
    destruct (pe r') as [[vs r'']| |]; [discriminate|discriminate|exact Hr].
  - destruct (N_of_ascii c =? 93)%N; discriminate.
Qed.

Lemma members_bodyF_nofuel : forall pv pm s,
  (forall r, slen r + 3 <= slen s -> pv r <> PFuel) ->
  (forall r v r', pv r = POk (v, r') -> slen r' < slen r) ->
  (forall r, slen r + 5 <= slen s -> pm r <> PFuel) ->
  members_bodyF pv pm s <> PFuel.
Proof.
  intros pv pm s Hv Hl Hm. unfold members_bodyF.
  destruct (skip_ws s) as [|c r] eqn:E0; [discriminate|].
  apply skip_ws_cons_len in E0.
  destruct (N_of_ascii c =? 34)%N eqn:E1; [|discriminate].
  destruct (unesc r) as [[k r1]|] eqn:E2; [|discriminate].
  apply unesc_len in E2.
  destruct (skip_ws r1) as [|c1 r2] eqn:E3; [discriminate|].
  apply skip_ws_cons_len in E3.
  destruct (N_of_ascii c1 =? 58)%N eqn:E4; [|discriminate].
  assert (Hr2 : pv r2 <> PFuel) by (apply Hv; lia).
  destruct (pv r2) as [[v r3]| |] eqn:E5; [|discriminate|exfalso; apply Hr2; reflexivity].
  apply Hl in E5.
  destruct (skip_ws r3) as [|c3 r4] eqn:E6; [discriminate|].
  apply skip_ws_cons_len in E6.
  destruct (N_of_ascii c3 =? 44)%N eqn:E7.
  - assert (Hr4 : pm r4 <> PFuel) by (apply Hm; lia).
    destruct (pm r4) as [[ms r5]| |]; [discriminate|discriminate|exact Hr4].
  - destruct (N_of_ascii c3 =? 125)%N; discriminate.
Qed.

(* The measure.  A value needs more than twice its text; the element list needs one more than
   that, because it hands the same text to parse_val with one unit less; parse_val in turn only
   calls the list functions on a strictly shorter text, which pays for two units. *)
Theorem parse_F_never_fuel : forall f,
  (forall s, 2 * slen s < f -> parse_valF f s <> PFuel) /\
  (forall s, 2 * slen s + 1 < f -> parse_elemsF f s <> PFuel) /\
  (forall s, 2 * slen s < f -> parse_membersF f s <> PFuel).
Proof.
  induction f as [|f [IHv [IHe IHm]]].
  - repeat split; intros s H; lia.
  - repeat split; intros s H.
    + rewrite parse_valF_S. apply val_bodyF_nofuel; intros r Hr; [apply IHe | apply IHm]; lia.
    + rewrite parse_elemsF_S. apply elems_bodyF_nofuel.
      * apply IHv. lia.
      * intros v r Hr. exact (parse_valF_consumes f s v r Hr).
      * intros r Hr. apply IHe. lia.
    + rewrite parse_membersF_S. apply members_bodyF_nofuel.
      * intros r Hr. apply IHv. lia.
      * intros r v r' Hr. exact (parse_valF_consumes f r v r' Hr).
      * intros r Hr. apply IHm. lia.
Qed.

Theorem parse_valF_never_fuel : forall f s, 2 * slen s < f -> parse_valF f s <> PFuel.
Proof. intros f. apply (parse_F_never_fuel f). Qed.
Theorem parse_elemsF_never_fuel : forall f s, 2 * slen s + 1 < f -> parse_elemsF f s <> PFuel.
Proof. intros f. apply (parse_F_never_fuel f). Qed.
Theorem parse_membersF_never_fuel : forall f s, 2 * slen s < f -> parse_membersF f s <> PFuel.
Proof. intros f. apply (parse_F_never_fuel f). Qed.

Lemma parse_fuel_enough : forall s, 2 * slen s < parse_fuel s.
Proof. intros s. unfold parse_fuel. lia. Qed.

Theorem parse_jsonF_never_fuel : forall s, parse_jsonF s <> PFuel.
Proof.
  intros s. unfold parse_jsonF.
  pose proof (parse_valF_never_fuel (parse_fuel s) s (parse_fuel_enough s)) as H.
  destruct (parse_valF (parse_fuel s) s) as [[j r]| |]; [|discriminate|exfalso; apply H; reflexivity].
  destruct (skip_ws r); discriminate.
Qed.

(* the bound is about the measure, not slack everywhere: one unit below what the element list is
   given for "[1" and the run does end on the fuel match *)
Example fuel_is_spent : parse_valF 2 "[1" = PFuel /\ parse_valF 3 "[1" = PSyntax.
Proof. vm_compute. split; reflexivity. Qed.

(* ------------------------------------------------------------------ *)
(* 4. corollaries                                                      *)
(* ------------------------------------------------------------------ *)
Theorem parse_json_none_is_syntax : forall s, parse_json s = None <-> parse_jsonF s = PSyntax.
Proof.
  intros s. rewrite <- parse_jsonF_erase.
  pose proof (parse_jsonF_never_fuel s) as H.
  destruct (parse_jsonF s) as [j| |]; cbn [erase]; split; intros E;
    try discriminate; try reflexivity.
  exfalso. apply H. reflexivity.
Qed.

Theorem parse_json_some_is_ok : forall s j, parse_json s = Some j <-> parse_jsonF s = POk j.
Proof.
  intros s j. rewrite <- parse_jsonF_erase.
  destruct (parse_jsonF s) as [j0| |]; cbn [erase]; split; intros E;
    try discriminate; injection E as ->; reflexivity.
Qed.

(* an answer other than PFuel is final: more fuel gives the same one *)
Definition extF {A : Type} (p p' : string -> pres A) : Prop :=
  forall s, p s <> PFuel -> p' s = p s.

Lemma val_bodyF_stable : forall pe pe' pm pm', extF pe pe' -> extF pm pm' ->
  extF (val_bodyF pe pm) (val_bodyF pe' pm').
Proof.
  intros pe pe' pm pm' He Hm s. unfold val_bodyF.
  destruct (skip_ws s) as [|c r] eqn:Ew; [reflexivity|].
  unfold val_dispatchF. cbv zeta.
  destruct (is_num_char c); [reflexivity|].
  destruct (N_of_ascii c =? 34)%N; [reflexivity|].
  destruct (N_of_ascii c =? 123)%N.
  { destruct (skip_ws r) as [|c2 r2]; [reflexivity|].
    destruct (N_of_ascii c2 =? 125)%N; [reflexivity|].
    specialize (Hm r).
    destruct (pm r) as [[l r']| |] eqn:Ep; intros H.
    - rewrite Hm by discriminate. reflexivity.
    - rewrite Hm by discriminate. reflexivity.
    - exfalso. apply H. reflexivity. }
  destruct (N_of_ascii c =? 91)%N; [|reflexivity].
  destruct (skip_ws r) as [|c2 r2]; [reflexivity|].
  destruct (N_of_ascii c2 =? 93)%N; [reflexivity|].
  specialize (He r).
  destruct (pe r) as [[l r']| |] eqn:Ep; intros H.
  - rewrite He by discriminate. reflexivity.
  - rewrite He by discriminate. reflexivity.
  - exfalso. apply H. reflexivity.
Qed.

Lemma elems_bodyF_stable : forall pv pv' pe pe', extF pv pv' -> extF pe pe' ->
  extF (elems_bodyF pv pe) (elems_bodyF pv' pe').
Proof.
  intros pv pv' pe pe' Hv He s. unfold elems_bodyF.
  specialize (Hv s).
  destruct (pv s) as [[v r]| |] eqn:Ev; intros H.
  - rewrite Hv by discriminate.
    destruct (skip_ws r) as [|c r']; [reflexivity|].
    destruct (N_of_ascii c =? 44)%N; [|reflexivity].
    specialize (He r').
    destruct (pe r') as [[vs r'']| |] eqn:Ee.
    + rewrite He by discriminate. reflexivity.
    + rewrite He by discriminate. reflexivity.
    + exfalso. apply H. reflexivity.
  - rewrite Hv by discriminate. reflexivity.
  - exfalso. apply H. reflexivity.
Qed.

Lemma members_bodyF_stable : forall pv pv' pm pm', extF pv pv' -> extF pm pm' ->
  extF (members_bodyF pv pm) (members_bodyF pv' pm').
Proof.
  intros pv pv' pm pm' Hv Hm s. unfold members_bodyF.
  destruct (skip_ws s) as [|c r]; [reflexivity|].
  destruct (N_of_ascii c =? 34)%N; [|reflexivity].
  destruct (unesc r) as [[k r1]|]; [|reflexivity].
  destruct (skip_ws r1) as [|c1 r2]; [reflexivity|].
  destruct (N_of_ascii c1 =? 58)%N; [|reflexivity].
  specialize (Hv r2).
  destruct (pv r2) as [[v r3]| |] eqn:Ev; intros H.
  - rewrite Hv by discriminate.
    destruct (skip_ws r3) as [|c3 r4]; [reflexivity|].
    destruct (N_of_ascii c3 =? 44)%N; [|reflexivity].
    specialize (Hm r4).
    destruct (pm r4) as [[ms r5]| |] eqn:Em.
    + rewrite Hm by discriminate. reflexivity.
    + rewrite Hm by discriminate. reflexivity.
    + exfalso. apply H. reflexivity.
  - rewrite Hv by discriminate. reflexivity.
  - exfalso. apply H. reflexivity.
Qed.

Lemma parse_F_step : forall f,
  extF (parse_valF f) (parse_valF (S f)) /\
  extF (parse_elemsF f) (parse_elemsF (S f)) /\
  extF (parse_membersF f) (parse_membersF (S f)).
Proof.
  induction f as [|f [IHv [IHe IHm]]].
  - repeat split; intros s H; exfalso; apply H; reflexivity.
  - repeat split; intros s H.
    + rewrite (parse_valF_S (S f)). rewrite parse_valF_S in H |- *.
      exact (val_bodyF_stable _ _ _ _ IHe IHm s H).
    + rewrite (parse_elemsF_S (S f)). rewrite parse_elemsF_S in H |- *.
      exact (elems_bodyF_stable _ _ _ _ IHv IHe s H).
    + rewrite (parse_membersF_S (S f)). rewrite parse_membersF_S in H |- *.
      exact (members_bodyF_stable _ _ _ _ IHv IHm s H).
Qed.

Theorem parse_valF_fuel_stable : forall f g s, f <= g ->
  parse_valF f s <> PFuel -> parse_valF g s = parse_valF f s.
Proof.
  intros f g s Hle H. induction Hle as [|g Hle IH]; [reflexivity|].
  rewrite <- IH. apply (parse_F_step g). rewrite IH. exact H.
Qed.

(* fuel monotonicity, strong form: at or above the top level's fuel the answer is the same,
   a None as much as a Some *)
Theorem parse_val_fuel_stable : forall s f, parse_fuel s <= f ->
  parse_val f s = parse_val (parse_fuel s) s.
Proof.
  intros s f Hle. rewrite <- !parse_valF_erase. f_equal.
  apply parse_valF_fuel_stable; [exact Hle|].
  apply parse_valF_never_fuel. apply parse_fuel_enough.
Qed.

(* so the choice of fuel is not part of the meaning of parse_json *)
Corollary parse_json_any_fuel : forall s f, parse_fuel s <= f ->
  parse_json s = match parse_val f s with
                 | Some (j, r) => match skip_ws r with EmptyString => Some j | String _ _ => None end
                 | None => None
                 end.
Proof. intros s f Hle. rewrite (parse_val_fuel_stable s f Hle). reflexivity. Qed.
