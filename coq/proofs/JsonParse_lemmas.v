(* JsonParse_lemmas.v — parse_json (render j) = Some j for every well-formed tree. *)
From RV Require Import model.Base model.Json model.JsonParse.
From Coq Require Import Lia ZArith NArith ZifyN ZifyNat ZifyBool.
Ltac Zify.zify_post_hook ::= Z.div_mod_to_equations.
Local Open Scope string_scope.

(* ------------------------------------------------------------------ *)
(* strings                                                             *)
(* ------------------------------------------------------------------ *)
Lemma sapp_assoc : forall a b c : string, (a ++ b) ++ c = a ++ (b ++ c).
Proof.
  induction a as [|x a IH]; intros b c; cbn [append].
  - reflexivity.
  - rewrite IH. reflexivity.
Qed.

Lemma sapp_nil_r : forall a : string, a ++ "" = a.
Proof.
  induction a as [|x a IH]; cbn [append].
  - reflexivity.
  - rewrite IH. reflexivity.
Qed.

Lemma slen_app : forall a b : string, String.length (a ++ b) = (String.length a + String.length b)%nat.
Proof.
  induction a as [|x a IH]; intros b; cbn [append String.length].
  - reflexivity.
  - rewrite IH. reflexivity.
Qed.

Lemma ascii_of_code : forall c n, N_of_ascii c = n -> c = ascii_of_N n.
Proof. intros c n H. rewrite <- H. symmetry. apply ascii_N_embedding. Qed.

(* ------------------------------------------------------------------ *)
(* character classes                                                   *)
(* ------------------------------------------------------------------ *)
Lemma num_char_not_ws : forall c, is_num_char c = true -> is_ws c = false.
Proof.
  intros c. destruct c as [[] [] [] [] [] [] [] []]; vm_compute; intros H; congruence.
Qed.

Lemma digit_num_char : forall c, is_digit c = true -> is_num_char c = true.
Proof. intros c H. unfold is_num_char. rewrite H. reflexivity. Qed.

Lemma ws_not_num_char : forall c, is_ws c = true -> is_num_char c = false.
Proof.
  intros c H. destruct (is_num_char c) eqn:E; [|reflexivity].
  apply num_char_not_ws in E. congruence.
Qed.

Lemma skip_ws_nonws : forall c r, is_ws c = false -> skip_ws (String c r) = String c r.
Proof. intros c r H. cbn [skip_ws]. rewrite H. reflexivity. Qed.

Lemma skip_ws_app : forall pre s, all_ws pre -> skip_ws (pre ++ s) = skip_ws s.
Proof.
  unfold all_ws. induction pre as [|c pre IH]; intros s H; cbn [append].
  - reflexivity.
  - cbn [all_wsb] in H. apply andb_true_iff in H. destruct H as [Hc Hp].
    cbn [skip_ws]. rewrite Hc. apply IH. exact Hp.
Qed.

Lemma skip_ws_all : forall s, all_ws s -> skip_ws s = "".
Proof.
  intros s H. rewrite <- (sapp_nil_r s). rewrite skip_ws_app by exact H. reflexivity.
Qed.

(* what may follow a number token: anything but a number character *)
Definition term_ok (rest : string) : Prop :=
  match rest with
  | String c _ => is_num_char c = false
  | EmptyString => True
  end.

Lemma term_ok_ws : forall s, all_ws s -> term_ok s.
Proof.
  unfold all_ws. intros [|c r] H; cbn [term_ok].
  - exact I.
  - cbn [all_wsb] in H. apply andb_true_iff in H. destruct H as [Hc _].
    apply ws_not_num_char. exact Hc.
Qed.

(* ------------------------------------------------------------------ *)
(* number tokens                                                       *)
(* ------------------------------------------------------------------ *)
Fixpoint all_numchar (s : string) : bool :=
  match s with
  | EmptyString => true
  | String c r => is_num_char c && all_numchar r
  end.

Lemma span_num_app : forall lit rest, all_numchar lit = true -> term_ok rest ->
  span_num (lit ++ rest) = (lit, rest).
Proof.
  induction lit as [|c lit IH]; intros rest Hl Hr; cbn [append].
  - destruct rest as [|c r]; cbn [span_num].
    + reflexivity.
    + cbn [term_ok] in Hr. rewrite Hr. reflexivity.
  - cbn [all_numchar] in Hl. apply andb_true_iff in Hl. destruct Hl as [Hc Hl].
    cbn [span_num]. rewrite Hc. rewrite (IH rest Hl Hr). reflexivity.
Qed.

Lemma all_digits_numchar : forall s, all_digits s = true -> all_numchar s = true.
Proof.
  induction s as [|c s IH]; intros H; cbn [all_numchar].
  - reflexivity.
  - cbn [all_digits] in H. apply andb_true_iff in H. destruct H as [Hc Hs].
    rewrite (digit_num_char c Hc). cbn [andb]. apply IH. exact Hs.
Qed.

Lemma skip_digits_all : forall s, all_digits s = true -> skip_digits s = "".
Proof.
  induction s as [|c s IH]; intros H; cbn [skip_digits].
  - reflexivity.
  - cbn [all_digits] in H. apply andb_true_iff in H. destruct H as [Hc Hs].
    rewrite Hc. apply IH. exact Hs.
Qed.

Lemma skip_digits_numchar : forall s, all_numchar (skip_digits s) = true -> all_numchar s = true.
Proof.
  induction s as [|c s IH]; intros H.
  - reflexivity.
  - cbn [skip_digits] in H. destruct (is_digit c) eqn:Ec.
    + cbn [all_numchar]. rewrite (digit_num_char c Ec). cbn [andb]. apply IH. exact H.
    + exact H.
Qed.

Lemma digits1_numchar : forall s r, digits1 s = Some r -> all_numchar r = true -> all_numchar s = true.
Proof.
  intros [|c s] r H Hr; cbn [digits1] in H.
  - discriminate.
  - destruct (is_digit c) eqn:Ec; [|discriminate].
    injection H as <-. cbn [all_numchar]. rewrite (digit_num_char c Ec). cbn [andb].
    apply skip_digits_numchar. exact Hr.
Qed.

Lemma code_num_char : forall c,
  (N_of_ascii c = 45 \/ N_of_ascii c = 43 \/ N_of_ascii c = 46 \/ N_of_ascii c = 101 \/ N_of_ascii c = 69)%N ->
  is_num_char c = true.
Proof.
  intros c H. unfold is_num_char.
  destruct H as [H|[H|[H|[H|H]]]]; rewrite H; cbn; rewrite ?orb_true_r; reflexivity.
Qed.

Lemma num_exp_numchar : forall s, num_exp s = true -> all_numchar s = true.
Proof.
  intros [|c r] H.
  - reflexivity.
  - cbn [num_exp] in H.
    destruct ((N_of_ascii c =? 101) || (N_of_ascii c =? 69))%N eqn:Ec; [|discriminate].
    assert (Hc : is_num_char c = true).
    { apply code_num_char. apply orb_true_iff in Ec. destruct Ec as [E|E]; apply N.eqb_eq in E; auto. }
    cbn [all_numchar]. rewrite Hc. cbn [andb].
    destruct r as [|c2 r2].
    + cbn [digits1] in H. discriminate.
    + destruct ((N_of_ascii c2 =? 43) || (N_of_ascii c2 =? 45))%N eqn:E2.
      * assert (Hc2 : is_num_char c2 = true).
        { apply code_num_char. apply orb_true_iff in E2. destruct E2 as [E|E]; apply N.eqb_eq in E; auto. }
        cbn [all_numchar]. rewrite Hc2. cbn [andb].
        destruct (digits1 r2) as [[|x y]|] eqn:Ed; try discriminate.
        apply (digits1_numchar _ _ Ed). reflexivity.
      * destruct (digits1 (String c2 r2)) as [[|x y]|] eqn:Ed; try discriminate.
        apply (digits1_numchar _ _ Ed). reflexivity.
Qed.

Lemma num_frac_numchar : forall s, num_frac s = true -> all_numchar s = true.
Proof.
  intros [|c r] H.
  - reflexivity.
  - cbn [num_frac] in H. destruct (N_of_ascii c =? 46)%N eqn:Ec.
    + apply N.eqb_eq in Ec.
      cbn [all_numchar]. rewrite (code_num_char c) by auto. cbn [andb].
      destruct (digits1 r) as [r'|] eqn:Ed; [|discriminate].
      apply (digits1_numchar _ _ Ed). apply num_exp_numchar. exact H.
    + apply num_exp_numchar. exact H.
Qed.

Lemma num_int_numchar : forall s, num_int s = true -> all_numchar s = true.
Proof.
  intros [|c r] H; cbn [num_int] in H.
  - discriminate.
  - destruct (N_of_ascii c =? 48)%N eqn:E0.
    + apply N.eqb_eq in E0.
      assert (Hd : is_digit c = true) by (unfold is_digit; rewrite E0; reflexivity).
      cbn [all_numchar]. rewrite (digit_num_char c Hd). cbn [andb].
      apply num_frac_numchar. exact H.
    + destruct (is_digit c) eqn:Hd; [|discriminate].
      cbn [all_numchar]. rewrite (digit_num_char c Hd). cbn [andb].
      apply skip_digits_numchar. apply num_frac_numchar. exact H.
Qed.

Lemma valid_number_numchar : forall s, valid_number s = true -> all_numchar s = true.
Proof.
  intros [|c r] H; cbn [valid_number] in H.
  - discriminate.
  - destruct (N_of_ascii c =? 45)%N eqn:Ec.
    + apply N.eqb_eq in Ec. cbn [all_numchar]. rewrite (code_num_char c) by auto. cbn [andb].
      apply num_int_numchar. exact H.
    + apply num_int_numchar. exact H.
Qed.

(* ------------------------------------------------------------------ *)
(* decimal printing read back                                          *)
(* ------------------------------------------------------------------ *)
Lemma read_dec_app : forall a b acc, read_dec (a ++ b) acc = read_dec b (read_dec a acc).
Proof.
  induction a as [|c a IH]; intros b acc; cbn [append read_dec].
  - reflexivity.
  - apply IH.
Qed.

Lemma all_digits_app : forall a b, all_digits a = true -> all_digits b = true -> all_digits (a ++ b) = true.
Proof.
  induction a as [|c a IH]; intros b Ha Hb; cbn [append].
  - exact Hb.
  - cbn [all_digits] in *. apply andb_true_iff in Ha. destruct Ha as [Hc Ha].
    rewrite Hc. cbn [andb]. apply IH; assumption.
Qed.

Lemma digit_char_code : forall n, (n < 10)%N -> N_of_ascii (digit_char n) = (48 + n)%N.
Proof. intros n H. unfold digit_char. apply N_ascii_embedding. lia. Qed.

Lemma digit_char_digit : forall n, (n < 10)%N -> is_digit (digit_char n) = true.
Proof. intros n H. unfold is_digit. rewrite (digit_char_code n H). lia. Qed.

(* the digits of a printed number: all digits, read back to n, leading one non-zero when n > 0 *)
Definition dec_spec (n : N) (ds : string) : Prop :=
  all_digits ds = true /\ read_dec ds 0%N = n /\
  exists d ds', ds = String d ds' /\ ((0 < n)%N -> N_of_ascii d <> 48%N).

Lemma dec_spec_single : forall n, (n / 10 = 0)%N -> dec_spec n (String (digit_char (n mod 10)) "").
Proof.
  intros n H. assert (Hm : (n mod 10 = n)%N) by lia. assert (Hl : (n < 10)%N) by lia.
  rewrite Hm. unfold dec_spec. split; [|split].
  - cbn [all_digits]. rewrite (digit_char_digit n Hl). reflexivity.
  - cbn [read_dec]. rewrite (digit_char_code n Hl). lia.
  - exists (digit_char n), "". split; [reflexivity|].
    intros Hp. rewrite (digit_char_code n Hl). lia.
Qed.

Lemma pos_digits_S : forall f n acc, pos_digits (S f) n acc =
  if (n / 10 =? 0)%N then String (digit_char (n mod 10)) acc
  else pos_digits f (n / 10)%N (String (digit_char (n mod 10)) acc).
Proof. reflexivity. Qed.

Lemma pos_digits_spec : forall f n acc, (n < 2 ^ N.of_nat (S f))%N ->
  exists ds, pos_digits (S f) n acc = ds ++ acc /\ dec_spec n ds.
Proof.
  induction f as [|f IH]; intros n acc Hn; rewrite pos_digits_S; destruct (n / 10 =? 0)%N eqn:E.
  - apply N.eqb_eq in E. exists (String (digit_char (n mod 10)) ""). split; [reflexivity|].
    apply dec_spec_single. exact E.
  - apply N.eqb_neq in E. exfalso. change (2 ^ N.of_nat 1)%N with 2%N in Hn. lia.
  - apply N.eqb_eq in E. exists (String (digit_char (n mod 10)) ""). split; [reflexivity|].
    apply dec_spec_single. exact E.
  - apply N.eqb_neq in E.
    assert (Hq : (n / 10 < 2 ^ N.of_nat (S f))%N).
    { rewrite Nat2N.inj_succ in Hn. rewrite N.pow_succ_r' in Hn.
      remember (2 ^ N.of_nat (S f))%N as X. lia. }
    destruct (IH (n / 10)%N (String (digit_char (n mod 10)) acc) Hq) as [ds [Hds [Ha [Hr [d [ds' [Hd Hnz]]]]]]].
    exists (ds ++ String (digit_char (n mod 10)) ""). split.
    + rewrite Hds. rewrite sapp_assoc. reflexivity.
    + assert (Hl : (n mod 10 < 10)%N) by lia.
      unfold dec_spec. split; [|split].
      * apply all_digits_app; [exact Ha|]. cbn [all_digits]. rewrite (digit_char_digit _ Hl). reflexivity.
      * rewrite read_dec_app. rewrite Hr. cbn [read_dec]. rewrite (digit_char_code _ Hl). lia.
      * exists d, (ds' ++ String (digit_char (n mod 10)) ""). split.
        -- rewrite Hd. reflexivity.
        -- intros _. apply Hnz. lia.
Qed.

Lemma pos_size_gt : forall p, (N.pos p < 2 ^ N.of_nat (Pos.size_nat p))%N.
Proof.
  induction p as [p IH|p IH|]; cbn [Pos.size_nat].
  - rewrite Nat2N.inj_succ, N.pow_succ_r'. remember (2 ^ N.of_nat (Pos.size_nat p))%N as X. lia.
  - rewrite Nat2N.inj_succ, N.pow_succ_r'. remember (2 ^ N.of_nat (Pos.size_nat p))%N as X. lia.
  - cbn. lia.
Qed.

Lemma N_to_dec_spec : forall p, dec_spec (N.pos p) (N_to_dec (N.pos p)).
Proof.
  intros p. unfold N_to_dec.
  destruct (pos_digits_spec (N.size_nat (N.pos p)) (N.pos p) "") as [ds [Hds Hs]].
  - cbn [N.size_nat]. rewrite Nat2N.inj_succ, N.pow_succ_r'.
    pose proof (pos_size_gt p) as H. remember (2 ^ N.of_nat (Pos.size_nat p))%N as X. lia.
  - rewrite Hds. rewrite sapp_nil_r. exact Hs.
Qed.

(* ------------------------------------------------------------------ *)
(* the number reader on printed integers                               *)
(* ------------------------------------------------------------------ *)
Lemma num_int_digits : forall d ds, is_digit d = true -> N_of_ascii d <> 48%N -> all_digits ds = true ->
  num_int (String d ds) = true.
Proof.
  intros d ds Hd Hnz Hds. cbn [num_int].
  destruct (N_of_ascii d =? 48)%N eqn:E; [apply N.eqb_eq in E; contradiction|].
  rewrite Hd. rewrite (skip_digits_all ds Hds). reflexivity.
Qed.

Lemma digit_not_minus : forall d, is_digit d = true -> (N_of_ascii d =? 45)%N = false.
Proof. intros d H. unfold is_digit in H. lia. Qed.

Lemma parse_num_pos : forall d ds rest,
  is_digit d = true -> N_of_ascii d <> 48%N -> all_digits ds = true -> term_ok rest ->
  parse_num (String d ds ++ rest) = Some (JNum (Z.of_N (read_dec (String d ds) 0%N)), rest).
Proof.
  intros d ds rest Hd Hnz Hds Hr.
  assert (Hall : all_digits (String d ds) = true) by (cbn [all_digits]; rewrite Hd, Hds; reflexivity).
  pose proof (digit_not_minus d Hd) as Hm.
  unfold parse_num. rewrite (span_num_app _ _ (all_digits_numchar _ Hall) Hr).
  assert (Hv : valid_number (String d ds) = true).
  { cbn [valid_number]. rewrite Hm. apply num_int_digits; assumption. }
  assert (Hi : is_int_lit (String d ds) = true).
  { unfold is_int_lit. cbn [strip_minus]. rewrite Hm. rewrite Hall.
    destruct ds as [|b [|b2 ds2]]; cbn [is_minus_zero]; rewrite ?Hm; reflexivity. }
  rewrite Hv, Hi. cbn [read_int]. rewrite Hm. reflexivity.
Qed.

Lemma parse_num_neg : forall d ds rest,
  is_digit d = true -> N_of_ascii d <> 48%N -> all_digits ds = true -> term_ok rest ->
  parse_num (String "-" (String d ds) ++ rest)
  = Some (JNum (Z.opp (Z.of_N (read_dec (String d ds) 0%N))), rest).
Proof.
  intros d ds rest Hd Hnz Hds Hr.
  assert (Hall : all_digits (String d ds) = true) by (cbn [all_digits]; rewrite Hd, Hds; reflexivity).
  assert (Hnc : all_numchar (String "-" (String d ds)) = true).
  { change (all_numchar (String "-" (String d ds))) with (all_numchar (String d ds)).
    apply all_digits_numchar. exact Hall. }
  unfold parse_num. rewrite (span_num_app _ _ Hnc Hr).
  assert (Hv : valid_number (String "-" (String d ds)) = true).
  { change (valid_number (String "-" (String d ds))) with (num_int (String d ds)).
    apply num_int_digits; assumption. }
  assert (Hi : is_int_lit (String "-" (String d ds)) = true).
  { unfold is_int_lit.
    change (strip_minus (String "-" (String d ds))) with (String d ds). rewrite Hall.
    destruct (N_of_ascii d =? 48)%N eqn:E; [apply N.eqb_eq in E; contradiction|].
    destruct ds as [|b ds2]; cbn [is_minus_zero]; rewrite ?E, ?andb_false_r; reflexivity. }
  rewrite Hv, Hi. reflexivity.
Qed.

Lemma parse_num_Z : forall z rest, term_ok rest ->
  parse_num (Z_to_dec z ++ rest) = Some (JNum z, rest).
Proof.
  intros z rest Hr. destruct z as [|p|p]; cbn [Z_to_dec].
  - unfold parse_num. rewrite (span_num_app "0" rest eq_refl Hr). reflexivity.
  - destruct (N_to_dec_spec p) as [Ha [Hv [d [ds [Hd Hnz]]]]].
    rewrite Hd in *. cbn [all_digits] in Ha. apply andb_true_iff in Ha. destruct Ha as [Hdd Hds].
    rewrite (parse_num_pos d ds rest Hdd (Hnz ltac:(lia)) Hds Hr). rewrite Hv. reflexivity.
  - destruct (N_to_dec_spec p) as [Ha [Hv [d [ds [Hd Hnz]]]]].
    rewrite Hd in *. cbn [all_digits] in Ha. apply andb_true_iff in Ha. destruct Ha as [Hdd Hds].
    rewrite (parse_num_neg d ds rest Hdd (Hnz ltac:(lia)) Hds Hr). rewrite Hv. reflexivity.
Qed.

(* the first character of a printed integer is a number character *)
Lemma Z_to_dec_head : forall z, exists c r, Z_to_dec z = String c r /\ is_num_char c = true.
Proof.
  intros [|p|p]; cbn [Z_to_dec].
  - exists "0"%char, "". split; reflexivity.
  - destruct (N_to_dec_spec p) as [Ha [_ [d [ds [Hd _]]]]]. rewrite Hd in *.
    cbn [all_digits] in Ha. apply andb_true_iff in Ha. destruct Ha as [Hdd _].
    exists d, ds. split; [reflexivity|]. apply digit_num_char. exact Hdd.
  - exists "-"%char, (N_to_dec (N.pos p)). split; reflexivity.
Qed.

Lemma parse_num_lit : forall lit rest, valid_number lit = true -> is_int_lit lit = false -> term_ok rest ->
  parse_num (lit ++ rest) = Some (JNumF lit, rest).
Proof.
  intros lit rest Hv Hi Hr. unfold parse_num.
  rewrite (span_num_app _ _ (valid_number_numchar _ Hv) Hr). rewrite Hv, Hi. reflexivity.
Qed.

Lemma valid_number_head : forall lit, valid_number lit = true ->
  exists c r, lit = String c r /\ is_num_char c = true.
Proof.
  intros lit Hv. pose proof (valid_number_numchar _ Hv) as Hn.
  destruct lit as [|c r]; [discriminate|].
  cbn [all_numchar] in Hn. apply andb_true_iff in Hn. destruct Hn as [Hc _].
  exists c, r. split; [reflexivity|exact Hc].
Qed.

(* ------------------------------------------------------------------ *)
(* strings: unesc undoes escape                                        *)
(* ------------------------------------------------------------------ *)
(* what escape emits for one byte outside the E2 80 A8/A9 look-ahead *)
Definition esc1 (c : ascii) : string :=
  let b := N_of_ascii c in
  if (b =? 34)%N then String "\" (String c "")
  else if (b =? 92)%N then String "\" (String c "")
  else if (b =? 8)%N then "\b"
  else if (b =? 12)%N then "\f"
  else if (b =? 10)%N then "\n"
  else if (b =? 13)%N then "\r"
  else if (b =? 9)%N then "\t"
  else if ((b <? 32) || (b =? 60) || (b =? 62) || (b =? 38))%N then esc_u00 b
  else String c "".

Definition esc_chain (c : ascii) (r : string) : string :=
  let b := N_of_ascii c in
  if (b =? 34)%N then String "\" (String c (escape r))
  else if (b =? 92)%N then String "\" (String c (escape r))
  else if (b =? 8)%N then "\b" ++ escape r
  else if (b =? 12)%N then "\f" ++ escape r
  else if (b =? 10)%N then "\n" ++ escape r
  else if (b =? 13)%N then "\r" ++ escape r
  else if (b =? 9)%N then "\t" ++ escape r
  else if ((b <? 32) || (b =? 60) || (b =? 62) || (b =? 38))%N then esc_u00 b ++ escape r
  else String c (escape r).

Lemma esc_chain_esc1 : forall c r, esc_chain c r = esc1 c ++ escape r.
Proof.
  intros c r. unfold esc_chain, esc1.
  repeat match goal with |- context [if ?b then _ else _] => destruct b; [reflexivity|] end.
  reflexivity.
Qed.

Lemma escape_S : forall c r, escape (String c r) =
  match (N_of_ascii c =? 226)%N, r with
  | true, String c1 (String c2 r2) =>
    if (N_of_ascii c1 =? 128)%N && ((N_of_ascii c2 =? 168)%N || (N_of_ascii c2 =? 169)%N)
    then "\u202" ++ String (hex_digit (N_of_ascii c2 - 160)) (escape r2)
    else String c (escape r)
  | _, _ => esc_chain c r
  end.
Proof. reflexivity. Qed.

Lemma esc1_plain : forall c, N_of_ascii c = 226%N -> esc1 c = String c "".
Proof. intros c H. unfold esc1. rewrite H. reflexivity. Qed.

Lemma escape_cons : forall c r,
  (exists c1 c2 r2, r = String c1 (String c2 r2) /\ N_of_ascii c = 226%N /\ N_of_ascii c1 = 128%N /\
     (N_of_ascii c2 = 168%N \/ N_of_ascii c2 = 169%N) /\
     escape (String c r) = "\u202" ++ String (hex_digit (N_of_ascii c2 - 160)) (escape r2))
  \/ escape (String c r) = esc1 c ++ escape r.
Proof.
  intros c r. rewrite escape_S. destruct (N_of_ascii c =? 226)%N eqn:Ec.
  - apply N.eqb_eq in Ec. destruct r as [|c1 [|c2 r2]].
    + right. apply esc_chain_esc1.
    + right. apply esc_chain_esc1.
    + destruct ((N_of_ascii c1 =? 128)%N && ((N_of_ascii c2 =? 168)%N || (N_of_ascii c2 =? 169)%N)) eqn:E.
      * left. apply andb_true_iff in E. destruct E as [E1 E2].
        apply N.eqb_eq in E1. apply orb_true_iff in E2.
        exists c1, c2, r2. repeat split; try assumption.
        destruct E2 as [E2|E2]; apply N.eqb_eq in E2; auto.
      * right. rewrite (esc1_plain c Ec). reflexivity.
  - right. apply esc_chain_esc1.
Qed.

Lemma unesc_esc1 : forall c t, unesc (esc1 c ++ t) = on_fst (String c) (unesc t).
Proof.
  intros c t. destruct c as [[] [] [] [] [] [] [] []]; reflexivity.
Qed.

Lemma unesc_ls : forall c2 t, (N_of_ascii c2 = 168%N \/ N_of_ascii c2 = 169%N) ->
  unesc ("\u202" ++ String (hex_digit (N_of_ascii c2 - 160)) t)
  = on_fst (fun x => String (ascii_of_N 226) (String (ascii_of_N 128) (String c2 x))) (unesc t).
Proof.
  intros c2 t [H|H]; rewrite (ascii_of_code c2 _ H); reflexivity.
Qed.

Lemma unesc_escape_n : forall n s, (String.length s <= n)%nat ->
  forall rest, unesc (escape s ++ String """" rest) = Some (s, rest).
Proof.
  induction n as [|n IH]; intros s Hn rest.
  - destruct s as [|c r]; [reflexivity|]. cbn [String.length] in Hn. lia.
  - destruct s as [|c r]; [reflexivity|]. cbn [String.length] in Hn.
    destruct (escape_cons c r) as [[c1 [c2 [r2 [Hr [Hc [Hc1 [Hc2 He]]]]]]]|He]; rewrite He.
    + subst r. cbn [String.length] in Hn.
      change (("\u202" ++ String (hex_digit (N_of_ascii c2 - 160)) (escape r2)) ++ String """" rest)
        with ("\u202" ++ String (hex_digit (N_of_ascii c2 - 160)) (escape r2 ++ String """" rest)).
      rewrite (unesc_ls c2 _ Hc2). rewrite (IH r2 ltac:(lia) rest). cbn [on_fst].
      rewrite (ascii_of_code c _ Hc), (ascii_of_code c1 _ Hc1). reflexivity.
    + rewrite sapp_assoc. rewrite unesc_esc1. rewrite (IH r ltac:(lia) rest). reflexivity.
Qed.

Lemma unesc_escape : forall s rest, unesc (escape s ++ String """" rest) = Some (s, rest).
Proof. intros s rest. apply (unesc_escape_n (String.length s)). lia. Qed.

Lemma unesc_quote : forall s rest, unesc (escape s ++ """" ++ rest) = Some (s, rest).
Proof. intros s rest. apply unesc_escape. Qed.

(* ------------------------------------------------------------------ *)
(* induction over the nested tree                                      *)
(* ------------------------------------------------------------------ *)
Section JsonInd.
  Variable P : json -> Prop.
  Hypothesis Hnull : P JNull.
  Hypothesis Hbool : forall b, P (JBool b).
  Hypothesis Hnum : forall z, P (JNum z).
  Hypothesis Hnumf : forall lit, P (JNumF lit).
  Hypothesis Hstr : forall s, P (JStr s).
  Hypothesis Harr : forall l, Forall P l -> P (JArr l).
  Hypothesis Hobj : forall l, Forall (fun p => P (snd p)) l -> P (JObj l).

  Fixpoint json_ind2 (j : json) : P j :=
    match j with
    | JNull => Hnull
    | JBool b => Hbool b
    | JNum z => Hnum z
    | JNumF lit => Hnumf lit
    | JStr s => Hstr s
    | JArr l =>
      Harr l ((fix go (l : list json) : Forall P l :=
                 match l with
                 | [] => Forall_nil P
                 | x :: r => Forall_cons x (json_ind2 x) (go r)
                 end) l)
    | JObj l =>
      Hobj l ((fix go (l : list (string * json)) : Forall (fun p => P (snd p)) l :=
                 match l with
                 | [] => Forall_nil _
                 | x :: r => Forall_cons x (json_ind2 (snd x)) (go r)
                 end) l)
    end.
End JsonInd.

(* ------------------------------------------------------------------ *)
(* shape of rendered text                                              *)
(* ------------------------------------------------------------------ *)
Lemma num_char_codes : forall c, is_num_char c = true ->
  is_ws c = false /\ N_of_ascii c <> 93%N /\ N_of_ascii c <> 125%N.
Proof.
  intros c. destruct c as [[] [] [] [] [] [] [] []]; vm_compute; intros H;
    try discriminate H; repeat split; intros H'; discriminate H'.
Qed.

Lemma render_head : forall j, wf_json j ->
  exists c r, render j = String c r /\ is_ws c = false /\ N_of_ascii c <> 93%N /\ N_of_ascii c <> 125%N.
Proof.
  intros j Hw. destruct j as [|b|z|lit|s|l|l].
  - exists "n"%char, "ull". repeat split; try reflexivity; intros H; discriminate H.
  - destruct b.
    + exists "t"%char, "rue". repeat split; try reflexivity; intros H; discriminate H.
    + exists "f"%char, "alse". repeat split; try reflexivity; intros H; discriminate H.
  - destruct (Z_to_dec_head z) as [c [r [Hz Hc]]]. exists c, r.
    split; [exact Hz|]. apply num_char_codes. exact Hc.
  - unfold wf_json in Hw. cbn [wf_jsonb] in Hw. apply andb_true_iff in Hw. destruct Hw as [Hv _].
    destruct (valid_number_head lit Hv) as [c [r [Hl Hc]]]. exists c, r.
    split; [exact Hl|]. apply num_char_codes. exact Hc.
  - exists """"%char, (escape s ++ """"). repeat split; try reflexivity; intros H; discriminate H.
  - exists "["%char, (join "," (map render l) ++ "]"). repeat split; try reflexivity; intros H; discriminate H.
  - exists "{"%char, (join "," (map (fun p => quote (fst p) ++ ":" ++ render (snd p)) l) ++ "}").
    repeat split; try reflexivity; intros H; discriminate H.
Qed.

Lemma render_len_pos : forall j, wf_json j -> (1 <= String.length (render j))%nat.
Proof.
  intros j Hw. destruct (render_head j Hw) as [c [r [H _]]]. rewrite H. cbn [String.length]. lia.
Qed.

Lemma join_cons2 : forall sep a b r, join sep (a :: b :: r) = a ++ sep ++ join sep (b :: r).
Proof. reflexivity. Qed.

Lemma join_head : forall sep c r tl, exists r', join sep (String c r :: tl) = String c r'.
Proof.
  intros sep c r tl. destruct tl as [|y tl].
  - exists r. reflexivity.
  - eexists. rewrite join_cons2. cbn [append]. reflexivity.
Qed.

Definition member (p : string * json) : string := quote (fst p) ++ ":" ++ render (snd p).

Lemma render_arr_len : forall l,
  String.length (render (JArr l)) = (2 + String.length (join "," (map render l)))%nat.
Proof.
  intros l. cbn [render]. cbn [append String.length]. rewrite slen_app. cbn [String.length]. lia.
Qed.

Lemma render_obj_len : forall l,
  String.length (render (JObj l)) = (2 + String.length (join "," (map member l)))%nat.
Proof.
  intros l. change (render (JObj l)) with (String "{" (join "," (map member l) ++ "}")).
  cbn [String.length]. rewrite slen_app. cbn [String.length]. lia.
Qed.

Lemma member_shape : forall k v tail,
  (quote k ++ ":" ++ render v) ++ tail
  = String """" (escape k ++ String """" (String ":" (render v ++ tail))).
Proof.
  intros k v tail. unfold quote. cbn [append]. rewrite !sapp_assoc. reflexivity.
Qed.

Lemma member_len : forall k v,
  (String.length (render v) + 3 <= String.length (quote k ++ ":" ++ render v))%nat.
Proof.
  intros k v. unfold quote. cbn [append String.length]. rewrite !slen_app. cbn [String.length]. lia.
Qed.

(* ------------------------------------------------------------------ *)
(* one step of the value-level functions                               *)
(* ------------------------------------------------------------------ *)
Lemma parse_val_S : forall f s, parse_val (S f) s = val_body (parse_elems f) (parse_members f) s.
Proof. reflexivity. Qed.
Lemma parse_elems_S : forall f s, parse_elems (S f) s = elems_body (parse_val f) (parse_elems f) s.
Proof. reflexivity. Qed.
Lemma parse_members_S : forall f s, parse_members (S f) s = members_body (parse_val f) (parse_members f) s.
Proof. reflexivity. Qed.

Lemma val_body_num : forall pe pm c r, is_num_char c = true -> val_body pe pm (String c r) = parse_num (String c r).
Proof.
  intros pe pm c r H. unfold val_body. rewrite (skip_ws_nonws c r (num_char_not_ws c H)).
  unfold val_dispatch. rewrite H. reflexivity.
Qed.

Lemma val_body_str : forall pe pm r,
  val_body pe pm (String """" r) = match unesc r with Some (k, r') => Some (JStr k, r') | None => None end.
Proof. reflexivity. Qed.

Lemma val_body_arr : forall pe pm R c r', skip_ws R = String c r' -> N_of_ascii c <> 93%N ->
  val_body pe pm (String "[" R) = match pe R with Some (l, r') => Some (JArr l, r') | None => None end.
Proof.
  intros pe pm R c r' Hs Hc.
  change (val_body pe pm (String "[" R)) with
    (match skip_ws R with
     | String c2 r2 => if (N_of_ascii c2 =? 93)%N then Some (JArr [], r2)
                       else match pe R with Some (l, r') => Some (JArr l, r') | None => None end
     | EmptyString => None
     end).
  rewrite Hs. destruct (N_of_ascii c =? 93)%N eqn:E; [apply N.eqb_eq in E; contradiction|]. reflexivity.
Qed.

Lemma val_body_obj : forall pe pm R c r', skip_ws R = String c r' -> N_of_ascii c <> 125%N ->
  val_body pe pm (String "{" R) = match pm R with Some (l, r') => Some (JObj l, r') | None => None end.
Proof.
  intros pe pm R c r' Hs Hc.
  change (val_body pe pm (String "{" R)) with
    (match skip_ws R with
     | String c2 r2 => if (N_of_ascii c2 =? 125)%N then Some (JObj [], r2)
                       else match pm R with Some (l, r') => Some (JObj l, r') | None => None end
     | EmptyString => None
     end).
  rewrite Hs. destruct (N_of_ascii c =? 125)%N eqn:E; [apply N.eqb_eq in E; contradiction|]. reflexivity.
Qed.

(* ------------------------------------------------------------------ *)
(* the round trip, with an arbitrary continuation                      *)
(* ------------------------------------------------------------------ *)
Definition pv_ok (j : json) : Prop :=
  wf_json j -> forall f rest, term_ok rest -> (2 * String.length (render j) <= S f)%nat ->
  parse_val f (render j ++ rest) = Some (j, rest).

Lemma parse_elems_render : forall l, Forall pv_ok l -> Forall wf_json l -> l <> [] ->
  forall f rest, (2 * String.length (join "," (map render l)) <= f)%nat ->
  parse_elems f (join "," (map render l) ++ String "]" rest) = Some (l, rest).
Proof.
  induction l as [|x l IH]; intros Hp Hw Hne f rest Hf; [contradiction|].
  inversion Hp as [|x0 l0 Hpx Hpl]; subst x0 l0. inversion Hw as [|x0 l0 Hwx Hwl]; subst x0 l0.
  pose proof (render_len_pos x Hwx) as Hlx.
  destruct l as [|y l'].
  - cbn [map join] in *. destruct f as [|f]; [lia|].
    rewrite parse_elems_S. unfold elems_body.
    rewrite (Hpx Hwx f (String "]" rest) eq_refl ltac:(lia)). reflexivity.
  - cbn [map] in *. rewrite join_cons2 in *. rewrite !slen_app in Hf. cbn [String.length] in Hf.
    destruct f as [|f]; [lia|].
    rewrite parse_elems_S. unfold elems_body. rewrite !sapp_assoc. cbn [append].
    remember (join "," (render y :: map render l') ++ String "]" rest) as T eqn:HT.
    rewrite (Hpx Hwx f (String "," T) eq_refl ltac:(lia)).
    change (skip_ws (String "," T)) with (String "," T).
    cbv beta iota. change (N_of_ascii "," =? 44)%N with true. cbv beta iota.
    subst T. rewrite (IH Hpl Hwl ltac:(discriminate) f rest ltac:(lia)). reflexivity.
Qed.

Lemma members_body_last : forall pv pm k v X rest, pv X = Some (v, String "}" rest) ->
  members_body pv pm (String """" (escape k ++ String """" (String ":" X))) = Some ([(k, v)], rest).
Proof.
  intros pv pm k v X rest H. unfold members_body.
  rewrite skip_ws_nonws by reflexivity. cbv beta iota.
  change (N_of_ascii """" =? 34)%N with true. cbv beta iota.
  rewrite unesc_escape.
  change (skip_ws (String ":" X)) with (String ":" X). cbv beta iota.
  change (N_of_ascii ":" =? 58)%N with true. cbv beta iota.
  rewrite H. reflexivity.
Qed.

Lemma members_body_more : forall pv pm k v X T, pv X = Some (v, String "," T) ->
  members_body pv pm (String """" (escape k ++ String """" (String ":" X)))
  = match pm T with Some (ms, r5) => Some ((k, v) :: ms, r5) | None => None end.
Proof.
  intros pv pm k v X T H. unfold members_body.
  rewrite skip_ws_nonws by reflexivity. cbv beta iota.
  change (N_of_ascii """" =? 34)%N with true. cbv beta iota.
  rewrite unesc_escape.
  change (skip_ws (String ":" X)) with (String ":" X). cbv beta iota.
  change (N_of_ascii ":" =? 58)%N with true. cbv beta iota.
  rewrite H. reflexivity.
Qed.

Lemma parse_members_render : forall l,
  Forall (fun p => pv_ok (snd p)) l -> Forall (fun p => wf_json (snd p)) l -> l <> [] ->
  forall f rest, (2 * String.length (join "," (map member l)) <= f)%nat ->
  parse_members f (join "," (map member l) ++ String "}" rest) = Some (l, rest).
Proof.
  induction l as [|x l IH]; intros Hp Hw Hne f rest Hf; [contradiction|].
  inversion Hp as [|x0 l0 Hpx Hpl]; subst x0 l0. inversion Hw as [|x0 l0 Hwx Hwl]; subst x0 l0.
  destruct x as [k v]. cbn [snd] in Hpx, Hwx.
  pose proof (member_len k v) as Hlm.
  destruct l as [|y l'].
  - cbn [map join] in *. unfold member in *. cbn [fst snd] in *.
    destruct f as [|f]; [lia|].
    rewrite parse_members_S. rewrite member_shape.
    apply members_body_last. apply (Hpx Hwx f (String "}" rest) eq_refl). lia.
  - cbn [map] in *. rewrite join_cons2 in *. rewrite !slen_app in Hf. cbn [String.length] in Hf.
    unfold member at 1. unfold member at 1 in Hf. cbn [fst snd] in *.
    destruct f as [|f]; [lia|].
    rewrite parse_members_S. rewrite sapp_assoc. rewrite member_shape. cbn [append].
    remember (join "," (member y :: map member l') ++ String "}" rest) as T eqn:HT.
    rewrite (members_body_more _ _ k v _ T).
    + subst T. rewrite (IH Hpl Hwl ltac:(discriminate) f rest ltac:(lia)). reflexivity.
    + apply (Hpx Hwx f (String "," T) eq_refl). lia.
Qed.

Lemma wf_arr : forall l, wf_json (JArr l) -> Forall wf_json l.
Proof.
  unfold wf_json. intros l H. cbn [wf_jsonb] in H. apply Forall_forall. intros x Hx.
  exact (proj1 (forallb_forall wf_jsonb l) H x Hx).
Qed.

Lemma wf_obj : forall l, wf_json (JObj l) -> Forall (fun p => wf_json (snd p)) l.
Proof.
  unfold wf_json. intros l H. cbn [wf_jsonb] in H. apply Forall_forall. intros x Hx.
  exact (proj1 (forallb_forall (fun p => wf_jsonb (snd p)) l) H x Hx).
Qed.

Lemma parse_val_render : forall j, pv_ok j.
Proof.
  induction j as [|b|z|lit|s|l HF|l HF] using json_ind2; unfold pv_ok; intros Hw f rest Hr Hf.
  - destruct f as [|f]; [cbn in Hf; lia|]. reflexivity.
  - destruct f as [|f]; [destruct b; cbn in Hf; lia|]. destruct b; reflexivity.
  - pose proof (render_len_pos _ Hw) as Hl. destruct f as [|f]; [lia|].
    cbn [render] in *. destruct (Z_to_dec_head z) as [c [r [Hz Hc]]].
    rewrite parse_val_S. rewrite Hz. cbn [append]. rewrite (val_body_num _ _ c _ Hc).
    change (String c (r ++ rest)) with (String c r ++ rest). rewrite <- Hz.
    apply parse_num_Z. exact Hr.
  - pose proof (render_len_pos _ Hw) as Hl. destruct f as [|f]; [lia|].
    cbn [render] in *. unfold wf_json in Hw. cbn [wf_jsonb] in Hw.
    apply andb_true_iff in Hw. destruct Hw as [Hv Hi]. apply negb_true_iff in Hi.
    destruct (valid_number_head lit Hv) as [c [r [Hz Hc]]].
    rewrite parse_val_S. rewrite Hz. cbn [append]. rewrite (val_body_num _ _ c _ Hc).
    change (String c (r ++ rest)) with (String c r ++ rest). rewrite <- Hz.
    apply parse_num_lit; assumption.
  - destruct f as [|f]; [cbn in Hf; lia|].
    rewrite parse_val_S.
    change (render (JStr s) ++ rest) with (String """" ((escape s ++ """") ++ rest)).
    rewrite val_body_str. rewrite sapp_assoc. rewrite unesc_quote. reflexivity.
  - destruct l as [|x l].
    + destruct f as [|f]; [cbn in Hf; lia|]. reflexivity.
    + rewrite render_arr_len in Hf. destruct f as [|f]; [lia|].
      pose proof (wf_arr _ Hw) as Hwl. inversion Hwl as [|x0 l0 Hwx Hwl']; subst x0 l0.
      change (render (JArr (x :: l)) ++ rest)
        with (String "[" ((join "," (map render (x :: l)) ++ "]") ++ rest)).
      rewrite sapp_assoc. change ("]" ++ rest) with (String "]" rest).
      rewrite parse_val_S.
      destruct (render_head x Hwx) as [c [r [Hx [Hws [H93 _]]]]].
      assert (Hsk : exists r', skip_ws (join "," (map render (x :: l)) ++ String "]" rest) = String c r').
      { cbn [map]. rewrite Hx. destruct (join_head "," c r (map render l)) as [r' Hj]. rewrite Hj.
        exists (r' ++ String "]" rest). cbn [append]. apply skip_ws_nonws. exact Hws. }
      destruct Hsk as [r' Hsk]. rewrite (val_body_arr _ _ _ c r' Hsk H93).
      rewrite (parse_elems_render (x :: l) HF Hwl ltac:(discriminate) f rest ltac:(lia)).
      reflexivity.
  - destruct l as [|x l].
    + destruct f as [|f]; [cbn in Hf; lia|]. reflexivity.
    + rewrite render_obj_len in Hf. destruct f as [|f]; [lia|].
      pose proof (wf_obj _ Hw) as Hwl.
      change (render (JObj (x :: l)) ++ rest)
        with (String "{" ((join "," (map member (x :: l)) ++ "}") ++ rest)).
      rewrite sapp_assoc. change ("}" ++ rest) with (String "}" rest).
      rewrite parse_val_S.
      assert (Hsk : exists r', skip_ws (join "," (map member (x :: l)) ++ String "}" rest) = String """" r').
      { cbn [map]. unfold member at 1. unfold quote.
        change (String """" (escape (fst x) ++ """") ++ ":" ++ render (snd x))
          with (String """" ((escape (fst x) ++ """") ++ ":" ++ render (snd x))).
        destruct (join_head "," """"%char ((escape (fst x) ++ """") ++ ":" ++ render (snd x)) (map member l)) as [r' Hj].
        rewrite Hj. exists (r' ++ String "}" rest). reflexivity. }
      destruct Hsk as [r' Hsk].
      rewrite (val_body_obj _ _ _ """"%char r' Hsk ltac:(intros H; discriminate H)).
      rewrite (parse_members_render (x :: l) HF Hwl ltac:(discriminate) f rest ltac:(lia)).
      reflexivity.
Qed.

(* ------------------------------------------------------------------ *)
(* top level                                                           *)
(* ------------------------------------------------------------------ *)
Lemma parse_val_skip : forall f pre s, all_ws pre -> parse_val f (pre ++ s) = parse_val f s.
Proof.
  intros f pre s H. destruct f as [|f]; [reflexivity|].
  rewrite !parse_val_S. unfold val_body. rewrite (skip_ws_app pre s H). reflexivity.
Qed.

Theorem parse_ws : forall j pre post, wf_json j -> all_ws pre -> all_ws post ->
  parse_json (pre ++ render j ++ post) = Some j.
Proof.
  intros j pre post Hw Hpre Hpost. unfold parse_json.
  rewrite (parse_val_skip _ pre _ Hpre).
  rewrite (parse_val_render j Hw _ post (term_ok_ws post Hpost)).
  - rewrite (skip_ws_all post Hpost). reflexivity.
  - unfold parse_fuel. rewrite !slen_app. lia.
Qed.

Theorem parse_render : forall j, wf_json j -> parse_json (render j) = Some j.
Proof.
  intros j Hw. pose proof (parse_ws j "" "" Hw eq_refl eq_refl) as H.
  cbn [append] in H. rewrite sapp_nil_r in H. exact H.
Qed.

Theorem parse_render_inj : forall j1 j2, wf_json j1 -> wf_json j2 -> render j1 = render j2 -> j1 = j2.
Proof.
  intros j1 j2 H1 H2 E. pose proof (parse_render j1 H1) as P1. pose proof (parse_render j2 H2) as P2.
  rewrite E in P1. rewrite P1 in P2. injection P2 as P2. exact P2.
Qed.

(* ------------------------------------------------------------------ *)
(* more fuel never changes an answer                                   *)
(* ------------------------------------------------------------------ *)
Definition ext {A} (p p' : string -> option A) : Prop := forall s x, p s = Some x -> p' s = Some x.

Lemma val_body_mono : forall pe pe' pm pm', ext pe pe' -> ext pm pm' -> ext (val_body pe pm) (val_body pe' pm').
Proof.
  intros pe pe' pm pm' Hpe Hpm s x H. unfold val_body in *.
  destruct (skip_ws s) as [|c r]; [discriminate|]. unfold val_dispatch in *.
  destruct (is_num_char c); [exact H|].
  destruct (N_of_ascii c =? 34)%N; [exact H|].
  destruct (N_of_ascii c =? 123)%N.
  { destruct (skip_ws r) as [|c2 r2]; [discriminate|].
    destruct (N_of_ascii c2 =? 125)%N; [exact H|].
    destruct (pm r) as [[l r']|] eqn:E; [|discriminate]. rewrite (Hpm _ _ E). exact H. }
  destruct (N_of_ascii c =? 91)%N.
  { destruct (skip_ws r) as [|c2 r2]; [discriminate|].
    destruct (N_of_ascii c2 =? 93)%N; [exact H|].
    destruct (pe r) as [[l r']|] eqn:E; [|discriminate]. rewrite (Hpe _ _ E). exact H. }
  exact H.
Qed.

Lemma elems_body_mono : forall pv pv' pe pe', ext pv pv' -> ext pe pe' -> ext (elems_body pv pe) (elems_body pv' pe').
Proof.
  intros pv pv' pe pe' Hpv Hpe s x H. unfold elems_body in *.
  destruct (pv s) as [[v r]|] eqn:E; [|discriminate]. rewrite (Hpv _ _ E).
  destruct (skip_ws r) as [|c r1]; [discriminate|].
  destruct (N_of_ascii c =? 44)%N; [|exact H].
  destruct (pe r1) as [[vs r2]|] eqn:E2; [|discriminate]. rewrite (Hpe _ _ E2). exact H.
Qed.

Lemma members_body_mono : forall pv pv' pm pm', ext pv pv' -> ext pm pm' -> ext (members_body pv pm) (members_body pv' pm').
Proof.
  intros pv pv' pm pm' Hpv Hpm s x H. unfold members_body in *.
  destruct (skip_ws s) as [|c r]; [discriminate|].
  destruct (N_of_ascii c =? 34)%N; [|discriminate].
  destruct (unesc r) as [[k r1]|]; [|discriminate].
  destruct (skip_ws r1) as [|c1 r2]; [discriminate|].
  destruct (N_of_ascii c1 =? 58)%N; [|discriminate].
  destruct (pv r2) as [[v r3]|] eqn:E; [|discriminate]. rewrite (Hpv _ _ E).
  destruct (skip_ws r3) as [|c3 r4]; [discriminate|].
  destruct (N_of_ascii c3 =? 44)%N; [|exact H].
  destruct (pm r4) as [[ms r5]|] eqn:E2; [|discriminate]. rewrite (Hpm _ _ E2). exact H.
Qed.

Lemma fuel_step : forall f,
  ext (parse_val f) (parse_val (S f)) /\ ext (parse_elems f) (parse_elems (S f))
  /\ ext (parse_members f) (parse_members (S f)).
Proof.
  induction f as [|f [IHv [IHe IHm]]].
  - repeat split; intros s x H; discriminate H.
  - repeat split; intros s x H.
    + rewrite parse_val_S in *. exact (val_body_mono _ _ _ _ IHe IHm s x H).
    + rewrite parse_elems_S in *. exact (elems_body_mono _ _ _ _ IHv IHe s x H).
    + rewrite parse_members_S in *. exact (members_body_mono _ _ _ _ IHv IHm s x H).
Qed.

Theorem parse_val_fuel_mono : forall f g s x, (f <= g)%nat -> parse_val f s = Some x -> parse_val g s = Some x.
Proof.
  intros f g s x Hle. induction Hle as [|g Hle IH]; intros H.
  - exact H.
  - apply (proj1 (fuel_step g)). apply IH. exact H.
Qed.
