(* Views_lemmas.v — lemmas about model/Views.v (amount_controller.go, progress_controller.go).
   Property C19. *)
From RV Require Import model.Base model.Views proofs.Wallet_lemmas.
From Coq Require Import Lia ZArith NArith.
Local Open Scope N_scope.

(* ---------------------------------------------------------------------------------- *)
(* GetWalletAmount                                                                     *)
(* ---------------------------------------------------------------------------------- *)

Lemma fold_add64 : forall l a, fold_left add64 l (a mod two64) = (a + nsum l) mod two64.
Proof.
  pose proof two64_pos as Hp.
  induction l as [|x l IH]; intros a.
  - cbn [fold_left nsum fold_right]. rewrite N.add_0_r. reflexivity.
  - cbn [fold_left]. unfold add64 at 2. rewrite N.add_mod_idemp_l by lia.
    rewrite IH, nsum_cons. f_equal. lia.
Qed.

(* in general the reported balance is the sum reduced modulo 2^64 ... *)
Theorem C19_amount_wrap : forall values, wallet_amount values = nsum values mod two64.
Proof.
  intros values. unfold wallet_amount.
  replace 0 with (0 mod two64) at 1 by (apply N.mod_0_l; pose proof two64_pos; lia).
  rewrite fold_add64. reflexivity.
Qed.

(* ... hence the exact sum whenever that sum fits a uint64 *)
Theorem C19_amount : forall values, nsum values < two64 -> wallet_amount values = nsum values.
Proof. intros values Hb. rewrite C19_amount_wrap. apply N.mod_small. exact Hb. Qed.

(* ---------------------------------------------------------------------------------- *)
(* GetTransactionProgress                                                              *)
(* ---------------------------------------------------------------------------------- *)

Lemma mem_str_iff a l : mem_str a l = true <-> In a l.
Proof.
  induction l as [|x r IH]; cbn [mem_str In].
  - split; [discriminate|tauto].
  - destruct (String.eqb_spec a x) as [->|Hne].
    + split; auto.
    + rewrite IH. split; [auto|]. intros [E|E]; [congruence|exact E].
Qed.

Lemma ref_eqb_eq a b : ref_eqb a b = true <-> a = b.
Proof.
  destruct a as [a1 a2], b as [b1 b2]. unfold ref_eqb. cbn [fst snd].
  rewrite andb_true_iff, String.eqb_eq, N.eqb_eq. split; [intros [-> ->]; reflexivity|].
  intros E; injection E as -> ->. split; reflexivity.
Qed.

Lemma listed_iff s us : existsb (fun u => ref_eqb u s) us = true <-> In s us.
Proof.
  rewrite existsb_exists. split.
  - intros (u & Hu & E). apply ref_eqb_eq in E. subst. exact Hu.
  - intros H. exists s. split; [exact H|apply ref_eqb_eq; reflexivity].
Qed.

Lemma listed_false s us : ~ In s us -> existsb (fun u => ref_eqb u s) us = false.
Proof.
  intros Hni. destruct (existsb (fun u => ref_eqb u s) us) eqn:E; [|reflexivity].
  apply listed_iff in E. tauto.
Qed.

Lemma mem_str_false a l : ~ In a l -> mem_str a l = false.
Proof.
  intros Hni. destruct (mem_str a l) eqn:E; [|reflexivity]. apply mem_str_iff in E. tauto.
Qed.

(* all five requests succeeded (and the validator returned at least one block) *)
Theorem C19_progress : forall s us ts b bs p,
  let a := progress_of (Some s) (Some us) (Some ts) (Some (b :: bs)) (Some p) in
  (a = PConfirmed <-> In s us) /\
  (a = PValidated <-> ~ In s us /\ In (fst s) b) /\
  (a = PSent <-> ~ In s us /\ ~ In (fst s) b /\ In (fst s) p) /\
  (a = PRejected <-> ~ In s us /\ ~ In (fst s) b /\ ~ In (fst s) p).
Proof.
  intros s us ts b bs p. cbn zeta. unfold progress_of.
  destruct (existsb (fun u => ref_eqb u s) us) eqn:E1.
  { apply listed_iff in E1. repeat split; try discriminate; try tauto. }
  assert (H1 : ~ In s us) by (intros H; apply listed_iff in H; congruence).
  destruct (mem_str (fst s) b) eqn:E2.
  { apply mem_str_iff in E2. repeat split; try discriminate; try tauto. }
  assert (H2 : ~ In (fst s) b) by (intros H; apply mem_str_iff in H; congruence).
  destruct (mem_str (fst s) p) eqn:E3.
  { apply mem_str_iff in E3. repeat split; try discriminate; try tauto. }
  assert (H3 : ~ In (fst s) p) by (intros H; apply mem_str_iff in H; congruence).
  repeat split; try discriminate; try tauto.
Qed.

(* ---- the error table, in the order the controller looks at things ---- *)

Theorem C19_err_body : forall us ts bl p, progress_of None us ts bl p = PError 400.
Proof. reflexivity. Qed.

Theorem C19_err_utxos : forall s ts bl p, progress_of (Some s) None ts bl p = PError 500.
Proof. reflexivity. Qed.

(* a listed output is "confirmed" whatever the three later requests did: in particular a
   failed GetFirstBlockTimestamp (line 51) is not reported (its error is read at line 66) *)
Theorem C19_confirmed_masks : forall s us ts bl p,
  In s us -> progress_of (Some s) (Some us) ts bl p = PConfirmed.
Proof.
  intros s us ts bl p Hin. unfold progress_of. apply listed_iff in Hin. rewrite Hin. reflexivity.
Qed.

Theorem C19_err_first_ts : forall s us bl p,
  ~ In s us -> progress_of (Some s) (Some us) None bl p = PError 500.
Proof. intros s us bl p Hni. unfold progress_of. rewrite (listed_false s us Hni). reflexivity. Qed.

Theorem C19_err_blocks : forall s us ts p,
  ~ In s us ->
  progress_of (Some s) (Some us) (Some ts) None p = PError 500 /\
  progress_of (Some s) (Some us) (Some ts) (Some []) p = PError 500.
Proof.
  intros s us ts p Hni. unfold progress_of. rewrite (listed_false s us Hni). split; reflexivity.
Qed.

(* found in the first returned block: the pool is not asked, its failure is not seen *)
Theorem C19_validated_masks : forall s us ts b bs p,
  ~ In s us -> In (fst s) b ->
  progress_of (Some s) (Some us) (Some ts) (Some (b :: bs)) p = PValidated.
Proof.
  intros s us ts b bs p Hni Hin. unfold progress_of. rewrite (listed_false s us Hni).
  apply mem_str_iff in Hin. rewrite Hin. reflexivity.
Qed.

Theorem C19_err_pool : forall s us ts b bs,
  ~ In s us -> ~ In (fst s) b ->
  progress_of (Some s) (Some us) (Some ts) (Some (b :: bs)) None = PError 500.
Proof.
  intros s us ts b bs Hni Hnb. unfold progress_of.
  rewrite (listed_false s us Hni), (mem_str_false _ _ Hnb). reflexivity.
Qed.

(* the only codes are 400 and 500, and 400 is exactly the undecodable body *)
Theorem C19_err_codes : forall s us ts bl p c,
  progress_of s us ts bl p = PError c ->
  (c = 400 /\ s = None) \/ (c = 500 /\ s <> None).
Proof.
  intros s us ts bl p c H. unfold progress_of in H.
  destruct s as [s|]; [right|left; injection H as <-; split; reflexivity].
  split; [|discriminate].
  destruct us as [us|]; [|injection H as <-; reflexivity].
  destruct (existsb (fun u => ref_eqb u s) us); [discriminate|].
  destruct ts as [ts|]; [|injection H as <-; reflexivity].
  destruct bl as [[|b bs]|]; try (injection H as <-; reflexivity).
  destruct (mem_str (fst s) b); [discriminate|].
  destruct p as [p|]; [|injection H as <-; reflexivity].
  destruct (mem_str (fst s) p); discriminate.
Qed.
