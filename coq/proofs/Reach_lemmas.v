(* Reach_lemmas.v — invariants of the reachable nodes (model/Reach.v): the derived state is the
   replay of the chain (C07), blocks stay where they are and the chain is hash-linked (C12),
   the block rules hold all along every chain a node holds (C04). *)
From RV Require Import model.Base model.Ledger model.Registry model.Chain model.Sync model.Pool model.Reach.
From RV Require Import proofs.Chain_verify proofs.Pool_lemmas proofs.Sync_lemmas.
From Coq Require Import Lia ZArith NArith.

(* ------------------------------------------------------------------ *)
(* generic list facts                                                  *)
(* ------------------------------------------------------------------ *)

Lemma snoc_cases {A} (l : list A) : l = [] \/ exists l0 x, l = l0 ++ [x].
Proof.
  destruct l as [|a r]; [left; reflexivity|right].
  destruct (@exists_last A (a :: r)) as (l0 & x & E); [discriminate|]. exists l0, x. exact E.
Qed.

Lemma last_block_snoc' (l : list block) (b : block) : last_block (l ++ [b]) = Some b.
Proof. unfold last_block. rewrite rev_app_distr. reflexivity. Qed.

Lemma last_block_none (c : list block) : last_block c = None -> c = [].
Proof.
  destruct (snoc_cases c) as [E|(l0 & x & E)]; [intros _; exact E|].
  subst c. rewrite last_block_snoc'. discriminate.
Qed.

Lemma last_block_some (c : list block) (b : block) :
  last_block c = Some b -> c = removelast c ++ [b].
Proof.
  destruct (snoc_cases c) as [E|(l0 & x & E)]; subst c.
  - discriminate.
  - rewrite last_block_snoc', removelast_last. intros E. inversion E. reflexivity.
Qed.

(* the last block of the non-empty chain g :: l *)
Fixpoint lastb (g : block) (l : list block) : block :=
  match l with [] => g | b :: r => lastb b r end.

Lemma lastb_app (g : block) (l1 l2 : list block) : lastb g (l1 ++ l2) = lastb (lastb g l1) l2.
Proof. revert g. induction l1 as [|b r IH]; intros g; simpl; [reflexivity | apply IH]. Qed.

Lemma last_block_lastb (g : block) (l : list block) : last_block (g :: l) = Some (lastb g l).
Proof.
  destruct (snoc_cases l) as [E|(l0 & x & E)]; subst l.
  - reflexivity.
  - change (g :: l0 ++ [x]) with ((g :: l0) ++ [x]).
    rewrite last_block_snoc', lastb_app. reflexivity.
Qed.

Lemma nth_error_removelast {A} (l : list A) (i : nat) (x : A) :
  nth_error (removelast l) i = Some x -> nth_error l i = Some x.
Proof.
  destruct (snoc_cases l) as [E|(l0 & y & E)]; subst l.
  - simpl. destruct i; discriminate.
  - rewrite removelast_last. intros Hn. rewrite nth_error_app1; [exact Hn|].
    apply nth_error_Some. rewrite Hn. discriminate.
Qed.

Lemma prefix_refl {A} (l : list A) : prefix l l.
Proof. exists []. rewrite app_nil_r. reflexivity. Qed.

Lemma prefix_app {A} (l r : list A) : prefix l (l ++ r).
Proof. exists r. reflexivity. Qed.

(* ------------------------------------------------------------------ *)
(* the registry: the registered set does not depend on the pending list *)
(* ------------------------------------------------------------------ *)

Lemma reg_removed_registered (removed : list string) : forall a1 a2 : areg,
  registered a1 = registered a2 ->
  registered (fold_left (fun r a => mkAreg (set_remove a (registered r)) (remove_addr (pending r) a))
                        removed a1) =
  registered (fold_left (fun r a => mkAreg (set_remove a (registered r)) (remove_addr (pending r) a))
                        removed a2).
Proof.
  induction removed as [|x r IH]; intros a1 a2 E; simpl; [exact E|].
  apply IH. simpl. rewrite E. reflexivity.
Qed.

Lemma reg_update_registered (a1 a2 : areg) (added removed : list string) :
  registered a1 = registered a2 ->
  registered (reg_update a1 added removed) = registered (reg_update a2 added removed).
Proof.
  intros E. unfold reg_update. cbn [registered].
  rewrite (reg_removed_registered removed a1 a2 E). reflexivity.
Qed.

Lemma reg_sync_registered (a : areg) (poh : string -> option bool) (order : list string) :
  registered (reg_sync a poh order) = registered a.
Proof. reflexivity. Qed.

(* ------------------------------------------------------------------ *)
(* replay                                                              *)
(* ------------------------------------------------------------------ *)

Definition bind_replay (r : res err (ureg * areg)) (f : ureg -> areg -> res err (ureg * areg)) :=
  match r with Ok (u, a) => f u a | Err e => Err e end.

Lemma replay_from_app (u : ureg) (a : areg) (l1 l2 : list block) :
  replay_from u a (l1 ++ l2) = bind_replay (replay_from u a l1) (fun u' a' => replay_from u' a' l2).
Proof.
  revert u a. induction l1 as [|b r IH]; intros u a; simpl; [reflexivity|].
  destruct (apply_block u a b) as [[u1 a1]|e]; [apply IH | reflexivity].
Qed.

Lemma apply_block_reg_irrel (u : ureg) (a1 a2 : areg) (b : block) (u' : ureg) (a1' : areg) :
  registered a1 = registered a2 ->
  apply_block u a1 b = Ok (u', a1') ->
  exists a2', apply_block u a2 b = Ok (u', a2') /\ registered a1' = registered a2'.
Proof.
  intros E. unfold apply_block.
  destruct (update_utxos u (txs b) (b_ts b)) as [u1|e]; [|discriminate].
  intros Ha. inversion Ha; subst u' a1'. eexists. split; [reflexivity|].
  apply reg_update_registered. exact E.
Qed.

Lemma replay_from_reg_irrel (l : list block) : forall (u : ureg) (a1 a2 : areg) (u' : ureg) (a1' : areg),
  registered a1 = registered a2 ->
  replay_from u a1 l = Ok (u', a1') ->
  exists a2', replay_from u a2 l = Ok (u', a2') /\ registered a1' = registered a2'.
Proof.
  induction l as [|b r IH]; intros u a1 a2 u' a1' E Hr; simpl in *.
  - inversion Hr; subst. exists a2. split; [reflexivity | exact E].
  - destruct (apply_block u a1 b) as [[u1 x1]|e] eqn:Ea; [|discriminate].
    destruct (apply_block_reg_irrel _ _ _ _ _ _ E Ea) as (x2 & Ea2 & E2).
    rewrite Ea2. apply (IH _ _ _ _ _ E2 Hr).
Qed.

(* the state a chain denotes: (outputs, registered addresses) *)
Definition denotes (c : list block) (u : ureg) (ar0 : areg) : Prop :=
  exists a, replay (removelast c) = Ok (u, a) /\ registered a = registered ar0.

Lemma denotes_empty : denotes [] ureg_empty areg_empty.
Proof. exists areg_empty. split; reflexivity. Qed.

(* add_block_raw applies exactly the old tip *)
Lemma add_block_raw_denotes (c : cstate) (b : block) (c' : cstate) :
  denotes (chain c) (ur c) (ar c) -> add_block_raw c b = Ok c' ->
  denotes (chain c') (ur c') (ar c').
Proof.
  intros (a & Hr & Ea). unfold add_block_raw.
  destruct (last_block (chain c)) as [l|] eqn:El.
  - destruct (apply_block (ur c) (ar c) l) as [[u' a']|e] eqn:Eap; [|discriminate].
    intros E. inversion E; subst c'. clear E. unfold denotes. cbn [chain ur ar].
    rewrite removelast_last.
    assert (Ea' : registered (ar c) = registered a) by (symmetry; exact Ea).
    destruct (apply_block_reg_irrel _ _ _ _ _ _ Ea' Eap) as (a2 & Eap2 & E2).
    exists a2. split; [|symmetry; exact E2].
    rewrite (last_block_some _ _ El). unfold replay. rewrite replay_from_app.
    fold (replay (removelast (chain c))). rewrite Hr. simpl. rewrite Eap2. reflexivity.
  - intros E. inversion E; subst c'. clear E. unfold denotes. cbn [chain ur ar].
    rewrite removelast_last. apply last_block_none in El. rewrite El in Hr |- *.
    exists a. split; [exact Hr | exact Ea].
Qed.

(* ------------------------------------------------------------------ *)
(* everything that depends on the oracles                              *)
(* ------------------------------------------------------------------ *)
Section ReachLemmas.
  Variable value_fn : N -> bool -> Z -> N.
  Variable addr_of : string -> string.
  Variable sig_ok : input -> bool.
  Variable H : block -> hash.
  Variable gen_id : slice input -> slice output -> Z -> string.
  Variable S : settings.
  Variable validator : string.

  Notation step := (Reach.step value_fn addr_of sig_ok H gen_id S validator).
  Notation reach := (Reach.reach value_fn addr_of sig_ok H gen_id S validator).
  Notation update := (Sync.update value_fn addr_of sig_ok H S).
  Notation verify := (Chain.verify value_fn addr_of sig_ok H S).
  Notation candidates := (Sync.candidates value_fn addr_of sig_ok H S).
  Notation stage1 := (Sync.stage1 value_fn addr_of sig_ok H S).
  Notation validate := (Pool.validate value_fn addr_of sig_ok H gen_id S validator).
  Notation pool_add := (Pool.pool_add value_fn addr_of sig_ok S).

  (* ---------------------------------------------------------------- *)
  (* the four operations, seen from the chain state                    *)
  (* ---------------------------------------------------------------- *)

  Lemma validate_produced_add (n : node) (ts : Z) (perm : list nat) (n' : node) (d : list (string * drop)) :
    validate n ts perm = (n', Produced d) ->
    (exists l addrs, add_block H (n_c n) ts l addrs = Ok (n_c n')) /\
    (last_block_ts (chain (n_c n)) = 0%Z \/
     (last_block_ts (chain (n_c n)) <> ts /\
      (ts <= last_block_ts (chain (n_c n)) + s_interval S)%Z)).
  Proof.
    intros Hv. unfold Pool.validate in Hv. cbv zeta in Hv.
    assert (Ht : last_block_ts (chain (n_c n)) = 0%Z \/
                 (last_block_ts (chain (n_c n)) <> ts /\
                  (ts <= last_block_ts (chain (n_c n)) + s_interval S)%Z)).
    { destruct (Z.eqb_spec (last_block_ts (chain (n_c n))) 0) as [E0|E0]; [left; exact E0|right].
      cbn [negb andb] in Hv.
      destruct (Z.eqb_spec (last_block_ts (chain (n_c n))) ts) as [E1|E1]; [discriminate|].
      destruct (Z.ltb_spec (last_block_ts (chain (n_c n)) + s_interval S) ts) as [E2|E2];
        [discriminate|].
      split; [exact E1 | exact E2]. }
    split; [|exact Ht].
    destruct (negb (last_block_ts (chain (n_c n)) =? 0)%Z && (last_block_ts (chain (n_c n)) =? ts)%Z);
      [discriminate|].
    destruct (negb (last_block_ts (chain (n_c n)) =? 0)%Z
              && (last_block_ts (chain (n_c n)) + s_interval S <? ts)%Z); [discriminate|].
    destruct (update_utxos (ur (n_c n)) (last_block_txs (chain (n_c n)))
                (last_block_ts (chain (n_c n)))) as [u0|e0]; [|discriminate].
    rewrite produce_loop_spec in Hv. cbv beta iota in Hv.
    match type of Hv with
    | match ?X with Ok _ => _ | Err _ => _ end = _ => destruct X as [c'|e1] eqn:E1
    end; [|discriminate].
    inversion Hv; subst n' d. cbn [n_c]. eexists. eexists. exact E1.
  Qed.

  (* a refused tick leaves the chain state alone (the pool may have been re-ordered when the
     refusal comes from AddBlock: a tick not after the tip) *)
  Lemma step_validate_cases (n : node) (ts : Z) (perm : list nat) :
    n_c (step n (OpValidate ts perm)) = n_c n \/
    exists d, validate n ts perm = (step n (OpValidate ts perm), Produced d).
  Proof.
    cbn [Reach.step]. destruct (validate n ts perm) as [n' o] eqn:Ev. cbn [fst].
    destruct o as [d|e]; [right; exists d; reflexivity|left].
    apply validate_refused_unchanged in Ev. apply Ev.
  Qed.

  Lemma step_add_state (n : node) (t : tx) : n_c (step n (OpAdd t)) = n_c n.
  Proof.
    cbn [Reach.step]. destruct (pool_add n t) as [n'|e] eqn:Ea; [|reflexivity].
    rewrite (pool_add_node _ _ _ _ _ _ _ Ea). reflexivity.
  Qed.

  (* ---------------------------------------------------------------- *)
  (* C07: the derived state is the replay of the chain minus its tip   *)
  (* ---------------------------------------------------------------- *)

  Definition node_denotes (n : node) : Prop :=
    denotes (chain (n_c n)) (ur (n_c n)) (ar (n_c n)).

  Lemma update_denotes (st : cstate) (now : Z) (nbs : list neighbor) (pref : string)
        (st' : cstate) (rep : bool) :
    (forall nb, In nb nbs -> nb_target nb <> host_target) ->
    denotes (chain st) (ur st) (ar st) ->
    update st now nbs pref = (st', rep) ->
    denotes (chain st') (ur st') (ar st').
  Proof.
    intros Hnames Hd Hu. destruct rep.
    2:{ rewrite (update_kept_state _ _ _ _ _ _ _ _ _ _ Hnames Hu). exact Hd. }
    destruct (update_cases _ _ _ _ _ _ _ _ _ _ _ Hu)
      as [(Hr & _)|(_ & [t Ht] & _ & Hdiff & Hne & u0 & a0 & news & Hci & Hcl)]; [discriminate|].
    apply commit_loop_spec in Hcl.
    destruct (is_fork st (stage1 st now nbs) nbs) eqn:Hfk.
    - (* full re-sync: replay from empty *)
      unfold commit_input in Hci. inversion Hci; subst u0 a0 news.
      exists (ar st'). split; [exact Hcl | reflexivity].
    - (* incremental *)
      apply survivors_incl in Ht. unfold Sync.candidates in Ht.
      destruct (stage2_entries _ _ _ _ _ _ _ _ _ _ _ Ht) as [Hin1|[Hfk' _]];
        [|rewrite Hfk in Hfk'; discriminate].
      destruct (stage1_entries _ _ _ _ _ _ _ _ _ _ Hin1) as [(_ & Hsel & _)|(nb & _ & _ & Hinc)].
      { rewrite Hsel, is_different_refl in Hdiff. discriminate. }
      destruct Hinc as (l & v & _ & Hlen & Hv & Hc).
      pose proof (verify_returns_input _ _ _ _ _ _ _ _ _ _ _ Hv) as Hvl. subst v.
      destruct (verify_replay _ _ _ _ _ _ _ _ _ _ _ Hv) as (Hlne & _).
      pose proof (removelast_len (chain st)) as Hol.
      destruct Hd as (a & Hrep & Ea).
      unfold commit_input in Hci.
      destruct (Nat.ltb_spec (length (chain st)) (length (chain st'))) as [Hlt|Hge];
        inversion Hci; subst u0 a0 news; clear Hci.
      + assert (Es : slice_blocks (chain st') (length (chain st) - 1) (length (chain st') - 1)
                     = removelast l).
        { unfold slice_blocks. rewrite Hc, <- Hol, skipn_length_app, (removelast_firstn_len l).
          f_equal. rewrite app_length. lia. }
        rewrite Es in Hcl.
        assert (Ea' : registered (ar st) = registered a) by (symmetry; exact Ea).
        destruct (replay_from_reg_irrel _ _ _ _ _ _ Ea' Hcl) as (a2 & Hr2 & E2).
        exists a2. split; [|symmetry; exact E2].
        rewrite Hc, (removelast_app _ Hlne). unfold replay. rewrite replay_from_app.
        fold (replay (removelast (chain st))). rewrite Hrep. simpl. exact Hr2.
      + simpl in Hcl. inversion Hcl. exists a. split; [|exact Ea].
        assert (Hl1 : length l = 1).
        { rewrite Hc, app_length in Hge. destruct l; [contradiction|simpl in *; lia]. }
        destruct l as [|x [|y r]]; simpl in Hl1; try discriminate.
        rewrite Hc, removelast_last. exact Hrep.
  Qed.

  Lemma step_denotes (n : node) (o : op) :
    op_ok S n o -> node_denotes n -> node_denotes (step n o).
  Proof.
    intros Hok Hd. destruct o as [ts perm|t|now nbs pref|poh order].
    - destruct (step_validate_cases n ts perm) as [E|[d Ev]]; [unfold node_denotes; rewrite E; exact Hd|].
      destruct (validate_produced_add _ _ _ _ _ Ev) as [(l & addrs & Ea) _].
      apply add_block_ok_raw in Ea. apply (add_block_raw_denotes _ _ _ Hd Ea).
    - unfold node_denotes. rewrite step_add_state. exact Hd.
    - cbn [Reach.step]. unfold node_denotes. cbn [n_c].
      destruct (update (n_c n) now nbs pref) as [st' rep] eqn:Eu. cbn [fst].
      apply (update_denotes _ _ _ _ _ _ Hok Hd Eu).
    - cbn [Reach.step]. unfold node_denotes, denotes. cbn [n_c chain ur ar].
      destruct Hd as (a & Hr & Ea). exists a. split; [exact Hr|].
      rewrite reg_sync_registered. exact Ea.
  Qed.

  Theorem reach_denotes (n : node) :
    reach n ->
    exists a, replay (removelast (chain (n_c n))) = Ok (ur (n_c n), a) /\
              registered a = registered (ar (n_c n)).
  Proof.
    intros Hr. change (node_denotes n).
    induction Hr as [|n o Hr IH Hok]; [exact denotes_empty | exact (step_denotes _ _ Hok IH)].
  Qed.

  Corollary reach_utxos (n : node) :
    reach n ->
    exists u a, replay (removelast (chain (n_c n))) = Ok (u, a) /\
                forall addr, utxos_of (ur (n_c n)) addr = utxos_of u addr.
  Proof.
    intros Hr. destruct (reach_denotes n Hr) as (a & Hrep & _).
    exists (ur (n_c n)), a. split; [exact Hrep | reflexivity].
  Qed.

  Corollary reach_registered (n : node) :
    reach n ->
    exists u a, replay (removelast (chain (n_c n))) = Ok (u, a) /\
                forall addr, is_registered (ar (n_c n)) addr = is_registered a addr.
  Proof.
    intros Hr. destruct (reach_denotes n Hr) as (a & Hrep & Ea).
    exists (ur (n_c n)), a. split; [exact Hrep|]. intros addr. unfold is_registered.
    rewrite Ea. reflexivity.
  Qed.

  (* ---------------------------------------------------------------- *)
  (* what a successful [verify] has checked                            *)
  (* ---------------------------------------------------------------- *)

  (* the rules checked on a new block [b] against its predecessor [p] by a node whose time is [now] *)
  Definition new_rules (now : Z) (p b : block) : Prop :=
    b_ts b = (b_ts p + s_interval S)%Z /\ (b_ts b <= now)%Z /\ one_reward b /\ in_window p b.

  (* every block links to its predecessor, and either has the hash of the host's block at the
     same position (then it is not looked at) or passes the rules *)
  Fixpoint vrules (lh : list block) (now : Z) (i : nat) (p : block) (l : list block) : Prop :=
    match l with
    | [] => True
    | b :: r => b_prev b = H p /\
                ((exists hb, nth_error lh i = Some hb /\ H b = H hb) \/ new_rules now p b) /\
                vrules lh now (Datatypes.S i) b r
    end.

  Lemma verify_block_new_rules (sh : cstate) (b p : block) (now : Z) :
    verify_block value_fn addr_of sig_ok S sh b (b_ts p) now = Ok tt -> new_rules now p b.
  Proof.
    intros Hv. apply verify_block_sound in Hv. destruct Hv as (Ht & Hn & Hr & Hw & _).
    split; [exact Ht|]. split; [exact Hn|]. split; [exact Hr|].
    unfold in_window. eapply Forall_impl; [|exact Hw]. intros t Hx Hisr. apply (Hx Hisr).
  Qed.

  Lemma verify_step_some (lh : list block) (now : Z) (i : nat) (sh : cstate) (p b : block) (sh' : cstate) :
    verify_step value_fn addr_of sig_ok H S lh now i sh (Some p) b = Ok sh' ->
    b_prev b = H p /\
    ((exists hb, nth_error lh i = Some hb /\ H b = H hb) \/ new_rules now p b).
  Proof.
    unfold verify_step. cbv zeta.
    destruct (hash_eqb (b_prev b) (H p)) eqn:El; cbn [negb]; [|discriminate].
    apply hash_eqb_eq in El. intros Hs. split; [exact El|].
    destruct (nth_error lh i) as [hb|] eqn:En.
    - destruct (hash_eqb (H b) (H hb)) eqn:Eh; cbn [negb andb] in Hs.
      + left. exists hb. split; [reflexivity|]. apply hash_eqb_eq. exact Eh.
      + right. destruct (verify_block value_fn addr_of sig_ok S sh b (b_ts p) now) as [[]|e] eqn:Ev;
          [|discriminate].
        apply (verify_block_new_rules _ _ _ _ Ev).
    - cbn [negb andb] in Hs. right.
      destruct (verify_block value_fn addr_of sig_ok S sh b (b_ts p) now) as [[]|e] eqn:Ev;
        [|discriminate].
      apply (verify_block_new_rules _ _ _ _ Ev).
  Qed.

  Lemma verify_step_none (lh : list block) (now : Z) (i : nat) (sh : cstate) (b : block) (sh' : cstate) :
    verify_step value_fn addr_of sig_ok H S lh now i sh None b = Ok sh' -> b_prev b = zero_hash.
  Proof.
    unfold verify_step. cbv zeta.
    destruct (hash_eqb (b_prev b) zero_hash) eqn:El; cbn [negb]; [|discriminate].
    intros _. apply hash_eqb_eq. exact El.
  Qed.

  Lemma verify_loop_vrules (lh : list block) (now : Z) : forall (l : list block) (i : nat) (sh : cstate)
      (p : block) (sh' : cstate),
    verify_loop value_fn addr_of sig_ok H S lh now i sh (Some p) l = Ok sh' -> vrules lh now i p l.
  Proof.
    induction l as [|b r IH]; intros i sh p sh' Hv; [exact I|].
    cbn [verify_loop] in Hv.
    destruct (verify_step value_fn addr_of sig_ok H S lh now i sh (Some p) b) as [sh1|e] eqn:Es;
      [|discriminate].
    destruct (verify_step_some _ _ _ _ _ _ _ Es) as [Hl Hr].
    cbn [vrules]. split; [exact Hl|]. split; [exact Hr|]. apply (IH _ _ _ _ Hv).
  Qed.

  Lemma verify_inv (host : cstate) (lh neigh old : list block) (now : Z) (v : list block) :
    verify host lh neigh old now = Ok v ->
    v = neigh /\ neigh <> [] /\ (old = [] -> 2 <= length neigh) /\
    exists sh0 sh,
      verify_loop value_fn addr_of sig_ok H S lh now 0 sh0 (last_block old) neigh = Ok sh.
  Proof.
    intros Hv. pose proof (verify_returns_input _ _ _ _ _ _ _ _ _ _ _ Hv) as E. subst v.
    split; [reflexivity|]. unfold Chain.verify in Hv.
    destruct neigh as [|b r]; [destruct old; discriminate|].
    split; [discriminate|].
    destruct old as [|o old'].
    - destruct r as [|b' r']; [discriminate|]. split; [intros _; simpl; lia|].
      cbv beta iota zeta in Hv.
      match type of Hv with
      | match ?x with _ => _ end = _ => destruct x as [sh|e] eqn:El; [|discriminate]
      end.
      eexists. eexists. exact El.
    - split; [discriminate|].
      match type of Hv with
      | (if ?c then _ else _) = _ => destruct c; [discriminate|]
      end.
      cbv beta iota zeta in Hv.
      match type of Hv with
      | match ?x with _ => _ end = _ => destruct x as [sh|e] eqn:El; [|discriminate]
      end.
      eexists. eexists. exact El.
  Qed.

  (* the shape of an accepted incremental answer *)
  Lemma inc_verified_shape (st : cstate) (now : Z) (nb : neighbor) (c' : list block) :
    inc_verified value_fn addr_of sig_ok H S st now nb c' ->
    exists g l0 tip l,
      chain st = (g :: l0) ++ [tip] /\ nb_inc nb = RBlocks l /\ c' = (g :: l0) ++ l /\ l <> [] /\
      verify st [tip] l (g :: l0) now = Ok l /\
      vrules [tip] now 0 (lastb g l0) l.
  Proof.
    intros (l & v & Hinc & Hlen & Hv & Hc).
    destruct (verify_inv _ _ _ _ _ _ Hv) as (Ev & Hne & _ & sh0 & sh & Hloop). subst v.
    destruct (snoc_cases (chain st)) as [E|(c0 & tip & E)]; [rewrite E in Hlen; simpl in Hlen; lia|].
    rewrite E in Hlen, Hv, Hloop, Hc. unfold tip_of in Hv, Hloop. rewrite E in Hv, Hloop.
    rewrite last_block_snoc' in Hv, Hloop. rewrite removelast_last in Hv, Hloop, Hc.
    destruct c0 as [|g l0]; [simpl in Hlen; lia|].
    rewrite last_block_lastb in Hloop.
    exists g, l0, tip, l. split; [exact E|]. split; [exact Hinc|]. split; [exact Hc|].
    split; [exact Hne|]. split; [exact Hv|]. apply (verify_loop_vrules _ _ _ _ _ _ _ Hloop).
  Qed.

  (* the shape of an accepted full answer *)
  Lemma full_verified_shape (st : cstate) (now : Z) (nb : neighbor) (c' : list block) :
    full_verified value_fn addr_of sig_ok H S st now nb c' ->
    exists g r,
      nb_full nb = RBlocks (g :: r) /\ c' = g :: r /\ r <> [] /\ b_prev g = zero_hash /\
      verify st (removelast (chain st)) (g :: r) [] now = Ok (g :: r) /\
      vrules (removelast (chain st)) now 1 g r.
  Proof.
    intros (l & v & Hfull & Hv & Hc).
    destruct (verify_inv _ _ _ _ _ _ Hv) as (Ev & Hne & Hlen & sh0 & sh & Hloop). subst v c'.
    specialize (Hlen eq_refl).
    destruct l as [|g r]; [contradiction|].
    exists g, r. split; [exact Hfull|]. split; [reflexivity|].
    split; [destruct r; [simpl in Hlen; lia | discriminate]|].
    change (last_block []) with (@None block) in Hloop. cbn [verify_loop] in Hloop.
    destruct (verify_step value_fn addr_of sig_ok H S (removelast (chain st)) now 0 sh0 None g)
      as [sh1|e] eqn:Es; [|discriminate].
    split; [apply (verify_step_none _ _ _ _ _ _ Es)|]. split; [exact Hv|].
    apply (verify_loop_vrules _ _ _ _ _ _ _ Hloop).
  Qed.

  (* where a replacing chain comes from *)
  Lemma update_replaced_origin (st : cstate) (now : Z) (nbs : list neighbor) (pref : string)
        (st' : cstate) :
    update st now nbs pref = (st', true) ->
    (exists nb, In nb nbs /\ inc_verified value_fn addr_of sig_ok H S st now nb (chain st')) \/
    (is_fork st (stage1 st now nbs) nbs = true /\
     exists nb, In nb nbs /\ full_verified value_fn addr_of sig_ok H S st now nb (chain st')).
  Proof.
    intros Hu.
    destruct (update_cases _ _ _ _ _ _ _ _ _ _ _ Hu)
      as [(Hr & _)|(_ & [t Ht] & _ & Hdiff & _)]; [discriminate|].
    apply survivors_incl in Ht. unfold Sync.candidates in Ht.
    destruct (stage2_entries _ _ _ _ _ _ _ _ _ _ _ Ht) as [Hin1|[Hfk (nb & Hnb & _ & Hfull)]].
    - destruct (stage1_entries _ _ _ _ _ _ _ _ _ _ Hin1) as [(_ & Hsel & _)|(nb & Hnb & _ & Hinc)].
      + rewrite Hsel, is_different_refl in Hdiff. discriminate.
      + left. exists nb. split; [exact Hnb | exact Hinc].
    - right. split; [exact Hfk|]. exists nb. split; [exact Hnb | exact Hfull].
  Qed.

  (* ---------------------------------------------------------------- *)
  (* C12: the chain only grows at the tip, and it is hash-linked       *)
  (* ---------------------------------------------------------------- *)

  Theorem step_chain (n : node) (o : op) :
    let c := chain (n_c n) in
    let c' := chain (n_c (step n o)) in
    match o with
    | OpValidate _ _ => c' = c \/ exists b, c' = c ++ [b]
    | OpAdd _ => c' = c
    | OpRegSync _ _ => c' = c
    | OpUpdate now nbs pref =>
      c' = c \/
      (is_fork (n_c n) (stage1 (n_c n) now nbs) nbs = true /\
       exists nb, In nb nbs /\ nb_full nb = RBlocks c' /\
                  verify (n_c n) (removelast c) c' [] now = Ok c') \/
      ((exists nb l, In nb nbs /\ nb_inc nb = RBlocks l /\ l <> [] /\ c' = removelast c ++ l) /\
       prefix (removelast c) c')
    end.
  Proof.
    cbv zeta. destruct o as [ts perm|t|now nbs pref|poh order].
    - destruct (step_validate_cases n ts perm) as [E|[d Ev]]; [left; rewrite E; reflexivity|right].
      destruct (validate_appends _ _ _ _ _ _ _ _ _ _ _ _ Ev) as (b & Hc & _). exists b. exact Hc.
    - rewrite step_add_state. reflexivity.
    - cbn [Reach.step n_c].
      destruct (update (n_c n) now nbs pref) as [st' rep] eqn:Eu. cbn [fst].
      destruct rep; [|left; apply (update_kept_chain _ _ _ _ _ _ _ _ _ _ Eu)].
      right. destruct (update_replaced_origin _ _ _ _ _ Eu) as [(nb & Hnb & Hinc)|(Hfk & nb & Hnb & Hfull)].
      + right. destruct (inc_verified_shape _ _ _ _ Hinc) as (g & l0 & tip & l & E & Hi & Hc & Hne & _).
        rewrite E, removelast_last, Hc. split; [|apply prefix_app].
        exists nb, l. repeat split; assumption.
      + left. split; [exact Hfk|].
        destruct (full_verified_shape _ _ _ _ Hfull) as (g & r & Hf & Hc & _ & _ & Hv & _).
        exists nb. rewrite Hc. split; [exact Hnb|]. split; [exact Hf | exact Hv].
    - reflexivity.
  Qed.

  Lemma linked_app (g : block) (l1 l2 : list block) :
    linked H g (l1 ++ l2) <-> linked H g l1 /\ linked H (lastb g l1) l2.
  Proof.
    clear value_fn addr_of sig_ok gen_id validator.
    revert g. induction l1 as [|b r IH]; intros g; simpl; [tauto|]. rewrite IH. tauto.
  Qed.

  Lemma vrules_linked (lh : list block) (now : Z) : forall (l : list block) (i : nat) (p : block),
    vrules lh now i p l -> linked H p l.
  Proof.
    induction l as [|b r IH]; intros i p Hv; [exact I|].
    destruct Hv as (Hl & _ & Hr). split; [exact Hl | apply (IH _ _ Hr)].
  Qed.

  (* the links [verify] has checked *)
  Lemma verify_linked (host : cstate) (lh neigh old : list block) (now : Z) (v : list block) :
    verify host lh neigh old now = Ok v ->
    match last_block old, neigh with
    | Some p, _ => linked H p neigh
    | None, g :: r => b_prev g = zero_hash /\ linked H g r
    | None, [] => False
    end.
  Proof.
    intros Hv. destruct (verify_inv _ _ _ _ _ _ Hv) as (_ & Hne & _ & sh0 & sh & Hloop).
    destruct (last_block old) as [p|].
    - apply verify_loop_vrules in Hloop. apply (vrules_linked _ _ _ _ _ Hloop).
    - destruct neigh as [|g r]; [contradiction|]. cbn [verify_loop] in Hloop.
      destruct (verify_step value_fn addr_of sig_ok H S lh now 0 sh0 None g) as [sh1|e] eqn:Es;
        [|discriminate].
      split; [apply (verify_step_none _ _ _ _ _ _ Es)|].
      apply verify_loop_vrules in Hloop. apply (vrules_linked _ _ _ _ _ Hloop).
  Qed.

  Lemma update_linked (st : cstate) (now : Z) (nbs : list neighbor) (pref : string)
        (st' : cstate) (rep : bool) :
    chain_linked H (chain st) -> update st now nbs pref = (st', rep) -> chain_linked H (chain st').
  Proof.
    intros Hl Hu. destruct rep; [|rewrite (update_kept_chain _ _ _ _ _ _ _ _ _ _ Hu); exact Hl].
    destruct (update_replaced_origin _ _ _ _ _ Hu) as [(nb & _ & Hinc)|(_ & nb & _ & Hfull)].
    - destruct (inc_verified_shape _ _ _ _ Hinc) as (g & l0 & tip & l & E & _ & Hc & _ & _ & Hv).
      rewrite E in Hl. rewrite Hc. cbn [app chain_linked] in Hl |- *.
      apply linked_app in Hl. apply linked_app. split; [apply Hl|].
      apply (vrules_linked _ _ _ _ _ Hv).
    - destruct (full_verified_shape _ _ _ _ Hfull) as (g & r & _ & Hc & _ & _ & _ & Hv).
      rewrite Hc. cbn [chain_linked]. apply (vrules_linked _ _ _ _ _ Hv).
  Qed.

  Lemma step_linked (n : node) (o : op) :
    chain_linked H (chain (n_c n)) -> chain_linked H (chain (n_c (step n o))).
  Proof.
    intros Hl. destruct o as [ts perm|t|now nbs pref|poh order].
    - destruct (step_validate_cases n ts perm) as [E|[d Ev]]; [rewrite E; exact Hl|].
      destruct (validate_appends _ _ _ _ _ _ _ _ _ _ _ _ Ev) as (b & Hc & _ & _ & Hp & _).
      rewrite Hc. destruct (chain (n_c n)) as [|g l] eqn:Ec; [exact I|].
      rewrite last_block_lastb in Hp. cbn [app chain_linked] in Hl |- *.
      apply linked_app. split; [exact Hl|]. split; [exact Hp | exact I].
    - rewrite step_add_state. exact Hl.
    - cbn [Reach.step n_c].
      destruct (update (n_c n) now nbs pref) as [st' rep] eqn:Eu. cbn [fst].
      apply (update_linked _ _ _ _ _ _ Hl Eu).
    - exact Hl.
  Qed.

  Theorem reach_linked (n : node) : reach n -> chain_linked H (chain (n_c n)).
  Proof.
    intros Hr. induction Hr as [|n o Hr IH Hok]; [exact I | apply step_linked; exact IH].
  Qed.

  (* ---------------------------------------------------------------- *)
  (* C04: the block rules hold all along the chain                     *)
  (* ---------------------------------------------------------------- *)

  Definition rule3 (p b : block) : Prop :=
    b_ts b = (b_ts p + s_interval S)%Z /\ one_reward b /\ in_window p b.

  Lemma chain_rules_app (g : block) (l1 l2 : list block) :
    chain_rules H S g (l1 ++ l2) <-> chain_rules H S g l1 /\ chain_rules H S (lastb g l1) l2.
  Proof.
    clear value_fn addr_of sig_ok gen_id validator.
    revert g. induction l1 as [|b r IH]; intros g; simpl; [tauto|]. rewrite IH. tauto.
  Qed.

  Lemma chain_rules_nth (l : list block) : forall (g : block) (j : nat) (hb : block),
    chain_rules H S g l -> nth_error l j = Some hb -> exists q, b_prev hb = H q /\ rule3 q hb.
  Proof.
    induction l as [|b r IH]; intros g j hb Hc Hn; [destruct j; discriminate|].
    destruct Hc as (Hl & Ht & Hr & Hw & Hrest).
    destruct j as [|j]; simpl in Hn.
    - inversion Hn; subst hb. exists g. split; [exact Hl|]. split; [exact Ht|]. split; assumption.
    - apply (IH _ _ _ Hrest Hn).
  Qed.

  Lemma chain_ok_linked (c : list block) : chain_ok H S c -> chain_linked H c.
  Proof.
    destruct c as [|g l]; [intros _; exact I|]. simpl. revert g.
    induction l as [|b r IH]; intros g Hc; [exact I|].
    destruct Hc as (Hl & _ & _ & _ & Hrest). split; [exact Hl | apply IH; exact Hrest].
  Qed.

  (* the host blocks that [verify] may skip at positions >= i are justified by the host's chain *)
  Definition justified (lh : list block) (i : nat) : Prop :=
    forall j hb, i <= j -> nth_error lh j = Some hb -> exists q, b_prev hb = H q /\ rule3 q hb.

  Lemma vrules_chain_rules (lh : list block) (now : Z) :
    (forall a b, H a = H b -> a = b) ->
    forall (l : list block) (i : nat) (p : block),
      justified lh i -> vrules lh now i p l -> chain_rules H S p l.
  Proof.
    intros Hinj. induction l as [|b r IH]; intros i p Hj Hv; [exact I|].
    destruct Hv as (Hl & Hon & Hr).
    assert (H3 : rule3 p b).
    { destruct Hon as [(hb & Hn & Eh)|(Ht & _ & Hrw & Hw)].
      - apply Hinj in Eh. subst hb.
        destruct (Hj i b (le_n i) Hn) as (q & Hq & Hr3).
        assert (Epq : p = q) by (apply Hinj; rewrite <- Hl, <- Hq; reflexivity).
        subst q. exact Hr3.
      - split; [exact Ht|]. split; assumption. }
    destruct H3 as (Ht & Hrw & Hw).
    cbn [chain_rules]. split; [exact Hl|]. split; [exact Ht|]. split; [exact Hrw|]. split; [exact Hw|].
    apply (IH (Datatypes.S i) b); [|exact Hr].
    intros j hb Hle Hn. apply (Hj j hb); [lia | exact Hn].
  Qed.

  Lemma justified_full (c : list block) : chain_ok H S c -> justified (removelast c) 1.
  Proof.
    intros Hc j hb Hle Hn. apply nth_error_removelast in Hn.
    destruct c as [|g l]; [destruct j; discriminate|].
    destruct j as [|j]; [lia|]. simpl in Hn, Hc. apply (chain_rules_nth _ _ _ _ Hc Hn).
  Qed.

  Lemma justified_inc (g : block) (l0 : list block) (tip : block) :
    chain_ok H S ((g :: l0) ++ [tip]) -> justified [tip] 0.
  Proof.
    intros Hc j hb _ Hn. cbn [app chain_ok] in Hc. apply chain_rules_app in Hc.
    destruct Hc as (_ & Hl & Ht & Hr & Hw & _).
    destruct j as [|j]; [|destruct j; discriminate]. simpl in Hn. inversion Hn; subst hb.
    exists (lastb g l0). split; [exact Hl|]. split; [exact Ht|]. split; assumption.
  Qed.

  (* adoption keeps the rules *)
  Lemma update_chain_ok (st : cstate) (now : Z) (nbs : list neighbor) (pref : string)
        (st' : cstate) (rep : bool) :
    (forall a b, H a = H b -> a = b) ->
    chain_ok H S (chain st) -> update st now nbs pref = (st', rep) -> chain_ok H S (chain st').
  Proof.
    intros Hinj Hc Hu.
    destruct rep; [|rewrite (update_kept_chain _ _ _ _ _ _ _ _ _ _ Hu); exact Hc].
    destruct (update_replaced_origin _ _ _ _ _ Hu) as [(nb & _ & Hinc)|(_ & nb & _ & Hfull)].
    - destruct (inc_verified_shape _ _ _ _ Hinc) as (g & l0 & tip & l & E & _ & Hc' & _ & _ & Hv).
      rewrite E in Hc. rewrite Hc'. pose proof (justified_inc _ _ _ Hc) as Hj.
      cbn [app chain_ok] in Hc |- *. apply chain_rules_app in Hc. apply chain_rules_app.
      split; [apply Hc|]. apply (vrules_chain_rules _ _ Hinj _ _ _ Hj Hv).
    - destruct (full_verified_shape _ _ _ _ Hfull) as (g & r & _ & Hc' & _ & _ & _ & Hv).
      rewrite Hc'. cbn [chain_ok].
      apply (vrules_chain_rules _ _ Hinj _ _ _ (justified_full _ Hc) Hv).
  Qed.

  (* [verify]: every new block that is not a first block satisfies the four rules with
     respect to its predecessor in old_host ++ neigh *)
  Lemma vrules_nth (lh : list block) (now : Z) : forall (l : list block) (i : nat) (p : block)
      (k : nat) (b : block),
    vrules lh now i p l -> nth_error l k = Some b ->
    let q := match k with O => p | Datatypes.S k' => nth k' l p end in
    b_prev b = H q /\
    ((exists hb, nth_error lh (i + k) = Some hb /\ H b = H hb) \/ new_rules now q b).
  Proof.
    induction l as [|x r IH]; intros i p k b Hv Hn; [destruct k; discriminate|].
    destruct Hv as (Hl & Hon & Hr). destruct k as [|k]; simpl in Hn.
    - inversion Hn; subst x. cbv zeta. rewrite Nat.add_0_r. split; assumption.
    - specialize (IH _ _ _ _ Hr Hn). cbv zeta in IH |- *.
      replace (i + Datatypes.S k) with (Datatypes.S i + k) by lia.
      destruct k as [|k]; [exact IH|]. simpl.
      replace (nth k r p) with (nth k r x); [exact IH|].
      apply nth_indep.
      assert (Hk : nth_error r (Datatypes.S k) <> None) by (rewrite Hn; discriminate).
      apply nth_error_Some in Hk. lia.
  Qed.

  Theorem verified_new (host : cstate) (lh neigh old : list block) (now : Z) (v : list block) :
    verify host lh neigh old now = Ok v ->
    forall (k : nat) (b : block),
      nth_error neigh k = Some b ->
      (forall hb, nth_error lh k = Some hb -> H b <> H hb) ->
      match nth_error (old ++ neigh) (length old + k - 1), (length old + k)%nat with
      | _, O => b_prev b = zero_hash
      | Some q, _ => b_prev b = H q /\ new_rules now q b
      | None, _ => False
      end.
  Proof.
    intros Hv k b Hn Hnew.
    destruct (verify_inv _ _ _ _ _ _ Hv) as (_ & Hne & Hlen & sh0 & sh & Hloop).
    destruct (snoc_cases old) as [E|(o0 & p & E)]; subst old.
    - (* full *)
      specialize (Hlen eq_refl). change (last_block []) with (@None block) in Hloop.
      destruct neigh as [|g r]; [contradiction|]. cbn [verify_loop] in Hloop.
      destruct (verify_step value_fn addr_of sig_ok H S lh now 0 sh0 None g) as [sh1|e] eqn:Es;
        [|discriminate].
      apply verify_loop_vrules in Hloop. cbn [length app Nat.add].
      destruct k as [|k]; simpl in Hn.
      + inversion Hn; subst b. apply (verify_step_none _ _ _ _ _ _ Es).
      + destruct (vrules_nth _ _ _ _ _ _ _ Hloop Hn) as (Hl & Hon). cbv zeta in Hl, Hon.
        replace (Datatypes.S k - 1) with k by lia.
        assert (Eq : nth_error (g :: r) k = Some (match k with O => g | Datatypes.S k' => nth k' r g end)).
        { destruct k as [|k']; [reflexivity|]. simpl. apply nth_error_nth'.
          assert (Hk : nth_error r (Datatypes.S k') <> None) by (rewrite Hn; discriminate).
          apply nth_error_Some in Hk. lia. }
        rewrite Eq. split; [exact Hl|].
        destruct Hon as [(hb & Hb & Eh)|Hnr]; [|exact Hnr].
        exfalso. apply (Hnew hb); assumption.
    - (* incremental *)
      rewrite last_block_snoc' in Hloop. apply verify_loop_vrules in Hloop.
      destruct (vrules_nth _ _ _ _ _ _ _ Hloop Hn) as (Hl & Hon). cbv zeta in Hl, Hon.
      rewrite app_length. cbn [length].
      replace (length o0 + 1 + k) with (Datatypes.S (length o0 + k)) by lia.
      replace (Datatypes.S (length o0 + k) - 1) with (length o0 + k) by lia.
      assert (Eq : nth_error ((o0 ++ [p]) ++ neigh) (length o0 + k)
                   = Some (match k with O => p | Datatypes.S k' => nth k' neigh p end)).
      { rewrite <- app_assoc. rewrite nth_error_app2 by lia.
        replace (length o0 + k - length o0) with k by lia.
        destruct k as [|k']; [reflexivity|]. simpl. apply nth_error_nth'.
        assert (Hk : nth_error neigh (Datatypes.S k') <> None) by (rewrite Hn; discriminate).
        apply nth_error_Some in Hk. lia. }
      rewrite Eq. split; [exact Hl|].
      destruct Hon as [(hb & Hb & Eh)|Hnr]; [|exact Hnr].
      exfalso. apply (Hnew hb); assumption.
  Qed.

  Corollary verified_new_rules (host : cstate) (lh neigh old : list block) (now : Z) (v : list block) :
    verify host lh neigh old now = Ok v ->
    forall (k : nat) (b q : block),
      nth_error neigh k = Some b ->
      (forall hb, nth_error lh k = Some hb -> H b <> H hb) ->
      0 < length old + k ->
      nth_error (old ++ neigh) (length old + k - 1) = Some q ->
      b_prev b = H q /\ b_ts b = (b_ts q + s_interval S)%Z /\ (b_ts b <= now)%Z /\
      one_reward b /\ in_window q b.
  Proof.
    intros Hv k b q Hn Hnew Hpos Hq.
    pose proof (verified_new _ _ _ _ _ _ Hv k b Hn Hnew) as Hx. rewrite Hq in Hx.
    destruct (length old + k) as [|m]; [lia|]. exact Hx.
  Qed.

  (* ---- produced blocks ---- *)

  Lemma produced_rules (n : node) (ts : Z) (perm : list nat) (n' : node) (d : list (string * drop))
        (p : block) :
    (0 < s_fee S)%N ->
    validate n ts perm = (n', Produced d) ->
    op_ok S n (OpValidate ts perm) ->
    last_block (chain (n_c n)) = Some p -> b_ts p <> 0%Z ->
    exists b, chain (n_c n') = chain (n_c n) ++ [b] /\
              b_prev b = H p /\ b_ts b = (b_ts p + s_interval S)%Z /\ one_reward b /\ in_window p b.
  Proof.
    intros Hfee Hv Hok Hlast Hnz.
    assert (Hlts : last_block_ts (chain (n_c n)) = b_ts p)
      by (unfold last_block_ts; rewrite Hlast; reflexivity).
    destruct (validate_produced_add _ _ _ _ _ Hv) as [_ Htick]. rewrite Hlts in Htick.
    (* AddBlock has accepted the block: it is dated after the tip *)
    assert (Hafter : (b_ts p < ts)%Z).
    { rewrite <- Hlts. apply (validate_produced_after_tip _ _ _ _ _ _ _ _ _ _ _ _ Hv).
      intros E. rewrite E in Hlast. discriminate. }
    assert (Hts : ts = (b_ts p + s_interval S)%Z).
    { destruct Htick as [E|[Hne Hle]]; [contradiction|].
      cbn [op_ok] in Hok. destruct Hok as [E|(k & Hk & Ek)].
      - rewrite E in Hlast. discriminate.
      - rewrite Hlts in Ek.
        assert (Hk' : k = 0%Z \/ (1 <= k)%Z) by lia.
        destruct Hk' as [Hk'|Hk']; [subst k; lia|].
        assert (Hint : (0 < s_interval S)%Z) by nia. nia. }
    apply validate_produced in Hv. cbv zeta in Hv.
    destruct Hv as (kept & reward & u0 & _ & Hk & _ & _ & Hc & _ & _ & Htxs & Hrt & _ & _ & Hone).
    match type of Hc with _ = _ ++ [?b] => set (blk := b) in * end.
    exists blk. split; [exact Hc|].
    split; [unfold blk, make_block; cbn [b_prev]; rewrite Hlast; reflexivity|].
    split; [unfold blk, make_block; cbn [b_ts]; exact Hts|].
    split.
    - apply Hone. intros t Ht. rewrite Hk in Ht.
      apply (greedy_no_reward _ _ _ _ _ _ _ _ _ _ Hfee Ht).
    - unfold in_window. rewrite Htxs. apply Forall_app. split.
      + apply Forall_forall. intros t Ht _. rewrite Hk in Ht.
        apply greedy_kept_valid in Ht. destruct Ht as (A & B & _). rewrite Hlts in B.
        unfold blk, make_block. cbn [b_ts]. lia.
      + constructor; [|constructor]. intros Hc'. rewrite Hrt in Hc'. discriminate.
  Qed.

  (* ---- one step ---- *)

  (* a non-empty chain whose tip is dated 0 is taken for an empty one by Validate *)
  Definition tip_nonzero (c : list block) : Prop := c = [] \/ last_block_ts c <> 0%Z.

  Theorem step_chain_ok (n : node) (o : op) :
    (0 < s_fee S)%N -> (forall a b, H a = H b -> a = b) ->
    chain_ok H S (chain (n_c n)) -> tip_nonzero (chain (n_c n)) -> op_ok S n o ->
    chain_ok H S (chain (n_c (step n o))).
  Proof.
    intros Hfee Hinj Hc Hnz Hok. destruct o as [ts perm|t|now nbs pref|poh order].
    - destruct (step_validate_cases n ts perm) as [E|[d Ev]]; [rewrite E; exact Hc|].
      destruct (chain (n_c n)) as [|g l] eqn:Ec.
      + destruct (validate_appends _ _ _ _ _ _ _ _ _ _ _ _ Ev) as (b & Hc' & _).
        rewrite Hc', Ec. exact I.
      + assert (Hlast : last_block (chain (n_c n)) = Some (lastb g l))
          by (rewrite Ec; apply last_block_lastb).
        assert (Hz : b_ts (lastb g l) <> 0%Z).
        { destruct Hnz as [E|Hz]; [discriminate|]. unfold last_block_ts in Hz.
          rewrite last_block_lastb in Hz. exact Hz. }
        destruct (produced_rules _ _ _ _ _ _ Hfee Ev Hok Hlast Hz) as (b & Hc' & Hl & Ht & Hr & Hw).
        rewrite Hc', Ec. cbn [app chain_ok] in Hc |- *. apply chain_rules_app.
        split; [exact Hc|]. cbn [chain_rules]. repeat split; assumption.
    - rewrite step_add_state. exact Hc.
    - cbn [Reach.step n_c].
      destruct (update (n_c n) now nbs pref) as [st' rep] eqn:Eu. cbn [fst].
      apply (update_chain_ok _ _ _ _ _ _ Hinj Hc Eu).
    - exact Hc.
  Qed.

  (* ---- histories with positive timestamps ---- *)

  (* timestamps are nanoseconds since 1970: a first block is produced at a positive time, and
     the first block of a neighbor's full answer is dated at a positive time *)
  Definition op_pos (n : node) (o : op) : Prop :=
    match o with
    | OpValidate ts _ => chain (n_c n) = [] -> (0 < ts)%Z
    | OpUpdate _ nbs _ =>
      forall nb g r, In nb nbs -> nb_full nb = RBlocks (g :: r) -> (0 < b_ts g)%Z
    | _ => True
    end.

  Inductive reach_pos : node -> Prop :=
  | reach_pos_init : reach_pos node_empty
  | reach_pos_step n o : reach_pos n -> op_ok S n o -> op_pos n o -> reach_pos (step n o).

  Lemma reach_pos_reach (n : node) : reach_pos n -> reach n.
  Proof.
    intros Hr. induction Hr as [|n o Hr IH Hok Hpos]; [apply reach_init | apply reach_step; assumption].
  Qed.

  Definition chain_pos (c : list block) : Prop :=
    match c with [] => True | g :: _ => (0 < b_ts g)%Z end.

  Lemma chain_rules_pos (l : list block) : forall g : block,
    (0 <= s_interval S)%Z -> (0 < b_ts g)%Z -> chain_rules H S g l -> (0 < b_ts (lastb g l))%Z.
  Proof.
    induction l as [|b r IH]; intros g Hint Hg Hc; [exact Hg|].
    destruct Hc as (_ & Ht & _ & _ & Hrest). simpl. apply IH; [exact Hint | lia | exact Hrest].
  Qed.

  Lemma chain_pos_tip_nonzero (c : list block) :
    (0 <= s_interval S)%Z -> chain_ok H S c -> chain_pos c -> tip_nonzero c.
  Proof.
    intros Hint Hc Hp. destruct c as [|g l]; [left; reflexivity|right].
    unfold last_block_ts. rewrite last_block_lastb.
    pose proof (chain_rules_pos _ _ Hint Hp Hc). lia.
  Qed.

  Lemma step_chain_pos (n : node) (o : op) :
    op_pos n o -> chain_pos (chain (n_c n)) -> chain_pos (chain (n_c (step n o))).
  Proof.
    intros Hpos Hp. destruct o as [ts perm|t|now nbs pref|poh order].
    - destruct (step_validate_cases n ts perm) as [E|[d Ev]]; [rewrite E; exact Hp|].
      destruct (validate_appends _ _ _ _ _ _ _ _ _ _ _ _ Ev) as (b & Hc' & _ & Ht & _).
      rewrite Hc'. destruct (chain (n_c n)) as [|g l] eqn:Ec; [|exact Hp].
      simpl. rewrite Ht. apply Hpos. exact Ec.
    - rewrite step_add_state. exact Hp.
    - cbn [Reach.step n_c].
      destruct (update (n_c n) now nbs pref) as [st' rep] eqn:Eu. cbn [fst].
      destruct rep; [|rewrite (update_kept_chain _ _ _ _ _ _ _ _ _ _ Eu); exact Hp].
      destruct (update_replaced_origin _ _ _ _ _ Eu) as [(nb & _ & Hinc)|(_ & nb & Hnb & Hfull)].
      + destruct (inc_verified_shape _ _ _ _ Hinc) as (g & l0 & tip & l & E & _ & Hc' & _).
        rewrite E in Hp. rewrite Hc'. exact Hp.
      + destruct (full_verified_shape _ _ _ _ Hfull) as (g & r & Hf & Hc' & _).
        rewrite Hc'. simpl. apply (Hpos nb g r Hnb Hf).
    - exact Hp.
  Qed.

  (* with a negative interval a chain never grows beyond its first block: Validate lets a tick
     through only if it is not after the tip's tick plus the interval, AddBlock only if it is
     after the tip; and no neighbor's answer passes verify (its closing AddBlock) *)
  Lemma step_neg_interval_short (n : node) (o : op) :
    (s_interval S < 0)%Z -> chain_pos (chain (n_c n)) ->
    length (chain (n_c n)) <= 1 -> length (chain (n_c (step n o))) <= 1.
  Proof.
    intros Hint Hp Hlen. destruct o as [ts perm|t|now nbs pref|poh order].
    - destruct (step_validate_cases n ts perm) as [E|[d Ev]]; [rewrite E; exact Hlen|].
      destruct (validate_appends _ _ _ _ _ _ _ _ _ _ _ _ Ev) as (b & Hc' & _).
      rewrite Hc'. destruct (chain (n_c n)) as [|g l] eqn:Ec; [simpl; lia|exfalso].
      assert (Hne : chain (n_c n) <> []) by (rewrite Ec; discriminate).
      pose proof (validate_produced_after_tip _ _ _ _ _ _ _ _ _ _ _ _ Ev Hne) as Hafter.
      destruct (validate_produced_add _ _ _ _ _ Ev) as [_ [Hz|[_ Hle]]]; [|lia].
      destruct l as [|x l']; [|simpl in Hlen; lia].
      rewrite Ec in Hz. unfold last_block_ts, last_block in Hz. simpl in Hz, Hp. lia.
    - rewrite step_add_state. exact Hlen.
    - cbn [Reach.step n_c]. rewrite update_nonpos_interval_kept by lia. exact Hlen.
    - exact Hlen.
  Qed.

  Theorem reach_pos_chain_ok (n : node) :
    (0 < s_fee S)%N -> (forall a b, H a = H b -> a = b) ->
    reach_pos n -> chain_ok H S (chain (n_c n)).
  Proof.
    intros Hfee Hinj Hr.
    destruct (Z.le_gt_cases 0 (s_interval S)) as [Hint|Hint].
    - assert (Hboth : chain_ok H S (chain (n_c n)) /\ chain_pos (chain (n_c n))).
      { induction Hr as [|n o Hr [IHc IHp] Hok Hpos]; [split; exact I|]. split.
        - apply step_chain_ok; try assumption. apply chain_pos_tip_nonzero; assumption.
        - apply step_chain_pos; assumption. }
      apply Hboth.
    - assert (Hboth : length (chain (n_c n)) <= 1 /\ chain_pos (chain (n_c n))).
      { induction Hr as [|n o Hr [IHl IHp] Hok Hpos]; [split; [simpl; lia | exact I]|]. split.
        - apply step_neg_interval_short; assumption.
        - apply step_chain_pos; assumption. }
      destruct Hboth as [Hlen _].
      destruct (chain (n_c n)) as [|g [|x l]]; [exact I | exact I | simpl in Hlen; lia].
  Qed.

  (* the same over [reach], given that no state of the history had a tip dated 0 *)
  Inductive reach_nz : node -> Prop :=
  | reach_nz_init : reach_nz node_empty
  | reach_nz_step n o : reach_nz n -> tip_nonzero (chain (n_c n)) -> op_ok S n o -> reach_nz (step n o).

  Theorem reach_nz_chain_ok (n : node) :
    (0 < s_fee S)%N -> (forall a b, H a = H b -> a = b) ->
    reach_nz n -> chain_ok H S (chain (n_c n)).
  Proof.
    intros Hfee Hinj Hr.
    induction Hr as [|n o Hr IH Hnz Hok]; [exact I | apply step_chain_ok; assumption].
  Qed.

  (* ---- no block from the future ---- *)

  Lemma In_removelast {A} (l : list A) (x : A) : In x (removelast l) -> In x l.
  Proof.
    destruct (snoc_cases l) as [E|(l0 & y & E)]; subst l; [intros []|].
    rewrite removelast_last. intros Hin. apply in_or_app. left. exact Hin.
  Qed.

  Lemma vrules_not_future (lh : list block) (now : Z) : forall (l : list block) (i : nat) (p b : block),
    vrules lh now i p l -> In b l ->
    (exists hb, In hb lh /\ H hb = H b) \/ (b_ts b <= now)%Z.
  Proof.
    induction l as [|x r IH]; intros i p b Hv Hin; [destruct Hin|].
    destruct Hv as (_ & Hon & Hr). destruct Hin as [E|Hin]; [subst x | apply (IH _ _ _ Hr Hin)].
    destruct Hon as [(hb & Hn & Eh)|(_ & Hnow & _)]; [left|right; exact Hnow].
    exists hb. split; [apply (nth_error_In _ _ Hn) | symmetry; exact Eh].
  Qed.

  Theorem update_not_future (st : cstate) (now : Z) (nbs : list neighbor) (pref : string) (st' : cstate) :
    update st now nbs pref = (st', true) ->
    forall b, In b (chain st') ->
      (exists hb, In hb (chain st) /\ H hb = H b) \/
      (b_ts b <= now)%Z \/
      (is_fork st (stage1 st now nbs) nbs = true /\ exists r, chain st' = b :: r).
  Proof.
    intros Hu b Hin.
    destruct (update_replaced_origin _ _ _ _ _ Hu) as [(nb & _ & Hinc)|(Hfk & nb & _ & Hfull)].
    - destruct (inc_verified_shape _ _ _ _ Hinc) as (g & l0 & tip & l & E & _ & Hc' & _ & _ & Hv).
      rewrite Hc' in Hin. apply in_app_or in Hin. destruct Hin as [Hin|Hin].
      + left. exists b. split; [|reflexivity]. rewrite E. apply in_or_app. left. exact Hin.
      + destruct (vrules_not_future _ _ _ _ _ _ Hv Hin) as [(hb & Hhb & Eh)|Hnow];
          [left|right; left; exact Hnow].
        exists hb. split; [|exact Eh]. rewrite E. apply in_or_app. right.
        destruct Hhb as [Ex|[]]. left. exact Ex.
    - destruct (full_verified_shape _ _ _ _ Hfull) as (g & r & _ & Hc' & _ & _ & _ & Hv).
      rewrite Hc' in Hin. destruct Hin as [E|Hin].
      + subst g. right. right. split; [exact Hfk|]. exists r. exact Hc'.
      + destruct (vrules_not_future _ _ _ _ _ _ Hv Hin) as [(hb & Hhb & Eh)|Hnow];
          [left|right; left; exact Hnow].
        exists hb. split; [apply In_removelast; exact Hhb | exact Eh].
  Qed.

  Corollary update_not_future_inj (st : cstate) (now : Z) (nbs : list neighbor) (pref : string)
            (st' : cstate) :
    (forall a b, H a = H b -> a = b) ->
    update st now nbs pref = (st', true) ->
    forall b, In b (chain st') ->
      In b (chain st) \/ (b_ts b <= now)%Z \/
      (is_fork st (stage1 st now nbs) nbs = true /\ exists r, chain st' = b :: r).
  Proof.
    intros Hinj Hu b Hin.
    destruct (update_not_future _ _ _ _ _ Hu b Hin) as [(hb & Hhb & Eh)|Hx]; [left|right; exact Hx].
    apply Hinj in Eh. subst hb. exact Hhb.
  Qed.

End ReachLemmas.

(* ------------------------------------------------------------------ *)
(* a toy instance: an injective "hash" (a self-delimiting encoding of  *)
(* the block), a reachable node with two blocks, and the two histories *)
(* that break the block rules when a timestamp is 0 or the interval is *)
(* negative                                                            *)
(* ------------------------------------------------------------------ *)
Module ReachExample.
  Import SyncExample.

  (* prefix-injective encoders *)
  Definition pinj {A} (e : A -> list N) : Prop :=
    forall x y r s, e x ++ r = e y ++ s -> x = y /\ r = s.

  Definition eN (n : N) : list N := [n].
  Definition ebool (b : bool) : list N := [if b then 1%N else 0%N].
  Definition eZ (z : Z) : list N := [Z.to_N z; Z.to_N (- z)].
  Fixpoint estring (s : string) : list N :=
    match s with EmptyString => [0%N] | String a r => 1%N :: N_of_ascii a :: estring r end.
  Fixpoint elist {A} (e : A -> list N) (l : list A) : list N :=
    match l with [] => [0%N] | x :: r => 1%N :: e x ++ elist e r end.
  Definition eopt {A} (e : A -> list N) (o : option A) : list N :=
    match o with None => [0%N] | Some x => 1%N :: e x end.
  Definition eslice {A} (e : A -> list N) (s : slice A) : list N := eopt (elist e) s.
  Definition eoutput (o : output) : list N := estring (o_addr o) ++ ebool (o_yield o) ++ eN (o_val o).
  Definition einput (i : input) : list N :=
    eN (i_idx i) ++ estring (i_ref i) ++ estring (i_key i) ++ estring (i_sig i).
  Definition etx (t : tx) : list N :=
    estring (t_id t) ++ eslice einput (t_ins t) ++ eslice eoutput (t_outs t) ++ eZ (t_ts t).
  Definition eblock (b : block) : list N :=
    elist eN (b_prev b) ++ eslice estring (b_added b) ++ eslice estring (b_removed b) ++
    eZ (b_ts b) ++ eslice etx (b_txs b).

  Lemma pinj_N : pinj eN.
  Proof. intros x y r s E. inversion E. split; reflexivity. Qed.
  Lemma pinj_bool : pinj ebool.
  Proof. intros [] [] r s E; inversion E; split; reflexivity. Qed.
  Lemma pinj_Z : pinj eZ.
  Proof. intros x y r s E. inversion E. split; [lia | reflexivity]. Qed.
  Lemma pinj_string : pinj estring.
  Proof.
    intros x. induction x as [|a x IH]; intros [|b y] r s E; simpl in E; inversion E.
    - split; reflexivity.
    - match goal with Hx : estring x ++ r = estring y ++ s |- _ => destruct (IH _ _ _ Hx) as [-> ->] end.
      match goal with Ha : N_of_ascii a = N_of_ascii b |- _ =>
        apply (f_equal ascii_of_N) in Ha; rewrite !ascii_N_embedding in Ha; subst b end.
      split; reflexivity.
  Qed.
  Lemma pinj_list {A} (e : A -> list N) : pinj e -> pinj (elist e).
  Proof.
    intros He x. induction x as [|a x IH]; intros [|b y] r s E; simpl in E; inversion E.
    - split; reflexivity.
    - match goal with Hx : (e a ++ _) ++ r = (e b ++ _) ++ s |- _ =>
        rewrite <- !app_assoc in Hx; destruct (He _ _ _ _ Hx) as [-> Hy];
        destruct (IH _ _ _ Hy) as [-> ->] end.
      split; reflexivity.
  Qed.
  Lemma pinj_opt {A} (e : A -> list N) : pinj e -> pinj (eopt e).
  Proof.
    intros He [x|] [y|] r s E; simpl in E; inversion E.
    - match goal with Hx : e x ++ r = e y ++ s |- _ => destruct (He _ _ _ _ Hx) as [-> ->] end.
      split; reflexivity.
    - split; reflexivity.
  Qed.
  Lemma pinj_slice {A} (e : A -> list N) : pinj e -> pinj (eslice e).
  Proof. intros He. apply pinj_opt, pinj_list, He. Qed.

  Ltac pstep L E := let Ex := fresh "Ex" in apply L in E; destruct E as [Ex E]; try subst.

  Lemma pinj_output : pinj eoutput.
  Proof.
    intros [a y v] [a' y' v'] r s E. unfold eoutput in E. cbn [o_addr o_yield o_val] in E.
    rewrite <- !app_assoc in E.
    pstep pinj_string E. pstep pinj_bool E. pstep pinj_N E. split; reflexivity.
  Qed.
  Lemma pinj_input : pinj einput.
  Proof.
    intros [a b c d] [a' b' c' d'] r s E. unfold einput in E. cbn [i_idx i_ref i_key i_sig] in E.
    rewrite <- !app_assoc in E.
    pstep pinj_N E. pstep pinj_string E. pstep pinj_string E. pstep pinj_string E. split; reflexivity.
  Qed.
  Lemma pinj_tx : pinj etx.
  Proof.
    intros [a b c d] [a' b' c' d'] r s E. unfold etx in E. cbn [t_id t_ins t_outs t_ts] in E.
    rewrite <- !app_assoc in E.
    pstep pinj_string E. pstep (pinj_slice einput pinj_input) E.
    pstep (pinj_slice eoutput pinj_output) E. pstep pinj_Z E. split; reflexivity.
  Qed.
  Lemma pinj_block : pinj eblock.
  Proof.
    intros [a b c d e] [a' b' c' d' e'] r s E. unfold eblock in E.
    cbn [b_prev b_added b_removed b_ts b_txs] in E. rewrite <- !app_assoc in E.
    pstep (pinj_list eN pinj_N) E. pstep (pinj_slice estring pinj_string) E.
    pstep (pinj_slice estring pinj_string) E. pstep pinj_Z E. pstep (pinj_slice etx pinj_tx) E.
    split; reflexivity.
  Qed.

  Definition Hinj : block -> hash := eblock.
  Lemma Hinj_inj : forall a b : block, Hinj a = Hinj b -> a = b.
  Proof.
    intros a b E. apply (pinj_block a b [] []). rewrite !app_nil_r. exact E.
  Qed.

  (* transaction ids: one per timestamp *)
  Definition gid : slice input -> slice output -> Z -> string :=
    fun _ _ ts => String (ascii_of_N (Z.to_N ts)) EmptyString.

  (* genesis at time 10, second block at time 20 *)
  Definition n1 (Hx : block -> hash) : node :=
    step vf ao so Hx gid Sx "V"%string node_empty (OpValidate 10 []).
  Definition n2 (Hx : block -> hash) : node :=
    step vf ao so Hx gid Sx "V"%string (n1 Hx) (OpValidate 20 []).

  Lemma n2_reach_pos : reach_pos vf ao so Hinj gid Sx "V"%string (n2 Hinj).
  Proof.
    apply reach_pos_step; [apply reach_pos_step; [apply reach_pos_init| |]| |].
    - left. reflexivity.
    - intros _. reflexivity.
    - right. exists 1%Z. split; [lia|]. vm_compute. reflexivity.
    - intros E. vm_compute in E. discriminate E.
  Qed.

  Lemma n2_reach : reach vf ao so Hinj gid Sx "V"%string (n2 Hinj).
  Proof. apply reach_pos_reach. exact n2_reach_pos. Qed.

  Lemma n2_two_blocks : length (chain (n_c (n2 Hinj))) = 2.
  Proof. vm_compute. reflexivity. Qed.

  (* a first block dated 0, then a tick five intervals later: Validate takes the chain for an
     empty one, does not refuse the skipped ticks and produces a second "genesis" *)
  Definition z2 (Hx : block -> hash) : node :=
    step vf ao so Hx gid Sx "V"%string
         (step vf ao so Hx gid Sx "V"%string node_empty (OpValidate 0 [])) (OpValidate 50 []).

  Lemma z2_reach (Hx : block -> hash) : reach vf ao so Hx gid Sx "V"%string (z2 Hx).
  Proof.
    apply reach_step; [apply reach_step; [apply reach_init|]|].
    - left. reflexivity.
    - right. exists 5%Z. split; [lia|]. vm_compute. reflexivity.
  Qed.

  Lemma z2_not_ok (Hx : block -> hash) : ~ chain_ok Hx Sx (chain (n_c (z2 Hx))).
  Proof.
    intros Hc. vm_compute in Hc. destruct Hc as (_ & Ht & _). discriminate Ht.
  Qed.

  Theorem chain_ok_zero_tip_refuted :
    exists (value_fn : N -> bool -> Z -> N) (addr_of : string -> string) (sig_ok : input -> bool)
           (H : block -> hash) (gen_id : slice input -> slice output -> Z -> string)
           (St : settings) (validator : string) (n : node),
      (0 < s_fee St)%N /\ (0 < s_interval St)%Z /\ (forall a b, H a = H b -> a = b) /\
      reach value_fn addr_of sig_ok H gen_id St validator n /\
      ~ chain_ok H St (chain (n_c n)).
  Proof.
    exists vf, ao, so, Hinj, gid, Sx, "V"%string, (z2 Hinj).
    split; [reflexivity|]. split; [reflexivity|]. split; [exact Hinj_inj|].
    split; [apply z2_reach | apply z2_not_ok].
  Qed.

  (* a negative interval: the tick two intervals "after" the tip passes the two tick tests of
     Validate (it is neither the tip's tick nor later than the next one) and is refused by
     AddBlock, being dated before the tip: the chain keeps its single block *)
  Definition Sneg : settings := mkSettings (-10) 1 100 8.
  Definition m1 (Hx : block -> hash) : node :=
    step vf ao so Hx gid Sneg "V"%string node_empty (OpValidate 100 []).
  Definition m2 (Hx : block -> hash) : node :=
    step vf ao so Hx gid Sneg "V"%string (m1 Hx) (OpValidate 80 []).

  Lemma neg_interval_tick_refused :
    op_ok Sneg (m1 Hinj) (OpValidate 80 []) /\
    snd (validate vf ao so Hinj gid Sneg "V"%string (m1 Hinj) 80 []) = Refused ETime /\
    map b_ts (chain (n_c (m2 Hinj))) = [100%Z].
  Proof.
    split; [right; exists 2%Z; split; [lia|]; vm_compute; reflexivity|].
    vm_compute. split; reflexivity.
  Qed.

  (* a neighbor on another branch (three blocks by validator "W"): the two-block node adopts its
     chain in a full re-sync *)
  Definition w3 : node :=
    step vf ao so Hinj gid Sx "W"%string
         (step vf ao so Hinj gid Sx "W"%string
               (step vf ao so Hinj gid Sx "W"%string node_empty (OpValidate 10 []))
               (OpValidate 20 []))
         (OpValidate 30 []).
  Definition nbW : neighbor := mkNb "w:1"%string (RFail EFetch) (RBlocks (chain (n_c w3))).
  Definition n3 : node :=
    step vf ao so Hinj gid Sx "V"%string (n2 Hinj) (OpUpdate 40 [nbW] EmptyString).

  Lemma n3_reach_pos : reach_pos vf ao so Hinj gid Sx "V"%string n3.
  Proof.
    apply reach_pos_step; [exact n2_reach_pos| |].
    - intros nb [E|[]] Et. subst nb. vm_compute in Et. discriminate Et.
    - intros nb g r [E|[]] Ef. subst nb. vm_compute in Ef. inversion Ef; subst g. reflexivity.
  Qed.

  Lemma n3_adopted : chain (n_c n3) = chain (n_c w3) /\ length (chain (n_c n3)) = 3.
  Proof. vm_compute. split; reflexivity. Qed.
End ReachExample.
