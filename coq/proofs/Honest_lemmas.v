(* Honest_lemmas.v — property C05: is the block an honest node produces accepted by the honest
   nodes that hold the same chain?  (transactions_pool.go:65-148 Validate on the producing side,
   blockchain.go:284-365 verify / 399-462 verifyBlock on the receiving side.)

   The producer judges the pooled transactions against the confirmed outputs PLUS the outputs of
   the tip block PLUS the outputs of the transactions it has already kept for the new block.
   A receiver checks the new block against a state that lags behind:
     - extension of its tip / full re-sync: the confirmed outputs only (the tip is applied after
       the new block was checked),
     - competitor of its own tip: the confirmed outputs plus the tip.
   Hence two families of honest blocks are refused (the two witnesses below); the positive
   theorems cover the blocks whose kept transactions spend confirmed outputs only. *)
From Coq Require Import Lia ZArith NArith.
From RV Require Import model.Base model.Ledger model.Registry model.Chain model.Sync model.Pool model.Reach.
From RV Require Import proofs.Ledger_fee proofs.Chain_verify proofs.Pool_lemmas proofs.Sync_lemmas
                       proofs.Accept_lemmas proofs.Reach_lemmas proofs.Spend_lemmas.
Local Open Scope N_scope.

(* ------------------------------------------------------------------ *)
(* list helpers                                                        *)
(* ------------------------------------------------------------------ *)

Lemma filter_all {A} (p : A -> bool) (l : list A) :
  (forall x, In x l -> p x = true) -> filter p l = l.
Proof.
  induction l as [|x r IH]; intros Hp; [reflexivity|].
  cbn [filter]. rewrite (Hp x (or_introl eq_refl)). f_equal. apply IH.
  intros y Hy. apply Hp. right. exact Hy.
Qed.

Lemma last_block_cons (b : block) (r : list block) :
  last_block (b :: r) = match last_block r with None => Some b | Some p => Some p end.
Proof.
  unfold last_block. cbn [rev]. destruct (rev r) as [|x xs]; reflexivity.
Qed.

Lemma registered_is_registered (a1 a2 : areg) (x : string) :
  registered a1 = registered a2 -> is_registered a1 x = is_registered a2 x.
Proof. unfold is_registered. intros ->. reflexivity. Qed.

(* ------------------------------------------------------------------ *)
(* CalculateFee reads the registry only through the inputs' outputs    *)
(* ------------------------------------------------------------------ *)

Lemma inputs_value_ext (value_fn : N -> bool -> Z -> N) (addr_of : string -> string)
      (r1 r2 : ureg) (t : Z) : forall (l : list input) (acc : N),
  (forall i, In i l -> find_utxo r1 i = find_utxo r2 i) ->
  inputs_value value_fn addr_of r1 l t acc = inputs_value value_fn addr_of r2 l t acc.
Proof.
  induction l as [|i r IH]; intros acc Hag; [reflexivity|].
  cbn [inputs_value]. rewrite (Hag i (or_introl eq_refl)).
  destruct (find_utxo r2 i) as [u|e]; [|reflexivity].
  destruct (String.eqb (o_addr (u_out u)) (addr_of (i_key i))); [|reflexivity].
  apply IH. intros j Hj. apply Hag. right. exact Hj.
Qed.

Lemma calc_fee_ext (value_fn : N -> bool -> Z -> N) (addr_of : string -> string)
      (fee : N) (r1 r2 : ureg) (t : tx) (ts : Z) :
  (forall i, In i (ins t) -> find_utxo r1 i = find_utxo r2 i) ->
  calc_fee value_fn addr_of fee r1 t ts = calc_fee value_fn addr_of fee r2 t ts.
Proof.
  intros Hag. unfold calc_fee. rewrite (inputs_value_ext value_fn addr_of r1 r2 ts (ins t) 0 Hag).
  reflexivity.
Qed.

(* ------------------------------------------------------------------ *)
(* "wallet-style" blocks                                               *)
(* ------------------------------------------------------------------ *)

(* [conf_run next reg u l]: the transactions [l] are applied one by one (at [next]) to the
   running registry [u], as the production loop does; every input of each of them names an
   output that the registry [reg] holds too, and holds identically *)
Fixpoint conf_run (next : Z) (reg u : ureg) (l : list tx) : Prop :=
  match l with
  | [] => True
  | t :: r =>
    (forall i, In i (ins t) -> exists x, find_utxo reg i = Ok x /\ find_utxo u i = Ok x) /\
    (forall u', update_utxos u [t] next = Ok u' -> conf_run next reg u' r)
  end.

(* the kept transactions of a produced block: all but the reward transaction, which is last *)
Definition kept_of (b : block) : list tx := removelast (txs b).

(* the kept transactions of [b] spend only outputs held by [reg], which the producer's running
   copy (starting from [u0] = the registry once the tip is applied) sees identically *)
Definition confirmed_only (reg u0 : ureg) (b : block) : Prop :=
  conf_run (b_ts b) reg u0 (kept_of b).

(* the registry addresses: what the producer took for registered (and therefore did not list
   as added) is registered for the checker as well, for every yielding recipient of the block *)
Definition yield_known (prod check : areg) (b : block) : Prop :=
  forall x, In x (yielding_addrs (kept_of b)) ->
            is_registered prod x = true -> is_registered check x = true.

(* the vocabulary, unfolded *)
Lemma confirmed_only_unfold (reg u0 : ureg) (b : block) :
  confirmed_only reg u0 b <-> conf_run (b_ts b) reg u0 (removelast (txs b)).
Proof. apply iff_refl. Qed.

Lemma conf_run_unfold (next : Z) (reg u : ureg) (t : tx) (r : list tx) :
  conf_run next reg u (t :: r) <->
  (forall i, In i (ins t) -> exists x, find_utxo reg i = Ok x /\ find_utxo u i = Ok x) /\
  (forall u', update_utxos u [t] next = Ok u' -> conf_run next reg u' r).
Proof. apply iff_refl. Qed.

Lemma yield_known_unfold (prod check : areg) (b : block) :
  yield_known prod check b <->
  forall x, In x (yielding_addrs (removelast (txs b))) ->
            is_registered prod x = true -> is_registered check x = true.
Proof. apply iff_refl. Qed.

Section Honest.
  Variable value_fn : N -> bool -> Z -> N.
  Variable addr_of : string -> string.
  Variable sig_ok : input -> bool.
  Variable H : block -> hash.
  Variable gen_id : slice input -> slice output -> Z -> string.
  Variable S : settings.
  Variable validator : string.

  Local Notation CF := (calc_fee value_fn addr_of).
  Local Notation VB := (vb_txs value_fn addr_of sig_ok S).
  Local Notation VBLOCK := (verify_block value_fn addr_of sig_ok S).
  Local Notation VERIFY := (verify value_fn addr_of sig_ok H S).
  Local Notation VLOOP := (verify_loop value_fn addr_of sig_ok H S).
  Local Notation VSTEP := (verify_step value_fn addr_of sig_ok H S).
  Local Notation VALIDATE := (validate value_fn addr_of sig_ok H gen_id S validator).
  Local Notation GREEDY := (greedy value_fn addr_of sig_ok S).
  Local Notation GFEES := (greedy_fees value_fn addr_of sig_ok S).
  Local Notation REACH := (reach value_fn addr_of sig_ok H gen_id S validator).

  (* the fees the producer computed on its running copies are the fees CalculateFee gives
     against [reg] *)
  Lemma greedy_fees_confirmed (last next ts : Z) (reg : ureg) : forall (l : list tx) (u : ureg),
    conf_run next reg u (GREEDY last next ts l u) ->
    Forall2 (fun t f => CF (s_fee S) reg t ts = Ok f) (GREEDY last next ts l u) (GFEES last next ts l u).
  Proof.
    induction l as [|t r IH]; intros u Hc.
    - cbn [greedy greedy_fees]. constructor.
    - cbn [greedy greedy_fees] in *.
      destruct (keeps value_fn addr_of sig_ok S last next ts u t) as [[f u']|] eqn:Hk.
      + cbn [conf_run] in Hc. destruct Hc as [Hin Hrest].
        apply keeps_iff in Hk. destruct Hk as [_ [_ [_ [Hf Hu]]]].
        constructor.
        * rewrite <- Hf. apply calc_fee_ext. intros i Hi.
          destruct (Hin i Hi) as [x [H1 H2]]. rewrite H1, H2. reflexivity.
        * apply IH. apply Hrest. exact Hu.
      + apply IH. exact Hc.
  Qed.

  (* ---------------------------------------------------------------- *)
  (* verifyBlock accepts the produced block                            *)
  (* ---------------------------------------------------------------- *)

  (* [sh] is the state the block is checked against: any state whose registry holds the spent
     outputs as the producer saw them and whose registered addresses cover the producer's *)
  Lemma produced_block_checked (n : node) (ts : Z) (perm : list nat) (n' : node)
        (d : list (string * drop)) (old : list block) (tip b : block) (sh : cstate) (now : Z) :
    VALIDATE n ts perm = (n', Produced d) ->
    chain (n_c n) = old ++ [tip] ->
    last_block (chain (n_c n')) = Some b ->
    b_ts tip <> 0%Z ->
    ts = (b_ts tip + s_interval S)%Z ->
    (ts <= now)%Z ->
    0 < s_fee S ->
    confirmed_only (ur sh) (ur (n_c n')) b ->
    yield_known (ar (n_c n)) (ar sh) b ->
      update_utxos (ur (n_c n)) (txs tip) (b_ts tip) = Ok (ur (n_c n')) /\
      chain (n_c n') = old ++ [tip; b] /\
      b_prev b = H tip /\ b_ts b = ts /\
      VBLOCK sh b (b_ts tip) now = Ok tt.
  Proof.
    intros Hv Hch Hlast Hnz Hts Hnow Hfee Hconf Hyield.
    assert (Etip : last_block (chain (n_c n)) = Some tip) by (rewrite Hch; apply last_block_snoc).
    assert (Elts : last_block_ts (chain (n_c n)) = b_ts tip) by (unfold last_block_ts; rewrite Etip; reflexivity).
    assert (Eltx : last_block_txs (chain (n_c n)) = txs tip) by (unfold last_block_txs; rewrite Etip; reflexivity).
    pose proof (validate_appends _ _ _ _ _ _ _ _ _ _ _ _ Hv) as Happ.
    apply validate_produced in Hv. cbv zeta in Hv. rewrite Elts, Eltx in Hv.
    assert (Eg : (b_ts tip =? 0)%Z = false) by (apply Z.eqb_neq; exact Hnz).
    rewrite Eg in Hv. rewrite <- Hts in Hv.
    destruct Hv as [kept [reward [u0 [E0 [Hk [Hr [_ [Hc [_ [_ [_ [_ [_ [_ Hone]]]]]]]]]]]]]].
    cbn [app] in Hc, Hone.
    assert (Eu0 : ur (n_c n') = u0).
    { destruct Happ as [bx [_ [_ [_ [_ Hur]]]]]. rewrite Etip, E0 in Hur. exact Hur. }
    rewrite Eu0 in Hconf.
    set (rt := reward_tx gen_id validator false ts reward) in *.
    set (b0 := make_block H (n_c n) ts (Some (kept ++ [rt])) (yielding_addrs kept)) in *.
    assert (Eb : b = b0).
    { rewrite Hc, last_block_snoc in Hlast. inversion Hlast. reflexivity. }
    subst b.
    assert (Etxs : txs b0 = kept ++ [rt]) by reflexivity.
    assert (Ekept : kept_of b0 = kept) by (unfold kept_of; rewrite Etxs; apply removelast_last).
    assert (Ebts : b_ts b0 = ts) by reflexivity.
    assert (Hnr : forall t, In t kept -> is_reward t = false).
    { intros t Ht. rewrite Hk in Ht. exact (greedy_no_reward _ _ _ _ _ _ _ _ _ _ Hfee Ht). }
    specialize (Hone Hnr).
    split; [rewrite Eu0; exact E0|].
    split; [rewrite Hc, Hch, <- app_assoc; reflexivity|].
    split; [unfold b0, make_block; cbn [b_prev]; rewrite Etip; reflexivity|].
    split; [reflexivity|].
    (* the loop over the transactions *)
    set (fees := GFEES (b_ts tip) ts ts (permute perm (elems (n_pool n))) u0) in *.
    assert (HFa : Forall (fun t => is_reward t = false ->
                     (b_ts tip <= t_ts t <= ts)%Z /\ verify_sigs sig_ok t = true /\
                     yield_ok (ar sh) (elems (b_added b0)) t = true) (kept ++ [rt])).
    { apply Forall_forall. intros t Ht Hisr. apply in_app_iff in Ht.
      destruct Ht as [Ht|[Ht|[]]]; [|subst t; discriminate Hisr].
      pose proof Ht as Ht'. rewrite Hk in Ht'.
      apply greedy_kept_valid in Ht'. destruct Ht' as [A [B [C _]]].
      split; [lia|]. split; [exact C|].
      apply (yield_ok_spec addr_of). apply Forall_forall. intros o Ho Hy.
      assert (Hya : In (o_addr o) (yielding_addrs kept)) by exact (yielding_addrs_In _ _ _ Ht Ho Hy).
      destruct (is_registered (ar (n_c n)) (o_addr o)) eqn:Er.
      - right. apply Hyield; [rewrite Ekept; exact Hya|exact Er].
      - left. unfold b0, make_block. cbn [b_added]. apply filter_new_spec. split; assumption. }
    assert (HF2 : Forall2 (fun t f => CF (s_fee S) (ur sh) t ts = Ok f)
                          (filter (fun t => negb (is_reward t)) (kept ++ [rt])) fees).
    { rewrite filter_app.
      rewrite (filter_all (fun t => negb (is_reward t)) kept)
        by (intros t Ht; rewrite (Hnr t Ht); reflexivity).
      cbn [filter]. change (is_reward rt) with true. cbn [negb]. rewrite app_nil_r.
      rewrite Hk. apply greedy_fees_confirmed.
      rewrite <- Hk. unfold confirmed_only in Hconf.
      rewrite Ekept, Ebts in Hconf. exact Hconf. }
    assert (Hlen : (length (filter is_reward (kept ++ [rt])) <= 1)%nat).
    { rewrite <- Etxs, Hone. apply le_n. }
    pose proof (vb_txs_complete value_fn addr_of sig_ok S sh (elems (b_added b0)) ts (b_ts tip)
                  (kept ++ [rt]) false 0 0 fees HFa HF2 Hlen) as Hvb.
    assert (Efl : filter is_reward (kept ++ [rt]) = [rt]).
    { rewrite filter_app, (filter_none _ _ Hnr). reflexivity. }
    assert (Eex : existsb is_reward (kept ++ [rt]) = true).
    { apply existsb_exists. exists rt. split; [apply in_app_iff; right; left; reflexivity|reflexivity]. }
    rewrite Efl, Eex in Hvb. cbn [orb] in Hvb.
    change (reward_value rt) with reward in Hvb. rewrite <- Hr in Hvb.
    unfold verify_block. rewrite Ebts, Etxs, Hvb.
    destruct (Z.eqb_spec ts (b_ts tip + s_interval S)) as [_|Ne]; [|contradiction].
    cbn [negb].
    destruct (Z.ltb_spec now ts) as [Hlt|_]; [lia|].
    rewrite N.ltb_irrefl. reflexivity.
  Qed.

  (* ---------------------------------------------------------------- *)
  (* single iterations of the loop of verify                           *)
  (* ---------------------------------------------------------------- *)

  Lemma verify_step_same (lh : list block) (now : Z) (sh : cstate) (prev : option block) (b : block) :
    b_prev b = match prev with None => zero_hash | Some p => H p end ->
    nth_error lh 0 = Some b ->
    VSTEP lh now 0 sh prev b = Ok (mkC (chain sh ++ [b]) (ur sh) (ar sh)).
  Proof.
    intros Hl Hn. unfold verify_step. cbv zeta. rewrite Hl, hash_eqb_refl, Hn, hash_eqb_refl.
    reflexivity.
  Qed.

  Lemma verify_step_old (lh : list block) (now : Z) (i : nat) (sh : cstate) (prev : option block) (b : block) :
    b_prev b = match prev with None => zero_hash | Some p => H p end ->
    nth_error lh (Datatypes.S i) = Some b ->
    VSTEP lh now (Datatypes.S i) sh prev b = add_block_raw sh b.
  Proof.
    intros Hl Hn. unfold verify_step. cbv zeta. rewrite Hl, hash_eqb_refl, Hn, hash_eqb_refl.
    reflexivity.
  Qed.

  Lemma verify_step_new_succ (lh : list block) (now : Z) (i : nat) (sh : cstate) (p b : block) :
    b_prev b = H p ->
    nth_error lh (Datatypes.S i) = None ->
    VBLOCK sh b (b_ts p) now = Ok tt ->
    VSTEP lh now (Datatypes.S i) sh (Some p) b = add_block_raw sh b.
  Proof.
    intros Hl Hn Hvb. unfold verify_step. cbv zeta. rewrite Hl, hash_eqb_refl, Hn.
    cbn [negb andb]. rewrite Hvb. reflexivity.
  Qed.

  Lemma verify_step_new_0 (lh : list block) (now : Z) (sh : cstate) (p b hb : block) :
    b_prev b = H p ->
    nth_error lh 0 = Some hb -> H b <> H hb ->
    VBLOCK sh b (b_ts p) now = Ok tt ->
    VSTEP lh now 0 sh (Some p) b = Ok (mkC (chain sh ++ [b]) (ur sh) (ar sh)).
  Proof.
    intros Hl Hn Hne Hvb. unfold verify_step. cbv zeta. rewrite Hl, hash_eqb_refl, Hn.
    destruct (hash_eqb (H b) (H hb)) eqn:E; [apply hash_eqb_eq in E; contradiction|].
    cbn [negb andb]. rewrite Hvb. reflexivity.
  Qed.

  (* addBlock applies the previous tip and appends *)
  Lemma add_block_raw_tip (c : cstate) (l b : block) (u' : ureg) :
    last_block (chain c) = Some l ->
    update_utxos (ur c) (txs l) (b_ts l) = Ok u' ->
    add_block_raw c b =
    Ok (mkC (chain c ++ [b]) u' (reg_update (ar c) (elems (b_added l)) (elems (b_removed l)))).
  Proof.
    intros Hl Hu. unfold add_block_raw, apply_block. rewrite Hl, Hu. reflexivity.
  Qed.

  (* the closing AddBlock of verify (blockchain.go:358-363) *)
  Lemma verify_tail_ok (sh : cstate) (l : block) (u' : ureg) (neigh : list block) :
    (0 < s_interval S)%Z ->
    last_block (chain sh) = Some l ->
    update_utxos (ur sh) (txs l) (b_ts l) = Ok u' ->
    match last_block (chain sh) with
    | None => Ok neigh
    | Some l0 =>
      match add_block H sh (b_ts l0 + s_interval S)%Z None [] with
      | Err e => Err e
      | Ok _ => @Ok err (list block) neigh
      end
    end = Ok neigh.
  Proof.
    intros Hint Hl Hu. rewrite Hl.
    rewrite (add_block_raw_eq H sh (b_ts l + s_interval S)%Z None [])
      by (right; unfold last_block_ts; rewrite Hl; lia).
    rewrite (add_block_raw_tip sh l _ u' Hl Hu). reflexivity.
  Qed.

  (* a block produced one interval after a tip: the interval is positive, since AddBlock has
     accepted the block (it is dated after the tip) *)
  Lemma produced_interval_pos (n : node) (ts : Z) (perm : list nat) (n' : node)
        (d : list (string * drop)) (old : list block) (tip : block) :
    VALIDATE n ts perm = (n', Produced d) ->
    chain (n_c n) = old ++ [tip] ->
    ts = (b_ts tip + s_interval S)%Z ->
    (0 < s_interval S)%Z.
  Proof.
    intros Hv Hch Hts.
    assert (Hne : chain (n_c n) <> []) by (rewrite Hch; destruct old; discriminate).
    pose proof (validate_produced_after_tip _ _ _ _ _ _ _ _ _ _ _ _ Hv Hne) as Hlt.
    unfold last_block_ts in Hlt. rewrite Hch, last_block_snoc in Hlt. lia.
  Qed.

  Lemma verify_loop_app (lh : list block) (now : Z) : forall (l1 l2 : list block) (i : nat) (sh : cstate)
        (prev : option block),
    VLOOP lh now i sh prev (l1 ++ l2) =
    match VLOOP lh now i sh prev l1 with
    | Err e => Err e
    | Ok sh1 => VLOOP lh now (i + length l1) sh1
                      (match last_block l1 with None => prev | Some p => Some p end) l2
    end.
  Proof.
    induction l1 as [|b r IH]; intros l2 i sh prev.
    - cbn [app verify_loop length]. rewrite Nat.add_0_r. reflexivity.
    - cbn [app verify_loop length].
      destruct (VSTEP lh now i sh prev b) as [sh1|e]; [|reflexivity].
      rewrite IH. destruct (VLOOP lh now (Datatypes.S i) sh1 (Some b) r) as [sh2|e]; [|reflexivity].
      rewrite last_block_cons, Nat.add_succ_r. cbn [Nat.add].
      destruct (last_block r); reflexivity.
  Qed.

  (* ---------------------------------------------------------------- *)
  (* 1. the block arrives as an extension of the receiver's tip        *)
  (* ---------------------------------------------------------------- *)

  (* the loop and the closing AddBlock, for a shadow state with the producer's registry and the
     producer's registered addresses *)
  Lemma extension_loop (n : node) (ts : Z) (perm : list nat) (n' : node)
        (d : list (string * drop)) (old : list block) (tip b : block) (now : Z) (a0 : areg) (u1 : ureg) :
    VALIDATE n ts perm = (n', Produced d) ->
    chain (n_c n) = old ++ [tip] ->
    last_block (chain (n_c n')) = Some b ->
    b_prev tip = match last_block old with None => zero_hash | Some p => H p end ->
    registered a0 = registered (ar (n_c n)) ->
    b_ts tip <> 0%Z -> ts = (b_ts tip + s_interval S)%Z -> (ts <= now)%Z -> 0 < s_fee S ->
    confirmed_only (ur (n_c n)) (ur (n_c n')) b ->
    update_utxos (ur (n_c n')) (txs b) (b_ts b) = Ok u1 ->
    match VLOOP [tip] now 0 (mkC old (ur (n_c n)) a0) (last_block old) [tip; b] with
    | Err e => Err e
    | Ok sh =>
      match last_block (chain sh) with
      | None => Ok [tip; b]
      | Some l =>
        match add_block H sh (b_ts l + s_interval S)%Z None [] with
        | Err e => Err e
        | Ok _ => Ok [tip; b]
        end
      end
    end = Ok [tip; b].
  Proof.
    intros Hv Hch Hlast Hlink Hreg Hnz Hts Hnow Hfee Hconf Hrep.
    set (sh1 := mkC (old ++ [tip]) (ur (n_c n)) a0).
    assert (Hy : yield_known (ar (n_c n)) (ar sh1) b).
    { intros x _ Hx. cbn [sh1 ar]. rewrite (registered_is_registered a0 (ar (n_c n)) x Hreg). exact Hx. }
    destruct (produced_block_checked n ts perm n' d old tip b sh1 now Hv Hch Hlast Hnz Hts Hnow Hfee
                                     Hconf Hy) as [E0 [_ [Hprev [_ Hvb]]]].
    cbn [verify_loop].
    rewrite (verify_step_same [tip] now (mkC old (ur (n_c n)) a0) (last_block old) tip Hlink eq_refl).
    cbn [chain ur ar]. fold sh1.
    rewrite (verify_step_new_succ [tip] now 0 sh1 tip b Hprev eq_refl Hvb).
    assert (Hl1 : last_block (chain sh1) = Some tip) by apply last_block_snoc.
    rewrite (add_block_raw_tip sh1 tip b (ur (n_c n')) Hl1 E0).
    apply (verify_tail_ok _ b u1);
      [exact (produced_interval_pos _ _ _ _ _ _ _ Hv Hch Hts)|apply last_block_snoc|exact Hrep].
  Qed.

  Theorem extension_confirmed_only (n : node) (ts : Z) (perm : list nat) (n' : node)
        (d : list (string * drop)) (old : list block) (tip b : block) (now : Z) (u1 : ureg) :
    VALIDATE n ts perm = (n', Produced d) ->
    chain (n_c n) = old ++ [tip] ->
    last_block (chain (n_c n')) = Some b ->
    b_prev tip = match last_block old with None => zero_hash | Some p => H p end ->
    (old = [] -> ur (n_c n) = ureg_empty /\ registered (ar (n_c n)) = []) ->
    b_ts tip <> 0%Z -> ts = (b_ts tip + s_interval S)%Z -> (ts <= now)%Z -> 0 < s_fee S ->
    confirmed_only (ur (n_c n)) (ur (n_c n')) b ->
    update_utxos (ur (n_c n')) (txs b) (b_ts b) = Ok u1 ->
    VERIFY (n_c n) [tip] [tip; b] old now = Ok [tip; b].
  Proof.
    intros Hv Hch Hlast Hlink Hempty Hnz Hts Hnow Hfee Hconf Hrep.
    destruct old as [|o old'].
    - destruct (Hempty eq_refl) as [Eu Ea].
      unfold verify. cbv beta iota.
      pose proof (extension_loop n ts perm n' d [] tip b now areg_empty u1 Hv Hch Hlast Hlink
                    (eq_sym Ea) Hnz Hts Hnow Hfee Hconf Hrep) as Hl.
      rewrite Eu in Hl. exact Hl.
    - unfold verify. cbv beta iota. rewrite hash_eqb_refl. cbn [negb].
      exact (extension_loop n ts perm n' d (o :: old') tip b now (ar (n_c n)) u1 Hv Hch Hlast Hlink
               eq_refl Hnz Hts Hnow Hfee Hconf Hrep).
  Qed.

  (* for a reachable producer with at least two blocks the link is a fact (C04) *)
  Lemma reach_tip_linked (n : node) (old : list block) (tip : block) :
    REACH n -> chain (n_c n) = old ++ [tip] -> old <> [] ->
    b_prev tip = match last_block old with None => zero_hash | Some p => H p end.
  Proof.
    intros Hr Hch Hne. apply reach_linked in Hr. rewrite Hch in Hr.
    destruct old as [|g r]; [contradiction|].
    cbn [app] in Hr. unfold chain_linked in Hr. apply linked_app in Hr. destruct Hr as [_ Hl].
    cbn [linked] in Hl. destruct Hl as [Hl _]. rewrite last_block_lastb. exact Hl.
  Qed.

  Theorem extension_reachable (n : node) (ts : Z) (perm : list nat) (n' : node)
        (d : list (string * drop)) (old : list block) (tip b : block) (now : Z) (u1 : ureg) :
    REACH n ->
    VALIDATE n ts perm = (n', Produced d) ->
    chain (n_c n) = old ++ [tip] -> old <> [] ->
    last_block (chain (n_c n')) = Some b ->
    b_ts tip <> 0%Z -> ts = (b_ts tip + s_interval S)%Z -> (ts <= now)%Z -> 0 < s_fee S ->
    confirmed_only (ur (n_c n)) (ur (n_c n')) b ->
    update_utxos (ur (n_c n')) (txs b) (b_ts b) = Ok u1 ->
    VERIFY (n_c n) [tip] [tip; b] (removelast (chain (n_c n))) now = Ok [tip; b].
  Proof.
    intros Hr Hv Hch Hne Hlast Hnz Hts Hnow Hfee Hconf Hrep.
    rewrite Hch, removelast_last.
    apply (extension_confirmed_only n ts perm n' d old tip b now u1 Hv Hch Hlast); try assumption.
    - exact (reach_tip_linked n old tip Hr Hch Hne).
    - intros E. contradiction.
  Qed.

  (* ---------------------------------------------------------------- *)
  (* 2. the block arrives as a competitor of the receiver's own tip    *)
  (* ---------------------------------------------------------------- *)

  (* the receiver produced (or adopted) [b'] on the same chain, so its registers already hold
     the tip: the registry is the one the producer started its loop from, [ur (n_c n')].
     Spending the tip's outputs is fine here; spending the block's own outputs is not *)
  Theorem competitor_last_block_spend (n : node) (ts : Z) (perm : list nat) (n' : node)
        (d : list (string * drop)) (old : list block) (tip b b' : block) (peer : cstate)
        (now : Z) (u1 : ureg) :
    VALIDATE n ts perm = (n', Produced d) ->
    chain (n_c n) = old ++ [tip] ->
    last_block (chain (n_c n')) = Some b ->
    chain peer = old ++ [tip; b'] -> ur peer = ur (n_c n') ->
    b_prev b' = H tip -> H b <> H b' ->
    b_ts tip <> 0%Z -> ts = (b_ts tip + s_interval S)%Z -> (ts <= now)%Z -> 0 < s_fee S ->
    confirmed_only (ur (n_c n')) (ur (n_c n')) b ->
    yield_known (ar (n_c n)) (ar peer) b ->
    update_utxos (ur (n_c n')) (txs b) (b_ts b) = Ok u1 ->
    VERIFY peer [b'] [b] (removelast (chain peer)) now = Ok [b].
  Proof.
    intros Hv Hch Hlast Hpc Hpu Hpl Hne Hnz Hts Hnow Hfee Hconf Hy Hrep.
    assert (Erl : removelast (chain peer) = old ++ [tip]).
    { rewrite Hpc. change [tip; b'] with ([tip] ++ [b']). rewrite app_assoc. apply removelast_last. }
    rewrite Erl.
    assert (Hlb : last_block (old ++ [tip]) = Some tip) by apply last_block_snoc.
    remember (old ++ [tip]) as oh eqn:Eoh.
    assert (Hch' : chain (n_c n) = old ++ [tip]) by (rewrite Hch; exact Eoh).
    set (sh0 := mkC oh (ur peer) (ar peer)).
    assert (Hconf0 : confirmed_only (ur sh0) (ur (n_c n')) b) by (cbn [sh0 ur]; rewrite Hpu; exact Hconf).
    destruct (produced_block_checked n ts perm n' d old tip b sh0 now Hv Hch' Hlast Hnz Hts Hnow Hfee
                                     Hconf0 Hy) as [_ [_ [Hprev [_ Hvb]]]].
    destruct oh as [|o r]; [destruct old; discriminate Eoh|].
    unfold verify. cbv beta iota. rewrite Hpl, Hprev, hash_eqb_refl. cbn [negb].
    fold sh0. cbn [verify_loop]. rewrite Hlb.
    rewrite (verify_step_new_0 [b'] now sh0 tip b b' Hprev eq_refl Hne Hvb).
    apply (verify_tail_ok _ b u1);
      [exact (produced_interval_pos _ _ _ _ _ _ _ Hv Hch' Hts)|apply last_block_snoc|].
    cbn [ur]. unfold sh0. cbn [ur]. rewrite Hpu. exact Hrep.
  Qed.

  (* the registered addresses of a receiver that has applied the tip: the producer's minus what
     the tip lists as removed, plus what it lists as added. The block is accepted unless it pays
     a yielding output to an address that the tip has just removed *)
  Lemma yield_known_after_tip (a : areg) (tip b : block) :
    (forall x, In x (yielding_addrs (kept_of b)) -> In x (elems (b_removed tip)) ->
               In x (elems (b_added tip))) ->
    yield_known a (reg_update a (elems (b_added tip)) (elems (b_removed tip))) b.
  Proof.
    intros Hnr x Hx Hreg.
    destruct (C10_removed a (elems (b_added tip)) (elems (b_removed tip)) x) as [Ha [_ Hk]].
    destruct (in_dec string_dec x (elems (b_added tip))) as [Hi|Hi]; [exact (Ha Hi)|].
    destruct (in_dec string_dec x (elems (b_removed tip))) as [Hj|Hj].
    - exfalso. apply Hi. exact (Hnr x Hx Hj).
    - rewrite (Hk Hj Hi). exact Hreg.
  Qed.

  (* ---------------------------------------------------------------- *)
  (* 3. the block arrives inside a full re-sync                        *)
  (* ---------------------------------------------------------------- *)

  (* the receiver's own chain must itself pass the loop of the full re-sync (its tip is checked
     again there, against the registry before the block below the tip was applied: a tip holding
     a last-block spend fails, which is the first witness again, one block earlier) *)
  Theorem full_resync_confirmed_only (n : node) (ts : Z) (perm : list nat) (n' : node)
        (d : list (string * drop)) (old : list block) (tip b : block) (now : Z)
        (sh1 : cstate) (a : areg) (u1 : ureg) :
    VALIDATE n ts perm = (n', Produced d) ->
    chain (n_c n) = old ++ [tip] ->
    last_block (chain (n_c n')) = Some b ->
    VLOOP old now 0 (mkC [] ureg_empty areg_empty) None (old ++ [tip]) = Ok sh1 ->
    replay old = Ok (ur (n_c n), a) -> registered a = registered (ar (n_c n)) ->
    b_ts tip <> 0%Z -> ts = (b_ts tip + s_interval S)%Z -> (ts <= now)%Z -> 0 < s_fee S ->
    confirmed_only (ur (n_c n)) (ur (n_c n')) b ->
    update_utxos (ur (n_c n')) (txs b) (b_ts b) = Ok u1 ->
    VERIFY (n_c n) (removelast (chain (n_c n))) (chain (n_c n) ++ [b]) [] now = Ok (chain (n_c n) ++ [b]).
  Proof.
    intros Hv Hch Hlast Hloop Hrp Hreg Hnz Hts Hnow Hfee Hconf Hrep.
    rewrite Hch, removelast_last.
    (* the registers the loop has reached in front of [b] *)
    pose proof (verify_loop0_prefix_replay value_fn addr_of sig_ok H S old now _ _ _ _ Hloop) as Hpr.
    cbn [ur ar] in Hpr. rewrite removelast_last in Hpr. fold (replay old) in Hpr.
    rewrite Hrp in Hpr. inversion Hpr as [[Eu Ea]].
    assert (Hc1 : chain sh1 = old ++ [tip]).
    { rewrite (verify_loop_chain _ _ _ _ _ _ _ _ _ _ _ _ Hloop). reflexivity. }
    assert (Hconf1 : confirmed_only (ur sh1) (ur (n_c n')) b) by (rewrite <- Eu; exact Hconf).
    assert (Hy : yield_known (ar (n_c n)) (ar sh1) b).
    { intros x _ Hx. rewrite <- Ea. rewrite (registered_is_registered a (ar (n_c n)) x Hreg). exact Hx. }
    destruct (produced_block_checked n ts perm n' d old tip b sh1 now Hv Hch Hlast Hnz Hts Hnow Hfee
                                     Hconf1 Hy) as [E0 [_ [Hprev [_ Hvb]]]].
    (* the head of verify *)
    assert (Hunf : forall neigh : list block, (2 <= length neigh)%nat ->
              VERIFY (n_c n) old neigh [] now =
              match VLOOP old now 0 (mkC [] ureg_empty areg_empty) None neigh with
              | Err e => Err e
              | Ok sh =>
                match last_block (chain sh) with
                | None => Ok neigh
                | Some l =>
                  match add_block H sh (b_ts l + s_interval S)%Z None [] with
                  | Err e => Err e
                  | Ok _ => Ok neigh
                  end
                end
              end).
    { intros neigh Hlen. destruct neigh as [|x [|y r]]; cbn [length] in Hlen; try lia. reflexivity. }
    rewrite Hunf by (rewrite !app_length; cbn [length]; lia).
    rewrite verify_loop_app, Hloop, last_block_snoc.
    cbn [verify_loop].
    assert (Ei : (0 + length (old ++ [tip]))%nat = Datatypes.S (length old))
      by (rewrite app_length; cbn [length]; lia).
    rewrite Ei.
    assert (Hnth : nth_error old (Datatypes.S (length old)) = None) by (apply nth_error_None; lia).
    rewrite (verify_step_new_succ old now (length old) sh1 tip b Hprev Hnth Hvb).
    assert (Hl1 : last_block (chain sh1) = Some tip) by (rewrite Hc1; apply last_block_snoc).
    assert (E0' : update_utxos (ur sh1) (txs tip) (b_ts tip) = Ok (ur (n_c n'))) by (rewrite <- Eu; exact E0).
    rewrite (add_block_raw_tip sh1 tip b (ur (n_c n')) Hl1 E0').
    apply (verify_tail_ok _ b u1);
      [exact (produced_interval_pos _ _ _ _ _ _ _ Hv Hch Hts)|apply last_block_snoc|exact Hrep].
  Qed.

  Theorem full_resync_reachable (n : node) (ts : Z) (perm : list nat) (n' : node)
        (d : list (string * drop)) (old : list block) (tip b : block) (now : Z)
        (sh1 : cstate) (u1 : ureg) :
    REACH n ->
    VALIDATE n ts perm = (n', Produced d) ->
    chain (n_c n) = old ++ [tip] ->
    last_block (chain (n_c n')) = Some b ->
    VLOOP old now 0 (mkC [] ureg_empty areg_empty) None (old ++ [tip]) = Ok sh1 ->
    b_ts tip <> 0%Z -> ts = (b_ts tip + s_interval S)%Z -> (ts <= now)%Z -> 0 < s_fee S ->
    confirmed_only (ur (n_c n)) (ur (n_c n')) b ->
    update_utxos (ur (n_c n')) (txs b) (b_ts b) = Ok u1 ->
    VERIFY (n_c n) (removelast (chain (n_c n))) (chain (n_c n) ++ [b]) [] now = Ok (chain (n_c n) ++ [b]).
  Proof.
    intros Hr Hv Hch Hlast Hloop Hnz Hts Hnow Hfee Hconf Hrep.
    destruct (reach_denotes _ _ _ _ _ _ _ n Hr) as [a [Hrp Hreg]].
    rewrite Hch, removelast_last in Hrp.
    exact (full_resync_confirmed_only n ts perm n' d old tip b now sh1 a u1 Hv Hch Hlast Hloop Hrp Hreg
             Hnz Hts Hnow Hfee Hconf Hrep).
  Qed.

  (* the competitor case for a receiver whose registered addresses are the producer's with the
     tip applied *)
  Theorem competitor_tip_applied (n : node) (ts : Z) (perm : list nat) (n' : node)
        (d : list (string * drop)) (old : list block) (tip b b' : block) (peer : cstate)
        (now : Z) (u1 : ureg) :
    VALIDATE n ts perm = (n', Produced d) ->
    chain (n_c n) = old ++ [tip] ->
    last_block (chain (n_c n')) = Some b ->
    chain peer = old ++ [tip; b'] -> ur peer = ur (n_c n') ->
    ar peer = reg_update (ar (n_c n)) (elems (b_added tip)) (elems (b_removed tip)) ->
    b_prev b' = H tip -> H b <> H b' ->
    b_ts tip <> 0%Z -> ts = (b_ts tip + s_interval S)%Z -> (ts <= now)%Z -> 0 < s_fee S ->
    confirmed_only (ur (n_c n')) (ur (n_c n')) b ->
    (forall x, In x (yielding_addrs (kept_of b)) -> In x (elems (b_removed tip)) ->
               In x (elems (b_added tip))) ->
    update_utxos (ur (n_c n')) (txs b) (b_ts b) = Ok u1 ->
    VERIFY peer [b'] [b] (removelast (chain peer)) now = Ok [b].
  Proof.
    intros Hv Hch Hlast Hpc Hpu Hpa Hpl Hne Hnz Hts Hnow Hfee Hconf Hnr Hrep.
    apply (competitor_last_block_spend n ts perm n' d old tip b b' peer now u1); try assumption.
    rewrite Hpa. apply yield_known_after_tip. exact Hnr.
  Qed.
End Honest.

(* ------------------------------------------------------------------ *)
(* concrete histories: the two refused honest blocks, the address the  *)
(* tip has just removed, and an accepted wallet-style block            *)
(* ------------------------------------------------------------------ *)
Module HonestExample.
  Import SyncExample ReachExample.
  Local Open Scope string_scope.

  Local Notation STEP := (step vf ao so Hinj gid Sx "V").
  Local Notation RCH := (reach vf ao so Hinj gid Sx "V").
  Local Notation VAL := (validate vf ao so Hinj gid Sx "V").
  Local Notation VER := (verify vf ao so Hinj Sx).

  Definition tip_of_node (n : node) : block :=
    match last_block (chain (n_c n)) with Some b => b | None => SyncExample.g end.
  Definition log_of (o : outcome) : list (string * drop) :=
    match o with Produced d => d | Refused _ => [] end.

  (* the id of the genesis reward (block of timestamp 10): 100 to "V", yielding *)
  Definition gref : string := gid None None 10.

  (* ---- A. a kept transaction spends an output of the tip block ---- *)
  (* block 10: genesis. block 20: tA (spends the genesis reward). Then tB spends tA's output,
     which block 20 - the tip - created *)
  Definition tA : tx :=
    mkTx "tA" (Some [mkInput 0 gref "V" "s"]) (Some [mkOutput "A" false 60; mkOutput "V" false 39]) 15.
  Definition tB : tx :=
    mkTx "tB" (Some [mkInput 0 "tA" "A" "s"]) (Some [mkOutput "B" false 50]) 25.
  Definition a1 : node := STEP node_empty (OpValidate 10 []).
  Definition a2 : node := STEP a1 (OpAdd tA).
  Definition a3 : node := STEP a2 (OpValidate 20 [0%nat]).
  Definition a4 : node := STEP a3 (OpAdd tB).
  Definition a5 : node := fst (VAL a4 30 [0%nat]).

  Lemma a4_reach : RCH a4.
  Proof.
    unfold a4, a3, a2, a1.
    apply reach_step; [apply reach_step; [apply reach_step; [apply reach_step; [apply reach_init|]|]|]|].
    - left. reflexivity.
    - exact I.
    - right. exists 1%Z. split; [lia|]. vm_compute. reflexivity.
    - exact I.
  Qed.

  Theorem last_block_spend_refuted :
    exists (n : node) (ts : Z) (perm : list nat) (n' : node) (d : list (string * drop))
           (tip b : block) (t : tx) (i : input) (t' : tx),
      RCH n /\
      VAL n ts perm = (n', Produced d) /\
      last_block (chain (n_c n)) = Some tip /\
      last_block (chain (n_c n')) = Some b /\
      (b_ts b <= ts)%Z /\
      (* a kept transaction of [b] spends an output of a transaction of the tip *)
      In t (kept_of b) /\ In i (ins t) /\ In t' (txs tip) /\ i_ref i = t_id t' /\
      (* refused as an extension of the tip ... *)
      VER (n_c n) [tip] [tip; b] (removelast (chain (n_c n))) ts = Err EUnknownId /\
      (* ... and in a full re-sync *)
      VER (n_c n) (removelast (chain (n_c n))) (chain (n_c n) ++ [b])%list [] ts = Err EUnknownId.
  Proof.
    exists a4, 30%Z, [0%nat], a5, (log_of (snd (VAL a4 30 [0%nat]))), (tip_of_node a4), (tip_of_node a5),
           tB, (mkInput 0 "tA" "A" "s"), tA.
    split; [exact a4_reach|].
    split; [vm_compute; reflexivity|].
    split; [vm_compute; reflexivity|].
    split; [vm_compute; reflexivity|].
    split; [vm_compute; discriminate|].
    split; [vm_compute; left; reflexivity|].
    split; [left; reflexivity|].
    split; [vm_compute; left; reflexivity|].
    split; [reflexivity|].
    split; vm_compute; reflexivity.
  Qed.

  (* the same block is accepted by a receiver for which it competes with its own tip *)
  Definition a5' : node := STEP a3 (OpValidate 30 []).
  Lemma last_block_spend_competitor_accepted :
    VER (n_c a5') [tip_of_node a5'] [tip_of_node a5] (removelast (chain (n_c a5'))) 30
    = Ok [tip_of_node a5].
  Proof. vm_compute. reflexivity. Qed.

  (* ---- B. a kept transaction spends an output of an earlier kept transaction ---- *)
  (* blocks 10 and 20, then tC (spends the confirmed genesis reward) and tD (spends tC's output)
     both enter the pool and both kept for block 30 *)
  Definition tC : tx :=
    mkTx "tC" (Some [mkInput 0 gref "V" "s"]) (Some [mkOutput "A" false 60; mkOutput "V" false 39]) 25.
  Definition tD : tx :=
    mkTx "tD" (Some [mkInput 0 "tC" "A" "s"]) (Some [mkOutput "B" false 50]) 26.
  Definition s2 : node := STEP a1 (OpValidate 20 []).
  Definition s3 : node := STEP s2 (OpAdd tC).
  Definition s4 : node := STEP s3 (OpAdd tD).
  Definition s5 : node := fst (VAL s4 30 [0%nat; 1%nat]).

  Lemma s2_reach : RCH s2.
  Proof.
    unfold s2, a1. apply reach_step; [apply reach_step; [apply reach_init|]|].
    - left. reflexivity.
    - right. exists 1%Z. split; [lia|]. vm_compute. reflexivity.
  Qed.

  Lemma s4_reach : RCH s4.
  Proof.
    unfold s4, s3. apply reach_step; [apply reach_step; [exact s2_reach|]|]; exact I.
  Qed.

  Theorem same_block_spend_refuted :
    exists (n : node) (ts : Z) (perm : list nat) (n' : node) (d : list (string * drop))
           (tip b : block) (t : tx) (i : input) (t' : tx),
      RCH n /\
      VAL n ts perm = (n', Produced d) /\
      last_block (chain (n_c n)) = Some tip /\
      last_block (chain (n_c n')) = Some b /\
      (b_ts b <= ts)%Z /\
      (* a kept transaction of [b] spends an output of another kept transaction of [b] *)
      In t (kept_of b) /\ In i (ins t) /\ In t' (kept_of b) /\ i_ref i = t_id t' /\
      VER (n_c n) [tip] [tip; b] (removelast (chain (n_c n))) ts = Err EUnknownId /\
      VER (n_c n) (removelast (chain (n_c n))) (chain (n_c n) ++ [b])%list [] ts = Err EUnknownId /\
      (* a receiver for which [b] competes with its own tip refuses it as well *)
      exists peer : node,
        RCH peer /\ removelast (chain (n_c peer)) = chain (n_c n) /\
        VER (n_c peer) [tip_of_node peer] [b] (removelast (chain (n_c peer))) ts = Err EUnknownId.
  Proof.
    exists s4, 30%Z, [0%nat; 1%nat], s5, (log_of (snd (VAL s4 30 [0%nat; 1%nat]))),
           (tip_of_node s4), (tip_of_node s5), tD, (mkInput 0 "tC" "A" "s"), tC.
    split; [exact s4_reach|].
    split; [vm_compute; reflexivity|].
    split; [vm_compute; reflexivity|].
    split; [vm_compute; reflexivity|].
    split; [vm_compute; discriminate|].
    split; [vm_compute; right; left; reflexivity|].
    split; [left; reflexivity|].
    split; [vm_compute; left; reflexivity|].
    split; [reflexivity|].
    split; [vm_compute; reflexivity|].
    split; [vm_compute; reflexivity|].
    exists (STEP s2 (OpValidate 30 [])).
    split.
    - apply reach_step; [exact s2_reach|]. right. exists 1%Z. split; [lia|]. vm_compute. reflexivity.
    - split; vm_compute; reflexivity.
  Qed.

  (* ---- C. a yielding output for an address the tip block has just removed ---- *)
  (* "V" fails the proof-of-humanity refresh after block 20; block 30 lists it as removed.
     The producer of block 40 still has "V" registered (its registers lag one block behind), so
     it does not list "V" as added when tE gives it a yielding output. tE spends a confirmed
     output only. A receiver that has applied block 30 (it produced its own block 40) finds
     "V" neither registered nor added *)
  Definition tE : tx :=
    mkTx "tE" (Some [mkInput 0 gref "V" "s"]) (Some [mkOutput "V" true 50; mkOutput "A" false 49]) 35.
  Definition j3 : node := STEP s2 (OpRegSync (fun _ => Some false) ["V"]).
  Definition j4 : node := STEP j3 (OpValidate 30 []).
  Definition j5 : node := STEP j4 (OpAdd tE).
  Definition j6 : node := fst (VAL j5 40 [0%nat]).
  Definition p6 : node := STEP j4 (OpValidate 40 []).

  Lemma j4_reach : RCH j4.
  Proof.
    unfold j4, j3. apply reach_step; [apply reach_step; [exact s2_reach|exact I]|].
    right. exists 1%Z. split; [lia|]. vm_compute. reflexivity.
  Qed.

  Theorem just_removed_competitor_witness :
    exists (n : node) (ts : Z) (perm : list nat) (n' : node) (d : list (string * drop))
           (tip b : block) (peer : node) (b' : block) (x : string),
      RCH n /\ RCH peer /\
      VAL n ts perm = (n', Produced d) /\
      last_block (chain (n_c n)) = Some tip /\
      last_block (chain (n_c n')) = Some b /\
      chain (n_c peer) = (chain (n_c n) ++ [b'])%list /\
      ur (n_c peer) = ur (n_c n') /\ ar (n_c peer) = ar (n_c n') /\
      (* wallet-style: only confirmed outputs are spent *)
      confirmed_only (ur (n_c n)) (ur (n_c n')) b /\
      (* the address: removed by the tip, not added by it, paid a yielding output by [b] *)
      In x (yielding_addrs (kept_of b)) /\ In x (elems (b_removed tip)) /\ ~ In x (elems (b_added tip)) /\
      (* accepted as an extension, refused as a competitor *)
      VER (n_c n) [tip] [tip; b] (removelast (chain (n_c n))) ts = Ok [tip; b] /\
      VER (n_c peer) [b'] [b] (removelast (chain (n_c peer))) ts = Err EUnregistered.
  Proof.
    exists j5, 40%Z, [0%nat], j6, (log_of (snd (VAL j5 40 [0%nat]))), (tip_of_node j5), (tip_of_node j6),
           p6, (tip_of_node p6), "V".
    split; [unfold j5; apply reach_step; [exact j4_reach|exact I]|].
    split.
    { unfold p6. apply reach_step; [exact j4_reach|].
      right. exists 1%Z. split; [lia|]. vm_compute. reflexivity. }
    split; [vm_compute; reflexivity|].
    split; [vm_compute; reflexivity|].
    split; [vm_compute; reflexivity|].
    split; [vm_compute; reflexivity|].
    split; [vm_compute; reflexivity|].
    split; [vm_compute; reflexivity|].
    split.
    { unfold confirmed_only.
      assert (Ek : kept_of (tip_of_node j6) = [tE]) by (vm_compute; reflexivity).
      rewrite Ek. cbn [conf_run]. split; [|intros u' _; exact I].
      intros i [Hi|[]]. subst i.
      exists (mkUtxo gref 0 (mkOutput "V" true 100) 10). split; vm_compute; reflexivity. }
    split; [vm_compute; left; reflexivity|].
    split; [vm_compute; left; reflexivity|].
    split; [vm_compute; intros []|].
    split; vm_compute; reflexivity.
  Qed.

  (* ---- D. an accepted wallet-style block: the hypotheses of the positive theorems hold ---- *)
  (* AcceptExample: chain [g; e1], pool [t0] (spends the two genesis outputs), block b2 at 30 *)
  Import AcceptExample.

  Lemma ex_produced :
    validate AcceptExample.vf AcceptExample.ao so_strict Hx AcceptExample.gid AcceptExample.Sx "V" n1 30 [0%nat]
    = (n2, Produced []).
  Proof. vm_compute. reflexivity. Qed.

  Lemma ex_confirmed_only : confirmed_only (ur (n_c n1)) (ur (n_c n2)) b2.
  Proof.
    unfold confirmed_only.
    assert (Ek : kept_of b2 = [t0]) by (vm_compute; reflexivity).
    rewrite Ek. cbn [conf_run]. split; [|intros u' _; exact I].
    intros i [Hi|[Hi|[]]]; subst i.
    - exists uA. split; vm_compute; reflexivity.
    - exists uB. split; vm_compute; reflexivity.
  Qed.

  Lemma ex_replay : exists u1, update_utxos (ur (n_c n2)) (txs b2) (b_ts b2) = Ok u1.
  Proof. vm_compute. eexists. reflexivity. Qed.

  Lemma ex_extension_accepted :
    verify AcceptExample.vf AcceptExample.ao so_strict Hx AcceptExample.Sx (n_c n1) [e1] [e1; b2]
           (removelast (chain (n_c n1))) 30 = Ok [e1; b2].
  Proof. vm_compute. reflexivity. Qed.
End HonestExample.
