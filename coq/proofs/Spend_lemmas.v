(* Spend_lemmas.v — C02 (every input consumes an output created earlier and consumed once; a
   conflicting submission is refused) and C10 (one yielding output per address; yielding outputs
   go to registered addresses only), on top of Ledger_update / Chain_verify / Pool_lemmas /
   Sync_lemmas. *)
From RV Require Import model.Base model.Ledger model.Registry model.Chain model.Sync model.Pool model.Reach.
From RV Require Import proofs.Ledger_update proofs.Ledger_fee proofs.Chain_verify proofs.Pool_lemmas
                       proofs.Sync_lemmas.
From Coq Require Import Lia ZArith NArith.

(* ------------------------------------------------------------------------- *)
(* 0. list helpers                                                            *)
(* ------------------------------------------------------------------------- *)
Lemma NoDup_app_inv {A} (l1 l2 : list A) :
  NoDup (l1 ++ l2) -> NoDup l1 /\ NoDup l2 /\ forall x, In x l1 -> In x l2 -> False.
Proof.
  induction l1 as [|y r IH]; cbn; intros H.
  - split; [constructor|]. split; [exact H|]. intros x [].
  - inversion H as [|? ? Hni Hr]; subst. destruct (IH Hr) as (H1 & H2 & H3).
    split; [|split; [exact H2|]].
    + constructor; [|exact H1]. intros Hin. apply Hni. apply in_app_iff. now left.
    + intros x [<-|Hx] Hx2.
      * apply Hni. apply in_app_iff. now right.
      * eapply H3; eauto.
Qed.

Lemma Forall2_In_l {A B} (R : A -> B -> Prop) l l' x :
  Forall2 R l l' -> In x l -> exists y, In y l' /\ R x y.
Proof.
  induction 1 as [|a b r r' Hab _ IH]; cbn; [tauto|].
  intros [<-|Hin]; [exists b; auto|].
  destruct (IH Hin) as (y & Hy & Hr). exists y. auto.
Qed.

Lemma nth_error_skipn_cons {A} (l : list A) k b :
  nth_error l k = Some b -> skipn k l = b :: skipn (S k) l.
Proof.
  revert k; induction l as [|x r IH]; intros k; destruct k; cbn; try discriminate.
  - now intros [= ->].
  - intros H. rewrite (IH _ H). reflexivity.
Qed.

Lemma firstn_S_nth {A} (l : list A) k b :
  nth_error l k = Some b -> firstn (S k) l = firstn k l ++ [b].
Proof.
  revert k; induction l as [|x r IH]; intros k; destruct k; cbn [nth_error]; try discriminate.
  - now intros [= ->].
  - intros H. cbn [firstn app]. f_equal. now apply IH.
Qed.

(* ------------------------------------------------------------------------- *)
(* 1. C02 inside one transaction                                              *)
(* ------------------------------------------------------------------------- *)
(* the output references a transaction's inputs name *)
Definition refs (t : tx) : list (string * N) := map (fun i => (i_ref i, i_idx i)) (ins t).

Lemma refs_iref t : refs t = map iref (ins t).
Proof. reflexivity. Qed.

(* a transaction naming the same output in two inputs can never be applied *)
Theorem C02_same_tx reg t ts reg' :
  apply_tx reg t ts = Ok reg' -> NoDup (map (fun i => (i_ref i, i_idx i)) (ins t)).
Proof. exact (apply_tx_inputs_distinct reg t ts reg'). Qed.

Lemma apply_txs_inputs_distinct reg l ts reg' :
  apply_txs reg l ts = Ok reg' -> Forall (fun t => NoDup (refs t)) l.
Proof.
  revert reg; induction l as [|t r IH]; intros reg; cbn [apply_txs]; [constructor|].
  destruct (apply_tx reg t ts) as [reg1|e] eqn:E; [|discriminate]. intros Hr.
  constructor; [eapply C02_same_tx; eauto|eapply IH; eauto].
Qed.

Theorem C02_same_tx_block reg l ts reg' :
  update_utxos reg l ts = Ok reg' -> Forall (fun t => NoDup (refs t)) l.
Proof.
  intros H. apply update_utxos_all_or_nothing in H as [H _].
  eapply apply_txs_inputs_distinct; eauto.
Qed.

(* ... hence UpdateUtxos fails on any list containing such a transaction *)
Theorem C02_same_tx_refused reg l ts t :
  In t l -> ~ NoDup (refs t) -> exists e, update_utxos reg l ts = Err e.
Proof.
  intros Hin Hnd. destruct (update_utxos reg l ts) as [reg'|e] eqn:E; [|eauto].
  exfalso. apply Hnd. apply C02_same_tx_block in E. rewrite Forall_forall in E. now apply E.
Qed.

(* ------------------------------------------------------------------------- *)
(* 2. C02 inside one block (one call of UpdateUtxos)                           *)
(* ------------------------------------------------------------------------- *)
(* Where a consumed reference comes from needs no hypothesis on ids. *)
Theorem C02_block_origin reg l ts reg' :
  update_utxos reg l ts = Ok reg' ->
  forall l1 t l2 i, l = l1 ++ t :: l2 -> In i (ins t) ->
    (exists u, find_utxo reg i = Ok u) \/
    exists t', In t' (l1 ++ [t]) /\ i_ref i = t_id t' /\
               (N.to_nat (i_idx i) < length (outs t'))%nat.
Proof.
  intros H l1 t l2 i Hl Hi. apply update_utxos_all_or_nothing in H as [H _].
  eapply apply_txs_consumed_origin; eauto.
Qed.

(* The statement of the property reads "created in an earlier block"; the registry also accepts
   an output created earlier in the same block, and even by the consuming transaction itself
   (second disjunct): see [C02_same_block_spend_accepted] and [C02_self_spend_accepted]. *)
Theorem C02_block_no_double_spend reg l ts reg' :
  update_utxos reg l ts = Ok reg' -> ids_fresh reg l ->
  NoDup (consumed l) /\
  (forall l1 t l2 i, l = l1 ++ t :: l2 -> In i (ins t) ->
     (exists u, find_utxo reg i = Ok u) \/
     exists t', In t' (l1 ++ [t]) /\ i_ref i = t_id t' /\
                (N.to_nat (i_idx i) < length (outs t'))%nat) /\
  (forall t i, In t l -> In i (ins t) -> exists e, find_utxo reg' i = Err e).
Proof.
  intros H Hf. pose proof (C02_block_origin _ _ _ _ H) as Ho.
  apply update_utxos_all_or_nothing in H as [H _].
  destruct (apply_txs_no_double_spend _ _ _ _ Hf H) as [Hnd Hgone].
  split; [exact Hnd|]. split; [exact Ho|exact Hgone].
Qed.

(* toy values *)
Definition sp_in (k : N) (r : string) : input := mkInput k r "k"%string "s"%string.
Definition sp_G : tx := mkTx "G"%string None (Some [mkOutput "A"%string false 10]) 0.
Definition sp_reg0 : ureg :=
  mkUreg [("A"%string, [mkUtxo "G"%string 0 (mkOutput "A"%string false 10) 0])]
         [("G"%string, [Some (mkUtxo "G"%string 0 (mkOutput "A"%string false 10) 0)])].
Definition sp_T1 : tx :=
  mkTx "T1"%string (Some [sp_in 0 "G"%string]) (Some [mkOutput "B"%string false 9]) 5.
Definition sp_T2 : tx :=
  mkTx "T2"%string (Some [sp_in 0 "T1"%string]) (Some [mkOutput "C"%string false 8]) 5.
Definition sp_Tdup : tx :=
  mkTx "TD"%string (Some [sp_in 0 "G"%string; sp_in 0 "G"%string]) (Some [mkOutput "B"%string false 20]) 5.
Definition sp_Tself : tx :=
  mkTx "TS"%string (Some [sp_in 0 "TS"%string]) (Some [mkOutput "B"%string false 7]) 5.

Example sp_reg0_is_genesis : update_utxos ureg_empty [sp_G] 0 = Ok sp_reg0.
Proof. vm_compute. reflexivity. Qed.

Lemma NoDup_two {A} (x y : A) : x <> y -> NoDup [x; y].
Proof.
  intros H. constructor; [intros [E|[]]; congruence|]. constructor; [intros []|constructor].
Qed.

Example C02_same_tx_refused_example :
  ~ NoDup (refs sp_Tdup) /\ update_utxos sp_reg0 [sp_Tdup] 10 = Err EUnknownId.
Proof.
  split; [|vm_compute; reflexivity].
  intros H. inversion H as [|? ? Hni _]. apply Hni. now left.
Qed.

(* KNOWN FINDING: a two-transaction block in which the second transaction spends an output of
   the first is accepted by UpdateUtxos, although that output did not exist before the block. *)
Example C02_same_block_spend_accepted :
  exists reg',
    update_utxos sp_reg0 [sp_T1; sp_T2] 10 = Ok reg' /\ ids_fresh sp_reg0 [sp_T1; sp_T2] /\
    In (sp_in 0 "T1"%string) (ins sp_T2) /\ i_ref (sp_in 0 "T1"%string) = t_id sp_T1 /\
    find_utxo sp_reg0 (sp_in 0 "T1"%string) = Err EUnknownId.
Proof.
  eexists. split; [vm_compute; reflexivity|]. split.
  - split; [apply NoDup_two; discriminate|]. intros t [<-|[<-|[]]]; reflexivity.
  - split; [now left|]. split; reflexivity.
Qed.

(* outputs are recorded before inputs are consumed (utxos_registry.go:99-107 then 108-137), so
   the registry even accepts a transaction spending its own output; with ids being content
   hashes this needs a hash fixed point and is not reachable through the decoder. *)
Example C02_self_spend_accepted :
  exists reg', update_utxos sp_reg0 [sp_Tself] 10 = Ok reg' /\ ids_fresh sp_reg0 [sp_Tself].
Proof.
  eexists. split; [vm_compute; reflexivity|].
  split; [constructor; [intros []|constructor]|]. intros t [<-|[]]; reflexivity.
Qed.

(* without [ids_fresh] a reference consumed by the block can be spendable again after it *)
Example C02_spent_in_block_still_spendable_witness :
  exists reg' u,
    update_utxos ureg_empty [w_X; w_Y; w_X] 0 = Ok reg' /\
    In (w_in 0 "X"%string) (ins w_Y) /\ find_utxo reg' (w_in 0 "X"%string) = Ok u.
Proof.
  eexists. eexists. split; [vm_compute; reflexivity|]. split; [now left|vm_compute; reflexivity].
Qed.

(* ------------------------------------------------------------------------- *)
(* 3. lists of transactions: what survives                                    *)
(* ------------------------------------------------------------------------- *)
Lemma apply_txs_ok_origin reg l ts reg' i v :
  apply_txs reg l ts = Ok reg' -> find_utxo reg' i = Ok v ->
  find_utxo reg i = Ok v \/
  exists t, In t l /\ i_ref i = t_id t /\ (N.to_nat (i_idx i) < length (outs t))%nat.
Proof.
  revert reg; induction l as [|t r IH]; intros reg; cbn [apply_txs].
  - intros [= <-] H. now left.
  - destruct (apply_tx reg t ts) as [reg1|e] eqn:Et; [|discriminate]. intros Hr Hv.
    destruct (IH _ Hr Hv) as [H|(t' & Hin & H1 & H2)].
    + apply apply_tx_spec in Et as (_ & _ & _ & _ & Hwas & _).
      destruct (Hwas _ _ H) as [H'|[H1 H2]]; [now left|].
      right. exists t. split; [now left|]. split; assumption.
    + right. exists t'. split; [now right|]. split; assumption.
Qed.

(* an unspendable reference stays unspendable unless a transaction with that id is recorded *)
Lemma apply_txs_err_or_recorded reg l ts reg' i e :
  apply_txs reg l ts = Ok reg' -> find_utxo reg i = Err e ->
  (exists e', find_utxo reg' i = Err e') \/ exists t, In t l /\ t_id t = i_ref i.
Proof.
  intros H He. destruct (in_dec string_dec (i_ref i) (map t_id l)) as [Hin|Hni].
  - right. apply in_map_iff in Hin as (t & Ht & Hin). eauto.
  - left. eapply apply_txs_err_stays; eauto.
    intros t Ht Hc. apply Hni. rewrite <- Hc. now apply in_map.
Qed.

Lemma apply_txs_consumed_then_ok reg p t q ts reg' i v :
  apply_txs reg (p ++ t :: q) ts = Ok reg' -> In i (ins t) -> find_utxo reg' i = Ok v ->
  exists t', In t' q /\ t_id t' = i_ref i.
Proof.
  intros H Hi Hv. apply apply_txs_app in H as (ra & _ & H). cbn [apply_txs] in H.
  destruct (apply_tx ra t ts) as [rb|e] eqn:Et; [|discriminate].
  destruct (apply_tx_inputs_spent _ _ _ _ Et _ Hi) as [e He].
  destruct (apply_txs_err_or_recorded _ _ _ _ _ _ H He) as [[e' He']|Hx]; [congruence|exact Hx].
Qed.

(* ------------------------------------------------------------------------- *)
(* 4. chains: replay_from                                                     *)
(* ------------------------------------------------------------------------- *)
Definition chain_txs (l : list block) : list tx := flat_map txs l.

Lemma chain_txs_cons b r : chain_txs (b :: r) = txs b ++ chain_txs r.
Proof. reflexivity. Qed.

Lemma chain_txs_app l1 l2 : chain_txs (l1 ++ l2) = chain_txs l1 ++ chain_txs l2.
Proof. apply flat_map_app. Qed.

(* the registries a chain goes through: element k is the state just before block k, the last
   element the state after the whole chain *)
Fixpoint states_along (u : ureg) (a : areg) (l : list block) : list (ureg * areg) :=
  (u, a) :: match l with
            | [] => []
            | b :: r => match apply_block u a b with
                        | Ok (u', a') => states_along u' a' r
                        | Err _ => []
                        end
            end.

Lemma states_along_head u a l : nth_error (states_along u a l) 0 = Some (u, a).
Proof. destruct l; reflexivity. Qed.

Lemma apply_block_inv u a b u1 a1 :
  apply_block u a b = Ok (u1, a1) ->
  update_utxos u (txs b) (b_ts b) = Ok u1 /\
  a1 = reg_update a (elems (b_added b)) (elems (b_removed b)).
Proof.
  unfold apply_block. destruct (update_utxos u (txs b) (b_ts b)) as [u'|e]; [|discriminate].
  intros [= <- <-]. auto.
Qed.

Lemma apply_block_txs u a b u1 a1 :
  apply_block u a b = Ok (u1, a1) -> apply_txs u (txs b) (b_ts b) = Ok u1.
Proof. intros H. apply apply_block_inv in H as [H _]. now apply update_utxos_all_or_nothing in H. Qed.

Lemma replay_from_cons_inv u a b r u' a' :
  replay_from u a (b :: r) = Ok (u', a') ->
  exists u1 a1, apply_block u a b = Ok (u1, a1) /\ replay_from u1 a1 r = Ok (u', a').
Proof.
  cbn [replay_from]. destruct (apply_block u a b) as [[u1 a1]|e]; [|discriminate]. eauto.
Qed.

Lemma replay_from_app_inv l1 : forall u a l2 u' a',
  replay_from u a (l1 ++ l2) = Ok (u', a') ->
  exists u1 a1, replay_from u a l1 = Ok (u1, a1) /\ replay_from u1 a1 l2 = Ok (u', a').
Proof.
  induction l1 as [|b r IH]; intros u a l2 u' a'; cbn [app replay_from].
  - eauto.
  - destruct (apply_block u a b) as [[u1 a1]|e]; [apply IH|discriminate].
Qed.

Lemma replay_from_app_intro l1 : forall u a l2 u1 a1,
  replay_from u a l1 = Ok (u1, a1) -> replay_from u a (l1 ++ l2) = replay_from u1 a1 l2.
Proof.
  induction l1 as [|b r IH]; intros u a l2 u1 a1; cbn [app replay_from].
  - now intros [= <- <-].
  - destruct (apply_block u a b) as [[u2 a2]|e]; [apply IH|discriminate].
Qed.

(* the address registry does not influence the utxo registry *)
Lemma replay_from_areg_irrel l : forall u a1 a2 u' a1',
  replay_from u a1 l = Ok (u', a1') -> exists a2', replay_from u a2 l = Ok (u', a2').
Proof.
  induction l as [|b r IH]; intros u a1 a2 u' a1'; cbn [replay_from].
  - intros [= <- <-]. eauto.
  - unfold apply_block. destruct (update_utxos u (txs b) (b_ts b)) as [u1|e]; [|discriminate].
    apply IH.
Qed.

Lemma states_along_length l : forall u a u' a',
  replay_from u a l = Ok (u', a') -> length (states_along u a l) = S (length l).
Proof.
  induction l as [|b r IH]; intros u a u' a' H; [reflexivity|].
  apply replay_from_cons_inv in H as (u1 & a1 & Hb & Hr).
  cbn [states_along length]. rewrite Hb. now rewrite (IH _ _ _ _ Hr).
Qed.

Lemma states_along_nth l : forall u a u' a' k,
  replay_from u a l = Ok (u', a') -> k <= length l ->
  exists uk ak,
    replay_from u a (firstn k l) = Ok (uk, ak) /\
    nth_error (states_along u a l) k = Some (uk, ak) /\
    replay_from uk ak (skipn k l) = Ok (u', a').
Proof.
  induction l as [|b r IH]; intros u a u' a' k Hr Hk.
  - cbn in Hk. assert (k = 0) by lia. subst k. exists u, a. cbn. auto.
  - destruct k as [|k].
    + exists u, a. rewrite states_along_head. cbn [firstn skipn]. auto.
    + apply replay_from_cons_inv in Hr as (u1 & a1 & Hb & Hr).
      destruct (IH _ _ _ _ k Hr ltac:(cbn in Hk; lia)) as (uk & ak & H1 & H2 & H3).
      exists uk, ak. cbn [firstn skipn replay_from states_along nth_error]. rewrite Hb. auto.
Qed.

Lemma replay_ok_origin l : forall u a u' a' i v,
  replay_from u a l = Ok (u', a') -> find_utxo u' i = Ok v ->
  find_utxo u i = Ok v \/
  exists t, In t (chain_txs l) /\ i_ref i = t_id t /\ (N.to_nat (i_idx i) < length (outs t))%nat.
Proof.
  induction l as [|b r IH]; intros u a u' a' i v Hr Hv.
  - cbn in Hr. inversion Hr; subst. now left.
  - apply replay_from_cons_inv in Hr as (u1 & a1 & Hb & Hr). apply apply_block_txs in Hb.
    rewrite chain_txs_cons.
    destruct (IH _ _ _ _ _ _ Hr Hv) as [H|(t & Hin & H1 & H2)].
    + destruct (apply_txs_ok_origin _ _ _ _ _ _ Hb H) as [H'|(t & Hin & H1 & H2)]; [now left|].
      right. exists t. split; [apply in_app_iff; now left|]. split; assumption.
    + right. exists t. split; [apply in_app_iff; now right|]. split; assumption.
Qed.

Lemma replay_err_or_recorded l : forall u a u' a' i e,
  replay_from u a l = Ok (u', a') -> find_utxo u i = Err e ->
  (exists e', find_utxo u' i = Err e') \/ exists t, In t (chain_txs l) /\ t_id t = i_ref i.
Proof.
  induction l as [|b r IH]; intros u a u' a' i e Hr He.
  - cbn in Hr. inversion Hr; subst. eauto.
  - apply replay_from_cons_inv in Hr as (u1 & a1 & Hb & Hr). apply apply_block_txs in Hb.
    rewrite chain_txs_cons.
    destruct (apply_txs_err_or_recorded _ _ _ _ _ _ Hb He) as [[e1 He1]|(t & Hin & Hid)].
    + destruct (IH _ _ _ _ _ _ Hr He1) as [H|(t & Hin & Hid)]; [now left|].
      right. exists t. split; [apply in_app_iff; now right|exact Hid].
    + right. exists t. split; [apply in_app_iff; now left|exact Hid].
Qed.

Lemma replay_keys l : forall u a u' a' k,
  replay_from u a l = Ok (u', a') -> In k (map fst (by_id u')) ->
  In k (map t_id (chain_txs l)) \/ In k (map fst (by_id u)).
Proof.
  induction l as [|b r IH]; intros u a u' a' k Hr Hk.
  - cbn in Hr. inversion Hr; subst. now right.
  - apply replay_from_cons_inv in Hr as (u1 & a1 & Hb & Hr). apply apply_block_txs in Hb.
    rewrite chain_txs_cons, map_app.
    destruct (IH _ _ _ _ _ Hr Hk) as [H|H]; [left; apply in_app_iff; now right|].
    destruct (apply_txs_keys _ _ _ _ _ Hb H) as [H'|H']; [left; apply in_app_iff; now left|now right].
Qed.

(* a reference consumed in block [b] and spendable at the end of the chain was created anew:
   a transaction whose id is that reference comes later in [b] or in a later block *)
Lemma replay_consumed_then_ok u a l1 b l2 u' a' p t q i v :
  replay_from u a (l1 ++ b :: l2) = Ok (u', a') -> txs b = p ++ t :: q -> In i (ins t) ->
  find_utxo u' i = Ok v -> exists t', In t' (q ++ chain_txs l2) /\ t_id t' = i_ref i.
Proof.
  intros Hr Htx Hi Hv. apply replay_from_app_inv in Hr as (ua & aa & _ & Hr).
  apply replay_from_cons_inv in Hr as (ub & ab & Hb & Hr). apply apply_block_txs in Hb.
  rewrite Htx in Hb.
  destruct (find_utxo ub i) as [w|e] eqn:Ew.
  - destruct (apply_txs_consumed_then_ok _ _ _ _ _ _ _ _ Hb Hi Ew) as (t' & Hin & Hid).
    exists t'. split; [apply in_app_iff; now left|exact Hid].
  - destruct (replay_err_or_recorded _ _ _ _ _ _ _ Hr Ew) as [[e' He']|(t' & Hin & Hid)]; [congruence|].
    exists t'. split; [apply in_app_iff; now right|exact Hid].
Qed.

(* where a consumed reference comes from, along a chain *)
Lemma replay_consumed_origin u a l1 b l2 u' a' p t q i :
  replay_from u a (l1 ++ b :: l2) = Ok (u', a') -> txs b = p ++ t :: q -> In i (ins t) ->
  (exists v, find_utxo u i = Ok v) \/
  exists t', (In t' (chain_txs l1) \/ In t' (p ++ [t])) /\ i_ref i = t_id t' /\
             (N.to_nat (i_idx i) < length (outs t'))%nat.
Proof.
  intros Hr Htx Hi. apply replay_from_app_inv in Hr as (ua & aa & Hr1 & Hr).
  apply replay_from_cons_inv in Hr as (ub & ab & Hb & _). apply apply_block_txs in Hb.
  destruct (apply_txs_consumed_origin _ _ _ _ Hb p t q Htx i Hi) as [[v Hv]|(t' & Hin & H1 & H2)].
  - destruct (replay_ok_origin _ _ _ _ _ _ _ Hr1 Hv) as [H|(t' & Hin & H1 & H2)]; [eauto|].
    right. exists t'. auto.
  - right. exists t'. auto.
Qed.

(* ---- distinct ids along a chain ---- *)
Definition chain_ids_fresh (u : ureg) (l : list block) : Prop :=
  NoDup (map t_id (chain_txs l)) /\
  forall t, In t (chain_txs l) -> alookup (t_id t) (by_id u) = None.

Lemma chain_ids_fresh_empty l : NoDup (map t_id (chain_txs l)) -> chain_ids_fresh ureg_empty l.
Proof. intros H. split; [exact H|reflexivity]. Qed.

Lemma chain_ids_fresh_step u a b r u1 a1 :
  chain_ids_fresh u (b :: r) -> apply_block u a b = Ok (u1, a1) ->
  ids_fresh u (txs b) /\ chain_ids_fresh u1 r.
Proof.
  intros [Hnd Hf] Hb. apply apply_block_txs in Hb.
  rewrite chain_txs_cons, map_app in Hnd. destruct (NoDup_app_inv _ _ Hnd) as (H1 & H2 & H3).
  split; [split; [exact H1|]|split; [exact H2|]].
  - intros t Ht. apply Hf. rewrite chain_txs_cons. apply in_app_iff. now left.
  - intros t Ht. apply alookup_None_iff. intros Hk.
    destruct (apply_txs_keys _ _ _ _ _ Hb Hk) as [H|H].
    + apply (H3 (t_id t)); [exact H|now apply in_map].
    + assert (Hn : alookup (t_id t) (by_id u) = None).
      { apply Hf. rewrite chain_txs_cons. apply in_app_iff. now right. }
      apply alookup_None_iff in Hn. contradiction.
Qed.

Lemma chain_ids_fresh_replay l1 : forall u a l2 u1 a1,
  replay_from u a l1 = Ok (u1, a1) -> chain_ids_fresh u (l1 ++ l2) -> chain_ids_fresh u1 l2.
Proof.
  induction l1 as [|b r IH]; intros u a l2 u1 a1 Hr Hf.
  - cbn in Hr. inversion Hr; subst. exact Hf.
  - apply replay_from_cons_inv in Hr as (u2 & a2 & Hb & Hr). cbn [app] in Hf.
    destruct (chain_ids_fresh_step _ _ _ _ _ _ Hf Hb) as [_ Hf2]. eapply IH; eauto.
Qed.

Lemma chain_ids_fresh_prefix u l1 l2 : chain_ids_fresh u (l1 ++ l2) -> chain_ids_fresh u l1.
Proof.
  intros [Hnd Hf]. rewrite chain_txs_app, map_app in Hnd.
  destruct (NoDup_app_inv _ _ Hnd) as (H1 & _ & _). split; [exact H1|].
  intros t Ht. apply Hf. rewrite chain_txs_app. apply in_app_iff. now left.
Qed.

(* with distinct fresh ids a consumed reference is never spendable again *)
Lemma replay_consumed_stays_spent u a l1 b l2 u' a' t i :
  replay_from u a (l1 ++ b :: l2) = Ok (u', a') -> chain_ids_fresh u (l1 ++ b :: l2) ->
  In t (txs b) -> In i (ins t) -> exists e, find_utxo u' i = Err e.
Proof.
  intros Hr [Hnd Hf] Ht Hi. destruct (find_utxo u' i) as [v|e] eqn:Ev; [exfalso|eauto].
  apply in_split in Ht as (p & q & Htx).
  destruct (replay_consumed_then_ok _ _ _ _ _ _ _ _ _ _ _ _ Hr Htx Hi Ev) as (t2 & Hin2 & Hid2).
  assert (Hall : chain_txs (l1 ++ b :: l2) = (chain_txs l1 ++ p ++ [t]) ++ (q ++ chain_txs l2)).
  { rewrite chain_txs_app, chain_txs_cons, Htx. rewrite <- !app_assoc. reflexivity. }
  destruct (replay_consumed_origin _ _ _ _ _ _ _ _ _ _ _ Hr Htx Hi) as [[w Hw]|(t1 & Hin1 & Hid1 & _)].
  - apply find_utxo_Ok_key in Hw. rewrite <- Hid2 in Hw.
    assert (Hn : alookup (t_id t2) (by_id u) = None).
    { apply Hf. rewrite Hall. apply in_app_iff. now right. }
    apply alookup_None_iff in Hn. contradiction.
  - rewrite Hall, map_app in Hnd. destruct (NoDup_app_inv _ _ Hnd) as (_ & _ & H3).
    apply (H3 (i_ref i)).
    + rewrite Hid1. apply in_map. apply in_app_iff. destruct Hin1; auto.
    + rewrite <- Hid2. now apply in_map.
Qed.

(* C02 along a chain. Block k is applied to the state [states_along] lists at position k;
   every reference it consumes was spendable there or was created earlier in the same block,
   and (when the block's ids are fresh for that state) is unspendable in the state at k+1. *)
Theorem C02_replay_chain u a l u' a' :
  replay_from u a l = Ok (u', a') ->
  forall k b, nth_error l k = Some b ->
  exists ub ab ua aa,
    nth_error (states_along u a l) k = Some (ub, ab) /\
    nth_error (states_along u a l) (S k) = Some (ua, aa) /\
    replay_from u a (firstn k l) = Ok (ub, ab) /\
    apply_block ub ab b = Ok (ua, aa) /\
    forall p t q i, txs b = p ++ t :: q -> In i (ins t) ->
      ((exists v, find_utxo ub i = Ok v) \/
       exists t', In t' (p ++ [t]) /\ i_ref i = t_id t' /\
                  (N.to_nat (i_idx i) < length (outs t'))%nat) /\
      (ids_fresh ub (txs b) -> exists e, find_utxo ua i = Err e).
Proof.
  intros Hr k b Hk.
  assert (Hlt : k < length l) by (apply nth_error_Some; congruence).
  destruct (states_along_nth _ _ _ _ _ k Hr ltac:(lia)) as (ub & ab & H1 & H2 & H3).
  destruct (states_along_nth _ _ _ _ _ (S k) Hr ltac:(lia)) as (ua & aa & H4 & H5 & _).
  rewrite (nth_error_skipn_cons _ _ _ Hk) in H3.
  apply replay_from_cons_inv in H3 as (ua' & aa' & Hb & _).
  assert (Hsame : (ua', aa') = (ua, aa)).
  { rewrite (firstn_S_nth _ _ _ Hk), (replay_from_app_intro _ _ _ _ _ _ H1) in H4.
    cbn [replay_from] in H4. rewrite Hb in H4. now inversion H4. }
  inversion Hsame; subst ua' aa'. clear Hsame.
  exists ub, ab, ua, aa. repeat (split; [assumption|]).
  intros p t q i Htx Hi. pose proof (apply_block_inv _ _ _ _ _ Hb) as [Hu _]. split.
  - eapply C02_block_origin; eauto.
  - intros Hfresh. destruct (C02_block_no_double_spend _ _ _ _ Hu Hfresh) as (_ & _ & Hgone).
    apply (Hgone t i); [rewrite Htx; apply in_elt|exact Hi].
Qed.

(* every block of a chain with distinct fresh ids satisfies the block-level hypothesis *)
Lemma chain_ids_fresh_at u a l u' a' k b ub ab :
  replay_from u a l = Ok (u', a') -> chain_ids_fresh u l -> nth_error l k = Some b ->
  replay_from u a (firstn k l) = Ok (ub, ab) -> ids_fresh ub (txs b).
Proof.
  intros Hr Hf Hk H1. rewrite <- (firstn_skipn k l) in Hf, Hr.
  pose proof (chain_ids_fresh_replay _ _ _ _ _ _ H1 Hf) as Hf2.
  rewrite (replay_from_app_intro _ _ _ _ _ _ H1) in Hr.
  rewrite (nth_error_skipn_cons _ _ _ Hk) in Hf2, Hr.
  apply replay_from_cons_inv in Hr as (u1 & a1 & Hb & _).
  now destruct (chain_ids_fresh_step _ _ _ _ _ _ Hf2 Hb).
Qed.

(* ... and a reference consumed by block k is unspendable in every later state of the chain *)
Theorem C02_chain_spent_forever u a l u' a' :
  replay_from u a l = Ok (u', a') -> chain_ids_fresh u l ->
  forall k b j uj aj t i,
    nth_error l k = Some b -> k < j -> nth_error (states_along u a l) j = Some (uj, aj) ->
    In t (txs b) -> In i (ins t) -> exists e, find_utxo uj i = Err e.
Proof.
  intros Hr Hf k b j uj aj t i Hk Hkj Hj Ht Hi.
  assert (Hjl : j <= length l).
  { assert (j < length (states_along u a l)) by (apply nth_error_Some; congruence).
    rewrite (states_along_length _ _ _ _ _ Hr) in H. lia. }
  destruct (states_along_nth _ _ _ _ _ j Hr Hjl) as (uj' & aj' & H1 & H2 & _).
  rewrite Hj in H2. inversion H2; subst uj' aj'. clear H2.
  rewrite <- (firstn_skipn j l) in Hf. apply chain_ids_fresh_prefix in Hf.
  assert (Hkf : nth_error (firstn j l) k = Some b).
  { rewrite <- Hk. rewrite <- (firstn_skipn j l) at 2.
    rewrite nth_error_app1; [reflexivity|]. rewrite firstn_length_le; lia. }
  apply nth_error_split in Hkf as (m1 & m2 & Hm & _). rewrite Hm in H1, Hf.
  eapply replay_consumed_stays_spent; eauto.
Qed.

(* across blocks: along a chain with pairwise distinct fresh ids no reference is consumed twice *)
Theorem C02_chain_no_double_spend l : forall u a u' a',
  replay_from u a l = Ok (u', a') -> chain_ids_fresh u l -> NoDup (consumed (chain_txs l)).
Proof.
  induction l as [|b r IH]; intros u a u' a' Hr Hf; [constructor|].
  pose proof Hr as Hr0.
  apply replay_from_cons_inv in Hr as (u1 & a1 & Hb & Hr).
  destruct (chain_ids_fresh_step _ _ _ _ _ _ Hf Hb) as [Hfb Hfr].
  pose proof (apply_block_txs _ _ _ _ _ Hb) as Htx.
  destruct (apply_txs_no_double_spend _ _ _ _ Hfb Htx) as [Hnd _].
  rewrite chain_txs_cons. unfold consumed. rewrite flat_map_app.
  apply NoDup_app_intro; [exact Hnd|exact (IH _ _ _ _ Hr Hfr)|].
  intros x Hx1 Hx2.
  apply in_flat_map in Hx1 as (t1 & Ht1 & Hx1). apply in_map_iff in Hx1 as (i1 & <- & Hi1).
  apply in_flat_map in Hx2 as (t2 & Ht2 & Hx2). apply in_map_iff in Hx2 as (i2 & Hq & Hi2).
  apply in_flat_map in Ht2 as (b2 & Hb2 & Ht2).
  apply in_split in Hb2 as (m1 & m2 & Hm). subst r.
  (* state just before b2: the reference is unspendable there *)
  change (b :: m1 ++ b2 :: m2) with ((b :: m1) ++ b2 :: m2) in Hr0, Hf.
  apply replay_from_app_inv in Hr0 as (ux & ax & Hr1 & Hr2).
  pose proof (chain_ids_fresh_prefix _ _ _ Hf) as Hf1.
  destruct (replay_consumed_stays_spent u a [] b m1 ux ax t1 i1 Hr1 Hf1 Ht1 Hi1) as [e He].
  apply in_split in Ht2 as (p & q & Hp).
  destruct (replay_consumed_origin ux ax [] b2 m2 u' a' p t2 q i2 Hr2 Hp Hi2)
    as [[v Hv]|(t' & Hin & Hid & _)].
  - rewrite (find_utxo_ext _ _ _ Hq) in Hv. congruence.
  - (* created in b2 by t': its id is the id of the creator of i1, which is older *)
    assert (Hin' : In t' (txs b2)).
    { destruct Hin as [[]|Hin]. rewrite Hp. apply in_app_iff in Hin as [Hin|[<-|[]]].
      - apply in_app_iff. now left.
      - apply in_elt. }
    assert (Hr' : i_ref i1 = t_id t') by (unfold iref in Hq; congruence).
    apply in_split in Ht1 as (p1 & q1 & Hp1).
    destruct Hf as [Hnd0 Hf0].
    destruct (replay_consumed_origin u a [] b m1 ux ax p1 t1 q1 i1 Hr1 Hp1 Hi1)
      as [[w Hw]|(t0 & Hin0 & Hid0 & _)].
    + apply find_utxo_Ok_key in Hw. rewrite Hr' in Hw.
      assert (Hn : alookup (t_id t') (by_id u) = None).
      { apply Hf0. rewrite chain_txs_app, !chain_txs_cons.
        apply in_app_iff. right. apply in_app_iff. now left. }
      apply alookup_None_iff in Hn. contradiction.
    + assert (Hin0' : In t0 (txs b)).
      { destruct Hin0 as [[]|Hin0]. rewrite Hp1. apply in_app_iff in Hin0 as [Hin0|[<-|[]]].
        - apply in_app_iff. now left.
        - apply in_elt. }
      change ((b :: m1) ++ b2 :: m2) with (b :: m1 ++ b2 :: m2) in Hnd0.
      rewrite chain_txs_cons, map_app in Hnd0. destruct (NoDup_app_inv _ _ Hnd0) as (_ & _ & H3).
      apply (H3 (i_ref i1)).
      * rewrite Hid0. now apply in_map.
      * rewrite Hr'. apply in_map. rewrite chain_txs_app, chain_txs_cons.
        apply in_app_iff. right. apply in_app_iff. now left.
Qed.

(* the hypothesis the task asks for: a chain replayed from the empty state whose transaction
   ids are pairwise distinct *)
Corollary C02_chain_no_double_spend_replay l u a :
  replay l = Ok (u, a) -> NoDup (map t_id (flat_map txs l)) ->
  NoDup (consumed (flat_map txs l)).
Proof.
  intros Hr Hnd. eapply C02_chain_no_double_spend; [exact Hr|].
  apply chain_ids_fresh_empty. exact Hnd.
Qed.

(* no hypothesis on ids: a reference consumed in block b1 and again in a later block b2 was
   created anew in between (after its first consumer, at the latest by the second one) *)
Theorem C02_chain_respend_needs_recreation u a l1 b1 l2 b2 l3 u' a' p1 t1 q1 p2 t2 q2 i1 i2 :
  replay_from u a (l1 ++ b1 :: l2 ++ b2 :: l3) = Ok (u', a') ->
  txs b1 = p1 ++ t1 :: q1 -> txs b2 = p2 ++ t2 :: q2 ->
  In i1 (ins t1) -> In i2 (ins t2) -> iref i2 = iref i1 ->
  exists t', In t' (q1 ++ chain_txs l2 ++ p2 ++ [t2]) /\ t_id t' = i_ref i1.
Proof.
  intros Hr H1 H2 Hi1 Hi2 Hq.
  replace (l1 ++ b1 :: l2 ++ b2 :: l3) with ((l1 ++ b1 :: l2) ++ b2 :: l3) in Hr
    by (rewrite <- app_assoc; reflexivity).
  apply replay_from_app_inv in Hr as (ux & ax & Hr1 & Hr2).
  apply replay_from_cons_inv in Hr2 as (uy & ay & Hb & _). apply apply_block_txs in Hb.
  destruct (apply_txs_consumed_origin _ _ _ _ Hb p2 t2 q2 H2 i2 Hi2) as [[v Hv]|(t' & Hin & Hid & _)].
  - rewrite (find_utxo_ext _ _ _ Hq) in Hv.
    destruct (replay_consumed_then_ok _ _ _ _ _ _ _ _ _ _ _ _ Hr1 H1 Hi1 Hv) as (t' & Hin & Hid).
    exists t'. split; [|exact Hid]. rewrite app_assoc. apply in_app_iff. now left.
  - exists t'. split; [|unfold iref in Hq; congruence].
    apply in_app_iff. right. apply in_app_iff. now right.
Qed.

(* for the chain a node holds (replayed from the empty state): every input names an output of a
   transaction of an earlier block — or of the same block, up to and including the consumer *)
Theorem C02_chain_created_earlier l1 b l2 u' a' p t q i :
  replay (l1 ++ b :: l2) = Ok (u', a') -> txs b = p ++ t :: q -> In i (ins t) ->
  exists t', (In t' (flat_map txs l1) \/ In t' (p ++ [t])) /\ i_ref i = t_id t' /\
             (N.to_nat (i_idx i) < length (outs t'))%nat.
Proof.
  intros Hr Htx Hi. unfold replay in Hr.
  destruct (replay_consumed_origin _ _ _ _ _ _ _ _ _ _ _ Hr Htx Hi) as [[v Hv]|H]; [|exact H].
  discriminate Hv.
Qed.

(* re-export: without distinct ids a reference is consumed in two successive blocks *)
Theorem C02_id_reuse_refuted :
  exists ts reg1 reg2,
    update_utxos ureg_empty [w_X; w_Y] ts = Ok reg1 /\ ids_fresh ureg_empty [w_X; w_Y] /\
    update_utxos reg1 [w_X; w_Z] ts = Ok reg2 /\ ids_fresh reg1 [w_X; w_Z] /\
    In (iref (w_in 0 "X"%string)) (consumed [w_X; w_Y]) /\
    In (iref (w_in 0 "X"%string)) (consumed [w_X; w_Z]).
Proof. exact spent_id_replay_witness. Qed.

(* the same as a chain of two blocks *)
Definition sp_blk (ts : Z) (l : list tx) : block := mkBlock [] None None ts (Some l).

Example C02_id_reuse_chain_refuted :
  exists u a,
    replay [sp_blk 1 [w_X; w_Y]; sp_blk 2 [w_X; w_Z]] = Ok (u, a) /\
    ~ NoDup (consumed (flat_map txs [sp_blk 1 [w_X; w_Y]; sp_blk 2 [w_X; w_Z]])).
Proof.
  eexists. eexists. split; [vm_compute; reflexivity|].
  vm_compute. apply not_NoDup_twice.
Qed.

Example C02_chain_example :
  exists u a,
    replay [sp_blk 1 [sp_G]; sp_blk 2 [sp_T1]; sp_blk 3 [sp_T2]] = Ok (u, a) /\
    chain_ids_fresh ureg_empty [sp_blk 1 [sp_G]; sp_blk 2 [sp_T1]; sp_blk 3 [sp_T2]] /\
    consumed (flat_map txs [sp_blk 1 [sp_G]; sp_blk 2 [sp_T1]; sp_blk 3 [sp_T2]])
    = [("G"%string, 0%N); ("T1"%string, 0%N)].
Proof.
  eexists. eexists. split; [vm_compute; reflexivity|]. split; [|reflexivity].
  apply chain_ids_fresh_empty. cbn.
  constructor; [intros [E|[E|[]]]; discriminate|]. apply NoDup_two. discriminate.
Qed.

(* ------------------------------------------------------------------------- *)
(* 5. C02: admission to the pool                                              *)
(* ------------------------------------------------------------------------- *)
Lemma last_block_snoc_sp (l : list block) (b : block) : last_block (l ++ [b]) = Some b.
Proof. unfold last_block. rewrite rev_app_distr. reflexivity. Qed.

Section Admission.
  Variable value_fn : N -> bool -> Z -> N.
  Variable addr_of : string -> string.
  Variable sig_ok : input -> bool.
  Variable S : settings.

  Notation pool_add := (Pool.pool_add value_fn addr_of sig_ok S).

  (* the pool, seen as the block the working copy of addTransaction applies after the tip *)
  Definition pool_block (n : node) : block :=
    mkBlock [] None None (last_block_ts (chain (n_c n)) + s_interval S)%Z (n_pool n).

  (* addTransaction replays [last block; pool] on a copy of the confirmed state, and every
     input of the accepted transaction is spendable in the result *)
  Lemma pool_add_replay n t n' :
    pool_add n t = Ok n' ->
    exists lb u2,
      last_block (chain (n_c n)) = Some lb /\
      (forall a, exists a2, replay_from (ur (n_c n)) a [lb; pool_block n] = Ok (u2, a2)) /\
      forall i, In i (ins t) -> exists v, find_utxo u2 i = Ok v.
  Proof.
    intros Hadd. apply pool_add_sound in Hadd. cbv zeta in Hadd.
    destruct Hadd as (Hne & _ & _ & _ & u1 & u2 & f & u3 & H1 & H2 & Hfee & _ & _).
    unfold last_block_ts, last_block_txs in Hne, H1.
    unfold pool_block. unfold last_block_ts at 1.
    unfold last_block_ts in H2, Hfee.
    destruct (last_block (chain (n_c n))) as [lb|] eqn:El; [|congruence].
    exists lb, u2. split; [reflexivity|]. split.
    - intros a. eexists. cbn [replay_from]. unfold apply_block. rewrite H1.
      unfold txs. cbn [b_txs b_ts]. rewrite H2. reflexivity.
    - intros i Hi. apply calc_fee_exact in Hfee as (us & Hall & _).
      destruct (Forall2_In_l _ _ _ _ Hall Hi) as (v & _ & Hv & _). eauto.
  Qed.

  (* Unconditional form. If an accepted transaction names an output that a transaction t' of
     the last block or of the pool consumes, then that reference was created anew after t':
     a later transaction of (last block ++ pool) carries the referenced id. *)
  Theorem C02_admission_conflict_recreated n t n' :
    pool_add n t = Ok n' ->
    forall p t' q i i',
      last_block_txs (chain (n_c n)) ++ elems (n_pool n) = p ++ t' :: q ->
      In i (ins t) -> In i' (ins t') -> iref i' = iref i ->
      exists t'', In t'' q /\ t_id t'' = i_ref i.
  Proof.
    intros Hadd p t' q i i' Hsplit Hi Hi' Hq.
    destruct (pool_add_replay _ _ _ Hadd) as (lb & u2 & El & Hrep & Hsp).
    destruct (Hrep areg_empty) as [a2 Hr]. destruct (Hsp _ Hi) as [v Hv].
    rewrite <- (find_utxo_ext _ _ _ Hq) in Hv.
    assert (Hid : i_ref i' = i_ref i) by (unfold iref in Hq; congruence).
    unfold last_block_txs in Hsplit. rewrite El in Hsplit.
    apply app_eq_app in Hsplit as [m [[H1 H2]|[H1 H2]]].
    - destruct m as [|x m'].
      + (* t' is the first pooled transaction *)
        cbn in H2.
        assert (Hp : txs (pool_block n) = [] ++ t' :: q) by (symmetry; exact H2).
        destruct (replay_consumed_then_ok _ _ [lb] (pool_block n) [] _ _ [] t' q i' v Hr Hp Hi' Hv)
          as (t2 & Hin & Hid2).
        exists t2. split; [|congruence]. cbn in Hin. rewrite app_nil_r in Hin. exact Hin.
      + (* t' is in the last block *)
        cbn in H2. inversion H2 as [[Hx Hm]]. subst x. clear H2.
        destruct (replay_consumed_then_ok _ _ [] lb [pool_block n] _ _ p t' m' i' v Hr H1 Hi' Hv)
          as (t2 & Hin & Hid2).
        exists t2. split; [|congruence].
        cbn in Hin. rewrite app_nil_r in Hin. exact Hin.
    - (* t' is in the pool *)
      assert (Hp : txs (pool_block n) = m ++ t' :: q) by exact H2.
      destruct (replay_consumed_then_ok _ _ [lb] (pool_block n) [] _ _ m t' q i' v Hr Hp Hi' Hv)
        as (t2 & Hin & Hid2).
      exists t2. split; [|congruence]. cbn in Hin. rewrite app_nil_r in Hin. exact Hin.
  Qed.

  (* Full statement of the property (FALSE of the model, see [C02_admission_conflict_refuted]):
       pool_add n t = Ok n' -> In i (ins t) ->
       In t' (last_block_txs (chain (n_c n)) ++ elems (n_pool n)) -> In i' (ins t') ->
       iref i' = iref i -> False.
     Proved here when no transaction of the last block or of the pool carries the referenced id. *)
  Theorem C02_admission_conflict_partial n t n' :
    pool_add n t = Ok n' ->
    forall i t' i',
      In i (ins t) -> In t' (last_block_txs (chain (n_c n)) ++ elems (n_pool n)) ->
      In i' (ins t') -> iref i' = iref i ->
      (forall t'', In t'' (last_block_txs (chain (n_c n)) ++ elems (n_pool n)) -> t_id t'' <> i_ref i) ->
      False.
  Proof.
    intros Hadd i t' i' Hi Ht' Hi' Hq Hno.
    apply in_split in Ht' as (p & q & Hsplit).
    destruct (C02_admission_conflict_recreated _ _ _ Hadd _ _ _ _ _ Hsplit Hi Hi' Hq) as (t2 & Hin & Hid).
    apply (Hno t2); [|exact Hid]. rewrite Hsplit. apply in_app_iff. right. now right.
  Qed.

  (* ... and when the node's confirmed state is the replay of its chain minus the tip (C07) and
     the transaction ids of the chain and of the pool are pairwise distinct. *)
  Theorem C02_admission_conflict_chain_partial n t n' old lb a0 :
    pool_add n t = Ok n' ->
    chain (n_c n) = old ++ [lb] -> replay old = Ok (ur (n_c n), a0) ->
    NoDup (map t_id (flat_map txs old ++ txs lb ++ elems (n_pool n))) ->
    forall i t' i',
      In i (ins t) -> In t' (txs lb ++ elems (n_pool n)) -> In i' (ins t') -> iref i' = iref i ->
      False.
  Proof.
    intros Hadd Hch Hrep Hnd i t' i' Hi Ht' Hi' Hq.
    destruct (pool_add_replay _ _ _ Hadd) as (lb' & u2 & El & Hr & Hsp).
    rewrite Hch, last_block_snoc_sp in El. inversion El; subst lb'. clear El.
    destruct (Hr a0) as [a2 Hr2]. destruct (Hsp _ Hi) as [v Hv].
    rewrite <- (find_utxo_ext _ _ _ Hq) in Hv.
    assert (Hall : replay_from ureg_empty areg_empty (old ++ [lb; pool_block n]) = Ok (u2, a2)).
    { unfold replay in Hrep. rewrite (replay_from_app_intro _ _ _ _ _ _ Hrep). exact Hr2. }
    assert (Hf : chain_ids_fresh ureg_empty (old ++ [lb; pool_block n])).
    { apply chain_ids_fresh_empty. rewrite chain_txs_app. cbn. rewrite app_nil_r. exact Hnd. }
    apply in_app_iff in Ht' as [Ht'|Ht'].
    - destruct (replay_consumed_stays_spent _ _ old lb [pool_block n] _ _ t' i' Hall Hf Ht' Hi')
        as [e He]. congruence.
    - replace (old ++ [lb; pool_block n]) with ((old ++ [lb]) ++ pool_block n :: []) in Hall, Hf
        by (rewrite <- app_assoc; reflexivity).
      destruct (replay_consumed_stays_spent _ _ (old ++ [lb]) (pool_block n) [] _ _ t' i' Hall Hf Ht' Hi')
        as [e He]. congruence.
  Qed.
  (* the same as a refusal *)
  Corollary C02_admission_refused_partial n t i t' i' :
    In i (ins t) -> In t' (last_block_txs (chain (n_c n)) ++ elems (n_pool n)) ->
    In i' (ins t') -> iref i' = iref i ->
    (forall t'', In t'' (last_block_txs (chain (n_c n)) ++ elems (n_pool n)) -> t_id t'' <> i_ref i) ->
    exists e, pool_add n t = Err e.
  Proof.
    intros Hi Ht' Hi' Hq Hno. destruct (pool_add n t) as [n'|e] eqn:E; [exfalso|eauto].
    eapply C02_admission_conflict_partial; eauto.
  Qed.
End Admission.

(* the unconditional statement is false: the tip consumes ("X",0) and then records a transaction
   with id "X" again (an old reward replayed verbatim once its output was spent, so that the id
   entry had been deleted); a transaction spending ("X",0) is then accepted into the pool *)
Definition ad_X : tx := mkTx "X"%string None (Some [mkOutput "A"%string false 5]) 10.
Definition ad_Y : tx := mkTx "Y"%string (Some [sp_in 0 "X"%string]) (Some [mkOutput "B"%string false 5]) 10.
Definition ad_Z : tx := mkTx "Z"%string (Some [sp_in 0 "X"%string]) (Some [mkOutput "C"%string false 4]) 10.
Definition ad_reg : ureg :=
  mkUreg [("A"%string, [mkUtxo "X"%string 0 (mkOutput "A"%string false 5) 0])]
         [("X"%string, [Some (mkUtxo "X"%string 0 (mkOutput "A"%string false 5) 0)])].
Definition ad_S : settings := mkSettings 5 1 100 10.
Definition ad_node : node :=
  mkNode (mkC [sp_blk 5 [ad_X]; sp_blk 10 [ad_Y; ad_X]] ad_reg areg_empty) None.

Theorem C02_admission_conflict_refuted :
  exists value_fn addr_of sig_ok S n t n' i t' i',
    pool_add value_fn addr_of sig_ok S n t = Ok n' /\
    In i (ins t) /\ In t' (last_block_txs (chain (n_c n)) ++ elems (n_pool n)) /\
    In i' (ins t') /\ iref i' = iref i.
Proof.
  exists (fun v _ _ => v), (fun _ => "A"%string), (fun _ => true), ad_S, ad_node, ad_Z.
  eexists. exists (sp_in 0 "X"%string), ad_Y, (sp_in 0 "X"%string).
  split; [vm_compute; reflexivity|]. split; [now left|]. split; [now left|]. split; [now left|reflexivity].
Qed.

(* the hypotheses of the two positive forms hold on a non-trivial node, and the conflicting
   submission is refused there *)
Definition ad_node_ok : node :=
  mkNode (mkC [sp_blk 0 [sp_G]; sp_blk 10 [sp_T1]] sp_reg0 areg_empty) (Some [sp_T2]).
Definition ad_T3 : tx :=
  mkTx "T3"%string (Some [sp_in 0 "T2"%string]) (Some [mkOutput "D"%string false 7]) 10.
Definition ad_Tbad1 : tx :=
  mkTx "B1"%string (Some [sp_in 0 "G"%string]) (Some [mkOutput "D"%string false 7]) 10.
Definition ad_Tbad2 : tx :=
  mkTx "B2"%string (Some [sp_in 0 "T1"%string]) (Some [mkOutput "D"%string false 7]) 10.

Example C02_admission_example :
  (exists n', pool_add (fun v _ _ => v) (fun _ => "C"%string) (fun _ => true) ad_S ad_node_ok ad_T3 = Ok n') /\
  pool_add (fun v _ _ => v) (fun _ => "A"%string) (fun _ => true) ad_S ad_node_ok ad_Tbad1 = Err EUnknownId /\
  pool_add (fun v _ _ => v) (fun _ => "B"%string) (fun _ => true) ad_S ad_node_ok ad_Tbad2 = Err EUnknownId /\
  replay [sp_blk 0 [sp_G]] = Ok (ur (n_c ad_node_ok), areg_empty) /\
  NoDup (map t_id (flat_map txs [sp_blk 0 [sp_G]] ++ txs (sp_blk 10 [sp_T1]) ++ elems (n_pool ad_node_ok))).
Proof.
  split; [eexists; vm_compute; reflexivity|].
  split; [vm_compute; reflexivity|]. split; [vm_compute; reflexivity|].
  split; [vm_compute; reflexivity|].
  cbn. constructor; [intros [E|[E|[]]]; discriminate|]. apply NoDup_two. discriminate.
Qed.

(* ------------------------------------------------------------------------- *)
(* 6. C10: at most one unspent yielding output per address                    *)
(* ------------------------------------------------------------------------- *)
Definition one_yield (u : ureg) : Prop := forall a, count_yielding (utxos_of u a) <= 1.

Lemma one_yield_empty : one_yield ureg_empty.
Proof. intros a. cbn. lia. Qed.

Theorem C10_one_yielding_after_block reg l ts reg' :
  update_utxos reg l ts = Ok reg' -> forall a, count_yielding (utxos_of reg' a) <= 1.
Proof. exact (update_utxos_one_yielding reg l ts reg'). Qed.

Lemma apply_block_one_yield u a b u1 a1 : apply_block u a b = Ok (u1, a1) -> one_yield u1.
Proof. intros H. apply apply_block_inv in H as [H _]. exact (C10_one_yielding_after_block _ _ _ _ H). Qed.

Lemma replay_one_yield l : forall u a u' a',
  one_yield u -> replay_from u a l = Ok (u', a') -> one_yield u'.
Proof.
  induction l as [|b r IH]; intros u a u' a' Hy Hr.
  - cbn in Hr. inversion Hr; subst. exact Hy.
  - apply replay_from_cons_inv in Hr as (u1 & a1 & Hb & Hr).
    eapply IH; [|exact Hr]. eapply apply_block_one_yield; eauto.
Qed.

Theorem C10_one_yielding_after_chain u a l u' a' :
  replay_from u a l = Ok (u', a') ->
  (l <> [] \/ forall x, count_yielding (utxos_of u x) <= 1) ->
  forall x, count_yielding (utxos_of u' x) <= 1.
Proof.
  intros Hr [Hne|Hy].
  - destruct l as [|b r]; [congruence|].
    apply replay_from_cons_inv in Hr as (u1 & a1 & Hb & Hr).
    eapply replay_one_yield; [|exact Hr]. eapply apply_block_one_yield; eauto.
  - eapply replay_one_yield; eauto.
Qed.

Corollary C10_one_yielding_replay l u a :
  replay l = Ok (u, a) -> forall x, count_yielding (utxos_of u x) <= 1.
Proof. intros Hr. eapply replay_one_yield; [exact one_yield_empty|exact Hr]. Qed.

Lemma commit_loop_one_yield l : forall u a ok u' a' ok',
  one_yield u -> commit_loop u a l ok = (u', a', ok') -> one_yield u'.
Proof.
  induction l as [|b r IH]; intros u a ok u' a' ok' Hy; cbn [commit_loop].
  - intros [= <- _ _]. exact Hy.
  - destruct (update_utxos u (txs b) (b_ts b)) as [u1|e] eqn:E.
    + apply IH. exact (C10_one_yielding_after_block _ _ _ _ E).
    + apply IH. exact Hy.
Qed.

Lemma add_block_raw_one_yield c b c' :
  one_yield (ur c) -> add_block_raw c b = Ok c' -> one_yield (ur c').
Proof.
  intros Hy. unfold add_block_raw. destruct (last_block (chain c)) as [lb|].
  - destruct (apply_block (ur c) (ar c) lb) as [[u1 a1]|e] eqn:E; [|discriminate].
    intros [= <-]. cbn [ur]. eapply apply_block_one_yield; eauto.
  - intros [= <-]. exact Hy.
Qed.

Section ReachYield.
  Variable value_fn : N -> bool -> Z -> N.
  Variable addr_of : string -> string.
  Variable sig_ok : input -> bool.
  Variable H : block -> hash.
  Variable gen_id : slice input -> slice output -> Z -> string.
  Variable S : settings.
  Variable validator : string.

  Notation validate := (Pool.validate value_fn addr_of sig_ok H gen_id S validator).
  Notation pool_add := (Pool.pool_add value_fn addr_of sig_ok S).
  Notation update := (Sync.update value_fn addr_of sig_ok H S).
  Notation step := (Reach.step value_fn addr_of sig_ok H gen_id S validator).
  Notation reach := (Reach.reach value_fn addr_of sig_ok H gen_id S validator).

  Lemma validate_one_yield n ts perm :
    one_yield (ur (n_c n)) -> one_yield (ur (n_c (fst (validate n ts perm)))).
  Proof.
    intros Hy. unfold Pool.validate. cbv zeta.
    destruct (negb (last_block_ts (chain (n_c n)) =? 0)%Z && (last_block_ts (chain (n_c n)) =? ts)%Z);
      [exact Hy|].
    destruct (negb (last_block_ts (chain (n_c n)) =? 0)%Z &&
              (last_block_ts (chain (n_c n)) + s_interval S <? ts)%Z); [exact Hy|].
    destruct (update_utxos (ur (n_c n)) (last_block_txs (chain (n_c n))) (last_block_ts (chain (n_c n))))
      as [u0|e0]; [|exact Hy].
    match goal with
    | |- context [Pool.produce_loop ?a1 ?a2 ?a3 ?a4 ?a5 ?a6 ?a7 ?a8 ?a9 ?a10 ?a11 ?a12] =>
      destruct (Pool.produce_loop a1 a2 a3 a4 a5 a6 a7 a8 a9 a10 a11 a12) as [[[uf kept] dropped] reward]
    end.
    match goal with
    | |- context [add_block ?h ?c ?t ?l ?ad] => destruct (add_block h c t l ad) as [c'|e1] eqn:E1
    end; cbn [fst n_c]; [|exact Hy].
    apply add_block_ok_raw in E1. eapply add_block_raw_one_yield; eauto.
  Qed.

  Lemma commit_input_one_yield st fork sel u0 a0 news :
    one_yield (ur st) -> commit_input st fork sel = (u0, a0, news) -> one_yield u0.
  Proof.
    intros Hy. unfold commit_input. destruct fork; [intros [= <- _ _]; exact one_yield_empty|].
    destruct (Nat.ltb (length (chain st)) (length sel)); intros [= <- _ _]; exact Hy.
  Qed.

  Lemma update_one_yield st now nbs pref :
    one_yield (ur st) -> one_yield (ur (fst (update st now nbs pref))).
  Proof.
    intros Hy. destruct (update st now nbs pref) as [st' rep] eqn:E. cbn [fst].
    apply update_cases in E as [(_ & _ & [[Hu _]|(sel & u0 & a0 & news & _ & _ & _ & Hc & Hl)])
                               |(_ & _ & _ & _ & _ & u0 & a0 & news & Hc & Hl)].
    - rewrite Hu. exact Hy.
    - eapply commit_loop_one_yield; [|exact Hl]. eapply commit_input_one_yield; eauto.
    - eapply commit_loop_one_yield; [|exact Hl]. eapply commit_input_one_yield; eauto.
  Qed.

  Lemma step_one_yield n o : one_yield (ur (n_c n)) -> one_yield (ur (n_c (step n o))).
  Proof.
    intros Hy. destruct o as [ts perm|t|now nbs pref|poh order]; cbn [Reach.step].
    - now apply validate_one_yield.
    - destruct (pool_add n t) as [n'|e] eqn:E; [|exact Hy].
      rewrite (pool_add_node _ _ _ _ _ _ _ E). exact Hy.
    - cbn [n_c]. now apply update_one_yield.
    - exact Hy.
  Qed.

  (* in every state a node reaches, through its own production, admissions, sync rounds with
     arbitrary neighbors and registry refreshes, no address owns two unspent yielding outputs *)
  Theorem C10_reachable_one_yielding n :
    reach n -> forall a, count_yielding (utxos_of (ur (n_c n)) a) <= 1.
  Proof.
    induction 1 as [|n o _ IH _]; [exact one_yield_empty|]. now apply step_one_yield.
  Qed.
End ReachYield.

(* rejection direction *)
Definition yl_two : tx :=
  mkTx "T"%string None (Some [mkOutput "a"%string true 1; mkOutput "a"%string true 2]) 0.
Definition yl_1 : tx := mkTx "T1"%string None (Some [mkOutput "a"%string true 1]) 0.
Definition yl_2 : tx := mkTx "T2"%string None (Some [mkOutput "a"%string true 2]) 0.
Definition yl_3 : tx :=
  mkTx "T3"%string (Some [sp_in 0 "T1"%string]) (Some [mkOutput "a"%string true 1]) 0.

Example C10_two_yielding_one_tx_rejected : update_utxos ureg_empty [yl_two] 0 = Err ETwoIncomes.
Proof. vm_compute. reflexivity. Qed.

Example C10_two_yielding_two_txs_rejected : update_utxos ureg_empty [yl_1; yl_2] 0 = Err ETwoIncomes.
Proof. vm_compute. reflexivity. Qed.

Example C10_two_yielding_across_blocks_rejected :
  exists u, update_utxos ureg_empty [yl_1] 0 = Ok u /\ update_utxos u [yl_2] 5 = Err ETwoIncomes.
Proof. eexists. split; vm_compute; reflexivity. Qed.

Example C10_spent_and_recreated_accepted :
  exists u u', update_utxos ureg_empty [yl_1] 0 = Ok u /\ update_utxos u [yl_3] 5 = Ok u' /\
               count_yielding (utxos_of u' "a"%string) = 1.
Proof. eexists. eexists. split; [vm_compute; reflexivity|]. split; vm_compute; reflexivity. Qed.

(* ------------------------------------------------------------------------- *)
(* 7. C10: yielding outputs go to registered addresses                        *)
(* ------------------------------------------------------------------------- *)
Theorem C10_yield_registered value_fn addr_of sig_ok S c b prev now :
  verify_block value_fn addr_of sig_ok S c b prev now = Ok tt ->
  forall t o, In t (txs b) -> is_reward t = false -> In o (outs t) -> o_yield o = true ->
    In (o_addr o) (elems (b_added b)) \/ is_registered (ar c) (o_addr o) = true.
Proof.
  intros Hv t o Ht Hr Ho Hy. apply verify_block_sound in Hv as (_ & _ & _ & Hall & _).
  rewrite Forall_forall in Hall. destruct (Hall _ Ht Hr) as (_ & _ & Hyo).
  apply (yield_ok_spec addr_of) in Hyo. rewrite Forall_forall in Hyo. now apply Hyo.
Qed.

(* remark: the reward transaction is exempt from that test (blockchain.go:416-420): a block whose
   reward has a yielding output for an unregistered, unlisted address verifies *)
Definition yr_block : block :=
  mkBlock [] None None 5 (Some [mkTx "R"%string None (Some [mkOutput "v"%string true 0]) 5]).

Example C10_reward_yield_unchecked_witness :
  verify_block (fun v _ _ => v) (fun _ => "A"%string) (fun _ => true) ad_S cstate_empty yr_block 0 5 = Ok tt /\
  is_registered (ar cstate_empty) "v"%string = false /\ elems (b_added yr_block) = [].
Proof. vm_compute. repeat split; reflexivity. Qed.

Lemma filter_new_spec ar l a :
  In a (elems (filter_new ar l)) <-> In a l /\ is_registered ar a = false.
Proof.
  unfold filter_new.
  assert (He : elems (match filter (fun a => negb (is_registered ar a)) l with
                      | [] => None | x :: r => Some (x :: r) end)
               = filter (fun a => negb (is_registered ar a)) l).
  { destruct (filter (fun a => negb (is_registered ar a)) l); reflexivity. }
  rewrite He, filter_In, negb_true_iff. reflexivity.
Qed.

Lemma yielding_addrs_In l t o :
  In t l -> In o (outs t) -> o_yield o = true -> In (o_addr o) (yielding_addrs l).
Proof.
  intros Ht Ho Hy. unfold yielding_addrs. apply in_flat_map. exists t. split; [exact Ht|].
  apply in_map. apply filter_In. auto.
Qed.

(* every address an honest producer's block gives a yielding output to (reward included) is
   listed by that block as newly registered, unless it is registered already *)
Theorem C10_producer_lists value_fn addr_of sig_ok H gen_id S validator n ts perm n' d :
  validate value_fn addr_of sig_ok H gen_id S validator n ts perm = (n', Produced d) ->
  exists b, chain (n_c n') = chain (n_c n) ++ [b] /\
    forall t o, In t (txs b) -> In o (outs t) -> o_yield o = true ->
      In (o_addr o) (elems (b_added b)) \/ is_registered (ar (n_c n)) (o_addr o) = true.
Proof.
  intros Hv. apply validate_produced in Hv. cbv zeta in Hv.
  destruct Hv as (kept & reward & u0 & _ & _ & _ & _ & Hch & _ & _ & Htx & _).
  eexists. split; [exact Hch|]. intros t o Ht Ho Hy. rewrite Htx in Ht.
  assert (Hin : In (o_addr o)
                   ((if (last_block_ts (chain (n_c n)) =? 0)%Z then [validator] else []) ++
                    yielding_addrs kept)).
  { apply in_app_iff in Ht as [Ht|[<-|[]]].
    - apply in_app_iff. right. eapply yielding_addrs_In; eauto.
    - cbn in Ho. destruct Ho as [<-|[]]. cbn [o_yield o_addr] in *. rewrite Hy.
      apply in_app_iff. left. now left. }
  destruct (is_registered (ar (n_c n)) (o_addr o)) eqn:Er; [now right|left].
  unfold make_block. cbn [b_added]. apply filter_new_spec. auto.
Qed.

(* ------------------------------------------------------------------------- *)
(* 8. C10: addresses listed as removed                                        *)
(* ------------------------------------------------------------------------- *)
Lemma removed_fold_registered removed : forall ar,
  registered (fold_left (fun r a => mkAreg (set_remove a (registered r)) (remove_addr (pending r) a))
                        removed ar)
  = fold_left (fun l a => set_remove a l) removed (registered ar).
Proof.
  induction removed as [|x r IH]; intros ar; cbn [fold_left]; [reflexivity|].
  rewrite IH. reflexivity.
Qed.

Lemma In_fold_set_remove removed : forall l x,
  In x (fold_left (fun l a => set_remove a l) removed l) <-> In x l /\ ~ In x removed.
Proof.
  induction removed as [|r rs IH]; intros l x; cbn [fold_left In].
  - tauto.
  - rewrite IH. unfold set_remove. rewrite filter_In, negb_true_iff, String.eqb_neq. tauto.
Qed.

Lemma In_set_add a l x : In x (set_add a l) <-> In x l \/ x = a.
Proof.
  unfold set_add. destruct (mem_str a l) eqn:E.
  - apply mem_str_In in E. split; [tauto|]. intros [Hx| ->]; assumption.
  - rewrite in_app_iff. cbn. intuition.
Qed.

Lemma In_fold_set_add added : forall l x,
  In x (fold_left (fun l a => set_add a l) added l) <-> In x l \/ In x added.
Proof.
  induction added as [|r rs IH]; intros l x; cbn [fold_left In].
  - tauto.
  - rewrite IH, In_set_add. intuition.
Qed.

Lemma reg_update_registered_iff ar added removed x :
  In x (registered (reg_update ar added removed)) <->
  (In x (registered ar) /\ ~ In x removed) \/ In x added.
Proof.
  unfold reg_update. cbn [registered].
  rewrite In_fold_set_add, removed_fold_registered, In_fold_set_remove. reflexivity.
Qed.

(* removals are applied first, additions afterwards *)
Theorem C10_removed ar added removed x :
  (In x added -> is_registered (reg_update ar added removed) x = true) /\
  (In x removed -> ~ In x added -> is_registered (reg_update ar added removed) x = false) /\
  (~ In x removed -> ~ In x added ->
   is_registered (reg_update ar added removed) x = is_registered ar x).
Proof.
  unfold is_registered. split; [|split].
  - intros Ha. apply mem_str_In, reg_update_registered_iff. now right.
  - intros Hr Ha. apply mem_str_not_In. rewrite reg_update_registered_iff. tauto.
  - intros Hr Ha. apply eq_iff_eq_true. rewrite !mem_str_In, reg_update_registered_iff. tauto.
Qed.

(* an address in both lists stays (or becomes) registered *)
Example C10_removed_and_added_stays :
  is_registered (reg_update (mkAreg ["a"%string; "b"%string] (Some ["a"%string]))
                            ["a"%string] ["a"%string; "b"%string]) "a"%string = true /\
  is_registered (reg_update (mkAreg ["a"%string; "b"%string] (Some ["a"%string]))
                            ["a"%string] ["a"%string; "b"%string]) "b"%string = false.
Proof. vm_compute. split; reflexivity. Qed.

(* once the block is confirmed (applied to the state), what it lists as removed and not as added
   is not registered; what it lists as added is *)
Theorem C10_removed_after_block u a b u' a' x :
  apply_block u a b = Ok (u', a') ->
  (In x (elems (b_removed b)) -> ~ In x (elems (b_added b)) -> is_registered a' x = false) /\
  (In x (elems (b_added b)) -> is_registered a' x = true).
Proof.
  intros Hb. apply apply_block_inv in Hb as [_ ->].
  destruct (C10_removed a (elems (b_added b)) (elems (b_removed b)) x) as (H1 & H2 & _). auto.
Qed.
