(* Wire_lemmas.v — C15: decoding inverts encoding on well-formed values, decoding only yields
   well-formed values, the transaction id is checked and binds inputs, outputs and timestamp. *)
From Coq Require Import Lia ZArith NArith.
From RV Require Import model.Base model.Json model.Sha256 model.Wire model.WireDec.
Local Open Scope string_scope.

(* ------------------------------------------------------------------ *)
(* generic facts about the decoding combinators                        *)
(* ------------------------------------------------------------------ *)

Lemma bind_ok {A B} (r : res derr A) (f : A -> res derr B) v :
  bind r f = Ok v -> exists a, r = Ok a /\ f a = Ok v.
Proof. destruct r as [a|e]; cbn; intros Hb; [exists a; auto | discriminate]. Qed.

Tactic Notation "bind_inv" hyp(Hb) "as" ident(a) ident(E) ident(Hn) :=
  apply bind_ok in Hb; destruct Hb as (a & E & Hn).

Lemma dec_seq_single {A} (dec : A -> json -> res derr A) j init :
  dec_seq dec [j] init = dec init j.
Proof. cbn. destruct (dec init j); reflexivity. Qed.

Lemma dec_seq_inv {A} (P : A -> Prop) (dec : A -> json -> res derr A) l :
  (forall cur j v, P cur -> dec cur j = Ok v -> P v) ->
  forall init v, P init -> dec_seq dec l init = Ok v -> P v.
Proof.
  intros Hstep. induction l as [|j r IH]; cbn; intros init v Hi Hd.
  - injection Hd as <-. exact Hi.
  - destruct (dec init j) as [a|e] eqn:E; [|discriminate].
    eapply IH; [eapply Hstep; eauto | exact Hd].
Qed.

Lemma map_res_ok {A B} (f : A -> res derr B) (Q : B -> Prop) :
  (forall a b, f a = Ok b -> Q b) ->
  forall l l', map_res f l = Ok l' -> Forall Q l'.
Proof.
  intros Hf. induction l as [|a r IH]; cbn; intros l' Hm.
  - injection Hm as <-. constructor.
  - destruct (f a) as [b|e] eqn:E; [|discriminate].
    destruct (map_res f r) as [bs|e] eqn:E2; [|discriminate].
    injection Hm as <-. constructor; eauto.
Qed.

Lemma all_some_ok {A} (l : list (option A)) l' : all_some l = Ok l' -> l = map Some l'.
Proof.
  revert l'. induction l as [|[a|] r IH]; cbn; intros l' Ha.
  - injection Ha as <-. reflexivity.
  - destruct (all_some r) as [x|e] eqn:E; [|discriminate]. injection Ha as <-.
    cbn. f_equal. apply IH. reflexivity.
  - discriminate.
Qed.

Lemma all_some_map {A} (l : list A) : all_some (map Some l) = Ok l.
Proof. induction l as [|a r IH]; cbn; [reflexivity | rewrite IH; reflexivity]. Qed.

Lemma no_nulls_map {A} (s : slice A) : no_nulls (option_map (map Some) s) = Ok s.
Proof. destruct s as [l|]; cbn; [rewrite all_some_map|]; reflexivity. Qed.

(* what no_nulls keeps of a per-element property *)
Definition opt_all {A} (P : A -> Prop) (s : slice (option A)) : Prop :=
  Forall (fun x => match x with Some a => P a | None => True end) (elems s).

Lemma no_nulls_ok {A} (P : A -> Prop) (s : slice (option A)) s' :
  opt_all P s -> no_nulls s = Ok s' -> Forall P (elems s').
Proof.
  unfold opt_all. destruct s as [l|]; cbn; intros Hall Hn.
  - destruct (all_some l) as [x|e] eqn:E; [|discriminate]. injection Hn as <-. cbn.
    apply all_some_ok in E. subst l. clear -Hall.
    induction x as [|a r IH]; cbn in *; [constructor|].
    inversion Hall; subst. constructor; auto.
  - injection Hn as <-. constructor.
Qed.

Lemma dec_slice_ptr_ok {A} (um : json -> res derr A) (P : A -> Prop) :
  (forall j a, um j = Ok a -> P a) ->
  forall cur j v, opt_all P cur -> dec_slice (dec_ptr um) cur j = Ok v -> opt_all P v.
Proof.
  intros Hum cur j v _ Hd. unfold opt_all. destruct j; cbn in Hd; try discriminate.
  - injection Hd as <-. constructor.
  - destruct (map_res (dec_ptr um) l) as [x|e] eqn:E; [|discriminate]. injection Hd as <-. cbn.
    eapply map_res_ok; [|exact E]. intros j [b|] Hp; [|exact I].
    unfold dec_ptr in Hp. destruct j; try discriminate;
      match type of Hp with match um ?t with _ => _ end = _ =>
        destruct (um t) as [a0|e0] eqn:E0; [|discriminate]; injection Hp as <-; eapply Hum; exact E0 end.
Qed.

Lemma dec_slice_ptr_rt {A} (um : json -> res derr A) (m : A -> json) (P : A -> Prop) :
  (forall a, P a -> um (m a) = Ok a) -> (forall a, m a <> JNull) ->
  forall s cur, Forall P (elems s) ->
    dec_slice (dec_ptr um) cur (jslice m s) = Ok (option_map (map Some) s).
Proof.
  intros Hrt Hnn [l|] cur Hall; cbn; [|reflexivity].
  assert (Hm : map_res (dec_ptr um) (map m l) = Ok (map Some l)).
  { cbn in Hall. induction l as [|a r IH]; cbn; [reflexivity|].
    inversion Hall; subst.
    assert (Hp : dec_ptr um (m a) = Ok (Some a)).
    { unfold dec_ptr. specialize (Hnn a). destruct (m a) eqn:Em; try congruence;
        rewrite <- Em, Hrt by assumption; reflexivity. }
    rewrite Hp, IH by assumption. reflexivity. }
  rewrite Hm. reflexivity.
Qed.

(* ------------------------------------------------------------------ *)
(* scalars                                                             *)
(* ------------------------------------------------------------------ *)

Definition in_i64 (z : Z) : Prop := (i64_min <= z < i64_max1)%Z.

Lemma dec_uint_rt bound cur n : (Z.of_N n < bound)%Z -> dec_uint bound cur (JNum (Z.of_N n)) = Ok n.
Proof.
  intros Hn. unfold dec_uint.
  replace ((0 <=? Z.of_N n)%Z && (Z.of_N n <? bound)%Z) with true.
  - rewrite N2Z.id. reflexivity.
  - symmetry. apply andb_true_intro. split; [apply Z.leb_le; lia | apply Z.ltb_lt; exact Hn].
Qed.

Lemma dec_uint_ok bound cur j v :
  (Z.of_N cur < bound)%Z -> dec_uint bound cur j = Ok v -> (Z.of_N v < bound)%Z.
Proof.
  intros Hc Hd. destruct j; cbn in Hd; try discriminate.
  - injection Hd as <-. exact Hc.
  - destruct ((0 <=? z)%Z && (z <? bound)%Z) eqn:E; [|discriminate]. injection Hd as <-.
    apply andb_prop in E. destruct E as [E1 E2]. apply Z.leb_le in E1. apply Z.ltb_lt in E2.
    rewrite Z2N.id; assumption.
Qed.

Lemma dec_i64_rt cur z : in_i64 z -> dec_i64 cur (JNum z) = Ok z.
Proof.
  intros [H1 H2]. unfold dec_i64.
  replace ((i64_min <=? z)%Z && (z <? i64_max1)%Z) with true; [reflexivity|].
  symmetry. apply andb_true_intro. split; [apply Z.leb_le | apply Z.ltb_lt]; assumption.
Qed.

Lemma dec_i64_ok cur j v : in_i64 cur -> dec_i64 cur j = Ok v -> in_i64 v.
Proof.
  intros Hc Hd. destruct j; cbn in Hd; try discriminate.
  - injection Hd as <-. exact Hc.
  - destruct ((i64_min <=? z)%Z && (z <? i64_max1)%Z) eqn:E; [|discriminate]. injection Hd as <-.
    apply andb_prop in E. destruct E as [E1 E2]. apply Z.leb_le in E1. apply Z.ltb_lt in E2.
    split; assumption.
  - destruct (String.eqb lit "-0"); [|discriminate]. injection Hd as <-.
    unfold in_i64, i64_min, i64_max1. lia.
Qed.

Lemma in_i64_0 : in_i64 0.
Proof. unfold in_i64, i64_min, i64_max1. lia. Qed.

Lemma field_uint_ok bound name fs v :
  (0 < bound)%Z -> dec_field (dec_uint bound) name fs 0%N = Ok v -> (Z.of_N v < bound)%Z.
Proof.
  intros Hb Hd. unfold dec_field in Hd.
  eapply (dec_seq_inv (fun n => (Z.of_N n < bound)%Z)); [| |exact Hd].
  - intros cur j w. apply dec_uint_ok.
  - exact Hb.
Qed.

Lemma field_i64_ok name fs v : dec_field dec_i64 name fs 0%Z = Ok v -> in_i64 v.
Proof.
  intros Hd. unfold dec_field in Hd.
  eapply (dec_seq_inv in_i64); [| |exact Hd].
  - intros cur j w. apply dec_i64_ok.
  - exact in_i64_0.
Qed.

(* ------------------------------------------------------------------ *)
(* hex, signatures, keys                                               *)
(* ------------------------------------------------------------------ *)

Lemma lower_hex_char_idem0 c :
  match lower_hex_char c with Some d => lower_hex_char d = Some d | None => True end.
Proof.
  destruct c as [[|] [|] [|] [|] [|] [|] [|] [|]]; vm_compute; first [exact I | reflexivity].
Qed.

Lemma lower_hex_char_idem c d : lower_hex_char c = Some d -> lower_hex_char d = Some d.
Proof. intros Hc. pose proof (lower_hex_char_idem0 c) as Hi. rewrite Hc in Hi. exact Hi. Qed.

Lemma lower_hex_idem s h : lower_hex s = Some h -> lower_hex h = Some h.
Proof.
  revert h. induction s as [|c r IH]; cbn; intros h Hs.
  - injection Hs as <-. reflexivity.
  - destruct (lower_hex_char c) as [c'|] eqn:Ec; [|discriminate].
    destruct (lower_hex r) as [r'|] eqn:Er; [|discriminate].
    injection Hs as <-. cbn. rewrite (lower_hex_char_idem _ _ Ec), (IH _ eq_refl). reflexivity.
Qed.

Definition wf_sig (s : string) : Prop := lower_hex s = Some s /\ String.length s = 128%nat.

Lemma dec_sig_rt s : wf_sig s -> dec_sig s = Ok s.
Proof. intros [Hh Hl]. unfold dec_sig. rewrite Hh, Hl. reflexivity. Qed.

Lemma dec_sig_ok s v : dec_sig s = Ok v -> wf_sig v.
Proof.
  unfold dec_sig. destruct (lower_hex s) as [h|] eqn:E; [|discriminate].
  destruct (String.length h =? 128)%nat eqn:El; [|discriminate]. intros Hd. injection Hd as <-.
  split; [eapply lower_hex_idem; exact E | apply Nat.eqb_eq; exact El].
Qed.

Section Oracles.
Variable on_curve : string -> bool.
Variable H : list N -> list N.

Definition wf_key (k : string) : Prop :=
  exists h, k = String "0" (String "x" h) /\ lower_hex h = Some h /\
            String.length h = 130%nat /\ starts_04 h = true /\ on_curve h = true.

Lemma dec_pubkey_rt k : wf_key k -> dec_pubkey on_curve k = Ok k.
Proof.
  intros (h & -> & Hh & Hl & H4 & Hc). unfold dec_pubkey.
  cbn [Ascii.eqb Bool.eqb andb orb]. rewrite Hh, Hl, H4, Hc. reflexivity.
Qed.

Lemma dec_pubkey_ok s k : dec_pubkey on_curve s = Ok k -> wf_key k.
Proof.
  unfold dec_pubkey. destruct s as [|a [|b r]]; try discriminate.
  destruct (Ascii.eqb a "0" && (Ascii.eqb b "x" || Ascii.eqb b "X")); [|discriminate].
  destruct (lower_hex r) as [h|] eqn:E; [|discriminate].
  destruct ((String.length h =? 130)%nat && starts_04 h && on_curve h) eqn:Ec; [|discriminate].
  intros Hd. injection Hd as <-.
  apply andb_prop in Ec. destruct Ec as [Ec Hc]. apply andb_prop in Ec. destruct Ec as [Hl H4].
  exists h. repeat split; auto.
  - eapply lower_hex_idem; exact E.
  - apply Nat.eqb_eq; exact Hl.
Qed.

(* ------------------------------------------------------------------ *)
(* well-formed values                                                  *)
(* ------------------------------------------------------------------ *)

Definition wf_output (o : output) : Prop := (o_val o < two64)%N.
Definition wf_input_info (p : N * string) : Prop := (fst p < 65536)%N.
Definition wf_input (i : input) : Prop :=
  (i_idx i < 65536)%N /\ wf_key (i_key i) /\ wf_sig (i_sig i).
Definition wf_utxo (u : utxo) : Prop :=
  (u_idx u < 65536)%N /\ wf_output (u_out u) /\ in_i64 (u_ts u).

(* transaction.go:63-71: at least one output, and exactly one when there is no input *)
Definition wf_shape (i : slice input) (o : slice output) : Prop :=
  elems o <> [] /\ (elems i = [] -> length (elems o) = 1%nat).

Definition wf_idbody (i : slice input) (o : slice output) (ts : Z) : Prop :=
  Forall wf_input (elems i) /\ Forall wf_output (elems o) /\ in_i64 ts.

Definition wf_tx (t : tx) : Prop :=
  wf_idbody (t_ins t) (t_outs t) (t_ts t) /\
  t_id t = gen_id H (t_ins t) (t_outs t) (t_ts t) /\
  wf_shape (t_ins t) (t_outs t).

Definition wf_block (b : block) : Prop :=
  length (b_prev b) = 32%nat /\ Forall (fun x => (x < 256)%N) (b_prev b) /\
  in_i64 (b_ts b) /\ Forall wf_tx (txs b).

Lemma tx_shape_iff i o : tx_shape i o = Ok tt <-> wf_shape i o.
Proof.
  unfold tx_shape, wf_shape. destruct (elems o) as [|o1 [|o2 r]], (elems i) as [|i1 r'];
    cbn; split; try discriminate; try (intros _; split; [discriminate|]; auto; try discriminate);
    try reflexivity.
  - intros [Hn _]. congruence.
  - intros [Hn _]. congruence.
  - intros [_ Hl]. specialize (Hl eq_refl). discriminate.
Qed.

(* ------------------------------------------------------------------ *)
(* the marshalers' own key lists: every key is found exactly once      *)
(* ------------------------------------------------------------------ *)

Lemma gf_out a b c :
  let fs := [("address", a); ("is_yielding", b); ("value", c)] in
  get_fields "address" fs = [a] /\ get_fields "is_yielding" fs = [b] /\ get_fields "value" fs = [c].
Proof. repeat split. Qed.

Lemma gf_info a b :
  let fs := [("output_index", a); ("transaction_id", b)] in
  get_fields "output_index" fs = [a] /\ get_fields "transaction_id" fs = [b].
Proof. repeat split. Qed.

Lemma gf_in a b c d :
  let fs := [("output_index", a); ("transaction_id", b); ("public_key", c); ("signature", d)] in
  get_fields "output_index" fs = [a] /\ get_fields "transaction_id" fs = [b] /\
  get_fields "public_key" fs = [c] /\ get_fields "signature" fs = [d].
Proof. repeat split. Qed.

Lemma gf_utxo a b c d e f :
  let fs := [("address", a); ("timestamp", b); ("is_yielding", c); ("output_index", d);
             ("transaction_id", e); ("value", f)] in
  get_fields "address" fs = [a] /\ get_fields "timestamp" fs = [b] /\
  get_fields "is_yielding" fs = [c] /\ get_fields "output_index" fs = [d] /\
  get_fields "transaction_id" fs = [e] /\ get_fields "value" fs = [f].
Proof. repeat split. Qed.

Lemma gf_tx a b c d :
  let fs := [("id", a); ("inputs", b); ("outputs", c); ("timestamp", d)] in
  get_fields "id" fs = [a] /\ get_fields "inputs" fs = [b] /\
  get_fields "outputs" fs = [c] /\ get_fields "timestamp" fs = [d].
Proof. repeat split. Qed.

Lemma gf_block a b c d e :
  let fs := [("previous_hash", a); ("added_registered_addresses", b);
             ("removed_registered_addresses", c); ("timestamp", d); ("transactions", e)] in
  get_fields "previous_hash" fs = [a] /\ get_fields "added_registered_addresses" fs = [b] /\
  get_fields "removed_registered_addresses" fs = [c] /\ get_fields "timestamp" fs = [d] /\
  get_fields "transactions" fs = [e].
Proof. repeat split. Qed.

Lemma gf_req a b :
  let fs := [("Transaction", a); ("TransactionBroadcasterTarget", b)] in
  get_fields "Transaction" fs = [a] /\ get_fields "TransactionBroadcasterTarget" fs = [b].
Proof. repeat split. Qed.

Lemma u64_two64 n : (n < two64)%N <-> (Z.of_N n < u64_bound)%Z.
Proof. unfold two64, u64_bound. lia. Qed.

Lemma u16_bound n : (n < 65536)%N <-> (Z.of_N n < 65536)%Z.
Proof. lia. Qed.

(* ------------------------------------------------------------------ *)
(* round trips                                                         *)
(* ------------------------------------------------------------------ *)

Theorem C15_roundtrip_output o : wf_output o -> unmarshal_output (marshal_output o) = Ok o.
Proof.
  intros Ho. unfold unmarshal_output, marshal_output, dec_field.
  destruct (gf_out (JStr (o_addr o)) (JBool (o_yield o)) (JNum (Z.of_N (o_val o)))) as (E1 & E2 & E3).
  rewrite E1, E2, E3, !dec_seq_single. cbn [dec_str dec_bool bind].
  rewrite dec_uint_rt by (apply u64_two64; exact Ho). cbn [bind]. destruct o; reflexivity.
Qed.

Theorem C15_roundtrip_input_info p :
  wf_input_info p -> unmarshal_input_info (marshal_input_info (fst p) (snd p)) = Ok p.
Proof.
  intros Hp. unfold unmarshal_input_info, marshal_input_info, dec_field.
  destruct (gf_info (JNum (Z.of_N (fst p))) (JStr (snd p))) as (E1 & E2).
  rewrite E1, E2, !dec_seq_single.
  rewrite dec_uint_rt by (apply u16_bound; exact Hp). cbn [dec_str bind]. destruct p; reflexivity.
Qed.

Theorem C15_roundtrip_input i :
  wf_input i -> unmarshal_input on_curve (marshal_input i) = Ok i.
Proof.
  intros (Hi & Hk & Hs). unfold unmarshal_input, marshal_input, dec_field.
  destruct (gf_in (JNum (Z.of_N (i_idx i))) (JStr (i_ref i)) (JStr (i_key i)) (JStr (i_sig i)))
    as (E1 & E2 & E3 & E4).
  rewrite E1, E2, E3, E4, !dec_seq_single.
  rewrite dec_uint_rt by (apply u16_bound; exact Hi). cbn [dec_str bind].
  rewrite dec_pubkey_rt by exact Hk. cbn [bind].
  rewrite dec_sig_rt by exact Hs. cbn [bind]. destruct i; reflexivity.
Qed.

Theorem C15_roundtrip_utxo u : wf_utxo u -> unmarshal_utxo (marshal_utxo u) = Ok u.
Proof.
  intros (Hi & Ho & Ht). unfold unmarshal_utxo, marshal_utxo, dec_field.
  destruct (gf_utxo (JStr (o_addr (u_out u))) (JNum (u_ts u)) (JBool (o_yield (u_out u)))
              (JNum (Z.of_N (u_idx u))) (JStr (u_ref u)) (JNum (Z.of_N (o_val (u_out u)))))
    as (E1 & E2 & E3 & E4 & E5 & E6).
  rewrite E1, E2, E3, E4, E5, E6, !dec_seq_single.
  cbn [dec_str dec_bool bind].
  rewrite dec_i64_rt by exact Ht. cbn [bind].
  rewrite dec_uint_rt by (apply u16_bound; exact Hi). cbn [bind].
  rewrite dec_uint_rt by (apply u64_two64; exact Ho). cbn [bind].
  destruct u as [r i [a y v] t]; reflexivity.
Qed.

Lemma marshal_input_nn i : marshal_input i <> JNull.
Proof. discriminate. Qed.
Lemma marshal_output_nn o : marshal_output o <> JNull.
Proof. discriminate. Qed.
Lemma marshal_tx_nn t : marshal_tx t <> JNull.
Proof. discriminate. Qed.

Theorem C15_roundtrip_tx t : wf_tx t -> unmarshal_tx on_curve H (marshal_tx t) = Ok t.
Proof.
  intros ((Hi & Ho & Hts) & Hid & Hsh). unfold unmarshal_tx, marshal_tx, dec_field.
  destruct (gf_tx (JStr (t_id t)) (jslice marshal_input (t_ins t))
              (jslice marshal_output (t_outs t)) (JNum (t_ts t))) as (E1 & E2 & E3 & E4).
  rewrite E1, E2, E3, E4, !dec_seq_single. cbn [dec_str bind].
  rewrite (dec_slice_ptr_rt (unmarshal_input on_curve) marshal_input wf_input
             C15_roundtrip_input marshal_input_nn) by exact Hi. cbn [bind].
  rewrite (dec_slice_ptr_rt unmarshal_output marshal_output wf_output
             C15_roundtrip_output marshal_output_nn) by exact Ho. cbn [bind].
  rewrite dec_i64_rt by exact Hts. cbn [bind].
  rewrite !no_nulls_map. cbn [bind].
  rewrite <- Hid, String.eqb_refl. cbn [negb].
  apply tx_shape_iff in Hsh. rewrite Hsh. cbn [bind]. destruct t; reflexivity.
Qed.

Lemma dec_arr_u8_rt p : Forall (fun x => (x < 256)%N) p ->
  forall cur, dec_arr_u8 (length p) cur (map (fun n => JNum (Z.of_N n)) p) = Ok p.
Proof.
  induction 1 as [|x r Hx Hr IH]; intros cur; cbn [length map dec_arr_u8]; [reflexivity|].
  rewrite dec_uint_rt by lia. rewrite IH. reflexivity.
Qed.

Lemma dec_elems_str_rt l : forall cur, dec_elems dec_str "" cur (map JStr l) = Ok l.
Proof.
  induction l as [|s r IH]; intros cur; cbn; [reflexivity|]. rewrite IH. reflexivity.
Qed.

Lemma dec_strs_rt s cur : dec_strs cur (jslice JStr s) = Ok s.
Proof. destruct s as [l|]; cbn; [rewrite dec_elems_str_rt|]; reflexivity. Qed.

Theorem C15_roundtrip_block b : wf_block b -> unmarshal_block on_curve H (marshal_block b) = Ok b.
Proof.
  intros (Hl & Hp & Hts & Htx). unfold unmarshal_block, marshal_block, dec_field.
  destruct (gf_block (JArr (map (fun n => JNum (Z.of_N n)) (b_prev b))) (jslice JStr (b_added b))
              (jslice JStr (b_removed b)) (JNum (b_ts b)) (jslice marshal_tx (b_txs b)))
    as (E1 & E2 & E3 & E4 & E5).
  rewrite E1, E2, E3, E4, E5, !dec_seq_single.
  cbn [dec_hash]. rewrite <- Hl, dec_arr_u8_rt by exact Hp. cbn [bind].
  rewrite !dec_strs_rt. cbn [bind].
  rewrite dec_i64_rt by exact Hts. cbn [bind].
  rewrite (dec_slice_ptr_rt (unmarshal_tx on_curve H) marshal_tx wf_tx
             C15_roundtrip_tx marshal_tx_nn) by exact Htx. cbn [bind].
  rewrite no_nulls_map. cbn [bind]. destruct b; reflexivity.
Qed.

Theorem C15_roundtrip_request t g :
  match t with Some x => wf_tx x | None => True end ->
  unmarshal_request on_curve H (marshal_request t g) = Ok (t, g).
Proof.
  intros Ht. unfold unmarshal_request, marshal_request, dec_field.
  destruct (gf_req (match t with None => JNull | Some t => marshal_tx t end) (JStr g)) as (E1 & E2).
  rewrite E1, E2, !dec_seq_single. destruct t as [x|].
  - unfold dec_ptr. change (marshal_tx x) with (JObj [("id", JStr (t_id x));
      ("inputs", jslice marshal_input (t_ins x)); ("outputs", jslice marshal_output (t_outs x));
      ("timestamp", JNum (t_ts x))]) at 1.
    cbv iota. change (JObj _) with (marshal_tx x). rewrite C15_roundtrip_tx by exact Ht.
    reflexivity.
  - reflexivity.
Qed.

Theorem C15_roundtrip_blocks l :
  Forall (fun x => match x with Some b => wf_block b | None => True end) l ->
  unmarshal_blocks on_curve H
    (JArr (map (fun x => match x with Some b => marshal_block b | None => JNull end) l)) = Ok l.
Proof.
  intros Hl. unfold unmarshal_blocks. induction Hl as [|x r Hx Hr IH]; cbn [map map_res]; [reflexivity|].
  rewrite IH. destruct x as [b|].
  - unfold dec_ptr. unfold marshal_block at 1. cbv iota. fold (marshal_block b).
    rewrite C15_roundtrip_block by exact Hx. reflexivity.
  - reflexivity.
Qed.

(* ------------------------------------------------------------------ *)
(* decoding only yields well-formed values                             *)
(* ------------------------------------------------------------------ *)

Theorem C15_decode_wf_output j o : unmarshal_output j = Ok o -> wf_output o.
Proof.
  unfold unmarshal_output. destruct j; try discriminate. intros Hb.
  bind_inv Hb as a E Hb0. bind_inv Hb0 as a0 E0 Hb1. bind_inv Hb1 as a1 E1 Hb2. injection Hb2 as <-.
  unfold wf_output. cbn. apply u64_two64. eapply field_uint_ok; [|exact E1]. reflexivity.
Qed.

Theorem C15_decode_wf_input_info j p : unmarshal_input_info j = Ok p -> wf_input_info p.
Proof.
  unfold unmarshal_input_info. destruct j; try discriminate. intros Hb.
  bind_inv Hb as a E Hb0. bind_inv Hb0 as a0 E0 Hb1. injection Hb1 as <-.
  unfold wf_input_info. cbn. apply u16_bound. eapply field_uint_ok; [|exact E]. reflexivity.
Qed.

Theorem C15_decode_wf_input j i : unmarshal_input on_curve j = Ok i -> wf_input i.
Proof.
  unfold unmarshal_input. destruct j; try discriminate. intros Hb.
  bind_inv Hb as a E Hb0. bind_inv Hb0 as a0 E0 Hb1. bind_inv Hb1 as a1 E1 Hb2. bind_inv Hb2 as a2 E2 Hb3. bind_inv Hb3 as a3 E3 Hb4. bind_inv Hb4 as a4 E4 Hb5.
  injection Hb5 as <-. unfold wf_input. cbn. repeat split.
  - apply u16_bound. eapply field_uint_ok; [|exact E]. reflexivity.
  - eapply dec_pubkey_ok; exact E3.
  - eapply dec_sig_ok; exact E4.
  - eapply dec_sig_ok; exact E4.
Qed.

Theorem C15_decode_wf_utxo j u : unmarshal_utxo j = Ok u -> wf_utxo u.
Proof.
  unfold unmarshal_utxo. destruct j; try discriminate. intros Hb.
  bind_inv Hb as a E Hb0. bind_inv Hb0 as a0 E0 Hb1. bind_inv Hb1 as a1 E1 Hb2. bind_inv Hb2 as a2 E2 Hb3. bind_inv Hb3 as a3 E3 Hb4. bind_inv Hb4 as a4 E4 Hb5.
  injection Hb5 as <-. unfold wf_utxo, wf_output. cbn. repeat split.
  - apply u16_bound. eapply field_uint_ok; [|exact E2]. reflexivity.
  - apply u64_two64. eapply field_uint_ok; [|exact E4]. reflexivity.
  - eapply field_i64_ok; exact E0.
  - eapply field_i64_ok; exact E0.
Qed.

Lemma field_slice_ptr_ok {A} (um : json -> res derr A) (P : A -> Prop) name fs v :
  (forall j a, um j = Ok a -> P a) ->
  dec_field (dec_slice (dec_ptr um)) name fs None = Ok v -> opt_all P v.
Proof.
  intros Hum Hd. unfold dec_field in Hd.
  eapply (dec_seq_inv (opt_all P)); [| |exact Hd].
  - apply dec_slice_ptr_ok. exact Hum.
  - constructor.
Qed.

Theorem C15_decode_wf_tx j t : unmarshal_tx on_curve H j = Ok t -> wf_tx t.
Proof.
  unfold unmarshal_tx. destruct j; try discriminate. intros Hb.
  bind_inv Hb as a E Hb0. bind_inv Hb0 as a0 E0 Hb1. bind_inv Hb1 as a1 E1 Hb2. bind_inv Hb2 as a2 E2 Hb3. bind_inv Hb3 as a3 E3 Hb4. bind_inv Hb4 as a4 E4 Hb5.
  destruct (negb (String.eqb (gen_id H a3 a4 a2) a)) eqn:Eid; [discriminate|].
  bind_inv Hb5 as a5 E5 Hb6. injection Hb6 as <-. destruct a5.
  apply negb_false_iff, String.eqb_eq in Eid.
  unfold wf_tx, wf_idbody. cbn. repeat split.
  - eapply no_nulls_ok; [|exact E3]. eapply field_slice_ptr_ok; [|exact E0].
    exact C15_decode_wf_input.
  - eapply no_nulls_ok; [|exact E4]. eapply field_slice_ptr_ok; [|exact E1].
    exact C15_decode_wf_output.
  - eapply field_i64_ok; exact E2.
  - eapply field_i64_ok; exact E2.
  - symmetry. exact Eid.
  - apply tx_shape_iff in E5. apply E5.
  - apply tx_shape_iff in E5. apply E5.
Qed.

Lemma dec_arr_u8_ok n : forall cur l p,
  Forall (fun x => (x < 256)%N) cur -> dec_arr_u8 n cur l = Ok p ->
  length p = n /\ Forall (fun x => (x < 256)%N) p.
Proof.
  induction n as [|n IH]; intros cur l p Hc Hd.
  - cbn in Hd. injection Hd as <-. split; [reflexivity | constructor].
  - cbn [dec_arr_u8] in Hd. destruct l as [|j r].
    + injection Hd as <-. change (0%N :: repeat 0%N n) with (repeat 0%N (S n)).
      split; [apply repeat_length|].
      apply Forall_forall. intros x Hx. apply repeat_spec in Hx. subst x. lia.
    + destruct (dec_uint 256 (hd 0%N cur) j) as [b|e] eqn:Eb; [|discriminate].
      destruct (dec_arr_u8 n (tl cur) r) as [bs|e] eqn:Ebs; [|discriminate].
      injection Hd as <-.
      assert (Hh : (hd 0%N cur < 256)%N) by (destruct cur; cbn; [lia | inversion Hc; assumption]).
      assert (Ht : Forall (fun x => (x < 256)%N) (tl cur))
        by (destruct cur; cbn; [constructor | inversion Hc; assumption]).
      destruct (IH _ _ _ Ht Ebs) as [Hl Hf]. split; [cbn; lia|].
      constructor; [|exact Hf].
      apply (dec_uint_ok 256 (hd 0%N cur) j b) in Eb; lia.
Qed.

Theorem C15_decode_wf_block j b : unmarshal_block on_curve H j = Ok b -> wf_block b.
Proof.
  unfold unmarshal_block. destruct j; try discriminate. intros Hb.
  bind_inv Hb as a E Hb0. bind_inv Hb0 as a0 E0 Hb1. bind_inv Hb1 as a1 E1 Hb2. bind_inv Hb2 as a2 E2 Hb3. bind_inv Hb3 as a3 E3 Hb4. bind_inv Hb4 as a4 E4 Hb5.
  injection Hb5 as <-. unfold wf_block, txs. cbn.
  assert (Hp : length a = 32%nat /\ Forall (fun x => (x < 256)%N) a).
  { unfold dec_field in E.
    eapply (dec_seq_inv (fun p => length p = 32%nat /\ Forall (fun x => (x < 256)%N) p)); [| |exact E].
    - intros cur j v [Hl Hf] Hd. destruct j; cbn in Hd; try discriminate.
      + injection Hd as <-. split; assumption.
      + eapply dec_arr_u8_ok; eassumption.
    - split; [reflexivity|]. apply Forall_forall. intros x Hx. apply repeat_spec in Hx. subst x. lia. }
  destruct Hp as [Hl Hf]. repeat split; try assumption.
  - eapply field_i64_ok; exact E2.
  - eapply field_i64_ok; exact E2.
  - eapply no_nulls_ok; [|exact E4]. eapply field_slice_ptr_ok; [|exact E3].
    exact C15_decode_wf_tx.
Qed.

(* ------------------------------------------------------------------ *)
(* byte stability: decode ; encode ; decode = decode                    *)
(* ------------------------------------------------------------------ *)

Theorem C15_stable_output j o :
  unmarshal_output j = Ok o -> unmarshal_output (marshal_output o) = Ok o.
Proof. intros Hd. apply C15_roundtrip_output. eapply C15_decode_wf_output; exact Hd. Qed.

Theorem C15_stable_input j i :
  unmarshal_input on_curve j = Ok i -> unmarshal_input on_curve (marshal_input i) = Ok i.
Proof. intros Hd. apply C15_roundtrip_input. eapply C15_decode_wf_input; exact Hd. Qed.

Theorem C15_stable_utxo j u :
  unmarshal_utxo j = Ok u -> unmarshal_utxo (marshal_utxo u) = Ok u.
Proof. intros Hd. apply C15_roundtrip_utxo. eapply C15_decode_wf_utxo; exact Hd. Qed.

Theorem C15_stable_tx j t :
  unmarshal_tx on_curve H j = Ok t -> unmarshal_tx on_curve H (marshal_tx t) = Ok t.
Proof. intros Hd. apply C15_roundtrip_tx. eapply C15_decode_wf_tx; exact Hd. Qed.

Theorem C15_stable_block j b :
  unmarshal_block on_curve H j = Ok b -> unmarshal_block on_curve H (marshal_block b) = Ok b.
Proof. intros Hd. apply C15_roundtrip_block. eapply C15_decode_wf_block; exact Hd. Qed.

(* the bytes a node re-serves after decoding are a fixpoint of decode-then-encode *)
Theorem C15_stable_bytes_tx j t t' :
  unmarshal_tx on_curve H j = Ok t -> unmarshal_tx on_curve H (marshal_tx t) = Ok t' ->
  render (marshal_tx t') = render (marshal_tx t).
Proof. intros Hd Hd'. rewrite (C15_stable_tx _ _ Hd) in Hd'. injection Hd' as <-. reflexivity. Qed.

Theorem C15_stable_bytes_block j b b' :
  unmarshal_block on_curve H j = Ok b -> unmarshal_block on_curve H (marshal_block b) = Ok b' ->
  render (marshal_block b') = render (marshal_block b).
Proof. intros Hd Hd'. rewrite (C15_stable_block _ _ Hd) in Hd'. injection Hd' as <-. reflexivity. Qed.

(* the receiver computes the same block hash as the sender (any hash of the rendering) *)
Theorem C15_same_hash b b' :
  wf_block b -> unmarshal_block on_curve H (marshal_block b) = Ok b' ->
  H (bytes_of_string (render (marshal_block b'))) = H (bytes_of_string (render (marshal_block b))).
Proof. intros Hw Hd. rewrite (C15_roundtrip_block _ Hw) in Hd. injection Hd as <-. reflexivity. Qed.

(* ------------------------------------------------------------------ *)
(* the id is checked; what the decoder establishes for later code      *)
(* ------------------------------------------------------------------ *)

Theorem C15_id_checked j t :
  unmarshal_tx on_curve H j = Ok t -> t_id t = gen_id H (t_ins t) (t_outs t) (t_ts t).
Proof. intros Hd. apply C15_decode_wf_tx in Hd. apply Hd. Qed.

Theorem C15_wrong_id_rejected fs id i0 o0 ts i o :
  dec_field dec_str "id" fs "" = Ok id ->
  dec_field (dec_slice (dec_ptr (unmarshal_input on_curve))) "inputs" fs None = Ok i0 ->
  dec_field (dec_slice (dec_ptr unmarshal_output)) "outputs" fs None = Ok o0 ->
  dec_field dec_i64 "timestamp" fs 0%Z = Ok ts ->
  no_nulls i0 = Ok i -> no_nulls o0 = Ok o ->
  id <> gen_id H i o ts ->
  unmarshal_tx on_curve H (JObj fs) = Err DWrongId.
Proof.
  intros E1 E2 E3 E4 E5 E6 Hne. unfold unmarshal_tx.
  rewrite E1; cbn [bind]. rewrite E2; cbn [bind]. rewrite E3; cbn [bind].
  rewrite E4; cbn [bind]. rewrite E5; cbn [bind]. rewrite E6; cbn [bind].
  destruct (String.eqb (gen_id H i o ts) id) eqn:Eq; [|reflexivity].
  apply String.eqb_eq in Eq. congruence.
Qed.

Theorem unmarshal_tx_nonempty j t : unmarshal_tx on_curve H j = Ok t -> outs t <> [].
Proof. intros Hd. apply C15_decode_wf_tx in Hd. destruct Hd as (_ & _ & Hs & _). exact Hs. Qed.

Theorem unmarshal_tx_reward_single j t :
  unmarshal_tx on_curve H j = Ok t -> ins t = [] -> length (outs t) = 1%nat.
Proof. intros Hd. apply C15_decode_wf_tx in Hd. destruct Hd as (_ & _ & _ & Hs). exact Hs. Qed.

Theorem unmarshal_block_txs_nonempty j b :
  unmarshal_block on_curve H j = Ok b -> Forall (fun t => outs t <> []) (txs b).
Proof.
  intros Hd. apply C15_decode_wf_block in Hd. destruct Hd as (_ & _ & _ & Ht).
  eapply Forall_impl; [|exact Ht]. intros t (_ & _ & Hs & _). exact Hs.
Qed.

End Oracles.
