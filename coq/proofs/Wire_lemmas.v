(* Wire_lemmas.v — C15: decoding inverts encoding on well-formed values, decoding only yields
   well-formed values, the transaction id is checked and binds inputs, outputs and timestamp. *)
From Coq Require Import Lia ZArith NArith.
From RV Require Import model.Base model.Json model.Sha256 model.Wire model.WireDec.
Local Open Scope string_scope.

(* ------------------------------------------------------------------ *)
(* generic facts about the decoding combinators                        *)
(* ------------------------------------------------------------------ *)

Lemma bind_ok {A B} (r : res derr A) (f : A -> res derr B) v :
  bind r f = Ok v -> exists a, r = Ok a /\ f a = Ok v.
Proof. destruct r as [a|e]; cbn; intros Hb; [exists a; auto | discriminate]. Qed.

Tactic Notation "bind_inv" hyp(Hb) "as" ident(a) ident(E) ident(Hn) :=
  apply bind_ok in Hb; destruct Hb as (a & E & Hn).

Lemma dec_seq_single {A} (dec : A -> json -> res derr A) j init :
  dec_seq dec [j] init = dec init j.
Proof. cbn. destruct (dec init j); reflexivity. Qed.

Lemma dec_seq_inv {A} (P : A -> Prop) (dec : A -> json -> res derr A) l :
  (forall cur j v, P cur -> dec cur j = Ok v -> P v) ->
  forall init v, P init -> dec_seq dec l init = Ok v -> P v.
Proof.
  intros Hstep. induction l as [|j r IH]; cbn; intros init v Hi Hd.
  - injection Hd as <-. exact Hi.
  - destruct (dec init j) as [a|e] eqn:E; [|discriminate].
    eapply IH; [eapply Hstep; eauto | exact Hd].
Qed.

Lemma map_res_ok {A B} (f : A -> res derr B) (Q : B -> Prop) :
  (forall a b, f a = Ok b -> Q b) ->
  forall l l', map_res f l = Ok l' -> Forall Q l'.
Proof.
  intros Hf. induction l as [|a r IH]; cbn; intros l' Hm.
  - injection Hm as <-. constructor.
  - destruct (f a) as [b|e] eqn:E; [|discriminate].
    destruct (map_res f r) as [bs|e] eqn:E2; [|discriminate].
    injection Hm as <-. constructor; eauto.
Qed.

Lemma all_some_ok {A} (l : list (option A)) l' : all_some l = Ok l' -> l = map Some l'.
Proof.
  revert l'. induction l as [|[a|] r IH]; cbn; intros l' Ha.
  - injection Ha as <-. reflexivity.
  - destruct (all_some r) as [x|e] eqn:E; [|discriminate]. injection Ha as <-.
    cbn. f_equal. apply IH. reflexivity.
  - discriminate.
Qed.

Lemma all_some_map {A} (l : list A) : all_some (map Some l) = Ok l.
Proof. induction l as [|a r IH]; cbn; [reflexivity | rewrite IH; reflexivity]. Qed.

Lemma no_nulls_map {A} (s : slice A) : no_nulls (option_map (map Some) s) = Ok s.
Proof. destruct s as [l|]; cbn; [rewrite all_some_map|]; reflexivity. Qed.

(* what no_nulls keeps of a per-element property *)
Definition opt_all {A} (P : A -> Prop) (s : slice (option A)) : Prop :=
  Forall (fun x => match x with Some a => P a | None => True end) (elems s).

Lemma no_nulls_ok {A} (P : A -> Prop) (s : slice (option A)) s' :
  opt_all P s -> no_nulls s = Ok s' -> Forall P (elems s').
Proof.
  unfold opt_all. destruct s as [l|]; cbn; intros Hall Hn.
  - destruct (all_some l) as [x|e] eqn:E; [|discriminate]. injection Hn as <-. cbn.
    apply all_some_ok in E. subst l. clear -Hall.
    induction x as [|a r IH]; cbn in *; [constructor|].
    inversion Hall; subst. constructor; auto.
  - injection Hn as <-. constructor.
Qed.

Lemma dec_slice_ptr_ok {A} (um : json -> res derr A) (P : A -> Prop) :
  (forall j a, um j = Ok a -> P a) ->
  forall cur j v, opt_all P cur -> dec_slice (dec_ptr um) cur j = Ok v -> opt_all P v.
Proof.
  intros Hum cur j v _ Hd. unfold opt_all. destruct j; cbn in Hd; try discriminate.
  - injection Hd as <-. constructor.
  - destruct (map_res (dec_ptr um) l) as [x|e] eqn:E; [|discriminate]. injection Hd as <-. cbn.
    eapply map_res_ok; [|exact E]. intros j [b|] Hp; [|exact I].
    unfold dec_ptr in Hp. destruct j; try discriminate;
      match type of Hp with match um ?t with _ => _ end = _ =>
        destruct (um t) as [a0|e0] eqn:E0; [|discriminate]; injection Hp as <-; eapply Hum; exact E0 end.
Qed.

Lemma dec_slice_ptr_rt {A} (um : json -> res derr A) (m : A -> json) (P : A -> Prop) :
  (forall a, P a -> um (m a) = Ok a) -> (forall a, m a <> JNull) ->
  forall s cur, Forall P (elems s) ->
    dec_slice (dec_ptr um) cur (jslice m s) = Ok (option_map (map Some) s).
Proof.
  intros Hrt Hnn [l|] cur Hall; cbn; [|reflexivity].
  assert (Hm : map_res (dec_ptr um) (map m l) = Ok (map Some l)).
  { cbn in Hall. induction l as [|a r IH]; cbn; [reflexivity|].
    inversion Hall; subst.
    assert (Hp : dec_ptr um (m a) = Ok (Some a)).
    { unfold dec_ptr. specialize (Hnn a). destruct (m a) eqn:Em; try congruence;
        rewrite <- Em, Hrt by assumption; reflexivity. }
    rewrite Hp, IH by assumption. reflexivity. }
  rewrite Hm. reflexivity.
Qed.

(* ------------------------------------------------------------------ *)
(* scalars                                                             *)
(* ------------------------------------------------------------------ *)

Definition in_i64 (z : Z) : Prop := (i64_min <= z < i64_max1)%Z.

Lemma dec_uint_rt bound cur n : (Z.of_N n < bound)%Z -> dec_uint bound cur (JNum (Z.of_N n)) = Ok n.
Proof.
  intros Hn. unfold dec_uint.
  replace ((0 <=? Z.of_N n)%Z && (Z.of_N n <? bound)%Z) with true.
  - rewrite N2Z.id. reflexivity.
  - symmetry. apply andb_true_intro. split; [apply Z.leb_le; lia | apply Z.ltb_lt; exact Hn].
Qed.

Lemma dec_uint_ok bound cur j v :
  (Z.of_N cur < bound)%Z -> dec_uint bound cur j = Ok v -> (Z.of_N v < bound)%Z.
Proof.
  intros Hc Hd. destruct j; cbn in Hd; try discriminate.
  - injection Hd as <-. exact Hc.
  - destruct ((0 <=? z)%Z && (z <? bound)%Z) eqn:E; [|discriminate]. injection Hd as <-.
    apply andb_prop in E. destruct E as [E1 E2]. apply Z.leb_le in E1. apply Z.ltb_lt in E2.
    rewrite Z2N.id; assumption.
Qed.

Lemma dec_i64_rt cur z : in_i64 z -> dec_i64 cur (JNum z) = Ok z.
Proof.
  intros [H1 H2]. unfold dec_i64.
  replace ((i64_min <=? z)%Z && (z <? i64_max1)%Z) with true; [reflexivity|].
  symmetry. apply andb_true_intro. split; [apply Z.leb_le | apply Z.ltb_lt]; assumption.
Qed.

Lemma dec_i64_ok cur j v : in_i64 cur -> dec_i64 cur j = Ok v -> in_i64 v.
Proof.
  intros Hc Hd. destruct j; cbn in Hd; try discriminate.
  - injection Hd as <-. exact Hc.
  - destruct ((i64_min <=? z)%Z && (z <? i64_max1)%Z) eqn:E; [|discriminate]. injection Hd as <-.
    apply andb_prop in E. destruct E as [E1 E2]. apply Z.leb_le in E1. apply Z.ltb_lt in E2.
    split; assumption.
  - destruct (String.eqb lit "-0"); [|discriminate]. injection Hd as <-.
    unfold in_i64, i64_min, i64_max1. lia.
Qed.

Lemma in_i64_0 : in_i64 0.
Proof. unfold in_i64, i64_min, i64_max1. lia. Qed.

Lemma field_uint_ok bound name fs v :
  (0 < bound)%Z -> dec_field (dec_uint bound) name fs 0%N = Ok v -> (Z.of_N v < bound)%Z.
Proof.
  intros Hb Hd. unfold dec_field in Hd.
  eapply (dec_seq_inv (fun n => (Z.of_N n < bound)%Z)); [| |exact Hd].
  - intros cur j w. apply dec_uint_ok.
  - exact Hb.
Qed.

Lemma field_i64_ok name fs v : dec_field dec_i64 name fs 0%Z = Ok v -> in_i64 v.
Proof.
  intros Hd. unfold dec_field in Hd.
  eapply (dec_seq_inv in_i64); [| |exact Hd].
  - intros cur j w. apply dec_i64_ok.
  - exact in_i64_0.
Qed.

(* ------------------------------------------------------------------ *)
(* hex, signatures, keys                                               *)
(* ------------------------------------------------------------------ *)

Lemma lower_hex_char_idem0 c :
  match lower_hex_char c with Some d => lower_hex_char d = Some d | None => True end.
Proof.
  destruct c as [[|] [|] [|] [|] [|] [|] [|] [|]]; vm_compute; first [exact I | reflexivity].
Qed.

Lemma lower_hex_char_idem c d : lower_hex_char c = Some d -> lower_hex_char d = Some d.
Proof. intros Hc. pose proof (lower_hex_char_idem0 c) as Hi. rewrite Hc in Hi. exact Hi. Qed.

Lemma lower_hex_idem s h : lower_hex s = Some h -> lower_hex h = Some h.
Proof.
  revert h. induction s as [|c r IH]; cbn; intros h Hs.
  - injection Hs as <-. reflexivity.
  - destruct (lower_hex_char c) as [c'|] eqn:Ec; [|discriminate].
    destruct (lower_hex r) as [r'|] eqn:Er; [|discriminate].
    injection Hs as <-. cbn. rewrite (lower_hex_char_idem _ _ Ec), (IH _ eq_refl). reflexivity.
Qed.

Definition wf_sig (s : string) : Prop := lower_hex s = Some s /\ String.length s = 128%nat.

Lemma dec_sig_rt s : wf_sig s -> dec_sig s = Ok s.
Proof. intros [Hh Hl]. unfold dec_sig. rewrite Hh, Hl. reflexivity. Qed.

Lemma dec_sig_ok s v : dec_sig s = Ok v -> wf_sig v.
Proof.
  unfold dec_sig. destruct (lower_hex s) as [h|] eqn:E; [|discriminate].
  destruct (String.length h =? 128)%nat eqn:El; [|discriminate]. intros Hd. injection Hd as <-.
  split; [eapply lower_hex_idem; exact E | apply Nat.eqb_eq; exact El].
Qed.

Section Oracles.
Variable on_curve : string -> bool.
Variable H : list N -> list N.

Definition wf_key (k : string) : Prop :=
  exists h, k = String "0" (String "x" h) /\ lower_hex h = Some h /\
            String.length h = 130%nat /\ starts_04 h = true /\ on_curve h = true.

Lemma dec_pubkey_rt k : wf_key k -> dec_pubkey on_curve k = Ok k.
Proof.
  intros (h & -> & Hh & Hl & H4 & Hc). unfold dec_pubkey.
  cbn [Ascii.eqb Bool.eqb andb orb]. rewrite Hh, Hl, H4, Hc. reflexivity.
Qed.

Lemma dec_pubkey_ok s k : dec_pubkey on_curve s = Ok k -> wf_key k.
Proof.
  unfold dec_pubkey. destruct s as [|a [|b r]]; try discriminate.
  destruct (Ascii.eqb a "0" && (Ascii.eqb b "x" || Ascii.eqb b "X")); [|discriminate].
  destruct (lower_hex r) as [h|] eqn:E; [|discriminate].
  destruct ((String.length h =? 130)%nat && starts_04 h && on_curve h) eqn:Ec; [|discriminate].
  intros Hd. injection Hd as <-.
  apply andb_prop in Ec. destruct Ec as [Ec Hc]. apply andb_prop in Ec. destruct Ec as [Hl H4].
  exists h. repeat split; auto.
  - eapply lower_hex_idem; exact E.
  - apply Nat.eqb_eq; exact Hl.
Qed.

(* ------------------------------------------------------------------ *)
(* well-formed values                                                  *)
(* ------------------------------------------------------------------ *)

Definition wf_output (o : output) : Prop := (o_val o < two64)%N.
Definition wf_input_info (p : N * string) : Prop := (fst p < 65536)%N.
Definition wf_input (i : input) : Prop :=
  (i_idx i < 65536)%N /\ wf_key (i_key i) /\ wf_sig (i_sig i).
Definition wf_utxo (u : utxo) : Prop :=
  (u_idx u < 65536)%N /\ wf_output (u_out u) /\ in_i64 (u_ts u).

(* transaction.go:63-71: at least one output, and exactly one when there is no input *)
Definition wf_shape (i : slice input) (o : slice output) : Prop :=
  elems o <> [] /\ (elems i = [] -> length (elems o) = 1%nat).

Definition wf_idbody (i : slice input) (o : slice output) (ts : Z) : Prop :=
  Forall wf_input (elems i) /\ Forall wf_output (elems o) /\ in_i64 ts.

Definition wf_tx (t : tx) : Prop :=
  wf_idbody (t_ins t) (t_outs t) (t_ts t) /\
  t_id t = gen_id H (t_ins t) (t_outs t) (t_ts t) /\
  wf_shape (t_ins t) (t_outs t).

Definition wf_block (b : block) : Prop :=
  length (b_prev b) = 32%nat /\ Forall (fun x => (x < 256)%N) (b_prev b) /\
  in_i64 (b_ts b) /\ Forall wf_tx (txs b).

Lemma tx_shape_iff i o : tx_shape i o = Ok tt <-> wf_shape i o.
Proof.
  unfold tx_shape, wf_shape. destruct (elems o) as [|o1 [|o2 r]], (elems i) as [|i1 r'];
    cbn; split; try discriminate; try (intros _; split; [discriminate|]; auto; try discriminate);
    try reflexivity.
  - intros [Hn _]. congruence.
  - intros [Hn _]. congruence.
  - intros [_ Hl]. specialize (Hl eq_refl). discriminate.
Qed.

(* ------------------------------------------------------------------ *)
(* the marshalers' own key lists: every key is found exactly once      *)
(* ------------------------------------------------------------------ *)

Lemma gf_out a b c :
  let fs := [("address", a); ("is_yielding", b); ("value", c)] in
  get_fields "address" fs = [a] /\ get_fields "is_yielding" fs = [b] /\ get_fields "value" fs = [c].
Proof. repeat split. Qed.

Lemma gf_info a b :
  let fs := [("output_index", a); ("transaction_id", b)] in
  get_fields "output_index" fs = [a] /\ get_fields "transaction_id" fs = [b].
Proof. repeat split. Qed.

Lemma gf_in a b c d :
  let fs := [("output_index", a); ("transaction_id", b); ("public_key", c); ("signature", d)] in
  get_fields "output_index" fs = [a] /\ get_fields "transaction_id" fs = [b] /\
  get_fields "public_key" fs = [c] /\ get_fields "signature" fs = [d].
Proof. repeat split. Qed.

Lemma gf_utxo a b c d e f :
  let fs := [("address", a); ("timestamp", b); ("is_yielding", c); ("output_index", d);
             ("transaction_id", e); ("value", f)] in
  get_fields "address" fs = [a] /\ get_fields "timestamp" fs = [b] /\
  get_fields "is_yielding" fs = [c] /\ get_fields "output_index" fs = [d] /\
  get_fields "transaction_id" fs = [e] /\ get_fields "value" fs = [f].
Proof. repeat split. Qed.

Lemma gf_tx a b c d :
  let fs := [("id", a); ("inputs", b); ("outputs", c); ("timestamp", d)] in
  get_fields "id" fs = [a] /\ get_fields "inputs" fs = [b] /\
  get_fields "outputs" fs = [c] /\ get_fields "timestamp" fs = [d].
Proof. repeat split. Qed.

Lemma gf_block a b c d e :
  let fs := [("previous_hash", a); ("added_registered_addresses", b);
             ("removed_registered_addresses", c); ("timestamp", d); ("transactions", e)] in
  get_fields "previous_hash" fs = [a] /\ get_fields "added_registered_addresses" fs = [b] /\
  get_fields "removed_registered_addresses" fs = [c] /\ get_fields "timestamp" fs = [d] /\
  get_fields "transactions" fs = [e].
Proof. repeat split. Qed.

Lemma gf_req a b :
  let fs := [("Transaction", a); ("TransactionBroadcasterTarget", b)] in
  get_fields "Transaction" fs = [a] /\ get_fields "TransactionBroadcasterTarget" fs = [b].
Proof. repeat split. Qed.

Lemma u64_two64 n : (n < two64)%N <-> (Z.of_N n < u64_bound)%Z.
Proof. unfold two64, u64_bound. lia. Qed.

Lemma u16_bound n : (n < 65536)%N <-> (Z.of_N n < 65536)%Z.
Proof. lia. Qed.

(* ------------------------------------------------------------------ *)
(* round trips                                                         *)
(* ------------------------------------------------------------------ *)

Theorem C15_roundtrip_output o : wf_output o -> unmarshal_output (marshal_output o) = Ok o.
Proof.
  intros Ho. unfold unmarshal_output, marshal_output, dec_field.
  destruct (gf_out (JStr (o_addr o)) (JBool (o_yield o)) (JNum (Z.of_N (o_val o)))) as (E1 & E2 & E3).
  rewrite E1, E2, E3, !dec_seq_single. cbn [dec_str dec_bool bind].
  rewrite dec_uint_rt by (apply u64_two64; exact Ho). cbn [bind]. destruct o; reflexivity.
Qed.

Theorem C15_roundtrip_input_info p :
  wf_input_info p -> unmarshal_input_info (marshal_input_info (fst p) (snd p)) = Ok p.
Proof.
  intros Hp. unfold unmarshal_input_info, marshal_input_info, dec_field.
  destruct (gf_info (JNum (Z.of_N (fst p))) (JStr (snd p))) as (E1 & E2).
  rewrite E1, E2, !dec_seq_single.
  rewrite dec_uint_rt by (apply u16_bound; exact Hp). cbn [dec_str bind]. destruct p; reflexivity.
Qed.

Theorem C15_roundtrip_input i :
  wf_input i -> unmarshal_input on_curve (marshal_input i) = Ok i.
Proof.
  intros (Hi & Hk & Hs). unfold unmarshal_input, marshal_input, dec_field.
  destruct (gf_in (JNum (Z.of_N (i_idx i))) (JStr (i_ref i)) (JStr (i_key i)) (JStr (i_sig i)))
    as (E1 & E2 & E3 & E4).
  rewrite E1, E2, E3, E4, !dec_seq_single.
  rewrite dec_uint_rt by (apply u16_bound; exact Hi). cbn [dec_str bind].
  rewrite dec_pubkey_rt by exact Hk. cbn [bind].
  rewrite dec_sig_rt by exact Hs. cbn [bind]. destruct i; reflexivity.
Qed.

Theorem C15_roundtrip_utxo u : wf_utxo u -> unmarshal_utxo (marshal_utxo u) = Ok u.
Proof.
  intros (Hi & Ho & Ht). unfold unmarshal_utxo, marshal_utxo, dec_field.
  destruct (gf_utxo (JStr (o_addr (u_out u))) (JNum (u_ts u)) (JBool (o_yield (u_out u)))
              (JNum (Z.of_N (u_idx u))) (JStr (u_ref u)) (JNum (Z.of_N (o_val (u_out u)))))
    as (E1 & E2 & E3 & E4 & E5 & E6).
  rewrite E1, E2, E3, E4, E5, E6, !dec_seq_single.
  cbn [dec_str dec_bool bind].
  rewrite dec_i64_rt by exact Ht. cbn [bind].
  rewrite dec_uint_rt by (apply u16_bound; exact Hi). cbn [bind].
  rewrite dec_uint_rt by (apply u64_two64; exact Ho). cbn [bind].
  destruct u as [r i [a y v] t]; reflexivity.
Qed.

Lemma marshal_input_nn i : marshal_input i <> JNull.
Proof. discriminate. Qed.
Lemma marshal_output_nn o : marshal_output o <> JNull.
Proof. discriminate. Qed.
Lemma marshal_tx_nn t : marshal_tx t <> JNull.
Proof. discriminate. Qed.

Theorem C15_roundtrip_tx t : wf_tx t -> unmarshal_tx on_curve H (marshal_tx t) = Ok t.
Proof.
  intros ((Hi & Ho & Hts) & Hid & Hsh). unfold unmarshal_tx, marshal_tx, dec_field.
  destruct (gf_tx (JStr (t_id t)) (jslice marshal_input (t_ins t))
              (jslice marshal_output (t_outs t)) (JNum (t_ts t))) as (E1 & E2 & E3 & E4).
  rewrite E1, E2, E3, E4, !dec_seq_single. cbn [dec_str bind].
  rewrite (dec_slice_ptr_rt (unmarshal_input on_curve) marshal_input wf_input
             C15_roundtrip_input marshal_input_nn) by exact Hi. cbn [bind].
  rewrite (dec_slice_ptr_rt unmarshal_output marshal_output wf_output
             C15_roundtrip_output marshal_output_nn) by exact Ho. cbn [bind].
  rewrite dec_i64_rt by exact Hts. cbn [bind].
  rewrite !no_nulls_map. cbn [bind].
  rewrite <- Hid, String.eqb_refl. cbn [negb].
  apply tx_shape_iff in Hsh. rewrite Hsh. cbn [bind]. destruct t; reflexivity.
Qed.

Lemma dec_arr_u8_rt p : Forall (fun x => (x < 256)%N) p ->
  forall cur, dec_arr_u8 (length p) cur (map (fun n => JNum (Z.of_N n)) p) = Ok p.
Proof.
  induction 1 as [|x r Hx Hr IH]; intros cur; cbn [length map dec_arr_u8]; [reflexivity|].
  rewrite dec_uint_rt by lia. rewrite IH. reflexivity.
Qed.

Lemma dec_elems_str_rt l : forall cur, dec_elems dec_str "" cur (map JStr l) = Ok l.
Proof.
  induction l as [|s r IH]; intros cur; cbn; [reflexivity|]. rewrite IH. reflexivity.
Qed.

Lemma dec_strs_rt s cur : dec_strs cur (jslice JStr s) = Ok s.
Proof. destruct s as [l|]; cbn; [rewrite dec_elems_str_rt|]; reflexivity. Qed.

Theorem C15_roundtrip_block b : wf_block b -> unmarshal_block on_curve H (marshal_block b) = Ok b.
Proof.
  intros (Hl & Hp & Hts & Htx). unfold unmarshal_block, marshal_block, dec_field.
  destruct (gf_block (JArr (map (fun n => JNum (Z.of_N n)) (b_prev b))) (jslice JStr (b_added b))
              (jslice JStr (b_removed b)) (JNum (b_ts b)) (jslice marshal_tx (b_txs b)))
    as (E1 & E2 & E3 & E4 & E5).
  rewrite E1, E2, E3, E4, E5, !dec_seq_single.
  cbn [dec_hash]. rewrite <- Hl, dec_arr_u8_rt by exact Hp. cbn [bind].
  rewrite !dec_strs_rt. cbn [bind].
  rewrite dec_i64_rt by exact Hts. cbn [bind].
  rewrite (dec_slice_ptr_rt (unmarshal_tx on_curve H) marshal_tx wf_tx
             C15_roundtrip_tx marshal_tx_nn) by exact Htx. cbn [bind].
  rewrite no_nulls_map. cbn [bind]. destruct b; reflexivity.
Qed.

Theorem C15_roundtrip_request t g :
  match t with Some x => wf_tx x | None => True end ->
  unmarshal_request on_curve H (marshal_request t g) = Ok (t, g).
Proof.
  intros Ht. unfold unmarshal_request, marshal_request, dec_field.
  destruct (gf_req (match t with None => JNull | Some t => marshal_tx t end) (JStr g)) as (E1 & E2).
  rewrite E1, E2, !dec_seq_single. destruct t as [x|].
  - unfold dec_ptr. change (marshal_tx x) with (JObj [("id", JStr (t_id x));
      ("inputs", jslice marshal_input (t_ins x)); ("outputs", jslice marshal_output (t_outs x));
      ("timestamp", JNum (t_ts x))]) at 1.
    cbv iota. change (JObj _) with (marshal_tx x). rewrite C15_roundtrip_tx by exact Ht.
    reflexivity.
  - reflexivity.
Qed.

Theorem C15_roundtrip_blocks l :
  Forall (fun x => match x with Some b => wf_block b | None => True end) l ->
  unmarshal_blocks on_curve H
    (JArr (map (fun x => match x with Some b => marshal_block b | None => JNull end) l)) = Ok l.
Proof.
  intros Hl. unfold unmarshal_blocks. induction Hl as [|x r Hx Hr IH]; cbn [map map_res]; [reflexivity|].
  rewrite IH. destruct x as [b|].
  - unfold dec_ptr. unfold marshal_block at 1. cbv iota. fold (marshal_block b).
    rewrite C15_roundtrip_block by exact Hx. reflexivity.
  - reflexivity.
Qed.

(* ------------------------------------------------------------------ *)
(* decoding only yields well-formed values                             *)
(* ------------------------------------------------------------------ *)

Theorem C15_decode_wf_output j o : unmarshal_output j = Ok o -> wf_output o.
Proof.
  unfold unmarshal_output. destruct j; try discriminate. intros Hb.
  bind_inv Hb as a E Hb0. bind_inv Hb0 as a0 E0 Hb1. bind_inv Hb1 as a1 E1 Hb2. injection Hb2 as <-.
  unfold wf_output. cbn. apply u64_two64. eapply field_uint_ok; [|exact E1]. reflexivity.
Qed.

Theorem C15_decode_wf_input_info j p : unmarshal_input_info j = Ok p -> wf_input_info p.
Proof.
  unfold unmarshal_input_info. destruct j; try discriminate. intros Hb.
  bind_inv Hb as a E Hb0. bind_inv Hb0 as a0 E0 Hb1. injection Hb1 as <-.
  unfold wf_input_info. cbn. apply u16_bound. eapply field_uint_ok; [|exact E]. reflexivity.
Qed.

Theorem C15_decode_wf_input j i : unmarshal_input on_curve j = Ok i -> wf_input i.
Proof.
  unfold unmarshal_input. destruct j; try discriminate. intros Hb.
  bind_inv Hb as a E Hb0. bind_inv Hb0 as a0 E0 Hb1. bind_inv Hb1 as a1 E1 Hb2. bind_inv Hb2 as a2 E2 Hb3. bind_inv Hb3 as a3 E3 Hb4. bind_inv Hb4 as a4 E4 Hb5.
  injection Hb5 as <-. unfold wf_input. cbn. repeat split.
  - apply u16_bound. eapply field_uint_ok; [|exact E]. reflexivity.
  - eapply dec_pubkey_ok; exact E3.
  - eapply dec_sig_ok; exact E4.
  - eapply dec_sig_ok; exact E4.
Qed.

Theorem C15_decode_wf_utxo j u : unmarshal_utxo j = Ok u -> wf_utxo u.
Proof.
  unfold unmarshal_utxo. destruct j; try discriminate. intros Hb.
  bind_inv Hb as a E Hb0. bind_inv Hb0 as a0 E0 Hb1. bind_inv Hb1 as a1 E1 Hb2. bind_inv Hb2 as a2 E2 Hb3. bind_inv Hb3 as a3 E3 Hb4. bind_inv Hb4 as a4 E4 Hb5.
  injection Hb5 as <-. unfold wf_utxo, wf_output. cbn. repeat split.
  - apply u16_bound. eapply field_uint_ok; [|exact E2]. reflexivity.
  - apply u64_two64. eapply field_uint_ok; [|exact E4]. reflexivity.
  - eapply field_i64_ok; exact E0.
  - eapply field_i64_ok; exact E0.
Qed.

Lemma field_slice_ptr_ok {A} (um : json -> res derr A) (P : A -> Prop) name fs v :
  (forall j a, um j = Ok a -> P a) ->
  dec_field (dec_slice (dec_ptr um)) name fs None = Ok v -> opt_all P v.
Proof.
  intros Hum Hd. unfold dec_field in Hd.
  eapply (dec_seq_inv (opt_all P)); [| |exact Hd].
  - apply dec_slice_ptr_ok. exact Hum.
  - constructor.
Qed.

Theorem C15_decode_wf_tx j t : unmarshal_tx on_curve H j = Ok t -> wf_tx t.
Proof.
  unfold unmarshal_tx. destruct j; try discriminate. intros Hb.
  bind_inv Hb as a E Hb0. bind_inv Hb0 as a0 E0 Hb1. bind_inv Hb1 as a1 E1 Hb2. bind_inv Hb2 as a2 E2 Hb3. bind_inv Hb3 as a3 E3 Hb4. bind_inv Hb4 as a4 E4 Hb5.
  destruct (negb (String.eqb (gen_id H a3 a4 a2) a)) eqn:Eid; [discriminate|].
  bind_inv Hb5 as a5 E5 Hb6. injection Hb6 as <-. destruct a5.
  apply negb_false_iff, String.eqb_eq in Eid.
  unfold wf_tx, wf_idbody. cbn. repeat split.
  - eapply no_nulls_ok; [|exact E3]. eapply field_slice_ptr_ok; [|exact E0].
    exact C15_decode_wf_input.
  - eapply no_nulls_ok; [|exact E4]. eapply field_slice_ptr_ok; [|exact E1].
    exact C15_decode_wf_output.
  - eapply field_i64_ok; exact E2.
  - eapply field_i64_ok; exact E2.
  - symmetry. exact Eid.
  - apply tx_shape_iff in E5. apply E5.
  - apply tx_shape_iff in E5. apply E5.
Qed.

Lemma dec_arr_u8_ok n : forall cur l p,
  Forall (fun x => (x < 256)%N) cur -> dec_arr_u8 n cur l = Ok p ->
  length p = n /\ Forall (fun x => (x < 256)%N) p.
Proof.
  induction n as [|n IH]; intros cur l p Hc Hd.
  - cbn in Hd. injection Hd as <-. split; [reflexivity | constructor].
  - cbn [dec_arr_u8] in Hd. destruct l as [|j r].
    + injection Hd as <-. change (0%N :: repeat 0%N n) with (repeat 0%N (S n)).
      split; [apply repeat_length|].
      apply Forall_forall. intros x Hx. apply repeat_spec in Hx. subst x. lia.
    + destruct (dec_uint 256 (hd 0%N cur) j) as [b|e] eqn:Eb; [|discriminate].
      destruct (dec_arr_u8 n (tl cur) r) as [bs|e] eqn:Ebs; [|discriminate].
      injection Hd as <-.
      assert (Hh : (hd 0%N cur < 256)%N) by (destruct cur; cbn; [lia | inversion Hc; assumption]).
      assert (Ht : Forall (fun x => (x < 256)%N) (tl cur))
        by (destruct cur; cbn; [constructor | inversion Hc; assumption]).
      destruct (IH _ _ _ Ht Ebs) as [Hl Hf]. split; [cbn; lia|].
      constructor; [|exact Hf].
      apply (dec_uint_ok 256 (hd 0%N cur) j b) in Eb; lia.
Qed.

Theorem C15_decode_wf_block j b : unmarshal_block on_curve H j = Ok b -> wf_block b.
Proof.
  unfold unmarshal_block. destruct j; try discriminate. intros Hb.
  bind_inv Hb as a E Hb0. bind_inv Hb0 as a0 E0 Hb1. bind_inv Hb1 as a1 E1 Hb2. bind_inv Hb2 as a2 E2 Hb3. bind_inv Hb3 as a3 E3 Hb4. bind_inv Hb4 as a4 E4 Hb5.
  injection Hb5 as <-. unfold wf_block, txs. cbn.
  assert (Hp : length a = 32%nat /\ Forall (fun x => (x < 256)%N) a).
  { unfold dec_field in E.
    eapply (dec_seq_inv (fun p => length p = 32%nat /\ Forall (fun x => (x < 256)%N) p)); [| |exact E].
    - intros cur j v [Hl Hf] Hd. destruct j; cbn in Hd; try discriminate.
      + injection Hd as <-. split; assumption.
      + eapply dec_arr_u8_ok; eassumption.
    - split; [reflexivity|]. apply Forall_forall. intros x Hx. apply repeat_spec in Hx. subst x. lia. }
  destruct Hp as [Hl Hf]. repeat split; try assumption.
  - eapply field_i64_ok; exact E2.
  - eapply field_i64_ok; exact E2.
  - eapply no_nulls_ok; [|exact E4]. eapply field_slice_ptr_ok; [|exact E3].
    exact C15_decode_wf_tx.
Qed.

(* ------------------------------------------------------------------ *)
(* byte stability: decode ; encode ; decode = decode                    *)
(* ------------------------------------------------------------------ *)

Theorem C15_stable_output j o :
  unmarshal_output j = Ok o -> unmarshal_output (marshal_output o) = Ok o.
Proof. intros Hd. apply C15_roundtrip_output. eapply C15_decode_wf_output; exact Hd. Qed.

Theorem C15_stable_input j i :
  unmarshal_input on_curve j = Ok i -> unmarshal_input on_curve (marshal_input i) = Ok i.
Proof. intros Hd. apply C15_roundtrip_input. eapply C15_decode_wf_input; exact Hd. Qed.

Theorem C15_stable_utxo j u :
  unmarshal_utxo j = Ok u -> unmarshal_utxo (marshal_utxo u) = Ok u.
Proof. intros Hd. apply C15_roundtrip_utxo. eapply C15_decode_wf_utxo; exact Hd. Qed.

Theorem C15_stable_tx j t :
  unmarshal_tx on_curve H j = Ok t -> unmarshal_tx on_curve H (marshal_tx t) = Ok t.
Proof. intros Hd. apply C15_roundtrip_tx. eapply C15_decode_wf_tx; exact Hd. Qed.

Theorem C15_stable_block j b :
  unmarshal_block on_curve H j = Ok b -> unmarshal_block on_curve H (marshal_block b) = Ok b.
Proof. intros Hd. apply C15_roundtrip_block. eapply C15_decode_wf_block; exact Hd. Qed.

(* the bytes a node re-serves after decoding are a fixpoint of decode-then-encode *)
Theorem C15_stable_bytes_tx j t t' :
  unmarshal_tx on_curve H j = Ok t -> unmarshal_tx on_curve H (marshal_tx t) = Ok t' ->
  render (marshal_tx t') = render (marshal_tx t).
Proof. intros Hd Hd'. rewrite (C15_stable_tx _ _ Hd) in Hd'. injection Hd' as <-. reflexivity. Qed.

Theorem C15_stable_bytes_block j b b' :
  unmarshal_block on_curve H j = Ok b -> unmarshal_block on_curve H (marshal_block b) = Ok b' ->
  render (marshal_block b') = render (marshal_block b).
Proof. intros Hd Hd'. rewrite (C15_stable_block _ _ Hd) in Hd'. injection Hd' as <-. reflexivity. Qed.

(* the receiver computes the same block hash as the sender (any hash of the rendering) *)
Theorem C15_same_hash b b' :
  wf_block b -> unmarshal_block on_curve H (marshal_block b) = Ok b' ->
  H (bytes_of_string (render (marshal_block b'))) = H (bytes_of_string (render (marshal_block b))).
Proof. intros Hw Hd. rewrite (C15_roundtrip_block _ Hw) in Hd. injection Hd as <-. reflexivity. Qed.

(* ------------------------------------------------------------------ *)
(* the id is checked; what the decoder establishes for later code      *)
(* ------------------------------------------------------------------ *)

Theorem C15_id_checked j t :
  unmarshal_tx on_curve H j = Ok t -> t_id t = gen_id H (t_ins t) (t_outs t) (t_ts t).
Proof. intros Hd. apply C15_decode_wf_tx in Hd. apply Hd. Qed.

Theorem C15_wrong_id_rejected fs id i0 o0 ts i o :
  dec_field dec_str "id" fs "" = Ok id ->
  dec_field (dec_slice (dec_ptr (unmarshal_input on_curve))) "inputs" fs None = Ok i0 ->
  dec_field (dec_slice (dec_ptr unmarshal_output)) "outputs" fs None = Ok o0 ->
  dec_field dec_i64 "timestamp" fs 0%Z = Ok ts ->
  no_nulls i0 = Ok i -> no_nulls o0 = Ok o ->
  id <> gen_id H i o ts ->
  unmarshal_tx on_curve H (JObj fs) = Err DWrongId.
Proof.
  intros E1 E2 E3 E4 E5 E6 Hne. unfold unmarshal_tx.
  rewrite E1; cbn [bind]. rewrite E2; cbn [bind]. rewrite E3; cbn [bind].
  rewrite E4; cbn [bind]. rewrite E5; cbn [bind]. rewrite E6; cbn [bind].
  destruct (String.eqb (gen_id H i o ts) id) eqn:Eq; [|reflexivity].
  apply String.eqb_eq in Eq. congruence.
Qed.

Theorem unmarshal_tx_nonempty j t : unmarshal_tx on_curve H j = Ok t -> outs t <> [].
Proof. intros Hd. apply C15_decode_wf_tx in Hd. destruct Hd as (_ & _ & Hs & _). exact Hs. Qed.

Theorem unmarshal_tx_reward_single j t :
  unmarshal_tx on_curve H j = Ok t -> ins t = [] -> length (outs t) = 1%nat.
Proof. intros Hd. apply C15_decode_wf_tx in Hd. destruct Hd as (_ & _ & _ & Hs). exact Hs. Qed.

Theorem unmarshal_block_txs_nonempty j b :
  unmarshal_block on_curve H j = Ok b -> Forall (fun t => outs t <> []) (txs b).
Proof.
  intros Hd. apply C15_decode_wf_block in Hd. destruct Hd as (_ & _ & _ & Ht).
  eapply Forall_impl; [|exact Ht]. intros t (_ & _ & Hs & _). exact Hs.
Qed.

End Oracles.

(* ------------------------------------------------------------------ *)
(* the id binds inputs, outputs and timestamp                          *)
(* render o marshal_idbody is injective (on all values, well-formed or  *)
(* not): each printed component is uniquely decodable from a prefix.   *)
(* ------------------------------------------------------------------ *)

Lemma sapp_assoc a b c : (a ++ b) ++ c = a ++ (b ++ c).
Proof. induction a as [|x a IH]; cbn; [reflexivity | rewrite IH; reflexivity]. Qed.
Lemma sapp_nil_r a : a ++ "" = a.
Proof. induction a as [|x a IH]; cbn; [reflexivity | rewrite IH; reflexivity]. Qed.
Lemma sapp_inv_head p a b : p ++ a = p ++ b -> a = b.
Proof. induction p as [|x p IH]; cbn; intros Hp; [exact Hp | injection Hp as Hp; auto]. Qed.

(* ---- quoted strings: a left inverse of escape ---- *)
Definition cons_fst (c : ascii) (o : option (string * string)) : option (string * string) :=
  match o with Some (a, r) => Some (String c a, r) | None => None end.
Definition hexval (c : ascii) : N :=
  let n := N_of_ascii c in if (n <? 58)%N then (n - 48)%N else (n - 87)%N.

Fixpoint unesc (s : string) : option (string * string) :=
  match s with
  | EmptyString => None
  | String c r =>
    let b := N_of_ascii c in
    if (b =? 34)%N then Some (EmptyString, r)
    else if (b =? 92)%N then
      match r with
      | String e r1 =>
        let x := N_of_ascii e in
        if (x =? 34)%N || (x =? 92)%N then cons_fst e (unesc r1)
        else if (x =? 98)%N then cons_fst (ascii_of_N 8) (unesc r1)
        else if (x =? 102)%N then cons_fst (ascii_of_N 12) (unesc r1)
        else if (x =? 110)%N then cons_fst (ascii_of_N 10) (unesc r1)
        else if (x =? 114)%N then cons_fst (ascii_of_N 13) (unesc r1)
        else if (x =? 116)%N then cons_fst (ascii_of_N 9) (unesc r1)
        else
          match r1 with
          | String h1 (String h2 (String h3 (String h4 r5))) =>
            if (N_of_ascii h1 =? 50)%N
            then cons_fst (ascii_of_N 226) (cons_fst (ascii_of_N 128)
                   (cons_fst (ascii_of_N (160 + hexval h4)) (unesc r5)))
            else cons_fst (ascii_of_N (hexval h3 * 16 + hexval h4)) (unesc r5)
          | _ => None
          end
      | EmptyString => None
      end
    else cons_fst c (unesc r)
  end.

(* the escaping of one byte that is not the start of U+2028/9, in front of an escaped rest *)
Definition esc_default (c : ascii) (rest : string) : string :=
  let b := N_of_ascii c in
  if (b =? 34)%N then String "\" (String c rest)
  else if (b =? 92)%N then String "\" (String c rest)
  else if (b =? 8)%N then "\b" ++ rest
  else if (b =? 12)%N then "\f" ++ rest
  else if (b =? 10)%N then "\n" ++ rest
  else if (b =? 13)%N then "\r" ++ rest
  else if (b =? 9)%N then "\t" ++ rest
  else if (b <? 32)%N || (b =? 60)%N || (b =? 62)%N || (b =? 38)%N then esc_u00 b ++ rest
  else String c rest.

Lemma escape_unfold c r :
  escape (String c r) =
  match (N_of_ascii c =? 226)%N, r with
  | true, String c1 (String c2 r2) =>
    if (N_of_ascii c1 =? 128)%N && ((N_of_ascii c2 =? 168)%N || (N_of_ascii c2 =? 169)%N)
    then "\u202" ++ String (hex_digit (N_of_ascii c2 - 160)) (escape r2)
    else String c (escape r)
  | _, _ => esc_default c (escape r)
  end.
Proof. reflexivity. Qed.

Lemma esc_default_app c X s : esc_default c X ++ s = esc_default c (X ++ s).
Proof.
  unfold esc_default.
  repeat match goal with |- context [if ?b then _ else _] => destruct b end;
    cbn [append]; rewrite ?sapp_assoc; reflexivity.
Qed.

Lemma unesc_default c X a s : unesc X = Some (a, s) -> unesc (esc_default c X) = Some (String c a, s).
Proof.
  intros HX.
  destruct c as [[|] [|] [|] [|] [|] [|] [|] [|]]; cbn; rewrite HX; reflexivity.
Qed.

Lemma ascii_of_N_eq c n : N_of_ascii c = n -> c = ascii_of_N n.
Proof. intros <-. symmetry. apply ascii_N_embedding. Qed.

Lemma unesc_escape_n : forall n a s, (String.length a <= n)%nat ->
  unesc (escape a ++ String """" s) = Some (a, s).
Proof.
  induction n as [|n IH]; intros a s Hl.
  - destruct a; [reflexivity | cbn in Hl; lia].
  - destruct a as [|c r]; [reflexivity|].
    cbn [String.length] in Hl.
    assert (IHr : unesc (escape r ++ String """" s) = Some (r, s)) by (apply IH; lia).
    assert (Hdef : unesc (esc_default c (escape r) ++ String """" s) = Some (String c r, s))
      by (rewrite esc_default_app; apply unesc_default; exact IHr).
    rewrite escape_unfold.
    destruct (N_of_ascii c =? 226)%N eqn:E226; [|exact Hdef].
    destruct r as [|c1 [|c2 r2]]; [exact Hdef | exact Hdef |].
    apply N.eqb_eq, ascii_of_N_eq in E226. subst c.
    destruct ((N_of_ascii c1 =? 128)%N && ((N_of_ascii c2 =? 168)%N || (N_of_ascii c2 =? 169)%N)) eqn:Ec.
    + apply andb_prop in Ec. destruct Ec as [E1 E2].
      apply N.eqb_eq, ascii_of_N_eq in E1. subst c1.
      assert (IH2 : unesc (escape r2 ++ String """" s) = Some (r2, s))
        by (apply IH; cbn [String.length] in Hl; lia).
      apply orb_prop in E2. destruct E2 as [E2|E2]; apply N.eqb_eq, ascii_of_N_eq in E2; subst c2;
        cbn; rewrite IH2; reflexivity.
    + exact Hdef.
Qed.

Definition parse_quote (s : string) : option (string * string) :=
  match s with
  | String c r => if (N_of_ascii c =? 34)%N then unesc r else None
  | EmptyString => None
  end.

Lemma parse_quote_ok a s : parse_quote (quote a ++ s) = Some (a, s).
Proof.
  unfold quote. cbn [append parse_quote]. cbn [N_of_ascii N.eqb]. 
  rewrite sapp_assoc. cbn [append]. eapply unesc_escape_n. apply le_n.
Qed.

Lemma ud_quote a a' s s' : quote a ++ s = quote a' ++ s' -> a = a' /\ s = s'.
Proof.
  intros Hq. apply (f_equal parse_quote) in Hq. rewrite !parse_quote_ok in Hq.
  injection Hq as -> ->. split; reflexivity.
Qed.

(* ---- decimal numbers ---- *)
Definition is_digit (c : ascii) : bool := let n := N_of_ascii c in (48 <=? n)%N && (n <=? 57)%N.

Fixpoint read_nat (acc : N) (s : string) : N * string :=
  match s with
  | String c r => if is_digit c then read_nat (acc * 10 + (N_of_ascii c - 48)) r else (acc, s)
  | EmptyString => (acc, s)
  end.

Definition nodigit (s : string) : Prop :=
  match s with String c _ => is_digit c = false | EmptyString => True end.

Lemma read_nat_nodigit k s : nodigit s -> read_nat k s = (k, s).
Proof. destruct s as [|c r]; cbn; [reflexivity | intros ->; reflexivity]. Qed.

Lemma digit_char_spec d : (d < 10)%N ->
  is_digit (digit_char d) = true /\ (N_of_ascii (digit_char d) - 48 = d)%N.
Proof.
  intros Hd. unfold is_digit, digit_char. rewrite N_ascii_embedding by lia.
  split; [apply andb_true_intro; split; apply N.leb_le; lia | lia].
Qed.

Lemma pos_digits_app f : forall n acc s, pos_digits f n acc ++ s = pos_digits f n (acc ++ s).
Proof.
  induction f as [|f IH]; intros n acc s; cbn [pos_digits]; [reflexivity|].
  destruct (n / 10 =? 0)%N; [reflexivity | rewrite IH; reflexivity].
Qed.

Lemma read_pos_digits f : forall n acc, (n < 2 ^ N.of_nat f)%N ->
  exists m, forall k, read_nat k (pos_digits f n acc) = read_nat (k * m + n) acc.
Proof.
  induction f as [|f IH]; intros n acc Hn.
  - cbn in Hn. exists 1%N. intros k. cbn [pos_digits]. f_equal. lia.
  - rewrite Nat2N.inj_succ, N.pow_succ_r' in Hn. cbn [pos_digits].
    assert (Hm : (n mod 10 < 10)%N) by (apply N.mod_lt; discriminate).
    destruct (digit_char_spec _ Hm) as [Hd Hv].
    assert (Hdm : (n = 10 * (n / 10) + n mod 10)%N) by (apply N.div_mod; discriminate).
    destruct (n / 10 =? 0)%N eqn:E.
    + apply N.eqb_eq in E. exists 10%N. intros k. cbn [read_nat]. rewrite Hd, Hv. f_equal. lia.
    + assert (Hlt : (n / 10 < 2 ^ N.of_nat f)%N).
      { apply N.div_lt_upper_bound; [discriminate|]. lia. }
      destruct (IH (n / 10)%N (String (digit_char (n mod 10)) acc) Hlt) as [m Hmk].
      exists (m * 10)%N. intros k. rewrite Hmk. cbn [read_nat]. rewrite Hd, Hv. f_equal. lia.
Qed.

Lemma pos_size p : (Npos p < 2 ^ N.of_nat (Pos.size_nat p))%N.
Proof.
  induction p as [p IH|p IH|]; cbn [Pos.size_nat].
  - rewrite Nat2N.inj_succ, N.pow_succ_r'. lia.
  - rewrite Nat2N.inj_succ, N.pow_succ_r'. lia.
  - cbn. lia.
Qed.

Lemma N_size_lt n : (n < 2 ^ N.of_nat (S (N.size_nat n)))%N.
Proof.
  rewrite Nat2N.inj_succ, N.pow_succ_r'. destruct n as [|p]; cbn [N.size_nat].
  - cbn. lia.
  - pose proof (pos_size p). lia.
Qed.

Lemma read_N_to_dec n s : nodigit s -> read_nat 0 (N_to_dec n ++ s) = (n, s).
Proof.
  intros Hs. unfold N_to_dec. rewrite pos_digits_app. cbn [append].
  destruct (read_pos_digits _ n s (N_size_lt n)) as [m Hm].
  rewrite Hm. cbn [N.mul N.add]. apply read_nat_nodigit. exact Hs.
Qed.

Lemma pos_digits_head f n acc : exists d r, (d < 10)%N /\ pos_digits (S f) n acc = String (digit_char d) r.
Proof.
  revert n acc. induction f as [|f IH]; intros n acc.
  - cbn [pos_digits]. exists (n mod 10)%N, acc. split; [apply N.mod_lt; discriminate|].
    destruct (n / 10 =? 0)%N; reflexivity.
  - remember (S f) as f'. cbn [pos_digits]. destruct (n / 10 =? 0)%N.
    + exists (n mod 10)%N, acc. split; [apply N.mod_lt; discriminate | reflexivity].
    + subst f'. apply IH.
Qed.

Definition read_Z (s : string) : Z * string :=
  match s with
  | String c r =>
    if (N_of_ascii c =? 45)%N then let (n, r') := read_nat 0 r in (- Z.of_N n, r')%Z
    else let (n, r') := read_nat 0 s in (Z.of_N n, r')
  | EmptyString => (0%Z, s)
  end.

Lemma read_Z_dec z s : nodigit s -> read_Z (Z_to_dec z ++ s) = (z, s).
Proof.
  intros Hs. destruct z as [|p|p]; cbn [Z_to_dec].
  - cbn. rewrite read_nat_nodigit by exact Hs. reflexivity.
  - pose proof (read_N_to_dec (Npos p) s Hs) as Hr. unfold N_to_dec in *.
    destruct (pos_digits_head (N.size_nat (Npos p)) (Npos p) "") as (d & r & Hd & Eq).
    rewrite Eq in *. cbn [append read_Z].
    replace (N_of_ascii (digit_char d) =? 45)%N with false.
    + cbn [append] in Hr. rewrite Hr. reflexivity.
    + symmetry. apply N.eqb_neq. unfold digit_char. rewrite N_ascii_embedding by lia. lia.
  - cbn [append read_Z]. cbn [N_of_ascii N.eqb Pos.eqb]. rewrite read_N_to_dec by exact Hs. reflexivity.
Qed.

Lemma ud_Z z z' s s' : nodigit s -> nodigit s' ->
  Z_to_dec z ++ s = Z_to_dec z' ++ s' -> z = z' /\ s = s'.
Proof.
  intros Hs Hs' Hq. apply (f_equal read_Z) in Hq. rewrite !read_Z_dec in Hq by assumption.
  injection Hq as -> ->. split; reflexivity.
Qed.

Definition bstr (b : bool) : string := if b then "true" else "false".
Lemma ud_bool b b' s s' : bstr b ++ s = bstr b' ++ s' -> b = b' /\ s = s'.
Proof.
  destruct b, b'; cbn; intros Hq; try discriminate; injection Hq as ->; split; reflexivity.
Qed.

(* ---- lists ---- *)
Definition jtail (l : list string) : string :=
  match l with [] => "" | _ => "," ++ join "," l end.

Lemma join_cons x r : join "," (x :: r) = x ++ jtail r.
Proof. destruct r; cbn [join jtail]; [rewrite sapp_nil_r|]; reflexivity. Qed.

Section UdList.
Context {A : Type} (p : A -> string).
Hypothesis p_ud : forall a a' s s', p a ++ s = p a' ++ s' -> a = a' /\ s = s'.
Hypothesis p_brace : forall a, exists r, p a = String "{" r.

Lemma ud_join : forall l l' s s',
  join "," (map p l) ++ String "]" s = join "," (map p l') ++ String "]" s' -> l = l' /\ s = s'.
Proof.
  induction l as [|a r IH]; intros l' s s' Hq.
  - destruct l' as [|a' r'].
    + cbn in Hq. injection Hq as ->. split; reflexivity.
    + exfalso. cbn [map] in Hq. rewrite join_cons, sapp_assoc in Hq.
      destruct (p_brace a') as [x Hx]. rewrite Hx in Hq. cbn in Hq. discriminate.
  - destruct l' as [|a' r'].
    + exfalso. cbn [map] in Hq. rewrite join_cons, sapp_assoc in Hq.
      destruct (p_brace a) as [x Hx]. rewrite Hx in Hq. cbn in Hq. discriminate.
    + cbn [map] in Hq. rewrite !join_cons, !sapp_assoc in Hq.
      apply p_ud in Hq. destruct Hq as [-> Hq].
      destruct r as [|b r0], r' as [|b' r0']; cbn [map jtail] in Hq.
      * cbn in Hq. injection Hq as ->. split; reflexivity.
      * cbn in Hq. discriminate.
      * cbn in Hq. discriminate.
      * cbn [append] in Hq. injection Hq as Hq.
        destruct (IH (b' :: r0') s s' Hq) as [-> ->]. split; reflexivity.
Qed.
End UdList.

Lemma ud_slice {A} (m : A -> json) :
  (forall a a' s s', render (m a) ++ s = render (m a') ++ s' -> a = a' /\ s = s') ->
  (forall a, exists r, render (m a) = String "{" r) ->
  forall l l' s s', render (jslice m l) ++ s = render (jslice m l') ++ s' -> l = l' /\ s = s'.
Proof.
  intros Hud Hbr [l|] [l'|] s s' Hq; cbn [jslice render] in Hq.
  - rewrite !map_map in Hq. cbn [append] in Hq. injection Hq as Hq. rewrite !sapp_assoc in Hq.
    cbn [append] in Hq.
    destruct (ud_join (fun a => render (m a)) Hud Hbr l l' s s' Hq) as [-> ->]. split; reflexivity.
  - cbn in Hq. discriminate.
  - cbn in Hq. discriminate.
  - cbn in Hq. injection Hq as ->. split; reflexivity.
Qed.

(* ---- the objects ---- *)
Lemma render_output_flat o s :
  render (marshal_output o) ++ s =
  "{""address"":" ++ (quote (o_addr o) ++ (",""is_yielding"":" ++ (bstr (o_yield o) ++
  (",""value"":" ++ (Z_to_dec (Z.of_N (o_val o)) ++ String "}" s))))).
Proof.
  unfold marshal_output. cbn [render map join fst snd]. rewrite !sapp_assoc.
  destruct (o_yield o); reflexivity.
Qed.

Lemma nodigit_brace s : nodigit (String "}" s).
Proof. reflexivity. Qed.
Lemma nodigit_comma s : nodigit (String "," s).
Proof. reflexivity. Qed.

Lemma ud_output o o' s s' :
  render (marshal_output o) ++ s = render (marshal_output o') ++ s' -> o = o' /\ s = s'.
Proof.
  rewrite !render_output_flat. intros Hq.
  apply sapp_inv_head in Hq. apply ud_quote in Hq. destruct Hq as [Ha Hq].
  apply sapp_inv_head in Hq. apply ud_bool in Hq. destruct Hq as [Hy Hq].
  apply sapp_inv_head in Hq. apply ud_Z in Hq; [|apply nodigit_brace|apply nodigit_brace].
  destruct Hq as [Hv Hq]. injection Hq as ->. apply N2Z.inj in Hv.
  destruct o, o'; cbn in *; subst; split; reflexivity.
Qed.

Lemma render_input_flat i s :
  render (marshal_input i) ++ s =
  "{""output_index"":" ++ (Z_to_dec (Z.of_N (i_idx i)) ++ (",""transaction_id"":" ++ (quote (i_ref i) ++
  (",""public_key"":" ++ (quote (i_key i) ++ (",""signature"":" ++ (quote (i_sig i) ++ String "}" s))))))).
Proof.
  unfold marshal_input. cbn [render map join fst snd]. rewrite !sapp_assoc. reflexivity.
Qed.

Lemma ud_input i i' s s' :
  render (marshal_input i) ++ s = render (marshal_input i') ++ s' -> i = i' /\ s = s'.
Proof.
  rewrite !render_input_flat. intros Hq.
  apply sapp_inv_head in Hq. apply ud_Z in Hq; [|apply nodigit_comma|apply nodigit_comma].
  destruct Hq as [Hn Hq]. apply N2Z.inj in Hn.
  apply sapp_inv_head in Hq. apply ud_quote in Hq. destruct Hq as [Hr Hq].
  apply sapp_inv_head in Hq. apply ud_quote in Hq. destruct Hq as [Hk Hq].
  apply sapp_inv_head in Hq. apply ud_quote in Hq. destruct Hq as [Hs Hq].
  injection Hq as ->. destruct i, i'; cbn in *; subst; split; reflexivity.
Qed.

Lemma output_brace o : exists r, render (marshal_output o) = String "{" r.
Proof. eexists. reflexivity. Qed.
Lemma input_brace i : exists r, render (marshal_input i) = String "{" r.
Proof. eexists. reflexivity. Qed.

Lemma render_idbody_flat i o ts s :
  render (marshal_idbody i o ts) ++ s =
  "{""inputs"":" ++ (render (jslice marshal_input i) ++ (",""outputs"":" ++
  (render (jslice marshal_output o) ++ (",""timestamp"":" ++ (Z_to_dec ts ++ String "}" s))))).
Proof.
  unfold marshal_idbody. cbn [render map join fst snd]. rewrite !sapp_assoc. reflexivity.
Qed.

Theorem render_idbody_inj i o ts i' o' ts' :
  render (marshal_idbody i o ts) = render (marshal_idbody i' o' ts') ->
  i = i' /\ o = o' /\ ts = ts'.
Proof.
  intros Hq. apply (f_equal (fun x => x ++ "")) in Hq. rewrite !render_idbody_flat in Hq.
  apply sapp_inv_head in Hq.
  apply (ud_slice marshal_input ud_input input_brace) in Hq. destruct Hq as [Hi Hq].
  apply sapp_inv_head in Hq.
  apply (ud_slice marshal_output ud_output output_brace) in Hq. destruct Hq as [Ho Hq].
  apply sapp_inv_head in Hq. apply ud_Z in Hq; [|apply nodigit_brace|apply nodigit_brace].
  destruct Hq as [Ht _]. auto.
Qed.

(* ---- bytes and hex ---- *)
Lemma bytes_of_string_inj a b : bytes_of_string a = bytes_of_string b -> a = b.
Proof.
  revert b. induction a as [|c r IH]; intros [|c' r']; cbn; intros Hq; try discriminate; [reflexivity|].
  injection Hq as Hc Hr. f_equal; [|apply IH; exact Hr].
  rewrite <- (ascii_N_embedding c), <- (ascii_N_embedding c'), Hc. reflexivity.
Qed.

Lemma hex_digit_n_inj n m : (n < 16)%N -> (m < 16)%N -> hex_digit_n n = hex_digit_n m -> n = m.
Proof.
  intros Hn Hm Hq. apply (f_equal N_of_ascii) in Hq. unfold hex_digit_n in Hq.
  destruct (n <? 10)%N eqn:En, (m <? 10)%N eqn:Em;
    rewrite !N_ascii_embedding in Hq by lia;
    try apply N.ltb_lt in En; try apply N.ltb_ge in En;
    try apply N.ltb_lt in Em; try apply N.ltb_ge in Em; lia.
Qed.

Definition all_bytes (l : list N) : Prop := Forall (fun b => (b < 256)%N) l.

Lemma hex_of_bytes_inj a : forall b, all_bytes a -> all_bytes b -> hex_of_bytes a = hex_of_bytes b -> a = b.
Proof.
  induction a as [|x r IH]; intros [|y r'] Ha Hb Hq; cbn in Hq; try discriminate; [reflexivity|].
  apply Forall_cons_iff in Ha. destruct Ha as [Hx Hr]. apply Forall_cons_iff in Hb. destruct Hb as [Hy Hr'].
  injection Hq as Q1 Q2 Q3.
  apply hex_digit_n_inj in Q1; [| apply N.div_lt_upper_bound; lia | apply N.div_lt_upper_bound; lia].
  apply hex_digit_n_inj in Q2; [| apply N.mod_lt; discriminate | apply N.mod_lt; discriminate].
  f_equal; [| apply IH; assumption].
  rewrite (N.div_mod x 16), (N.div_mod y 16) by discriminate. rewrite Q1, Q2. reflexivity.
Qed.

(* the hash (any hash) of the rendered id body *)
Section IdBinds.
Variable H : list N -> list N.
Hypothesis H_bytes : forall x, all_bytes (H x).

Theorem C15_id_binds i1 o1 ts1 i2 o2 ts2 :
  gen_id H i1 o1 ts1 = gen_id H i2 o2 ts2 ->
  (i1, o1, ts1) = (i2, o2, ts2) \/ exists x y : list N, x <> y /\ H x = H y.
Proof.
  unfold gen_id. intros Hq. apply hex_of_bytes_inj in Hq; [|apply H_bytes|apply H_bytes].
  destruct (list_eq_dec N.eq_dec
              (bytes_of_string (render (marshal_idbody i1 o1 ts1)))
              (bytes_of_string (render (marshal_idbody i2 o2 ts2)))) as [Eb|Nb].
  - left. apply bytes_of_string_inj, render_idbody_inj in Eb. destruct Eb as (-> & -> & ->). reflexivity.
  - right. eexists _, _. split; [exact Nb | exact Hq].
Qed.
End IdBinds.

(* sha256 returns bytes *)
Lemma compress_lt h blk : Forall (fun x => (x < w32)%N) (compress h blk).
Proof.
  unfold compress. cbv zeta.
  repeat (constructor; [unfold add32; apply N.mod_lt; discriminate|]). constructor.
Qed.

Lemma blocks_loop_lt f : forall h ws, Forall (fun x => (x < w32)%N) h ->
  Forall (fun x => (x < w32)%N) (blocks_loop f h ws).
Proof.
  induction f as [|f IH]; intros h ws Hh; cbn [blocks_loop]; [exact Hh|].
  destruct ws; [exact Hh|]. apply IH. apply compress_lt.
Qed.

Lemma bytes_of_word_lt w : (w < w32)%N -> all_bytes (bytes_of_word w).
Proof.
  intros Hw. unfold bytes_of_word, all_bytes, w32 in *.
  repeat constructor; try (apply N.mod_lt; discriminate).
  apply N.div_lt_upper_bound; [discriminate | lia].
Qed.

Lemma sha256_bytes x : all_bytes (sha256 x).
Proof.
  unfold sha256. cbv zeta.
  assert (Hl : Forall (fun w => (w < w32)%N)
                 (blocks_loop (S (length (words_of_bytes (pad x)))) H0 (words_of_bytes (pad x)))).
  { apply blocks_loop_lt. unfold H0, w32. repeat constructor. }
  induction Hl as [|w r Hw Hr IH]; cbn [flat_map]; [constructor|].
  apply Forall_app. split; [apply bytes_of_word_lt; exact Hw | exact IH].
Qed.

(* without any assumption on the hash: a collision of the printed digest *)
Theorem C15_id_binds_hex (H : list N -> list N) i1 o1 ts1 i2 o2 ts2 :
  gen_id H i1 o1 ts1 = gen_id H i2 o2 ts2 ->
  (i1, o1, ts1) = (i2, o2, ts2) \/
  exists x y : list N, x <> y /\ hex_of_bytes (H x) = hex_of_bytes (H y).
Proof.
  unfold gen_id. intros Hq.
  destruct (list_eq_dec N.eq_dec
              (bytes_of_string (render (marshal_idbody i1 o1 ts1)))
              (bytes_of_string (render (marshal_idbody i2 o2 ts2)))) as [Eb|Nb].
  - left. apply bytes_of_string_inj, render_idbody_inj in Eb. destruct Eb as (-> & -> & ->). reflexivity.
  - right. eexists _, _. split; [exact Nb | exact Hq].
Qed.

(* two decoded transactions with the same id have the same inputs, outputs and timestamp *)
Theorem C15_decoded_same_id (on_curve : string -> bool) (H : list N -> list N) j1 j2 t1 t2 :
  (forall x, all_bytes (H x)) ->
  unmarshal_tx on_curve H j1 = Ok t1 -> unmarshal_tx on_curve H j2 = Ok t2 ->
  t_id t1 = t_id t2 -> t1 = t2 \/ exists x y : list N, x <> y /\ H x = H y.
Proof.
  intros Hb D1 D2 Hid.
  pose proof (C15_id_checked _ _ _ _ D1) as I1. pose proof (C15_id_checked _ _ _ _ D2) as I2.
  rewrite I1, I2 in Hid. apply (C15_id_binds H Hb) in Hid. destruct Hid as [Heq|Hc]; [left|right; exact Hc].
  injection Heq as Hi Ho Ht. destruct t1, t2; cbn in *. subst. reflexivity.
Qed.
