(* Serial_lemmas.v — theory of model/Serial.v (property C16): operations that each run inside one
   exclusive critical section of the same lock are serializable; instance on the transactions pool
   and the conservation law of pooled transactions for every interleaving. *)
From RV Require Import model.Base model.Ledger model.Registry model.Chain model.Sync model.Pool
     model.Reach model.Serial proofs.Pool_lemmas.
From Coq Require Import Lia Permutation.

(* ---------------------------------------------------------------------------------- *)
(* generic list helpers                                                                *)
(* ---------------------------------------------------------------------------------- *)

Lemma set_nth_length {A} i (x : A) l : length (set_nth i x l) = length l.
Proof.
  revert i. induction l as [|y r IH]; intros i; [reflexivity|].
  destruct i as [|k]; cbn [set_nth length]; [reflexivity|]. rewrite IH. reflexivity.
Qed.

Lemma nth_set_nth_eq {A} i (x d : A) l : i < length l -> nth i (set_nth i x l) d = x.
Proof.
  revert i. induction l as [|y r IH]; intros i Hi; cbn [length] in Hi; [lia|].
  destruct i as [|k]; cbn [set_nth nth]; [reflexivity|]. apply IH. lia.
Qed.

Lemma nth_set_nth_neq {A} i j (x d : A) l : j <> i -> nth j (set_nth i x l) d = nth j l d.
Proof.
  revert i j. induction l as [|y r IH]; intros i j Hij; [destruct j; reflexivity|].
  destruct i as [|k]; destruct j as [|m]; cbn [set_nth nth]; try reflexivity; [lia|].
  apply IH. lia.
Qed.

Lemma map_nth_seq_aux {A} (d : A) (l : list A) : forall pre,
  map (fun i => nth i (pre ++ l) d) (seq (length pre) (length l)) = l.
Proof.
  induction l as [|x r IH]; intros pre; [reflexivity|].
  cbn [length seq map]. f_equal.
  - rewrite app_nth2 by lia. rewrite Nat.sub_diag. reflexivity.
  - replace (pre ++ x :: r) with ((pre ++ [x]) ++ r) by (rewrite <- app_assoc; reflexivity).
    replace (Datatypes.S (length pre)) with (length (pre ++ [x])) by (rewrite app_length; simpl; lia).
    apply IH.
Qed.

Lemma map_nth_seq {A} (d : A) (l : list A) : map (fun i => nth i l d) (seq 0 (length l)) = l.
Proof. exact (map_nth_seq_aux d l []). Qed.

Lemma filter_split_perm {A} (f g h : A -> bool) (l : list A) :
  (forall x, f x = g x || h x) -> (forall x, g x && h x = false) ->
  Permutation (filter f l) (filter g l ++ filter h l).
Proof.
  intros Hf Hd. induction l as [|x r IH]; [constructor|].
  cbn [filter]. rewrite (Hf x). specialize (Hd x).
  destruct (g x), (h x); cbn [orb andb] in *; try discriminate.
  - cbn [app]. constructor. exact IH.
  - apply Permutation_cons_app. exact IH.
  - exact IH.
Qed.

Lemma filter_all {A} (f : A -> bool) (l : list A) : (forall x, In x l -> f x = true) -> filter f l = l.
Proof.
  induction l as [|x r IH]; intros Hf; [reflexivity|].
  cbn [filter]. rewrite (Hf x (or_introl eq_refl)). f_equal. apply IH. intros y Hy. apply Hf. right. exact Hy.
Qed.

(* ---- proj / is_merge ---- *)

Lemma proj_app {A} i (l1 l2 : list (nat * A)) : proj i (l1 ++ l2) = proj i l1 ++ proj i l2.
Proof. unfold proj. rewrite filter_app, map_app. reflexivity. Qed.

Lemma proj_one_eq {A} i (x : A) : proj i [(i, x)] = [x].
Proof. unfold proj. cbn [filter fst]. rewrite Nat.eqb_refl. reflexivity. Qed.

Lemma proj_one_neq {A} i j (x : A) : i <> j -> proj j [(i, x)] = [].
Proof.
  intros Hij. unfold proj. cbn [filter fst].
  destruct (Nat.eqb_spec i j) as [E|_]; [contradiction|reflexivity].
Qed.

Lemma proj_cons_eq {A} i (x : A) l : proj i ((i, x) :: l) = x :: proj i l.
Proof. unfold proj. cbn [filter fst]. rewrite Nat.eqb_refl. reflexivity. Qed.

Lemma proj_cons_neq {A} i j (x : A) l : i <> j -> proj j ((i, x) :: l) = proj j l.
Proof.
  intros Hij. unfold proj. cbn [filter fst].
  destruct (Nat.eqb_spec i j) as [E|_]; [contradiction|reflexivity].
Qed.

(* the entries of thread ids below n, as a multiset, are the threads' projections put end to end *)
Lemma below_perm {A} (l : list (nat * A)) n :
  Permutation (map snd (filter (fun p => Nat.ltb (fst p) n) l))
              (List.concat (map (fun i => proj i l) (seq 0 n))).
Proof.
  induction n as [|n IH].
  - cbn [seq map List.concat]. rewrite filter_none; [constructor|]. intros x _. reflexivity.
  - rewrite seq_S, map_app, List.concat_app. cbn [plus map List.concat]. rewrite app_nil_r.
    eapply Permutation_trans.
    + apply Permutation_map.
      apply (filter_split_perm _ (fun p => Nat.ltb (fst p) n) (fun p => Nat.eqb (fst p) n)).
      * intros x. destruct (Nat.ltb_spec (fst x) (Datatypes.S n)), (Nat.ltb_spec (fst x) n),
          (Nat.eqb_spec (fst x) n); cbn [orb]; try reflexivity; lia.
      * intros x. destruct (Nat.ltb_spec (fst x) n), (Nat.eqb_spec (fst x) n); cbn [andb];
          try reflexivity; lia.
    + rewrite map_app. apply Permutation_app; [exact IH|]. unfold proj. apply Permutation_refl.
Qed.

(* an interleaving is in particular a rearrangement of all the threads' elements *)
Lemma is_merge_permutation {A} (order : list (nat * A)) (ls : list (list A)) :
  is_merge order ls -> Permutation (map snd order) (List.concat ls).
Proof.
  intros Hm.
  assert (Hlt : forall p, In p order -> Nat.ltb (fst p) (length ls) = true).
  { intros [i x] Hin. cbn [fst]. destruct (Nat.ltb_spec i (length ls)) as [|Hge]; [reflexivity|].
    exfalso. pose proof (Hm i) as Hi. rewrite (nth_overflow ls [] Hge) in Hi.
    assert (Hx : In x (proj i order)).
    { unfold proj. apply in_map_iff. exists (i, x). split; [reflexivity|].
      apply filter_In. split; [exact Hin|]. cbn [fst]. apply Nat.eqb_refl. }
    rewrite Hi in Hx. destruct Hx. }
  pose proof (below_perm order (length ls)) as Hp.
  rewrite (filter_all _ _ Hlt) in Hp.
  eapply Permutation_trans; [exact Hp|].
  replace (map (fun i => proj i order) (seq 0 (length ls))) with ls; [apply Permutation_refl|].
  rewrite <- (map_nth_seq [] ls) at 1. apply map_ext. intros i. symmetry. apply Hm.
Qed.

Lemma is_merge_nil {A} (ls : list (list A)) : (forall l, In l ls -> l = []) -> is_merge [] ls.
Proof.
  intros Hall i. unfold proj. cbn [filter map].
  destruct (nth_in_or_default i ls []) as [Hin|E]; [|symmetry; exact E].
  symmetry. apply Hall. exact Hin.
Qed.

(* ---------------------------------------------------------------------------------- *)
(* the generic theory                                                                  *)
(* ---------------------------------------------------------------------------------- *)

Section SerialLemmas.
  Variables S R Op : Type.
  Variable run : Op -> S -> S * R.

  Notation sevent := (sevent Op).
  Notation call := (call Op).
  Notation tstate := (tstate R Op).
  Notation gstate := (gstate S R Op).
  Notation sstep_fn := (sstep_fn run).
  Notation sstep := (sstep run).
  Notation sreachable := (sreachable run).
  Notation srun := (srun run).
  Notation exec := (exec run).
  Notation serial_run := (serial_run run).
  Notation sinit := (@sinit S R Op).

  (* ---- one step, characterized ---- *)
  Lemma sstep_inv (st : gstate) i st' l :
    sstep_fn st i = Some (st', l) ->
    exists e r,
      th_evs (thread st i) = e :: r /\ i < length (g_threads st) /\
      (forall j, j <> i -> thread st' j = thread st j) /\
      th_evs (thread st' i) = r /\
      match e with
      | EvLocal => g_s st' = g_s st /\ g_lock st' = g_lock st /\
                   th_res (thread st' i) = th_res (thread st i) /\ l = []
      | EvAcquire => g_lock st = None /\ g_lock st' = Some i /\ g_s st' = g_s st /\
                     th_res (thread st' i) = th_res (thread st i) /\ l = []
      | EvApply o => g_s st' = fst (run o (g_s st)) /\ g_lock st' = g_lock st /\
                     th_res (thread st' i) = th_res (thread st i) ++ [snd (run o (g_s st))] /\
                     l = [(i, o)]
      | EvRelease => g_lock st' = None /\ g_s st' = g_s st /\
                     th_res (thread st' i) = th_res (thread st i) /\ l = []
      end.
  Proof.
    unfold Serial.sstep_fn. intros Hs.
    destruct (nth_error (g_threads st) i) as [th|] eqn:Eth; [|discriminate].
    assert (Hlen : i < length (g_threads st)) by (apply nth_error_Some; congruence).
    assert (Hth : thread st i = th) by (unfold thread; apply nth_error_nth; exact Eth).
    destruct (th_evs th) as [|e r] eqn:Eev; [discriminate|].
    exists e, r. rewrite Hth. split; [exact Eev|]. split; [exact Hlen|].
    destruct e as [| |o|].
    - inversion Hs; subst st' l. unfold thread. cbn [g_threads g_s g_lock].
      split; [intros j Hj; apply nth_set_nth_neq; exact Hj|].
      rewrite (nth_set_nth_eq i _ _ _ Hlen). cbn [th_evs th_res]. repeat split.
    - destruct (g_lock st) as [k|] eqn:El; [discriminate|].
      inversion Hs; subst st' l. unfold thread. cbn [g_threads g_s g_lock].
      split; [intros j Hj; apply nth_set_nth_neq; exact Hj|].
      rewrite (nth_set_nth_eq i _ _ _ Hlen). cbn [th_evs th_res]. repeat split.
    - destruct (run o (g_s st)) as [s' x] eqn:Er.
      inversion Hs; subst st' l. unfold thread. cbn [g_threads g_s g_lock fst snd].
      split; [intros j Hj; apply nth_set_nth_neq; exact Hj|].
      rewrite (nth_set_nth_eq i _ _ _ Hlen). cbn [th_evs th_res]. repeat split.
    - inversion Hs; subst st' l. unfold thread. cbn [g_threads g_s g_lock].
      split; [intros j Hj; apply nth_set_nth_neq; exact Hj|].
      rewrite (nth_set_nth_eq i _ _ _ Hlen). cbn [th_evs th_res]. repeat split.
  Qed.

  (* a thread with a next event moves unless that event is an Acquire and the lock is taken *)
  Lemma sstep_fn_some (st : gstate) i e r :
    i < length (g_threads st) -> th_evs (thread st i) = e :: r ->
    (e = EvAcquire -> g_lock st = None) ->
    exists st' l, sstep_fn st i = Some (st', l).
  Proof.
    intros Hlen Hev Hacq. unfold Serial.sstep_fn.
    destruct (nth_error (g_threads st) i) as [th|] eqn:Eth.
    2:{ apply nth_error_None in Eth. lia. }
    assert (Hth : thread st i = th) by (unfold thread; apply nth_error_nth; exact Eth).
    rewrite Hth in Hev. rewrite Hev.
    destruct e as [| |o|].
    - eexists. eexists. reflexivity.
    - rewrite (Hacq eq_refl). eexists. eexists. reflexivity.
    - destruct (run o (g_s st)) as [s' x]. eexists. eexists. reflexivity.
    - eexists. eexists. reflexivity.
  Qed.

  Lemma thread_init (progs : list (list call)) (s0 : S) i :
    thread (sinit progs s0) i = mkTh (compile (nth i progs [])) ([] : list R).
  Proof.
    unfold thread, sinit. cbn [g_threads].
    change (@th_done R Op) with ((fun p : list call => mkTh (compile p) ([] : list R)) []).
    rewrite map_nth. reflexivity.
  Qed.

  Lemma thread_overflow (st : gstate) i : length (g_threads st) <= i -> thread st i = th_done.
  Proof. intros Hi. unfold thread. apply nth_overflow. exact Hi. Qed.

  (* ---- runs ---- *)
  Lemma srun_cons (st st1 st2 : gstate) i l log :
    sstep_fn st i = Some (st1, l) -> srun st1 log st2 -> srun st (l ++ log) st2.
  Proof.
    intros Hs Hr. induction Hr as [st1|st1 log st2 j st3 l' Hr IH Hs'].
    - rewrite app_nil_r. change l with ([] ++ l). eapply srun_step; [apply srun_nil|exact Hs].
    - rewrite app_assoc. eapply srun_step; [apply IH; exact Hs|exact Hs'].
  Qed.

  Lemma exec_srun sched : forall (st st' : gstate) log,
    exec sched st = Some (st', log) -> srun st log st'.
  Proof.
    induction sched as [|i r IH]; intros st st' log He; cbn [Serial.exec] in He.
    - inversion He; subst. apply srun_nil.
    - destruct (sstep_fn st i) as [[st1 l]|] eqn:Es; [|discriminate].
      destruct (exec r st1) as [[st2 l']|] eqn:Ee; [|discriminate].
      inversion He; subst. eapply srun_cons; [exact Es|]. apply IH. exact Ee.
  Qed.

  Lemma sreachable_srun progs s0 st :
    sreachable progs s0 st <-> exists log, srun (sinit progs s0) log st.
  Proof.
    split.
    - intros Hr. induction Hr as [|st i st' Hr [log IH] [l Hs]].
      + exists []. apply srun_nil.
      + exists (log ++ l). eapply srun_step; [exact IH|exact Hs].
    - intros [log Hr]. remember (sinit progs s0) as st0 eqn:E0.
      induction Hr as [st|st log st' i st'' l Hr IH Hs].
      + subst. apply sreach_init.
      + eapply sreach_step; [apply IH; exact E0|]. exists l. exact Hs.
  Qed.

  Lemma exec_reachable progs s0 sched st log :
    exec sched (sinit progs s0) = Some (st, log) -> sreachable progs s0 st.
  Proof. intros He. apply sreachable_srun. exists log. apply exec_srun with sched. exact He. Qed.

  Lemma quiescentb_true (st : gstate) : quiescentb st = true -> quiescent st.
  Proof.
    unfold quiescentb, quiescent. intros Hq i. rewrite forallb_forall in Hq.
    unfold thread. destruct (nth_in_or_default i (g_threads st) th_done) as [Hin|E].
    - specialize (Hq _ Hin). destruct (th_evs (nth i (g_threads st) th_done)); [reflexivity|discriminate].
    - rewrite E. reflexivity.
  Qed.

  (* -------------------------------------------------------------------------------- *)
  (* 1. the lock invariant                                                             *)
  (* -------------------------------------------------------------------------------- *)

  (* shape of what a thread has left to run when it is outside a critical section ... *)
  Fixpoint wf_out (evs : list sevent) : bool :=
    match evs with
    | [] => true
    | EvLocal :: r => wf_out r
    | EvAcquire :: EvApply _ :: EvRelease :: r => wf_out r
    | _ => false
    end.
  (* ... or anywhere *)
  Definition wf_th (evs : list sevent) : bool :=
    match evs with
    | EvApply _ :: EvRelease :: r => wf_out r
    | EvRelease :: r => wf_out r
    | _ => wf_out evs
    end.

  Lemma wf_out_locals k l : wf_out (repeat EvLocal k ++ l) = wf_out l.
  Proof. induction k as [|k IH]; [reflexivity|]. cbn [repeat app wf_out]. exact IH. Qed.

  Lemma wf_out_compile (p : list call) : wf_out (compile p) = true.
  Proof.
    induction p as [|c p IH]; [reflexivity|].
    unfold compile. cbn [flat_map]. fold (compile p). unfold call_events.
    rewrite <- !app_assoc. rewrite wf_out_locals. cbn [app wf_out]. rewrite wf_out_locals. exact IH.
  Qed.

  Lemma wf_out_not_inside evs : wf_out evs = true -> inside evs = false.
  Proof. destruct evs as [|[| |o|] r]; cbn [wf_out inside]; intros E; try reflexivity; discriminate. Qed.

  Definition linv (st : gstate) : Prop :=
    (forall i, wf_th (th_evs (thread st i)) = true) /\
    (forall i, in_cs st i = true -> g_lock st = Some i) /\
    (forall i, g_lock st = Some i -> in_cs st i = true).

  Lemma linv_init progs s0 : linv (sinit progs s0).
  Proof.
    assert (Hout : forall i, wf_out (th_evs (thread (sinit progs s0) i)) = true).
    { intros i. rewrite thread_init. cbn [th_evs]. apply wf_out_compile. }
    split; [|split].
    - intros i. specialize (Hout i). unfold wf_th.
      destruct (th_evs (thread (sinit progs s0) i)) as [|[| |o|] r]; try exact Hout; discriminate.
    - intros i Hin. unfold in_cs in Hin. rewrite (wf_out_not_inside _ (Hout i)) in Hin. discriminate.
    - intros i Hl. discriminate.
  Qed.

  Lemma linv_step (st : gstate) i st' l : linv st -> sstep_fn st i = Some (st', l) -> linv st'.
  Proof.
    intros [Hwf [Hin Hlk]] Hs.
    apply sstep_inv in Hs as [e [r [Hev [Hlen [Hoth [Hev' Hcase]]]]]].
    pose proof (Hwf i) as Hwi. rewrite Hev in Hwi.
    assert (Hothcs : forall j, j <> i -> in_cs st' j = in_cs st j).
    { intros j Hj. unfold in_cs. rewrite (Hoth j Hj). reflexivity. }
    assert (Hwfoth : forall j, j <> i -> wf_th (th_evs (thread st' j)) = true).
    { intros j Hj. rewrite (Hoth j Hj). apply Hwf. }
    destruct e as [| |o|].
    - (* Local *)
      destruct Hcase as [_ [Hl' _]]. cbn [wf_th wf_out] in Hwi.
      assert (Hni : in_cs st' i = false).
      { unfold in_cs. rewrite Hev'. apply wf_out_not_inside. exact Hwi. }
      assert (Hnold : in_cs st i = false) by (unfold in_cs; rewrite Hev; reflexivity).
      split; [|split].
      + intros j. destruct (Nat.eq_dec j i) as [->|Hj]; [|apply Hwfoth; exact Hj].
        rewrite Hev'. unfold wf_th. destruct r as [|[| |o|] r']; try exact Hwi; discriminate.
      + intros j Hj. rewrite Hl'. destruct (Nat.eq_dec j i) as [->|Hne]; [congruence|].
        apply Hin. rewrite <- (Hothcs j Hne). exact Hj.
      + intros j Hj. rewrite Hl' in Hj. destruct (Nat.eq_dec j i) as [->|Hne].
        * apply Hlk in Hj. congruence.
        * rewrite (Hothcs j Hne). apply Hlk. exact Hj.
    - (* Acquire *)
      destruct Hcase as [Hfree [Hl' _]]. cbn [wf_th wf_out] in Hwi.
      destruct r as [|[| |o|] [|[| |o'|] r']]; try discriminate.
      split; [|split].
      + intros j. destruct (Nat.eq_dec j i) as [->|Hj]; [|apply Hwfoth; exact Hj].
        rewrite Hev'. cbn [wf_th]. exact Hwi.
      + intros j Hj. rewrite Hl'. destruct (Nat.eq_dec j i) as [->|Hne]; [reflexivity|].
        rewrite (Hothcs j Hne) in Hj. apply Hin in Hj. congruence.
      + intros j Hj. rewrite Hl' in Hj. inversion Hj; subst j.
        unfold in_cs. rewrite Hev'. reflexivity.
    - (* Apply *)
      destruct Hcase as [_ [Hl' _]]. cbn [wf_th] in Hwi.
      destruct r as [|[| |o'|] r']; try discriminate.
      assert (Hold : g_lock st = Some i) by (apply Hin; unfold in_cs; rewrite Hev; reflexivity).
      split; [|split].
      + intros j. destruct (Nat.eq_dec j i) as [->|Hj]; [|apply Hwfoth; exact Hj].
        rewrite Hev'. cbn [wf_th]. exact Hwi.
      + intros j Hj. rewrite Hl'. destruct (Nat.eq_dec j i) as [->|Hne]; [exact Hold|].
        apply Hin. rewrite <- (Hothcs j Hne). exact Hj.
      + intros j Hj. rewrite Hl', Hold in Hj. inversion Hj; subst j.
        unfold in_cs. rewrite Hev'. reflexivity.
    - (* Release *)
      destruct Hcase as [Hl' _]. cbn [wf_th] in Hwi.
      assert (Hold : g_lock st = Some i) by (apply Hin; unfold in_cs; rewrite Hev; reflexivity).
      assert (Hni : in_cs st' i = false).
      { unfold in_cs. rewrite Hev'. apply wf_out_not_inside. exact Hwi. }
      split; [|split].
      + intros j. destruct (Nat.eq_dec j i) as [->|Hj]; [|apply Hwfoth; exact Hj].
        rewrite Hev'. unfold wf_th. destruct r as [|[| |o|] r']; try exact Hwi; discriminate.
      + intros j Hj. destruct (Nat.eq_dec j i) as [->|Hne]; [congruence|].
        rewrite (Hothcs j Hne) in Hj. apply Hin in Hj. congruence.
      + intros j Hj. rewrite Hl' in Hj. discriminate.
  Qed.

  Lemma linv_reachable progs s0 st : sreachable progs s0 st -> linv st.
  Proof.
    intros Hr. induction Hr as [|st i st' Hr IH [l Hs]]; [apply linv_init|].
    eapply linv_step; [exact IH|exact Hs].
  Qed.

  (* item 1: a thread between its Acquire and its Release holds the lock, and no other thread is
     inside a critical section at the same time *)
  Theorem lock_invariant progs s0 st :
    sreachable progs s0 st ->
    forall i, in_cs st i = true ->
      g_lock st = Some i /\ forall j, j <> i -> in_cs st j = false.
  Proof.
    intros Hr i Hi. destruct (linv_reachable _ _ _ Hr) as [_ [Hin _]].
    split; [apply Hin; exact Hi|].
    intros j Hj. destruct (in_cs st j) eqn:Ej; [|reflexivity].
    apply Hin in Ej. apply Hin in Hi. congruence.
  Qed.

  (* in particular Apply events are mutually exclusive and happen under the lock *)
  Corollary apply_exclusive progs s0 st i o r :
    sreachable progs s0 st -> th_evs (thread st i) = EvApply o :: r ->
    g_lock st = Some i /\ forall j, j <> i -> in_cs st j = false.
  Proof.
    intros Hr Hev. apply (lock_invariant _ _ _ Hr). unfold in_cs. rewrite Hev. reflexivity.
  Qed.

  (* conversely the lock is held only by a thread inside its critical section *)
  Lemma lock_held_inside progs s0 st i :
    sreachable progs s0 st -> g_lock st = Some i -> in_cs st i = true.
  Proof. intros Hr. destruct (linv_reachable _ _ _ Hr) as [_ [_ Hlk]]. apply Hlk. Qed.

  (* no deadlock: while something is left to run, some thread can move *)
  Theorem progress progs s0 st :
    sreachable progs s0 st -> ~ quiescent st -> exists i st', sstep st i st'.
  Proof.
    intros Hr Hnq.
    assert (Hlen : forall i e r, th_evs (thread st i) = e :: r -> i < length (g_threads st)).
    { intros i e r Hev. destruct (Nat.lt_ge_cases i (length (g_threads st))) as [|Hge]; [assumption|].
      rewrite (thread_overflow _ _ Hge) in Hev. discriminate. }
    destruct (g_lock st) as [k|] eqn:El.
    - pose proof (lock_held_inside _ _ _ _ Hr El) as Hk. unfold in_cs in Hk.
      destruct (th_evs (thread st k)) as [|e r] eqn:Hev; [discriminate|].
      destruct (sstep_fn_some st k e r (Hlen _ _ _ Hev) Hev) as [st' [l Hs]].
      { intros ->. discriminate. }
      exists k, st', l. exact Hs.
    - assert (Hex : exists i, th_evs (thread st i) <> []).
      { clear - Hnq. unfold quiescent in Hnq.
        assert (Hd : forall n, (forall i, i < n -> th_evs (thread st i) = []) \/
                               exists i, th_evs (thread st i) <> []).
        { induction n as [|n [IH|IH]]; [left; intros i Hi; lia| |right; exact IH].
          destruct (th_evs (thread st n)) as [|e r] eqn:E.
          - left. intros i Hi. destruct (Nat.eq_dec i n) as [->|Hne]; [exact E|apply IH; lia].
          - right. exists n. rewrite E. discriminate. }
        destruct (Hd (length (g_threads st))) as [Hall|Hex]; [|exact Hex].
        exfalso. apply Hnq. intros i.
        destruct (Nat.lt_ge_cases i (length (g_threads st))) as [Hlt|Hge]; [apply Hall; exact Hlt|].
        rewrite (thread_overflow _ _ Hge). reflexivity. }
      destruct Hex as [i Hi]. destruct (th_evs (thread st i)) as [|e r] eqn:Hev; [congruence|].
      destruct (sstep_fn_some st i e r (Hlen _ _ _ Hev) Hev) as [st' [l Hs]]; [intros _; exact El|].
      exists i, st', l. exact Hs.
  Qed.

  (* -------------------------------------------------------------------------------- *)
  (* 2. serializability                                                                *)
  (* -------------------------------------------------------------------------------- *)

  Lemma serial_run_snoc order i o s :
    serial_run (order ++ [(i, o)]) s =
    (fst (run o (fst (serial_run order s))),
     snd (serial_run order s) ++ [(i, snd (run o (fst (serial_run order s))))]).
  Proof.
    revert s. induction order as [|[j p] r IH]; intros s.
    - cbn [app Serial.serial_run fst snd]. destruct (run o s) as [s' x]. reflexivity.
    - cbn [app Serial.serial_run]. destruct (run p s) as [s1 x1]. rewrite IH.
      destruct (serial_run r s1) as [s2 xs]. reflexivity.
  Qed.

  Lemma serial_run_app l1 l2 s :
    serial_run (l1 ++ l2) s =
    (fst (serial_run l2 (fst (serial_run l1 s))),
     snd (serial_run l1 s) ++ snd (serial_run l2 (fst (serial_run l1 s)))).
  Proof.
    revert s. induction l1 as [|[j p] r IH]; intros s.
    - cbn [app Serial.serial_run fst snd]. destruct (serial_run l2 s). reflexivity.
    - cbn [app Serial.serial_run]. destruct (run p s) as [s1 x1]. rewrite IH.
      destruct (serial_run r s1) as [s2 xs]. reflexivity.
  Qed.

  (* the operations a thread has still to apply *)
  Definition pending (evs : list sevent) : list Op :=
    flat_map (fun e => match e with EvApply o => [o] | _ => [] end) evs.

  Lemma pending_locals k : pending (repeat EvLocal k) = [].
  Proof. induction k as [|k IH]; [reflexivity|exact IH]. Qed.

  Lemma pending_compile (p : list call) : pending (compile p) = ops_of p.
  Proof.
    induction p as [|c p IH]; [reflexivity|].
    unfold compile. cbn [flat_map]. fold (compile p). unfold pending.
    rewrite flat_map_app. fold (pending (compile p)). rewrite IH.
    unfold call_events. rewrite !flat_map_app. fold (pending (repeat EvLocal (c_pre c))).
    fold (pending (repeat EvLocal (c_post c))). rewrite !pending_locals. reflexivity.
  Qed.

  (* the invariant of a run: the shared state is the serial run of the Apply events so far, each
     thread's results are its results in that serial run, and each thread's applied operations
     followed by its pending ones are its program *)
  Definition tinv (progs : list (list call)) (s0 : S) (log : list (nat * Op)) (st : gstate) : Prop :=
    g_s st = fst (serial_run log s0) /\
    (forall i, th_res (thread st i) = proj i (snd (serial_run log s0))) /\
    (forall i, proj i log ++ pending (th_evs (thread st i)) = ops_of (nth i progs [])).

  (* item 2, the strong form *)
  Theorem trace_serializable progs s0 log st :
    srun (sinit progs s0) log st -> tinv progs s0 log st.
  Proof.
    intros Hr. remember (sinit progs s0) as st0 eqn:E0.
    induction Hr as [st|st log st' i st'' l Hr IH Hs].
    - subst st. split; [reflexivity|]. split.
      + intros i. rewrite thread_init. reflexivity.
      + intros i. rewrite thread_init. cbn [th_evs proj filter map app]. apply pending_compile.
    - specialize (IH E0). destruct IH as [Hst [Hres Hops]].
      apply sstep_inv in Hs as [e [r [Hev [Hlen [Hoth [Hev' Hcase]]]]]].
      assert (Hsame : l = [] -> g_s st'' = g_s st' ->
                      th_res (thread st'' i) = th_res (thread st' i) ->
                      pending r = pending (e :: r) -> tinv progs s0 (log ++ l) st'').
      { intros -> Hs2 Hr2 Hp. rewrite app_nil_r. split; [congruence|]. split.
        - intros j. destruct (Nat.eq_dec j i) as [->|Hj]; [rewrite Hr2; apply Hres|].
          rewrite (Hoth j Hj). apply Hres.
        - intros j. destruct (Nat.eq_dec j i) as [->|Hj].
          + rewrite Hev', Hp, <- Hev. apply Hops.
          + rewrite (Hoth j Hj). apply Hops. }
      destruct e as [| |o|].
      + destruct Hcase as [A [_ [B C]]]. apply Hsame; auto.
      + destruct Hcase as [_ [_ [A [B C]]]]. apply Hsame; auto.
      + destruct Hcase as [A [_ [B ->]]]. unfold tinv. rewrite serial_run_snoc. cbn [fst snd].
        rewrite <- Hst. split; [exact A|]. split.
        * intros j. rewrite proj_app. destruct (Nat.eq_dec j i) as [->|Hj].
          -- rewrite proj_one_eq, B, Hres. reflexivity.
          -- rewrite proj_one_neq by congruence. rewrite app_nil_r, (Hoth j Hj). apply Hres.
        * intros j. rewrite proj_app. destruct (Nat.eq_dec j i) as [->|Hj].
          -- rewrite proj_one_eq, Hev', <- app_assoc. rewrite <- (Hops i), Hev. reflexivity.
          -- rewrite proj_one_neq by congruence. rewrite app_nil_r, (Hoth j Hj). apply Hops.
      + destruct Hcase as [_ [A [B C]]]. apply Hsame; auto.
  Qed.

  (* at quiescence the Apply events are an interleaving of the programs *)
  Theorem quiescent_merge progs s0 log st :
    srun (sinit progs s0) log st -> quiescent st -> is_merge log (map ops_of progs).
  Proof.
    intros Hr Hq i. destruct (trace_serializable _ _ _ _ Hr) as [_ [_ Hops]].
    specialize (Hops i). rewrite (Hq i) in Hops. cbn [pending flat_map] in Hops.
    rewrite app_nil_r in Hops. rewrite Hops.
    change (@nil Op) with (ops_of (@nil call)). rewrite map_nth. reflexivity.
  Qed.

  (* item 2 *)
  Theorem serializable progs s0 st :
    sreachable progs s0 st -> quiescent st ->
    exists order,
      is_merge order (map ops_of progs) /\
      fst (serial_run order s0) = g_s st /\
      forall i, proj i (snd (serial_run order s0)) = th_res (thread st i).
  Proof.
    intros Hr Hq. apply sreachable_srun in Hr as [log Hr]. exists log.
    split; [exact (quiescent_merge _ _ _ _ Hr Hq)|].
    destruct (trace_serializable _ _ _ _ Hr) as [Hst [Hres _]].
    split; [symmetry; exact Hst|]. intros i. symmetry. apply Hres.
  Qed.

  (* the serial order contains every operation of every program exactly once *)
  Corollary serializable_permutation progs s0 st :
    sreachable progs s0 st -> quiescent st ->
    exists order,
      Permutation (map snd order) (List.concat (map ops_of progs)) /\
      is_merge order (map ops_of progs) /\
      fst (serial_run order s0) = g_s st.
  Proof.
    intros Hr Hq. destruct (serializable _ _ _ Hr Hq) as [order [Hm [Hs _]]].
    exists order. split; [apply is_merge_permutation; exact Hm|]. split; assumption.
  Qed.
  (* every step consumes one event: executions are finite *)
  Definition remaining (st : gstate) : nat :=
    list_sum (map (fun th : tstate => length (th_evs th)) (g_threads st)).

  Lemma remaining_set_nth (l : list tstate) : forall i th th',
    nth_error l i = Some th ->
    list_sum (map (fun th : tstate => length (th_evs th)) (set_nth i th' l)) + length (th_evs th)
    = list_sum (map (fun th : tstate => length (th_evs th)) l) + length (th_evs th').
  Proof.
    induction l as [|y r IH]; intros i th th' Hn; [destruct i; discriminate|].
    destruct i as [|k]; cbn [nth_error] in Hn.
    - inversion Hn; subst y. cbn [set_nth map list_sum fold_right]. lia.
    - cbn [set_nth map list_sum fold_right]. specialize (IH k th th' Hn). unfold list_sum in IH. lia.
  Qed.

  Theorem step_consumes (st : gstate) i st' :
    sstep st i st' -> remaining st = Datatypes.S (remaining st').
  Proof.
    intros [l Hs]. unfold Serial.sstep_fn in Hs. unfold remaining.
    destruct (nth_error (g_threads st) i) as [th|] eqn:Eth; [|discriminate].
    destruct (th_evs th) as [|e r] eqn:Eev; [discriminate|].
    assert (Hgen : forall res,
      list_sum (map (fun th : tstate => length (th_evs th)) (g_threads st)) =
      Datatypes.S (list_sum (map (fun th : tstate => length (th_evs th))
                                 (set_nth i (mkTh r res) (g_threads st))))).
    { intros res. pose proof (remaining_set_nth _ _ _ (mkTh r res) Eth) as E.
      rewrite Eev in E. cbn [th_evs length] in E. lia. }
    destruct e as [| |o|].
    - inversion Hs; subst. cbn [g_threads]. apply Hgen.
    - destruct (g_lock st); [discriminate|]. inversion Hs; subst. cbn [g_threads]. apply Hgen.
    - destruct (run o (g_s st)) as [s' x]. inversion Hs; subst. cbn [g_threads]. apply Hgen.
    - inversion Hs; subst. cbn [g_threads]. apply Hgen.
  Qed.
End SerialLemmas.

(* the serial run, state only, is a fold *)
Lemma serial_run_fold {S R Op} (run : Op -> S -> S * R) order : forall s,
  fst (serial_run run order s) = fold_left (fun s o => fst (run o s)) (map snd order) s.
Proof.
  induction order as [|[i o] r IH]; intros s; [reflexivity|].
  cbn [Serial.serial_run map snd fold_left]. rewrite <- IH.
  destruct (run o s) as [s1 x]. cbn [fst]. destruct (serial_run run r s1). reflexivity.
Qed.

Lemma serial_run_cons_fst {S R Op} (run : Op -> S -> S * R) i o r s :
  fst (serial_run run ((i, o) :: r) s) = fst (serial_run run r (fst (run o s))).
Proof.
  cbn [Serial.serial_run]. destruct (run o s) as [s1 x]. cbn [fst].
  destruct (serial_run run r s1). reflexivity.
Qed.

(* ---------------------------------------------------------------------------------- *)
(* 3. the transactions pool                                                            *)
(* ---------------------------------------------------------------------------------- *)

(* the three operations of transactions_pool.go that touch the pool, each inside one critical
   section of the pool's mutex (C16_atomic_sections) *)
Inductive pop :=
| PAdd (t : tx)                          (* AddTransaction: a submission *)
| PValidate (ts : Z) (perm : list nat)   (* Validate: a production tick *)
| PRead.                                 (* Transactions: a read of the pool *)

(* what the caller observes *)
Inductive pres :=
| RAdd (e : option err)      (* None: taken into the pool; Some e: refused *)
| RVal (o : outcome)         (* block produced (with the log of dropped ids) or refused *)
| RRead (ids : list string).

Section PoolSerial.
  Variable value_fn : N -> bool -> Z -> N.
  Variable addr_of : string -> string.
  Variable sig_ok : input -> bool.
  Variable H : block -> hash.
  Variable gen_id : slice input -> slice output -> Z -> string.
  Variable S : settings.
  Variable validator : string.

  Notation pool_add := (Pool.pool_add value_fn addr_of sig_ok S).
  Notation validate := (Pool.validate value_fn addr_of sig_ok H gen_id S validator).
  Notation step := (Reach.step value_fn addr_of sig_ok H gen_id S validator).
  Notation greedy := (greedy value_fn addr_of sig_ok S).
  Notation greedy_rest := (greedy_rest value_fn addr_of sig_ok S).
  Notation greedy_log := (greedy_log value_fn addr_of sig_ok S).

  Definition op_of_pop (p : pop) : option op :=
    match p with
    | PAdd t => Some (OpAdd t)
    | PValidate ts perm => Some (OpValidate ts perm)
    | PRead => None
    end.

  (* effect and result of a pool operation *)
  Definition pool_sop (p : pop) (n : node) : node * pres :=
    match p with
    | PAdd t => match pool_add n t with
                | Ok n' => (n', RAdd None)
                | Err e => (n, RAdd (Some e))
                end
    | PValidate ts perm => let '(n', o) := validate n ts perm in (n', RVal o)
    | PRead => (n, RRead (pool_ids n))
    end.

  (* the effect is the [step] of model/Reach.v *)
  Definition pop_step (n : node) (p : pop) : node :=
    match op_of_pop p with Some o => step n o | None => n end.

  Lemma pool_sop_step p n : fst (pool_sop p n) = pop_step n p.
  Proof.
    destruct p as [t|ts perm|]; unfold pop_step; cbn [op_of_pop pool_sop Reach.step].
    - destruct (pool_add n t); reflexivity.
    - destruct (validate n ts perm). reflexivity.
    - reflexivity.
  Qed.

  Lemma pool_serial_fold order n :
    fst (serial_run pool_sop order n) = fold_left pop_step (map snd order) n.
  Proof.
    rewrite serial_run_fold. generalize (map snd order) as os. intros os. revert n.
    induction os as [|p r IH]; intros n; [reflexivity|].
    cbn [fold_left]. rewrite pool_sop_step. apply IH.
  Qed.

  (* item 3 *)
  Theorem C16_pool_serial (progs : list (list (call pop))) (n0 : node) st :
    sreachable pool_sop progs n0 st -> quiescent st ->
    exists order : list (nat * pop),
      is_merge order (map ops_of progs) /\
      Permutation (map snd order) (List.concat (map ops_of progs)) /\
      g_s st = fold_left pop_step (map snd order) n0 /\
      forall i, th_res (thread st i) = proj i (snd (serial_run pool_sop order n0)).
  Proof.
    intros Hr Hq. destruct (serializable _ _ _ pool_sop _ _ _ Hr Hq) as [order [Hm [Hs Hres]]].
    exists order. split; [exact Hm|]. split; [apply is_merge_permutation; exact Hm|].
    split; [rewrite <- pool_serial_fold; symmetry; exact Hs|].
    intros i. symmetry. apply Hres.
  Qed.

  (* -------------------------------------------------------------------------------- *)
  (* 4. conservation of pooled transactions                                            *)
  (* -------------------------------------------------------------------------------- *)

  (* the ordinary transactions of a produced block: all but the reward, which comes last *)
  Definition body (b : block) : list tx := removelast (txs b).
  Definition body_ids (b : block) : list string := map t_id (body b).

  (* the id taken into the pool by this operation, if any *)
  Definition step_accepted (p : pop) (r : pres) : list string :=
    match p, r with PAdd t, RAdd None => [t_id t] | _, _ => [] end.
  (* the ids logged as dropped by this operation *)
  Definition step_dropped (r : pres) : list string :=
    match r with RVal (Produced d) => map fst d | _ => [] end.

  (* rand.Shuffle really shuffles: the index list is a rearrangement of 0 .. len(pool)-1 *)
  Definition pop_ok (n : node) (p : pop) : Prop :=
    match p with
    | PValidate _ perm => Permutation perm (seq 0 (length (elems (n_pool n))))
    | _ => True
    end.

  Lemma pool_conservation_step n p :
    match p with
    | PAdd t =>
      (exists e, pool_sop p n = (n, RAdd (Some e))) \/
      (exists n', pool_sop p n = (n', RAdd None) /\
                  pool_ids n' = pool_ids n ++ [t_id t] /\ n_c n' = n_c n /\
                  ~ In (t_id t) (pool_ids n))
    | PValidate ts perm =>
      (exists e, pool_sop p n = (n, RVal (Refused e))) \/
      (exists n', pool_sop p n = (n', RVal (Refused ETime)) /\ n_c n' = n_c n /\
                  chain (n_c n) <> [] /\ (ts <= last_block_ts (chain (n_c n)))%Z /\
                  (Permutation perm (seq 0 (length (elems (n_pool n)))) ->
                   Permutation (pool_ids n) (pool_ids n'))) \/
      (exists n' d b, pool_sop p n = (n', RVal (Produced d)) /\
                      chain (n_c n') = chain (n_c n) ++ [b] /\ pool_ids n' = [] /\
                      incl (body b) (elems (n_pool n)) /\
                      (Permutation perm (seq 0 (length (elems (n_pool n)))) ->
                       Permutation (pool_ids n) (body_ids b ++ map fst d)))
    | PRead => pool_sop p n = (n, RRead (pool_ids n))
    end.
  Proof.
    destruct p as [t|ts perm|]; cbn [pool_sop].
    - destruct (pool_add n t) as [n'|e] eqn:E; [right|left; exists e; reflexivity].
      exists n'. split; [reflexivity|].
      split; [exact (pool_add_ids _ _ _ _ _ _ _ E)|].
      split; [rewrite (pool_add_node _ _ _ _ _ _ _ E); reflexivity|].
      apply pool_add_sound in E. cbv zeta in E. destruct E as [_ [_ [Hni _]]]. exact Hni.
    - destruct (validate n ts perm) as [n' [d|e]] eqn:E.
      + right. right. apply validate_produced in E. cbv zeta in E.
        destruct E as [kept [reward [u0 [_ [Hk [_ [Hd [Hc [Hp [Hincl [Htxs _]]]]]]]]]]].
        exists n', d. eexists. split; [reflexivity|]. split; [exact Hc|].
        split; [unfold pool_ids; rewrite Hp; reflexivity|].
        unfold body_ids, body. rewrite Htxs, removelast_last.
        split; [exact Hincl|].
        cbn [pop_ok]. intros Hperm. rewrite Hd, greedy_log_ids, <- map_app.
        unfold pool_ids. apply Permutation_map. apply Permutation_sym. rewrite Hk.
        apply validate_tries_all. exact Hperm.
      + rewrite (validate_refused_id _ _ _ _ _ _ _ _ _ _ _ _ E). left; exists e; reflexivity.
    - reflexivity.
  Qed.

  (* one operation, as a balance of ids: what was pooled plus what was taken in is what is pooled
     afterwards plus what went into a new block plus what was logged as dropped *)
  Lemma pool_step_balance n p :
    pop_ok n p ->
    exists bs,
      chain (n_c (fst (pool_sop p n))) = chain (n_c n) ++ bs /\
      Permutation (pool_ids n ++ step_accepted p (snd (pool_sop p n)))
                  (pool_ids (fst (pool_sop p n)) ++ flat_map body_ids bs
                   ++ step_dropped (snd (pool_sop p n))).
  Proof.
    intros Hok. pose proof (pool_conservation_step n p) as Hc.
    destruct p as [t|ts perm|].
    - destruct Hc as [[e E]|[n' [E [Hids [Hcs _]]]]]; rewrite E; cbn [fst snd step_accepted step_dropped];
        exists []; rewrite !app_nil_r.
      + split; [reflexivity|apply Permutation_refl].
      + split; [rewrite Hcs; reflexivity|]. rewrite Hids. apply Permutation_refl.
    - destruct Hc as [[e E]|[[n' [E [Hcs [_ [_ Hperm]]]]]|[n' [d [b [E [Hch [Hids [_ Hperm]]]]]]]]];
        rewrite E; cbn [fst snd step_accepted step_dropped].
      + exists []. rewrite !app_nil_r. split; [reflexivity|apply Permutation_refl].
      + exists []. cbn [flat_map]. rewrite !app_nil_r. split; [rewrite Hcs; reflexivity|].
        apply Hperm. exact Hok.
      + exists [b]. split; [exact Hch|]. rewrite Hids. cbn [flat_map app]. rewrite !app_nil_r.
        apply Hperm. exact Hok.
    - rewrite Hc. cbn [fst snd step_accepted step_dropped]. exists []. rewrite !app_nil_r.
      split; [reflexivity|apply Permutation_refl].
  Qed.

  (* ---- along a sequential run ---- *)
  Fixpoint accepted (order : list (nat * pop)) (n : node) : list string :=
    match order with
    | [] => []
    | (_, p) :: r => step_accepted p (snd (pool_sop p n)) ++ accepted r (fst (pool_sop p n))
    end.
  Fixpoint dropped_ids (order : list (nat * pop)) (n : node) : list string :=
    match order with
    | [] => []
    | (_, p) :: r => step_dropped (snd (pool_sop p n)) ++ dropped_ids r (fst (pool_sop p n))
    end.
  Fixpoint shuffles_ok (order : list (nat * pop)) (n : node) : Prop :=
    match order with
    | [] => True
    | (_, p) :: r => pop_ok n p /\ shuffles_ok r (fst (pool_sop p n))
    end.
  (* the ids of all submitted transactions *)
  Definition pop_ids (os : list pop) : list string :=
    flat_map (fun p => match p with PAdd t => [t_id t] | _ => [] end) os.
  Definition submitted (order : list (nat * pop)) : list string := pop_ids (map snd order).

  Lemma C16_conservation_seq order : forall n,
    shuffles_ok order n ->
    exists bs,
      chain (n_c (fst (serial_run pool_sop order n))) = chain (n_c n) ++ bs /\
      Permutation (pool_ids n ++ accepted order n)
                  (pool_ids (fst (serial_run pool_sop order n)) ++ flat_map body_ids bs
                   ++ dropped_ids order n).
  Proof.
    induction order as [|[i p] r IH]; intros n Hok.
    - exists []. cbn [Serial.serial_run fst accepted dropped_ids flat_map]. rewrite !app_nil_r.
      split; [reflexivity|apply Permutation_refl].
    - cbn [shuffles_ok] in Hok. destruct Hok as [Hp Hr].
      destruct (pool_step_balance n p Hp) as [bs1 [Hc1 Hb1]].
      destruct (IH _ Hr) as [bs2 [Hc2 Hb2]].
      rewrite serial_run_cons_fst. exists (bs1 ++ bs2).
      split; [rewrite Hc2, Hc1, app_assoc; reflexivity|].
      cbn [accepted dropped_ids]. rewrite flat_map_app.
      apply (Permutation_count_occ string_dec). intros x.
      pose proof (proj1 (Permutation_count_occ string_dec _ _) Hb1 x) as E1.
      pose proof (proj1 (Permutation_count_occ string_dec _ _) Hb2 x) as E2.
      rewrite !count_occ_app in *. lia.
  Qed.

  Lemma accepted_nodup order : forall X n,
    NoDup (X ++ submitted order) -> NoDup (X ++ accepted order n).
  Proof.
    unfold submitted. induction order as [|[i p] r IH]; intros X n Hnd; [exact Hnd|].
    cbn [map snd pop_ids flat_map] in Hnd. fold (pop_ids (map snd r)) in Hnd. cbn [accepted].
    destruct p as [t|ts perm|].
    - cbn [pool_sop]. destruct (pool_add n t) as [n'|e]; cbn [fst snd step_accepted].
      + rewrite app_assoc. apply IH. rewrite <- app_assoc. exact Hnd.
      + cbn [app] in *. apply IH. exact (NoDup_remove_1 _ _ _ Hnd).
    - cbn [step_accepted app] in *. apply IH. exact Hnd.
    - cbn [step_accepted app] in *. apply IH. exact Hnd.
  Qed.

  (* item 4: no loss, no duplication, along any sequential run *)
  Theorem C16_no_loss_no_duplication order n :
    shuffles_ok order n ->
    NoDup (pool_ids n ++ submitted order) ->
    exists bs,
      chain (n_c (fst (serial_run pool_sop order n))) = chain (n_c n) ++ bs /\
      let before := pool_ids n ++ accepted order n in
      let after := pool_ids (fst (serial_run pool_sop order n)) ++ flat_map body_ids bs
                   ++ dropped_ids order n in
      Permutation before after /\ NoDup after /\
      forall id, In id before -> count_occ string_dec after id = 1%nat.
  Proof.
    intros Hok Hnd. destruct (C16_conservation_seq order n Hok) as [bs [Hc Hp]].
    exists bs. split; [exact Hc|]. cbv zeta.
    assert (Hna : NoDup (pool_ids (fst (serial_run pool_sop order n)) ++ flat_map body_ids bs
                         ++ dropped_ids order n)).
    { eapply Permutation_NoDup; [exact Hp|]. apply accepted_nodup. exact Hnd. }
    split; [exact Hp|]. split; [exact Hna|].
    intros id Hin. apply (proj1 (NoDup_count_occ' string_dec _) Hna).
    eapply Permutation_in; [exact Hp|exact Hin].
  Qed.

  (* ---- for every interleaving ---- *)

  (* at any point of any concurrent run: with [log] the Apply events so far *)
  Theorem C16_conservation_run (progs : list (list (call pop))) (n0 : node) log st :
    srun pool_sop (sinit progs n0) log st ->
    shuffles_ok log n0 ->
    NoDup (pool_ids n0 ++ submitted log) ->
    exists bs,
      chain (n_c (g_s st)) = chain (n_c n0) ++ bs /\
      let before := pool_ids n0 ++ accepted log n0 in
      let after := pool_ids (g_s st) ++ flat_map body_ids bs ++ dropped_ids log n0 in
      Permutation before after /\ NoDup after /\
      forall id, In id before -> count_occ string_dec after id = 1%nat.
  Proof.
    intros Hr Hok Hnd. destruct (trace_serializable _ _ _ pool_sop _ _ _ _ Hr) as [Hst _].
    rewrite Hst. apply C16_no_loss_no_duplication; assumption.
  Qed.

  (* at quiescence, with the hypothesis on the programs' text *)
  Theorem C16_conservation_quiescent (progs : list (list (call pop))) (n0 : node) st :
    sreachable pool_sop progs n0 st -> quiescent st ->
    NoDup (pool_ids n0 ++ pop_ids (List.concat (map ops_of progs))) ->
    exists order : list (nat * pop),
      is_merge order (map ops_of progs) /\
      g_s st = fold_left pop_step (map snd order) n0 /\
      (shuffles_ok order n0 ->
       exists bs,
         chain (n_c (g_s st)) = chain (n_c n0) ++ bs /\
         let before := pool_ids n0 ++ accepted order n0 in
         let after := pool_ids (g_s st) ++ flat_map body_ids bs ++ dropped_ids order n0 in
         Permutation before after /\ NoDup after /\
         forall id, In id before -> count_occ string_dec after id = 1%nat).
  Proof.
    intros Hr Hq Hnd. apply sreachable_srun in Hr as [log Hr]. exists log.
    pose proof (quiescent_merge _ _ _ pool_sop _ _ _ _ Hr Hq) as Hm.
    split; [exact Hm|].
    destruct (trace_serializable _ _ _ pool_sop _ _ _ _ Hr) as [Hst _].
    split; [rewrite Hst; apply pool_serial_fold|].
    intros Hok. apply (C16_conservation_run progs n0 log st Hr Hok).
    eapply Permutation_NoDup; [|exact Hnd]. apply Permutation_app_head.
    unfold submitted, pop_ids. apply Permutation_flat_map. apply Permutation_sym.
    apply is_merge_permutation. exact Hm.
  Qed.
End PoolSerial.

(* a schedule that executes is a run from the initial state *)
Lemma exec_sound (S R Op : Type) (run : Op -> S -> S * R) (progs : list (list (call Op))) (s0 : S)
      (sched : list nat) (st : gstate S R Op) (log : list (nat * Op)) :
  exec run sched (sinit progs s0) = Some (st, log) ->
  sreachable run progs s0 st /\ srun run (sinit progs s0) log st.
Proof.
  intros He. split; [eapply exec_reachable; exact He|eapply exec_srun; exact He].
Qed.

Lemma pool_sop_is_step value_fn addr_of sig_ok H gen_id St validator (p : pop) (n : node) :
  fst (pool_sop value_fn addr_of sig_ok H gen_id St validator p n) =
  match p with
  | PAdd t => step value_fn addr_of sig_ok H gen_id St validator n (OpAdd t)
  | PValidate ts perm => step value_fn addr_of sig_ok H gen_id St validator n (OpValidate ts perm)
  | PRead => n
  end.
Proof. rewrite pool_sop_step. destruct p; reflexivity. Qed.

(* ---------------------------------------------------------------------------------- *)
(* a toy instance: a counter, operations as functions                                  *)
(* ---------------------------------------------------------------------------------- *)

(* fetch-and-increment; fetch-and-double *)
Definition toy_incr : fop nat nat := fun s => (Datatypes.S s, s).
Definition toy_dbl : fop nat nat := fun s => (2 * s, s).
(* thread 0: incr then dbl; thread 1: incr *)
Definition toy_progs : list (list (call (fop nat nat))) :=
  [ [mkCall 1 toy_incr 0; mkCall 0 toy_dbl 1]; [mkCall 0 toy_incr 2] ].
(* thread 1 takes the lock first; thread 0 works privately meanwhile, then they alternate *)
Definition toy_sched : list nat := [1; 0; 1; 1; 0; 0; 1; 0; 0; 1; 0; 0; 0].
Definition toy_log : list (nat * fop nat nat) := [(1, toy_incr); (0, toy_incr); (0, toy_dbl)].
Definition toy_final : gstate nat nat (fop nat nat) :=
  mkG 14 None [mkTh [] [6; 7]; mkTh [] [5]].

(* ---------------------------------------------------------------------------------- *)
(* a concrete pool instance (the node of the examples of C11): a producer thread and a *)
(* submitter thread                                                                    *)
(* ---------------------------------------------------------------------------------- *)
Definition pex_run : pop -> node -> node * pres :=
  pool_sop (fun (x : N) (_ : bool) (_ : Z) => x) (fun k : string => k) (fun _ : input => true)
           (fun _ : block => zero_hash)
           (fun (_ : slice input) (_ : slice output) (_ : Z) => "id"%string)
           (mkSettings 5 1 100 10) "v"%string.
(* spends the genesis reward: 60 to w, 38 back (yielding), fee 2 *)
Definition pex_tx : tx :=
  mkTx "t1"%string (Some [mkInput 0%N "id"%string "v"%string "sig"%string])
       (Some [mkOutput "w"%string false 60%N; mkOutput "v"%string true 38%N]) 8.
(* thread 0 produces (genesis at 7, next block at 12); thread 1 submits, then reads the pool *)
Definition pex_progs : list (list (call pop)) :=
  [ [mkCall 0 (PValidate 7 []) 1; mkCall 0 (PValidate 12 [0%nat]) 0];
    [mkCall 1 (PAdd pex_tx) 0; mkCall 0 PRead 0] ].
Definition pex_sched : list nat := [1; 0; 0; 0; 1; 1; 1; 0; 0; 0; 0; 1; 1; 1]%nat.
Definition pex_log : list (nat * pop) :=
  [(0, PValidate 7 []); (1, PAdd pex_tx); (0, PValidate 12 [0%nat]); (1, PRead)]%nat.
