(* Wallet_lemmas.v — lemmas about model/Wallet.v (info_controller.go). Property C18. *)
From RV Require Import model.Base model.Wallet.
From Coq Require Import Lia ZArith NArith ZifyN ZifyNat ZifyBool.
Local Open Scope N_scope.

(* ---------------------------------------------------------------------------------- *)
(* generic helpers                                                                     *)
(* ---------------------------------------------------------------------------------- *)

Definition nsum (l : list N) : N := fold_right N.add 0 l.

Lemma two64_pos : 0 < two64.
Proof. reflexivity. Qed.

Lemma nsum_app a b : nsum (a ++ b) = nsum a + nsum b.
Proof. induction a as [|x a IH]; cbn [nsum fold_right app]; [reflexivity|]. fold (nsum (a ++ b)). fold (nsum a). lia. Qed.

Lemma nsum_cons x a : nsum (x :: a) = x + nsum a.
Proof. reflexivity. Qed.

Lemma In_le_nsum x l : In x l -> x <= nsum l.
Proof.
  induction l as [|y l IH]; intros Hin; [destruct Hin|].
  rewrite nsum_cons. destruct Hin as [->|Hin]; [lia|]. specialize (IH Hin). lia.
Qed.

Lemma NoDup_snoc {A} (l : list A) x : NoDup l -> ~ In x l -> NoDup (l ++ [x]).
Proof.
  induction l as [|y l IH]; intros Hnd Hni; cbn [app].
  - constructor; [intros []|constructor].
  - inversion Hnd as [|y' l' Hy Hl]; subst. constructor.
    + rewrite in_app_iff. intros [Hin|[->|[]]]; [tauto|]. apply Hni; left; reflexivity.
    + apply IH; [exact Hl|]. intros Hin; apply Hni; right; exact Hin.
Qed.

Lemma NoDup_app_intro {A} (l1 l2 : list A) :
  NoDup l1 -> NoDup l2 -> (forall x, In x l1 -> ~ In x l2) -> NoDup (l1 ++ l2).
Proof.
  induction l1 as [|y l1 IH]; intros H1 H2 Hd; cbn [app]; [exact H2|].
  inversion H1 as [|y' l' Hy Hl]; subst. constructor.
  - rewrite in_app_iff. intros [Hin|Hin]; [tauto|]. apply (Hd y); [left; reflexivity|exact Hin].
  - apply IH; [exact Hl|exact H2|]. intros x Hx; apply Hd; right; exact Hx.
Qed.

Lemma NoDup_firstn {A} k (l : list A) : NoDup l -> NoDup (firstn k l).
Proof.
  intros Hnd. rewrite <- (firstn_skipn k l) in Hnd.
  revert Hnd. generalize (firstn k l) as a, (skipn k l) as b.
  induction a as [|x a IH]; intros b Hnd; [constructor|].
  cbn [app] in Hnd. inversion Hnd as [|x' l' Hx Hl]; subst. constructor.
  - intros Hin; apply Hx; rewrite in_app_iff; left; exact Hin.
  - apply (IH b); exact Hl.
Qed.

Lemma NoDup_map_filter {A B} (f : A -> B) (p : A -> bool) (l : list A) :
  NoDup (map f l) -> NoDup (map f (filter p l)).
Proof.
  induction l as [|x l IH]; intros Hnd; cbn [filter map]; [constructor|].
  cbn [map] in Hnd. inversion Hnd as [|x' l' Hx Hl]; subst.
  destruct (p x); [|apply IH; exact Hl]. cbn [map]. constructor; [|apply IH; exact Hl].
  intros Hin. apply Hx. apply in_map_iff in Hin. destruct Hin as (y & Hy & Hin).
  apply filter_In in Hin. apply in_map_iff. exists y; tauto.
Qed.

Lemma filter_all {A} (p : A -> bool) (l : list A) :
  (forall x, In x l -> p x = true) -> filter p l = l.
Proof.
  induction l as [|x l IH]; intros Hall; cbn [filter]; [reflexivity|].
  rewrite (Hall x) by (left; reflexivity). f_equal. apply IH. intros y Hy; apply Hall; right; exact Hy.
Qed.

Lemma nth_error_snoc_lt {A} (pre : list A) v j :
  (j < length pre)%nat -> nth_error (pre ++ [v]) j = nth_error pre j.
Proof. intros Hj. apply nth_error_app1; exact Hj. Qed.

Lemma nth_error_snoc_eq {A} (pre : list A) v : nth_error (pre ++ [v]) (length pre) = Some v.
Proof. rewrite nth_error_app2 by lia. rewrite Nat.sub_diag. reflexivity. Qed.

(* ---------------------------------------------------------------------------------- *)
(* findClosestValueIndex                                                               *)
(* ---------------------------------------------------------------------------------- *)

Section FC.
  Variable target : N.
  Hypothesis Ht : target < two64.

  (* which values compete, and their distance to the target, in each of the two modes of
     the loop (gt = isAValueGreaterThanTarget) *)
  Definition rel (gt : bool) (w : N) : Prop := if gt then target <= w else True.
  Definition dist (gt : bool) (w : N) : N := if gt then w - target else target - w.

  Definition FDisj (pre : list N) (idx : nat) (diff : N) (gt : bool) : Prop :=
    (idx = 0%nat /\ diff = max64) \/
    (exists v, nth_error pre idx = Some v /\ rel gt v /\ diff = dist gt v /\
       forall j w, (j < idx)%nat -> nth_error pre j = Some w -> rel gt w -> diff < dist gt w).

  Definition FInv (pre : list N) (idx : nat) (diff : N) (gt : bool) : Prop :=
    (gt = false -> forall w, In w pre -> w < target) /\
    (gt = true -> exists w, In w pre /\ target <= w) /\
    (forall w, In w pre -> rel gt w -> diff <= dist gt w) /\
    FDisj pre idx diff gt.

  Lemma FDisj_snoc pre idx diff gt v :
    FDisj pre idx diff gt -> FDisj (pre ++ [v]) idx diff gt.
  Proof.
    intros [H|(x & Hn & Hr & Hd & Hf)]; [left; exact H|right].
    assert (Hlt : (idx < length pre)%nat) by (apply nth_error_Some; congruence).
    exists x. split; [rewrite nth_error_snoc_lt by exact Hlt; exact Hn|].
    split; [exact Hr|]. split; [exact Hd|].
    intros j w Hj Hw. rewrite nth_error_snoc_lt in Hw by lia. exact (Hf j w Hj Hw).
  Qed.

  Lemma FDisj_new pre gt v :
    rel gt v -> (forall w, In w pre -> rel gt w -> dist gt v < dist gt w) ->
    FDisj (pre ++ [v]) (length pre) (dist gt v) gt.
  Proof.
    intros Hr Hall. right. exists v. split; [apply nth_error_snoc_eq|].
    split; [exact Hr|]. split; [reflexivity|].
    intros j w Hj Hw. rewrite nth_error_snoc_lt in Hw by exact Hj.
    apply nth_error_In in Hw. exact (Hall w Hw).
  Qed.

  Lemma fc_step_inv pre idx diff gt v :
    v < two64 -> FInv pre idx diff gt ->
    exists idx' diff' gt',
      (forall r, fc_loop target (v :: r) (length pre) idx diff gt
                 = fc_loop target r (S (length pre)) idx' diff' gt') /\
      FInv (pre ++ [v]) idx' diff' gt'.
  Proof.
    intros Hv (Hlow & Hex & Hmin & Hdj).
    destruct gt; destruct (v <? target) eqn:Eb;
      [apply N.ltb_lt in Eb | apply N.ltb_ge in Eb | apply N.ltb_lt in Eb | apply N.ltb_ge in Eb].
    - (* a greater value was seen, this one is smaller: skipped *)
      exists idx, diff, true. split.
      { intros r. cbn [fc_loop]. apply N.ltb_lt in Eb. rewrite Eb. reflexivity. }
      split; [discriminate|]. split.
      { intros _. destruct (Hex eq_refl) as (w & Hw & Hge). exists w. rewrite in_app_iff. tauto. }
      split; [|apply FDisj_snoc; exact Hdj].
      intros w Hw Hr. apply in_app_iff in Hw. destruct Hw as [Hw|[<-|[]]]; [exact (Hmin w Hw Hr)|].
      cbn [rel] in Hr. lia.
    - (* a greater value was seen, this one is greater or equal too *)
      destruct (v - target <? diff) eqn:Ed; [apply N.ltb_lt in Ed | apply N.ltb_ge in Ed].
      + exists (length pre), (v - target), true. split.
        { intros r. cbn [fc_loop]. apply N.ltb_ge in Eb. rewrite Eb. cbn [andb].
          apply N.ltb_lt in Ed. rewrite Ed. reflexivity. }
        split; [discriminate|]. split.
        { intros _. exists v. rewrite in_app_iff. split; [right; left; reflexivity|exact Eb]. }
        split.
        { intros w Hw Hr. apply in_app_iff in Hw. destruct Hw as [Hw|[<-|[]]].
          - specialize (Hmin w Hw Hr). cbn [dist] in *. lia.
          - cbn [dist]. lia. }
        apply (FDisj_new pre true v); [exact Eb|].
        intros w Hw Hr. specialize (Hmin w Hw Hr). cbn [dist] in *. lia.
      + exists idx, diff, true. split.
        { intros r. cbn [fc_loop]. apply N.ltb_ge in Eb. rewrite Eb. cbn [andb].
          apply N.ltb_ge in Ed. rewrite Ed. reflexivity. }
        split; [discriminate|]. split.
        { intros _. exists v. rewrite in_app_iff. split; [right; left; reflexivity|exact Eb]. }
        split; [|apply FDisj_snoc; exact Hdj].
        intros w Hw Hr. apply in_app_iff in Hw. destruct Hw as [Hw|[<-|[]]]; [exact (Hmin w Hw Hr)|].
        cbn [dist]. exact Ed.
    - (* no greater value yet, this one is smaller *)
      destruct (target - v <? diff) eqn:Ed; [apply N.ltb_lt in Ed | apply N.ltb_ge in Ed].
      + exists (length pre), (target - v), false. split.
        { intros r. cbn [fc_loop andb]. apply N.ltb_lt in Eb. rewrite Eb.
          apply N.ltb_lt in Ed. rewrite Ed. reflexivity. }
        split.
        { intros _ w Hw. apply in_app_iff in Hw. destruct Hw as [Hw|[<-|[]]]; [exact (Hlow eq_refl w Hw)|exact Eb]. }
        split; [discriminate|]. split.
        { intros w Hw Hr. apply in_app_iff in Hw. destruct Hw as [Hw|[<-|[]]].
          - specialize (Hmin w Hw I). cbn [dist] in *. lia.
          - cbn [dist]. lia. }
        apply (FDisj_new pre false v); [exact I|].
        intros w Hw Hr. specialize (Hmin w Hw I). cbn [dist] in *. lia.
      + exists idx, diff, false. split.
        { intros r. cbn [fc_loop andb]. apply N.ltb_lt in Eb. rewrite Eb.
          apply N.ltb_ge in Ed. rewrite Ed. reflexivity. }
        split.
        { intros _ w Hw. apply in_app_iff in Hw. destruct Hw as [Hw|[<-|[]]]; [exact (Hlow eq_refl w Hw)|exact Eb]. }
        split; [discriminate|]. split; [|apply FDisj_snoc; exact Hdj].
        intros w Hw Hr. apply in_app_iff in Hw. destruct Hw as [Hw|[<-|[]]]; [exact (Hmin w Hw Hr)|].
        cbn [dist]. exact Ed.
    - (* first value greater than or equal to the target: closestDifference is reset *)
      destruct (v - target <? max64) eqn:Ed; [apply N.ltb_lt in Ed | apply N.ltb_ge in Ed].
      + exists (length pre), (v - target), true. split.
        { intros r. cbn [fc_loop andb]. apply N.ltb_ge in Eb. rewrite Eb.
          apply N.ltb_lt in Ed. rewrite Ed. reflexivity. }
        split; [discriminate|]. split.
        { intros _. exists v. rewrite in_app_iff. split; [right; left; reflexivity|exact Eb]. }
        split.
        { intros w Hw Hr. apply in_app_iff in Hw. destruct Hw as [Hw|[<-|[]]].
          - specialize (Hlow eq_refl w Hw). cbn [rel] in Hr. lia.
          - cbn [dist]. lia. }
        apply (FDisj_new pre true v); [exact Eb|].
        intros w Hw Hr. specialize (Hlow eq_refl w Hw). cbn [rel] in Hr. lia.
      + (* v - target = MaxUint64: only for v = MaxUint64, target = 0, hence at index 0 *)
        assert (Hpre : pre = []).
        { destruct pre as [|w pre']; [reflexivity|].
          specialize (Hlow eq_refl w (or_introl eq_refl)). unfold max64 in Ed. lia. }
        assert (Hidx : idx = 0%nat).
        { destruct Hdj as [[Hi _]|(x & Hn & _)]; [exact Hi|]. subst pre.
          destruct idx; discriminate Hn. }
        exists idx, max64, true. split.
        { intros r. cbn [fc_loop andb]. apply N.ltb_ge in Eb. rewrite Eb.
          apply N.ltb_ge in Ed. rewrite Ed. reflexivity. }
        split; [discriminate|]. split.
        { intros _. exists v. rewrite in_app_iff. split; [right; left; reflexivity|exact Eb]. }
        split; [|left; split; [exact Hidx|reflexivity]].
        intros w Hw Hr. apply in_app_iff in Hw. destruct Hw as [Hw|[<-|[]]].
        * specialize (Hlow eq_refl w Hw). cbn [rel] in Hr. lia.
        * cbn [dist]. exact Ed.
  Qed.

  Lemma fc_loop_inv : forall suf pre idx diff gt,
    Forall (fun w => w < two64) suf -> FInv pre idx diff gt ->
    exists diff' gt', FInv (pre ++ suf) (fc_loop target suf (length pre) idx diff gt) diff' gt'.
  Proof.
    induction suf as [|v r IH]; intros pre idx diff gt Hall Hinv.
    - rewrite app_nil_r. exists diff, gt. exact Hinv.
    - inversion Hall as [|v' r' Hv Hr]; subst.
      destruct (fc_step_inv pre idx diff gt v Hv Hinv) as (idx' & diff' & gt' & Heq & Hinv').
      rewrite Heq.
      replace (pre ++ v :: r) with ((pre ++ [v]) ++ r) by (rewrite <- app_assoc; reflexivity).
      replace (S (length pre)) with (length (pre ++ [v])) by (rewrite app_length; cbn [length]; lia).
      apply IH; [exact Hr|exact Hinv'].
  Qed.

  Lemma FInv_init : FInv [] 0 max64 false.
  Proof.
    split; [intros _ w []|]. split; [discriminate|]. split; [intros w []|].
    left; split; reflexivity.
  Qed.

  (* The index returned is in range.  If some value reaches the target, the value picked is
     the smallest of those that do (at its first position); otherwise it is the largest
     value (at its first position). *)
  Theorem find_closest_spec : forall values,
    Forall (fun w => w < two64) values -> values <> [] ->
    exists v, nth_error values (find_closest target values) = Some v /\
      ((exists w, In w values /\ target <= w) ->
         target <= v /\ (forall w, In w values -> target <= w -> v <= w) /\
         (forall j w, (j < find_closest target values)%nat -> nth_error values j = Some w ->
                      target <= w -> v < w)) /\
      ((forall w, In w values -> w < target) ->
         (forall w, In w values -> w <= v) /\
         (forall j w, (j < find_closest target values)%nat -> nth_error values j = Some w -> w < v)).
  Proof.
    intros values Hall Hne.
    destruct (fc_loop_inv values [] 0%nat max64 false Hall FInv_init) as (diff & gt & Hinv).
    cbn [app length] in Hinv. fold (find_closest target values) in Hinv.
    set (i := find_closest target values) in *. clearbody i.
    destruct Hinv as (Hlow & Hex & Hmin & Hdj).
    assert (Hb : forall w, In w values -> w < two64) by (apply Forall_forall; exact Hall).
    destruct Hdj as [[Hi Hd]|(v & Hn & Hr & Hd & Hf)].
    - (* nothing was ever strictly closer than MaxUint64 *)
      subst i diff. destruct values as [|x rest]; [congruence|]. exists x.
      split; [reflexivity|]. unfold max64 in Hmin.
      destruct gt.
      + assert (Hx : forall w, In w (x :: rest) -> w = two64 - 1 /\ target = 0).
        { intros w Hw. pose proof (Hb w Hw) as Hbw. pose proof (Hmin w Hw) as Hm. cbn [rel dist] in Hm.
          destruct (N.le_gt_cases target w) as [Hle|Hgt].
          - specialize (Hm Hle). lia.
          - (* w < target cannot give the bound unless target = 0: use another witness *)
            destruct (Hex eq_refl) as (w' & Hw' & Hge'). pose proof (Hb w' Hw') as Hbw'.
            pose proof (Hmin w' Hw' Hge') as Hm'. cbn [dist] in Hm'. lia. }
        split.
        * intros _. destruct (Hx x (or_introl eq_refl)) as [Hxv Ht0]. split; [lia|]. split.
          { intros w Hw _. destruct (Hx w Hw) as [-> _]. lia. }
          { intros j w Hj. lia. }
        * intros Hall'. destruct (Hex eq_refl) as (w & Hw & Hge). specialize (Hall' w Hw). lia.
      + split.
        * intros (w & Hw & Hge). specialize (Hlow eq_refl w Hw). lia.
        * intros _. split; [|intros j w Hj; lia].
          intros w Hw. specialize (Hb w Hw). specialize (Hmin w Hw I). cbn [dist] in Hmin.
          specialize (Hlow eq_refl w Hw). lia.
    - exists v. split; [exact Hn|]. destruct gt; cbn [rel dist] in *.
      + split.
        * intros _. split; [exact Hr|]. split.
          { intros w Hw Hge. specialize (Hmin w Hw Hge). lia. }
          { intros j w Hj Hw Hge. specialize (Hf j w Hj Hw Hge). lia. }
        * intros Hall'. destruct (Hex eq_refl) as (w & Hw & Hge). specialize (Hall' w Hw). lia.
      + assert (Hv : v < target) by (apply (Hlow eq_refl); eapply nth_error_In; exact Hn).
        split.
        * intros (w & Hw & Hge). specialize (Hlow eq_refl w Hw). lia.
        * intros _. split.
          { intros w Hw. specialize (Hmin w Hw I). specialize (Hlow eq_refl w Hw). lia. }
          { intros j w Hj Hw. specialize (Hf j w Hj Hw I).
            assert (w < target) by (apply (Hlow eq_refl); eapply nth_error_In; exact Hw). lia. }
  Qed.
End FC.

(* ---------------------------------------------------------------------------------- *)
(* the first loop (lines 79-95)                                                        *)
(* ---------------------------------------------------------------------------------- *)

(* the holdings the controller keeps (line 83) *)
Definition nz (hs : list holding) : list holding := filter (fun h => negb (snd h =? 0)) hs.
(* exact (unbounded) sum of their values *)
Definition balance (hs : list holding) : N := nsum (map snd (nz hs)).
(* the outputs of value v, in order: what utxosByValue[v] holds after the loop *)
Definition G (hs : list holding) (v : N) : list ref :=
  map fst (filter (fun h => snd h =? v) (nz hs)).

Definition ref_eq_dec (a b : ref) : {a = b} + {a <> b}.
Proof. decide equality; [apply N.eq_dec|apply string_dec]. Defined.

(* value of the holding whose (transaction id, output index) is r *)
Fixpoint hval (hs : list holding) (r : ref) : N :=
  match hs with
  | [] => 0
  | (r', v) :: t => if ref_eq_dec r r' then v else hval t r
  end.

Lemma hval_In hs r v : NoDup (map fst hs) -> In (r, v) hs -> hval hs r = v.
Proof.
  induction hs as [|[r' v'] t IH]; intros Hnd Hin; [destruct Hin|].
  cbn [map fst] in Hnd. inversion Hnd as [|x l Hx Hl]; subst.
  cbn [hval]. destruct (ref_eq_dec r r') as [->|Hne].
  - destruct Hin as [E|Hin]; [congruence|]. exfalso. apply Hx.
    apply in_map_iff. exists (r', v). split; [reflexivity|exact Hin].
  - destruct Hin as [E|Hin]; [congruence|]. apply IH; assumption.
Qed.

Lemma balance_all hs : balance hs = nsum (map snd hs).
Proof.
  unfold balance, nz. induction hs as [|[r v] t IH]; [reflexivity|].
  cbn [filter snd map]. destruct (v =? 0) eqn:E; cbn [negb].
  - apply N.eqb_eq in E. subst v. rewrite nsum_cons, IH. lia.
  - cbn [map snd]. rewrite !nsum_cons, IH. reflexivity.
Qed.

Lemma nz_app a b : nz (a ++ b) = nz a ++ nz b.
Proof. apply filter_app. Qed.

Lemma nz_In hs r v : In (r, v) (nz hs) <-> In (r, v) hs /\ v <> 0.
Proof.
  unfold nz. rewrite filter_In. cbn [snd]. rewrite negb_true_iff, N.eqb_neq. tauto.
Qed.

Lemma G_In hs v r : In r (G hs v) <-> In (r, v) (nz hs).
Proof.
  unfold G. rewrite in_map_iff. split.
  - intros ([r' v'] & Hf & Hin). apply filter_In in Hin. cbn [fst snd] in *.
    destruct Hin as [Hin E]. apply N.eqb_eq in E. subst. exact Hin.
  - intros Hin. exists (r, v). split; [reflexivity|]. apply filter_In. cbn [snd].
    split; [exact Hin|apply N.eqb_refl].
Qed.

Lemma G_nonempty hs v : G hs v <> [] <-> exists r, In (r, v) (nz hs).
Proof.
  split.
  - intros Hne. destruct (G hs v) as [|r g] eqn:E; [congruence|]. exists r.
    apply G_In. rewrite E. left; reflexivity.
  - intros (r & Hin) E. apply G_In in Hin. rewrite E in Hin. destruct Hin.
Qed.

Lemma G_NoDup hs v : NoDup (map fst hs) -> NoDup (G hs v).
Proof.
  intros Hnd. unfold G, nz. apply NoDup_map_filter. apply NoDup_map_filter. exact Hnd.
Qed.

Lemma scan_snoc c hs h : scan c (hs ++ [h]) = scan_step c (scan c hs) h.
Proof. unfold scan. rewrite fold_left_app. reflexivity. Qed.

Lemma scan_bal c hs : sc_bal (scan c hs) = nsum (map snd hs) mod two64.
Proof.
  induction hs as [|[r v] hs IH] using rev_ind; [reflexivity|].
  rewrite scan_snoc, map_app, nsum_app. cbn [map snd]. rewrite nsum_cons. cbn [nsum fold_right].
  unfold scan_step. destruct (v =? 0) eqn:E.
  - apply N.eqb_eq in E. subst v. rewrite IH. rewrite !N.add_0_r. reflexivity.
  - assert (Hb : sc_bal (if c then mkScan (add64 (sc_bal (scan c hs)) v) (sc_sel (scan c hs) ++ [r])
                                     (sc_vals (scan c hs)) (sc_map (scan c hs))
                        else mkScan (add64 (sc_bal (scan c hs)) v) (sc_sel (scan c hs))
                               match nlookup v (sc_map (scan c hs)) with
                               | Some _ => sc_vals (scan c hs)
                               | None => sc_vals (scan c hs) ++ [v]
                               end (nappend v r (sc_map (scan c hs))))
                = add64 (sc_bal (scan c hs)) v) by (destruct c; reflexivity).
    rewrite Hb, IH. unfold add64. rewrite N.add_mod_idemp_l by (pose proof two64_pos; lia).
    rewrite N.add_0_r. reflexivity.
Qed.

Lemma scan_sel_true hs : sc_sel (scan true hs) = map fst (nz hs).
Proof.
  induction hs as [|[r v] hs IH] using rev_ind; [reflexivity|].
  rewrite scan_snoc, nz_app, map_app. unfold scan_step, nz at 2. cbn [filter snd].
  destruct (v =? 0); cbn [negb sc_sel map fst].
  - rewrite app_nil_r. exact IH.
  - rewrite IH. reflexivity.
Qed.

Lemma scan_sel_false hs : sc_sel (scan false hs) = [].
Proof.
  induction hs as [|[r v] hs IH] using rev_ind; [reflexivity|].
  rewrite scan_snoc. unfold scan_step. destruct (v =? 0); [exact IH|]. cbn [sc_sel]. exact IH.
Qed.

Lemma nlookup_nappend k k' x m :
  nlookup k (nappend k' x m) = if k =? k' then Some (grp k' m ++ [x]) else nlookup k m.
Proof.
  unfold grp. induction m as [|[k0 g] m IH]; cbn [nappend nlookup].
  - destruct (k =? k'); reflexivity.
  - destruct (k' =? k0) eqn:E0; cbn [nlookup].
    + apply N.eqb_eq in E0. subst k0. destruct (k =? k'); reflexivity.
    + destruct (k =? k0) eqn:E1.
      * apply N.eqb_eq in E1. subst k0. rewrite N.eqb_sym, E0. reflexivity.
      * exact IH.
Qed.

Lemma grp_nappend k k' x m :
  grp k (nappend k' x m) = if k =? k' then grp k' m ++ [x] else grp k m.
Proof. unfold grp at 1. rewrite nlookup_nappend. destruct (k =? k'); reflexivity. Qed.

Lemma keys_nappend k x m :
  map fst (nappend k x m) = match nlookup k m with None => map fst m ++ [k] | Some _ => map fst m end.
Proof.
  induction m as [|[k0 g] m IH]; cbn [nappend nlookup map fst app]; [reflexivity|].
  destruct (k =? k0) eqn:E; cbn [map fst]; [reflexivity|].
  rewrite IH. destruct (nlookup k m); reflexivity.
Qed.

Lemma nlookup_None k m : nlookup k m = None <-> ~ In k (map fst m).
Proof.
  induction m as [|[k0 g] m IH]; cbn [nlookup map fst In]; [tauto|].
  destruct (k =? k0) eqn:E.
  - apply N.eqb_eq in E. split; [discriminate|]. intros H; exfalso; apply H; left; congruence.
  - apply N.eqb_neq in E. rewrite IH. split; [intros H [H1|H1]; [congruence|tauto]|tauto].
Qed.

Lemma scan_vals_keys hs : sc_vals (scan false hs) = map fst (sc_map (scan false hs)).
Proof.
  induction hs as [|[r v] hs IH] using rev_ind; [reflexivity|].
  rewrite scan_snoc. unfold scan_step. destruct (v =? 0); [exact IH|]. cbn [sc_vals sc_map].
  rewrite keys_nappend, IH. destruct (nlookup v (sc_map (scan false hs))); reflexivity.
Qed.

Lemma G_snoc hs r x v :
  G (hs ++ [(r, x)]) v = G hs v ++ (if negb (x =? 0) && (x =? v) then [r] else []).
Proof.
  unfold G. rewrite nz_app, filter_app, map_app. f_equal.
  unfold nz. cbn [filter snd]. destruct (x =? 0); cbn [negb andb filter map]; [reflexivity|].
  cbn [snd]. destruct (x =? v); reflexivity.
Qed.

Lemma scan_grp hs v : grp v (sc_map (scan false hs)) = G hs v.
Proof.
  induction hs as [|[r x] hs IH] using rev_ind; [reflexivity|].
  rewrite scan_snoc, G_snoc. unfold scan_step. destruct (x =? 0) eqn:E0; cbn [negb andb].
  - rewrite app_nil_r. exact IH.
  - cbn [sc_map]. rewrite grp_nappend. rewrite (N.eqb_sym x v).
    destruct (v =? x) eqn:E1.
    + apply N.eqb_eq in E1. subst x. rewrite IH. reflexivity.
    + rewrite app_nil_r. exact IH.
Qed.

Lemma scan_vals_NoDup hs : NoDup (sc_vals (scan false hs)).
Proof.
  induction hs as [|[r v] hs IH] using rev_ind; [constructor|].
  rewrite scan_snoc. unfold scan_step. destruct (v =? 0); [exact IH|]. cbn [sc_vals].
  destruct (nlookup v (sc_map (scan false hs))) eqn:E; [exact IH|].
  apply NoDup_snoc; [exact IH|]. rewrite scan_vals_keys. apply nlookup_None. exact E.
Qed.

Lemma scan_vals_In hs v : In v (sc_vals (scan false hs)) <-> exists r, In (r, v) (nz hs).
Proof.
  induction hs as [|[r x] hs IH] using rev_ind.
  - cbn. split; [tauto|intros (r & [])].
  - rewrite scan_snoc. unfold scan_step.
    assert (Hnz : forall r', In (r', v) (nz (hs ++ [(r, x)])) <->
                             In (r', v) (nz hs) \/ (r', v) = (r, x) /\ x <> 0).
    { intros r'. rewrite !nz_In, in_app_iff. cbn [In]. split.
      - intros [[H|[H|[]]] Hv]; [left; tauto|right; split; [congruence|congruence]].
      - intros [[H Hv]|[H Hv]]; [tauto|]. split; [right; left; congruence|congruence]. }
    destruct (x =? 0) eqn:E0.
    + apply N.eqb_eq in E0. rewrite IH. split; intros (r' & Hin); exists r'.
      * apply Hnz. left; exact Hin.
      * apply Hnz in Hin. destruct Hin as [Hin|[_ Hx]]; [exact Hin|congruence].
    + apply N.eqb_neq in E0. cbn [sc_vals].
      assert (Hin' : In v (match nlookup x (sc_map (scan false hs)) with
                           | Some _ => sc_vals (scan false hs)
                           | None => sc_vals (scan false hs) ++ [x] end)
                     <-> In v (sc_vals (scan false hs)) \/ v = x).
      { destruct (nlookup x (sc_map (scan false hs))) eqn:E.
        - split; [tauto|]. intros [H| ->]; [exact H|].
          rewrite scan_vals_keys. destruct (in_dec N.eq_dec x (map fst (sc_map (scan false hs)))) as [Hi|Hni]; [exact Hi|].
          apply nlookup_None in Hni. congruence.
        - rewrite in_app_iff. cbn [In]. split; [intros [H|[H|[]]]; [tauto|right; congruence]|intros [H| ->]; tauto]. }
      rewrite Hin', IH. split.
      * intros [(r' & Hin)| ->]; [exists r'; apply Hnz; left; exact Hin|].
        exists r. apply Hnz. right. split; [reflexivity|exact E0].
      * intros (r' & Hin). apply Hnz in Hin. destruct Hin as [Hin|[Heq _]]; [left; exists r'; exact Hin|].
        right. congruence.
Qed.

(* ---------------------------------------------------------------------------------- *)
(* the inner loop (lines 119-122)                                                      *)
(* ---------------------------------------------------------------------------------- *)

Lemma take_done target cv refs iv sel : target <= iv -> take target cv refs iv sel = (iv, sel).
Proof.
  intros H. destruct refs as [|r rs]; cbn [take]; [reflexivity|].
  apply N.ltb_ge in H. rewrite H. reflexivity.
Qed.

Lemma take_spec target cv : forall refs iv sel,
  iv + N.of_nat (length refs) * cv < two64 ->
  exists k, (k <= length refs)%nat /\
    take target cv refs iv sel = (iv + N.of_nat k * cv, sel ++ firstn k refs) /\
    (k = length refs \/ target <= iv + N.of_nat k * cv).
Proof.
  induction refs as [|r rs IH]; intros iv sel Hb.
  - exists 0%nat. cbn [take firstn length]. rewrite app_nil_r.
    replace (iv + N.of_nat 0 * cv) with iv by lia.
    split; [lia|]. split; [reflexivity|left; reflexivity].
  - cbn [take]. destruct (iv <? target) eqn:E.
    + cbn [length] in Hb. rewrite Nat2N.inj_succ, N.mul_succ_l in Hb.
      assert (Ha : add64 iv cv = iv + cv). { unfold add64. apply N.mod_small. lia. }
      rewrite Ha. destruct (IH (iv + cv) (sel ++ [r])) as (k & Hk & Heq & Hd); [lia|].
      exists (S k). split; [cbn [length]; lia|]. rewrite Heq.
      rewrite Nat2N.inj_succ, N.mul_succ_l. cbn [firstn]. rewrite <- app_assoc. cbn [app].
      replace (iv + cv + N.of_nat k * cv) with (iv + (N.of_nat k * cv + cv)) by lia.
      split; [reflexivity|]. destruct Hd as [->|Hd]; [left; reflexivity|right; lia].
    + apply N.ltb_ge in E. exists 0%nat. cbn [firstn]. rewrite app_nil_r.
      replace (iv + N.of_nat 0 * cv) with iv by lia.
      split; [lia|]. split; [reflexivity|right; exact E].
Qed.

(* ---------------------------------------------------------------------------------- *)
(* what is still available: total value of the holdings whose value is in [values]      *)
(* ---------------------------------------------------------------------------------- *)

Definition memN (x : N) (l : list N) : bool := existsb (N.eqb x) l.

Lemma memN_In x l : memN x l = true <-> In x l.
Proof.
  unfold memN. rewrite existsb_exists. split.
  - intros (y & Hy & E). apply N.eqb_eq in E. subst. exact Hy.
  - intros H. exists x. split; [exact H|apply N.eqb_refl].
Qed.

Lemma memN_mid x l1 c l2 : memN x (l1 ++ c :: l2) = (x =? c) || memN x (l1 ++ l2).
Proof.
  unfold memN. rewrite !existsb_app. cbn [existsb].
  destruct (existsb (N.eqb x) l1), (x =? c), (existsb (N.eqb x) l2); reflexivity.
Qed.

Definition remf (L : list holding) (values : list N) : N :=
  nsum (map snd (filter (fun h => memN (snd h) values) L)).

Lemma remf_nil L : remf L [] = 0.
Proof. unfold remf. induction L as [|h L IH]; [reflexivity|]. cbn [filter memN existsb]. exact IH. Qed.

Lemma remf_split L l1 cv l2 :
  ~ In cv (l1 ++ l2) ->
  remf L (l1 ++ cv :: l2) =
  remf L (l1 ++ l2) + N.of_nat (length (filter (fun h => snd h =? cv) L)) * cv.
Proof.
  intros Hni. unfold remf. induction L as [|[r x] L IH]; [reflexivity|].
  cbn [filter snd]. rewrite memN_mid. destruct (x =? cv) eqn:E.
  - apply N.eqb_eq in E. subst x. cbn [orb].
    assert (Hf : memN cv (l1 ++ l2) = false).
    { destruct (memN cv (l1 ++ l2)) eqn:Em; [|reflexivity]. apply memN_In in Em. tauto. }
    rewrite Hf. cbn [map snd length]. rewrite nsum_cons, IH, Nat2N.inj_succ, N.mul_succ_l. lia.
  - cbn [orb]. destruct (memN x (l1 ++ l2)); cbn [map snd]; rewrite ?nsum_cons, IH; lia.
Qed.

Lemma remf_all L values : (forall h, In h L -> In (snd h) values) -> remf L values = nsum (map snd L).
Proof.
  intros Hall. unfold remf. rewrite filter_all; [reflexivity|].
  intros h Hh. apply memN_In. exact (Hall h Hh).
Qed.

Lemma remf_G hs l1 cv l2 :
  ~ In cv (l1 ++ l2) ->
  remf (nz hs) (l1 ++ cv :: l2) = remf (nz hs) (l1 ++ l2) + N.of_nat (length (G hs cv)) * cv.
Proof. intros Hni. rewrite (remf_split _ _ _ _ Hni). unfold G. rewrite map_length. reflexivity. Qed.

Lemma remove_at_split l1 a l2 : remove_at (length l1) (l1 ++ a :: l2) = l1 ++ l2.
Proof.
  unfold remove_at. induction l1 as [|x l1 IH]; cbn [length app firstn skipn]; [reflexivity|].
  f_equal. exact IH.
Qed.

Lemma firstn_In {A} k (l : list A) x : In x (firstn k l) -> In x l.
Proof.
  intros H. rewrite <- (firstn_skipn k l). apply in_app_iff. left; exact H.
Qed.

Lemma sub64_exact a b : b <= a -> a < two64 -> sub64 a b = a - b.
Proof.
  intros Hle Hlt. unfold sub64. pose proof two64_pos as Hp.
  rewrite (N.mod_small b) by lia.
  replace (a + two64 - b) with ((a - b) + 1 * two64) by lia.
  rewrite N.mod_add by lia. apply N.mod_small; lia.
Qed.

(* ---------------------------------------------------------------------------------- *)
(* the outer loop (lines 109-123)                                                      *)
(* ---------------------------------------------------------------------------------- *)

Section Select.
  Variable hs : list holding.
  Variable target : N.
  Variable m : list (N * list ref).
  Hypothesis Hnd : NoDup (map fst hs).
  Hypothesis Hm : forall v, grp v m = G hs v.
  Hypothesis Htot : balance hs < two64.
  Hypothesis Htgt : target <= balance hs.

  Lemma hval_nz r v : In (r, v) (nz hs) -> hval hs r = v.
  Proof. intros Hin. apply hval_In; [exact Hnd|]. apply nz_In in Hin. tauto. Qed.

  Lemma nz_le_balance r v : In (r, v) (nz hs) -> v <= balance hs.
  Proof.
    intros Hin. unfold balance. apply In_le_nsum. apply in_map_iff. exists (r, v). split; [reflexivity|exact Hin].
  Qed.

  Lemma nsum_hval_group g v :
    (forall r, In r g -> In (r, v) (nz hs)) -> nsum (map (hval hs) g) = N.of_nat (length g) * v.
  Proof.
    induction g as [|a g IH]; intros Hall; [reflexivity|].
    cbn [map length]. rewrite nsum_cons, Nat2N.inj_succ, N.mul_succ_l.
    rewrite (hval_nz a v) by (apply Hall; left; reflexivity).
    rewrite IH by (intros r Hr; apply Hall; right; exact Hr). lia.
  Qed.

  Lemma select_done f values iv sel : target <= iv -> select f target m values iv sel = SDone iv sel.
  Proof. intros H. apply N.ltb_ge in H. destruct f; cbn [select]; rewrite H; reflexivity. Qed.

  (* loop invariant at line 109 *)
  Definition SInv (values : list N) (iv : N) (sel : list ref) : Prop :=
    NoDup values /\
    (forall v, In v values -> G hs v <> []) /\
    NoDup sel /\
    (forall r, In r sel -> exists v, In (r, v) (nz hs) /\ ~ In v values) /\
    iv = nsum (map (hval hs) sel) /\
    iv + remf (nz hs) values <= balance hs /\
    (target <= iv \/ iv + remf (nz hs) values = balance hs).

  Definition SPost (iv : N) (sel : list ref) : Prop :=
    target <= iv /\ NoDup sel /\ (forall r, In r sel -> exists v, In (r, v) (nz hs)) /\
    iv = nsum (map (hval hs) sel) /\ iv <= balance hs.

  Lemma values_bounded values :
    (forall v, In v values -> G hs v <> []) -> Forall (fun w => w < two64) values.
  Proof.
    intros Hvg. apply Forall_forall. intros w Hw. apply Hvg in Hw. apply G_nonempty in Hw.
    destruct Hw as (r & Hin). apply nz_le_balance in Hin. lia.
  Qed.

  Lemma select_ok : forall fuel values iv sel,
    SInv values iv sel -> (length values < fuel)%nat ->
    exists iv' sel', select fuel target m values iv sel = SDone iv' sel' /\ SPost iv' sel'.
  Proof.
    induction fuel as [|fuel IH]; intros values iv sel Hinv Hlen; [lia|].
    destruct Hinv as (Hvnd & Hvg & Hsnd & Hsv & Hiv & Hle & Hdisj).
    cbn [select]. destruct (iv <? target) eqn:E.
    2:{ apply N.ltb_ge in E. exists iv, sel. split; [reflexivity|].
        split; [exact E|]. split; [exact Hsnd|]. split.
        { intros r Hr. destruct (Hsv r Hr) as (v & Hin & _). exists v; exact Hin. }
        split; [exact Hiv|lia]. }
    apply N.ltb_lt in E.
    assert (Hne : values <> []).
    { intros ->. rewrite remf_nil in Hdisj. lia. }
    pose proof (values_bounded values Hvg) as Hvb.
    assert (Htlt : target < two64) by lia.
    destruct (find_closest_spec target Htlt values Hvb Hne) as (cv & Hn & _).
    rewrite Hn.
    assert (Hcv_in : In cv values) by (eapply nth_error_In; exact Hn).
    pose proof (Hvg cv Hcv_in) as Hgne.
    destruct (target <? cv) eqn:Ec.
    - apply N.ltb_lt in Ec. rewrite Hm. destruct (G hs cv) as [|r0 g] eqn:EG; [congruence|].
      assert (Hr0 : In (r0, cv) (nz hs)) by (apply G_In; rewrite EG; left; reflexivity).
      exists cv, [r0]. split; [reflexivity|].
      split; [lia|]. split; [constructor; [intros []|constructor]|]. split.
      { intros r [<-|[]]. exists cv; exact Hr0. }
      split.
      { cbn [map]. rewrite nsum_cons. cbn [nsum fold_right]. rewrite (hval_nz r0 cv Hr0). lia. }
      apply (nz_le_balance r0); exact Hr0.
    - apply N.ltb_ge in Ec.
      destruct (nth_error_split values _ Hn) as (l1 & l2 & Hsplit & Hl1).
      set (i := find_closest target values) in *. clearbody i. subst i. subst values.
      rewrite remove_at_split. rewrite Hm.
      destruct (NoDup_remove _ _ _ Hvnd) as (Hvnd' & Hni).
      rewrite (remf_G hs l1 cv l2 Hni) in Hle, Hdisj.
      destruct (take_spec target cv (G hs cv) iv sel) as (k & Hk & Htake & Hkd); [lia|].
      rewrite Htake.
      assert (Hkle : N.of_nat k * cv <= N.of_nat (length (G hs cv)) * cv).
      { apply N.mul_le_mono_r. lia. }
      apply IH.
      + split; [exact Hvnd'|]. split.
        { intros v Hv. apply Hvg. rewrite in_app_iff in *. cbn [In]. tauto. }
        split.
        { apply NoDup_app_intro; [exact Hsnd|apply NoDup_firstn; apply G_NoDup; exact Hnd|].
          intros r Hr Hr2. destruct (Hsv r Hr) as (v & Hin & Hnv).
          apply firstn_In in Hr2. apply G_In in Hr2.
          assert (v = cv) by (rewrite <- (hval_nz r v Hin); apply hval_nz; exact Hr2).
          subst v. apply Hnv. rewrite in_app_iff. right; left; reflexivity. }
        split.
        { intros r Hr. apply in_app_iff in Hr. destruct Hr as [Hr|Hr].
          - destruct (Hsv r Hr) as (v & Hin & Hnv). exists v. split; [exact Hin|].
            intros H. apply Hnv. rewrite in_app_iff in *. cbn [In]. tauto.
          - apply firstn_In in Hr. apply G_In in Hr. exists cv. split; [exact Hr|exact Hni]. }
        split.
        { rewrite map_app, nsum_app, <- Hiv. f_equal.
          rewrite (nsum_hval_group (firstn k (G hs cv)) cv).
          - rewrite firstn_length_le by exact Hk. reflexivity.
          - intros r Hr. apply firstn_In in Hr. apply G_In. exact Hr. }
        split; [lia|].
        destruct Hkd as [->|Hkd]; [|left; exact Hkd].
        right. destruct Hdisj as [Hd|Hd]; lia.
      + rewrite app_length in *. cbn [length] in Hlen. lia.
  Qed.

  (* "a single one when one alone suffices" *)
  Lemma select_single f values :
    (forall v, In v values -> G hs v <> []) -> 0 < target ->
    (exists w, In w values /\ target <= w) ->
    exists iv r, select (S f) target m values 0 [] = SDone iv [r].
  Proof.
    intros Hvg Hpos Hex.
    assert (Hne : values <> []) by (destruct Hex as (w & Hw & _); intros ->; destruct Hw).
    pose proof (values_bounded values Hvg) as Hvb.
    assert (Htlt : target < two64) by lia.
    destruct (find_closest_spec target Htlt values Hvb Hne) as (cv & Hn & Hge & _).
    destruct (Hge Hex) as (Hcv & _).
    cbn [select]. apply N.ltb_lt in Hpos. rewrite Hpos. rewrite Hn.
    assert (Hcv_in : In cv values) by (eapply nth_error_In; exact Hn).
    pose proof (Hvg cv Hcv_in) as Hgne.
    assert (Hcvb : cv < two64) by (rewrite Forall_forall in Hvb; apply Hvb; exact Hcv_in).
    rewrite Hm. destruct (G hs cv) as [|r0 g] eqn:EG; [congruence|].
    destruct (target <? cv) eqn:Ec.
    - exists cv, r0. reflexivity.
    - apply N.ltb_ge in Ec. cbn [take]. rewrite Hpos.
      assert (Ha : add64 0 cv = cv) by (unfold add64; rewrite N.add_0_l; apply N.mod_small; exact Hcvb).
      rewrite Ha. rewrite take_done by lia. cbn [app]. rewrite select_done by lia.
      exists cv, r0. reflexivity.
  Qed.
End Select.

(* ---------------------------------------------------------------------------------- *)
(* GetTransactionInfo                                                                  *)
(* ---------------------------------------------------------------------------------- *)

Lemma nsum_hval_all hs L :
  NoDup (map fst hs) -> (forall h, In h L -> In h hs) ->
  nsum (map (hval hs) (map fst L)) = nsum (map snd L).
Proof.
  intros Hnd Hsub. rewrite map_map. f_equal. apply map_ext_in.
  intros [r v] Hin. cbn [fst snd]. apply hval_In; [exact Hnd|]. apply Hsub; exact Hin.
Qed.

Lemma scan_bal_exact c hs : balance hs < two64 -> sc_bal (scan c hs) = balance hs.
Proof. intros Hb. rewrite scan_bal, <- balance_all. apply N.mod_small; exact Hb. Qed.

(* everything the property says about an affordable request, in one statement *)
Theorem C18_ok : forall fee c amount hs,
  NoDup (map fst hs) -> balance hs < two64 -> amount + fee <= balance hs ->
  exists rest inputs,
    tx_info fee c amount hs = InfoOk rest inputs /\
    NoDup inputs /\
    (forall r, In r inputs -> exists v, In (r, v) hs /\ v <> 0) /\
    nsum (map (hval hs) inputs) = amount + fee + rest /\
    (c = true -> inputs = map fst (nz hs)).
Proof.
  intros fee c amount hs Hnd Hb Hle.
  assert (Ht : add64 amount fee = amount + fee) by (unfold add64; apply N.mod_small; lia).
  unfold tx_info. rewrite Ht, (scan_bal_exact c hs Hb).
  assert (El : (balance hs <? amount + fee) = false) by (apply N.ltb_ge; exact Hle).
  rewrite El. destruct c.
  - exists (sub64 (balance hs) (amount + fee)), (sc_sel (scan true hs)).
    rewrite scan_sel_true, (sub64_exact _ _ Hle Hb).
    split; [reflexivity|]. split; [unfold nz; apply NoDup_map_filter; exact Hnd|]. split.
    { intros r Hr. apply in_map_iff in Hr. destruct Hr as ([r' v] & Hf & Hin). cbn [fst] in Hf. subst r'.
      exists v. apply nz_In. exact Hin. }
    split; [|reflexivity].
    rewrite (nsum_hval_all hs (nz hs) Hnd).
    + fold (balance hs). lia.
    + intros [r v] Hin. apply nz_In in Hin. tauto.
  - destruct (sc_vals (scan false hs)) as [|x l] eqn:EV.
    + (* no non-zero holding at all: balance = 0 = target *)
      assert (Hnz : nz hs = []).
      { destruct (nz hs) as [|[r v] t] eqn:En; [reflexivity|].
        assert (Hin : In v (sc_vals (scan false hs))).
        { apply scan_vals_In. exists r. rewrite En. left; reflexivity. }
        rewrite EV in Hin. destruct Hin. }
      assert (Hb0 : balance hs = 0) by (unfold balance; rewrite Hnz; reflexivity).
      exists (sub64 0 (amount + fee)), (sc_sel (scan false hs)).
      rewrite scan_sel_false. rewrite sub64_exact by lia.
      split; [reflexivity|]. split; [constructor|]. split; [intros r []|].
      split; [cbn [map nsum fold_right]; lia|discriminate].
    + rewrite <- EV.
      destruct (select_ok hs (amount + fee) (sc_map (scan false hs)) Hnd (scan_grp hs) Hb Hle
                  (S (length (sc_vals (scan false hs)))) (sc_vals (scan false hs)) 0 [])
        as (iv & sel & Hsel & Hge & Hsnd & Hsin & Hiv & Hivb); [|lia|].
      { split; [apply scan_vals_NoDup|]. split.
        { intros v Hv. apply G_nonempty. apply scan_vals_In. exact Hv. }
        split; [constructor|]. split; [intros r []|]. split; [reflexivity|].
        assert (Hall : remf (nz hs) (sc_vals (scan false hs)) = balance hs).
        { apply remf_all. intros [r v] Hin. cbn [snd]. apply scan_vals_In. exists r; exact Hin. }
        rewrite Hall. split; [lia|right; lia]. }
      rewrite Hsel. exists (sub64 iv (amount + fee)), sel.
      rewrite sub64_exact by lia.
      split; [reflexivity|]. split; [exact Hsnd|]. split.
      { intros r Hr. destruct (Hsin r Hr) as (v & Hin). exists v. apply nz_In. exact Hin. }
      split; [lia|discriminate].
Qed.

Theorem C18_405 : forall fee c amount hs,
  balance hs < two64 -> amount + fee < two64 -> NoDup (map fst hs) ->
  (tx_info fee c amount hs = Info405 <-> balance hs < amount + fee).
Proof.
  intros fee c amount hs Hb Ht Hnd. split.
  - intros H405. destruct (N.le_gt_cases (amount + fee) (balance hs)) as [Hle|Hgt]; [|exact Hgt].
    destruct (C18_ok fee c amount hs Hnd Hb Hle) as (rest & inputs & Heq & _). congruence.
  - intros Hlt. unfold tx_info.
    assert (Ha : add64 amount fee = amount + fee) by (unfold add64; apply N.mod_small; exact Ht).
    rewrite Ha, (scan_bal_exact c hs Hb). apply N.ltb_lt in Hlt. rewrite Hlt. reflexivity.
Qed.

Theorem C18_exact : forall fee c amount hs rest inputs,
  NoDup (map fst hs) -> balance hs < two64 -> amount + fee < two64 ->
  tx_info fee c amount hs = InfoOk rest inputs ->
  NoDup inputs /\
  (forall r, In r inputs -> exists v, In (r, v) hs /\ v <> 0) /\
  nsum (map (hval hs) inputs) = amount + fee + rest.
Proof.
  intros fee c amount hs rest inputs Hnd Hb Ht Heq.
  destruct (N.le_gt_cases (amount + fee) (balance hs)) as [Hle|Hgt].
  - destruct (C18_ok fee c amount hs Hnd Hb Hle) as (rest' & inputs' & Heq' & H1 & H2 & H3 & _).
    rewrite Heq in Heq'. injection Heq' as -> ->. tauto.
  - apply (C18_405 fee c amount hs Hb Ht Hnd) in Hgt. congruence.
Qed.

Theorem C18_consolidate : forall fee amount hs rest inputs,
  NoDup (map fst hs) -> balance hs < two64 -> amount + fee < two64 ->
  tx_info fee true amount hs = InfoOk rest inputs ->
  inputs = map fst (nz hs) /\ rest = balance hs - (amount + fee).
Proof.
  intros fee amount hs rest inputs Hnd Hb Ht Heq.
  destruct (N.le_gt_cases (amount + fee) (balance hs)) as [Hle|Hgt].
  - destruct (C18_ok fee true amount hs Hnd Hb Hle) as (rest' & inputs' & Heq' & _ & _ & H3 & H4).
    rewrite Heq in Heq'. injection Heq' as -> ->. specialize (H4 eq_refl). subst inputs'.
    split; [reflexivity|].
    rewrite (nsum_hval_all hs (nz hs) Hnd) in H3.
    + fold (balance hs) in H3. lia.
    + intros [r v] Hin. apply nz_In in Hin. tauto.
  - apply (C18_405 fee true amount hs Hb Ht Hnd) in Hgt. congruence.
Qed.

Theorem C18_single : forall fee amount hs rest inputs,
  balance hs < two64 -> 0 < amount + fee ->
  (exists r v, In (r, v) hs /\ amount + fee <= v) ->
  tx_info fee false amount hs = InfoOk rest inputs ->
  length inputs = 1%nat.
Proof.
  intros fee amount hs rest inputs Hb Hpos (r & v & Hin & Hv) Heq.
  assert (Hinz : In (r, v) (nz hs)) by (apply nz_In; split; [exact Hin|lia]).
  assert (Hle : amount + fee <= balance hs).
  { pose proof (nz_le_balance hs r v Hinz). lia. }
  assert (Ht : add64 amount fee = amount + fee) by (unfold add64; apply N.mod_small; lia).
  unfold tx_info in Heq. rewrite Ht, (scan_bal_exact false hs Hb) in Heq.
  assert (El : (balance hs <? amount + fee) = false) by (apply N.ltb_ge; exact Hle).
  rewrite El in Heq.
  assert (Hvin : In v (sc_vals (scan false hs))) by (apply scan_vals_In; exists r; exact Hinz).
  destruct (sc_vals (scan false hs)) as [|x l] eqn:EV; [destruct Hvin|].
  rewrite <- EV in Heq, Hvin.
  destruct (select_single hs (amount + fee) (sc_map (scan false hs)) (scan_grp hs) Hb Hle
              (length (sc_vals (scan false hs))) (sc_vals (scan false hs))) as (iv & r0 & Hsel).
  - intros w Hw. apply G_nonempty. apply scan_vals_In. exact Hw.
  - exact Hpos.
  - exists v. split; [exact Hvin|exact Hv].
  - rewrite Hsel in Heq. injection Heq as _ <-. reflexivity.
Qed.

(* with a zero target (amount = 0 and a zero minimal fee) the non-consolidating answer is
   the empty selection: the only case where C18_single's conclusion fails *)
Theorem C18_zero_target : forall hs, balance hs < two64 -> tx_info 0 false 0 hs = InfoOk 0 [].
Proof.
  intros hs Hb. unfold tx_info. rewrite (scan_bal_exact false hs Hb).
  change (add64 0 0) with 0. rewrite scan_sel_false.
  destruct (balance hs <? 0) eqn:E; [apply N.ltb_lt in E; lia|].
  destruct (sc_vals (scan false hs)) as [|x l]; [reflexivity|]. reflexivity.
Qed.

Theorem C18_no_panic : forall fee c amount hs,
  NoDup (map fst hs) -> balance hs < two64 -> amount + fee <= balance hs ->
  tx_info fee c amount hs <> InfoPanic /\ tx_info fee c amount hs <> InfoFuel /\
  tx_info fee c amount hs <> Info405.
Proof.
  intros fee c amount hs Hnd Hb Hle.
  destruct (C18_ok fee c amount hs Hnd Hb Hle) as (rest & inputs & Heq & _).
  rewrite Heq. repeat split; discriminate.
Qed.
