(* NbInterleave_lemmas.v — the neighbor-refresh round is linearisable at its snapshot
   (model/NbInterleave.v): messages handled while phase 2 of Synchronize runs act as if they had
   arrived right after the round. *)
From RV Require Import model.Base model.Neighborhood model.NbInterleave proofs.Neighborhood_lemmas.
From Coq Require Import Lia ZArith Permutation.
Local Open Scope Z_scope.

(* ---- schedules: facts that do not depend on the environment ---- *)

Lemma forallb_msg_app a b :
  forallb is_msg (a ++ b) = forallb is_msg a && forallb is_msg b.
Proof. apply forallb_app. Qed.

Lemma atomic_gen_msgs f b X :
  forallb is_msg b = true -> atomic_gen f (b ++ X) = atomic_gen f X.
Proof.
  induction b as [|m b IH]; intros Hb; [reflexivity|].
  cbn [forallb] in Hb. apply andb_true_iff in Hb. destruct Hb as [Hm Hb].
  destruct m; try discriminate Hm; cbn [app atomic_gen]; apply IH; exact Hb.
Qed.

Lemma atomic_gen_open f b :
  forallb is_msg b = true -> f = true -> atomic_gen f (NS1 :: b) = true.
Proof.
  intros Hb Hf. subst f. destruct b as [|m b]; [reflexivity|].
  destruct m; try discriminate Hb; cbn [atomic_gen]; rewrite Hb; reflexivity.
Qed.

(* the linearised schedule has no message inside a round *)
Lemma lin_atomic_gen f : forall r,
  (nb_wf_gen f false r = true -> atomic_gen f (lin None r) = true) /\
  (forall b, forallb is_msg b = true -> nb_wf_gen f true r = true ->
             atomic_gen f (NS1 :: lin (Some b) r) = true).
Proof.
  induction r as [|s r [IH1 IH2]]; split.
  - intros _. reflexivity.
  - intros b Hb Hw. cbn [lin]. cbn [nb_wf_gen negb] in Hw. rewrite orb_false_r in Hw.
    apply atomic_gen_open; assumption.
  - intros Hw. destruct s as [|o p|ts|t]; cbn [nb_wf_gen negb andb] in Hw.
    + cbn [lin]. apply IH2; [reflexivity|exact Hw].
    + discriminate Hw.
    + cbn [lin atomic_gen]. apply IH1. exact Hw.
    + cbn [lin atomic_gen]. apply IH1. exact Hw.
  - intros b Hb Hw. destruct s as [|o p|ts|t]; cbn [nb_wf_gen negb andb] in Hw.
    + discriminate Hw.
    + cbn [lin atomic_gen]. rewrite atomic_gen_msgs by exact Hb. apply IH1. exact Hw.
    + cbn [lin]. apply IH2; [|exact Hw]. rewrite forallb_msg_app, Hb. reflexivity.
    + cbn [lin]. apply IH2; [|exact Hw]. rewrite forallb_msg_app, Hb. reflexivity.
Qed.

Lemma linearise_atomic sched : nb_wf sched = true -> atomic (linearise sched) = true.
Proof. apply (lin_atomic_gen true sched). Qed.

Lemma linearise_atomic_closed sched :
  nb_complete sched = true -> atomic_closed (linearise sched) = true.
Proof. apply (lin_atomic_gen false sched). Qed.

(* it is a rearrangement of the schedule ... *)
Lemma lin_perm : forall r,
  Permutation r (lin None r) /\ (forall b, Permutation (b ++ r) (lin (Some b) r)).
Proof.
  induction r as [|s r [IH1 IH2]]; split.
  - apply Permutation_refl.
  - intros b. rewrite app_nil_r. apply Permutation_refl.
  - destruct s as [|o p|ts|t]; cbn [lin]; apply perm_skip; [apply (IH2 [])|exact IH1..].
  - intros b. destruct s as [|o p|ts|t]; cbn [lin].
    + eapply Permutation_trans; [apply Permutation_sym, Permutation_middle|].
      apply perm_skip. apply IH2.
    + eapply Permutation_trans; [apply Permutation_sym, Permutation_middle|].
      apply perm_skip. apply Permutation_app_head. exact IH1.
    + rewrite <- IH2. rewrite <- app_assoc. apply Permutation_refl.
    + rewrite <- IH2. rewrite <- app_assoc. apply Permutation_refl.
Qed.

Lemma linearise_perm sched : Permutation sched (linearise sched).
Proof. apply lin_perm. Qed.

(* ... that keeps the messages in their order and the round steps in theirs *)
Lemma filter_msgs_all b : forallb is_msg b = true -> filter is_msg b = b.
Proof.
  induction b as [|m b IH]; intros Hb; [reflexivity|].
  cbn [forallb] in Hb. apply andb_true_iff in Hb. destruct Hb as [Hm Hb].
  cbn [filter]. rewrite Hm, IH by exact Hb. reflexivity.
Qed.

Lemma filter_msgs_none b : forallb is_msg b = true -> filter (fun s => negb (is_msg s)) b = [].
Proof.
  induction b as [|m b IH]; intros Hb; [reflexivity|].
  cbn [forallb] in Hb. apply andb_true_iff in Hb. destruct Hb as [Hm Hb].
  cbn [filter]. rewrite Hm. cbn [negb]. apply IH. exact Hb.
Qed.

Lemma lin_messages : forall r,
  filter is_msg (lin None r) = filter is_msg r /\
  (forall b, filter is_msg (lin (Some b) r) = filter is_msg (b ++ r)).
Proof.
  induction r as [|s r [IH1 IH2]]; split.
  - reflexivity.
  - intros b. rewrite app_nil_r. reflexivity.
  - destruct s as [|o p|ts|t]; cbn [lin filter is_msg]; rewrite ?IH1; try reflexivity.
    rewrite (IH2 []). reflexivity.
  - intros b. destruct s as [|o p|ts|t]; cbn [lin].
    + cbn [filter is_msg]. rewrite IH2, !filter_app. reflexivity.
    + cbn [filter is_msg]. rewrite !filter_app, IH1. reflexivity.
    + rewrite IH2, <- app_assoc. reflexivity.
    + rewrite IH2, <- app_assoc. reflexivity.
Qed.

Lemma lin_rounds : forall r,
  filter (fun s => negb (is_msg s)) (lin None r) = filter (fun s => negb (is_msg s)) r /\
  (forall b, forallb is_msg b = true ->
             filter (fun s => negb (is_msg s)) (lin (Some b) r) = filter (fun s => negb (is_msg s)) r).
Proof.
  induction r as [|s r [IH1 IH2]]; split.
  - reflexivity.
  - intros b Hb. cbn [lin]. apply filter_msgs_none. exact Hb.
  - destruct s as [|o p|ts|t]; cbn [lin filter is_msg negb]; rewrite ?IH1; try reflexivity.
    rewrite (IH2 []) by reflexivity. reflexivity.
  - intros b Hb. destruct s as [|o p|ts|t]; cbn [lin].
    + cbn [filter is_msg negb]. rewrite IH2 by exact Hb. reflexivity.
    + cbn [filter is_msg negb]. rewrite filter_app, IH1, filter_msgs_none by exact Hb. reflexivity.
    + cbn [filter is_msg negb]. apply IH2. rewrite forallb_msg_app, Hb. reflexivity.
    + cbn [filter is_msg negb]. apply IH2. rewrite forallb_msg_app, Hb. reflexivity.
Qed.

Lemma linearise_messages sched : filter is_msg (linearise sched) = filter is_msg sched.
Proof. apply lin_messages. Qed.

Lemma linearise_rounds sched :
  filter (fun s => negb (is_msg s)) (linearise sched) = filter (fun s => negb (is_msg s)) sched.
Proof. apply lin_rounds. Qed.

(* a schedule that stops inside a round is finished by one more S2 *)
Lemma wf_complete_or : forall r p,
  nb_wf_gen true p r = true ->
  nb_wf_gen false p r = true \/ nb_wf_gen false p (r ++ [NS2 [] []]) = true.
Proof.
  induction r as [|s r IH]; intros p Hw.
  - destruct p; [right|left]; reflexivity.
  - destruct s as [|o q|ts|t]; cbn [nb_wf_gen app] in Hw |- *.
    + apply andb_true_iff in Hw. destruct Hw as [Hp Hw]. rewrite Hp. cbn [andb]. apply IH. exact Hw.
    + apply andb_true_iff in Hw. destruct Hw as [Hp Hw]. rewrite Hp. cbn [andb]. apply IH. exact Hw.
    + apply IH. exact Hw.
    + apply IH. exact Hw.
Qed.

Section NbInterleaveLemmas.
  Variable split_hp : string -> option (string * string).
  Variable resolve : string -> string -> option string.
  Variable host : string.
  Variable host_port : string.
  Variable seeds : list (string * Z).
  Variable max : Z.

  Notation step := (nb_step split_hp resolve host host_port seeds max).
  Notation run := (nb_run split_hp resolve host host_port seeds max).
  Notation step_late := (nb_step_late split_hp resolve host host_port seeds max).
  Notation run_late := (nb_run_late split_hp resolve host host_port seeds max).
  Notation amsgs := (apply_msgs split_hp host_port).
  Notation round_of := (round_of split_hp resolve host max).
  Notation sync_round := (sync_round split_hp resolve host).
  Notation arun := (arun split_hp resolve host host_port seeds max).
  Notation astep := (astep split_hp resolve host host_port seeds max).

  Lemma sync_round_of scores order perm :
    sync_round seeds scores order max perm
    = (fst (round_of (known seeds scores) order perm), snd (round_of (known seeds scores) order perm),
       sync_scores_after).
  Proof. reflexivity. Qed.

  Lemma run_cons s r st :
    run (s :: r) st = (fst (run r (fst (step s st))), snd (step s st) ++ snd (run r (fst (step s st)))).
  Proof. reflexivity. Qed.

  Lemma run_app a : forall b st,
    run (a ++ b) st
    = (fst (run b (fst (run a st))), snd (run a st) ++ snd (run b (fst (run a st)))).
  Proof.
    induction a as [|s a IH]; intros b st.
    - cbn [app nb_run fst snd]. destruct (run b st); reflexivity.
    - cbn [app]. rewrite !run_cons, IH. cbn [fst snd]. rewrite app_assoc. reflexivity.
  Qed.

  (* messages only touch the live map *)
  Lemma run_msgs ms : forall st,
    forallb is_msg ms = true ->
    run ms st = (mkNb (amsgs ms (nb_scores st)) (nb_senders st) (nb_pending st), []).
  Proof.
    induction ms as [|m ms IH]; intros st Hm.
    - destruct st; reflexivity.
    - cbn [forallb] in Hm. apply andb_true_iff in Hm. destruct Hm as [Hm Hms].
      rewrite run_cons, IH by exact Hms.
      destruct m; try discriminate Hm; reflexivity.
  Qed.

  (* ---- 1. S1;S2 with nothing between is the atomic round ---- *)
  Lemma nb_phases_atomic : forall st order perm out msgs scores',
    nb_pending st = None ->
    sync_round seeds (nb_scores st) order max perm = (out, msgs, scores') ->
    run [NS1; NS2 order perm] st = (mkNb scores' out None, [(out, msgs)]).
  Proof.
    intros st order perm out msgs scores' Hp H.
    rewrite sync_round_of in H. injection H as H1 H2 H3. subst out msgs scores'.
    cbn [nb_run nb_step]. rewrite Hp. cbn [fst snd nb_pending nb_scores nb_senders app].
    reflexivity.
  Qed.

  (* ---- 2. phase 2 commutes with the messages ---- *)
  Lemma s2_commutes ms order perm st :
    forallb is_msg ms = true ->
    run (ms ++ [NS2 order perm]) st = run (NS2 order perm :: ms) st.
  Proof.
    intros Hm. rewrite run_app, (run_msgs ms st Hm), (run_cons (NS2 order perm) ms).
    rewrite (run_msgs ms _ Hm).
    cbn [fst snd nb_run nb_step nb_pending nb_scores nb_senders app].
    destruct (nb_pending st) as [m|] eqn:E; cbn [fst snd nb_pending nb_scores nb_senders].
    - rewrite app_nil_r. reflexivity.
    - rewrite E. reflexivity.
  Qed.

  Lemma nb_window_commutes_run : forall ms order perm st,
    forallb is_msg ms = true ->
    run (NS1 :: ms ++ [NS2 order perm]) st = run (NS1 :: NS2 order perm :: ms) st.
  Proof.
    intros ms order perm st Hm.
    rewrite (run_cons NS1 (ms ++ _)), (run_cons NS1 (NS2 _ _ :: _)), s2_commutes by exact Hm.
    reflexivity.
  Qed.

  (* ... so the round with messages inside is the atomic round followed by the messages *)
  Lemma nb_window_commutes : forall ms order perm st out msgs scores',
    forallb is_msg ms = true ->
    nb_pending st = None ->
    sync_round seeds (nb_scores st) order max perm = (out, msgs, scores') ->
    run (NS1 :: ms ++ [NS2 order perm]) st = run (NS1 :: NS2 order perm :: ms) st /\
    run (NS1 :: ms ++ [NS2 order perm]) st = (mkNb (amsgs ms scores') out None, [(out, msgs)]).
  Proof.
    intros ms order perm st out msgs scores' Hm Hp H.
    split; [apply nb_window_commutes_run; exact Hm|].
    rewrite nb_window_commutes_run by exact Hm.
    change (NS1 :: NS2 order perm :: ms) with ([NS1; NS2 order perm] ++ ms).
    rewrite run_app, (nb_phases_atomic st order perm out msgs scores' Hp H).
    cbn [fst snd]. rewrite run_msgs by exact Hm. reflexivity.
  Qed.

  (* ---- 3. every schedule does what its linearisation does ---- *)
  Lemma step_s1_pending st : nb_pending (fst (step NS1 st)) <> None.
  Proof.
    cbn [nb_step]. destruct (nb_pending st) eqn:E; cbn [fst nb_pending]; [rewrite E|]; discriminate.
  Qed.

  Lemma step_s1_noop st : nb_pending st <> None -> step NS1 st = (st, []).
  Proof. intros H. cbn [nb_step]. destruct (nb_pending st); [reflexivity|contradiction]. Qed.

  Lemma lin_run : forall r,
    (forall st, run r st = run (lin None r) st) /\
    (forall b st, forallb is_msg b = true -> nb_pending st <> None ->
                  run (b ++ r) st = run (lin (Some b) r) st).
  Proof.
    induction r as [|s r [IH1 IH2]]; split.
    - reflexivity.
    - intros b st _ _. rewrite app_nil_r. reflexivity.
    - intros st. destruct s as [|o p|ts|t]; cbn [lin]; rewrite !run_cons.
      + rewrite <- (IH2 [] _ eq_refl (step_s1_pending st)). reflexivity.
      + rewrite <- IH1. reflexivity.
      + rewrite <- IH1. reflexivity.
      + rewrite <- IH1. reflexivity.
    - intros b st Hb Hp. destruct s as [|o p|ts|t]; cbn [lin].
      + rewrite run_cons, step_s1_noop by exact Hp. cbn [fst snd app].
        rewrite <- IH2 by assumption.
        rewrite (run_app b (NS1 :: r)), (run_app b r), (run_msgs b st Hb). cbn [fst snd app].
        rewrite run_cons, step_s1_noop by (cbn [nb_pending]; exact Hp). reflexivity.
      + change (b ++ NS2 o p :: r) with (b ++ [NS2 o p] ++ r). rewrite app_assoc.
        change (NS2 o p :: b ++ lin None r) with ((NS2 o p :: b) ++ lin None r).
        rewrite (run_app (b ++ [NS2 o p]) r), (run_app (NS2 o p :: b) (lin None r)).
        rewrite (s2_commutes b o p st Hb), <- IH1. reflexivity.
      + change (b ++ NAdd ts :: r) with (b ++ [NAdd ts] ++ r). rewrite app_assoc.
        apply IH2; [|exact Hp]. rewrite forallb_msg_app, Hb. reflexivity.
      + change (b ++ NInc t :: r) with (b ++ [NInc t] ++ r). rewrite app_assoc.
        apply IH2; [|exact Hp]. rewrite forallb_msg_app, Hb. reflexivity.
  Qed.

  Lemma nb_schedule_linearisable : forall sched st,
    run sched st = run (linearise sched) st /\
    (nb_wf sched = true -> atomic (linearise sched) = true) /\
    (nb_complete sched = true -> atomic_closed (linearise sched) = true) /\
    Permutation sched (linearise sched) /\
    filter is_msg (linearise sched) = filter is_msg sched /\
    filter (fun s => negb (is_msg s)) (linearise sched) = filter (fun s => negb (is_msg s)) sched.
  Proof.
    intros sched st. split; [apply lin_run|].
    split; [apply linearise_atomic|]. split; [apply linearise_atomic_closed|].
    split; [apply linearise_perm|]. split; [apply linearise_messages|apply linearise_rounds].
  Qed.

  (* ---- an atomic schedule is a sequence of atomic operations ---- *)
  Lemma atomic_closed_run : forall n X, (length X <= n)%nat -> atomic_closed X = true ->
    forall s, run X (nb_of s) = (nb_of (fst (arun (fuse X) s)), snd (arun (fuse X) s)).
  Proof.
    induction n as [|n IH]; intros X Hn Hc s.
    - destruct X; [reflexivity|cbn [length] in Hn; lia].
    - destruct X as [|s0 X]; [reflexivity|]. cbn [length] in Hn.
      destruct s0 as [|o p|ts|t].
      + destruct X as [|[|o p|ts|t] X]; try discriminate Hc.
        cbn [length] in Hn. unfold atomic_closed in Hc. cbn [atomic_gen] in Hc.
        cbn [fuse NbInterleave.arun NbInterleave.astep]. rewrite sync_round_of. cbn [fst snd].
        change (NS1 :: NS2 o p :: X) with ([NS1; NS2 o p] ++ X). rewrite run_app.
        rewrite (nb_phases_atomic (nb_of s) o p _ _ _ eq_refl (sync_round_of _ _ _)).
        cbn [fst snd nb_of nb_scores].
        pose proof (IH X ltac:(lia) Hc (sync_scores_after, fst (round_of (known seeds (fst s)) o p))) as E.
        unfold nb_of in E. cbn [fst snd] in E. rewrite E. reflexivity.
      + discriminate Hc.
      + unfold atomic_closed in Hc. cbn [atomic_gen] in Hc.
        cbn [fuse NbInterleave.arun NbInterleave.astep]. rewrite run_cons.
        pose proof (IH X ltac:(lia) Hc (add_targets split_hp host_port (fst s) ts, snd s)) as E.
        unfold nb_of in E. cbn [fst snd] in E.
        cbn [nb_step msg_scores nb_of nb_scores nb_senders nb_pending fst snd app].
        rewrite E. reflexivity.
      + unfold atomic_closed in Hc. cbn [atomic_gen] in Hc.
        cbn [fuse NbInterleave.arun NbInterleave.astep]. rewrite run_cons.
        pose proof (IH X ltac:(lia) Hc (incentive (fst s) t, snd s)) as E.
        unfold nb_of in E. cbn [fst snd] in E.
        cbn [nb_step msg_scores nb_of nb_scores nb_senders nb_pending fst snd app].
        rewrite E. reflexivity.
  Qed.

  Lemma nb_of_state st : nb_pending st = None -> st = nb_of (nb_scores st, nb_senders st).
  Proof. destruct st as [a b c]; cbn. intros ->. reflexivity. Qed.

  (* every schedule of finished rounds is a sequential history of sync_round/add_targets/incentive *)
  Lemma nb_schedule_sequential : forall sched st,
    nb_complete sched = true -> nb_pending st = None ->
    let y := arun (fuse (linearise sched)) (nb_scores st, nb_senders st) in
    run sched st = (nb_of (fst y), snd y).
  Proof.
    intros sched st Hc Hp y. subst y.
    rewrite (proj1 (lin_run sched)). fold (linearise sched).
    rewrite (nb_of_state st Hp) at 1.
    apply (atomic_closed_run (length (linearise sched))); [lia|].
    apply linearise_atomic_closed. exact Hc.
  Qed.

  (* ---- hence: what holds of every sequential history holds of the rounds of every schedule ---- *)
  Section Transfer.
    Variable Inv : list (string * Z) -> Prop.
    Hypothesis Inv_empty : Inv sync_scores_after.
    Hypothesis Inv_add : forall s ts, Inv s -> Inv (add_targets split_hp host_port s ts).
    Hypothesis Inv_inc : forall s t, Inv s -> Inv (incentive s t).

    (* the output is that of the atomic round on a live map satisfying the invariant *)
    Definition round_from_inv (o : nb_output) : Prop :=
      exists scores order perm,
        Inv scores /\ sync_round seeds scores order max perm = (fst o, snd o, sync_scores_after).

    Lemma arun_inv : forall ops s, Inv (fst s) ->
      Inv (fst (fst (arun ops s))) /\ Forall round_from_inv (snd (arun ops s)).
    Proof.
      induction ops as [|a ops IH]; intros s Hs.
      - split; [exact Hs|constructor].
      - cbn [NbInterleave.arun]. cbn [fst snd].
        destruct a as [o p|ts|t]; cbn [NbInterleave.astep fst snd].
        + destruct (IH (snd (sync_round seeds (fst s) o max p), fst (fst (sync_round seeds (fst s) o max p))))
            as [I1 I2]; [exact Inv_empty|].
          split; [exact I1|]. constructor; [|exact I2].
          exists (fst s), o, p. split; [exact Hs|reflexivity].
        + destruct (IH (add_targets split_hp host_port (fst s) ts, snd s)) as [I1 I2];
            [apply Inv_add; exact Hs|]. split; assumption.
        + destruct (IH (incentive (fst s) t, snd s)) as [I1 I2];
            [apply Inv_inc; exact Hs|]. split; assumption.
    Qed.

    Lemma nb_complete_inv : forall sched st,
      nb_complete sched = true -> nb_pending st = None -> Inv (nb_scores st) ->
      Inv (nb_scores (fst (run sched st))) /\ Forall round_from_inv (snd (run sched st)).
    Proof.
      intros sched st Hc Hp Hi.
      rewrite (nb_schedule_sequential sched st Hc Hp). cbn [fst snd nb_of nb_scores].
      apply arun_inv. exact Hi.
    Qed.

    (* also when the schedule stops inside a round *)
    Lemma nb_wf_inv : forall sched st,
      nb_wf sched = true -> nb_pending st = None -> Inv (nb_scores st) ->
      Forall round_from_inv (snd (run sched st)).
    Proof.
      intros sched st Hw Hp Hi.
      destruct (wf_complete_or sched false Hw) as [Hc|Hc].
      - apply (nb_complete_inv sched st Hc Hp Hi).
      - destruct (nb_complete_inv _ st Hc Hp Hi) as [_ F].
        rewrite run_app in F. cbn [snd] in F. apply Forall_app in F. apply F.
    Qed.
  End Transfer.

  (* the instance used by C17_round: every round of every schedule is the atomic round on a map
     built by AddTargets/Incentive from the empty one, so C17_round applies to it *)
  Lemma nb_schedule_rounds_built : forall sched st,
    nb_wf sched = true -> nb_pending st = None -> built split_hp host_port (nb_scores st) ->
    Forall (fun o => exists scores order perm,
                built split_hp host_port scores /\
                sync_round seeds scores order max perm = (fst o, snd o, sync_scores_after))
           (snd (run sched st)) /\
    (nb_complete sched = true -> built split_hp host_port (nb_scores (fst (run sched st)))).
  Proof.
    intros sched st Hw Hp Hb. split.
    - apply (nb_wf_inv (built split_hp host_port)); try assumption.
      + constructor.
      + intros s ts H. constructor. exact H.
      + intros s t H. constructor. exact H.
    - intros Hc. apply (nb_complete_inv (built split_hp host_port)); try assumption.
      + constructor.
      + intros s ts H. constructor. exact H.
      + intros s t H. constructor. exact H.
  Qed.

  (* ... for instance the bound, for whatever the shuffle did *)
  Lemma nb_schedule_bound : forall sched st,
    0 <= max -> nb_wf sched = true -> nb_pending st = None ->
    Forall (fun o : nb_output => (length (fst o) <= Z.to_nat max)%nat) (snd (run sched st)).
  Proof.
    intros sched st Hmax Hw Hp.
    pose proof (nb_wf_inv (fun _ => True) I (fun _ _ _ => I) (fun _ _ _ => I) sched st Hw Hp I) as F.
    eapply Forall_impl; [|exact F].
    intros o [scores [order [perm [_ E]]]].
    unfold Neighborhood.sync_round in E. injection E as E _. rewrite <- E.
    apply nb_bound. exact Hmax.
  Qed.

  (* ---- the late reset is not told apart by sequential histories ---- *)
  Lemma run_late_cons s r st :
    run_late (s :: r) st
    = (fst (run_late r (fst (step_late s st))),
       snd (step_late s st) ++ snd (run_late r (fst (step_late s st)))).
  Proof. reflexivity. Qed.

  Lemma late_atomic_same : forall n X, (length X <= n)%nat -> atomic_closed X = true ->
    forall st, nb_pending st = None -> run_late X st = run X st.
  Proof.
    induction n as [|n IH]; intros X Hn Hc st Hp.
    - destruct X; [reflexivity|cbn [length] in Hn; lia].
    - destruct X as [|s0 X]; [reflexivity|]. cbn [length] in Hn.
      destruct s0 as [|o p|ts|t].
      + destruct X as [|[|o p|ts|t] X]; try discriminate Hc.
        cbn [length] in Hn. unfold atomic_closed in Hc. cbn [atomic_gen] in Hc.
        rewrite !run_late_cons, !run_cons. cbn [nb_step nb_step_late]. rewrite Hp.
        cbn [fst snd nb_pending nb_scores nb_senders].
        rewrite (IH X ltac:(lia) Hc) by reflexivity. reflexivity.
      + discriminate Hc.
      + unfold atomic_closed in Hc. cbn [atomic_gen] in Hc.
        rewrite run_late_cons, run_cons. cbn [nb_step nb_step_late fst snd].
        rewrite (IH X ltac:(lia) Hc) by exact Hp. reflexivity.
      + unfold atomic_closed in Hc. cbn [atomic_gen] in Hc.
        rewrite run_late_cons, run_cons. cbn [nb_step nb_step_late fst snd].
        rewrite (IH X ltac:(lia) Hc) by exact Hp. reflexivity.
  Qed.
End NbInterleaveLemmas.

(* ---- 4. the live map emptied at S2 instead of S1 loses the messages of the window ---- *)
Local Open Scope string_scope.
Definition lr_seeds : list (string * Z) := [("10.0.0.1:10600", 0%Z)].
Definition lr_msg : string := "10.0.0.3:10600".
Definition lr_sched : list nbstep := [NS1; NAdd [lr_msg]; NS2 ["10.0.0.1:10600"] [0%nat]].
Definition lr_start : nbstate := mkNb [] [] None.
Definition lr_peer : entry := ("10.0.0.1:10600", "10.0.0.1:10600", 0%Z).
Local Close Scope string_scope.

Local Notation lr_run := (nb_run ex_split ex_resolve ex_host "10600"%string lr_seeds 3).
Local Notation lr_run_late := (nb_run_late ex_split ex_resolve ex_host "10600"%string lr_seeds 3).
Local Notation lr_arun := (arun ex_split ex_resolve ex_host "10600"%string lr_seeds 3).

Lemma lr_late_run :
  lr_run_late lr_sched lr_start = (mkNb [] [lr_peer] None, [([lr_peer], [("10.0.0.1:10600"%string, [ex_host])])]).
Proof. vm_compute. reflexivity. Qed.

Lemma lr_early_run :
  lr_run lr_sched lr_start
  = (mkNb [(lr_msg, 0)] [lr_peer] None, [([lr_peer], [("10.0.0.1:10600"%string, [ex_host])])]).
Proof. vm_compute. reflexivity. Qed.

(* Statement: a well-formed schedule S1'; message; S2' from the initial state, valid order and
   shuffle; the announced (valid, new) target is in no round output and not in the final live map;
   the result is not that of the round followed by the message (final scores differ, whatever
   order and shuffle that round uses) nor that of the message followed by the round (round outputs
   differ, whatever order and shuffle); the machine of the model (reset at S1) run on the same
   schedule does give the round followed by the message. *)
Lemma nb_late_reset_refuted :
  exists split_hp resolve host host_port seeds max t order perm st,
    let sched := [NS1; NAdd [t]; NS2 order perm] in
    let late := nb_run_late split_hp resolve host host_port seeds max sched st in
    let seq ops := arun split_hp resolve host host_port seeds max ops (nb_scores st, nb_senders st) in
    nb_wf sched = true /\ nb_complete sched = true /\ nb_pending st = None /\ 0 <= max /\
    Permutation order (map fst (known seeds (nb_scores st))) /\
    is_shuffle (reachable split_hp resolve host (known seeds (nb_scores st)) order)
               (outbounds_count (known seeds (nb_scores st)) max) perm /\
    valid_target split_hp host_port t = true /\ alookup t (nb_scores st) = None /\
    (* the message is lost *)
    alookup t (nb_scores (fst late)) = None /\
    (forall o e, In o (snd late) -> In e (fst o) -> e_tv e <> t) /\
    (* neither sequential order *)
    (forall order' perm',
        nb_scores (fst late) <> fst (fst (seq [ARound order' perm'; AAdd [t]]))) /\
    (forall order' perm',
        snd late <> snd (seq [AAdd [t]; ARound order' perm'])) /\
    (* the reset at S1 is the round followed by the message *)
    nb_run split_hp resolve host host_port seeds max sched st
    = (nb_of (fst (seq [ARound order perm; AAdd [t]])), snd (seq [ARound order perm; AAdd [t]])).
Proof.
  exists ex_split, ex_resolve, ex_host, "10600"%string, lr_seeds, 3, lr_msg,
         ["10.0.0.1:10600"%string], [0%nat], lr_start.
  cbv zeta. fold lr_sched. rewrite lr_late_run, lr_early_run.
  split; [reflexivity|]. split; [reflexivity|]. split; [reflexivity|]. split; [lia|].
  split; [vm_compute; apply Permutation_refl|].
  split; [unfold is_shuffle; vm_compute; apply Permutation_refl|].
  split; [vm_compute; reflexivity|]. split; [reflexivity|]. split; [reflexivity|].
  split.
  { intros o e Ho He. cbn [snd] in Ho. destruct Ho as [Ho|[]]. subst o. cbn [fst] in He.
    destruct He as [He|[]]. subst e. vm_compute. discriminate. }
  split.
  { intros order' perm'. cbn [fst nb_scores]. cbn [arun astep fst snd].
    vm_compute. discriminate. }
  split.
  { intros order' perm' E. cbn [arun astep fst snd nb_scores lr_start] in E.
    assert (A : add_targets ex_split "10600" [] [lr_msg] = [(lr_msg, 0)]) by (vm_compute; reflexivity).
    rewrite A in E. rewrite app_nil_l, app_nil_r in E.
    remember (sync_round ex_split ex_resolve ex_host lr_seeds [(lr_msg, 0)] order' 3 perm') as R eqn:ER.
    injection E as E _.
    assert (Hin : In lr_peer (fst (fst R))).
    { rewrite <- E. left. reflexivity. }
    subst R. unfold sync_round in Hin. cbn [fst] in Hin.
    apply nb_source in Hin. destruct Hin as [_ [_ [_ [Hl _]]]].
    vm_compute in Hl. discriminate Hl. }
  vm_compute. reflexivity.
Qed.

(* ---- the schedule of the worked example of props/C17_round_window.v, in the environment of
   props/C17.v: two rounds with messages inside and between them, a third round left open ---- *)
Local Open Scope string_scope.
Definition nbx_start : nbstate := mkNb ex_map [] None.
Definition nbx_sched : list nbstep :=
  [NAdd ["10.0.0.5:10600"];
   NS1;
     NAdd ["10.0.0.3:10600"; "not a target"; "10.0.0.4:10600"];
     NInc "10.0.0.3:10600";
   NS2 ex_order ex_perm;
   NInc "10.0.0.1:10600";
   NS1;
     NAdd ["10.0.0.9:10600"];
   NS2 ["10.0.0.1:10600"; "10.0.0.4:10600"; "10.0.0.3:10600"] [0%nat];
   NS1;
     NInc "10.0.0.2:10600"].
Local Close Scope string_scope.

(* its start map is one that AddTargets/Incentive build from the empty map *)
Fixpoint incentive_n (n : nat) (sc : list (string * Z)) (t : string) : list (string * Z) :=
  match n with O => sc | S k => incentive (incentive_n k sc t) t end.

Lemma built_incentive_n sh hp n t : forall sc, built sh hp sc -> built sh hp (incentive_n n sc t).
Proof. induction n as [|n IH]; intros sc H; [exact H|]. cbn [incentive_n]. constructor. apply IH. exact H. Qed.

Lemma nbx_start_built : built ex_split "10600"%string (nb_scores nbx_start).
Proof.
  assert (E : nb_scores nbx_start
              = incentive_n 7 (incentive_n 1 (incentive_n 1 (incentive_n 1 (incentive_n 2 (incentive_n 3
                  (add_targets ex_split "10600"%string [] (map fst ex_map))
                  "10.0.0.1:10600"%string) "10.0.0.2:10600"%string) "10.0.0.3:10600"%string)
                  "10.0.0.4:10600"%string) "10.0.0.5:10600"%string) "10.0.0.9:10600"%string)
    by (vm_compute; reflexivity).
  rewrite E. repeat apply built_incentive_n. constructor. constructor.
Qed.
