(* Interleave_lemmas.v — the phase-level machine of model/Interleave.v against the atomic
   functions Pool.validate, Pool.pool_add, Sync.update.

   A. with fresh values the phase bodies are the atomic functions;
   B. a schedule in which no sync round changes the chain state while a tick or a submission is
      in flight is linearisable: the node it ends in is the node a sequential history of
      atomic operations ends in, and that node is reachable;
   C. without that condition a schedule ends in a chain no sequential history yields (D17). *)
From RV Require Import model.Base model.Ledger model.Registry model.Chain model.Sync model.Pool
     model.Reach model.Interleave.
From RV Require Import proofs.Pool_lemmas proofs.Sync_lemmas proofs.Reach_lemmas.
From Coq Require Import Lia ZArith NArith.

(* ------------------------------------------------------------------ *)
(* equality of chain states is decidable                               *)
(* ------------------------------------------------------------------ *)
Lemma cstate_eq_dec : forall a b : cstate, {a = b} + {a <> b}.
Proof. repeat decide equality. Qed.

Lemma cstate_eta (c : cstate) : mkC (chain c) (ur c) (ar c) = c.
Proof. destruct c; reflexivity. Qed.

Lemma node_eta (n : node) : mkNode (n_c n) (n_pool n) = n.
Proof. destruct n; reflexivity. Qed.

(* ------------------------------------------------------------------ *)
(* specification-side definitions                                      *)
(* ------------------------------------------------------------------ *)

(* every input of every transaction of every block names an output of a transaction of a
   strictly earlier block *)
Definition input_known (earlier : list tx) (i : input) : bool :=
  existsb (fun t => String.eqb (t_id t) (i_ref i) && (i_idx i <? N.of_nat (length (outs t)))%N)
          earlier.
Fixpoint chain_inputs_known_from (earlier : list tx) (l : list block) : bool :=
  match l with
  | [] => true
  | b :: r => forallb (fun t => forallb (input_known earlier) (ins t)) (txs b)
              && chain_inputs_known_from (earlier ++ txs b) r
  end.
Definition chain_inputs_known (l : list block) : bool := chain_inputs_known_from [] l.

(* what completed during a run *)
Definition completed (l : list iout) : list iout :=
  filter (fun o => match o with ONone => false | _ => true end) l.

Section InterleaveLemmas.
  Variable value_fn : N -> bool -> Z -> N.
  Variable addr_of : string -> string.
  Variable sig_ok : input -> bool.
  Variable H : block -> hash.
  Variable gen_id : slice input -> slice output -> Z -> string.
  Variable S : settings.
  Variable validator : string.

  Notation step := (Reach.step value_fn addr_of sig_ok H gen_id S validator).
  Notation reach := (Reach.reach value_fn addr_of sig_ok H gen_id S validator).
  Notation update := (Sync.update value_fn addr_of sig_ok H S).
  Notation validate := (Pool.validate value_fn addr_of sig_ok H gen_id S validator).
  Notation pool_add := (Pool.pool_add value_fn addr_of sig_ok S).
  Notation validate_view := (Interleave.validate_view value_fn addr_of sig_ok H gen_id S validator).
  Notation pool_add_view := (Interleave.pool_add_view value_fn addr_of sig_ok S).
  Notation pool_add_early := (Interleave.pool_add_early sig_ok S).
  Notation update_decide := (Interleave.update_decide value_fn addr_of sig_ok H S).
  Notation istep := (Interleave.istep value_fn addr_of sig_ok H gen_id S validator).
  Notation irun := (Interleave.irun value_fn addr_of sig_ok H gen_id S validator).

  (* the run with what each step reported *)
  Fixpoint irun_outs (s : istate) (l : list iop) : istate * list iout :=
    match l with
    | [] => (s, [])
    | o :: r => let '(s', out) := istep s o in
                let '(s'', outs) := irun_outs s' r in (s'', out :: outs)
    end.

  Lemma irun_outs_fst (l : list iop) : forall s, fst (irun_outs s l) = irun s l.
  Proof.
    induction l as [|o r IH]; intros s; [reflexivity|].
    cbn [irun_outs Interleave.irun]. destruct (istep s o) as [s' out]. cbn [fst].
    rewrite <- IH. destruct (irun_outs s' r) as [s'' outs]. reflexivity.
  Qed.

  (* ================================================================ *)
  (* A. fresh views                                                    *)
  (* ================================================================ *)

  Lemma validate_view_fresh (n : node) (ts : Z) (perm : list nat) :
    validate_early S (last_block_ts (chain (n_c n))) ts = None ->
    validate_view (last_block_ts (chain (n_c n))) (last_block_txs (chain (n_c n))) (ur (n_c n))
                  n ts perm
    = validate n ts perm.
  Proof.
    unfold validate_early, Interleave.validate_view, Pool.validate. cbv zeta.
    destruct (negb (last_block_ts (chain (n_c n)) =? 0)%Z && (last_block_ts (chain (n_c n)) =? ts)%Z);
      [discriminate|].
    destruct (negb (last_block_ts (chain (n_c n)) =? 0)%Z
              && (last_block_ts (chain (n_c n)) + s_interval S <? ts)%Z); [discriminate|].
    intros _. reflexivity.
  Qed.

  Lemma validate_early_refused (n : node) (ts : Z) (perm : list nat) (e : err) :
    validate_early S (last_block_ts (chain (n_c n))) ts = Some e ->
    validate n ts perm = (n, Refused e).
  Proof.
    unfold validate_early, Pool.validate. cbv zeta.
    destruct (negb (last_block_ts (chain (n_c n)) =? 0)%Z && (last_block_ts (chain (n_c n)) =? ts)%Z);
      [intros E; inversion E; reflexivity|].
    destruct (negb (last_block_ts (chain (n_c n)) =? 0)%Z
              && (last_block_ts (chain (n_c n)) + s_interval S <? ts)%Z);
      [intros E; inversion E; reflexivity|discriminate].
  Qed.

  Lemma validate_early_cases (l ts : Z) (e : err) :
    validate_early S l ts = Some e ->
    (e = ESameTick /\ l <> 0%Z /\ l = ts) \/ (e = EMissedTick /\ l <> 0%Z /\ (l + s_interval S < ts)%Z).
  Proof.
    unfold validate_early.
    destruct (Z.eqb_spec l 0) as [E0|E0]; cbn [negb andb]; [discriminate|].
    destruct (Z.eqb_spec l ts) as [E1|E1].
    - intros E; inversion E. left. repeat split; assumption.
    - destruct (Z.ltb_spec (l + s_interval S) ts) as [E2|E2]; [|discriminate].
      intros E; inversion E. right. repeat split; assumption.
  Qed.

  Lemma pool_add_view_fresh (n : node) (t : tx) :
    pool_add_view (last_block_ts (chain (n_c n))) (ur (n_c n)) (last_block_txs (chain (n_c n))) n t
    = pool_add n t.
  Proof. reflexivity. Qed.

  Lemma pool_add_early_refused (n : node) (t : tx) (e : err) :
    pool_add_early (last_block_ts (chain (n_c n))) n t = Some e -> pool_add n t = Err e.
  Proof.
    unfold Interleave.pool_add_early, Pool.pool_add. cbv zeta.
    destruct (last_block_ts (chain (n_c n)) =? 0)%Z; [intros E; inversion E; reflexivity|].
    destruct (last_block_ts (chain (n_c n)) + s_interval S <? t_ts t)%Z;
      [intros E; inversion E; reflexivity|].
    destruct (t_ts t <? last_block_ts (chain (n_c n)))%Z; [intros E; inversion E; reflexivity|].
    destruct (mem_str (t_id t) (pool_ids n)); [intros E; inversion E; reflexivity|].
    destruct (negb (verify_sigs sig_ok t)); [intros E; inversion E; reflexivity|discriminate].
  Qed.

  Lemma update_fresh (st : cstate) (now : Z) (nbs : list neighbor) (pref : string) :
    update st now nbs pref
    = match update_decide st now nbs pref with
      | None => (st, false)
      | Some d => update_commit (length (chain st)) st d
      end.
  Proof.
    unfold Sync.update, Interleave.update_decide. cbv zeta.
    destruct (stage2 value_fn addr_of sig_ok H S st now nbs (stage1 value_fn addr_of sig_ok H S st now nbs))
      as [|p m]; [reflexivity|].
    destruct (select pref (survivors st (p :: m))) as [sel|]; [|reflexivity].
    destruct (is_different H (chain st) sel && negb (Nat.eqb (length sel) 0)); [|reflexivity].
    unfold update_commit. rewrite Nat.eqb_refl. cbn [negb]. reflexivity.
  Qed.

  (* a round whose snapshot is not as long as the live chain gives up *)
  Lemma update_commit_stale (k : nat) (live : cstate) (d : list block * bool) :
    k <> length (chain live) -> update_commit k live d = (live, false).
  Proof.
    intros Hk. unfold update_commit. destruct d as [sel fork].
    destruct (Nat.eqb_spec (length (chain live)) k) as [E|E]; [congruence|reflexivity].
  Qed.

  Lemma view_fresh_validate (n : node) (ts : Z) (perm : list nat) :
    (validate_early S (last_block_ts (chain (n_c n))) ts = None ->
     validate_view (last_block_ts (chain (n_c n))) (last_block_txs (chain (n_c n))) (ur (n_c n))
                   n ts perm
     = validate n ts perm) /\
    (forall e, validate_early S (last_block_ts (chain (n_c n))) ts = Some e ->
               validate n ts perm = (n, Refused e)).
  Proof.
    split; [apply validate_view_fresh | intros e; apply validate_early_refused].
  Qed.

  Lemma view_fresh_add (n : node) (t : tx) :
    pool_add_view (last_block_ts (chain (n_c n))) (ur (n_c n)) (last_block_txs (chain (n_c n))) n t
    = pool_add n t /\
    (forall e, pool_add_early (last_block_ts (chain (n_c n))) n t = Some e -> pool_add n t = Err e).
  Proof.
    split; [apply pool_add_view_fresh | intros e; apply pool_add_early_refused].
  Qed.

  (* ---- the three operations run without interruption ---- *)

  Lemma iv_seq_atomic (s : istate) (ts : Z) (perm : list nat) :
    i_v s = VR0 -> i_a s = AR0 ->
    irun_outs s [IV1 ts; IV2; IV3; IV4 perm]
    = let r := validate (i_n s) ts perm in
      (mkI (fst r) VR0 AR0 (i_u s),
       match validate_early S (last_block_ts (chain (n_c (i_n s)))) ts with
       | Some _ => [OVal (snd r); ONone; ONone; ONone]
       | None => [ONone; ONone; ONone; OVal (snd r)]
       end).
  Proof.
    destruct s as [n v a u]. cbn [i_n i_v i_a i_u]. intros -> ->. cbv zeta.
    cbn [irun_outs Interleave.istep i_n i_v i_a i_u].
    destruct (validate_early S (last_block_ts (chain (n_c n))) ts) as [e|] eqn:Ee.
    - rewrite (validate_early_refused _ _ perm _ Ee). reflexivity.
    - cbn [irun_outs Interleave.istep i_n i_v i_a i_u].
      rewrite (validate_view_fresh _ _ perm Ee).
      destruct (validate n ts perm) as [n' out]. reflexivity.
  Qed.

  Lemma ia_seq_atomic (s : istate) (t : tx) :
    i_a s = AR0 ->
    irun_outs s [IA1 t; IA2; IA3; IA4]
    = (mkI (step (i_n s) (OpAdd t)) (i_v s) AR0 (i_u s),
       let r := OAdd (match pool_add (i_n s) t with Ok _ => None | Err e => Some e end) in
       match pool_add_early (last_block_ts (chain (n_c (i_n s)))) (i_n s) t with
       | Some _ => [r; ONone; ONone; ONone]
       | None => [ONone; ONone; ONone; r]
       end).
  Proof.
    destruct s as [n v a u]. cbn [i_n i_v i_a i_u]. intros ->. cbv zeta.
    cbn [irun_outs Interleave.istep i_n i_v i_a i_u Reach.step].
    destruct (pool_add_early (last_block_ts (chain (n_c n))) n t) as [e|] eqn:Ee.
    - rewrite (pool_add_early_refused _ _ _ Ee).
      destruct v; reflexivity.
    - destruct v; cbn [irun_outs Interleave.istep i_n i_v i_a i_u];
        rewrite pool_add_view_fresh; destruct (pool_add n t) as [n'|e]; reflexivity.
  Qed.

  Lemma iu_seq_atomic (s : istate) (now : Z) (nbs : list neighbor) (pref : string) :
    i_u s = UR0 ->
    irun_outs s [IU1; IU2; IU3 now nbs pref]
    = (mkI (step (i_n s) (OpUpdate now nbs pref)) (i_v s) (i_a s) UR0,
       [ONone; ONone; OUpd (snd (update (n_c (i_n s)) now nbs pref))]).
  Proof.
    destruct s as [n v a u]. cbn [i_n i_v i_a i_u]. intros ->.
    cbn [Reach.step]. rewrite update_fresh.
    destruct v; destruct a;
      cbn [irun_outs Interleave.istep i_n i_v i_a i_u]; rewrite cstate_eta;
      (destruct (update_decide (n_c n) now nbs pref) as [d|];
       [destruct (update_commit (length (chain (n_c n))) (n_c n) d) as [c' r]; reflexivity
       |cbn [fst snd]; rewrite node_eta; reflexivity]).
  Qed.

  (* ================================================================ *)
  (* B. linearisation                                                  *)
  (* ================================================================ *)

  (* no tick and no submission is in flight when a sync round changes the chain state *)
  Definition quiet_step (s : istate) (o : iop) : Prop :=
    match o with
    | IU3 _ _ _ =>
      n_c (i_n (fst (istep s o))) <> n_c (i_n s) -> i_v s = VR0 /\ i_a s = AR0
    | _ => True
    end.

  (* the side conditions of Reach.op_ok at the step that completes the operation (the tick of a
     production is the one V1 was called with: it stays in the register) *)
  Definition iop_ok (s : istate) (o : iop) : Prop :=
    match o with
    | IV4 perm =>
      match i_v s with
      | VR3 ts _ _ _ => op_ok S (i_n s) (OpValidate ts perm)
      | _ => True
      end
    | IU3 now nbs pref => op_ok S (i_n s) (OpUpdate now nbs pref)
    | _ => True
    end.

  Fixpoint sched_ok (s : istate) (l : list iop) : Prop :=
    match l with
    | [] => True
    | o :: r => quiet_step s o /\ iop_ok s o /\ sched_ok (fst (istep s o)) r
    end.

  (* the same without the condition on sync rounds *)
  Fixpoint sched_ops_ok (s : istate) (l : list iop) : Prop :=
    match l with
    | [] => True
    | o :: r => iop_ok s o /\ sched_ops_ok (fst (istep s o)) r
    end.

  Lemma sched_ok_ops_ok (l : list iop) : forall s, sched_ok s l -> sched_ops_ok s l.
  Proof.
    induction l as [|o r IH]; intros s; [exact (fun x => x)|].
    intros (_ & Hi & Hr). split; [exact Hi | exact (IH _ Hr)].
  Qed.

  (* a sequential history with the side condition of each operation at its point *)
  Fixpoint ops_ok (n : node) (ops : list op) : Prop :=
    match ops with
    | [] => True
    | o :: r => op_ok S n o /\ ops_ok (step n o) r
    end.

  Lemma ops_ok_app (a b : list op) : forall n,
    ops_ok n a -> ops_ok (fold_left step a n) b -> ops_ok n (a ++ b).
  Proof.
    induction a as [|o r IH]; intros n Ha Hb; [exact Hb|].
    destruct Ha as [Ho Hr]. split; [exact Ho|]. apply IH; [exact Hr | exact Hb].
  Qed.

  Lemma reach_fold (ops : list op) : forall n,
    reach n -> ops_ok n ops -> reach (fold_left step ops n).
  Proof.
    induction ops as [|o r IH]; intros n Hr Ho; [exact Hr|].
    destruct Ho as [Ho Hrest]. cbn [fold_left]. apply IH; [|exact Hrest].
    apply reach_step; assumption.
  Qed.

  (* ---- the invariant: what the registers hold is what the live chain state holds ---- *)
  Definition v_fresh (c : cstate) (v : vreg) : Prop :=
    match v with
    | VR0 => True
    | VR1 ts l => l = last_block_ts (chain c) /\ validate_early S l ts = None
    | VR2 ts l x => l = last_block_ts (chain c) /\ x = last_block_txs (chain c) /\
                    validate_early S l ts = None
    | VR3 ts l x u => l = last_block_ts (chain c) /\ x = last_block_txs (chain c) /\ u = ur c /\
                      validate_early S l ts = None
    end.
  Definition a_fresh (c : cstate) (a : areg_t) : Prop :=
    match a with
    | AR0 => True
    | AR1 _ l => l = last_block_ts (chain c)
    | AR2 _ l u => l = last_block_ts (chain c) /\ u = ur c
    | AR3 _ l u x => l = last_block_ts (chain c) /\ u = ur c /\ x = last_block_txs (chain c)
    end.
  (* the snapshot of a round is never longer than the live chain, and as long as it is as long
     the live chain state is what the round has read *)
  Definition u_fresh (c : cstate) (r : ureg_t) : Prop :=
    match r with
    | UR0 => True
    | UR1 snap => length snap <= length (chain c) /\ (length snap = length (chain c) -> snap = chain c)
    | UR2 snap u a =>
      length snap <= length (chain c) /\
      (length snap = length (chain c) -> snap = chain c /\ u = ur c /\ a = ar c)
    end.
  Definition inv (s : istate) : Prop :=
    v_fresh (n_c (i_n s)) (i_v s) /\ a_fresh (n_c (i_n s)) (i_a s) /\ u_fresh (n_c (i_n s)) (i_u s).

  Lemma inv_init (n : node) : inv (istate_of n).
  Proof. repeat split. Qed.

  Lemma u_fresh_grown (c c' : cstate) (r : ureg_t) :
    length (chain c') = Datatypes.S (length (chain c)) -> u_fresh c r -> u_fresh c' r.
  Proof.
    intros Hl. destruct r as [|snap|snap u a]; cbn [u_fresh]; [exact (fun x => x)| |];
      intros [Hle _]; (split; [lia|intros E; lia]).
  Qed.

  (* validate leaves the node alone or appends one block *)
  Lemma validate_grows (n : node) (ts : Z) (perm : list nat) :
    fst (validate n ts perm) = n \/
    length (chain (n_c (fst (validate n ts perm)))) = Datatypes.S (length (chain (n_c n))).
  Proof.
    destruct (validate n ts perm) as [n' out] eqn:Ev. cbn [fst]. destruct out as [d|e].
    - right. apply validate_appends in Ev. destruct Ev as (b & Hc & _).
      rewrite Hc, app_length. cbn [length]. lia.
    - left. apply validate_refused_id in Ev. exact Ev.
  Qed.

  (* ---- one step ---- *)
  Lemma istep_inv (s : istate) (o : iop) :
    inv s -> quiet_step s o -> iop_ok s o ->
    inv (fst (istep s o)) /\
    exists ops, ops_ok (i_n s) ops /\ fold_left step ops (i_n s) = i_n (fst (istep s o)).
  Proof.
    destruct s as [n v a u]. unfold inv. cbn [i_n i_v i_a i_u].
    intros (Hv & Ha & Hu) Hq Hok.
    assert (Hsame : forall v' a' u', v_fresh (n_c n) v' -> a_fresh (n_c n) a' -> u_fresh (n_c n) u' ->
              inv (mkI n v' a' u') /\
              exists ops, ops_ok n ops /\ fold_left step ops n = i_n (mkI n v' a' u')).
    { intros v' a' u' Hv' Ha' Hu'. split; [repeat split; assumption|].
      exists []. split; [exact I | reflexivity]. }
    unfold inv in Hsame. cbn [i_n i_v i_a i_u] in Hsame.
    destruct o as [ts| | |perm|t| | | | | |now nbs pref].
    - (* IV1 *)
      destruct v; cbn [Interleave.istep i_n i_v i_a i_u fst];
        try (apply Hsame; assumption).
      destruct (validate_early S (last_block_ts (chain (n_c n))) ts) eqn:Ee; cbn [fst];
        apply Hsame; try assumption. split; [reflexivity | exact Ee].
    - (* IV2 *)
      destruct v; cbn [Interleave.istep i_n i_v i_a i_u fst];
        try (apply Hsame; assumption).
      apply Hsame; try assumption. destruct Hv as [Hl He].
      split; [exact Hl|]. split; [reflexivity | exact He].
    - (* IV3 *)
      destruct v; cbn [Interleave.istep i_n i_v i_a i_u fst];
        try (apply Hsame; assumption).
      apply Hsame; try assumption. destruct Hv as (Hl & Hx & He).
      split; [exact Hl|]. split; [exact Hx|]. split; [reflexivity | exact He].
    - (* IV4 *)
      destruct v as [|ts l|ts l x|ts l x uu]; cbn [Interleave.istep i_n i_v i_a i_u fst];
        try (apply Hsame; assumption).
      destruct a as [|t l0|t l0 u0|t l0 u0 x0]; cbn [Interleave.istep i_n i_v i_a i_u fst];
        try (apply Hsame; assumption).
      cbn [iop_ok i_v i_n] in Hok.
      destruct Hv as (Hl & Hx & Hu0 & Ee). subst l x uu.
      rewrite (validate_view_fresh _ _ perm Ee).
      pose proof (validate_grows n ts perm) as Hg.
      destruct (validate n ts perm) as [n' out] eqn:Ev. cbn [fst] in Hg |- *.
      split.
      + unfold inv. cbn [i_n i_v i_a i_u]. split; [exact I|]. split; [exact I|].
        destruct Hg as [E|E]; [subst n'; exact Hu | exact (u_fresh_grown _ _ _ E Hu)].
      + exists [OpValidate ts perm]. split; [split; [exact Hok | exact I]|].
        cbn [fold_left Reach.step i_n]. rewrite Ev. reflexivity.
    - (* IA1 *)
      destruct a; cbn [Interleave.istep i_n i_v i_a i_u fst];
        try (destruct v; apply Hsame; assumption).
      assert (Hgoal : inv (fst (match pool_add_early (last_block_ts (chain (n_c n))) n t with
                                | Some e => (mkI n v AR0 u, OAdd (Some e))
                                | None => (mkI n v (AR1 t (last_block_ts (chain (n_c n)))) u, ONone)
                                end)) /\
                      exists ops, ops_ok n ops /\
                        fold_left step ops n =
                        i_n (fst (match pool_add_early (last_block_ts (chain (n_c n))) n t with
                                  | Some e => (mkI n v AR0 u, OAdd (Some e))
                                  | None => (mkI n v (AR1 t (last_block_ts (chain (n_c n)))) u, ONone)
                                  end))).
      { destruct (pool_add_early (last_block_ts (chain (n_c n))) n t); cbn [fst];
          apply Hsame; try assumption. reflexivity. }
      destruct v; exact Hgoal.
    - (* IA2 *)
      destruct a; cbn [Interleave.istep i_n i_v i_a i_u fst];
        try (destruct v; apply Hsame; assumption).
      destruct v; apply Hsame; try assumption; (split; [exact Ha | reflexivity]).
    - (* IA3 *)
      destruct a; cbn [Interleave.istep i_n i_v i_a i_u fst];
        try (destruct v; apply Hsame; assumption).
      destruct Ha as [Hl Hu0].
      destruct v; apply Hsame; try assumption; (split; [exact Hl | split; [exact Hu0 | reflexivity]]).
    - (* IA4 *)
      destruct a as [|t l|t l u0|t l u0 x]; cbn [Interleave.istep i_n i_v i_a i_u fst];
        try (destruct v; apply Hsame; assumption).
      destruct Ha as (Hl & Hu0 & Hx). subst l u0 x.
      assert (Hgoal : inv (fst (match pool_add n t with
                                | Ok n' => (mkI n' v AR0 u, OAdd None)
                                | Err e => (mkI n v AR0 u, OAdd (Some e))
                                end)) /\
                      exists ops, ops_ok n ops /\
                        fold_left step ops n =
                        i_n (fst (match pool_add n t with
                                  | Ok n' => (mkI n' v AR0 u, OAdd None)
                                  | Err e => (mkI n v AR0 u, OAdd (Some e))
                                  end))).
      { destruct (pool_add n t) as [n'|e] eqn:Ep; cbn [fst].
        - pose proof (pool_add_node _ _ _ _ _ _ _ Ep) as En. split.
          + unfold inv. cbn [i_n i_v i_a i_u]. subst n'. cbn [n_c].
            split; [exact Hv|]. split; [exact I | exact Hu].
          + exists [OpAdd t]. split; [split; exact I|].
            cbn [fold_left Reach.step i_n]. rewrite Ep. reflexivity.
        - apply Hsame; [exact Hv | exact I | exact Hu]. }
      rewrite <- (pool_add_view_fresh n t) in Hgoal.
      destruct v; exact Hgoal.
    - (* IU1 *)
      destruct u; cbn [Interleave.istep i_n i_v i_a i_u fst];
        try (destruct v; destruct a; apply Hsame; assumption).
      destruct v; destruct a; apply Hsame; try assumption;
        (split; [apply le_n | intros _; reflexivity]).
    - (* IU2 *)
      destruct u as [|snap|snap u0 a0]; cbn [Interleave.istep i_n i_v i_a i_u fst];
        try (destruct v; destruct a; apply Hsame; assumption).
      destruct Hu as [Hle Heq].
      destruct v; destruct a; apply Hsame; try assumption;
        (split; [exact Hle | intros E; split; [exact (Heq E) | split; reflexivity]]).
    - (* IU3 *)
      cbn [iop_ok i_n] in Hok. cbn [quiet_step i_n i_v i_a] in Hq.
      assert (Hgoal : forall snap u0 a0, u = UR2 snap u0 a0 ->
                (n_c (i_n (fst (match update_decide (mkC snap u0 a0) now nbs pref with
                                | None => (mkI n v a UR0, OUpd false)
                                | Some d =>
                                  let '(c', r) := update_commit (length snap) (n_c n) d in
                                  (mkI (mkNode c' (n_pool n)) v a UR0, OUpd r)
                                end))) <> n_c n -> v = VR0 /\ a = AR0) ->
                inv (fst (match update_decide (mkC snap u0 a0) now nbs pref with
                          | None => (mkI n v a UR0, OUpd false)
                          | Some d =>
                            let '(c', r) := update_commit (length snap) (n_c n) d in
                            (mkI (mkNode c' (n_pool n)) v a UR0, OUpd r)
                          end)) /\
                exists ops, ops_ok n ops /\
                  fold_left step ops n =
                  i_n (fst (match update_decide (mkC snap u0 a0) now nbs pref with
                            | None => (mkI n v a UR0, OUpd false)
                            | Some d =>
                              let '(c', r) := update_commit (length snap) (n_c n) d in
                              (mkI (mkNode c' (n_pool n)) v a UR0, OUpd r)
                            end))).
      { intros snap u0 a0 Eu Hq'. subst u. destruct Hu as [Hle Heq].
        destruct (update_decide (mkC snap u0 a0) now nbs pref) as [d|] eqn:Ed; cbn [fst] in Hq' |- *;
          [|apply Hsame; [exact Hv | exact Ha | exact I]].
        destruct (Nat.eq_dec (length snap) (length (chain (n_c n)))) as [El|El].
        - destruct (Heq El) as (Es & Eu0 & Ea0). subst snap u0 a0.
          rewrite cstate_eta in Ed.
          pose proof (update_fresh (n_c n) now nbs pref) as Hf. rewrite Ed in Hf.
          destruct (update_commit (length (chain (n_c n))) (n_c n) d) as [c' r] eqn:Ec.
          cbn [fst i_n n_c] in Hq' |- *. split.
          + unfold inv. cbn [i_n i_v i_a i_u n_c].
            destruct (cstate_eq_dec c' (n_c n)) as [E|E].
            * rewrite E. split; [exact Hv|]. split; [exact Ha | exact I].
            * destruct (Hq' E) as [-> ->]. repeat split.
          + exists [OpUpdate now nbs pref]. split; [split; [exact Hok | exact I]|].
            cbn [fold_left Reach.step]. rewrite Hf. reflexivity.
        - rewrite (update_commit_stale _ _ d El). cbn [fst i_n]. rewrite node_eta.
          apply Hsame; [exact Hv | exact Ha | exact I]. }
      destruct u as [|snap|snap u0 a0];
        try (destruct v; destruct a; cbn [Interleave.istep i_n i_v i_a i_u fst]; apply Hsame; assumption).
      specialize (Hgoal snap u0 a0 eq_refl).
      destruct v; destruct a; cbn [Interleave.istep i_n i_v i_a i_u fst] in Hq |- *;
        exact (Hgoal Hq).
  Qed.

  (* ---- the run ---- *)
  Lemma irun_sequential (l : list iop) : forall s,
    inv s -> sched_ok s l ->
    exists ops, ops_ok (i_n s) ops /\ fold_left step ops (i_n s) = i_n (irun s l).
  Proof.
    induction l as [|o r IH]; intros s Hi Hs.
    - exists []. split; [exact I | reflexivity].
    - destruct Hs as (Hq & Hok & Hr).
      destruct (istep_inv s o Hi Hq Hok) as (Hi' & ops1 & Ho1 & Hf1).
      destruct (IH _ Hi' Hr) as (ops2 & Ho2 & Hf2).
      exists (ops1 ++ ops2). split.
      + apply ops_ok_app; [exact Ho1 | rewrite Hf1; exact Ho2].
      + rewrite fold_left_app, Hf1. exact Hf2.
  Qed.

  (* the interleaved run is a sequential history of atomic operations, each satisfying its side
     condition at its point *)
  Theorem interleave_sequential (n0 : node) (l : list iop) :
    sched_ok (istate_of n0) l ->
    exists ops : list op,
      ops_ok n0 ops /\ fold_left step ops n0 = i_n (irun (istate_of n0) l).
  Proof. intros Hs. exact (irun_sequential l (istate_of n0) (inv_init n0) Hs). Qed.

  Theorem interleave_reach (n0 : node) (l : list iop) :
    reach n0 -> sched_ok (istate_of n0) l -> reach (i_n (irun (istate_of n0) l)).
  Proof.
    intros Hr Hs. destruct (interleave_sequential n0 l Hs) as (ops & Ho & Hf).
    rewrite <- Hf. exact (reach_fold ops n0 Hr Ho).
  Qed.

  (* hence what holds of every reachable node holds of the node a schedule ends in; for
     instance its chain is hash-linked (reach_linked has no other hypothesis) *)
  Corollary interleave_chain_linked (n0 : node) (l : list iop) :
    reach n0 -> sched_ok (istate_of n0) l ->
    chain_linked H (chain (n_c (i_n (irun (istate_of n0) l)))).
  Proof.
    intros Hr Hs. exact (reach_linked _ _ _ _ _ _ _ _ (interleave_reach n0 l Hr Hs)).
  Qed.
End InterleaveLemmas.

(* ------------------------------------------------------------------ *)
(* C. the toy instance: validator "V" with its genesis block dated 20  *)
(* and one pooled transaction, a neighbor "W" whose chain starts at 10 *)
(* ------------------------------------------------------------------ *)
Module InterleaveExample.
  Definition vf : N -> bool -> Z -> N := fun x _ _ => x.
  Definition ao : string -> string := fun k => k.
  Definition so : input -> bool := fun _ => true.
  (* an injective hash *)
  Definition Ho : block -> hash := ReachExample.Hinj.
  (* transaction ids: the address of the first output and a letter for the timestamp *)
  Definition go : slice input -> slice output -> Z -> string :=
    fun _ o ts => match elems o with
                  | x :: _ => String.append (o_addr x) (String (ascii_of_N (Z.to_N ts + 55)) EmptyString)
                  | [] => EmptyString
                  end.
  Definition St : settings := mkSettings 10 1 100 8.

  Notation stepV := (Reach.step vf ao so Ho go St "V"%string).
  Notation stepW := (Reach.step vf ao so Ho go St "W"%string).
  Notation reachV := (Reach.reach vf ao so Ho go St "V"%string).
  Notation irunV := (Interleave.irun vf ao so Ho go St "V"%string).

  (* the host: its own genesis block at 20 ... *)
  Definition h1 : node := stepV node_empty (OpValidate 20 []).
  (* ... and a pooled transaction spending the genesis reward *)
  Definition rid : string := go None (Some [mkOutput "V"%string true 100%N]) 20.
  Definition t1 : tx := mkTx "t1"%string (Some [mkInput 0%N rid "V"%string "sig"%string])
                             (Some [mkOutput "X"%string false 99%N]) 25.
  Definition n0 : node := stepV h1 (OpAdd t1).

  (* the neighbor: two blocks, dated 10 and 20 *)
  Definition w2 : node := stepW (stepW node_empty (OpValidate 10 [])) (OpValidate 20 []).
  Definition nbW : neighbor := mkNb "w:1"%string (RFail EFetch) (RBlocks (chain (n_c w2))).

  (* the tick 30 reads the tip (dated 20), its transactions and the registry; a sync round
     replaces the chain by the neighbor's (tip dated 20 too); the tick goes on *)
  Definition stale_sched : list iop :=
    [IV1 30; IV2; IV3; IU1; IU2; IU3 40 [nbW] EmptyString; IV4 [0]].

  Lemma h1_reach : reachV h1.
  Proof. apply reach_step; [apply reach_init|]. left. reflexivity. Qed.
  Lemma n0_reach : reachV n0.
  Proof. apply reach_step; [exact h1_reach | exact I]. Qed.

  Lemma n0_pool : pool_ids n0 = ["t1"%string] /\ length (chain (n_c n0)) = 1.
  Proof. vm_compute. split; reflexivity. Qed.

  Ltac eval_reg :=
    lazymatch goal with
    | |- match ?v with _ => _ end =>
      let v' := eval vm_compute in v in
      replace v with v' by (vm_compute; reflexivity); cbv beta iota
    end.

  Lemma stale_sched_ops_ok : sched_ops_ok vf ao so Ho go St "V"%string (istate_of n0) stale_sched.
  Proof.
    unfold stale_sched. cbn [sched_ops_ok].
    do 5 (split; [exact I|]).
    split.
    { intros nb [E|[]] Et. subst nb. vm_compute in Et. discriminate Et. }
    split; [|exact I].
    unfold iop_ok. eval_reg.
    right. exists 1%Z. split; [lia|]. vm_compute. reflexivity.
  Qed.

  Lemma stale_sched_not_quiet : ~ sched_ok vf ao so Ho go St "V"%string (istate_of n0) stale_sched.
  Proof.
    unfold stale_sched. cbn [sched_ok].
    intros (_ & _ & _ & _ & _ & _ & _ & _ & _ & _ & Hq & _).
    destruct Hq as [Hv _].
    - vm_compute. intros E. discriminate E.
    - vm_compute in Hv. discriminate Hv.
  Qed.

  Lemma stale_final_chain :
    map (fun b => (b_ts b, map t_id (txs b))) (chain (n_c (i_n (irunV (istate_of n0) stale_sched))))
    = [(10%Z, ["WA"%string]); (20%Z, ["WK"%string]); (30%Z, ["t1"%string; "VU"%string])]
    /\ map i_ref (ins t1) = ["VK"%string].
  Proof. vm_compute. split; reflexivity. Qed.

  (* D17: without [quiet_step] the run ends in a chain with a transaction spending an output no
     transaction of the chain creates; the two sequential orders of the same two operations do
     not *)
  Theorem interleave_stale_view_refuted :
    exists (value_fn : N -> bool -> Z -> N) (addr_of : string -> string) (sig_ok : input -> bool)
           (H : block -> hash) (gen_id : slice input -> slice output -> Z -> string)
           (S : settings) (validator : string) (n0 : node)
           (ts : Z) (perm : list nat) (now : Z) (nbs : list neighbor) (pref : string),
      let l := [IV1 ts; IV2; IV3; IU1; IU2; IU3 now nbs pref; IV4 perm] in
      let step := Reach.step value_fn addr_of sig_ok H gen_id S validator in
      (forall a b, H a = H b -> a = b) /\
      Reach.reach value_fn addr_of sig_ok H gen_id S validator n0 /\
      chain_inputs_known (chain (n_c n0)) = true /\
      sched_ops_ok value_fn addr_of sig_ok H gen_id S validator (istate_of n0) l /\
      ~ sched_ok value_fn addr_of sig_ok H gen_id S validator (istate_of n0) l /\
      chain_inputs_known
        (chain (n_c (i_n (Interleave.irun value_fn addr_of sig_ok H gen_id S validator (istate_of n0) l))))
      = false /\
      chain_inputs_known (chain (n_c (fold_left step [OpUpdate now nbs pref; OpValidate ts perm] n0)))
      = true /\
      chain_inputs_known (chain (n_c (fold_left step [OpValidate ts perm; OpUpdate now nbs pref] n0)))
      = true.
  Proof.
    exists vf, ao, so, Ho, go, St, "V"%string, n0, 30%Z, [0], 40%Z, [nbW], EmptyString.
    cbv zeta.
    split; [exact ReachExample.Hinj_inj|].
    split; [exact n0_reach|].
    split; [vm_compute; reflexivity|].
    split; [exact stale_sched_ops_ok|].
    split; [exact stale_sched_not_quiet|].
    split; [vm_compute; reflexivity|].
    split; vm_compute; reflexivity.
  Qed.

  (* ---- a schedule with overlapping operations that satisfies [sched_ok] ---- *)
  (* a submission and a sync round without neighbors spread over the tick 30 *)
  Definition overlap_sched : list iop :=
    [IV1 30; IU1; IA1 t1; IV2; IA2; IU2; IV3; IA3; IA4; IU3 40 [] EmptyString; IV4 [0]].

  Lemma overlap_sched_ok : sched_ok vf ao so Ho go St "V"%string (istate_of h1) overlap_sched.
  Proof.
    unfold overlap_sched. cbn [sched_ok].
    do 9 (split; [exact I|]; split; [exact I|]).
    split.
    { intros Hne. exfalso. apply Hne. vm_compute. reflexivity. }
    split; [intros nb []|].
    split; [exact I|]. split; [|exact I].
    unfold iop_ok. eval_reg.
    right. exists 1%Z. split; [lia|]. vm_compute. reflexivity.
  Qed.

  Lemma overlap_result :
    i_n (irunV (istate_of h1) overlap_sched)
    = fold_left stepV [OpAdd t1; OpUpdate 40 [] EmptyString; OpValidate 30 [0]] h1 /\
    map (fun b => (b_ts b, map t_id (txs b))) (chain (n_c (i_n (irunV (istate_of h1) overlap_sched))))
    = [(20%Z, ["VK"%string]); (30%Z, ["t1"%string; "VU"%string])].
  Proof. vm_compute. split; reflexivity. Qed.
End InterleaveExample.
