(* Interleave_lemmas.v — the phase-level machine of model/Interleave.v against the atomic
   functions Pool.validate, Pool.pool_add, Sync.update.

   A. with fresh values the phase bodies are the atomic functions;
   B. a schedule in which no sync round changes the chain state while a tick or a submission is
      in flight ([sched_ok]) is linearisable: the node it ends in is the node a sequential history
      of atomic operations ends in, and that node is reachable; this is proved under the weaker
      [sched_ok']: the round may change the chain state while a tick is in flight if the tip it
      installs is not dated before the tick (V4 is then refused), and while a submission is in
      flight if the submission has made its three reads (it is put before the round in the
      history); both conditions are closed under prefixes: reachable at every moment;
   C. outside [sched_ok'] a schedule ends in a chain no sequential history yields (D17). *)
From RV Require Import model.Base model.Ledger model.Registry model.Chain model.Sync model.Pool
     model.Reach model.Interleave.
From RV Require Import proofs.Pool_lemmas proofs.Sync_lemmas proofs.Reach_lemmas.
From Coq Require Import Lia ZArith NArith.

(* ------------------------------------------------------------------ *)
(* equality of chain states is decidable                               *)
(* ------------------------------------------------------------------ *)
Lemma cstate_eq_dec : forall a b : cstate, {a = b} + {a <> b}.
Proof. repeat decide equality. Qed.

Lemma cstate_eta (c : cstate) : mkC (chain c) (ur c) (ar c) = c.
Proof. destruct c; reflexivity. Qed.

Lemma node_eta (n : node) : mkNode (n_c n) (n_pool n) = n.
Proof. destruct n; reflexivity. Qed.

(* ------------------------------------------------------------------ *)
(* specification-side definitions                                      *)
(* ------------------------------------------------------------------ *)

(* every input of every transaction of every block names an output of a transaction of a
   strictly earlier block *)
Definition input_known (earlier : list tx) (i : input) : bool :=
  existsb (fun t => String.eqb (t_id t) (i_ref i) && (i_idx i <? N.of_nat (length (outs t)))%N)
          earlier.
Fixpoint chain_inputs_known_from (earlier : list tx) (l : list block) : bool :=
  match l with
  | [] => true
  | b :: r => forallb (fun t => forallb (input_known earlier) (ins t)) (txs b)
              && chain_inputs_known_from (earlier ++ txs b) r
  end.
Definition chain_inputs_known (l : list block) : bool := chain_inputs_known_from [] l.

(* what completed during a run *)
Definition completed (l : list iout) : list iout :=
  filter (fun o => match o with ONone => false | _ => true end) l.

Section InterleaveLemmas.
  Variable value_fn : N -> bool -> Z -> N.
  Variable addr_of : string -> string.
  Variable sig_ok : input -> bool.
  Variable H : block -> hash.
  Variable gen_id : slice input -> slice output -> Z -> string.
  Variable S : settings.
  Variable validator : string.

  Notation step := (Reach.step value_fn addr_of sig_ok H gen_id S validator).
  Notation reach := (Reach.reach value_fn addr_of sig_ok H gen_id S validator).
  Notation update := (Sync.update value_fn addr_of sig_ok H S).
  Notation validate := (Pool.validate value_fn addr_of sig_ok H gen_id S validator).
  Notation pool_add := (Pool.pool_add value_fn addr_of sig_ok S).
  Notation validate_view := (Interleave.validate_view value_fn addr_of sig_ok H gen_id S validator).
  Notation pool_add_view := (Interleave.pool_add_view value_fn addr_of sig_ok S).
  Notation pool_add_early := (Interleave.pool_add_early sig_ok S).
  Notation update_decide := (Interleave.update_decide value_fn addr_of sig_ok H S).
  Notation istep := (Interleave.istep value_fn addr_of sig_ok H gen_id S validator).
  Notation irun := (Interleave.irun value_fn addr_of sig_ok H gen_id S validator).

  (* the run with what each step reported *)
  Fixpoint irun_outs (s : istate) (l : list iop) : istate * list iout :=
    match l with
    | [] => (s, [])
    | o :: r => let '(s', out) := istep s o in
                let '(s'', outs) := irun_outs s' r in (s'', out :: outs)
    end.

  Lemma irun_outs_fst (l : list iop) : forall s, fst (irun_outs s l) = irun s l.
  Proof.
    induction l as [|o r IH]; intros s; [reflexivity|].
    cbn [irun_outs Interleave.irun]. destruct (istep s o) as [s' out]. cbn [fst].
    rewrite <- IH. destruct (irun_outs s' r) as [s'' outs]. reflexivity.
  Qed.

  (* ================================================================ *)
  (* A. fresh views                                                    *)
  (* ================================================================ *)

  Lemma validate_view_fresh (n : node) (ts : Z) (perm : list nat) :
    validate_early S (last_block_ts (chain (n_c n))) ts = None ->
    validate_view (last_block_ts (chain (n_c n))) (last_block_txs (chain (n_c n))) (ur (n_c n))
                  n ts perm
    = validate n ts perm.
  Proof.
    unfold validate_early, Interleave.validate_view, Pool.validate. cbv zeta.
    destruct (negb (last_block_ts (chain (n_c n)) =? 0)%Z && (last_block_ts (chain (n_c n)) =? ts)%Z);
      [discriminate|].
    destruct (negb (last_block_ts (chain (n_c n)) =? 0)%Z
              && (last_block_ts (chain (n_c n)) + s_interval S <? ts)%Z); [discriminate|].
    intros _. reflexivity.
  Qed.

  Lemma validate_early_refused (n : node) (ts : Z) (perm : list nat) (e : err) :
    validate_early S (last_block_ts (chain (n_c n))) ts = Some e ->
    validate n ts perm = (n, Refused e).
  Proof.
    unfold validate_early, Pool.validate. cbv zeta.
    destruct (negb (last_block_ts (chain (n_c n)) =? 0)%Z && (last_block_ts (chain (n_c n)) =? ts)%Z);
      [intros E; inversion E; reflexivity|].
    destruct (negb (last_block_ts (chain (n_c n)) =? 0)%Z
              && (last_block_ts (chain (n_c n)) + s_interval S <? ts)%Z);
      [intros E; inversion E; reflexivity|discriminate].
  Qed.

  Lemma validate_early_cases (l ts : Z) (e : err) :
    validate_early S l ts = Some e ->
    (e = ESameTick /\ l <> 0%Z /\ l = ts) \/ (e = EMissedTick /\ l <> 0%Z /\ (l + s_interval S < ts)%Z).
  Proof.
    unfold validate_early.
    destruct (Z.eqb_spec l 0) as [E0|E0]; cbn [negb andb]; [discriminate|].
    destruct (Z.eqb_spec l ts) as [E1|E1].
    - intros E; inversion E. left. repeat split; assumption.
    - destruct (Z.ltb_spec (l + s_interval S) ts) as [E2|E2]; [|discriminate].
      intros E; inversion E. right. repeat split; assumption.
  Qed.

  Lemma pool_add_view_fresh (n : node) (t : tx) :
    pool_add_view (last_block_ts (chain (n_c n))) (ur (n_c n)) (last_block_txs (chain (n_c n))) n t
    = pool_add n t.
  Proof. reflexivity. Qed.

  Lemma pool_add_early_refused (n : node) (t : tx) (e : err) :
    pool_add_early (last_block_ts (chain (n_c n))) n t = Some e -> pool_add n t = Err e.
  Proof.
    unfold Interleave.pool_add_early, Pool.pool_add. cbv zeta.
    destruct (last_block_ts (chain (n_c n)) =? 0)%Z; [intros E; inversion E; reflexivity|].
    destruct (last_block_ts (chain (n_c n)) + s_interval S <? t_ts t)%Z;
      [intros E; inversion E; reflexivity|].
    destruct (t_ts t <? last_block_ts (chain (n_c n)))%Z; [intros E; inversion E; reflexivity|].
    destruct (mem_str (t_id t) (pool_ids n)); [intros E; inversion E; reflexivity|].
    destruct (negb (verify_sigs sig_ok t)); [intros E; inversion E; reflexivity|discriminate].
  Qed.

  Lemma update_fresh (st : cstate) (now : Z) (nbs : list neighbor) (pref : string) :
    update st now nbs pref
    = match update_decide st now nbs pref with
      | None => (st, false)
      | Some d => update_commit (length (chain st)) st d
      end.
  Proof.
    unfold Sync.update, Interleave.update_decide. cbv zeta.
    destruct (stage2 value_fn addr_of sig_ok H S st now nbs (stage1 value_fn addr_of sig_ok H S st now nbs))
      as [|p m]; [reflexivity|].
    destruct (select pref (survivors st (p :: m))) as [sel|]; [|reflexivity].
    destruct (is_different H (chain st) sel && negb (Nat.eqb (length sel) 0)); [|reflexivity].
    unfold update_commit. rewrite Nat.eqb_refl. cbn [negb]. reflexivity.
  Qed.

  (* a round whose snapshot is not as long as the live chain gives up *)
  Lemma update_commit_stale (k : nat) (live : cstate) (d : list block * bool) :
    k <> length (chain live) -> update_commit k live d = (live, false).
  Proof.
    intros Hk. unfold update_commit. destruct d as [sel fork].
    destruct (Nat.eqb_spec (length (chain live)) k) as [E|E]; [congruence|reflexivity].
  Qed.

  Lemma view_fresh_validate (n : node) (ts : Z) (perm : list nat) :
    (validate_early S (last_block_ts (chain (n_c n))) ts = None ->
     validate_view (last_block_ts (chain (n_c n))) (last_block_txs (chain (n_c n))) (ur (n_c n))
                   n ts perm
     = validate n ts perm) /\
    (forall e, validate_early S (last_block_ts (chain (n_c n))) ts = Some e ->
               validate n ts perm = (n, Refused e)).
  Proof.
    split; [apply validate_view_fresh | intros e; apply validate_early_refused].
  Qed.

  Lemma view_fresh_add (n : node) (t : tx) :
    pool_add_view (last_block_ts (chain (n_c n))) (ur (n_c n)) (last_block_txs (chain (n_c n))) n t
    = pool_add n t /\
    (forall e, pool_add_early (last_block_ts (chain (n_c n))) n t = Some e -> pool_add n t = Err e).
  Proof.
    split; [apply pool_add_view_fresh | intros e; apply pool_add_early_refused].
  Qed.

  (* ---- the three operations run without interruption ---- *)

  Lemma iv_seq_atomic (s : istate) (ts : Z) (perm : list nat) :
    i_v s = VR0 -> i_a s = AR0 ->
    irun_outs s [IV1 ts; IV2; IV3; IV4 perm]
    = let r := validate (i_n s) ts perm in
      (mkI (fst r) VR0 AR0 (i_u s),
       match validate_early S (last_block_ts (chain (n_c (i_n s)))) ts with
       | Some _ => [OVal (snd r); ONone; ONone; ONone]
       | None => [ONone; ONone; ONone; OVal (snd r)]
       end).
  Proof.
    destruct s as [n v a u]. cbn [i_n i_v i_a i_u]. intros -> ->. cbv zeta.
    cbn [irun_outs Interleave.istep i_n i_v i_a i_u].
    destruct (validate_early S (last_block_ts (chain (n_c n))) ts) as [e|] eqn:Ee.
    - rewrite (validate_early_refused _ _ perm _ Ee). reflexivity.
    - cbn [irun_outs Interleave.istep i_n i_v i_a i_u].
      rewrite (validate_view_fresh _ _ perm Ee).
      destruct (validate n ts perm) as [n' out]. reflexivity.
  Qed.

  Lemma ia_seq_atomic (s : istate) (t : tx) :
    i_a s = AR0 ->
    irun_outs s [IA1 t; IA2; IA3; IA4]
    = (mkI (step (i_n s) (OpAdd t)) (i_v s) AR0 (i_u s),
       let r := OAdd (match pool_add (i_n s) t with Ok _ => None | Err e => Some e end) in
       match pool_add_early (last_block_ts (chain (n_c (i_n s)))) (i_n s) t with
       | Some _ => [r; ONone; ONone; ONone]
       | None => [ONone; ONone; ONone; r]
       end).
  Proof.
    destruct s as [n v a u]. cbn [i_n i_v i_a i_u]. intros ->. cbv zeta.
    cbn [irun_outs Interleave.istep i_n i_v i_a i_u Reach.step].
    destruct (pool_add_early (last_block_ts (chain (n_c n))) n t) as [e|] eqn:Ee.
    - rewrite (pool_add_early_refused _ _ _ Ee).
      destruct v; reflexivity.
    - destruct v; cbn [irun_outs Interleave.istep i_n i_v i_a i_u];
        rewrite pool_add_view_fresh; destruct (pool_add n t) as [n'|e]; reflexivity.
  Qed.

  Lemma iu_seq_atomic (s : istate) (now : Z) (nbs : list neighbor) (pref : string) :
    i_u s = UR0 ->
    irun_outs s [IU1; IU2; IU3 now nbs pref]
    = (mkI (step (i_n s) (OpUpdate now nbs pref)) (i_v s) (i_a s) UR0,
       [ONone; ONone; OUpd (snd (update (n_c (i_n s)) now nbs pref))]).
  Proof.
    destruct s as [n v a u]. cbn [i_n i_v i_a i_u]. intros ->.
    cbn [Reach.step]. rewrite update_fresh.
    destruct v; destruct a;
      cbn [irun_outs Interleave.istep i_n i_v i_a i_u]; rewrite cstate_eta;
      (destruct (update_decide (n_c n) now nbs pref) as [d|];
       [destruct (update_commit (length (chain (n_c n))) (n_c n) d) as [c' r]; reflexivity
       |cbn [fst snd]; rewrite node_eta; reflexivity]).
  Qed.

  (* ================================================================ *)
  (* B. linearisation                                                  *)
  (* ================================================================ *)

  (* no tick and no submission is in flight when a sync round changes the chain state *)
  Definition quiet_step (s : istate) (o : iop) : Prop :=
    match o with
    | IU3 _ _ _ =>
      n_c (i_n (fst (istep s o))) <> n_c (i_n s) -> i_v s = VR0 /\ i_a s = AR0
    | _ => True
    end.

  (* the side conditions of Reach.op_ok at the step that completes the operation (the tick of a
     production is the one V1 was called with: it stays in the register) *)
  Definition iop_ok (s : istate) (o : iop) : Prop :=
    match o with
    | IV4 perm =>
      match i_v s with
      | VR3 ts _ _ _ => op_ok S (i_n s) (OpValidate ts perm)
      | _ => True
      end
    | IU3 now nbs pref => op_ok S (i_n s) (OpUpdate now nbs pref)
    | _ => True
    end.

  Fixpoint sched_ok (s : istate) (l : list iop) : Prop :=
    match l with
    | [] => True
    | o :: r => quiet_step s o /\ iop_ok s o /\ sched_ok (fst (istep s o)) r
    end.

  (* the same without the condition on sync rounds *)
  Fixpoint sched_ops_ok (s : istate) (l : list iop) : Prop :=
    match l with
    | [] => True
    | o :: r => iop_ok s o /\ sched_ops_ok (fst (istep s o)) r
    end.

  Lemma sched_ok_ops_ok (l : list iop) : forall s, sched_ok s l -> sched_ops_ok s l.
  Proof.
    induction l as [|o r IH]; intros s; [exact (fun x => x)|].
    intros (_ & Hi & Hr). split; [exact Hi | exact (IH _ Hr)].
  Qed.

  (* a sequential history with the side condition of each operation at its point *)
  Fixpoint ops_ok (n : node) (ops : list op) : Prop :=
    match ops with
    | [] => True
    | o :: r => op_ok S n o /\ ops_ok (step n o) r
    end.

  Lemma ops_ok_app (a b : list op) : forall n,
    ops_ok n a -> ops_ok (fold_left step a n) b -> ops_ok n (a ++ b).
  Proof.
    induction a as [|o r IH]; intros n Ha Hb; [exact Hb|].
    destruct Ha as [Ho Hr]. split; [exact Ho|]. apply IH; [exact Hr | exact Hb].
  Qed.

  Lemma reach_fold (ops : list op) : forall n,
    reach n -> ops_ok n ops -> reach (fold_left step ops n).
  Proof.
    induction ops as [|o r IH]; intros n Hr Ho; [exact Hr|].
    destruct Ho as [Ho Hrest]. cbn [fold_left]. apply IH; [|exact Hrest].
    apply reach_step; assumption.
  Qed.

  (* ---- the invariant: what the registers hold is what the live chain state holds ---- *)
  Definition v_fresh (c : cstate) (v : vreg) : Prop :=
    match v with
    | VR0 => True
    | VR1 ts l => l = last_block_ts (chain c) /\ validate_early S l ts = None
    | VR2 ts l x => l = last_block_ts (chain c) /\ x = last_block_txs (chain c) /\
                    validate_early S l ts = None
    | VR3 ts l x u => l = last_block_ts (chain c) /\ x = last_block_txs (chain c) /\ u = ur c /\
                      validate_early S l ts = None
    end.
  Definition a_fresh (c : cstate) (a : areg_t) : Prop :=
    match a with
    | AR0 => True
    | AR1 _ l => l = last_block_ts (chain c)
    | AR2 _ l u => l = last_block_ts (chain c) /\ u = ur c
    | AR3 _ l u x => l = last_block_ts (chain c) /\ u = ur c /\ x = last_block_txs (chain c)
    end.
  (* the snapshot of a round is never longer than the live chain, and as long as it is as long
     the live chain state is what the round has read *)
  Definition u_fresh (c : cstate) (r : ureg_t) : Prop :=
    match r with
    | UR0 => True
    | UR1 snap => length snap <= length (chain c) /\ (length snap = length (chain c) -> snap = chain c)
    | UR2 snap u a =>
      length snap <= length (chain c) /\
      (length snap = length (chain c) -> snap = chain c /\ u = ur c /\ a = ar c)
    end.
  Lemma u_fresh_grown (c c' : cstate) (r : ureg_t) :
    length (chain c') = Datatypes.S (length (chain c)) -> u_fresh c r -> u_fresh c' r.
  Proof.
    intros Hl. destruct r as [|snap|snap u a]; cbn [u_fresh]; [exact (fun x => x)| |];
      intros [Hle _]; (split; [lia|intros E; lia]).
  Qed.

  (* validate leaves the node alone or appends one block *)
  Lemma validate_grows (n : node) (ts : Z) (perm : list nat) :
    fst (validate n ts perm) = n \/
    length (chain (n_c (fst (validate n ts perm)))) = Datatypes.S (length (chain (n_c n))).
  Proof.
    destruct (validate n ts perm) as [n' out] eqn:Ev. cbn [fst]. destruct out as [d|e].
    - right. apply validate_appends in Ev. destruct Ev as (b & Hc & _).
      rewrite Hc, app_length. cbn [length]. lia.
    - left. apply validate_refused_id in Ev. exact Ev.
  Qed.

  (* ---------------------------------------------------------------- *)
  (* the refined condition: the stale views that do no harm            *)
  (* ---------------------------------------------------------------- *)

  (* 1. a tick not after the tip is refused whatever V1..V3 have read: by the registry copy not
     applying, or by AddBlock under the chain lock; the node is left as it was *)
  Lemma validate_view_tip_not_before (n : node) (l : Z) (x : list tx) (u : ureg) (ts : Z)
        (perm : list nat) :
    chain (n_c n) <> [] -> (ts <= last_block_ts (chain (n_c n)))%Z ->
    exists e, validate_view l x u n ts perm = (n, Refused e) /\
              (e = ETime \/ update_utxos u x l = Err e).
  Proof.
    intros Hne Hts. unfold Interleave.validate_view. cbv zeta.
    destruct (update_utxos u x l) as [u0|e0]; [|exists e0; split; [reflexivity | right; reflexivity]].
    destruct (produce_loop value_fn addr_of sig_ok S l (l + s_interval S) ts
                (permute perm (elems (n_pool n))) u0 [] []
                (if (l =? 0)%Z then s_genesis S else 0%N))
      as [[[uu kept] dropped] reward].
    rewrite (add_block_time _ _ _ _ _ Hne Hts).
    exists ETime. split; [reflexivity | left; reflexivity].
  Qed.

  Definition vreg_tick (v : vreg) : option Z :=
    match v with
    | VR0 => None
    | VR1 ts _ => Some ts
    | VR2 ts _ _ => Some ts
    | VR3 ts _ _ _ => Some ts
    end.
  Definition is_AR3 (a : areg_t) : Prop := exists t l u x, a = AR3 t l u x.

  (* when a sync round changes the chain state: a tick in flight is not after the tip installed
     (it will be refused), a submission in flight has made its three reads (it is linearised
     before the round) *)
  Definition quiet_step' (s : istate) (o : iop) : Prop :=
    match o with
    | IU3 _ _ _ =>
      n_c (i_n (fst (istep s o))) <> n_c (i_n s) ->
      (i_v s = VR0 \/
       exists ts, vreg_tick (i_v s) = Some ts /\
                  chain (n_c (i_n (fst (istep s o)))) <> [] /\
                  (ts <= last_block_ts (chain (n_c (i_n (fst (istep s o))))))%Z) /\
      (i_a s = AR0 \/ is_AR3 (i_a s))
    | _ => True
    end.

  Fixpoint sched_ok' (s : istate) (l : list iop) : Prop :=
    match l with
    | [] => True
    | o :: r => quiet_step' s o /\ iop_ok s o /\ sched_ok' (fst (istep s o)) r
    end.

  Lemma quiet_step_refines (s : istate) (o : iop) : quiet_step s o -> quiet_step' s o.
  Proof.
    destruct o; try exact (fun x => x). cbn [quiet_step quiet_step'].
    intros Hq Hne. destruct (Hq Hne) as [Ev Ea]. split; left; assumption.
  Qed.

  Lemma sched_ok_refines (l : list iop) : forall s, sched_ok s l -> sched_ok' s l.
  Proof.
    induction l as [|o r IH]; intros s; [exact (fun x => x)|].
    intros (Hq & Hi & Hr). split; [exact (quiet_step_refines _ _ Hq)|].
    split; [exact Hi | exact (IH _ Hr)].
  Qed.

  Lemma irun_app (l1 l2 : list iop) : forall s, irun s (l1 ++ l2) = irun (irun s l1) l2.
  Proof. induction l1 as [|o r IH]; intros s; [reflexivity | apply IH]. Qed.

  (* the conditions are closed under prefixes (and hold of the rest from where the prefix ends) *)
  Lemma sched_ok'_app (l1 l2 : list iop) : forall s,
    sched_ok' s (l1 ++ l2) -> sched_ok' s l1 /\ sched_ok' (irun s l1) l2.
  Proof.
    induction l1 as [|o r IH]; intros s Hs; [split; [exact I | exact Hs]|].
    destruct Hs as (Hq & Hi & Hr). destruct (IH _ Hr) as [H1 H2].
    split; [split; [exact Hq | split; [exact Hi | exact H1]] | exact H2].
  Qed.

  (* ---- the V register: fresh, or holding a tick not after the live tip ---- *)
  Definition v_doomed (c : cstate) (v : vreg) : Prop :=
    exists ts, vreg_tick v = Some ts /\ chain c <> [] /\ (ts <= last_block_ts (chain c))%Z.
  Definition v_ok (c : cstate) (v : vreg) : Prop := v_fresh c v \/ v_doomed c v.

  (* ---- histories of sync rounds ---- *)
  Definition is_update (o : op) : Prop :=
    match o with OpUpdate _ _ _ => True | _ => False end.

  Lemma ops_ok_app_inv (a b : list op) : forall n,
    ops_ok n (a ++ b) -> ops_ok n a /\ ops_ok (fold_left step a n) b.
  Proof.
    induction a as [|o r IH]; intros n Hab; [split; [exact I | exact Hab]|].
    destruct Hab as [Ho Hr]. destruct (IH _ Hr) as [H1 H2].
    split; [split; [exact Ho | exact H1] | exact H2].
  Qed.

  Lemma ops_ok_updates (ups : list op) : Forall is_update ups ->
    forall n n', ops_ok n ups -> ops_ok n' ups.
  Proof.
    induction 1 as [|o r Ho Hr IH]; intros n n' Hok; [exact I|].
    destruct Hok as [H1 H2]. split; [|exact (IH _ _ H2)].
    destruct o; try contradiction. exact H1.
  Qed.

  (* a sync round does not look at the pool and leaves it alone *)
  Lemma fold_updates_repool (ups : list op) : Forall is_update ups ->
    forall c p p',
      fold_left step ups (mkNode c p) = mkNode (n_c (fold_left step ups (mkNode c p'))) p.
  Proof.
    induction 1 as [|o r Ho Hr IH]; intros c p p'; [reflexivity|].
    destruct o as [| |now nbs pref|]; try contradiction.
    cbn [fold_left Reach.step n_c n_pool]. apply IH.
  Qed.

  Lemma fold_updates_pool (ups : list op) : Forall is_update ups ->
    forall n, n_pool (fold_left step ups n) = n_pool n.
  Proof.
    intros Hu n. rewrite <- (node_eta n) at 1.
    rewrite (fold_updates_repool ups Hu (n_c n) (n_pool n) (n_pool n)). reflexivity.
  Qed.

  (* 2. A4 looks at the live node only through its pool *)
  Lemma pool_add_view_repool (l : Z) (u : ureg) (x : list tx) (n n1 : node) (t : tx) :
    n_pool n = n_pool n1 ->
    pool_add_view l u x n t
    = match pool_add_view l u x n1 t with
      | Ok _ => Ok (mkNode (n_c n) (sl_app (n_pool n) t))
      | Err e => Err e
      end.
  Proof.
    intros Hp. unfold Interleave.pool_add_view, pool_ids. rewrite Hp.
    destruct (l =? 0)%Z; [reflexivity|].
    destruct (l + s_interval S <? t_ts t)%Z; [reflexivity|].
    destruct (t_ts t <? l)%Z; [reflexivity|].
    destruct (mem_str (t_id t) (map t_id (elems (n_pool n1)))); [reflexivity|].
    destruct (negb (verify_sigs sig_ok t)); [reflexivity|].
    destruct (update_utxos u x l) as [u1|e1]; [|reflexivity].
    destruct (update_utxos u1 (elems (n_pool n1)) (l + s_interval S)) as [u2|e2]; [|reflexivity].
    destruct (calc_fee value_fn addr_of (s_fee S) u2 t (l + s_interval S)) as [f|e3]; [|reflexivity].
    destruct (update_utxos u2 [t] (l + s_interval S)) as [u3|e4]; reflexivity.
  Qed.

  (* ---- one step of a tick or of a sync round ---- *)
  Definition not_IA (o : iop) : Prop :=
    match o with IA1 _ | IA2 | IA3 | IA4 => False | _ => True end.

  Definition step_post (s s' : istate) : Prop :=
    v_ok (n_c (i_n s')) (i_v s') /\ u_fresh (n_c (i_n s')) (i_u s') /\ i_a s' = i_a s /\
    exists ops1, ops_ok (i_n s) ops1 /\ fold_left step ops1 (i_n s) = i_n s' /\
                 (i_a s = AR0 \/ Forall is_update ops1) /\
                 (n_c (i_n s') = n_c (i_n s) \/ i_a s = AR0 \/ is_AR3 (i_a s)).

  Lemma v_doomed_tick (c : cstate) (v v' : vreg) :
    vreg_tick v' = vreg_tick v -> v_doomed c v -> v_doomed c v'.
  Proof. intros E (ts & Et & Hd). exists ts. rewrite E. split; [exact Et | exact Hd]. Qed.

  Lemma istep_vu (s : istate) (o : iop) :
    not_IA o -> v_ok (n_c (i_n s)) (i_v s) -> u_fresh (n_c (i_n s)) (i_u s) ->
    quiet_step' s o -> iop_ok s o -> step_post s (fst (istep s o)).
  Proof.
    destruct s as [n v a u]. cbn [i_n i_v i_a i_u].
    intros Hno Hv Hu Hq Hok.
    assert (Hsame : forall v' u', v_ok (n_c n) v' -> u_fresh (n_c n) u' ->
                                  step_post (mkI n v a u) (mkI n v' a u')).
    { intros v' u' Hv' Hu'. unfold step_post. cbn [i_n i_v i_a i_u].
      split; [exact Hv'|]. split; [exact Hu'|]. split; [reflexivity|].
      exists []. split; [exact I|]. split; [reflexivity|].
      split; [right; constructor | left; reflexivity]. }
    destruct o as [ts| | |perm|t| | | | | |now nbs pref]; try contradiction.
    - (* IV1 *)
      destruct v; cbn [Interleave.istep i_n i_v i_a i_u fst];
        try (apply Hsame; assumption).
      destruct (validate_early S (last_block_ts (chain (n_c n))) ts) eqn:Ee; cbn [fst];
        apply Hsame; try assumption. left. split; [reflexivity | exact Ee].
    - (* IV2 *)
      destruct v as [|ts l|ts l x|ts l x uu]; cbn [Interleave.istep i_n i_v i_a i_u fst];
        try (apply Hsame; assumption).
      apply Hsame; [|exact Hu]. destruct Hv as [[Hl He]|Hd].
      + left. split; [exact Hl|]. split; [reflexivity | exact He].
      + right. exact (v_doomed_tick _ _ _ eq_refl Hd).
    - (* IV3 *)
      destruct v as [|ts l|ts l x|ts l x uu]; cbn [Interleave.istep i_n i_v i_a i_u fst];
        try (apply Hsame; assumption).
      apply Hsame; [|exact Hu]. destruct Hv as [(Hl & Hx & He)|Hd].
      + left. split; [exact Hl|]. split; [exact Hx|]. split; [reflexivity | exact He].
      + right. exact (v_doomed_tick _ _ _ eq_refl Hd).
    - (* IV4 *)
      destruct v as [|ts l|ts l x|ts l x uu]; cbn [Interleave.istep i_n i_v i_a i_u fst];
        try (apply Hsame; assumption).
      destruct a as [|t l0|t l0 u0|t l0 u0 x0]; cbn [Interleave.istep i_n i_v i_a i_u fst];
        try (apply Hsame; assumption).
      cbn [iop_ok i_v i_n] in Hok.
      destruct Hv as [(Hl & Hx & Hu0 & Ee)|(ts0 & Et & Hne & Hle)].
      + subst l x uu. rewrite (validate_view_fresh _ _ perm Ee).
        pose proof (validate_grows n ts perm) as Hg.
        destruct (validate n ts perm) as [n' out] eqn:Ev. cbn [fst] in Hg |- *.
        unfold step_post. cbn [i_n i_v i_a i_u].
        split; [left; exact I|].
        split; [destruct Hg as [E|E]; [subst n'; exact Hu | exact (u_fresh_grown _ _ _ E Hu)]|].
        split; [reflexivity|].
        exists [OpValidate ts perm]. split; [split; [exact Hok | exact I]|].
        split; [cbn [fold_left Reach.step]; rewrite Ev; reflexivity|].
        split; [left; reflexivity | right; left; reflexivity].
      + cbn [vreg_tick] in Et. inversion Et; subst ts0.
        destruct (validate_view_tip_not_before n l x uu ts perm Hne Hle) as (e & Ee & _).
        rewrite Ee. cbn [fst]. apply Hsame; [left; exact I | exact Hu].
    - (* IU1 *)
      destruct u; cbn [Interleave.istep i_n i_v i_a i_u fst];
        try (destruct v; destruct a; apply Hsame; assumption).
      destruct v; destruct a; apply Hsame; try assumption;
        (split; [apply le_n | intros _; reflexivity]).
    - (* IU2 *)
      destruct u as [|snap|snap u0 a0]; cbn [Interleave.istep i_n i_v i_a i_u fst];
        try (destruct v; destruct a; apply Hsame; assumption).
      destruct Hu as [Hle Heq].
      destruct v; destruct a; apply Hsame; try assumption;
        (split; [exact Hle | intros E; split; [exact (Heq E) | split; reflexivity]]).
    - (* IU3 *)
      cbn [iop_ok i_n] in Hok. cbn [quiet_step' i_n i_v i_a] in Hq.
      assert (Hgoal : forall snap u0 a0, u = UR2 snap u0 a0 ->
                forall s', s' = fst (match update_decide (mkC snap u0 a0) now nbs pref with
                                     | None => (mkI n v a UR0, OUpd false)
                                     | Some d =>
                                       let '(c', r) := update_commit (length snap) (n_c n) d in
                                       (mkI (mkNode c' (n_pool n)) v a UR0, OUpd r)
                                     end) ->
                (n_c (i_n s') <> n_c n ->
                 (v = VR0 \/
                  exists ts, vreg_tick v = Some ts /\ chain (n_c (i_n s')) <> [] /\
                             (ts <= last_block_ts (chain (n_c (i_n s'))))%Z) /\
                 (a = AR0 \/ is_AR3 a)) ->
                step_post (mkI n v a u) s').
      { intros snap u0 a0 Eu s' Es' Hq'. subst u. destruct Hu as [Hle Heq].
        destruct (update_decide (mkC snap u0 a0) now nbs pref) as [d|] eqn:Ed; cbn [fst] in Es';
          [|subst s'; apply Hsame; [exact Hv | exact I]].
        destruct (Nat.eq_dec (length snap) (length (chain (n_c n)))) as [El|El].
        - destruct (Heq El) as (Es & Eu0 & Ea0). subst snap u0 a0.
          rewrite cstate_eta in Ed.
          pose proof (update_fresh (n_c n) now nbs pref) as Hf. rewrite Ed in Hf.
          destruct (update_commit (length (chain (n_c n))) (n_c n) d) as [c' r] eqn:Ec.
          cbn [fst] in Es'. subst s'. cbn [i_n n_c] in Hq'.
          unfold step_post. cbn [i_n i_v i_a i_u n_c].
          assert (Hops : exists ops1, ops_ok n ops1 /\
                           fold_left step ops1 n = mkNode c' (n_pool n) /\
                           (a = AR0 \/ Forall is_update ops1)).
          { exists [OpUpdate now nbs pref]. split; [split; [exact Hok | exact I]|].
            split; [cbn [fold_left Reach.step]; rewrite Hf; reflexivity|].
            right. constructor; [exact I | constructor]. }
          destruct Hops as (ops1 & Ho1 & Hf1 & Hd1).
          destruct (cstate_eq_dec c' (n_c n)) as [E|E].
          + subst c'. split; [exact Hv|]. split; [exact I|]. split; [reflexivity|].
            exists ops1.
            split; [exact Ho1|]. split; [exact Hf1|]. split; [exact Hd1 | left; reflexivity].
          + destruct (Hq' E) as [Hvq Haq].
            split.
            { destruct Hvq as [->|(ts & Et & Hne & Hts)]; [left; exact I|].
              right. exists ts. split; [exact Et|]. split; [exact Hne | exact Hts]. }
            split; [exact I|]. split; [reflexivity|].
            exists ops1. split; [exact Ho1|]. split; [exact Hf1|].
            split; [exact Hd1 | right; exact Haq].
        - rewrite (update_commit_stale _ _ d El) in Es'. cbn [fst] in Es'.
          rewrite node_eta in Es'. subst s'. apply Hsame; [exact Hv | exact I]. }
      destruct u as [|snap|snap u0 a0];
        try (destruct v; destruct a; cbn [Interleave.istep i_n i_v i_a i_u fst]; apply Hsame; assumption).
      specialize (Hgoal snap u0 a0 eq_refl).
      destruct v; destruct a; cbn [Interleave.istep i_n i_v i_a i_u fst] in Hq |- *;
        exact (Hgoal _ eq_refl Hq).
  Qed.

  (* ---- the steps of a submission ---- *)
  Lemma istep_a123 (s : istate) (o : iop) :
    match o with IA1 _ | IA2 | IA3 => True | _ => False end ->
    let s' := fst (istep s o) in
    i_n s' = i_n s /\ i_v s' = i_v s /\ i_u s' = i_u s /\
    (a_fresh (n_c (i_n s)) (i_a s) -> a_fresh (n_c (i_n s)) (i_a s')) /\
    (is_AR3 (i_a s) -> i_a s' = i_a s).
  Proof.
    destruct s as [n v a u]. cbv zeta. cbn [i_n i_v i_a i_u].
    destruct o as [| | | |t| | | | | |]; try contradiction; intros _.
    - (* IA1 *)
      destruct a as [|t0 l|t0 l u0|t0 l u0 x].
      + assert (Hg : forall r, r = fst (match pool_add_early (last_block_ts (chain (n_c n))) n t with
                                         | Some e => (mkI n v AR0 u, OAdd (Some e))
                                         | None => (mkI n v (AR1 t (last_block_ts (chain (n_c n)))) u, ONone)
                                         end) ->
                     i_n r = n /\ i_v r = v /\ i_u r = u /\
                     (a_fresh (n_c n) AR0 -> a_fresh (n_c n) (i_a r)) /\ (is_AR3 AR0 -> i_a r = AR0)).
        { intros r ->. destruct (pool_add_early (last_block_ts (chain (n_c n))) n t); cbn [fst i_n i_v i_a i_u];
            (split; [reflexivity|]; split; [reflexivity|]; split; [reflexivity|]; split;
             [intros _; first [exact I | reflexivity] | intros (t' & l' & u' & x' & E); discriminate E]). }
        destruct v; exact (Hg _ eq_refl).
      + destruct v; cbn [Interleave.istep i_n i_v i_a i_u fst];
          (split; [reflexivity|]; split; [reflexivity|]; split; [reflexivity|]; split;
           [exact (fun x => x) | intros _; reflexivity]).
      + destruct v; cbn [Interleave.istep i_n i_v i_a i_u fst];
          (split; [reflexivity|]; split; [reflexivity|]; split; [reflexivity|]; split;
           [exact (fun x => x) | intros _; reflexivity]).
      + destruct v; cbn [Interleave.istep i_n i_v i_a i_u fst];
          (split; [reflexivity|]; split; [reflexivity|]; split; [reflexivity|]; split;
           [exact (fun x => x) | intros _; reflexivity]).
    - (* IA2 *)
      destruct a as [|t0 l|t0 l u0|t0 l u0 x];
        destruct v; cbn [Interleave.istep i_n i_v i_a i_u fst];
        (split; [reflexivity|]; split; [reflexivity|]; split; [reflexivity|]; split;
         [first [exact (fun x => x) | intros Hl; split; [exact Hl | reflexivity]]
         |first [intros _; reflexivity | intros (t' & l' & u' & x' & E); discriminate E]]).
    - (* IA3 *)
      destruct a as [|t0 l|t0 l u0|t0 l u0 x];
        destruct v; cbn [Interleave.istep i_n i_v i_a i_u fst];
        (split; [reflexivity|]; split; [reflexivity|]; split; [reflexivity|]; split;
         [first [exact (fun x => x)
                |intros [Hl Hu0]; split; [exact Hl | split; [exact Hu0 | reflexivity]]]
         |first [intros _; reflexivity | intros (t' & l' & u' & x' & E); discriminate E]]).
  Qed.

  Lemma istep_a4 (s : istate) :
    (~ is_AR3 (i_a s) /\ fst (istep s IA4) = s) \/
    exists t l u x, i_a s = AR3 t l u x /\
      fst (istep s IA4)
      = mkI (match pool_add_view l u x (i_n s) t with Ok n' => n' | Err _ => i_n s end)
            (i_v s) AR0 (i_u s).
  Proof.
    destruct s as [n v a u]. cbn [i_n i_v i_a i_u].
    destruct a as [|t0 l|t0 l u0|t0 l u0 x].
    - left. split; [intros (t' & l' & u' & x' & E); discriminate E | destruct v; reflexivity].
    - left. split; [intros (t' & l' & u' & x' & E); discriminate E | destruct v; reflexivity].
    - left. split; [intros (t' & l' & u' & x' & E); discriminate E | destruct v; reflexivity].
    - right. exists t0, l, u0, x. split; [reflexivity|].
      destruct v; cbn [Interleave.istep i_n i_v i_a i_u];
        destruct (pool_add_view l u0 x n t0); reflexivity.
  Qed.

  (* ---- the invariant of a run: a sequential history [opsA ++ ups] of the node, where the
     sync rounds [ups] are those that have overtaken the submission in flight, whose three reads
     were made at the end of [opsA] ---- *)
  Definition ginv (n0 : node) (s : istate) : Prop :=
    exists opsA ups,
      ops_ok n0 (opsA ++ ups) /\ Forall is_update ups /\
      fold_left step ups (fold_left step opsA n0) = i_n s /\
      a_fresh (n_c (fold_left step opsA n0)) (i_a s) /\
      (ups = [] \/ is_AR3 (i_a s)) /\
      v_ok (n_c (i_n s)) (i_v s) /\ u_fresh (n_c (i_n s)) (i_u s).

  Lemma ginv_init (n0 : node) : ginv n0 (istate_of n0).
  Proof.
    exists [], []. cbn [app fold_left istate_of i_n i_v i_a i_u].
    split; [exact I|]. split; [constructor|]. split; [reflexivity|]. split; [exact I|].
    split; [left; reflexivity|]. split; [left; exact I | exact I].
  Qed.

  Lemma ginv_history (n0 : node) (s : istate) :
    ginv n0 s -> exists ops, ops_ok n0 ops /\ fold_left step ops n0 = i_n s.
  Proof.
    intros (opsA & ups & Hok & _ & Hf & _). exists (opsA ++ ups).
    split; [exact Hok | rewrite fold_left_app; exact Hf].
  Qed.

  Lemma ginv_step (n0 : node) (s : istate) (o : iop) :
    ginv n0 s -> quiet_step' s o -> iop_ok s o -> ginv n0 (fst (istep s o)).
  Proof.
    intros (opsA & ups & Hok & Hup & Hf & Ha & Hfr & Hv & Hu) Hq Hi.
    set (g := fold_left step opsA n0) in *.
    assert (Hcases : not_IA o \/ match o with IA1 _ | IA2 | IA3 => True | _ => False end \/ o = IA4).
    { destruct o; cbn; auto. }
    destruct Hcases as [Hno|[H123|H4]].
    - (* a step of a tick or of a sync round *)
      destruct (istep_vu s o Hno Hv Hu Hq Hi) as (Hv' & Hu' & Ea & ops1 & Ho1 & Hf1 & Hd1 & Hd2).
      assert (Hcase : (ups = [] /\ (n_c (i_n (fst (istep s o))) = n_c (i_n s) \/ i_a s = AR0)) \/
                      (is_AR3 (i_a s) /\ Forall is_update ops1)).
      { destruct Hfr as [E|H3].
        - destruct Hd2 as [E2|[E2|H3]]; [left; split; [exact E | left; exact E2]
                                         |left; split; [exact E | right; exact E2]|].
          destruct Hd1 as [E1|F1]; [left; split; [exact E | right; exact E1] | right; split; assumption].
        - destruct Hd1 as [E1|F1]; [|right; split; assumption].
          destruct H3 as (t' & l' & u' & x' & E3). rewrite E3 in E1. discriminate E1. }
      destruct Hcase as [[E Hlive]|[H3 F1]].
      + (* the history goes on at its end *)
        subst ups. rewrite app_nil_r in Hok. cbn [fold_left] in Hf.
        exists (opsA ++ ops1), []. rewrite app_nil_r, fold_left_app. fold g. rewrite Hf, Hf1.
        split; [apply ops_ok_app; [exact Hok | fold g; rewrite Hf; exact Ho1]|].
        split; [constructor|]. split; [reflexivity|].
        split.
        { rewrite Ea. destruct Hlive as [E|E]; [rewrite E, <- Hf; exact Ha | rewrite E; exact I]. }
        split; [left; reflexivity|]. split; assumption.
      + (* the round has overtaken the submission *)
        exists opsA, (ups ++ ops1). fold g.
        split.
        { rewrite app_assoc. apply ops_ok_app; [exact Hok|].
          rewrite fold_left_app. fold g. rewrite Hf. exact Ho1. }
        split; [apply Forall_app; split; assumption|].
        split; [rewrite fold_left_app, Hf; exact Hf1|].
        split; [rewrite Ea; exact Ha|].
        split; [right; rewrite Ea; exact H3|]. split; assumption.
    - (* A1..A3 *)
      destruct (istep_a123 s o H123) as (En & Ev & Eu & Hafr & Ha3).
      exists opsA, ups. fold g. rewrite En, Ev, Eu.
      split; [exact Hok|]. split; [exact Hup|]. split; [exact Hf|].
      destruct Hfr as [E|H3].
      + subst ups. cbn [fold_left] in Hf. split; [rewrite Hf; apply Hafr; rewrite <- Hf; exact Ha|].
        split; [left; reflexivity|]. split; assumption.
      + rewrite (Ha3 H3). split; [exact Ha|]. split; [right; exact H3|]. split; assumption.
    - (* A4 *)
      subst o. destruct (istep_a4 s) as [[_ Es]|(t & l & u0 & x & Ea & Es)].
      { rewrite Es. exists opsA, ups. fold g. repeat (split; [assumption|]). assumption. }
      rewrite Es. rewrite Ea in Ha. destruct Ha as (Hl & Hu0 & Hx). subst l u0 x.
      assert (Hpool : n_pool (i_n s) = n_pool g).
      { rewrite <- Hf. apply fold_updates_pool. exact Hup. }
      rewrite (pool_add_view_repool _ _ _ (i_n s) g t Hpool), pool_add_view_fresh.
      destruct (ops_ok_app_inv _ _ _ Hok) as [HokA HokU]. fold g in HokU.
      destruct (pool_add g t) as [g'|e] eqn:Ep.
      + (* the submission is put before the rounds that have overtaken it *)
        pose proof (pool_add_node _ _ _ _ _ _ _ Ep) as Eg'.
        exists (opsA ++ [OpAdd t] ++ ups), []. rewrite app_nil_r. cbn [i_n i_v i_a i_u fold_left n_c].
        assert (Hstep : step g (OpAdd t) = mkNode (n_c g) (sl_app (n_pool g) t)).
        { cbn [Reach.step]. rewrite Ep. exact Eg'. }
        assert (Hfold : fold_left step (opsA ++ [OpAdd t] ++ ups) n0
                        = mkNode (n_c (i_n s)) (sl_app (n_pool (i_n s)) t)).
        { rewrite !fold_left_app. fold g. cbn [fold_left]. rewrite Hstep.
          rewrite (fold_updates_repool ups Hup (n_c g) (sl_app (n_pool g) t) (n_pool g)).
          rewrite node_eta, Hf, Hpool. reflexivity. }
        split.
        { apply ops_ok_app; [exact HokA|]. fold g. split; [exact I|].
          exact (ops_ok_updates ups Hup _ _ HokU). }
        split; [constructor|]. split; [exact Hfold|].
        split; [exact I|]. split; [left; reflexivity|]. split; assumption.
      + exists (opsA ++ ups), []. rewrite app_nil_r, fold_left_app. fold g.
        cbn [i_n i_v i_a i_u fold_left].
        split; [exact Hok|]. split; [constructor|]. split; [exact Hf|].
        split; [exact I|]. split; [left; reflexivity|]. split; assumption.
  Qed.

  Lemma irun_ginv (n0 : node) (l : list iop) : forall s,
    ginv n0 s -> sched_ok' s l -> ginv n0 (irun s l).
  Proof.
    induction l as [|o r IH]; intros s Hg Hs; [exact Hg|].
    destruct Hs as (Hq & Hi & Hr). cbn [Interleave.irun].
    apply IH; [exact (ginv_step n0 s o Hg Hq Hi) | exact Hr].
  Qed.

  (* ---- the theorems ---- *)

  (* the interleaved run is a sequential history of atomic operations, each satisfying its side
     condition at its point *)
  Theorem interleave_sequential_refined (n0 : node) (l : list iop) :
    sched_ok' (istate_of n0) l ->
    exists ops : list op,
      ops_ok n0 ops /\ fold_left step ops n0 = i_n (irun (istate_of n0) l).
  Proof.
    intros Hs. apply ginv_history. exact (irun_ginv n0 l _ (ginv_init n0) Hs).
  Qed.

  Theorem interleave_reach_refined (n0 : node) (l : list iop) :
    reach n0 -> sched_ok' (istate_of n0) l -> reach (i_n (irun (istate_of n0) l)).
  Proof.
    intros Hr Hs. destruct (interleave_sequential_refined n0 l Hs) as (ops & Ho & Hf).
    rewrite <- Hf. exact (reach_fold ops n0 Hr Ho).
  Qed.

  Theorem interleave_sequential (n0 : node) (l : list iop) :
    sched_ok (istate_of n0) l ->
    exists ops : list op,
      ops_ok n0 ops /\ fold_left step ops n0 = i_n (irun (istate_of n0) l).
  Proof. intros Hs. exact (interleave_sequential_refined n0 l (sched_ok_refines l _ Hs)). Qed.

  Theorem interleave_reach (n0 : node) (l : list iop) :
    reach n0 -> sched_ok (istate_of n0) l -> reach (i_n (irun (istate_of n0) l)).
  Proof. intros Hr Hs. exact (interleave_reach_refined n0 l Hr (sched_ok_refines l _ Hs)). Qed.

  (* every moment of the run: the node after each prefix of the schedule is reachable, so its
     chain is hash-linked *)
  Theorem interleave_always_reach_refined (n0 : node) (l1 l2 : list iop) :
    reach n0 -> sched_ok' (istate_of n0) (l1 ++ l2) ->
    reach (i_n (irun (istate_of n0) l1)) /\
    chain_linked H (chain (n_c (i_n (irun (istate_of n0) l1)))).
  Proof.
    intros Hr Hs. destruct (sched_ok'_app l1 l2 _ Hs) as [H1 _].
    pose proof (interleave_reach_refined n0 l1 Hr H1) as Hr1.
    split; [exact Hr1 | exact (reach_linked _ _ _ _ _ _ _ _ Hr1)].
  Qed.

  Theorem interleave_always_reach (n0 : node) (l1 l2 : list iop) :
    reach n0 -> sched_ok (istate_of n0) (l1 ++ l2) ->
    reach (i_n (irun (istate_of n0) l1)) /\
    chain_linked H (chain (n_c (i_n (irun (istate_of n0) l1)))).
  Proof.
    intros Hr Hs. exact (interleave_always_reach_refined n0 l1 l2 Hr (sched_ok_refines _ _ Hs)).
  Qed.

  (* hence what holds of every reachable node holds of the node a schedule ends in; for
     instance its chain is hash-linked (reach_linked has no other hypothesis) *)
  Corollary interleave_chain_linked (n0 : node) (l : list iop) :
    reach n0 -> sched_ok (istate_of n0) l ->
    chain_linked H (chain (n_c (i_n (irun (istate_of n0) l)))).
  Proof.
    intros Hr Hs. exact (reach_linked _ _ _ _ _ _ _ _ (interleave_reach n0 l Hr Hs)).
  Qed.
End InterleaveLemmas.

(* ------------------------------------------------------------------ *)
(* C. the toy instance: validator "V" with its genesis block dated 20  *)
(* and one pooled transaction, a neighbor "W" whose chain starts at 10 *)
(* ------------------------------------------------------------------ *)
Module InterleaveExample.
  Definition vf : N -> bool -> Z -> N := fun x _ _ => x.
  Definition ao : string -> string := fun k => k.
  Definition so : input -> bool := fun _ => true.
  (* an injective hash *)
  Definition Ho : block -> hash := ReachExample.Hinj.
  (* transaction ids: the address of the first output and a letter for the timestamp *)
  Definition go : slice input -> slice output -> Z -> string :=
    fun _ o ts => match elems o with
                  | x :: _ => String.append (o_addr x) (String (ascii_of_N (Z.to_N ts + 55)) EmptyString)
                  | [] => EmptyString
                  end.
  Definition St : settings := mkSettings 10 1 100 8.

  Notation stepV := (Reach.step vf ao so Ho go St "V"%string).
  Notation stepW := (Reach.step vf ao so Ho go St "W"%string).
  Notation reachV := (Reach.reach vf ao so Ho go St "V"%string).
  Notation irunV := (Interleave.irun vf ao so Ho go St "V"%string).

  (* the host: its own genesis block at 20 ... *)
  Definition h1 : node := stepV node_empty (OpValidate 20 []).
  (* ... and a pooled transaction spending the genesis reward *)
  Definition rid : string := go None (Some [mkOutput "V"%string true 100%N]) 20.
  Definition t1 : tx := mkTx "t1"%string (Some [mkInput 0%N rid "V"%string "sig"%string])
                             (Some [mkOutput "X"%string false 99%N]) 25.
  Definition n0 : node := stepV h1 (OpAdd t1).

  (* the neighbor: two blocks, dated 10 and 20 *)
  Definition w2 : node := stepW (stepW node_empty (OpValidate 10 [])) (OpValidate 20 []).
  Definition nbW : neighbor := mkNb "w:1"%string (RFail EFetch) (RBlocks (chain (n_c w2))).

  (* the tick 30 reads the tip (dated 20), its transactions and the registry; a sync round
     replaces the chain by the neighbor's (tip dated 20 too); the tick goes on *)
  Definition stale_sched : list iop :=
    [IV1 30; IV2; IV3; IU1; IU2; IU3 40 [nbW] EmptyString; IV4 [0]].

  Lemma h1_reach : reachV h1.
  Proof. apply reach_step; [apply reach_init|]. left. reflexivity. Qed.
  Lemma n0_reach : reachV n0.
  Proof. apply reach_step; [exact h1_reach | exact I]. Qed.

  Lemma n0_pool : pool_ids n0 = ["t1"%string] /\ length (chain (n_c n0)) = 1.
  Proof. vm_compute. split; reflexivity. Qed.

  Ltac eval_reg :=
    lazymatch goal with
    | |- match ?v with _ => _ end =>
      let v' := eval vm_compute in v in
      replace v with v' by (vm_compute; reflexivity); cbv beta iota
    end.

  Lemma stale_sched_ops_ok : sched_ops_ok vf ao so Ho go St "V"%string (istate_of n0) stale_sched.
  Proof.
    unfold stale_sched. cbn [sched_ops_ok].
    do 5 (split; [exact I|]).
    split.
    { intros nb [E|[]] Et. subst nb. vm_compute in Et. discriminate Et. }
    split; [|exact I].
    unfold iop_ok. eval_reg.
    right. exists 1%Z. split; [lia|]. vm_compute. reflexivity.
  Qed.

  Lemma stale_sched_not_quiet : ~ sched_ok vf ao so Ho go St "V"%string (istate_of n0) stale_sched.
  Proof.
    unfold stale_sched. cbn [sched_ok].
    intros (_ & _ & _ & _ & _ & _ & _ & _ & _ & _ & Hq & _).
    destruct Hq as [Hv _].
    - vm_compute. intros E. discriminate E.
    - vm_compute in Hv. discriminate Hv.
  Qed.

  (* it is outside the refined condition too: the tip installed is dated 20, before the tick 30 *)
  Lemma stale_sched_not_quiet' : ~ sched_ok' vf ao so Ho go St "V"%string (istate_of n0) stale_sched.
  Proof.
    unfold stale_sched. cbn [sched_ok'].
    intros (_ & _ & _ & _ & _ & _ & _ & _ & _ & _ & Hq & _).
    destruct Hq as [[Hv|(ts & Et & _ & Hle)] _].
    - vm_compute. intros E. discriminate E.
    - vm_compute in Hv. discriminate Hv.
    - vm_compute in Et. inversion Et; subst ts. vm_compute in Hle. apply Hle. reflexivity.
  Qed.

  Lemma stale_final_chain :
    map (fun b => (b_ts b, map t_id (txs b))) (chain (n_c (i_n (irunV (istate_of n0) stale_sched))))
    = [(10%Z, ["WA"%string]); (20%Z, ["WK"%string]); (30%Z, ["t1"%string; "VU"%string])]
    /\ map i_ref (ins t1) = ["VK"%string].
  Proof. vm_compute. split; reflexivity. Qed.

  (* D17: without [quiet_step] the run ends in a chain with a transaction spending an output no
     transaction of the chain creates; the two sequential orders of the same two operations do
     not *)
  Theorem interleave_stale_view_refuted :
    exists (value_fn : N -> bool -> Z -> N) (addr_of : string -> string) (sig_ok : input -> bool)
           (H : block -> hash) (gen_id : slice input -> slice output -> Z -> string)
           (S : settings) (validator : string) (n0 : node)
           (ts : Z) (perm : list nat) (now : Z) (nbs : list neighbor) (pref : string),
      let l := [IV1 ts; IV2; IV3; IU1; IU2; IU3 now nbs pref; IV4 perm] in
      let step := Reach.step value_fn addr_of sig_ok H gen_id S validator in
      (forall a b, H a = H b -> a = b) /\
      Reach.reach value_fn addr_of sig_ok H gen_id S validator n0 /\
      chain_inputs_known (chain (n_c n0)) = true /\
      sched_ops_ok value_fn addr_of sig_ok H gen_id S validator (istate_of n0) l /\
      ~ sched_ok value_fn addr_of sig_ok H gen_id S validator (istate_of n0) l /\
      ~ sched_ok' value_fn addr_of sig_ok H gen_id S validator (istate_of n0) l /\
      chain_inputs_known
        (chain (n_c (i_n (Interleave.irun value_fn addr_of sig_ok H gen_id S validator (istate_of n0) l))))
      = false /\
      chain_inputs_known (chain (n_c (fold_left step [OpUpdate now nbs pref; OpValidate ts perm] n0)))
      = true /\
      chain_inputs_known (chain (n_c (fold_left step [OpValidate ts perm; OpUpdate now nbs pref] n0)))
      = true.
  Proof.
    exists vf, ao, so, Ho, go, St, "V"%string, n0, 30%Z, [0], 40%Z, [nbW], EmptyString.
    cbv zeta.
    split; [exact ReachExample.Hinj_inj|].
    split; [exact n0_reach|].
    split; [vm_compute; reflexivity|].
    split; [exact stale_sched_ops_ok|].
    split; [exact stale_sched_not_quiet|].
    split; [exact stale_sched_not_quiet'|].
    split; [vm_compute; reflexivity|].
    split; vm_compute; reflexivity.
  Qed.

  (* ---- a schedule with overlapping operations that satisfies [sched_ok] ---- *)
  (* a submission and a sync round without neighbors spread over the tick 30 *)
  Definition overlap_sched : list iop :=
    [IV1 30; IU1; IA1 t1; IV2; IA2; IU2; IV3; IA3; IA4; IU3 40 [] EmptyString; IV4 [0]].

  Lemma overlap_sched_ok : sched_ok vf ao so Ho go St "V"%string (istate_of h1) overlap_sched.
  Proof.
    unfold overlap_sched. cbn [sched_ok].
    do 9 (split; [exact I|]; split; [exact I|]).
    split.
    { intros Hne. exfalso. apply Hne. vm_compute. reflexivity. }
    split; [intros nb []|].
    split; [exact I|]. split; [|exact I].
    unfold iop_ok. eval_reg.
    right. exists 1%Z. split; [lia|]. vm_compute. reflexivity.
  Qed.

  Lemma overlap_result :
    i_n (irunV (istate_of h1) overlap_sched)
    = fold_left stepV [OpAdd t1; OpUpdate 40 [] EmptyString; OpValidate 30 [0]] h1 /\
    map (fun b => (b_ts b, map t_id (txs b))) (chain (n_c (i_n (irunV (istate_of h1) overlap_sched))))
    = [(20%Z, ["VK"%string]); (30%Z, ["t1"%string; "VU"%string])].
  Proof. vm_compute. split; reflexivity. Qed.

  (* ---- schedules the refined condition lets through ---- *)
  (* the neighbor one block later: its tip is dated 30 *)
  Definition w3 : node := stepW w2 (OpValidate 30 []).
  Definition nbW3 : neighbor := mkNb "w:1"%string (RFail EFetch) (RBlocks (chain (n_c w3))).

  (* the tick 30 in flight when a sync round installs a chain whose tip is dated 30: V4 is refused *)
  Definition refused_sched : list iop :=
    [IV1 30; IV2; IV3; IU1; IU2; IU3 40 [nbW3] EmptyString; IV4 [0]].

  Ltac eval_areg :=
    lazymatch goal with
    | |- context [i_a ?s] =>
      let a := eval vm_compute in (i_a s) in
      replace (i_a s) with a by (vm_compute; reflexivity)
    end.

  Lemma refused_sched_ok' : sched_ok' vf ao so Ho go St "V"%string (istate_of n0) refused_sched.
  Proof.
    unfold refused_sched. cbn [sched_ok'].
    do 5 (split; [exact I|]; split; [exact I|]).
    split.
    { intros _. split.
      - right. exists 30%Z. split; [vm_compute; reflexivity|].
        split; vm_compute; intros E; discriminate E.
      - left. vm_compute. reflexivity. }
    split.
    { intros nb [E|[]] Et. subst nb. vm_compute in Et. discriminate Et. }
    split; [exact I|]. split; [|exact I].
    unfold iop_ok. eval_reg.
    right. exists 0%Z. split; [lia|]. vm_compute. reflexivity.
  Qed.

  Lemma refused_sched_not_quiet : ~ sched_ok vf ao so Ho go St "V"%string (istate_of n0) refused_sched.
  Proof.
    unfold refused_sched. cbn [sched_ok].
    intros (_ & _ & _ & _ & _ & _ & _ & _ & _ & _ & Hq & _).
    destruct Hq as [Hv _].
    - vm_compute. intros E. discriminate E.
    - vm_compute in Hv. discriminate Hv.
  Qed.

  (* the run is the sync round alone: the tick has produced nothing, the pool is as it was *)
  Lemma refused_result :
    i_n (irunV (istate_of n0) refused_sched) = fold_left stepV [OpUpdate 40 [nbW3] EmptyString] n0 /\
    map b_ts (chain (n_c (i_n (irunV (istate_of n0) refused_sched)))) = [10%Z; 20%Z; 30%Z] /\
    pool_ids (i_n (irunV (istate_of n0) refused_sched)) = ["t1"%string].
  Proof. vm_compute. repeat split. Qed.

  (* a submission that has made its three reads when a sync round replaces the chain (and a
     tick in flight that the round dooms): A4 then appends to the pool what it has checked
     against the old chain, as if it had come before the round *)
  Definition overtaken_sched : list iop :=
    [IV1 30; IA1 t1; IA2; IA3; IU1; IU2; IU3 40 [nbW3] EmptyString; IA4; IV2; IV3; IV4 [0]].

  Lemma overtaken_sched_ok' : sched_ok' vf ao so Ho go St "V"%string (istate_of h1) overtaken_sched.
  Proof.
    unfold overtaken_sched. cbn [sched_ok'].
    do 6 (split; [exact I|]; split; [exact I|]).
    split.
    { intros _. split.
      - right. exists 30%Z. split; [vm_compute; reflexivity|].
        split; vm_compute; intros E; discriminate E.
      - right. unfold is_AR3. eval_areg. do 4 eexists. reflexivity. }
    split.
    { intros nb [E|[]] Et. subst nb. vm_compute in Et. discriminate Et. }
    do 3 (split; [exact I|]; split; [exact I|]).
    split; [exact I|]. split; [|exact I].
    unfold iop_ok. eval_reg.
    right. exists 0%Z. split; [lia|]. vm_compute. reflexivity.
  Qed.

  (* the history: the submission, then the round; the other order refuses the submission *)
  Lemma overtaken_result :
    i_n (irunV (istate_of h1) overtaken_sched)
    = fold_left stepV [OpAdd t1; OpUpdate 40 [nbW3] EmptyString] h1 /\
    pool_ids (i_n (irunV (istate_of h1) overtaken_sched)) = ["t1"%string] /\
    pool_ids (fold_left stepV [OpUpdate 40 [nbW3] EmptyString; OpAdd t1] h1) = [].
  Proof. vm_compute. repeat split. Qed.
End InterleaveExample.
