(* ClockWait_lemmas.v — the engine's stop protocol including the wait for the first period boundary *)
From RV Require Import model.Base model.Clock model.ClockWait proofs.Clock_lemmas.
From Coq Require Import Lia Arith.

(* ---- generalities ---- *)
Lemma wrun_app a b s : wrun (a ++ b) s = wrun b (wrun a s).
Proof. unfold wrun. apply fold_left_app. Qed.

Lemma wrun_cons e r s : wrun (e :: r) s = wrun r (wstep s e).
Proof. reflexivity. Qed.

Lemma wrun_late_app a b s : wrun_late (a ++ b) s = wrun_late b (wrun_late a s).
Proof. unfold wrun_late. apply fold_left_app. Qed.

Lemma wsteps_repeat n : wsteps (repeat WStep n) = n.
Proof. induction n as [|n IH]; simpl; [reflexivity|]. rewrite IH. reflexivity. Qed.

(* ---- the flag is down and Start is past the line that raises it ---- *)
Definition wdown (s : wstate) : Prop := w_started s = false /\ w_pc s <> WStart.

Lemma wdown_stop s : w_pc s <> WStart -> wdown (wstep s WStop).
Proof. intros H. split; simpl; [reflexivity|exact H]. Qed.

(* one move from a flag-down state: the flag stays down, calls + budget does not grow,
   and a move of the Start goroutine brings the return one step nearer *)
Lemma wdown_step s e :
  wdown s ->
  wdown (wstep s e) /\
  w_calls (wstep s e) + wbudget (wstep s e) <= w_calls s + wbudget s /\
  w_calls_after_stop (wstep s e) + wbudget (wstep s e) <= w_calls_after_stop s + wbudget s /\
  wdist (wstep s e) = match e with WStep => pred (wdist s) | WStop => wdist s end.
Proof.
  intros [Hf Hpc]. destruct s as [pc st c a sp]. simpl in Hf, Hpc. subst st.
  unfold wdown, wbudget, wdist.
  destruct e.
  - destruct pc; simpl.
    + congruence.
    + repeat split; try lia; discriminate.
    + repeat split; try lia; discriminate.
    + destruct sp; repeat split; simpl; try lia; discriminate.
    + repeat split; try lia; discriminate.
    + repeat split; try lia; discriminate.
  - simpl. repeat split; try lia; assumption.
Qed.

Lemma wdown_run evs : forall s,
  wdown s ->
  wdown (wrun evs s) /\
  w_calls (wrun evs s) + wbudget (wrun evs s) <= w_calls s + wbudget s /\
  w_calls_after_stop (wrun evs s) + wbudget (wrun evs s) <= w_calls_after_stop s + wbudget s /\
  (wdist s <= wsteps evs -> w_pc (wrun evs s) = WDone).
Proof.
  induction evs as [|e evs IH]; intros s Hd.
  - unfold wrun; simpl. repeat split; try apply Hd; try lia.
    intros H. destruct Hd as [_ Hpc]. unfold wdist in H.
    destruct (w_pc s) eqn:E; try lia; congruence.
  - rewrite wrun_cons.
    destruct (wdown_step s e Hd) as (Hd' & Hc & Ha & Hdist).
    destruct (IH _ Hd') as (Hd'' & Hc' & Ha' & Hdone).
    repeat split; try apply Hd''; try lia.
    intros H. apply Hdone. rewrite Hdist. destruct e; simpl in H; lia.
Qed.

(* once Start has returned it stays returned *)
Lemma wdone_stays evs : forall s, w_pc s = WDone -> w_pc (wrun evs s) = WDone.
Proof.
  induction evs as [|e evs IH]; intros s H; [exact H|].
  rewrite wrun_cons. apply IH. destruct s as [pc st c a sp]; simpl in H; subst pc.
  destruct e; reflexivity.
Qed.

(* ---- what is true of every state reachable from winit ---- *)
Definition winv (s : wstate) : Prop :=
  (w_pc s = WStart \/ w_pc s = WWait -> w_calls s = 0) /\
  (w_pc s = WStart -> w_started s = false) /\
  (w_stopped s = false -> w_calls_after_stop s = 0) /\
  w_calls_after_stop s <= w_calls s.

Lemma winv_init : winv winit.
Proof. unfold winv, winit; simpl. repeat split; auto. Qed.

Lemma winv_step s e : winv s -> winv (wstep s e).
Proof.
  intros (H0 & Hs & Hn & Hle). destruct s as [pc st c a sp]; simpl in *.
  unfold winv.
  destruct e; [destruct pc; [destruct st| |destruct st|destruct sp| |]|]; simpl;
    repeat split; try (intros [E|E]; discriminate E); try discriminate; auto; try lia.
  all: intros _.
  all: first [apply H0; left; reflexivity | apply H0; right; reflexivity | idtac].
Qed.

Lemma winv_run evs : forall s, winv s -> winv (wrun evs s).
Proof.
  induction evs as [|e evs IH]; intros s H; [exact H|].
  rewrite wrun_cons. apply IH, winv_step, H.
Qed.

Lemma winv_reach evs : winv (wrun evs winit).
Proof. apply winv_run, winv_init. Qed.

(* ---- wstop_no_call ---- *)

(* General form, matching stop_no_new_call of Clock_lemmas: a state whose flag is down (and whose
   Start is past line 57) makes at most the call that is already past its check; if it is not
   inside a call, it makes none, ever. *)
Lemma wstop_no_new_call s evs :
  w_started s = false -> w_pc s <> WStart ->
  w_calls (wrun evs s) <= w_calls s + wbudget s /\
  w_calls_after_stop (wrun evs s) <= w_calls_after_stop s + wbudget s /\
  (w_pc s <> WCall ->
   w_calls (wrun evs s) = w_calls s /\ w_calls_after_stop (wrun evs s) = w_calls_after_stop s).
Proof.
  intros Hf Hpc.
  destruct (wdown_run evs s (conj Hf Hpc)) as (_ & Hc & Ha & _).
  split; [lia|]. split; [lia|].
  intros Hcall.
  assert (Hb : wbudget s = 0) by (unfold wbudget; destruct (w_pc s); congruence).
  (* the counters never decrease *)
  assert (Hmono : forall l t, w_calls t <= w_calls (wrun l t) /\
                              w_calls_after_stop t <= w_calls_after_stop (wrun l t)).
  { induction l as [|e l IH]; intros t; [unfold wrun; simpl; lia|].
    rewrite wrun_cons. specialize (IH (wstep t e)).
    assert (w_calls t <= w_calls (wstep t e) /\
            w_calls_after_stop t <= w_calls_after_stop (wstep t e)).
    { destruct t as [pc st c a sp]. destruct e; simpl; [|lia].
      destruct pc; simpl; try lia; destruct st; simpl; try lia; destruct sp; simpl; lia. }
    lia. }
  specialize (Hmono evs s). lia.
Qed.

(* Run form: a Stop issued at any moment at which Start is past line 57. *)
Lemma wstop_no_call pre post :
  w_pc (wrun pre winit) <> WStart ->
  w_calls (wrun (pre ++ WStop :: post) winit)
    <= w_calls (wrun pre winit) + wbudget (wrun pre winit) /\
  (w_stopped (wrun pre winit) = false ->
   w_calls_after_stop (wrun (pre ++ WStop :: post) winit) <= wbudget (wrun pre winit)).
Proof.
  intros Hpc. rewrite wrun_app, wrun_cons.
  set (s := wrun pre winit) in *.
  destruct (wstop_no_new_call (wstep s WStop) post eq_refl Hpc) as (Hc & Ha & _).
  change (w_calls (wstep s WStop)) with (w_calls s) in Hc.
  change (w_calls_after_stop (wstep s WStop)) with (w_calls_after_stop s) in Ha.
  change (wbudget (wstep s WStop)) with (wbudget s) in Hc, Ha.
  split; [exact Hc|].
  intros Hn. destruct (winv_reach pre) as (_ & _ & Hz & _). fold s in Hz.
  rewrite (Hz Hn) in Ha. exact Ha.
Qed.

(* A Stop that lands during the wait for the first boundary prevents every call, and Start
   returns at its second move after the Stop (leave the wait; fail the check). *)
Lemma wstop_during_wait pre post :
  w_pc (wrun pre winit) = WWait ->
  w_calls (wrun (pre ++ WStop :: post) winit) = 0 /\
  w_calls_after_stop (wrun (pre ++ WStop :: post) winit) = 0 /\
  (2 <= wsteps post -> w_pc (wrun (pre ++ WStop :: post) winit) = WDone).
Proof.
  intros Hw.
  assert (Hpc : w_pc (wrun pre winit) <> WStart) by congruence.
  destruct (winv_reach pre) as (H0 & _ & _ & _).
  assert (Hc0 : w_calls (wrun pre winit) = 0) by (apply H0; right; exact Hw).
  assert (Hle := winv_reach (pre ++ WStop :: post)). destruct Hle as (_ & _ & _ & Hle).
  destruct (wstop_no_call pre post Hpc) as (Hc & _).
  assert (Hb : wbudget (wrun pre winit) = 0) by (unfold wbudget; rewrite Hw; reflexivity).
  split; [lia|]. split; [lia|].
  intros H2. rewrite wrun_app, wrun_cons.
  apply (wdown_run post (wstep (wrun pre winit) WStop) (wdown_stop _ Hpc)).
  unfold wdist. simpl. rewrite Hw. exact H2.
Qed.

(* ---- wstop_terminates ---- *)
Lemma wstop_terminates_state s evs :
  w_started s = false -> w_pc s <> WStart -> wdist s <= wsteps evs -> w_pc (wrun evs s) = WDone.
Proof. intros Hf Hpc. apply (wdown_run evs s (conj Hf Hpc)). Qed.

Lemma wdist_le_3 s : wdist s <= 3.
Proof. unfold wdist. destruct (w_pc s); lia. Qed.

Lemma wstop_terminates pre post :
  w_pc (wrun pre winit) <> WStart ->
  wdist (wrun pre winit) <= wsteps post ->
  forall more, w_pc (wrun ((pre ++ WStop :: post) ++ more) winit) = WDone.
Proof.
  intros Hpc Hd more. rewrite wrun_app. apply wdone_stays.
  rewrite wrun_app, wrun_cons.
  apply (wdown_run post (wstep (wrun pre winit) WStop) (wdown_stop _ Hpc)).
  exact Hd.
Qed.

Lemma wstop_terminates_3 pre post :
  w_pc (wrun pre winit) <> WStart -> 3 <= wsteps post ->
  forall more, w_pc (wrun ((pre ++ WStop :: post) ++ more) winit) = WDone.
Proof.
  intros Hpc H3. apply wstop_terminates; [exact Hpc|].
  pose proof (wdist_le_3 (wrun pre winit)). lia.
Qed.

(* the bound 3 is attained: a Stop during a call *)
Lemma wstop_terminates_tight :
  w_pc (wrun [WStep; WStep; WStep] winit) = WCall /\
  w_pc (wrun ([WStep; WStep; WStep] ++ WStop :: [WStep; WStep]) winit) = WCheck /\
  w_pc (wrun ([WStep; WStep; WStep] ++ WStop :: [WStep; WStep; WStep]) winit) = WDone.
Proof. repeat split; reflexivity. Qed.

(* ---- a Stop that lands BEFORE line 57 is lost (Go: Stop sets false, Start then sets true) ---- *)
Lemma wcycle s :
  w_pc s = WCheck -> w_started s = true -> w_stopped s = true ->
  wrun [WStep; WStep; WStep] s =
    mkW WCheck true (S (w_calls s)) (S (w_calls_after_stop s)) true.
Proof.
  destruct s as [pc st c a sp]; simpl. intros -> -> ->. reflexivity.
Qed.

Lemma wcycles n : forall s,
  w_pc s = WCheck -> w_started s = true -> w_stopped s = true ->
  wrun (repeat WStep (n * 3)) s =
    mkW WCheck true (n + w_calls s) (n + w_calls_after_stop s) true.
Proof.
  induction n as [|n IH]; intros s Hp Hs Hst.
  - destruct s as [pc st c a sp]; simpl in *. subst. reflexivity.
  - change (S n * 3) with (3 + n * 3). rewrite repeat_app, wrun_app.
    change (repeat WStep 3) with [WStep; WStep; WStep].
    rewrite (wcycle s Hp Hs Hst). rewrite IH by reflexivity. simpl.
    f_equal; lia.
Qed.

Lemma wstop_before_flag_lost n :
  w_pc (wrun [] winit) = WStart /\
  w_calls_after_stop (wrun ([] ++ WStop :: repeat WStep (2 + n * 3)) winit) = n /\
  w_pc (wrun ([] ++ WStop :: repeat WStep (2 + n * 3)) winit) = WCheck /\
  w_started (wrun ([] ++ WStop :: repeat WStep (2 + n * 3)) winit) = true.
Proof.
  split; [reflexivity|].
  change ([] ++ WStop :: repeat WStep (2 + n * 3))
    with ([WStop; WStep; WStep] ++ repeat WStep (n * 3)).
  rewrite wrun_app.
  change (wrun [WStop; WStep; WStep] winit) with (mkW WCheck true 0 0 true).
  rewrite wcycles by reflexivity. simpl. repeat split; lia.
Qed.

(* ---- wrun_refines_estep ---- *)
Lemma wabs_step s e : wpost s -> wpost (wstep s e) /\ wabs (wstep s e) = estep (wabs s) (wabs_ev e).
Proof.
  destruct s as [pc st c a sp]. unfold wpost, wabs. simpl. intros H.
  destruct e; simpl.
  - destruct pc; simpl; try contradiction; try (split; [exact I|reflexivity]).
    destruct st; simpl; split; try exact I; reflexivity.
  - split; [exact H|]. destruct pc; reflexivity.
Qed.

Lemma wrun_refines_estep evs : forall s,
  wpost s ->
  wpost (wrun evs s) /\ wabs (wrun evs s) = fold_left estep (map wabs_ev evs) (wabs s).
Proof.
  induction evs as [|e evs IH]; intros s H; [split; [exact H|reflexivity]|].
  rewrite wrun_cons. destruct (wabs_step s e H) as [H' E].
  destruct (IH _ H') as [H'' E']. split; [exact H''|].
  simpl. rewrite <- E. exact E'.
Qed.

Lemma wabs_ev_onto (l : list eevent) : exists evs, map wabs_ev evs = l.
Proof.
  induction l as [|e l [evs IH]]; [exists []; reflexivity|].
  destruct e; [exists (WStep :: evs)|exists (WStop :: evs)]; simpl; rewrite IH; reflexivity.
Qed.

(* The two systems agree from the first check on; in particular the undisturbed start reaches
   exactly einit, every schedule of the old system is the image of one of the new, and the slip
   is invisible to the old system (wstep_late and wstep coincide from WCheck on). *)
Lemma wrun_refines :
  (forall s evs, wpost s ->
     wpost (wrun evs s) /\ wabs (wrun evs s) = fold_left estep (map wabs_ev evs) (wabs s)) /\
  (forall evs, wabs (wrun ([WStep; WStep] ++ evs) winit) = fold_left estep (map wabs_ev evs) einit) /\
  (forall l, exists evs, map wabs_ev evs = l /\
     e_calls_after_stop (fold_left estep l einit)
       = w_calls_after_stop (wrun ([WStep; WStep] ++ evs) winit)) /\
  (forall s e, wpost s -> wstep_late s e = wstep s e).
Proof.
  split; [intros s evs H; apply wrun_refines_estep, H|].
  assert (G : forall evs, wabs (wrun ([WStep; WStep] ++ evs) winit)
                          = fold_left estep (map wabs_ev evs) einit).
  { intros evs. rewrite wrun_app.
    change (wrun [WStep; WStep] winit) with (mkW WCheck true 0 0 false).
    apply (wrun_refines_estep evs (mkW WCheck true 0 0 false) I). }
  split; [exact G|]. split.
  - intros l. destruct (wabs_ev_onto l) as [evs E]. exists evs. split; [exact E|].
    rewrite <- E, <- G. reflexivity.
  - intros s e H. destruct s as [pc st c a sp]. unfold wpost in H; simpl in H.
    destruct e; [|reflexivity]. destruct pc; try contradiction; reflexivity.
Qed.

(* carried over from C20_stop: in an undisturbed start, at most one call after any Stop *)
Lemma wstop_at_most_one_after_wait evs :
  w_calls_after_stop (wrun ([WStep; WStep] ++ evs) winit) <= 1.
Proof.
  destruct wrun_refines as (_ & G & _).
  change (w_calls_after_stop (wrun ([WStep; WStep] ++ evs) winit))
    with (e_calls_after_stop (wabs (wrun ([WStep; WStep] ++ evs) winit))).
  rewrite G. apply stop_at_most_one_in_flight.
Qed.

(* ---- wstop_late_flag_refuted ---- *)
Lemma firstn_repeat_min {A} (x : A) k : forall m, firstn k (repeat x m) = repeat x (Nat.min k m).
Proof.
  induction k as [|k IH]; intros m; [reflexivity|].
  destruct m as [|m]; [reflexivity|]. simpl. rewrite IH. reflexivity.
Qed.

Lemma wlate_cycle s :
  w_pc s = WCheck -> w_started s = true -> w_stopped s = true ->
  wrun_late [WStep; WStep; WStep] s =
    mkW WCheck true (S (w_calls s)) (S (w_calls_after_stop s)) true.
Proof.
  destruct s as [pc st c a sp]; simpl. intros -> -> ->. reflexivity.
Qed.

Lemma wlate_cycles n : forall s,
  w_pc s = WCheck -> w_started s = true -> w_stopped s = true ->
  wrun_late (repeat WStep (n * 3)) s =
    mkW WCheck true (n + w_calls s) (n + w_calls_after_stop s) true.
Proof.
  induction n as [|n IH]; intros s Hp Hs Hst.
  - destruct s as [pc st c a sp]; simpl in *. subst. reflexivity.
  - change (S n * 3) with (3 + n * 3). rewrite repeat_app, wrun_late_app.
    change (repeat WStep 3) with [WStep; WStep; WStep].
    rewrite (wlate_cycle s Hp Hs Hst). rewrite IH by reflexivity. simpl.
    f_equal; lia.
Qed.

(* with the flag up, the late system never returns under its own moves *)
Lemma wlate_alive m : forall s,
  w_started s = true -> (w_pc s = WCheck \/ w_pc s = WCall \/ w_pc s = WTick) ->
  w_pc (wrun_late (repeat WStep m) s) <> WDone.
Proof.
  induction m as [|m IH]; intros s Hs Hp.
  - simpl. destruct Hp as [E|[E|E]]; rewrite E; discriminate.
  - change (repeat WStep (S m)) with (WStep :: repeat WStep m).
    change (wrun_late (WStep :: repeat WStep m) s) with (wrun_late (repeat WStep m) (wstep_late s WStep)).
    apply IH; destruct s as [pc st c a sp]; simpl in *; subst st;
      destruct Hp as [E|[E|E]]; subst pc; simpl; auto.
Qed.

Lemma wstop_late_flag_refuted :
  (* three calls after a Stop that landed during the wait; Start never returns *)
  (w_pc (wrun_late [WStep] winit) = WWait /\
   w_calls_after_stop (wrun_late ([WStep] ++ WStop :: repeat WStep 10) winit) = 3 /\
   forallb (fun k => match w_pc (wrun_late (firstn k ([WStep] ++ WStop :: repeat WStep 10)) winit) with
                     | WDone => false | _ => true end) (seq 0 13) = true) /\
  (* the same schedule in the engine as written: no call, Start returns *)
  (w_calls (wrun ([WStep] ++ WStop :: repeat WStep 10) winit) = 0 /\
   w_pc (wrun ([WStep] ++ WStop :: repeat WStep 10) winit) = WDone) /\
  (* no bound at all *)
  (forall n, exists post,
     w_pc (wrun_late [WStep] winit) = WWait /\
     w_calls_after_stop (wrun_late ([WStep] ++ WStop :: post) winit) = n /\
     forall k, w_pc (wrun_late (firstn k ([WStep] ++ WStop :: post)) winit) <> WDone).
Proof.
  split; [vm_compute; repeat split; reflexivity|].
  split; [vm_compute; split; reflexivity|].
  intros n. exists (WStep :: repeat WStep (n * 3)).
  split; [reflexivity|]. split.
  - change ([WStep] ++ WStop :: WStep :: repeat WStep (n * 3))
      with ([WStep; WStop; WStep] ++ repeat WStep (n * 3)).
    rewrite wrun_late_app.
    change (wrun_late [WStep; WStop; WStep] winit) with (mkW WCheck true 0 0 true).
    rewrite wlate_cycles by reflexivity. simpl. lia.
  - intros k.
    destruct k as [|[|[|k]]]; try (simpl; discriminate).
    change (firstn (S (S (S k))) ([WStep] ++ WStop :: WStep :: repeat WStep (n * 3)))
      with ([WStep; WStop; WStep] ++ firstn k (repeat WStep (n * 3))).
    rewrite wrun_late_app, firstn_repeat_min.
    change (wrun_late [WStep; WStop; WStep] winit) with (mkW WCheck true 0 0 true).
    apply wlate_alive; [reflexivity|left; reflexivity].
Qed.
