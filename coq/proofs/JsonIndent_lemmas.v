(* JsonIndent_lemmas.v — parse_json (render_ws w j) = Some j: whatever whitespace stands between the
   tokens of a rendered tree, the parser reads the same tree; Go's json.Indent is one instance.

   Fuel: the value-level statement is "from some fuel on the answer is Some (j, rest)"
   (pvw_ok), which composes over lists by adding the bounds; at the top the answer at that
   (large) fuel is the answer at parse_fuel of the actual text by parse_val_fuel_stable
   (JsonParseF_lemmas.v: the top-level fuel is enough for every text). *)
From RV Require Import model.Base model.Json model.JsonParse model.JsonIndent
     proofs.JsonParse_lemmas proofs.JsonParseF_lemmas.
From Coq Require Import Lia.
Local Open Scope string_scope.

(* ------------------------------------------------------------------ *)
(* whitespace strings                                                  *)
(* ------------------------------------------------------------------ *)
Lemma all_ws_nil : all_ws "".
Proof. reflexivity. Qed.

Lemma all_ws_cons : forall c s, is_ws c = true -> all_ws s -> all_ws (String c s).
Proof. unfold all_ws. intros c s Hc Hs. cbn [all_wsb]. rewrite Hc, Hs. reflexivity. Qed.

Lemma all_ws_app : forall a b, all_ws a -> all_ws b -> all_ws (a ++ b).
Proof.
  unfold all_ws. induction a as [|c a IH]; intros b Ha Hb; cbn [append].
  - exact Hb.
  - cbn [all_wsb] in *. apply andb_true_iff in Ha. destruct Ha as [Hc Ha].
    rewrite Hc. cbn [andb]. apply IH; assumption.
Qed.

Lemma all_ws_rep : forall s n, all_ws s -> all_ws (rep s n).
Proof.
  intros s n Hs. induction n as [|n IH]; cbn [rep].
  - exact all_ws_nil.
  - apply all_ws_app; assumption.
Qed.

Lemma term_ok_app_ws : forall a b, all_ws a -> term_ok b -> term_ok (a ++ b).
Proof.
  unfold all_ws. intros [|c a] b Ha Hb; cbn [append].
  - exact Hb.
  - cbn [term_ok]. cbn [all_wsb] in Ha. apply andb_true_iff in Ha. destruct Ha as [Hc _].
    apply ws_not_num_char. exact Hc.
Qed.

Lemma skip_ws_pre : forall pre c r, all_ws pre -> is_ws c = false ->
  skip_ws (pre ++ String c r) = String c r.
Proof.
  intros pre c r Hp Hc. rewrite (skip_ws_app pre _ Hp). apply skip_ws_nonws. exact Hc.
Qed.

(* ------------------------------------------------------------------ *)
(* unfolding equations of the printer                                  *)
(* ------------------------------------------------------------------ *)
Lemma render_ws_arr_nil : forall w p, render_ws_at w p (JArr []) = String "[" (w p SEmpty ++ "]").
Proof. reflexivity. Qed.

Lemma render_ws_obj_nil : forall w p, render_ws_at w p (JObj []) = String "{" (w p SEmpty ++ "}").
Proof. reflexivity. Qed.

Lemma render_ws_arr_cons : forall w p x l,
  render_ws_at w p (JArr (x :: l))
  = String "[" (w p SAfterOpen ++ render_ws_at w (O :: p) x
                ++ tail_ws json w (render_ws_at w) p "]" O l).
Proof. reflexivity. Qed.

Lemma render_ws_obj_cons : forall w p x l,
  render_ws_at w p (JObj (x :: l))
  = String "{" (w p SAfterOpen ++ member_with (render_ws_at w) w (O :: p) x
                ++ tail_ws (string * json) w (member_with (render_ws_at w) w) p "}" O l).
Proof. reflexivity. Qed.

Lemma tail_ws_nil : forall A w re p close i,
  tail_ws A w re p close i [] = w p SBeforeClose ++ close.
Proof. reflexivity. Qed.

Lemma tail_ws_cons : forall A w re p close i y r,
  tail_ws A w re p close i (y :: r)
  = w (i :: p) SBeforeComma ++ "," ++ w (S i :: p) SAfterComma
    ++ re (S i :: p) y ++ tail_ws A w re p close (S i) r.
Proof. reflexivity. Qed.

(* the first character of a printed value: not whitespace, not a closing bracket *)
Lemma render_ws_head : forall w p j, wf_json j ->
  exists c r, render_ws_at w p j = String c r
              /\ is_ws c = false /\ N_of_ascii c <> 93%N /\ N_of_ascii c <> 125%N.
Proof.
  intros w p j Hw. destruct j as [|b|z|lit|s|l|l].
  - exact (render_head JNull Hw).
  - exact (render_head (JBool b) Hw).
  - exact (render_head (JNum z) Hw).
  - exact (render_head (JNumF lit) Hw).
  - exact (render_head (JStr s) Hw).
  - destruct l as [|x l].
    + rewrite render_ws_arr_nil. eexists; eexists. split; [reflexivity|].
      repeat split; try reflexivity; intros H; discriminate H.
    + rewrite render_ws_arr_cons. eexists; eexists. split; [reflexivity|].
      repeat split; try reflexivity; intros H; discriminate H.
  - destruct l as [|x l].
    + rewrite render_ws_obj_nil. eexists; eexists. split; [reflexivity|].
      repeat split; try reflexivity; intros H; discriminate H.
    + rewrite render_ws_obj_cons. eexists; eexists. split; [reflexivity|].
      repeat split; try reflexivity; intros H; discriminate H.
Qed.

(* ------------------------------------------------------------------ *)
(* one step of the list-level functions, whitespace skipped            *)
(* ------------------------------------------------------------------ *)
Lemma ebody_ws_last : forall pv pe s v T rest,
  pv s = Some (v, T) -> skip_ws T = String "]" rest ->
  elems_body pv pe s = Some ([v], rest).
Proof.
  intros pv pe s v T rest Hv HT. unfold elems_body. rewrite Hv. rewrite HT. reflexivity.
Qed.

Lemma ebody_ws_more : forall pv pe s v T T',
  pv s = Some (v, T) -> skip_ws T = String "," T' ->
  elems_body pv pe s = match pe T' with Some (vs, r) => Some (v :: vs, r) | None => None end.
Proof.
  intros pv pe s v T T' Hv HT. unfold elems_body. rewrite Hv. rewrite HT. reflexivity.
Qed.

Lemma mbody_ws_last : forall pv pm s k R X v T rest,
  skip_ws s = String """" (escape k ++ String """" R) -> skip_ws R = String ":" X ->
  pv X = Some (v, T) -> skip_ws T = String "}" rest ->
  members_body pv pm s = Some ([(k, v)], rest).
Proof.
  intros pv pm s k R X v T rest Hs HR Hv HT. unfold members_body.
  rewrite Hs. cbv beta iota. change (N_of_ascii """" =? 34)%N with true. cbv beta iota.
  rewrite unesc_escape. rewrite HR. cbv beta iota.
  change (N_of_ascii ":" =? 58)%N with true. cbv beta iota.
  rewrite Hv. rewrite HT. reflexivity.
Qed.

Lemma mbody_ws_more : forall pv pm s k R X v T T',
  skip_ws s = String """" (escape k ++ String """" R) -> skip_ws R = String ":" X ->
  pv X = Some (v, T) -> skip_ws T = String "," T' ->
  members_body pv pm s = match pm T' with Some (ms, r) => Some ((k, v) :: ms, r) | None => None end.
Proof.
  intros pv pm s k R X v T T' Hs HR Hv HT. unfold members_body.
  rewrite Hs. cbv beta iota. change (N_of_ascii """" =? 34)%N with true. cbv beta iota.
  rewrite unesc_escape. rewrite HR. cbv beta iota.
  change (N_of_ascii ":" =? 58)%N with true. cbv beta iota.
  rewrite Hv. rewrite HT. reflexivity.
Qed.

(* ------------------------------------------------------------------ *)
(* the round trip below the top level                                  *)
(* ------------------------------------------------------------------ *)
Definition pvw_ok (w : wsgen) (j : json) : Prop :=
  wf_json j -> forall p rest, term_ok rest ->
  exists f0, forall f, (f0 <= f)%nat ->
    parse_val f (render_ws_at w p j ++ rest) = Some (j, rest).

Lemma pvw_leaf : forall j rest, wf_json j -> term_ok rest ->
  exists f0, forall f, (f0 <= f)%nat -> parse_val f (render j ++ rest) = Some (j, rest).
Proof.
  intros j rest Hw Hr. exists (2 * String.length (render j))%nat. intros f Hf.
  apply (parse_val_render j Hw f rest Hr). lia.
Qed.

Lemma elems_ws_ok : forall w p, ws_gen_ok w ->
  forall l, Forall (pvw_ok w) l -> Forall wf_json l ->
  forall x i pre rest, all_ws pre -> pvw_ok w x -> wf_json x ->
  exists f0, forall f, (f0 <= f)%nat ->
    parse_elems f (pre ++ render_ws_at w (i :: p) x
                       ++ tail_ws json w (render_ws_at w) p "]" i l ++ rest)
    = Some (x :: l, rest).
Proof.
  intros w p W. induction l as [|y r IH]; intros Hp Hw x i pre rest Hpre Hx Hwx.
  - rewrite tail_ws_nil. rewrite sapp_assoc. change ("]" ++ rest) with (String "]" rest).
    destruct (Hx Hwx (i :: p) (w p SBeforeClose ++ String "]" rest)) as [f0 Hf0].
    { apply term_ok_app_ws; [apply W|reflexivity]. }
    exists (S f0). intros f Hf. destruct f as [|f]; [lia|].
    rewrite parse_elems_S.
    apply (ebody_ws_last _ _ _ x (w p SBeforeClose ++ String "]" rest) rest).
    + rewrite (parse_val_skip f pre _ Hpre). apply Hf0. lia.
    + apply skip_ws_pre; [apply W|reflexivity].
  - inversion Hp as [|y0 r0 Hpy Hpr]; subst y0 r0.
    inversion Hw as [|y0 r0 Hwy Hwr]; subst y0 r0.
    rewrite tail_ws_cons. rewrite !sapp_assoc.
    change ("," ++ w (S i :: p) SAfterComma ++ render_ws_at w (S i :: p) y
                ++ tail_ws json w (render_ws_at w) p "]" (S i) r ++ rest)
      with (String "," (w (S i :: p) SAfterComma ++ render_ws_at w (S i :: p) y
                ++ tail_ws json w (render_ws_at w) p "]" (S i) r ++ rest)).
    remember (w (S i :: p) SAfterComma ++ render_ws_at w (S i :: p) y
                ++ tail_ws json w (render_ws_at w) p "]" (S i) r ++ rest) as T' eqn:HT'.
    destruct (IH Hpr Hwr y (S i) (w (S i :: p) SAfterComma) rest (W _ _) Hpy Hwy) as [f1 Hf1].
    rewrite <- HT' in Hf1.
    destruct (Hx Hwx (i :: p) (w (i :: p) SBeforeComma ++ String "," T')) as [f0 Hf0].
    { apply term_ok_app_ws; [apply W|reflexivity]. }
    exists (S (f0 + f1)). intros f Hf. destruct f as [|f]; [lia|].
    rewrite parse_elems_S.
    rewrite (ebody_ws_more _ _ _ x (w (i :: p) SBeforeComma ++ String "," T') T').
    + rewrite (Hf1 f) by lia. reflexivity.
    + rewrite (parse_val_skip f pre _ Hpre). apply Hf0. lia.
    + apply skip_ws_pre; [apply W|reflexivity].
Qed.

(* a member followed by anything, in the shape members_body reads *)
Lemma member_ws_shape : forall w q k v tail,
  member_with (render_ws_at w) w q (k, v) ++ tail
  = String """" (escape k ++ String """"
      (w q SBeforeColon ++ String ":" (w q SAfterColon ++ render_ws_at w q v ++ tail))).
Proof.
  intros w q k v tail. unfold member_with, quote. cbn [fst snd].
  change (String """" (escape k ++ """") ++ w q SBeforeColon ++ ":" ++ w q SAfterColon ++ render_ws_at w q v)
    with (String """" ((escape k ++ """") ++ w q SBeforeColon ++ ":" ++ w q SAfterColon ++ render_ws_at w q v)).
  change ((String """" ((escape k ++ """") ++ w q SBeforeColon ++ ":" ++ w q SAfterColon ++ render_ws_at w q v)) ++ tail)
    with (String """" (((escape k ++ """") ++ w q SBeforeColon ++ ":" ++ w q SAfterColon ++ render_ws_at w q v) ++ tail)).
  rewrite !sapp_assoc. reflexivity.
Qed.

Lemma members_ws_ok : forall w p, ws_gen_ok w ->
  forall l, Forall (fun kv => pvw_ok w (snd kv)) l -> Forall (fun kv => wf_json (snd kv)) l ->
  forall x i pre rest, all_ws pre -> pvw_ok w (snd x) -> wf_json (snd x) ->
  exists f0, forall f, (f0 <= f)%nat ->
    parse_members f (pre ++ member_with (render_ws_at w) w (i :: p) x
                         ++ tail_ws (string * json) w (member_with (render_ws_at w) w) p "}" i l ++ rest)
    = Some (x :: l, rest).
Proof.
  intros w p W. induction l as [|y r IH]; intros Hp Hw x i pre rest Hpre Hx Hwx;
    destruct x as [k v]; cbn [snd] in Hx, Hwx.
  - rewrite tail_ws_nil. rewrite sapp_assoc. change ("}" ++ rest) with (String "}" rest).
    rewrite member_ws_shape.
    destruct (Hx Hwx (i :: p) (w p SBeforeClose ++ String "}" rest)) as [f0 Hf0].
    { apply term_ok_app_ws; [apply W|reflexivity]. }
    exists (S f0). intros f Hf. destruct f as [|f]; [lia|].
    rewrite parse_members_S.
    eapply (mbody_ws_last _ _ _ k _ _ v (w p SBeforeClose ++ String "}" rest) rest).
    + apply skip_ws_pre; [exact Hpre|reflexivity].
    + apply skip_ws_pre; [apply W|reflexivity].
    + rewrite (parse_val_skip f _ _ (W (i :: p) SAfterColon)). apply Hf0. lia.
    + apply skip_ws_pre; [apply W|reflexivity].
  - inversion Hp as [|y0 r0 Hpy Hpr]; subst y0 r0.
    inversion Hw as [|y0 r0 Hwy Hwr]; subst y0 r0.
    rewrite tail_ws_cons. rewrite !sapp_assoc.
    change ("," ++ w (S i :: p) SAfterComma ++ member_with (render_ws_at w) w (S i :: p) y
                ++ tail_ws (string * json) w (member_with (render_ws_at w) w) p "}" (S i) r ++ rest)
      with (String "," (w (S i :: p) SAfterComma ++ member_with (render_ws_at w) w (S i :: p) y
                ++ tail_ws (string * json) w (member_with (render_ws_at w) w) p "}" (S i) r ++ rest)).
    remember (w (S i :: p) SAfterComma ++ member_with (render_ws_at w) w (S i :: p) y
                ++ tail_ws (string * json) w (member_with (render_ws_at w) w) p "}" (S i) r ++ rest)
      as T' eqn:HT'.
    destruct (IH Hpr Hwr y (S i) (w (S i :: p) SAfterComma) rest (W _ _) Hpy Hwy) as [f1 Hf1].
    rewrite <- HT' in Hf1.
    rewrite member_ws_shape.
    destruct (Hx Hwx (i :: p) (w (i :: p) SBeforeComma ++ String "," T')) as [f0 Hf0].
    { apply term_ok_app_ws; [apply W|reflexivity]. }
    exists (S (f0 + f1)). intros f Hf. destruct f as [|f]; [lia|].
    rewrite parse_members_S.
    erewrite (mbody_ws_more _ _ _ k _ _ v (w (i :: p) SBeforeComma ++ String "," T') T').
    + rewrite (Hf1 f) by lia. reflexivity.
    + apply skip_ws_pre; [exact Hpre|reflexivity].
    + apply skip_ws_pre; [apply W|reflexivity].
    + rewrite (parse_val_skip f _ _ (W (i :: p) SAfterColon)). apply Hf0. lia.
    + apply skip_ws_pre; [apply W|reflexivity].
Qed.

Lemma parse_val_render_ws : forall w, ws_gen_ok w -> forall j, pvw_ok w j.
Proof.
  intros w W. induction j as [|b|z|lit|s|l HF|l HF] using json_ind2; unfold pvw_ok; intros Hw p rest Hr.
  - exact (pvw_leaf JNull rest Hw Hr).
  - exact (pvw_leaf (JBool b) rest Hw Hr).
  - exact (pvw_leaf (JNum z) rest Hw Hr).
  - exact (pvw_leaf (JNumF lit) rest Hw Hr).
  - exact (pvw_leaf (JStr s) rest Hw Hr).
  - destruct l as [|x l].
    + exists 1%nat. intros f Hf. destruct f as [|f]; [lia|].
      rewrite render_ws_arr_nil. cbn [append]. rewrite sapp_assoc.
      change ("]" ++ rest) with (String "]" rest).
      rewrite parse_val_S. unfold val_body.
      rewrite skip_ws_nonws by reflexivity. unfold val_dispatch.
      change (is_num_char "[") with false. cbv beta iota.
      change (N_of_ascii "[" =? 34)%N with false. change (N_of_ascii "[" =? 123)%N with false.
      change (N_of_ascii "[" =? 91)%N with true. cbv beta iota.
      rewrite (skip_ws_pre (w p SEmpty) "]" rest (W _ _) eq_refl). reflexivity.
    + pose proof (wf_arr _ Hw) as Hwl. inversion Hwl as [|x0 l0 Hwx Hwl']; subst x0 l0.
      inversion HF as [|x0 l0 Hpx Hpl]; subst x0 l0.
      destruct (elems_ws_ok w p W l Hpl Hwl' x O (w p SAfterOpen) rest (W _ _) Hpx Hwx) as [f0 Hf0].
      exists (S f0). intros f Hf. destruct f as [|f]; [lia|].
      rewrite render_ws_arr_cons. cbn [append]. rewrite !sapp_assoc.
      rewrite parse_val_S.
      destruct (render_ws_head w (O :: p) x Hwx) as [c [r [Hx [Hws [H93 _]]]]].
      rewrite (val_body_arr _ _ _ c (r ++ tail_ws json w (render_ws_at w) p "]" O l ++ rest)).
      * rewrite (Hf0 f) by lia. reflexivity.
      * rewrite Hx. cbn [append]. apply skip_ws_pre; [apply W|exact Hws].
      * exact H93.
  - destruct l as [|x l].
    + exists 1%nat. intros f Hf. destruct f as [|f]; [lia|].
      rewrite render_ws_obj_nil. cbn [append]. rewrite sapp_assoc.
      change ("}" ++ rest) with (String "}" rest).
      rewrite parse_val_S. unfold val_body.
      rewrite skip_ws_nonws by reflexivity. unfold val_dispatch.
      change (is_num_char "{") with false. cbv beta iota.
      change (N_of_ascii "{" =? 34)%N with false. change (N_of_ascii "{" =? 123)%N with true.
      cbv beta iota.
      rewrite (skip_ws_pre (w p SEmpty) "}" rest (W _ _) eq_refl). reflexivity.
    + pose proof (wf_obj _ Hw) as Hwl. inversion Hwl as [|x0 l0 Hwx Hwl']; subst x0 l0.
      inversion HF as [|x0 l0 Hpx Hpl]; subst x0 l0.
      destruct (members_ws_ok w p W l Hpl Hwl' x O (w p SAfterOpen) rest (W _ _) Hpx Hwx) as [f0 Hf0].
      exists (S f0). intros f Hf. destruct f as [|f]; [lia|].
      rewrite render_ws_obj_cons. cbn [append]. rewrite !sapp_assoc.
      rewrite parse_val_S.
      destruct x as [k v].
      rewrite (val_body_obj _ _ _ """"%char
                 (escape k ++ String """"
                    (w (O :: p) SBeforeColon ++ String ":" (w (O :: p) SAfterColon ++ render_ws_at w (O :: p) v
                       ++ tail_ws (string * json) w (member_with (render_ws_at w) w) p "}" O l ++ rest)))).
      * rewrite (Hf0 f) by lia. reflexivity.
      * rewrite member_ws_shape. apply skip_ws_pre; [apply W|reflexivity].
      * intros H; discriminate H.
Qed.

(* ------------------------------------------------------------------ *)
(* top level                                                           *)
(* ------------------------------------------------------------------ *)
Theorem parse_render_ws_around : forall w j pre post,
  wf_json j -> ws_gen_ok w -> all_ws pre -> all_ws post ->
  parse_json (pre ++ render_ws w j ++ post) = Some j.
Proof.
  intros w j pre post Hw W Hpre Hpost.
  destruct (parse_val_render_ws w W j Hw [] post (term_ok_ws post Hpost)) as [f0 Hf0].
  remember (pre ++ render_ws w j ++ post) as s eqn:Hs.
  unfold parse_json.
  rewrite <- (parse_val_fuel_stable s (f0 + parse_fuel s)) by lia.
  remember (f0 + parse_fuel s)%nat as g eqn:Hg.
  assert (Hle : (f0 <= g)%nat) by lia. clear Hg.
  rewrite Hs. rewrite (parse_val_skip g pre _ Hpre). unfold render_ws.
  rewrite (Hf0 g Hle).
  rewrite (skip_ws_all post Hpost). reflexivity.
Qed.

Theorem parse_render_ws : forall w j, wf_json j -> ws_gen_ok w ->
  parse_json (render_ws w j) = Some j.
Proof.
  intros w j Hw W. pose proof (parse_render_ws_around w j "" "" Hw W eq_refl eq_refl) as H.
  cbn [append] in H. rewrite sapp_nil_r in H. exact H.
Qed.

(* ------------------------------------------------------------------ *)
(* Go's json.Indent                                                    *)
(* ------------------------------------------------------------------ *)
Lemma newline_at_ws : forall prefix indent d, all_ws prefix -> all_ws indent ->
  all_ws (newline_at prefix indent d).
Proof.
  intros prefix indent d Hp Hi. unfold newline_at. apply all_ws_cons; [reflexivity|].
  apply all_ws_app; [exact Hp|]. apply all_ws_rep. exact Hi.
Qed.

Lemma indent_gen_ok : forall prefix indent, all_ws prefix -> all_ws indent ->
  ws_gen_ok (indent_gen prefix indent).
Proof.
  intros prefix indent Hp Hi p k. unfold indent_gen.
  destruct k; try reflexivity; apply newline_at_ws; assumption.
Qed.

Theorem parse_render_indent : forall prefix indent j,
  wf_json j -> all_ws prefix -> all_ws indent ->
  parse_json (render_indent prefix indent j) = Some j.
Proof.
  intros prefix indent j Hw Hp Hi. unfold render_indent.
  apply parse_render_ws; [exact Hw|]. apply indent_gen_ok; assumption.
Qed.

(* with the whitespace Go keeps around the value (json.Indent drops leading, keeps trailing) *)
Theorem parse_render_indent_around : forall prefix indent j pre post,
  wf_json j -> all_ws prefix -> all_ws indent -> all_ws pre -> all_ws post ->
  parse_json (pre ++ render_indent prefix indent j ++ post) = Some j.
Proof.
  intros prefix indent j pre post Hw Hp Hi Hpre Hpost. unfold render_indent.
  apply parse_render_ws_around; try assumption. apply indent_gen_ok; assumption.
Qed.

(* the every-slot generator of model/JsonIndent.v is a whitespace generator *)
Lemma noisy_gen_ok : ws_gen_ok noisy_gen.
Proof.
  intros p k. destruct k; unfold noisy_gen; try reflexivity.
  - apply all_ws_cons; [reflexivity|]. apply all_ws_rep. reflexivity.
  - apply all_ws_rep. reflexivity.
Qed.
