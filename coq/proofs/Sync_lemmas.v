(* Sync_lemmas.v — lemmas about model/Sync.v (Blockchain.Update, blockchain.go:99-266)
   used by props/C06.v. *)
From RV Require Import model.Base model.Ledger model.Registry model.Chain model.Sync.
From Coq Require Import Lia ZArith NArith Permutation.

(* ------------------------------------------------------------------ *)
(* generic list facts                                                  *)
(* ------------------------------------------------------------------ *)

Lemma In_aset {V} (k : string) (v : V) (m : list (string * V)) (p : string * V) :
  In p (aset k v m) -> p = (k, v) \/ In p m.
Proof.
  induction m as [|[k' v'] r IH]; simpl; intros Hin.
  - destruct Hin as [Hin|[]]; left; symmetry; exact Hin.
  - destruct (String.eqb k k'); simpl in Hin.
    + destruct Hin as [Hin|Hin]; [left; symmetry; exact Hin | right; right; exact Hin].
    + destruct Hin as [Hin|Hin]; [right; left; exact Hin|].
      destruct (IH Hin) as [Hq|Hq]; [left; exact Hq | right; right; exact Hq].
Qed.

Lemma fold_left_inv {A B} (P : B -> Prop) (f : B -> A -> B) (l : list A) :
  (forall b a, In a l -> P b -> P (f b a)) -> forall b, P b -> P (fold_left f l b).
Proof.
  induction l as [|x r IH]; simpl; intros Hstep b Hb; [exact Hb|].
  apply IH.
  - intros b' a' Hin Hb'. apply Hstep; [right; exact Hin | exact Hb'].
  - apply Hstep; [left; reflexivity | exact Hb].
Qed.

Lemma filter_partition_perm {A} (f : A -> bool) (l : list A) :
  Permutation (filter f l ++ filter (fun x => negb (f x)) l) l.
Proof.
  induction l as [|a r IH]; simpl; [constructor|].
  destruct (f a); simpl.
  - constructor. exact IH.
  - apply Permutation_sym, Permutation_cons_app, Permutation_sym. exact IH.
Qed.

Lemma hash_eqb_eq (a b : hash) : hash_eqb a b = true <-> a = b.
Proof.
  unfold hash_eqb. destruct (list_eq_dec N.eq_dec a b) as [E|E]; split; intros Hx;
    try reflexivity; try assumption; try discriminate. contradiction.
Qed.

Lemma hash_eqb_refl (a : hash) : hash_eqb a a = true.
Proof. apply hash_eqb_eq. reflexivity. Qed.

(* ------------------------------------------------------------------ *)
(* 5. the commit loop against Chain.replay_from                        *)
(* ------------------------------------------------------------------ *)

Lemma commit_loop_false (u : ureg) (a : areg) (l : list block) :
  snd (commit_loop u a l false) = false.
Proof.
  revert u a. induction l as [|b r IH]; intros u a; simpl; [reflexivity|].
  destruct (update_utxos u (txs b) (b_ts b)) as [u1|e]; apply IH.
Qed.

Lemma commit_loop_spec (u : ureg) (a : areg) (l : list block) (u' : ureg) (a' : areg) :
  commit_loop u a l true = (u', a', true) <-> replay_from u a l = Ok (u', a').
Proof.
  revert u a. induction l as [|b r IH]; intros u a; simpl.
  - split; intros E; inversion E; reflexivity.
  - unfold apply_block.
    destruct (update_utxos u (txs b) (b_ts b)) as [u1|e] eqn:E.
    + apply IH.
    + split; intros Hc; [|discriminate].
      pose proof (commit_loop_false u a r) as Hf. rewrite Hc in Hf. discriminate.
Qed.

Lemma commit_loop_fail (u : ureg) (a : areg) (l : list block) :
  snd (commit_loop u a l true) = false <-> exists e, replay_from u a l = Err e.
Proof.
  revert u a. induction l as [|b r IH]; intros u a; simpl.
  - split; [discriminate | intros [e He]; discriminate].
  - unfold apply_block.
    destruct (update_utxos u (txs b) (b_ts b)) as [u1|e] eqn:E.
    + apply IH.
    + split; intros _; [exists e; reflexivity | apply commit_loop_false].
Qed.

(* ------------------------------------------------------------------ *)
(* 2. the filters                                                      *)
(* ------------------------------------------------------------------ *)

Lemma longest_filter_spec (mx : nat) (m : cands) (p : string * list block) :
  In p (longest_filter mx m) <-> In p m /\ mx <= length (snd p).
Proof.
  unfold longest_filter. rewrite filter_In.
  destruct (Nat.ltb_spec (length (snd p)) mx) as [Hl|Hl]; simpl; split; intros [Hin Hx];
    split; try assumption; try reflexivity; try discriminate; first [lia | exfalso; lia].
Qed.

Lemma longest_filter_incl (mx : nat) (m : cands) : incl (longest_filter mx m) m.
Proof. intros p Hp. apply longest_filter_spec in Hp. apply Hp. Qed.

(* number of candidates that agree with chain [c] on the previous-hash of the block at
   index (shortest length - 1) *)
Definition branch_count (hl : nat) (m : cands) (c : list block) : nat :=
  length (filter (fun q => hash_eqb (prev_at c (min_len hl m - 1)) (prev_at (snd q) (min_len hl m - 1))) m).

Lemma branch_filter_spec (hl : nat) (m : cands) (p : string * list block) :
  In p (branch_filter hl m) <-> In p m /\ length m / 2 <= branch_count hl m (snd p).
Proof.
  unfold branch_filter, branch_count. rewrite filter_In.
  set (k := min_len hl m - 1).
  destruct (Nat.ltb_spec
              (length (filter (fun q => hash_eqb (prev_at (snd p) k) (prev_at (snd q) k)) m))
              (Nat.div (length m) 2)) as [Hl|Hl];
    cbn [negb]; split; intros [Hin Hx]; split; try assumption; try reflexivity; try discriminate;
      first [lia | exfalso; lia].
Qed.

Lemma branch_filter_incl (hl : nat) (m : cands) : incl (branch_filter hl m) m.
Proof. intros p Hp. apply branch_filter_spec in Hp. apply Hp. Qed.

(* [branch_count] really counts the entries with the same previous hash *)
Lemma branch_count_spec (hl : nat) (m : cands) (c : list block) :
  branch_count hl m c =
  length (filter (fun q => if list_eq_dec N.eq_dec (prev_at c (min_len hl m - 1))
                                          (prev_at (snd q) (min_len hl m - 1)) then true else false) m).
Proof. reflexivity. Qed.

Lemma max_len_acc (m : cands) : forall a,
  a <= fold_left (fun a p => Nat.max a (length (snd p))) m a /\
  (forall p, In p m -> length (snd p) <= fold_left (fun a p => Nat.max a (length (snd p))) m a) /\
  (fold_left (fun a p => Nat.max a (length (snd p))) m a = a \/
   exists p, In p m /\ length (snd p) = fold_left (fun a p => Nat.max a (length (snd p))) m a).
Proof.
  induction m as [|x r IH]; intros a; simpl.
  - split; [lia|]. split; [intros p []|left; reflexivity].
  - destruct (IH (Nat.max a (length (snd x)))) as (H1 & H2 & H3).
    split; [lia|]. split.
    + intros p [Hp|Hp]; [subst p; lia | apply H2; exact Hp].
    + destruct H3 as [H3|(p & Hp & H3)].
      * destruct (Nat.max_spec a (length (snd x))) as [[Hlt Hm]|[Hlt Hm]].
        -- right. exists x. split; [left; reflexivity|]. rewrite H3. symmetry. exact Hm.
        -- left. rewrite H3. exact Hm.
      * right. exists p. split; [right; exact Hp | exact H3].
Qed.

Lemma max_len_ge (hl : nat) (m : cands) :
  hl <= max_len hl m /\ forall p, In p m -> length (snd p) <= max_len hl m.
Proof. unfold max_len. destruct (max_len_acc m hl) as (H1 & H2 & _). split; assumption. Qed.

Lemma max_len_attained (hl : nat) (m : cands) :
  max_len hl m = hl \/ exists p, In p m /\ length (snd p) = max_len hl m.
Proof. unfold max_len. destruct (max_len_acc m hl) as (_ & _ & H3). exact H3. Qed.

Lemma min_len_acc (m : cands) : forall a,
  fold_left (fun a p => Nat.min a (length (snd p))) m a <= a /\
  (forall p, In p m -> fold_left (fun a p => Nat.min a (length (snd p))) m a <= length (snd p)).
Proof.
  induction m as [|x r IH]; intros a; simpl.
  - split; [lia | intros p []].
  - destruct (IH (Nat.min a (length (snd x)))) as (H1 & H2).
    split; [lia|]. intros p [Hp|Hp]; [subst p; lia | apply H2; exact Hp].
Qed.

Lemma min_len_le (hl : nat) (m : cands) :
  min_len hl m <= hl /\ forall p, In p m -> min_len hl m <= length (snd p).
Proof. unfold min_len. apply min_len_acc. Qed.

Lemma survivors_spec (st : cstate) (m : cands) (p : string * list block) :
  In p (survivors st m) <->
  In p m /\ length m / 2 <= branch_count (length (chain st)) m (snd p) /\
  length (snd p) = max_len (length (chain st)) m.
Proof.
  unfold survivors. rewrite longest_filter_spec, branch_filter_spec.
  split.
  - intros [[Hin Hb] Hl]. split; [exact Hin|]. split; [exact Hb|].
    destruct (max_len_ge (length (chain st)) m) as [_ Hle]. specialize (Hle p Hin). lia.
  - intros (Hin & Hb & Hl). split; [split; assumption | lia].
Qed.

Lemma survivors_incl (st : cstate) (m : cands) : incl (survivors st m) m.
Proof. intros p Hp. apply survivors_spec in Hp. apply Hp. Qed.

(* ------------------------------------------------------------------ *)
(* 3. the arg-max                                                      *)
(* ------------------------------------------------------------------ *)

Definition sel_step (acc : N * option (list block)) (p : string * list block) :=
  if (fst acc <? age_of (snd p))%N then (age_of (snd p), Some (snd p)) else acc.

Lemma select_eq (pref : string) (m : cands) :
  select pref m = snd (fold_left sel_step (order_cands pref m) (0%N, None)).
Proof. reflexivity. Qed.

Lemma order_cands_In (pref : string) (m : cands) (p : string * list block) :
  In p (order_cands pref m) <-> In p m.
Proof.
  unfold order_cands. rewrite in_app_iff, !filter_In. split.
  - intros [[Hin _]|[Hin _]]; exact Hin.
  - intros Hin. destruct (String.eqb (fst p) pref); [left|right]; split; auto.
Qed.

Lemma order_cands_perm (pref : string) (m : cands) : Permutation (order_cands pref m) m.
Proof. unfold order_cands. apply (filter_partition_perm (fun p => String.eqb (fst p) pref)). Qed.

Lemma select_fold (l : cands) : forall acc,
  (fst acc <= fst (fold_left sel_step l acc))%N /\
  (forall p, In p l -> (age_of (snd p) <= fst (fold_left sel_step l acc))%N) /\
  (fold_left sel_step l acc = acc \/
   exists p, In p l /\ snd (fold_left sel_step l acc) = Some (snd p) /\
             fst (fold_left sel_step l acc) = age_of (snd p) /\
             (fst acc < fst (fold_left sel_step l acc))%N).
Proof.
  induction l as [|x r IH]; intros acc; simpl.
  - split; [lia|]. split; [intros p []|left; reflexivity].
  - destruct (IH (sel_step acc x)) as (H1 & H2 & H3).
    assert (Hstep : ((fst acc < age_of (snd x))%N /\ sel_step acc x = (age_of (snd x), Some (snd x))) \/
                    ((age_of (snd x) <= fst acc)%N /\ sel_step acc x = acc)).
    { unfold sel_step. destruct (N.ltb_spec (fst acc) (age_of (snd x))) as [Hlt|Hge];
        [left|right]; split; auto. }
    destruct Hstep as [[Hlt Hs]|[Hge Hs]]; rewrite Hs in H1, H2, H3 |- *; cbn [fst] in H1, H3.
    + split; [lia|]. split.
      * intros p [Hp|Hp]; [subst p; exact H1 | apply H2; exact Hp].
      * right. destruct H3 as [H3|(p & Hp & Hsn & Hf & Hl)].
        -- exists x. rewrite H3. simpl. split; [left; reflexivity|].
           split; [reflexivity|]. split; [reflexivity | exact Hlt].
        -- exists p. split; [right; exact Hp|]. split; [exact Hsn|]. split; [exact Hf | lia].
    + split; [exact H1|]. split.
      * intros p [Hp|Hp]; [subst p; lia | apply H2; exact Hp].
      * destruct H3 as [H3|(p & Hp & Hsn & Hf & Hl)]; [left; exact H3|].
        right. exists p. split; [right; exact Hp|]. split; [exact Hsn|]. split; [exact Hf | exact Hl].
Qed.

Lemma select_spec (pref : string) (m : cands) (sel : list block) :
  select pref m = Some sel ->
  (exists t, In (t, sel) m) /\ (0 < age_of sel)%N /\
  forall p, In p m -> (age_of (snd p) <= age_of sel)%N.
Proof.
  rewrite select_eq. intros Hs.
  destruct (select_fold (order_cands pref m) (0%N, None)) as (_ & H2 & H3).
  destruct H3 as [H3|(p & Hp & Hsn & Hf & Hl)].
  - rewrite H3 in Hs. discriminate.
  - rewrite Hsn in Hs. inversion Hs; subst sel. clear Hs.
    split; [exists (fst p); destruct p as [t c]; simpl; apply order_cands_In in Hp; exact Hp|].
    simpl in Hl. split; [lia|].
    intros q Hq. rewrite <- Hf. apply H2. apply order_cands_In. exact Hq.
Qed.

Lemma select_none (pref : string) (m : cands) :
  select pref m = None <-> forall p, In p m -> age_of (snd p) = 0%N.
Proof.
  rewrite select_eq.
  destruct (select_fold (order_cands pref m) (0%N, None)) as (_ & H2 & H3).
  split.
  - intros Hs p Hp. destruct H3 as [H3|(q & Hq & Hsn & Hf & Hl)].
    + apply order_cands_In with (pref := pref) in Hp. apply H2 in Hp. rewrite H3 in Hp.
      simpl in Hp. lia.
    + rewrite Hsn in Hs. discriminate.
  - intros Hall. destruct H3 as [H3|(q & Hq & Hsn & Hf & Hl)].
    + rewrite H3. reflexivity.
    + apply order_cands_In in Hq. apply Hall in Hq. simpl in Hl. lia.
Qed.

(* ------------------------------------------------------------------ *)
(* everything that depends on the oracles                              *)
(* ------------------------------------------------------------------ *)
Section SyncLemmas.
  Variable value_fn : N -> bool -> Z -> N.
  Variable addr_of : string -> string.
  Variable sig_ok : input -> bool.
  Variable H : block -> hash.
  Variable Se : settings.

  Notation verify := (verify value_fn addr_of sig_ok H Se).
  Notation stage1 := (stage1 value_fn addr_of sig_ok H Se).
  Notation stage2 := (stage2 value_fn addr_of sig_ok H Se).
  Notation candidates := (candidates value_fn addr_of sig_ok H Se).
  Notation update := (update value_fn addr_of sig_ok H Se).

  (* go: blockchain.go:284-365 returns the neighbor's own blocks *)
  Lemma verify_returns_input (host : cstate) (last_host neigh old_host : list block) (now : Z)
        (v : list block) :
    verify host last_host neigh old_host now = Ok v -> v = neigh.
  Proof.
    unfold Chain.verify. intros Hv.
    repeat match type of Hv with
           | context [match ?x with _ => _ end] => destruct x eqn:?
           end; try discriminate; inversion Hv; reflexivity.
  Qed.

  (* lastHostBlocks of the incremental request *)
  Definition tip_of (st : cstate) : list block :=
    match last_block (chain st) with Some b => [b] | None => [] end.

  Definition inc_verified (st : cstate) (now : Z) (nb : neighbor) (c : list block) : Prop :=
    exists l v, nb_inc nb = RBlocks l /\ 2 < length (chain st) /\
                verify st (tip_of st) l (removelast (chain st)) now = Ok v /\
                c = removelast (chain st) ++ v.
  Definition full_verified (st : cstate) (now : Z) (nb : neighbor) (c : list block) : Prop :=
    exists l v, nb_full nb = RBlocks l /\
                verify st (removelast (chain st)) l [] now = Ok v /\
                c = v.
  Definition from_inc (st : cstate) (now : Z) (nbs : list neighbor) (t : string) (c : list block) : Prop :=
    exists nb, In nb nbs /\ nb_target nb = t /\ inc_verified st now nb c.
  Definition from_full (st : cstate) (now : Z) (nbs : list neighbor) (t : string) (c : list block) : Prop :=
    exists nb, In nb nbs /\ nb_target nb = t /\ full_verified st now nb c.
  Definition from_neighbor (st : cstate) (now : Z) (nbs : list neighbor)
             (t : string) (c : list block) : Prop :=
    exists nb, In nb nbs /\ nb_target nb = t /\ (inc_verified st now nb c \/ full_verified st now nb c).
  Definition host_entry (st : cstate) (t : string) (c : list block) : Prop :=
    t = host_target /\ c = chain st /\ 2 < length (chain st).
  Definition verified_entry (st : cstate) (now : Z) (nbs : list neighbor)
             (t : string) (c : list block) : Prop :=
    host_entry st t c \/ from_neighbor st now nbs t c.

  Lemma stage1_entries (st : cstate) (now : Z) (nbs : list neighbor) (t : string) (c : list block) :
    In (t, c) (stage1 st now nbs) -> host_entry st t c \/ from_inc st now nbs t c.
  Proof.
    unfold Sync.stage1.
    destruct (Nat.ltb_spec 2 (length (chain st))) as [Hlen|Hlen]; [|intros []].
    revert t c.
    apply (fold_left_inv (fun m : cands => forall t c, In (t, c) m ->
                                                       host_entry st t c \/ from_inc st now nbs t c)).
    - intros m nb Hnb Hm t c Hin.
      destruct (nb_inc nb) as [e|l] eqn:Einc; [apply Hm; exact Hin|].
      fold (tip_of st) in Hin.
      destruct (verify st (tip_of st) l (removelast (chain st)) now) as [v|e] eqn:Ev;
        [|apply Hm; exact Hin].
      apply In_aset in Hin. destruct Hin as [Hin|Hin]; [|apply Hm; exact Hin].
      inversion Hin; subst t c. right. exists nb. split; [exact Hnb|]. split; [reflexivity|].
      exists l, v. split; [exact Einc|]. split; [exact Hlen|]. split; [exact Ev | reflexivity].
    - intros t c [Hin|[]]. inversion Hin; subst t c. left. split; [reflexivity|].
      split; [reflexivity | exact Hlen].
  Qed.

  Lemma stage2_entries (st : cstate) (now : Z) (nbs : list neighbor) (c1 : cands)
        (t : string) (c : list block) :
    In (t, c) (stage2 st now nbs c1) ->
    In (t, c) c1 \/ (is_fork st c1 nbs = true /\ from_full st now nbs t c).
  Proof.
    unfold Sync.stage2. destruct (is_fork st c1 nbs); [|intros Hin; left; exact Hin].
    revert t c.
    apply (fold_left_inv (fun m : cands => forall t c, In (t, c) m ->
                                                       In (t, c) c1 \/ (true = true /\ from_full st now nbs t c)));
      [|intros t c Hin; left; exact Hin].
    intros m nb Hnb Hm t c Hin.
    destruct (nb_full nb) as [e|l] eqn:Efull; [apply Hm; exact Hin|].
    destruct (verify st (removelast (chain st)) l [] now) as [v|e] eqn:Ev; [|apply Hm; exact Hin].
    apply In_aset in Hin. destruct Hin as [Hin|Hin]; [|apply Hm; exact Hin].
    inversion Hin; subst t c. right. split; [reflexivity|]. exists nb. split; [exact Hnb|].
    split; [reflexivity|]. exists l, v. split; [exact Efull|]. split; [exact Ev | reflexivity].
  Qed.

  (* 1. every candidate is the host's own chain or a neighbor answer that passed [verify] *)
  Lemma candidates_verified (st : cstate) (now : Z) (nbs : list neighbor) (t : string) (c : list block) :
    In (t, c) (candidates st now nbs) -> verified_entry st now nbs t c.
  Proof.
    unfold Sync.candidates. intros Hin.
    destruct (stage2_entries _ _ _ _ _ _ Hin) as [Hin1|[_ (nb & Hnb & Ht & Hf)]].
    - destruct (stage1_entries _ _ _ _ _ Hin1) as [Hh|(nb & Hnb & Ht & Hi)]; [left; exact Hh|].
      right. exists nb. split; [exact Hnb|]. split; [exact Ht | left; exact Hi].
    - right. exists nb. split; [exact Hnb|]. split; [exact Ht | right; exact Hf].
  Qed.

  (* ---- the difference test ---- *)
  Lemma is_different_refl (c : list block) : is_different H c c = false.
  Proof.
    unfold is_different. rewrite Nat.ltb_irrefl.
    destruct (Nat.leb 2 (length c)); [|reflexivity].
    destruct (last_block c) as [b|]; [|reflexivity].
    rewrite hash_eqb_refl. reflexivity.
  Qed.

  Lemma is_different_true (h sel : list block) :
    is_different H h sel = true ->
    length h < length sel \/
    (length sel <= length h /\ 2 <= length sel /\
     exists a b, last_block sel = Some a /\ last_block h = Some b /\ H a <> H b).
  Proof.
    unfold is_different.
    destruct (Nat.ltb_spec (length h) (length sel)) as [Hlt|Hge]; [left; exact Hlt|].
    destruct (Nat.leb_spec 2 (length sel)) as [H2|H2]; [|discriminate].
    destruct (last_block sel) as [a|]; [|discriminate].
    destruct (last_block h) as [b|]; [|discriminate].
    intros Hd. right. split; [exact Hge|]. split; [exact H2|]. exists a, b.
    split; [reflexivity|]. split; [reflexivity|].
    intros Heq. rewrite Heq, hash_eqb_refl in Hd. discriminate.
  Qed.

  Lemma is_different_same_tip (h sel : list block) :
    length sel <= length h ->
    (forall a b, last_block sel = Some a -> last_block h = Some b -> H a = H b) ->
    is_different H h sel = false.
  Proof.
    intros Hle Htip. unfold is_different.
    destruct (Nat.ltb_spec (length h) (length sel)) as [Hlt|Hge]; [lia|].
    destruct (Nat.leb 2 (length sel)); [|reflexivity].
    destruct (last_block sel) as [a|]; [|reflexivity].
    destruct (last_block h) as [b|]; [|reflexivity].
    rewrite (Htip a b eq_refl eq_refl), hash_eqb_refl. reflexivity.
  Qed.

  (* what the commit loop starts from and runs over (blockchain.go:243-250) *)
  Definition commit_input (st : cstate) (fork : bool) (sel : list block) : ureg * areg * list block :=
    if fork then (ureg_empty, areg_empty, removelast sel)
    else if Nat.ltb (length (chain st)) (length sel)
         then (ur st, ar st, slice_blocks sel (length (chain st) - 1) (length sel - 1))
         else (ur st, ar st, []).

  (* [update] in one equation over the folded names *)
  Lemma update_unfold (st : cstate) (now : Z) (nbs : list neighbor) (pref : string) :
    update st now nbs pref =
    match candidates st now nbs with
    | [] => (st, false)
    | _ :: _ =>
      match select pref (survivors st (candidates st now nbs)) with
      | None => (st, false)
      | Some sel =>
        if is_different H (chain st) sel && negb (Nat.eqb (length sel) 0) then
          let '(u0, a0, news) := commit_input st (is_fork st (stage1 st now nbs) nbs) sel in
          let '(u', a', ok) := commit_loop u0 a0 news true in
          if ok then (mkC sel u' a', true) else (mkC (chain st) u' a', false)
        else (st, false)
      end
    end.
  Proof. reflexivity. Qed.

  (* 4. the main case analysis *)
  Theorem update_cases (st : cstate) (now : Z) (nbs : list neighbor) (pref : string)
          (st' : cstate) (rep : bool) :
    update st now nbs pref = (st', rep) ->
    (rep = false /\ chain st' = chain st /\
     ((ur st' = ur st /\ ar st' = ar st) \/
      exists sel u0 a0 news,
        select pref (survivors st (candidates st now nbs)) = Some sel /\
        is_different H (chain st) sel = true /\ sel <> [] /\
        commit_input st (is_fork st (stage1 st now nbs) nbs) sel = (u0, a0, news) /\
        commit_loop u0 a0 news true = (ur st', ar st', false)))
    \/
    (rep = true /\
     (exists t, In (t, chain st') (survivors st (candidates st now nbs))) /\
     select pref (survivors st (candidates st now nbs)) = Some (chain st') /\
     is_different H (chain st) (chain st') = true /\ chain st' <> [] /\
     exists u0 a0 news,
       commit_input st (is_fork st (stage1 st now nbs) nbs) (chain st') = (u0, a0, news) /\
       commit_loop u0 a0 news true = (ur st', ar st', true)).
  Proof.
    rewrite update_unfold. intros Hu.
    assert (Hkeep : (st, false) = (st', rep) ->
                    rep = false /\ chain st' = chain st /\ (ur st' = ur st /\ ar st' = ar st)).
    { intros E. inversion E; subst. repeat split. }
    destruct (candidates st now nbs) as [|p0 m0] eqn:Em.
    { left. destruct (Hkeep Hu) as (A & B & C). split; [exact A|]. split; [exact B|]. left; exact C. }
    rewrite <- Em in *. clear p0 m0 Em.
    destruct (select pref (survivors st (candidates st now nbs))) as [sel|] eqn:Es.
    2:{ left. destruct (Hkeep Hu) as (A & B & C). split; [exact A|]. split; [exact B|]. left; exact C. }
    destruct (is_different H (chain st) sel) eqn:Ed; simpl andb in Hu.
    2:{ left. destruct (Hkeep Hu) as (A & B & C). split; [exact A|]. split; [exact B|]. left; exact C. }
    destruct (Nat.eqb_spec (length sel) 0) as [Hz|Hnz]; simpl negb in Hu; cbv iota in Hu.
    { left. destruct (Hkeep Hu) as (A & B & C). split; [exact A|]. split; [exact B|]. left; exact C. }
    assert (Hne : sel <> []) by (intros E; subst sel; apply Hnz; reflexivity).
    destruct (commit_input st (is_fork st (stage1 st now nbs) nbs) sel) as [[u0 a0] news] eqn:Ec.
    destruct (commit_loop u0 a0 news true) as [[u' a'] ok] eqn:Ecl.
    destruct ok; inversion Hu; subst st' rep; clear Hu; simpl.
    - right. split; [reflexivity|].
      split; [apply select_spec in Es; destruct Es as [Ht _]; exact Ht|].
      split; [reflexivity|]. split; [exact Ed|]. split; [exact Hne|].
      exists u0, a0, news. split; [exact Ec | exact Ecl].
    - left. split; [reflexivity|]. split; [reflexivity|]. right.
      exists sel, u0, a0, news. split; [reflexivity|]. split; [exact Ed|]. split; [exact Hne|].
      split; [exact Ec | exact Ecl].
  Qed.

  (* ---- corollaries ---- *)

  Lemma update_kept_chain (st : cstate) (now : Z) (nbs : list neighbor) (pref : string) (st' : cstate) :
    update st now nbs pref = (st', false) -> chain st' = chain st.
  Proof.
    intros Hu. destruct (update_cases _ _ _ _ _ _ Hu) as [(_ & Hc & _)|(Hr & _)];
      [exact Hc | discriminate].
  Qed.

  Lemma update_replaced_survivor (st : cstate) (now : Z) (nbs : list neighbor) (pref : string)
        (st' : cstate) :
    update st now nbs pref = (st', true) ->
    exists t, In (t, chain st') (survivors st (candidates st now nbs)).
  Proof.
    intros Hu. destruct (update_cases _ _ _ _ _ _ Hu) as [(Hr & _)|(_ & Ht & _)];
      [discriminate | exact Ht].
  Qed.

  Lemma update_longest (st : cstate) (now : Z) (nbs : list neighbor) (pref : string) (st' : cstate) :
    update st now nbs pref = (st', true) ->
    length (chain st') = max_len (length (chain st)) (candidates st now nbs).
  Proof.
    intros Hu. destruct (update_replaced_survivor _ _ _ _ _ Hu) as [t Ht].
    apply survivors_spec in Ht. simpl in Ht. apply Ht.
  Qed.

  Lemma update_never_shorter (st : cstate) (now : Z) (nbs : list neighbor) (pref : string)
        (st' : cstate) :
    update st now nbs pref = (st', true) -> length (chain st) <= length (chain st').
  Proof.
    intros Hu. rewrite (update_longest _ _ _ _ _ Hu). apply max_len_ge.
  Qed.

  (* as long as every verified candidate *)
  Lemma update_longest_all (st : cstate) (now : Z) (nbs : list neighbor) (pref : string)
        (st' : cstate) :
    update st now nbs pref = (st', true) ->
    forall t c, In (t, c) (candidates st now nbs) -> length c <= length (chain st').
  Proof.
    intros Hu t c Hin. rewrite (update_longest _ _ _ _ _ Hu).
    apply (proj2 (max_len_ge (length (chain st)) (candidates st now nbs)) (t, c) Hin).
  Qed.

  Lemma update_majority_branch (st : cstate) (now : Z) (nbs : list neighbor) (pref : string)
        (st' : cstate) :
    update st now nbs pref = (st', true) ->
    (exists t, In (t, chain st') (candidates st now nbs)) /\
    length (candidates st now nbs) / 2 <=
    branch_count (length (chain st)) (candidates st now nbs) (chain st').
  Proof.
    intros Hu. destruct (update_replaced_survivor _ _ _ _ _ Hu) as [t Ht].
    apply survivors_spec in Ht. simpl in Ht. destruct Ht as (Hin & Hb & _).
    split; [exists t; exact Hin | exact Hb].
  Qed.

  Lemma update_oldest (st : cstate) (now : Z) (nbs : list neighbor) (pref : string) (st' : cstate) :
    update st now nbs pref = (st', true) ->
    (0 < age_of (chain st'))%N /\
    forall p, In p (survivors st (candidates st now nbs)) ->
              (age_of (snd p) <= age_of (chain st'))%N.
  Proof.
    intros Hu. destruct (update_cases _ _ _ _ _ _ Hu) as [(Hr & _)|(_ & _ & Hs & _)];
      [discriminate|].
    apply select_spec in Hs. destruct Hs as (_ & Hpos & Hall). split; assumption.
  Qed.

  Lemma update_verified (st : cstate) (now : Z) (nbs : list neighbor) (pref : string) (st' : cstate) :
    update st now nbs pref = (st', true) ->
    exists t, In (t, chain st') (candidates st now nbs) /\ from_neighbor st now nbs t (chain st').
  Proof.
    intros Hu. destruct (update_cases _ _ _ _ _ _ Hu) as [(Hr & _)|(_ & [t Ht] & _ & Hd & _)];
      [discriminate|].
    apply survivors_incl in Ht. exists t. split; [exact Ht|].
    destruct (candidates_verified _ _ _ _ _ Ht) as [(_ & Hc & _)|Hn]; [|exact Hn].
    rewrite Hc, is_different_refl in Hd. discriminate.
  Qed.

  Lemma update_replaced_state (st : cstate) (now : Z) (nbs : list neighbor) (pref : string)
        (st' : cstate) :
    update st now nbs pref = (st', true) ->
    exists u0 a0 news,
      commit_input st (is_fork st (stage1 st now nbs) nbs) (chain st') = (u0, a0, news) /\
      replay_from u0 a0 news = Ok (ur st', ar st').
  Proof.
    intros Hu.
    destruct (update_cases _ _ _ _ _ _ Hu) as [(Hr & _)|(_ & _ & _ & _ & _ & u0 & a0 & news & Hc & Hl)];
      [discriminate|].
    exists u0, a0, news. split; [exact Hc|]. apply commit_loop_spec. exact Hl.
  Qed.

  (* ---- the commit loop cannot fail on a verified candidate ---- *)

  Lemma last_block_snoc (l : list block) (b : block) : last_block (l ++ [b]) = Some b.
  Proof. unfold last_block. rewrite rev_app_distr. reflexivity. Qed.

  Lemma removelast_len (l : list block) : length (removelast l) = length l - 1.
  Proof. rewrite removelast_firstn_len, firstn_length. lia. Qed.

  Lemma verify_loop_replay (lh : list block) (now : Z) (l : list block) :
    forall i sh prev b0 sh',
      last_block (chain sh) = Some b0 ->
      verify_loop value_fn addr_of sig_ok H Se lh now (Datatypes.S i) sh prev l = Ok sh' ->
      replay_from (ur sh) (ar sh) (removelast (b0 :: l)) = Ok (ur sh', ar sh').
  Proof.
    induction l as [|b r IH]; intros i sh prev b0 sh' Hlast Hv; cbn [verify_loop] in Hv.
    - inversion Hv; subst sh'. reflexivity.
    - destruct (verify_step value_fn addr_of sig_ok H Se lh now (Datatypes.S i) sh prev b)
        as [sh1|e] eqn:Es; [|discriminate].
      unfold verify_step in Es. cbv zeta in Es.
      destruct (negb (hash_eqb (b_prev b) match prev with None => zero_hash | Some p => H p end));
        [discriminate|].
      match type of Es with
      | match ?x with _ => _ end = _ => destruct x as [[]|e]; [|discriminate]
      end.
      unfold add_block_raw in Es. rewrite Hlast in Es.
      destruct (apply_block (ur sh) (ar sh) b0) as [[u1 a1]|e] eqn:Ea; [|discriminate].
      inversion Es; subst sh1. clear Es.
      assert (Hl1 : last_block (chain (mkC (chain sh ++ [b]) u1 a1)) = Some b)
        by apply last_block_snoc.
      specialize (IH _ _ _ _ _ Hl1 Hv). cbn [ur ar] in IH.
      change (removelast (b0 :: b :: r)) with (b0 :: removelast (b :: r)).
      cbn [replay_from]. rewrite Ea. exact IH.
  Qed.

  Lemma verify_loop0_replay (lh : list block) (now : Z) (sh0 : cstate) (prev : option block)
        (b : block) (r : list block) (sh : cstate) :
    verify_loop value_fn addr_of sig_ok H Se lh now 0 sh0 prev (b :: r) = Ok sh ->
    replay_from (ur sh0) (ar sh0) (removelast (b :: r)) = Ok (ur sh, ar sh).
  Proof.
    intros Hv. cbn [verify_loop] in Hv.
    destruct (verify_step value_fn addr_of sig_ok H Se lh now 0 sh0 prev b) as [sh1|e] eqn:Es;
      [|discriminate].
    unfold verify_step in Es. cbv zeta in Es.
    destruct (negb (hash_eqb (b_prev b) match prev with None => zero_hash | Some p => H p end));
      [discriminate|].
    match type of Es with
    | match ?x with _ => _ end = _ => destruct x as [[]|e]; [|discriminate]
    end.
    inversion Es; subst sh1. clear Es.
    assert (Hl1 : last_block (chain (mkC (chain sh0 ++ [b]) (ur sh0) (ar sh0))) = Some b)
      by apply last_block_snoc.
    apply (verify_loop_replay lh now r _ _ _ _ _ Hl1 Hv).
  Qed.

  (* a successful [verify] has replayed every block of the answer but the last, starting from
     the host's registers (incremental request) or from empty ones (full request) *)
  Lemma verify_replay (host : cstate) (lh neigh old : list block) (now : Z) (v : list block) :
    verify host lh neigh old now = Ok v ->
    neigh <> [] /\
    exists u a,
      replay_from (match old with [] => ureg_empty | _ :: _ => ur host end)
                  (match old with [] => areg_empty | _ :: _ => ar host end)
                  (removelast neigh) = Ok (u, a).
  Proof.
    unfold Chain.verify. intros Hv.
    destruct neigh as [|b r]; [destruct old; discriminate|].
    split; [discriminate|].
    destruct old as [|o old'].
    - destruct r as [|b' r']; [discriminate|].
      cbv beta iota zeta in Hv.
      match type of Hv with
      | match ?x with _ => _ end = _ => destruct x as [sh|e] eqn:El; [|discriminate]
      end.
      apply verify_loop0_replay in El. exists (ur sh), (ar sh). exact El.
    - match type of Hv with
      | (if ?c then _ else _) = _ => destruct c; [discriminate|]
      end.
      cbv beta iota zeta in Hv.
      match type of Hv with
      | match ?x with _ => _ end = _ => destruct x as [sh|e] eqn:El; [|discriminate]
      end.
      apply verify_loop0_replay in El. exists (ur sh), (ar sh). exact El.
  Qed.

  Lemma skipn_length_app (a b : list block) : skipn (length a) (a ++ b) = b.
  Proof. induction a as [|x a IH]; simpl; [reflexivity | exact IH]. Qed.

  Lemma commit_ok_inc (st : cstate) (now : Z) (nb : neighbor) (sel : list block)
        (u0 : ureg) (a0 : areg) (news : list block) :
    inc_verified st now nb sel ->
    commit_input st false sel = (u0, a0, news) ->
    exists u a, commit_loop u0 a0 news true = (u, a, true).
  Proof.
    intros (l & v & _ & Hlen & Hv & Hc) Hci.
    pose proof (verify_returns_input _ _ _ _ _ _ Hv) as Hvl. subst v.
    destruct (verify_replay _ _ _ _ _ _ Hv) as (Hne & u & a & Hr).
    pose proof (removelast_len (chain st)) as Hol.
    destruct (removelast (chain st)) as [|o old'] eqn:Eold; [simpl in Hol; lia|].
    rewrite <- Eold in *. clear o old' Eold.
    unfold commit_input in Hci.
    destruct (Nat.ltb_spec (length (chain st)) (length sel)) as [Hlt|Hge];
      inversion Hci; subst u0 a0 news; clear Hci.
    - exists u, a. apply commit_loop_spec.
      replace (slice_blocks sel (length (chain st) - 1) (length sel - 1)) with (removelast l);
        [exact Hr|].
      unfold slice_blocks. rewrite Hc, <- Hol, skipn_length_app, removelast_firstn_len.
      f_equal. rewrite app_length. lia.
    - exists (ur st), (ar st). reflexivity.
  Qed.

  Lemma commit_ok_full (st : cstate) (now : Z) (nb : neighbor) (sel : list block) :
    full_verified st now nb sel ->
    exists u a, commit_loop ureg_empty areg_empty (removelast sel) true = (u, a, true).
  Proof.
    intros (l & v & _ & Hv & Hc).
    pose proof (verify_returns_input _ _ _ _ _ _ Hv) as Hvl. subst v sel.
    destruct (verify_replay _ _ _ _ _ _ Hv) as (_ & u & a & Hr).
    exists u, a. apply commit_loop_spec. exact Hr.
  Qed.

  Lemma In_aset_key {V} (k : string) (v : V) (m : list (string * V)) (k' : string) (v' : V) :
    In (k', v') m -> exists v'', In (k', v'') (aset k v m).
  Proof.
    induction m as [|[k0 v0] r IH]; simpl; intros Hin; [destruct Hin|].
    destruct (String.eqb_spec k k0) as [E|E].
    - destruct Hin as [Hin|Hin].
      + inversion Hin; subst. exists v. left. reflexivity.
      + exists v'. right. exact Hin.
    - destruct Hin as [Hin|Hin].
      + exists v'. left. exact Hin.
      + destruct (IH Hin) as [v'' Hv'']. exists v''. right. exact Hv''.
  Qed.

  Lemma stage1_has_host (st : cstate) (now : Z) (nbs : list neighbor) :
    2 < length (chain st) -> exists v, In (host_target, v) (stage1 st now nbs).
  Proof.
    intros Hlen. unfold Sync.stage1.
    destruct (Nat.ltb_spec 2 (length (chain st))) as [_|Hc]; [|lia].
    apply (fold_left_inv (fun m : cands => exists v, In (host_target, v) m)).
    - intros m nb _ [v Hm].
      destruct (nb_inc nb) as [e|l]; [exists v; exact Hm|].
      match goal with
      | |- exists _, In _ (match ?x with _ => _ end) => destruct x as [w|e]
      end; [|exists v; exact Hm].
      eapply In_aset_key. exact Hm.
    - exists (chain st). left. reflexivity.
  Qed.

  Lemma fork_stage1_key (st : cstate) (now : Z) (nbs : list neighbor) (t : string) (c : list block) :
    is_fork st (stage1 st now nbs) nbs = true -> In (t, c) (stage1 st now nbs) -> t = host_target.
  Proof.
    intros Hf Hin. unfold is_fork in Hf.
    apply andb_prop in Hf. destruct Hf as [Hf _]. apply andb_prop in Hf. destruct Hf as [_ Hf].
    apply Nat.ltb_lt in Hf.
    assert (Hlen : 2 < length (chain st)).
    { destruct (Nat.ltb_spec 2 (length (chain st))) as [Hl|Hl]; [exact Hl|].
      unfold Sync.stage1 in Hin. destruct (Nat.ltb_spec 2 (length (chain st))); [lia|destruct Hin]. }
    destruct (stage1_has_host st now nbs Hlen) as [v Hv].
    destruct (string_dec t host_target) as [E|E]; [exact E|]. exfalso.
    destruct (stage1 st now nbs) as [|x [|y r]]; simpl in Hf; [destruct Hin| |lia].
    destruct Hin as [Hin|[]]. destruct Hv as [Hv|[]]. subst x. inversion Hv. apply E. assumption.
  Qed.

  (* kept means kept: unless a neighbor calls itself "host", a round that does not replace the
     chain leaves the whole state (chain and both registers) as it was *)
  Theorem update_kept_state (st : cstate) (now : Z) (nbs : list neighbor) (pref : string)
          (st' : cstate) :
    (forall nb, In nb nbs -> nb_target nb <> host_target) ->
    update st now nbs pref = (st', false) -> st' = st.
  Proof.
    intros Hnames Hu.
    destruct (update_cases _ _ _ _ _ _ Hu)
      as [(_ & Hc & [[Hur Har]|(sel & u0 & a0 & news & Hs & Hd & Hne & Hci & Hcl)])|(Hr & _)];
      [destruct st, st'; simpl in *; subst; reflexivity | exfalso | discriminate].
    apply select_spec in Hs. destruct Hs as [[t Ht] _]. apply survivors_incl in Ht.
    unfold Sync.candidates in Ht.
    destruct (stage2_entries _ _ _ _ _ _ Ht) as [Hin1|[Hfk (nb & Hnb & Hnt & Hfull)]].
    - destruct (stage1_entries _ _ _ _ _ Hin1) as [(_ & Hsel & _)|(nb & Hnb & Hnt & Hinc)].
      + rewrite Hsel, is_different_refl in Hd. discriminate.
      + destruct (is_fork st (stage1 st now nbs) nbs) eqn:Hfk.
        * apply (Hnames nb Hnb). rewrite Hnt. apply (fork_stage1_key _ _ _ _ _ Hfk Hin1).
        * destruct (commit_ok_inc _ _ _ _ _ _ _ Hinc Hci) as (u & a & Hok).
          rewrite Hok in Hcl. discriminate.
    - rewrite Hfk in Hci. unfold commit_input in Hci. inversion Hci; subst u0 a0 news.
      destruct (commit_ok_full _ _ _ _ Hfull) as (u & a & Hok).
      rewrite Hok in Hcl. discriminate.
  Qed.

  Lemma update_not_different_kept (st : cstate) (now : Z) (nbs : list neighbor) (pref : string)
        (sel : list block) :
    select pref (survivors st (candidates st now nbs)) = Some sel ->
    is_different H (chain st) sel = false ->
    update st now nbs pref = (st, false).
  Proof.
    intros Hs Hd. rewrite update_unfold, Hs, Hd.
    destruct (candidates st now nbs); reflexivity.
  Qed.

  Lemma update_identical_kept (st : cstate) (now : Z) (nbs : list neighbor) (pref : string)
        (sel : list block) :
    select pref (survivors st (candidates st now nbs)) = Some sel ->
    length sel <= length (chain st) ->
    (forall a b, last_block sel = Some a -> last_block (chain st) = Some b -> H a = H b) ->
    update st now nbs pref = (st, false).
  Proof.
    intros Hs Hle Htip. apply (update_not_different_kept _ _ _ _ _ Hs).
    apply is_different_same_tip; assumption.
  Qed.

  Lemma update_none_selected_kept (st : cstate) (now : Z) (nbs : list neighbor) (pref : string) :
    select pref (survivors st (candidates st now nbs)) = None ->
    update st now nbs pref = (st, false).
  Proof.
    intros Hs. rewrite update_unfold, Hs. destruct (candidates st now nbs); reflexivity.
  Qed.

  Lemma update_no_candidates (st : cstate) (now : Z) (nbs : list neighbor) (pref : string) :
    candidates st now nbs = [] -> update st now nbs pref = (st, false).
  Proof. intros Hc. rewrite update_unfold, Hc. reflexivity. Qed.

  Lemma candidates_no_neighbors (st : cstate) (now : Z) :
    candidates st now [] = if Nat.ltb 2 (length (chain st)) then [(host_target, chain st)] else [].
  Proof.
    unfold Sync.candidates, Sync.stage2, Sync.stage1, is_fork. simpl length.
    rewrite Nat.ltb_irrefl, andb_false_r. simpl.
    destruct (Nat.ltb 2 (length (chain st))); reflexivity.
  Qed.

  Lemma update_no_neighbors (st : cstate) (now : Z) (pref : string) :
    update st now [] pref = (st, false).
  Proof.
    destruct (select pref (survivors st (candidates st now []))) as [sel|] eqn:Es;
      [|apply update_none_selected_kept; exact Es].
    apply (update_not_different_kept _ _ _ _ _ Es).
    apply select_spec in Es. destruct Es as [[t Ht] _].
    apply survivors_incl in Ht. rewrite candidates_no_neighbors in Ht.
    destruct (Nat.ltb 2 (length (chain st))); [|destruct Ht].
    destruct Ht as [Ht|[]]. inversion Ht; subst. apply is_different_refl.
  Qed.

  Lemma update_no_neighbors_short (st : cstate) (now : Z) (pref : string) :
    length (chain st) <= 2 -> candidates st now [] = [] /\ update st now [] pref = (st, false).
  Proof.
    intros Hl. split; [|apply update_no_neighbors].
    rewrite candidates_no_neighbors. destruct (Nat.ltb_spec 2 (length (chain st))); [lia|reflexivity].
  Qed.

  (* ---- the closing AddBlock of verify (blockchain.go:358-363) ---- *)

  Lemma verify_step_appends (lh : list block) (now : Z) (i : nat) (sh : cstate) (prev : option block)
        (b : block) (sh' : cstate) :
    verify_step value_fn addr_of sig_ok H Se lh now i sh prev b = Ok sh' -> chain sh' = chain sh ++ [b].
  Proof.
    unfold verify_step. cbv zeta. intros Hs.
    destruct (negb (hash_eqb (b_prev b) match prev with None => zero_hash | Some p => H p end));
      [discriminate Hs|].
    match type of Hs with
    | match ?x with _ => _ end = _ => destruct x as [[]|e]; [|discriminate Hs]
    end.
    destruct i as [|i'].
    - inversion Hs; reflexivity.
    - unfold add_block_raw in Hs. destruct (last_block (chain sh)) as [lb|].
      + destruct (apply_block (ur sh) (ar sh) lb) as [[u' a']|e]; [|discriminate Hs].
        inversion Hs; reflexivity.
      + inversion Hs; reflexivity.
  Qed.

  Lemma verify_loop_appends (lh : list block) (now : Z) : forall (l : list block) (i : nat) (sh : cstate)
        (prev : option block) (sh' : cstate),
    verify_loop value_fn addr_of sig_ok H Se lh now i sh prev l = Ok sh' -> chain sh' = chain sh ++ l.
  Proof.
    induction l as [|b r IH]; intros i sh prev sh' Hv; cbn [verify_loop] in Hv.
    - inversion Hv; subst sh'. rewrite app_nil_r. reflexivity.
    - destruct (verify_step value_fn addr_of sig_ok H Se lh now i sh prev b) as [sh1|e] eqn:Es;
        [|discriminate Hv].
      apply IH in Hv. rewrite Hv, (verify_step_appends _ _ _ _ _ _ _ Es), <- app_assoc. reflexivity.
  Qed.

  (* the block that closing AddBlock makes is dated one interval after the last answered block,
     and AddBlock refuses a block that is not dated after the tip: with an interval that is not
     positive no answer is ever accepted *)
  Lemma verify_ok_interval_pos (host : cstate) (lh neigh old : list block) (now : Z) (v : list block) :
    verify host lh neigh old now = Ok v -> (0 < s_interval Se)%Z.
  Proof.
    assert (Hend : forall (sh0 : cstate) (prev : option block) (b : block) (r : list block),
               match verify_loop value_fn addr_of sig_ok H Se lh now 0 sh0 prev (b :: r) with
               | Err e => Err e
               | Ok sh =>
                 match last_block (chain sh) with
                 | None => Ok (b :: r)
                 | Some l =>
                   match add_block H sh (b_ts l + s_interval Se)%Z None [] with
                   | Err e => Err e
                   | Ok _ => Ok (b :: r)
                   end
                 end
               end = Ok v -> (0 < s_interval Se)%Z).
    { intros sh0 prev b r Hv.
      destruct (verify_loop value_fn addr_of sig_ok H Se lh now 0 sh0 prev (b :: r)) as [sh|e] eqn:El;
        [|discriminate Hv].
      apply verify_loop_appends in El.
      destruct (last_block (chain sh)) as [l|] eqn:Hlb.
      - unfold add_block in Hv. rewrite Hlb in Hv.
        destruct (Z.leb_spec (b_ts l + s_interval Se) (b_ts l)) as [Hle|Hlt]; [discriminate Hv | lia].
      - exfalso. unfold last_block in Hlb.
        destruct (rev (chain sh)) as [|x t] eqn:Er; [|discriminate Hlb].
        assert (Ec : chain sh = []) by (rewrite <- (rev_involutive (chain sh)), Er; reflexivity).
        rewrite Ec in El. symmetry in El. apply app_eq_nil in El. destruct El as [_ El]. discriminate El. }
    unfold Chain.verify. intros Hv.
    destruct neigh as [|b r]; [destruct old; discriminate|].
    destruct old as [|o old'].
    - destruct r as [|b' r']; [discriminate|].
      cbv beta iota zeta in Hv. exact (Hend _ _ _ _ Hv).
    - match type of Hv with
      | (if ?c then _ else _) = _ => destruct c; [discriminate|]
      end.
      cbv beta iota zeta in Hv. exact (Hend _ _ _ _ Hv).
  Qed.

  (* hence, with such an interval, a sync round leaves the node as it was *)
  Lemma update_nonpos_interval_kept (st : cstate) (now : Z) (nbs : list neighbor) (pref : string) :
    (s_interval Se <= 0)%Z -> update st now nbs pref = (st, false).
  Proof.
    intros Hint.
    destruct (select pref (survivors st (candidates st now nbs))) as [sel|] eqn:Es;
      [|apply update_none_selected_kept; exact Es].
    assert (Esel : sel = chain st).
    { pose proof Es as Es'. apply select_spec in Es'. destruct Es' as [[t Ht] _].
      apply survivors_incl in Ht.
      destruct (candidates_verified _ _ _ _ _ Ht) as [(_ & Ec & _)|(nb & _ & _ & [Hi|Hf])];
        [exact Ec | exfalso | exfalso].
      - destruct Hi as (l & v & _ & _ & Hv & _). apply verify_ok_interval_pos in Hv. lia.
      - destruct Hf as (l & v & _ & Hv & _). apply verify_ok_interval_pos in Hv. lia. }
    subst sel. apply (update_identical_kept _ _ _ _ _ Es); [apply le_n|].
    intros a b Ha Hb. rewrite Ha in Hb. inversion Hb. reflexivity.
  Qed.

End SyncLemmas.

(* ------------------------------------------------------------------ *)
(* a toy instance for the examples of props/C06.v                      *)
(* ------------------------------------------------------------------ *)
Module SyncExample.
  Local Open Scope string_scope.
  Definition vf : N -> bool -> Z -> N := fun v _ _ => v.
  Definition ao : string -> string := fun k => k.
  Definition so : input -> bool := fun _ => true.
  Definition Ht : block -> hash := fun b => [Z.to_N (b_ts b)].
  Definition Sx : settings := mkSettings 10 1 100 8.
  (* a reward-only transaction *)
  Definition rw (id a : string) (ts : Z) : tx := mkTx id None (Some [mkOutput a false 0]) ts.
  Definition g : block := mkBlock zero_hash None None 0 None.
  Definition b1 : block := mkBlock (Ht g) None None 10 (Some [rw "r1" "A" 10]).
  Definition b2 : block := mkBlock (Ht b1) None None 20 (Some [rw "r2" "B" 20]).
  Definition h1 : block := mkBlock (Ht g) None None 10 (Some [rw "q1" "C" 10]).
  (* a block that does not link to b1 *)
  Definition bad2 : block := mkBlock (Ht g) None None 20 (Some [rw "r2" "B" 20]).
  (* a two-block host on its own branch, and a three-block host *)
  Definition st2 : cstate := mkC [g; h1] ureg_empty areg_empty.
  Definition st3 : cstate := mkC [g; b1; b2] ureg_empty areg_empty.
  Definition nb_good : neighbor := mkNb "n1:1" (RFail EFetch) (RBlocks [g; b1; b2]).
  Definition nb_bad : neighbor := mkNb "n2:1" (RFail EFetch) (RBlocks [g; b1; bad2]).
  Definition nb_same : neighbor := mkNb "n1:1" (RBlocks [b2]) (RFail EFetch).
End SyncExample.
