(* ConvergePrivate_lemmas.v — the case of C08 that Converge_lemmas.v leaves out: the catching-up node
   holds a PRIVATE chain P (2 < |P|, |P| < page size, |P| < |C|) that is not a prefix of the served
   chain C. One round of Blockchain.Update (blockchain.go:99-266; model/Sync.v [update]) then ends
   with a prefix of C at least one page long:
   - the node asks every neighbor from height |P| - 1 and gets the page of C from there; when P and
     C disagree somewhere below P's tip, the first answered block does not hash-link to the host's
     block below its tip and [verify] refuses the candidate (blockchain.go:332-336). Every answer
     being refused, blocksByTarget holds the host's entry only, "all neighbor blockchains are
     forks" (blockchain.go:129-131), the node asks again from height 0, the first page of C
     verifies from the empty registers and, being longer than P, is adopted as a full re-sync;
   - when P and C agree below P's tip, the answered page starts with C's block at the height of
     P's tip; the verifier checks that block against the HOST's registers (the replay of all the
     blocks below the tip: one block more than what the same block is checked against inside an
     answered page). If that check passes the candidate is adopted (tip swap and extension); if it
     fails the round is a full re-sync as above. Both outcomes are prefixes of C.
   From then on the node holds a prefix of C longer than two blocks and Converge_lemmas applies. *)
From RV Require Import model.Base model.Ledger model.Registry model.Chain model.Sync model.Pool model.Reach.
From RV Require Import proofs.Paging_lemmas proofs.Sync_lemmas proofs.Reach_lemmas proofs.Converge_lemmas.
From Coq Require Import Lia ZArith NArith.

(* ------------------------------------------------------------------ *)
(* generic list facts                                                  *)
(* ------------------------------------------------------------------ *)

Lemma fold_left_const {A B} (l : list A) (b : B) : fold_left (fun (m : B) (_ : A) => m) l b = b.
Proof. induction l as [|x r IH]; simpl; [reflexivity | exact IH]. Qed.

Lemma firstn_firstn_skipn {A} (a b : nat) : forall l : list A,
  firstn a l ++ firstn b (skipn a l) = firstn (a + b) l.
Proof.
  induction a as [|a IH]; intros l; [reflexivity|].
  destruct l as [|x r]; simpl; [rewrite firstn_nil; reflexivity|].
  f_equal. apply IH.
Qed.

Lemma firstn_cons_pred {A} (n : nat) (x : A) (l : list A) :
  1 <= n -> firstn n (x :: l) = x :: firstn (n - 1) l.
Proof.
  intros Hn. destruct n as [|k]; [lia|]. cbn [firstn]. rewrite Nat.sub_succ, Nat.sub_0_r. reflexivity.
Qed.

Lemma filter_cons_length_ge {A} (f : A -> bool) (x : A) (l : list A) :
  length (filter f l) <= length (filter f (x :: l)).
Proof. cbn [filter]. destruct (f x); cbn [length]; lia. Qed.

(* ------------------------------------------------------------------ *)
(* hash-linked chains without collisions                               *)
(* ------------------------------------------------------------------ *)

Section Linked.
  Variable H : block -> hash.

  Lemma chain_linked_app_l (X Y : list block) : chain_linked H (X ++ Y) -> chain_linked H X.
  Proof.
    destruct X as [|g X']; [intros _; exact I|]. cbn [app chain_linked].
    intros Hl. apply (linked_app H) in Hl. apply Hl.
  Qed.

  (* two linked chains of the same length that end with the same block are the same chain, when
     no block of the one has the hash of a different block of the other *)
  Lemma linked_eq_rev : forall (A B : list block) (p : block),
    length A = length B ->
    chain_linked H (A ++ [p]) -> chain_linked H (B ++ [p]) ->
    (forall a b, In a A -> In b B -> H a = H b -> a = b) ->
    A = B.
  Proof.
    intros A. induction A as [|a A' IH] using rev_ind; intros B p Hlen HlA HlB Hcf.
    - destruct B as [|b B']; [reflexivity | simpl in Hlen; discriminate].
    - assert (HB : B <> []).
      { intros E0. subst B. rewrite app_length in Hlen. simpl in Hlen. lia. }
      destruct (exists_last HB) as (B' & b & EB). subst B.
      assert (Ha : b_prev p = H a).
      { apply (chain_linked_pair H A' a p []). rewrite <- app_assoc in HlA. exact HlA. }
      assert (Hb : b_prev p = H b).
      { apply (chain_linked_pair H B' b p []). rewrite <- app_assoc in HlB. exact HlB. }
      assert (Eab : a = b).
      { apply Hcf.
        - apply in_or_app. right. left. reflexivity.
        - apply in_or_app. right. left. reflexivity.
        - rewrite <- Ha, <- Hb. reflexivity. }
      subst b. f_equal.
      apply (IH B' a).
      + rewrite !app_length in Hlen. simpl in Hlen. lia.
      + apply (chain_linked_app_l (A' ++ [a]) [p]). exact HlA.
      + apply (chain_linked_app_l (B' ++ [a]) [p]). exact HlB.
      + intros x y Hx Hy. apply Hcf; apply in_or_app; left; assumption.
  Qed.
End Linked.

Section ConvergePrivate.
  Variable value_fn : N -> bool -> Z -> N.
  Variable addr_of : string -> string.
  Variable sig_ok : input -> bool.
  Variable H : block -> hash.
  Variable Se : settings.

  Local Notation VBLOCK := (verify_block value_fn addr_of sig_ok Se).
  Local Notation VERIFY := (verify value_fn addr_of sig_ok H Se).
  Local Notation VLOOP := (verify_loop value_fn addr_of sig_ok H Se).
  Local Notation VSTEP := (verify_step value_fn addr_of sig_ok H Se).
  Local Notation UPDATE := (update value_fn addr_of sig_ok H Se).
  Local Notation STAGE1 := (stage1 value_fn addr_of sig_ok H Se).
  Local Notation STAGE2 := (stage2 value_fn addr_of sig_ok H Se).
  Local Notation CANDS := (candidates value_fn addr_of sig_ok H Se).
  Local Notation PAGEV := (page_verifiable value_fn addr_of sig_ok Se).
  Local Notation SERVABLE := (servable value_fn addr_of sig_ok H Se).
  Local Notation ROUNDS := (sync_rounds value_fn addr_of sig_ok H Se).
  Local Notation LIM := (lim Se).

  (* ---------------------------------------------------------------- *)
  (* 1. the verification loop on blocks of C, any comparison window    *)
  (* ---------------------------------------------------------------- *)

  (* vloop_tail_ok without the bound on the host's comparison window: a block of the window that
     has the hash of the answered block only makes the verifier skip verifyBlock *)
  Lemma vloop_tail_any (now : Z) (C : list block) (lh : list block) :
    chain_linked H C -> (exists u a, replay C = Ok (u, a)) -> PAGEV now C ->
    forall (l X : list block) (p : block) (T : list block) (sh : cstate) (i : nat) (a : areg),
      C = X ++ p :: l ++ T ->
      chain sh = X ++ [p] ->
      replay X = Ok (ur sh, a) -> registered a = registered (ar sh) ->
      exists (sh' : cstate) (a' : areg),
        VLOOP lh now (Datatypes.S i) sh (Some p) l = Ok sh' /\
        chain sh' = X ++ p :: l /\
        replay (removelast (X ++ p :: l)) = Ok (ur sh', a') /\
        registered a' = registered (ar sh').
  Proof.
    intros Hl Hrep Hpv.
    induction l as [|b r IH]; intros X p T sh i a E Hch Hr Ea.
    - exists sh, a. cbn [verify_loop]. split; [reflexivity|]. split; [exact Hch|].
      rewrite removelast_last. split; [exact Hr | exact Ea].
    - cbn [app] in E.
      assert (Hlink : b_prev b = H p).
      { apply (chain_linked_pair H X p b (r ++ T)). rewrite <- E. exact Hl. }
      assert (Hvb : VBLOCK sh b (b_ts p) now = Ok tt).
      { rewrite (verify_block_ext value_fn addr_of sig_ok Se sh (mkC (X ++ [p]) (ur sh) a));
          [|reflexivity|symmetry; exact Ea].
        apply (Hpv X p b (r ++ T) (ur sh) a E Hr). }
      assert (Hap : exists u1 a1 a2, replay (X ++ [p]) = Ok (u1, a1) /\
                                     apply_block (ur sh) (ar sh) p = Ok (u1, a2) /\
                                     registered a1 = registered a2).
      { apply (apply_next_ok X p (ur sh) a (ar sh) Hr Ea).
        apply (replay_prefix_ok (X ++ [p]) (b :: r ++ T)). rewrite <- app_assoc. cbn [app].
        rewrite <- E. exact Hrep. }
      destruct Hap as (u1 & a1 & a2 & Hp1 & Hap2 & E2).
      assert (Hadd : add_block_raw sh b = Ok (mkC (chain sh ++ [b]) u1 a2)).
      { unfold add_block_raw. rewrite Hch, last_block_snoc', Hap2. reflexivity. }
      assert (Es : VSTEP lh now (Datatypes.S i) sh (Some p) b = Ok (mkC (chain sh ++ [b]) u1 a2)).
      { unfold verify_step. cbv zeta. rewrite Hlink, hash_eqb_refl. cbn [negb].
        destruct (nth_error lh (Datatypes.S i)) as [hb|].
        - destruct (hash_eqb (H b) (H hb)); cbn [andb negb]; [exact Hadd | rewrite Hvb; exact Hadd].
        - cbn [andb negb]. rewrite Hvb. exact Hadd. }
      cbn [verify_loop]. rewrite Es.
      destruct (IH (X ++ [p]) b T (mkC (chain sh ++ [b]) u1 a2) (Datatypes.S i) a1)
        as (sh' & a' & Hloop & Hch' & Hr' & Ea').
      + rewrite <- app_assoc. exact E.
      + cbn [chain]. rewrite Hch. reflexivity.
      + exact Hp1.
      + exact E2.
      + exists sh', a'. split; [exact Hloop|].
        rewrite <- app_assoc in Hch', Hr'. cbn [app] in Hch', Hr'.
        split; [exact Hch'|]. split; [exact Hr' | exact Ea'].
  Qed.

  (* the full request, whatever the host's comparison window (here: all of the private chain but
     its tip) *)
  Theorem verify_full_page_any (st : cstate) (now : Z) (C lh : list block) (g b1 : block)
          (Q T : list block) :
    (0 < s_interval Se)%Z ->
    chain_linked H C -> genesis_rooted C -> (exists u a, replay C = Ok (u, a)) ->
    PAGEV now C ->
    C = g :: b1 :: Q ++ T ->
    VERIFY st lh (g :: b1 :: Q) [] now = Ok (g :: b1 :: Q).
  Proof.
    intros Hint Hl Hg Hrep Hpv E.
    rewrite verify_full_unfold.
    assert (Es : VSTEP lh now 0 (mkC [] ureg_empty areg_empty) None g
                 = Ok (mkC [g] ureg_empty areg_empty)).
    { unfold verify_step. cbv zeta. rewrite E in Hg. cbn [genesis_rooted] in Hg.
      rewrite Hg, hash_eqb_refl. cbn [negb]. rewrite andb_false_r. reflexivity. }
    cbn [verify_loop]. rewrite Es.
    destruct (vloop_tail_any now C lh Hl Hrep Hpv (b1 :: Q) [] g T
                             (mkC [g] ureg_empty areg_empty) 0 areg_empty E eq_refl eq_refl eq_refl)
      as (sh' & a' & Hloop & Hch' & Hr' & Ea').
    change (VLOOP lh now 1 (mkC [g] ureg_empty areg_empty) (Some g) (b1 :: Q) = Ok sh') in Hloop.
    cbn [verify_loop] in Hloop. cbn [verify_loop]. rewrite Hloop.
    cbn [app] in Hch', Hr'.
    destruct (@exists_last _ (g :: b1 :: Q)) as (Q' & lb & EQ); [discriminate|].
    rewrite EQ in Hch'. rewrite EQ, removelast_last in Hr'.
    apply (verify_finish_ok H Se sh' Q' lb a' (g :: b1 :: Q) Hint Hch' Hr' Ea').
    apply (replay_prefix_ok (Q' ++ [lb]) T).
    rewrite <- EQ. cbn [app]. rewrite <- E. exact Hrep.
  Qed.

  (* ---------------------------------------------------------------- *)
  (* 2. the incremental answer against a private chain                 *)
  (* ---------------------------------------------------------------- *)

  (* blockchain.go:332-336: the first answered block must point to the host's block below its tip *)
  Lemma verify_link_rejected (st : cstate) (now : Z) (old : list block) (p0 tip c : block)
        (Q : list block) :
    last_block old = Some p0 -> b_prev c <> H p0 ->
    exists e, VERIFY st [tip] (c :: Q) old now = Err e.
  Proof.
    intros Hlast Hneq.
    assert (Hne : old <> []) by (intros E0; subst old; discriminate).
    rewrite (verify_inc_unfold value_fn addr_of sig_ok H Se st tip [] c Q old now Hne).
    destruct (negb (hash_eqb (b_prev tip) (b_prev c))); [exists EFork; reflexivity|].
    assert (Es : VSTEP [tip] now 0 (mkC old (ur st) (ar st)) (last_block old) c = Err ELink).
    { rewrite Hlast. unfold verify_step. cbv beta iota zeta.
      destruct (hash_eqb (b_prev c) (H p0)) eqn:Eh; [apply hash_eqb_eq in Eh; contradiction|].
      reflexivity. }
    cbn [verify_loop]. rewrite Es. exists ELink. reflexivity.
  Qed.

  (* the host's chain is old ++ [tip], C = old ++ c :: Q ++ T, and the two tips point to the same
     block: the answered page c :: Q is accepted exactly when c has the hash of the host's tip or
     passes verifyBlock against the host's registers (the replay of [old]) *)
  Lemma verify_swap_page (st : cstate) (now : Z) (C old : list block) (p0 tip c : block)
        (Q T : list block) (a : areg) :
    (0 < s_interval Se)%Z ->
    chain_linked H C -> (exists u a, replay C = Ok (u, a)) -> PAGEV now C ->
    C = old ++ c :: Q ++ T -> last_block old = Some p0 ->
    replay old = Ok (ur st, a) -> registered a = registered (ar st) ->
    b_prev tip = b_prev c ->
    VERIFY st [tip] (c :: Q) old now =
    if hash_eqb (H c) (H tip) then Ok (c :: Q)
    else match VBLOCK (mkC old (ur st) (ar st)) c (b_ts p0) now with
         | Ok _ => Ok (c :: Q)
         | Err e => Err e
         end.
  Proof.
    intros Hint Hl Hrep Hpv E Hlast Hr Ea Htip.
    assert (Hne : old <> []) by (intros E0; subst old; discriminate).
    rewrite (verify_inc_unfold value_fn addr_of sig_ok H Se st tip [] c Q old now Hne).
    rewrite Htip, hash_eqb_refl. cbn [negb].
    assert (Hlink : b_prev c = H p0).
    { apply (chain_linked_pair H (removelast old) p0 c (Q ++ T)).
      rewrite (last_block_some old p0 Hlast), <- app_assoc in E. cbn [app] in E.
      rewrite <- E. exact Hl. }
    set (sh1 := mkC (old ++ [c]) (ur st) (ar st)).
    assert (Es : VSTEP [tip] now 0 (mkC old (ur st) (ar st)) (last_block old) c =
                 if hash_eqb (H c) (H tip) then Ok sh1
                 else match VBLOCK (mkC old (ur st) (ar st)) c (b_ts p0) now with
                      | Ok _ => Ok sh1
                      | Err e => Err e
                      end).
    { rewrite Hlast. unfold verify_step. cbv zeta. rewrite Hlink, hash_eqb_refl.
      cbn [negb nth_error]. destruct (hash_eqb (H c) (H tip)); cbn [negb andb]; [reflexivity|].
      destruct (VBLOCK (mkC old (ur st) (ar st)) c (b_ts p0) now) as [[]|e]; reflexivity. }
    assert (Htail : match VLOOP [tip] now 1 sh1 (Some c) Q with
                    | Err e => Err e
                    | Ok sh =>
                      match last_block (chain sh) with
                      | None => Ok (c :: Q)
                      | Some l => match add_block H sh (b_ts l + s_interval Se)%Z None [] with
                                  | Err e => Err e
                                  | Ok _ => @Ok err _ (c :: Q)
                                  end
                      end
                    end = Ok (c :: Q)).
    { destruct (vloop_tail_any now C [tip] Hl Hrep Hpv Q old c T sh1 0 a E eq_refl Hr Ea)
        as (sh' & a' & Hloop & Hch' & Hr' & Ea').
      rewrite Hloop.
      destruct (@exists_last _ (c :: Q)) as (Q' & lb & EQ); [discriminate|].
      rewrite EQ, app_assoc in Hch'. rewrite EQ, app_assoc, removelast_last in Hr'.
      apply (verify_finish_ok H Se sh' (old ++ Q') lb a' (c :: Q) Hint Hch' Hr' Ea').
      apply (replay_prefix_ok ((old ++ Q') ++ [lb]) T).
      rewrite <- (app_assoc old Q' [lb]), <- EQ, <- app_assoc. cbn [app]. rewrite <- E. exact Hrep. }
    cbn [verify_loop]. rewrite Es.
    destruct (hash_eqb (H c) (H tip)); [exact Htail|].
    destruct (VBLOCK (mkC old (ur st) (ar st)) c (b_ts p0) now) as [[]|e]; [exact Htail | reflexivity].
  Qed.

  (* ---------------------------------------------------------------- *)
  (* 3. the candidates of the round                                    *)
  (* ---------------------------------------------------------------- *)

  (* every incremental answer refused: the host's own entry is the only one *)
  Lemma stage1_all_rejected (st : cstate) (now : Z) (nbs : list neighbor) (old : list block)
        (tip : block) :
    chain st = old ++ [tip] -> 2 < length (chain st) ->
    (forall nb, In nb nbs -> exists page e, nb_inc nb = RBlocks page /\
                                            VERIFY st [tip] page old now = Err e) ->
    STAGE1 st now nbs = [(host_target, old ++ [tip])].
  Proof.
    intros Hch Hlen Hnbs. unfold stage1.
    destruct (Nat.ltb_spec 2 (length (chain st))) as [_|Hc]; [|lia].
    rewrite Hch, removelast_last, last_block_snoc'.
    rewrite (fold_left_ext_in _ (fun (m : cands) (_ : neighbor) => m)).
    - apply fold_left_const.
    - intros m nb Hin. destruct (Hnbs nb Hin) as (page & e & Hinc & Hv). rewrite Hinc, Hv. reflexivity.
  Qed.

  (* every neighbor answers the same page, and it verifies *)
  Lemma stage1_all_accepted (st : cstate) (now : Z) (nbs : list neighbor) (old : list block)
        (tip : block) (page : list block) :
    chain st = old ++ [tip] -> 2 < length (chain st) ->
    (forall nb, In nb nbs -> nb_target nb <> host_target /\ nb_inc nb = RBlocks page) ->
    VERIFY st [tip] page old now = Ok page ->
    nbs <> [] ->
    exists rest,
      STAGE1 st now nbs = (host_target, old ++ [tip]) :: rest /\ rest <> [] /\
      Forall (fun p => snd p = old ++ page) rest.
  Proof.
    intros Hch Hlen Hnbs Hv Hne. unfold stage1.
    destruct (Nat.ltb_spec 2 (length (chain st))) as [_|Hc]; [|lia].
    rewrite Hch, removelast_last, last_block_snoc'.
    rewrite (fold_left_ext_in _ (fun (m : cands) nb => aset (nb_target nb) (old ++ page) m)).
    - destruct (aset_fold_host (old ++ page) (old ++ [tip]) nbs []) as (rest & Hf & Hall & Hn).
      + intros nb Hin. apply (Hnbs nb Hin).
      + constructor.
      + exists rest. split; [exact Hf|]. split; [apply Hn; left; exact Hne | exact Hall].
    - intros m nb Hin. destruct (Hnbs nb Hin) as [_ Hinc]. rewrite Hinc, Hv. reflexivity.
  Qed.

  (* blockchain.go:129-148: only the host's entry, so every neighbor is asked from height 0 *)
  Lemma stage2_refetch (st : cstate) (now : Z) (nbs : list neighbor) (P F : list block) :
    chain st = P -> P <> [] -> nbs <> [] ->
    (forall nb, In nb nbs -> nb_target nb <> host_target /\ nb_full nb = RBlocks F) ->
    VERIFY st (removelast P) F [] now = Ok F ->
    is_fork st [(host_target, P)] nbs = true /\
    exists rest,
      STAGE2 st now nbs [(host_target, P)] = (host_target, P) :: rest /\ rest <> [] /\
      Forall (fun p => snd p = F) rest.
  Proof.
    intros Hch HP Hne Hnbs Hv.
    assert (Hfk : is_fork st [(host_target, P)] nbs = true).
    { unfold is_fork. rewrite Hch. destruct P as [|b0 P']; [contradiction|].
      destruct nbs as [|nb0 nbs']; [contradiction|]. reflexivity. }
    split; [exact Hfk|]. unfold stage2. rewrite Hfk, Hch.
    rewrite (fold_left_ext_in _ (fun (m : cands) nb => aset (nb_target nb) F m)).
    - destruct (aset_fold_host F P nbs []) as (rest & Hf & Hall & Hn).
      + intros nb Hin. apply (Hnbs nb Hin).
      + constructor.
      + exists rest. split; [exact Hf|]. split; [apply Hn; left; exact Hne | exact Hall].
    - intros m nb Hin. destruct (Hnbs nb Hin) as [_ Hfull]. rewrite Hfull, Hv. reflexivity.
  Qed.

  (* the filters when every neighbor's candidate is the same chain V, longer than the host's:
     the host's entry does not survive blockchain.go:181-190, the others all do *)
  Lemma survivors_longer (st : cstate) (P V : list block) (rest : cands) :
    chain st = P -> length P < length V -> rest <> [] ->
    Forall (fun p => snd p = V) rest ->
    survivors st ((host_target, P) :: rest) <> [] /\
    forall p, In p (survivors st ((host_target, P) :: rest)) -> snd p = V.
  Proof.
    intros Hch Hlt Hne Hall. rewrite Forall_forall in Hall.
    destruct rest as [|q0 rest']; [contradiction|].
    set (tl := q0 :: rest') in *.
    assert (Hq0 : In q0 tl) by (left; reflexivity).
    assert (Htl : 1 <= length tl) by (unfold tl; cbn [length]; lia).
    set (m := (host_target, P) :: tl).
    assert (Hmax : max_len (length P) m = length V).
    { destruct (max_len_ge (length P) m) as [Hge Hle].
      pose proof (Hle q0 (or_intror Hq0)) as Hq. rewrite (Hall q0 Hq0) in Hq.
      destruct (max_len_attained (length P) m) as [Hm|(p & Hp & Hm)]; [lia|].
      destruct Hp as [Hp|Hp]; [subst p; cbn [snd] in Hm; lia|].
      rewrite (Hall p Hp) in Hm. symmetry. exact Hm. }
    split.
    - assert (Hin : In q0 (survivors st m)).
      { apply survivors_spec. rewrite Hch. split; [right; exact Hq0|].
        split; [|rewrite (Hall q0 Hq0); symmetry; exact Hmax].
        unfold branch_count.
        set (f := fun q : string * list block =>
                    hash_eqb (prev_at (snd q0) (min_len (length P) m - 1))
                             (prev_at (snd q) (min_len (length P) m - 1))).
        assert (Hf : forall q, In q tl -> f q = true).
        { intros q Hq. unfold f. rewrite (Hall q0 Hq0), (Hall q Hq). apply hash_eqb_refl. }
        pose proof (filter_cons_length_ge f (host_target, P) tl) as Hge.
        rewrite (filter_all_true f tl Hf) in Hge. fold m in Hge.
        assert (Hlm : length m = Datatypes.S (length tl)) by reflexivity.
        apply Nat.div_le_upper_bound; lia. }
      intros E0. rewrite E0 in Hin. destruct Hin.
    - intros p Hp. apply survivors_spec in Hp. rewrite Hch in Hp. destruct Hp as (Hin & _ & Hlen).
      destruct Hin as [Hin|Hin]; [|apply Hall; exact Hin].
      subst p. cbn [snd] in Hlen. fold m in Hlen. lia.
  Qed.

  (* ---------------------------------------------------------------- *)
  (* 4. the two rounds                                                 *)
  (* ---------------------------------------------------------------- *)

  (* every incremental answer refused: full re-sync with the first page of C *)
  Lemma round_refetch (st : cstate) (now : Z) (nbs : list neighbor) (pref : string)
        (C old : list block) (tip : block) :
    (0 < s_interval Se)%Z -> SERVABLE now C ->
    chain st = old ++ [tip] -> 2 < length (chain st) ->
    length (chain st) < LIM -> length (chain st) < length C ->
    (N.of_nat (length C) + s_limit Se <= two64)%N ->
    nbs <> [] -> (forall nb, In nb nbs -> serves_full Se C nb) ->
    STAGE1 st now nbs = [(host_target, old ++ [tip])] ->
    exists st',
      UPDATE st now nbs pref = (st', true) /\
      chain st' = firstn LIM C /\
      replay (removelast (chain st')) = Ok (ur st', ar st').
  Proof.
    intros Hint (Hl & Hg & Hrep & Hpv & Hrw & Hts) Hch Hlen HlenL HlenC Hfit Hne Hnbs Hs1.
    destruct C as [|g [|b1 C2]]; [simpl in HlenC; lia | simpl in HlenC; lia |].
    set (C := g :: b1 :: C2) in *.
    set (Q := firstn (LIM - 2) C2). set (T := skipn (LIM - 2) C2).
    assert (EC : C = g :: b1 :: Q ++ T) by (unfold C, Q, T; rewrite firstn_skipn; reflexivity).
    assert (EF : firstn LIM C = g :: b1 :: Q).
    { unfold C, Q. destruct LIM as [|[|k]]; [lia | lia |]. cbn [firstn].
      replace (Datatypes.S (Datatypes.S k) - 2) with k by lia. reflexivity. }
    assert (HlenF : length (chain st) < length (firstn LIM C)) by (rewrite firstn_length; lia).
    assert (Hcommit : exists u' a', replay (removelast (firstn LIM C)) = Ok (u', a')).
    { assert (HF : firstn LIM C <> []) by (intros E0; rewrite E0 in HlenF; simpl in HlenF; lia).
      apply (replay_prefix_ok (removelast (firstn LIM C))
                              ([last (firstn LIM C) (mkBlock [] None None 0 None)] ++ skipn LIM C)).
      rewrite app_assoc, <- (app_removelast_last _ HF). rewrite firstn_skipn. exact Hrep. }
    assert (HrwF : rewarded (firstn LIM C)).
    { apply (rewarded_app_l (firstn LIM C) (skipn LIM C)). rewrite firstn_skipn. exact Hrw. }
    revert HlenF Hcommit HrwF. rewrite EF. set (F := g :: b1 :: Q). intros HlenF Hcommit HrwF.
    assert (Hpage : blocks_page Se C 0 = Ok F).
    { rewrite (blocks_page_spec Se C 0 Hfit). fold LIM. change (N.to_nat 0) with 0.
      cbn [skipn]. rewrite EF. reflexivity. }
    pose proof (verify_full_page_any st now C (removelast (chain st)) g b1 Q T Hint Hl Hg Hrep Hpv EC) as Hv.
    fold F in Hv.
    assert (Hfull : forall nb, In nb nbs -> nb_target nb <> host_target /\ nb_full nb = RBlocks F).
    { intros nb Hin. destruct (Hnbs nb Hin) as (Hname & page & Hp & Hf). split; [exact Hname|].
      rewrite Hpage in Hp. inversion Hp; subst page. exact Hf. }
    assert (HP : chain st <> []) by (rewrite Hch; intros E0; destruct old; discriminate).
    destruct (stage2_refetch st now nbs (chain st) F eq_refl HP Hne Hfull Hv)
      as (Hfk & rest & Hs2 & Hrne & Hall).
    assert (Hc : CANDS st now nbs = (host_target, chain st) :: rest).
    { unfold candidates. rewrite Hs1, <- Hch. exact Hs2. }
    destruct (survivors_longer st (chain st) F rest eq_refl HlenF Hrne Hall) as [Hsne Hsall].
    assert (Hsel : select pref (survivors st ((host_target, chain st) :: rest)) = Some F).
    { apply (select_unique addr_of pref _ F Hsne Hsall).
      apply (age_of_pos value_fn addr_of H); [unfold F; simpl; lia | exact HrwF]. }
    destruct Hcommit as (u' & a' & Hcl). pose proof Hcl as Hcl'.
    unfold replay in Hcl'. apply commit_loop_spec in Hcl'.
    exists (mkC F u' a'). split; [|split; [reflexivity | exact Hcl]].
    rewrite update_unfold, Hc, Hsel, Hs1, <- Hch, Hfk. unfold is_different, commit_input.
    destruct (Nat.ltb_spec (length (chain st)) (length F)) as [_|Hc']; [|lia].
    destruct (Nat.eqb_spec (length F) 0) as [Hz|_]; [lia|].
    cbn [andb negb]. rewrite Hcl'. reflexivity.
  Qed.

  (* the incremental answer accepted although the host's tip is not C's block at that height:
     the tip is swapped and the chain extended, from the host's registers *)
  Lemma round_swap (st : cstate) (now : Z) (nbs : list neighbor) (pref : string)
        (C old : list block) (tip c : block) (R : list block) (a : areg) :
    SERVABLE now C -> C = old ++ c :: R -> R <> [] ->
    chain st = old ++ [tip] -> 2 < length (chain st) ->
    replay old = Ok (ur st, a) -> registered a = registered (ar st) ->
    (3 <= s_limit Se)%N -> (N.of_nat (length C) + s_limit Se <= two64)%N ->
    nbs <> [] -> (forall nb, In nb nbs -> serves_inc Se C st nb) ->
    VERIFY st [tip] (c :: firstn (LIM - 1) R) old now = Ok (c :: firstn (LIM - 1) R) ->
    exists st',
      UPDATE st now nbs pref = (st', true) /\
      chain st' = old ++ c :: firstn (LIM - 1) R.
  Proof.
    intros (Hl & Hg & Hrep & Hpv & Hrw & Hts) E HR Hch Hlen Hr Ea Hlim3 Hfit Hne Hnbs Hv.
    assert (Hlim : 3 <= LIM) by (unfold lim; lia).
    set (Q := firstn (LIM - 1) R) in *.
    assert (ER : R = Q ++ skipn (LIM - 1) R) by (symmetry; apply firstn_skipn).
    assert (HQ : 0 < length Q).
    { unfold Q. destruct R as [|r0 R']; [contradiction|].
      destruct (LIM - 1) as [|k] eqn:Ek; [lia|]. cbn [firstn length]. lia. }
    assert (Hpage : forall nb, In nb nbs ->
                               nb_target nb <> host_target /\ nb_inc nb = RBlocks (c :: Q)).
    { intros nb Hin. destruct (Hnbs nb Hin) as (Hname & page & Hp & Hinc). split; [exact Hname|].
      rewrite Hch, app_length in Hp. cbn [length] in Hp.
      replace (length old + 1 - 1) with (length old) in Hp by lia.
      rewrite (honest_page H Se C old c R Hfit ltac:(lia) E) in Hp. inversion Hp; subst page. exact Hinc. }
    destruct (stage1_all_accepted st now nbs old tip (c :: Q) Hch Hlen Hpage Hv Hne)
      as (rest & Hs1 & Hrne & Hall).
    assert (Hl2 : 2 <= length (STAGE1 st now nbs)).
    { rewrite Hs1. destruct rest; [contradiction | simpl; lia]. }
    assert (Hc : CANDS st now nbs = (host_target, old ++ [tip]) :: rest).
    { rewrite (candidates_no_fork value_fn addr_of sig_ok H Se st now nbs Hl2). exact Hs1. }
    assert (Hfk : is_fork st (STAGE1 st now nbs) nbs = false).
    { unfold is_fork. destruct (Nat.ltb_spec (length (STAGE1 st now nbs)) 2) as [Hc'|_]; [lia|].
      rewrite andb_false_r. reflexivity. }
    set (sel := old ++ c :: Q) in *.
    assert (Hlsel : length sel = length old + Datatypes.S (length Q)).
    { unfold sel. rewrite app_length. reflexivity. }
    assert (HlP : length (old ++ [tip]) = length old + 1) by (rewrite app_length; reflexivity).
    assert (Hlt : length (old ++ [tip]) < length sel) by lia.
    destruct (survivors_longer st (old ++ [tip]) sel rest Hch Hlt Hrne Hall) as [Hsne Hsall].
    assert (Hpre : exists u a, replay sel = Ok (u, a)).
    { apply (replay_prefix_ok sel (skipn (LIM - 1) R)).
      unfold sel. rewrite <- app_assoc. cbn [app]. rewrite <- ER, <- E. exact Hrep. }
    assert (Hsel : select pref (survivors st ((host_target, old ++ [tip]) :: rest)) = Some sel).
    { apply (select_unique addr_of pref _ sel Hsne Hsall).
      apply (age_of_pos value_fn addr_of H); [lia|].
      apply (rewarded_app_l sel (skipn (LIM - 1) R)).
      unfold sel. rewrite <- app_assoc. cbn [app]. rewrite <- ER, <- E. exact Hrw. }
    assert (Hnews : slice_blocks sel (length (old ++ [tip]) - 1) (length sel - 1)
                    = removelast (c :: Q)).
    { rewrite Hlsel, HlP. unfold slice_blocks, sel.
      replace (length old + 1 - 1) with (length old) by lia.
      rewrite skipn_length_app, removelast_firstn_len. cbn [length]. f_equal. lia. }
    assert (Hcommit : exists u' a', replay_from (ur st) (ar st) (removelast (c :: Q)) = Ok (u', a')).
    { destruct Hpre as (u2 & a2 & Hp2). unfold sel in Hp2.
      destruct (replay_app_inv _ _ _ _ Hp2) as (u1 & a1 & Hx & Hy).
      rewrite Hr in Hx. inversion Hx; subst u1 a1.
      rewrite (app_removelast_last c (l := c :: Q)) in Hy by discriminate.
      destruct (replay_from_prefix_ok _ _ _ _ _ _ Hy) as (u' & a' & Hy').
      destruct (replay_from_reg_irrel _ _ _ _ _ _ Ea Hy') as (a'' & Hy'' & _).
      exists u', a''. exact Hy''. }
    destruct Hcommit as (u' & a' & Hcl). apply commit_loop_spec in Hcl.
    exists (mkC sel u' a'). split; [|reflexivity].
    rewrite update_unfold, Hc, Hsel, Hfk.
    unfold is_different, commit_input. rewrite Hch.
    destruct (Nat.ltb_spec (length (old ++ [tip])) (length sel)) as [_|Hc']; [|lia].
    destruct (Nat.eqb_spec (length sel) 0) as [Hz|_]; [lia|].
    cbn [andb negb]. rewrite Hnews, Hcl. reflexivity.
  Qed.

  (* ---------------------------------------------------------------- *)
  (* 5. one round from a private chain                                 *)
  (* ---------------------------------------------------------------- *)

  (* no block of the private chain has the hash of a different block of C *)
  Definition no_collision (P C : list block) : Prop :=
    forall a b, In a P -> In b C -> H a = H b -> a = b.

  (* the test the verifier applies to C's block [c] at the height of the host's tip when the two
     chains agree below that height (blockchain.go:337-352 at i = 0): same hash as the host's tip,
     or verifyBlock against the host's registers *)
  Definition swap_accepted (st : cstate) (now : Z) (C : list block) : bool :=
    match last_block (chain st), nth_error C (length (chain st) - 1),
          last_block (removelast (chain st)) with
    | Some tip, Some c, Some p0 =>
      hash_eqb (H c) (H tip) ||
      match VBLOCK (mkC (removelast (chain st)) (ur st) (ar st)) c (b_ts p0) now with
      | Ok _ => true
      | Err _ => false
      end
    | _, _, _ => false
    end.

  Theorem round_private_adopts (st : cstate) (now : Z) (nbs : list neighbor) (pref : string)
          (C P : list block) :
    (0 < s_interval Se)%Z ->
    SERVABLE now C -> chain st = P -> denotes P (ur st) (ar st) ->
    2 < length P -> length P < LIM -> length P < length C ->
    chain_linked H P -> no_collision P C ->
    (3 <= s_limit Se)%N -> (N.of_nat (length C) + s_limit Se <= two64)%N ->
    nbs <> [] -> (forall nb, In nb nbs -> serves Se C st nb) ->
    exists st',
      UPDATE st now nbs pref = (st', true) /\
      denotes (chain st') (ur st') (ar st') /\
      ((removelast P <> firstn (length P - 1) C /\ chain st' = firstn LIM C) \/
       (removelast P = firstn (length P - 1) C /\
        chain st' = if swap_accepted st now C
                    then firstn (length P - 1) C ++ firstn LIM (skipn (length P - 1) C)
                    else firstn LIM C)).
  Proof.
    intros Hint Hserv Hch Hden Hlen2 HlenL HlenC HlinkP Hcf Hlim3 Hfit Hne Hnbs.
    assert (Hlim : 3 <= LIM) by (unfold lim; lia).
    pose proof Hserv as (Hl & Hg & Hrep & Hpv & Hrw & Hts).
    assert (HP : P <> []) by (intros E0; rewrite E0 in Hlen2; simpl in Hlen2; lia).
    destruct (exists_last HP) as (old & tip & EP).
    assert (Hlold : length old = length P - 1) by (rewrite EP, app_length; simpl; lia).
    assert (Hold : old <> []) by (intros E0; rewrite E0 in Hlold; simpl in Hlold; lia).
    destruct (exists_last Hold) as (old0 & p0 & Eold).
    assert (Hlo : last_block old = Some p0) by (rewrite Eold; apply last_block_snoc').
    destruct (nth_error C (length P - 1)) as [c|] eqn:Ec; [|apply nth_error_None in Ec; lia].
    destruct (nth_error_split C (length P - 1) Ec) as (X & R & EC & HlenX).
    assert (HX : X <> []) by (intros E0; rewrite E0 in HlenX; simpl in HlenX; lia).
    destruct (exists_last HX) as (X0 & x0 & EX).
    assert (HR : R <> []).
    { intros E0. rewrite EC, E0, app_length in HlenC. simpl in HlenC. lia. }
    assert (EfX : firstn (length P - 1) C = X).
    { rewrite EC, <- HlenX. rewrite firstn_app_le by lia. apply firstn_all. }
    assert (EsX : skipn (length P - 1) C = c :: R).
    { rewrite EC, <- HlenX. apply skipn_length_app. }
    assert (Hf1 : firstn LIM (c :: R) = c :: firstn (LIM - 1) R) by (apply firstn_cons_pred; lia).
    set (page := c :: firstn (LIM - 1) R) in *.
    assert (Hchst : chain st = old ++ [tip]) by (rewrite Hch; exact EP).
    assert (Hlenst : 2 < length (chain st)) by (rewrite Hch; exact Hlen2).
    assert (Hnames : forall nb, In nb nbs -> nb_target nb <> host_target).
    { intros nb Hin. apply (Hnbs nb Hin). }
    assert (Hdenst : denotes (chain st) (ur st) (ar st)) by (rewrite Hch; exact Hden).
    destruct Hden as (a & Hr & Ea). rewrite EP, removelast_last in Hr.
    assert (Hpage : forall nb, In nb nbs -> nb_inc nb = RBlocks page).
    { intros nb Hin. destruct (Hnbs nb Hin) as [(_ & pg & Hp & Hinc) _].
      rewrite Hch, <- HlenX in Hp.
      rewrite (honest_page H Se C X c R Hfit ltac:(lia) EC) in Hp. inversion Hp; subst pg. exact Hinc. }
    (* every answer refused: the first page of C *)
    assert (HA : (exists e, VERIFY st [tip] page old now = Err e) ->
                 exists st', UPDATE st now nbs pref = (st', true) /\
                             denotes (chain st') (ur st') (ar st') /\
                             chain st' = firstn LIM C).
    { intros [e Hv].
      assert (Hs1 : STAGE1 st now nbs = [(host_target, old ++ [tip])]).
      { apply (stage1_all_rejected st now nbs old tip Hchst Hlenst).
        intros nb Hin. exists page, e. split; [apply (Hpage nb Hin) | exact Hv]. }
      destruct (round_refetch st now nbs pref C old tip Hint Hserv Hchst Hlenst
                              ltac:(rewrite Hch; exact HlenL) ltac:(rewrite Hch; exact HlenC) Hfit Hne
                              ltac:(intros nb Hin; apply (Hnbs nb Hin)) Hs1)
        as (st' & Hu & Hc & Hr').
      exists st'. split; [exact Hu|]. split; [|exact Hc].
      exists (ar st'). split; [exact Hr' | reflexivity]. }
    (* the answer accepted: tip swap and extension *)
    assert (HB : VERIFY st [tip] page old now = Ok page -> old = X ->
                 exists st', UPDATE st now nbs pref = (st', true) /\
                             denotes (chain st') (ur st') (ar st') /\
                             chain st' = X ++ page).
    { intros Hv EoX. rewrite <- EoX in EC.
      destruct (round_swap st now nbs pref C old tip c R a Hserv EC HR Hchst Hlenst Hr Ea Hlim3 Hfit Hne
                           ltac:(intros nb Hin; apply (Hnbs nb Hin)) Hv)
        as (st' & Hu & Hc).
      exists st'. split; [exact Hu|]. split; [|rewrite <- EoX; exact Hc].
      apply (update_denotes value_fn addr_of sig_ok H Se st now nbs pref st' true Hnames Hdenst Hu). }
    assert (Hx0 : b_prev c = H x0).
    { apply (chain_linked_pair H X0 x0 c R). rewrite EC, EX, <- app_assoc in Hl. exact Hl. }
    destruct (hash_eqb (b_prev c) (H p0)) eqn:Elink.
    - (* the first answered block points to the host's block below its tip: same blocks below *)
      apply hash_eqb_eq in Elink.
      assert (Ep : p0 = x0).
      { apply Hcf.
        - rewrite EP, Eold. apply in_or_app. left. apply in_or_app. right. left. reflexivity.
        - rewrite EC, EX. apply in_or_app. left. apply in_or_app. right. left. reflexivity.
        - rewrite <- Elink, <- Hx0. reflexivity. }
      subst x0.
      assert (E0 : old0 = X0).
      { apply (linked_eq_rev H old0 X0 p0).
        - rewrite Eold, EX, !app_length in *. simpl in *. lia.
        - apply (chain_linked_app_l H (old0 ++ [p0]) [tip]). rewrite <- Eold, <- EP. exact HlinkP.
        - apply (chain_linked_app_l H (X0 ++ [p0]) (c :: R)). rewrite <- EX, <- EC. exact Hl.
        - intros x y Hx Hy. apply Hcf.
          + rewrite EP, Eold. apply in_or_app. left. apply in_or_app. left. exact Hx.
          + rewrite EC, EX. apply in_or_app. left. apply in_or_app. left. exact Hy. }
      assert (EoX : old = X) by (rewrite Eold, EX, E0; reflexivity).
      assert (Htip : b_prev tip = b_prev c).
      { rewrite Elink. apply (chain_linked_pair H old0 p0 tip []).
        rewrite EP, Eold, <- app_assoc in HlinkP. exact HlinkP. }
      assert (ECo : C = old ++ c :: firstn (LIM - 1) R ++ skipn (LIM - 1) R).
      { rewrite firstn_skipn, EoX. exact EC. }
      pose proof (verify_swap_page st now C old p0 tip c (firstn (LIM - 1) R) (skipn (LIM - 1) R) a
                                   Hint Hl Hrep Hpv ECo Hlo Hr Ea Htip) as Hveq.
      fold page in Hveq.
      assert (Hsa : swap_accepted st now C =
                    hash_eqb (H c) (H tip) ||
                    match VBLOCK (mkC old (ur st) (ar st)) c (b_ts p0) now with
                    | Ok _ => true
                    | Err _ => false
                    end).
      { unfold swap_accepted. rewrite Hch, Ec, EP, last_block_snoc', removelast_last, Hlo. reflexivity. }
      assert (Hgoal : exists st', UPDATE st now nbs pref = (st', true) /\
                                  denotes (chain st') (ur st') (ar st') /\
                                  chain st' = if swap_accepted st now C then X ++ page else firstn LIM C).
      { revert Hsa Hveq.
        destruct (hash_eqb (H c) (H tip));
          [|destruct (VBLOCK (mkC old (ur st) (ar st)) c (b_ts p0) now) as [[]|e]];
          cbn [orb]; intros Hsa Hveq; rewrite Hsa.
        - apply (HB Hveq EoX).
        - apply (HB Hveq EoX).
        - apply HA. exists e. exact Hveq. }
      destruct Hgoal as (st' & Hu & Hd & Hc).
      exists st'. split; [exact Hu|]. split; [exact Hd|]. right. split.
      + rewrite EfX, EP, removelast_last. exact EoX.
      + rewrite EfX, EsX, Hf1. exact Hc.
    - (* it does not: refused, full re-sync *)
      assert (Hrej : exists e, VERIFY st [tip] page old now = Err e).
      { apply (verify_link_rejected st now old p0 tip c (firstn (LIM - 1) R) Hlo).
        intros E0. rewrite E0, hash_eqb_refl in Elink. discriminate. }
      destruct (HA Hrej) as (st' & Hu & Hd & Hc).
      exists st'. split; [exact Hu|]. split; [exact Hd|]. left. split; [|exact Hc].
      intros Eq. rewrite EfX, EP, removelast_last in Eq.
      rewrite Eold, EX in Eq. apply app_inj_tail in Eq. destruct Eq as [_ Eq]. subst x0.
      rewrite Hx0, hash_eqb_refl in Elink. discriminate.
  Qed.

  (* what the rounds after the first need: a prefix of C at least one page long (or all of C) *)
  Corollary round_private_prefix (st : cstate) (now : Z) (nbs : list neighbor) (pref : string)
            (C : list block) :
    (0 < s_interval Se)%Z ->
    SERVABLE now C -> denotes (chain st) (ur st) (ar st) ->
    2 < length (chain st) -> length (chain st) < LIM -> length (chain st) < length C ->
    chain_linked H (chain st) -> no_collision (chain st) C ->
    (3 <= s_limit Se)%N -> (N.of_nat (length C) + s_limit Se <= two64)%N ->
    nbs <> [] -> (forall nb, In nb nbs -> serves Se C st nb) ->
    exists st' k,
      UPDATE st now nbs pref = (st', true) /\
      denotes (chain st') (ur st') (ar st') /\
      chain st' = firstn k C /\ LIM <= k.
  Proof.
    intros Hint Hserv Hden Hlen2 HlenL HlenC Hlink Hcf Hlim3 Hfit Hne Hnbs.
    destruct (round_private_adopts st now nbs pref C (chain st) Hint Hserv eq_refl Hden Hlen2 HlenL HlenC
                                   Hlink Hcf Hlim3 Hfit Hne Hnbs)
      as (st' & Hu & Hd & [[_ Hc]|[_ Hc]]).
    - exists st', LIM. split; [exact Hu|]. split; [exact Hd|]. split; [exact Hc | lia].
    - destruct (swap_accepted st now C).
      + exists st', (length (chain st) - 1 + LIM). split; [exact Hu|]. split; [exact Hd|].
        split; [|lia]. rewrite Hc. apply firstn_firstn_skipn.
      + exists st', LIM. split; [exact Hu|]. split; [exact Hd|]. split; [exact Hc | lia].
  Qed.

  (* ---------------------------------------------------------------- *)
  (* 6. several rounds                                                 *)
  (* ---------------------------------------------------------------- *)

  (* the bound of the property holds: the first round already brings a page of C (at least
     min (page size, |C|) blocks), the remaining ceil (|C| / (page size - 1)) rounds bring
     page size - 1 blocks each *)
  Theorem sync_converges_private (C : list block) (now0 : Z) :
    (0 < s_interval Se)%Z ->
    SERVABLE now0 C -> (3 <= s_limit Se)%N -> (N.of_nat (length C) + s_limit Se <= two64)%N ->
    forall (n : nat) (st st' : cstate),
      ROUNDS C now0 st n st' ->
      2 < length (chain st) -> length (chain st) < LIM -> length (chain st) < length C ->
      chain_linked H (chain st) -> no_collision (chain st) C ->
      denotes (chain st) (ur st) (ar st) ->
      1 + ceil_div (length C) (LIM - 1) <= n ->
      chain st' = C /\ denotes C (ur st') (ar st').
  Proof.
    intros Hint Hserv Hlim3 Hfit n st st' Hrun Hlen2 HlenL HlenC Hlink Hcf Hden Hn.
    assert (Hlim : 3 <= LIM) by (unfold lim; lia).
    assert (Hk : 0 < LIM - 1) by lia.
    pose proof (ceil_div_ok (length C) (LIM - 1) Hk) as Hceil.
    destruct n as [|n']; [lia|].
    inversion Hrun as [|st0 now nbs pref n0 st0' Hnow Hne Hnbs Hrun' E1 E2 E3]; subst st0 n0 st0'.
    pose proof (servable_later value_fn addr_of sig_ok H Se now0 now C Hnow Hserv) as Hserv'.
    destruct (round_private_prefix st now nbs pref C Hint Hserv' Hden Hlen2 HlenL HlenC Hlink Hcf
                                   Hlim3 Hfit Hne Hnbs)
      as (st1 & k & Hu & Hd1 & Hc1 & Hk1).
    rewrite Hu in Hrun'. cbn [fst] in Hrun'.
    assert (Hlen1 : length (chain st1) = Nat.min k (length C)) by (rewrite Hc1; apply firstn_length).
    apply (rounds_converge value_fn addr_of sig_ok H Se C now0 Hint Hserv Hlim3 Hfit n' st1 st' Hrun').
    - exists (skipn k C). rewrite Hc1, firstn_skipn. reflexivity.
    - lia.
    - exact Hd1.
    - assert (Hmul : ceil_div (length C) (LIM - 1) * (LIM - 1) <= n' * (LIM - 1))
        by (apply Nat.mul_le_mono_r; lia).
      lia.
  Qed.

  (* every start the property allows, in one statement: a prefix of C, or a private chain shorter
     than both C and the page size (hash-linked, no hash collision with C) *)
  Theorem sync_converges_all (C : list block) (now0 : Z) :
    (0 < s_interval Se)%Z ->
    SERVABLE now0 C -> (3 <= s_limit Se)%N -> (N.of_nat (length C) + s_limit Se <= two64)%N ->
    2 <= length C ->
    forall (n : nat) (st st' : cstate),
      ROUNDS C now0 st n st' ->
      1 <= length (chain st) ->
      (prefix (chain st) C \/
       (length (chain st) < length C /\ length (chain st) < LIM /\
        chain_linked H (chain st) /\ no_collision (chain st) C)) ->
      denotes (chain st) (ur st) (ar st) ->
      1 + ceil_div (length C) (LIM - 1) <= n ->
      chain st' = C /\ denotes C (ur st') (ar st').
  Proof.
    intros Hint Hserv Hlim3 Hfit HlenC2 n st st' Hrun Hlen1 Hstart Hden Hn.
    destruct Hstart as [Hpre|(HlenC & HlenL & Hlink & Hcf)].
    - apply (sync_converges value_fn addr_of sig_ok H Se C now0 Hint Hserv Hlim3 Hfit HlenC2 n st st' Hrun
                            Hlen1 (or_introl Hpre) Hden Hn).
    - destruct (Nat.ltb_spec 2 (length (chain st))) as [Hlong|Hshort].
      + apply (sync_converges_private C now0 Hint Hserv Hlim3 Hfit n st st' Hrun Hlong HlenL HlenC
                                      Hlink Hcf Hden Hn).
      + apply (sync_converges value_fn addr_of sig_ok H Se C now0 Hint Hserv Hlim3 Hfit HlenC2 n st st' Hrun
                              Hlen1 (or_intror (conj Hshort HlenC)) Hden Hn).
  Qed.

End ConvergePrivate.

(* ------------------------------------------------------------------ *)
(* the same, between reachable nodes: the chain of a reachable node is  *)
(* hash-linked and its registers are those its chain denotes (C07, C12) *)
(* ------------------------------------------------------------------ *)
Section ConvergePrivateReach.
  Variable value_fn : N -> bool -> Z -> N.
  Variable addr_of : string -> string.
  Variable sig_ok : input -> bool.
  Variable H : block -> hash.
  Variable gen_id : slice input -> slice output -> Z -> string.
  Variable Se : settings.
  Variable validator : string.

  Theorem sync_converges_all_reach (validator' : string) (C : list block) (now0 : Z) (srv n0 : node) :
    reach value_fn addr_of sig_ok H gen_id Se validator' srv -> chain (n_c srv) = C ->
    reach value_fn addr_of sig_ok H gen_id Se validator n0 ->
    (0 < s_interval Se)%Z ->
    servable value_fn addr_of sig_ok H Se now0 C ->
    (3 <= s_limit Se)%N -> (N.of_nat (length C) + s_limit Se <= two64)%N ->
    2 <= length C ->
    1 <= length (chain (n_c n0)) ->
    (prefix (chain (n_c n0)) C \/
     (length (chain (n_c n0)) < length C /\ length (chain (n_c n0)) < lim Se /\
      no_collision H (chain (n_c n0)) C)) ->
    forall (n : nat) (st' : cstate),
      sync_rounds value_fn addr_of sig_ok H Se C now0 (n_c n0) n st' ->
      1 + ceil_div (length C) (lim Se - 1) <= n ->
      chain st' = C /\
      (forall addr, utxos_of (ur st') addr = utxos_of (ur (n_c srv)) addr) /\
      (forall addr, is_registered (ar st') addr = is_registered (ar (n_c srv)) addr).
  Proof.
    intros Hsrv HC Hn0 Hint Hserv Hlim3 Hfit HlenC Hlen1 Hstart n st' Hrun Hn.
    pose proof (reach_denotes _ _ _ _ _ _ _ _ Hn0) as Hd0.
    pose proof (reach_linked _ _ _ _ _ _ _ _ Hn0) as Hl0.
    pose proof (reach_denotes _ _ _ _ _ _ _ _ Hsrv) as Hds. rewrite HC in Hds.
    assert (Hstart' : prefix (chain (n_c n0)) C \/
                      (length (chain (n_c n0)) < length C /\ length (chain (n_c n0)) < lim Se /\
                       chain_linked H (chain (n_c n0)) /\ no_collision H (chain (n_c n0)) C)).
    { destruct Hstart as [Hp|(A & B & D)]; [left; exact Hp | right].
      split; [exact A|]. split; [exact B|]. split; [exact Hl0 | exact D]. }
    destruct (sync_converges_all value_fn addr_of sig_ok H Se C now0 Hint Hserv Hlim3 Hfit HlenC
                                 n (n_c n0) st' Hrun Hlen1 Hstart' Hd0 Hn) as [Hc Hd].
    destruct (denotes_same C _ _ _ _ Hd Hds) as [Eu Ea].
    split; [exact Hc|]. split.
    - intros addr. rewrite Eu. reflexivity.
    - intros addr. unfold is_registered. rewrite Ea. reflexivity.
  Qed.
End ConvergePrivateReach.

(* ------------------------------------------------------------------ *)
(* a toy instance: the five-block chain of ConvergeExample served with  *)
(* a page size of 4 to nodes holding three-block private chains         *)
(* ------------------------------------------------------------------ *)
Module PrivateExample.
  Import SyncExample ConvergeExample.
  Local Open Scope string_scope.
  Definition S4 : settings := mkSettings 10 1 100 4.

  (* a private chain that leaves CC right after the genesis block ... *)
  Definition y1 : block := mkBlock (Ht g0) None None 11 (Some [rw "q1" "W" 11]).
  Definition y2 : block := mkBlock (Ht y1) None None 22 (Some [rw "q2" "W" 22]).
  Definition PF : list block := [g0; y1; y2].
  (* ... and one that shares with CC every block below its tip *)
  Definition z2 : block := mkBlock (Ht c1) None None 21 (Some [rw "q3" "W" 21]).
  Definition PS : list block := [g0; c1; z2].

  Definition regs (l : list block) : ureg * areg :=
    match replay l with Ok p => p | Err _ => (ureg_empty, areg_empty) end.
  Definition stF : cstate := mkC PF (fst (regs [g0; y1])) (snd (regs [g0; y1])).
  Definition stS : cstate := mkC PS (fst (regs [g0; c1])) (snd (regs [g0; c1])).

  Definition page4 (h : N) : list block :=
    match blocks_page S4 CC h with Ok p => p | Err _ => [] end.
  Definition nb4 (len : nat) : neighbor :=
    mkNb "n1:1" (RBlocks (page4 (N.of_nat (len - 1)))) (RBlocks (page4 0)).

  Definition stF1 : cstate := fst (update vf ao so Ht S4 stF 40 [nb4 3] "").
  Definition stF2 : cstate := fst (update vf ao so Ht S4 stF1 40 [nb4 4] "").
  Definition stF3 : cstate := fst (update vf ao so Ht S4 stF2 40 [nb4 5] "").
  Definition stS1 : cstate := fst (update vf ao so Ht S4 stS 40 [nb4 3] "").

  Lemma ex4_servable : servable vf ao so Ht S4 40 CC.
  Proof.
    split; [cbn; repeat split; reflexivity|]. split; [reflexivity|].
    split; [eexists; eexists; vm_compute; reflexivity|].
    split.
    { intros X p b T u a E Hr.
      destruct X as [|x0 [|x1 [|x2 [|x3 [|x4 X]]]]]; inversion E; subst;
        try (vm_compute in Hr; inversion Hr; subst u a; vm_compute; reflexivity).
      destruct X; discriminate. }
    split.
    { unfold rewarded, CC.
      apply Forall_cons; [eexists; split; [left; reflexivity | reflexivity]|].
      apply Forall_cons; [eexists; split; [left; reflexivity | reflexivity]|].
      apply Forall_cons; [eexists; split; [left; reflexivity | reflexivity]|].
      apply Forall_cons; [eexists; split; [right; left; reflexivity | reflexivity]|].
      apply Forall_cons; [eexists; split; [left; reflexivity | reflexivity]|].
      apply Forall_nil. }
    vm_compute. discriminate.
  Qed.

  Lemma ex4_settings :
    (0 < s_interval S4)%Z /\ (3 <= s_limit S4)%N /\ (N.of_nat (length CC) + s_limit S4 <= two64)%N.
  Proof. split; [reflexivity|]. split; vm_compute; discriminate. Qed.

  Lemma ex4_bounds_F : 2 < length (chain stF) /\ length (chain stF) < lim S4 /\ length (chain stF) < length CC.
  Proof. vm_compute. repeat split; repeat constructor. Qed.

  Lemma ex4_bounds_S : 2 < length (chain stS) /\ length (chain stS) < lim S4 /\ length (chain stS) < length CC.
  Proof. vm_compute. repeat split; repeat constructor. Qed.

  Lemma ex4_linked : chain_linked Ht PF /\ chain_linked Ht PS.
  Proof. split; cbn; repeat split; reflexivity. Qed.

  Lemma ex4_no_collision_F : no_collision Ht PF CC.
  Proof.
    intros a b Ha Hb. unfold PF, CC in Ha, Hb. cbn [In] in Ha, Hb.
    destruct Ha as [<-|[<-|[<-|[]]]]; destruct Hb as [<-|[<-|[<-|[<-|[<-|[]]]]]]; intros E;
      try reflexivity; vm_compute in E; discriminate.
  Qed.

  Lemma ex4_no_collision_S : no_collision Ht PS CC.
  Proof.
    intros a b Ha Hb. unfold PS, CC in Ha, Hb. cbn [In] in Ha, Hb.
    destruct Ha as [<-|[<-|[<-|[]]]]; destruct Hb as [<-|[<-|[<-|[<-|[<-|[]]]]]]; intros E;
      try reflexivity; vm_compute in E; discriminate.
  Qed.

  Lemma ex4_denotes : denotes PF (ur stF) (ar stF) /\ denotes PS (ur stS) (ar stS).
  Proof. split; eexists; split; vm_compute; reflexivity. Qed.

  Lemma ex4_not_prefix : ~ prefix PF CC /\ ~ prefix PS CC.
  Proof. split; intros [r E]; vm_compute in E; discriminate. Qed.

  (* PF leaves CC below its tip, PS does not (and CC's block at the height of its tip passes) *)
  Lemma ex4_cases :
    removelast PF <> firstn (length PF - 1) CC /\
    removelast PS = firstn (length PS - 1) CC /\ swap_accepted vf ao so Ht S4 stS 40 CC = true.
  Proof. split; [vm_compute; discriminate|]. split; vm_compute; reflexivity. Qed.

  Lemma ex4_serves_F : serves S4 CC stF (nb4 3).
  Proof.
    split; (split; [discriminate|]); eexists; (split; [vm_compute; reflexivity|]); vm_compute; reflexivity.
  Qed.
  Lemma ex4_serves_S : serves S4 CC stS (nb4 3).
  Proof.
    split; (split; [discriminate|]); eexists; (split; [vm_compute; reflexivity|]); vm_compute; reflexivity.
  Qed.

  (* the private chain with a fork below the tip: full re-sync (first page), then the rest;
     the one that agrees below the tip: tip swap and extension in one round *)
  Lemma ex4_chains :
    chain stF1 = [g0; c1; c2; c3] /\ chain stF2 = CC /\ chain stF3 = CC /\
    replay (removelast CC) = Ok (ur stF3, ar stF3) /\
    chain stS1 = CC /\ replay (removelast CC) = Ok (ur stS1, ar stS1).
  Proof. vm_compute. repeat split; reflexivity. Qed.

  Lemma ex4_serves_F1 : serves S4 CC stF1 (nb4 4).
  Proof.
    split; (split; [discriminate|]); eexists; (split; [vm_compute; reflexivity|]); vm_compute; reflexivity.
  Qed.
  Lemma ex4_serves_F2 : serves S4 CC stF2 (nb4 5).
  Proof.
    split; (split; [discriminate|]); eexists; (split; [vm_compute; reflexivity|]); vm_compute; reflexivity.
  Qed.

  Lemma ex4_rounds : sync_rounds vf ao so Ht S4 CC 40 stF 3 stF3.
  Proof.
    apply (sr_round vf ao so Ht S4 CC 40 stF 40 [nb4 3] ""); [apply Z.le_refl | discriminate | |].
    { intros nb [E|[]]. subst nb. exact ex4_serves_F. }
    fold stF1.
    apply (sr_round vf ao so Ht S4 CC 40 stF1 40 [nb4 4] ""); [apply Z.le_refl | discriminate | |].
    { intros nb [E|[]]. subst nb. exact ex4_serves_F1. }
    fold stF2.
    apply (sr_round vf ao so Ht S4 CC 40 stF2 40 [nb4 5] ""); [apply Z.le_refl | discriminate | |].
    { intros nb [E|[]]. subst nb. exact ex4_serves_F2. }
    fold stF3. apply sr_done.
  Qed.

  Lemma ex4_bound : 1 + ceil_div (length CC) (lim S4 - 1) = 3.
  Proof. vm_compute. reflexivity. Qed.
End PrivateExample.
