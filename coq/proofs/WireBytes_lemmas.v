(* WireBytes_lemmas.v — the byte-level layer of the wire model: the tree-level round trips of
   Wire_lemmas.v (C15) and the tree-level no-panic theorems of Panic_lemmas.v (C14) composed with
   parse_json (render j) = Some j of JsonParse_lemmas.v. *)
From RV Require Import model.Base model.Json model.Sha256 model.Ledger model.Registry model.Chain
     model.Sync model.Pool model.Reach model.Wire model.WireDec model.Handlers
     proofs.Wire_lemmas proofs.Panic_lemmas model.JsonParse proofs.JsonParse_lemmas model.WireBytes.

(* ------------------------------------------------------------------ *)
(* 1. the marshalers only produce trees the reader reads back          *)
(* ------------------------------------------------------------------ *)
Fixpoint no_float (j : json) : bool :=
  match j with
  | JNumF _ => false
  | JArr l => forallb no_float l
  | JObj l => forallb (fun p => no_float (snd p)) l
  | _ => true
  end.

Lemma no_float_wf : forall j, no_float j = true -> wf_json j.
Proof.
  induction j as [|b|z|lit|s|l HF|l HF] using json_ind2; unfold wf_json;
    cbn [no_float wf_jsonb]; intros Hn; try reflexivity; try discriminate.
  - rewrite forallb_forall in Hn. rewrite forallb_forall. rewrite Forall_forall in HF.
    intros x Hx. apply (HF x Hx). apply Hn. exact Hx.
  - rewrite forallb_forall in Hn. rewrite forallb_forall. rewrite Forall_forall in HF.
    intros x Hx. apply (HF x Hx). apply Hn. exact Hx.
Qed.

Lemma nf_map {A} (f : A -> json) (l : list A) :
  (forall x, no_float (f x) = true) -> forallb no_float (map f l) = true.
Proof.
  intros Hf. induction l as [|a r IH]; cbn [map forallb]; [reflexivity|].
  rewrite Hf, IH. reflexivity.
Qed.

Lemma nf_jslice {A} (f : A -> json) (s : slice A) :
  (forall x, no_float (f x) = true) -> no_float (jslice f s) = true.
Proof.
  intros Hf. destruct s as [l|]; unfold jslice; cbn [no_float]; [|reflexivity].
  apply nf_map. exact Hf.
Qed.

Lemma nf_input_info idx ref : no_float (marshal_input_info idx ref) = true.
Proof. reflexivity. Qed.
Lemma nf_output o : no_float (marshal_output o) = true.
Proof. reflexivity. Qed.
Lemma nf_input i : no_float (marshal_input i) = true.
Proof. reflexivity. Qed.
Lemma nf_utxo u : no_float (marshal_utxo u) = true.
Proof. reflexivity. Qed.

Lemma nf_idbody i o ts : no_float (marshal_idbody i o ts) = true.
Proof.
  unfold marshal_idbody. cbn [no_float forallb snd].
  rewrite (nf_jslice marshal_input i nf_input), (nf_jslice marshal_output o nf_output). reflexivity.
Qed.

Lemma nf_tx t : no_float (marshal_tx t) = true.
Proof.
  unfold marshal_tx. cbn [no_float forallb snd].
  rewrite (nf_jslice marshal_input (t_ins t) nf_input), (nf_jslice marshal_output (t_outs t) nf_output).
  reflexivity.
Qed.

Lemma nf_block b : no_float (marshal_block b) = true.
Proof.
  unfold marshal_block. cbn [no_float forallb snd].
  rewrite (nf_map (fun n => JNum (Z.of_N n)) (b_prev b) (fun _ => eq_refl)).
  rewrite (nf_jslice JStr (b_added b) (fun _ => eq_refl)).
  rewrite (nf_jslice JStr (b_removed b) (fun _ => eq_refl)).
  rewrite (nf_jslice marshal_tx (b_txs b) nf_tx). reflexivity.
Qed.

Lemma nf_request t g : no_float (marshal_request t g) = true.
Proof.
  unfold marshal_request. cbn [no_float forallb snd].
  destruct t as [t|]; [rewrite nf_tx|]; reflexivity.
Qed.

Lemma nf_blocks_tree l : no_float (blocks_tree l) = true.
Proof.
  unfold blocks_tree. cbn [no_float]. apply nf_map.
  intros [b|]; [apply nf_block | reflexivity].
Qed.

Theorem marshal_input_info_wf idx ref : wf_json (marshal_input_info idx ref).
Proof. apply no_float_wf, nf_input_info. Qed.
Theorem marshal_output_wf o : wf_json (marshal_output o).
Proof. apply no_float_wf, nf_output. Qed.
Theorem marshal_input_wf i : wf_json (marshal_input i).
Proof. apply no_float_wf, nf_input. Qed.
Theorem marshal_utxo_wf u : wf_json (marshal_utxo u).
Proof. apply no_float_wf, nf_utxo. Qed.
Theorem marshal_idbody_wf i o ts : wf_json (marshal_idbody i o ts).
Proof. apply no_float_wf, nf_idbody. Qed.
Theorem marshal_tx_wf t : wf_json (marshal_tx t).
Proof. apply no_float_wf, nf_tx. Qed.
Theorem marshal_block_wf b : wf_json (marshal_block b).
Proof. apply no_float_wf, nf_block. Qed.
Theorem marshal_request_wf t g : wf_json (marshal_request t g).
Proof. apply no_float_wf, nf_request. Qed.
Theorem blocks_tree_wf l : wf_json (blocks_tree l).
Proof. apply no_float_wf, nf_blocks_tree. Qed.

(* ------------------------------------------------------------------ *)
(* 2. reading what was written                                         *)
(* ------------------------------------------------------------------ *)
Lemma decode_bytes_render {A} (um : json -> res derr A) (j : json) :
  wf_json j -> decode_bytes um (render j) = Some (um j).
Proof. intros Hw. unfold decode_bytes. rewrite (parse_render j Hw). reflexivity. Qed.

Lemma decode_bytes_ws {A} (um : json -> res derr A) (j : json) (pre post : string) :
  wf_json j -> all_ws pre -> all_ws post ->
  decode_bytes um (pre ++ render j ++ post)%string = Some (um j).
Proof.
  intros Hw Hpre Hpost. unfold decode_bytes. rewrite (parse_ws j pre post Hw Hpre Hpost). reflexivity.
Qed.

Lemma decode_bytes_some {A} (um : json -> res derr A) (s : string) (r : res derr A) :
  decode_bytes um s = Some r -> exists j, parse_json s = Some j /\ um j = r.
Proof.
  unfold decode_bytes. destruct (parse_json s) as [j|]; [|discriminate].
  intros Hd. injection Hd as Hd. exists j. split; [reflexivity | exact Hd].
Qed.

Lemma decode_bytes_syntax {A} (um : json -> res derr A) (s : string) :
  decode_bytes um s = None <-> parse_json s = None.
Proof.
  unfold decode_bytes. destruct (parse_json s) as [j|]; split; intros Hd; try discriminate; reflexivity.
Qed.

(* the printed texts determine the trees *)
Lemma render_marshal_inj (j1 j2 : json) :
  no_float j1 = true -> no_float j2 = true -> render j1 = render j2 -> j1 = j2.
Proof. intros H1 H2. apply parse_render_inj; apply no_float_wf; assumption. Qed.

Theorem utxo_bytes_roundtrip u : wf_utxo u -> decode_utxo_bytes (encode_utxo u) = Some (Ok u).
Proof.
  intros Hw. unfold decode_utxo_bytes, encode_utxo.
  rewrite (decode_bytes_render _ _ (marshal_utxo_wf u)), (C15_roundtrip_utxo u Hw). reflexivity.
Qed.

Theorem utxo_bytes_ws u pre post : wf_utxo u -> all_ws pre -> all_ws post ->
  decode_utxo_bytes (pre ++ encode_utxo u ++ post)%string = Some (Ok u).
Proof.
  intros Hw Hpre Hpost. unfold decode_utxo_bytes, encode_utxo.
  rewrite (decode_bytes_ws _ _ pre post (marshal_utxo_wf u) Hpre Hpost), (C15_roundtrip_utxo u Hw).
  reflexivity.
Qed.

Theorem utxo_bytes_decode_wf s u : decode_utxo_bytes s = Some (Ok u) -> wf_utxo u.
Proof.
  intros Hd. apply decode_bytes_some in Hd. destruct Hd as (j & _ & Hj).
  exact (C15_decode_wf_utxo j u Hj).
Qed.

Theorem utxo_bytes_stable s u :
  decode_utxo_bytes s = Some (Ok u) -> decode_utxo_bytes (encode_utxo u) = Some (Ok u).
Proof. intros Hd. apply utxo_bytes_roundtrip. exact (utxo_bytes_decode_wf s u Hd). Qed.

Section Oracles.
Variable on_curve : string -> bool.
Variable H : list N -> list N.

Notation wf_tx := (Wire_lemmas.wf_tx on_curve H).
Notation wf_block := (Wire_lemmas.wf_block on_curve H).
Notation decode_block_bytes := (WireBytes.decode_block_bytes on_curve H).
Notation decode_tx_bytes := (WireBytes.decode_tx_bytes on_curve H).
Notation decode_blocks_bytes := (WireBytes.decode_blocks_bytes on_curve H).
Notation decode_request_bytes := (WireBytes.decode_request_bytes on_curve H).

(* ---- what the sender writes is what the receiver gets ---- *)
Theorem block_bytes_roundtrip b : wf_block b -> decode_block_bytes (encode_block b) = Some (Ok b).
Proof.
  intros Hw. unfold WireBytes.decode_block_bytes, encode_block.
  rewrite (decode_bytes_render _ _ (marshal_block_wf b)), (C15_roundtrip_block on_curve H b Hw).
  reflexivity.
Qed.

Theorem tx_bytes_roundtrip t : wf_tx t -> decode_tx_bytes (encode_tx t) = Some (Ok t).
Proof.
  intros Hw. unfold WireBytes.decode_tx_bytes, encode_tx.
  rewrite (decode_bytes_render _ _ (marshal_tx_wf t)), (C15_roundtrip_tx on_curve H t Hw).
  reflexivity.
Qed.

Theorem blocks_bytes_roundtrip l :
  Forall (fun x => match x with Some b => wf_block b | None => True end) l ->
  decode_blocks_bytes (encode_blocks l) = Some (Ok l).
Proof.
  intros Hw. unfold WireBytes.decode_blocks_bytes, encode_blocks.
  rewrite (decode_bytes_render _ _ (blocks_tree_wf l)). unfold blocks_tree.
  rewrite (C15_roundtrip_blocks on_curve H l Hw). reflexivity.
Qed.

Theorem request_bytes_roundtrip t g :
  match t with Some x => wf_tx x | None => True end ->
  decode_request_bytes (encode_request t g) = Some (Ok (t, g)).
Proof.
  intros Hw. unfold WireBytes.decode_request_bytes, encode_request.
  rewrite (decode_bytes_render _ _ (marshal_request_wf t g)), (C15_roundtrip_request on_curve H t g Hw).
  reflexivity.
Qed.

(* ---- whatever text is accepted, the value is well formed ---- *)
Theorem block_bytes_decode_wf s b : decode_block_bytes s = Some (Ok b) -> wf_block b.
Proof.
  intros Hd. apply decode_bytes_some in Hd. destruct Hd as (j & _ & Hj).
  exact (C15_decode_wf_block on_curve H j b Hj).
Qed.

Theorem tx_bytes_decode_wf s t : decode_tx_bytes s = Some (Ok t) -> wf_tx t.
Proof.
  intros Hd. apply decode_bytes_some in Hd. destruct Hd as (j & _ & Hj).
  exact (C15_decode_wf_tx on_curve H j t Hj).
Qed.

(* ---- byte stability of decode ; encode, from ANY accepted text ---- *)
Theorem block_bytes_stable s b :
  decode_block_bytes s = Some (Ok b) -> decode_block_bytes (encode_block b) = Some (Ok b).
Proof. intros Hd. apply block_bytes_roundtrip. exact (block_bytes_decode_wf s b Hd). Qed.

Theorem tx_bytes_stable s t :
  decode_tx_bytes s = Some (Ok t) -> decode_tx_bytes (encode_tx t) = Some (Ok t).
Proof. intros Hd. apply tx_bytes_roundtrip. exact (tx_bytes_decode_wf s t Hd). Qed.

Theorem block_bytes_stable_bytes s b :
  decode_block_bytes s = Some (Ok b) ->
  forall b', decode_block_bytes (encode_block b) = Some (Ok b') -> encode_block b' = encode_block b.
Proof.
  intros Hd b' Hd'. rewrite (block_bytes_stable s b Hd) in Hd'. injection Hd' as <-. reflexivity.
Qed.

Theorem tx_bytes_stable_bytes s t :
  decode_tx_bytes s = Some (Ok t) ->
  forall t', decode_tx_bytes (encode_tx t) = Some (Ok t') -> encode_tx t' = encode_tx t.
Proof.
  intros Hd t' Hd'. rewrite (tx_bytes_stable s t Hd) in Hd'. injection Hd' as <-. reflexivity.
Qed.

(* ---- two well-formed values with the same bytes are the same value ---- *)
Theorem block_bytes_inj b1 b2 :
  wf_block b1 -> wf_block b2 -> encode_block b1 = encode_block b2 -> b1 = b2.
Proof.
  intros H1 H2 He. unfold encode_block in He.
  apply (render_marshal_inj _ _ (nf_block b1) (nf_block b2)) in He.
  pose proof (C15_roundtrip_block on_curve H b1 H1) as R1.
  pose proof (C15_roundtrip_block on_curve H b2 H2) as R2.
  rewrite He in R1. rewrite R1 in R2. injection R2 as R2. exact R2.
Qed.

Theorem tx_bytes_inj t1 t2 :
  wf_tx t1 -> wf_tx t2 -> encode_tx t1 = encode_tx t2 -> t1 = t2.
Proof.
  intros H1 H2 He. unfold encode_tx in He.
  apply (render_marshal_inj _ _ (nf_tx t1) (nf_tx t2)) in He.
  pose proof (C15_roundtrip_tx on_curve H t1 H1) as R1.
  pose proof (C15_roundtrip_tx on_curve H t2 H2) as R2.
  rewrite He in R1. rewrite R1 in R2. injection R2 as R2. exact R2.
Qed.

(* ---- the receiver of the bytes computes the sender's block hash ---- *)
Theorem block_bytes_same_hash b b' :
  wf_block b -> decode_block_bytes (encode_block b) = Some (Ok b') ->
  H (bytes_of_string (encode_block b')) = H (bytes_of_string (encode_block b)).
Proof.
  intros Hw Hd. rewrite (block_bytes_roundtrip b Hw) in Hd. injection Hd as <-. reflexivity.
Qed.

(* the same from any accepted text: what the receiver hashes is what it would itself serve *)
Theorem block_bytes_same_hash_any s b b' :
  decode_block_bytes s = Some (Ok b) -> decode_block_bytes (encode_block b) = Some (Ok b') ->
  H (bytes_of_string (encode_block b')) = H (bytes_of_string (encode_block b)).
Proof. intros Hd Hd'. rewrite (block_bytes_stable_bytes s b Hd b' Hd'). reflexivity. Qed.

(* ---- whitespace around the text does not matter ---- *)
Theorem block_bytes_ws b pre post : wf_block b -> all_ws pre -> all_ws post ->
  decode_block_bytes (pre ++ encode_block b ++ post)%string = Some (Ok b).
Proof.
  intros Hw Hpre Hpost. unfold WireBytes.decode_block_bytes, encode_block.
  rewrite (decode_bytes_ws _ _ pre post (marshal_block_wf b) Hpre Hpost),
          (C15_roundtrip_block on_curve H b Hw). reflexivity.
Qed.

Theorem tx_bytes_ws t pre post : wf_tx t -> all_ws pre -> all_ws post ->
  decode_tx_bytes (pre ++ encode_tx t ++ post)%string = Some (Ok t).
Proof.
  intros Hw Hpre Hpost. unfold WireBytes.decode_tx_bytes, encode_tx.
  rewrite (decode_bytes_ws _ _ pre post (marshal_tx_wf t) Hpre Hpost),
          (C15_roundtrip_tx on_curve H t Hw). reflexivity.
Qed.

Theorem blocks_bytes_ws l pre post :
  Forall (fun x => match x with Some b => wf_block b | None => True end) l ->
  all_ws pre -> all_ws post ->
  decode_blocks_bytes (pre ++ encode_blocks l ++ post)%string = Some (Ok l).
Proof.
  intros Hw Hpre Hpost. unfold WireBytes.decode_blocks_bytes, encode_blocks.
  rewrite (decode_bytes_ws _ _ pre post (blocks_tree_wf l) Hpre Hpost). unfold blocks_tree.
  rewrite (C15_roundtrip_blocks on_curve H l Hw). reflexivity.
Qed.

Theorem request_bytes_ws t g pre post :
  match t with Some x => wf_tx x | None => True end -> all_ws pre -> all_ws post ->
  decode_request_bytes (pre ++ encode_request t g ++ post)%string = Some (Ok (t, g)).
Proof.
  intros Hw Hpre Hpost. unfold WireBytes.decode_request_bytes, encode_request.
  rewrite (decode_bytes_ws _ _ pre post (marshal_request_wf t g) Hpre Hpost),
          (C15_roundtrip_request on_curve H t g Hw). reflexivity.
Qed.

(* ---- the id is checked on bytes too ---- *)
Theorem tx_bytes_id_checked s t :
  decode_tx_bytes s = Some (Ok t) -> t_id t = gen_id H (t_ins t) (t_outs t) (t_ts t).
Proof. intros Hd. apply tx_bytes_decode_wf in Hd. apply Hd. Qed.

End Oracles.

(* ------------------------------------------------------------------ *)
(* 3. C14 on bytes: every string                                       *)
(* ------------------------------------------------------------------ *)
Section OpsBytes.
  Variable value_fn : N -> bool -> Z -> N.
  Variable addr_of : string -> string.
  Variable sig_ok : input -> bool.
  Variable H : block -> hash.
  Variable gen_id : slice input -> slice output -> Z -> string.
  Variable Se : settings.
  Variable validator : string.
  Variable on_curve : string -> bool.
  Variable Hb : list N -> list N.

  Notation handle_transaction := (Handlers.handle_transaction value_fn addr_of sig_ok Se on_curve Hb).
  Notation handle_transaction_result :=
    (Handlers.handle_transaction_result value_fn addr_of sig_ok Se on_curve Hb).
  Notation handle_transaction_bytes :=
    (WireBytes.handle_transaction_bytes value_fn addr_of sig_ok Se on_curve Hb).
  Notation handle_transaction_result_bytes :=
    (WireBytes.handle_transaction_result_bytes value_fn addr_of sig_ok Se on_curve Hb).
  Notation response_of_answer := (Handlers.response_of_answer on_curve Hb).
  Notation response_of_answer_bytes := (WireBytes.response_of_answer_bytes on_curve Hb).
  Notation neighbor_of_answer := (Handlers.neighbor_of_answer on_curve Hb).
  Notation neighbor_of_answer_bytes := (WireBytes.neighbor_of_answer_bytes on_curve Hb).
  Notation sync_with := (Handlers.sync_with value_fn addr_of sig_ok H gen_id Se validator on_curve Hb).
  Notation sync_with_bytes :=
    (WireBytes.sync_with_bytes value_fn addr_of sig_ok H gen_id Se validator on_curve Hb).
  Notation step := (Reach.step value_fn addr_of sig_ok H gen_id Se validator).
  Notation verify := (Chain.verify value_fn addr_of sig_ok H Se).
  Notation candidates := (Sync.candidates value_fn addr_of sig_ok H Se).
  Notation validate := (Pool.validate value_fn addr_of sig_ok H gen_id Se validator).
  Notation wire_step := (Panic_lemmas.wire_step value_fn addr_of sig_ok H gen_id Se validator on_curve Hb).
  Notation run_wire := (Panic_lemmas.run_wire value_fn addr_of sig_ok H gen_id Se validator on_curve Hb).
  Notation wire_panic := (Panic_lemmas.wire_panic value_fn addr_of sig_ok H gen_id Se validator on_curve Hb).

  (* ---- the bridge: a text that is not JSON behaves as the tree JStr "" ---- *)
  Lemma unparsable_tree_rejected : unmarshal_blocks on_curve Hb (JStr EmptyString) = Err DType.
  Proof. reflexivity. Qed.

  Lemma unparsable_tree_request_rejected : unmarshal_request on_curve Hb (JStr EmptyString) = Err DType.
  Proof. reflexivity. Qed.

  Lemma handle_transaction_bytes_tree (n : node) (s : string) :
    handle_transaction_bytes n s = handle_transaction n (tree_of_text s).
  Proof.
    unfold WireBytes.handle_transaction_bytes, tree_of_text.
    destruct (parse_json s) as [j|]; reflexivity.
  Qed.

  Lemma handle_transaction_result_bytes_tree (n : node) (s : string) :
    handle_transaction_result_bytes n s = handle_transaction_result n (tree_of_text s).
  Proof.
    unfold WireBytes.handle_transaction_result_bytes, tree_of_text.
    destruct (parse_json s) as [j|]; reflexivity.
  Qed.

  Lemma response_of_answer_bytes_tree (s : string) :
    response_of_answer_bytes s = response_of_answer (tree_of_text s).
  Proof.
    unfold WireBytes.response_of_answer_bytes, tree_of_text.
    destruct (parse_json s) as [j|]; reflexivity.
  Qed.

  Lemma neighbors_of_bytes (answers : list (string * string * string)) :
    map neighbor_of_answer (answers_of_bytes answers) = map neighbor_of_answer_bytes answers.
  Proof.
    unfold answers_of_bytes. rewrite map_map. apply map_ext. intros [[t si] sf].
    unfold Handlers.neighbor_of_answer, WireBytes.neighbor_of_answer_bytes. cbn [fst snd].
    rewrite !response_of_answer_bytes_tree. reflexivity.
  Qed.

  Lemma sync_with_bytes_tree (n : node) (now : Z) (answers : list (string * string * string))
      (pref : string) :
    sync_with_bytes n now answers pref = sync_with n now (answers_of_bytes answers) pref.
  Proof.
    unfold WireBytes.sync_with_bytes, Handlers.sync_with. rewrite neighbors_of_bytes. reflexivity.
  Qed.

  Lemma in_answers_of_bytes (answers : list (string * string * string)) t si sf :
    In (t, si, sf) answers -> In (t, tree_of_text si, tree_of_text sf) (answers_of_bytes answers).
  Proof.
    intros Hin. unfold answers_of_bytes.
    exact (in_map (fun a => (fst (fst a), tree_of_text (snd (fst a)), tree_of_text (snd a)))
                  answers (t, si, sf) Hin).
  Qed.

  (* ---- the transaction endpoint: any byte string ---- *)
  Theorem transaction_endpoint_bytes (s : string) (n : node) :
    node_ok n ->
    let '(n', ok) := handle_transaction_bytes n s in
    node_ok n' /\ (ok = false -> n' = n) /\
    forall site, handle_transaction_result_bytes n s <> Err (EPanic site).
  Proof.
    intros Hn. rewrite handle_transaction_bytes_tree.
    pose proof (Panic_lemmas.C14_transaction_endpoint value_fn addr_of sig_ok Se on_curve Hb
                  (tree_of_text s) n Hn) as Ht.
    destruct (handle_transaction n (tree_of_text s)) as [n' ok].
    destruct Ht as (A & B & C). split; [exact A|]. split; [exact B|].
    intros site. rewrite handle_transaction_result_bytes_tree. apply C.
  Qed.

  (* a text that is not JSON: refused, nothing happens *)
  Theorem transaction_syntax_error (s : string) (n : node) :
    parse_json s = None ->
    handle_transaction_bytes n s = (n, false) /\ handle_transaction_result_bytes n s = Err EDecode.
  Proof.
    intros Hp. unfold WireBytes.handle_transaction_bytes, WireBytes.handle_transaction_result_bytes.
    rewrite Hp. split; reflexivity.
  Qed.

  (* ---- a sync round: any byte strings as answers ---- *)
  (* an answer that is not JSON, does not decode, or holds a null block *)
  Definition bad_answer_bytes (s : string) : Prop :=
    match decode_blocks_bytes on_curve Hb s with
    | None => True
    | Some (Err _) => True
    | Some (Ok l) => In None l
    end.

  Lemma bad_answer_bytes_tree (s : string) :
    bad_answer_bytes s -> bad_answer on_curve Hb (tree_of_text s).
  Proof.
    unfold bad_answer_bytes, WireBytes.decode_blocks_bytes, decode_bytes, tree_of_text, bad_answer.
    destruct (parse_json s) as [j|].
    - destruct (unmarshal_blocks on_curve Hb j) as [l|e]; intros Hbad.
      + right. exists l. split; [reflexivity | exact Hbad].
      + left. exists e. reflexivity.
    - intros _. left. exists DType. reflexivity.
  Qed.

  Lemma bad_answer_bytes_fails (s : string) :
    bad_answer_bytes s -> response_of_answer_bytes s = RFail EDecode.
  Proof.
    intros Hbad. rewrite response_of_answer_bytes_tree.
    apply bad_answer_fails. apply bad_answer_bytes_tree. exact Hbad.
  Qed.

  Lemma sync_bytes_preserves_ok (n : node) (now : Z) (answers : list (string * string * string))
      (pref : string) :
    node_ok n -> node_ok (sync_with_bytes n now answers pref).
  Proof. intros Hn. rewrite sync_with_bytes_tree. apply sync_preserves_ok. exact Hn. Qed.

  Theorem sync_answer_bytes (answers : list (string * string * string)) (n : node) (now : Z)
      (pref : string) :
    node_ok n ->
    node_ok (sync_with_bytes n now answers pref) /\
    (forall t si sf l host lh now' site, In (t, si, sf) answers ->
       response_of_answer_bytes si = RBlocks l \/ response_of_answer_bytes sf = RBlocks l ->
       verify host lh l (removelast (chain (n_c n))) now' <> Err (EPanic site) /\
       verify host lh l [] now' <> Err (EPanic site)) /\
    (forall sel b u site,
       select pref (survivors (n_c n) (candidates (n_c n) now (map neighbor_of_answer_bytes answers)))
       = Some sel ->
       In b sel -> update_utxos u (txs b) (b_ts b) <> Err (EPanic site)) /\
    ((forall t si sf, In (t, si, sf) answers -> bad_answer_bytes si /\ bad_answer_bytes sf) ->
     sync_with_bytes n now answers pref = n).
  Proof.
    intros Hn.
    destruct (Panic_lemmas.C14_sync_answer value_fn addr_of sig_ok H gen_id Se validator on_curve Hb
                (answers_of_bytes answers) n now pref Hn) as (A & B & C & D).
    rewrite sync_with_bytes_tree. split; [exact A|]. split; [|split].
    - intros t si sf l host lh now' site Hin Hr.
      rewrite !response_of_answer_bytes_tree in Hr.
      exact (B t (tree_of_text si) (tree_of_text sf) l host lh now' site
               (in_answers_of_bytes answers t si sf Hin) Hr).
    - intros sel b u site Hs Hin. rewrite <- neighbors_of_bytes in Hs.
      exact (C sel b u site Hs Hin).
    - intros Hbad. apply D. intros t ji jf Hin. unfold answers_of_bytes in Hin.
      apply in_map_iff in Hin. destruct Hin as ([[t0 si] sf] & Heq & Hin0).
      cbn [fst snd] in Heq. injection Heq as <- <- <-.
      destruct (Hbad t0 si sf Hin0) as [Bi Bf].
      split; apply bad_answer_bytes_tree; assumption.
  Qed.

  (* ---- any sequence of operations whose inputs are byte strings ---- *)
  Inductive wire_op_bytes :=
  | BTx (s : string)                                                        (* transaction endpoint *)
  | BSync (now : Z) (answers : list (string * string * string)) (pref : string)  (* sync round *)
  | BTick (ts : Z) (perm : list nat)                                        (* production tick *)
  | BRefresh (poh : string -> option bool) (order : list string).           (* registry refresh *)

  Definition wire_step_bytes (n : node) (w : wire_op_bytes) : node :=
    match w with
    | BTx s => fst (handle_transaction_bytes n s)
    | BSync now answers pref => sync_with_bytes n now answers pref
    | BTick ts perm => step n (OpValidate ts perm)
    | BRefresh poh order => step n (OpRegSync poh order)
    end.
  Definition run_bytes (n : node) (ops : list wire_op_bytes) : node := fold_left wire_step_bytes ops n.

  (* "operation [w], run in state [n], reaches panic site [s]" *)
  Definition bytes_panic (n : node) (w : wire_op_bytes) (s : panic_site) : Prop :=
    match w with
    | BTx t => handle_transaction_result_bytes n t = Err (EPanic s)
    | BSync now answers pref =>
      (exists t si sf l host lh now',
          In (t, si, sf) answers /\
          (response_of_answer_bytes si = RBlocks l \/ response_of_answer_bytes sf = RBlocks l) /\
          (verify host lh l (removelast (chain (n_c n))) now' = Err (EPanic s) \/
           verify host lh l [] now' = Err (EPanic s))) \/
      (exists sel b u,
          select pref (survivors (n_c n) (candidates (n_c n) now (map neighbor_of_answer_bytes answers)))
          = Some sel /\ In b sel /\ update_utxos u (txs b) (b_ts b) = Err (EPanic s))
    | BTick ts perm =>
      snd (validate n ts perm) = Refused (EPanic s) \/
      (exists dropped id,
          snd (validate n ts perm) = Produced dropped /\
          (In (id, DFee (EPanic s)) dropped \/ In (id, DUpdate (EPanic s)) dropped))
    | BRefresh _ _ => False
    end.

  Definition wire_of_bytes (w : wire_op_bytes) : wire_op :=
    match w with
    | BTx s => WTx (tree_of_text s)
    | BSync now answers pref => WSync now (answers_of_bytes answers) pref
    | BTick ts perm => WTick ts perm
    | BRefresh poh order => WRefresh poh order
    end.

  Lemma wire_step_bytes_tree (n : node) (w : wire_op_bytes) :
    wire_step_bytes n w = wire_step n (wire_of_bytes w).
  Proof.
    destruct w as [s|now answers pref|ts perm|poh order];
      cbn [wire_step_bytes wire_of_bytes Panic_lemmas.wire_step].
    - rewrite handle_transaction_bytes_tree. reflexivity.
    - apply sync_with_bytes_tree.
    - reflexivity.
    - reflexivity.
  Qed.

  Lemma run_bytes_tree (ops : list wire_op_bytes) : forall n,
    run_bytes n ops = run_wire n (map wire_of_bytes ops).
  Proof.
    unfold run_bytes, Panic_lemmas.run_wire.
    induction ops as [|w r IH]; intros n; cbn [fold_left map]; [reflexivity|].
    rewrite wire_step_bytes_tree. apply IH.
  Qed.

  Lemma bytes_panic_tree (n : node) (w : wire_op_bytes) (s : panic_site) :
    bytes_panic n w s -> wire_panic n (wire_of_bytes w) s.
  Proof.
    destruct w as [t|now answers pref|ts perm|poh order];
      cbn [bytes_panic wire_of_bytes Panic_lemmas.wire_panic].
    - rewrite handle_transaction_result_bytes_tree. intros Hp. exact Hp.
    - intros [(t & si & sf & l & host & lh & now' & Hin & Hr & He)|(sel & b & u & Hs & Hb0 & He)].
      + left. exists t, (tree_of_text si), (tree_of_text sf), l, host, lh, now'.
        split; [exact (in_answers_of_bytes answers t si sf Hin)|].
        rewrite !response_of_answer_bytes_tree in Hr. split; [exact Hr | exact He].
      + right. exists sel, b, u. rewrite neighbors_of_bytes. split; [exact Hs|]. split; assumption.
    - intros Hp. exact Hp.
    - intros Hp. exact Hp.
  Qed.

  Lemma run_bytes_preserves_ok (ops : list wire_op_bytes) (n : node) :
    node_ok n -> node_ok (run_bytes n ops).
  Proof. intros Hn. rewrite run_bytes_tree. apply run_wire_preserves_ok. exact Hn. Qed.

  Lemma bytes_no_panic (n : node) (w : wire_op_bytes) (s : panic_site) :
    node_ok n -> ~ bytes_panic n w s.
  Proof.
    intros Hn Hp. apply bytes_panic_tree in Hp.
    exact (wire_no_panic value_fn addr_of sig_ok H gen_id Se validator on_curve Hb n _ s Hn Hp).
  Qed.

  Theorem then_any_operations_bytes (n : node) (ops : list wire_op_bytes) :
    node_ok n ->
    node_ok (run_bytes n ops) /\
    forall pre w post s, ops = pre ++ w :: post -> ~ bytes_panic (run_bytes n pre) w s.
  Proof.
    intros Hn. split; [apply run_bytes_preserves_ok; exact Hn|].
    intros pre w post s _. apply bytes_no_panic. apply run_bytes_preserves_ok. exact Hn.
  Qed.

  Corollary from_boot_bytes (ops : list wire_op_bytes) :
    node_ok (run_bytes node_empty ops) /\
    forall pre w post s, ops = pre ++ w :: post -> ~ bytes_panic (run_bytes node_empty pre) w s.
  Proof. apply then_any_operations_bytes. exact node_empty_ok. Qed.
End OpsBytes.

(* ---- the read-only endpoints ---- *)
Theorem blocks_endpoint_bytes (Se : settings) (n : node) (s : string) (site : panic_site) :
  (N.of_nat (length (chain (n_c n))) + s_limit Se <= two64)%N ->
  handle_blocks_bytes Se n s <> Some (Ok (Err (EPanic site))).
Proof.
  intros Hsane. unfold handle_blocks_bytes. destruct (parse_json s) as [j|]; [|discriminate].
  intros Heq. injection Heq as Heq.
  exact (Panic_lemmas.C14_blocks_endpoint Se n j site Hsane Heq).
Qed.

Theorem utxos_endpoint_bytes (n : node) (s : string) :
  handle_utxos_bytes n s = None \/ handle_utxos_bytes n s = Some (Err DType) \/
  exists a, handle_utxos_bytes n s = Some (Ok (utxos_of (ur (n_c n)) a)).
Proof.
  unfold handle_utxos_bytes. destruct (parse_json s) as [j|]; [|left; reflexivity]. right.
  destruct (handle_utxos_total n j) as [He|[a Ha]].
  - left. rewrite He. reflexivity.
  - right. exists a. rewrite Ha. reflexivity.
Qed.

(* the targets handed to Neighborhood.AddTargets are exactly the strings of the array, a null
   element being the empty string; anything else is refused *)
Theorem targets_endpoint_bytes (s : string) :
  handle_targets_bytes s = None \/ (exists e, handle_targets_bytes s = Some (Err e)) \/
  exists j l, parse_json s = Some j /\ dec_strs None j = Ok l /\
              handle_targets_bytes s = Some (Ok (elems l)).
Proof.
  unfold handle_targets_bytes, handle_targets. destruct (parse_json s) as [j|]; [|left; reflexivity].
  right. destruct (dec_strs None j) as [l|e] eqn:Ed.
  - right. exists j, l. split; [reflexivity|]. split; [exact Ed | reflexivity].
  - left. exists e. reflexivity.
Qed.

(* a text that is not JSON is refused by each of them *)
Theorem read_only_syntax_error (Se : settings) (n : node) (s : string) :
  parse_json s = None ->
  handle_blocks_bytes Se n s = None /\ handle_utxos_bytes n s = None /\ handle_targets_bytes s = None.
Proof.
  intros Hp. unfold handle_blocks_bytes, handle_utxos_bytes, handle_targets_bytes. rewrite Hp.
  repeat split; reflexivity.
Qed.
